(* WalHandoff.v — the hand-off from the three metrics write-ahead logs (datapoints, metric names, segment meta
   entries) to the durable store at a FORCED ROTATION (shutdown: ForceFlushMetricsBlock -> CheckAndRotate(true) ->
   rotateBlock / rotateSegment in pkg/segment/writer/metrics/metricssegment.go), and what the start-up recovery
   (RecoverWALData, RecoverMNameWALData, RecoverMEntryWALData) finds after a crash between any two of its steps.

   An ITEM is the logged content of one kind of log for one shard (the datapoints / names / meta entry whose append to
   the log had completed when the rotation starts).  The rotation is a sequence of MILESTONES:
     Stored k sh   the system call after which the content is durable in the store
                     KDp:   the write of the block's .tsg file (last call of flushBlock)
                     KName: the fsync of <segment>.mnm (FlushMetricNames)
                     KMeta: the fsync of the segment's line in metricmeta.json (meta.AddMetricsMetaEntry)
     Dropped k sh  the unlink of the log file (DeleteWAL).  The datapoint and name logs are per shard; the meta-entry
                   log is ONE file holding the entries of all shards: [Dropped KMeta sh] (sh = the shard whose
                   rotateSegment deletes it) removes the logged entries of every shard.
   Recovery replays a log that still exists into the store, so after a restart an item is in the store iff it was
   stored or its log still exists. *)
From SigM Require Import Base.
Open Scope N_scope.

Inductive kind := KDp | KName | KMeta.
Definition item := (kind * N)%type.

Inductive hop :=
| Stored (k : kind) (sh : N)
| Dropped (k : kind) (sh : N).

Definition kind_eqb (a b : kind) : bool :=
  match a, b with KDp, KDp | KName, KName | KMeta, KMeta => true | _, _ => false end.
Definition item_eqb (a b : item) : bool := kind_eqb (fst a) (fst b) && (snd a =? snd b).
Definition memi (x : item) (l : list item) : bool := existsb (item_eqb x) l.
Definition is_meta (k : kind) : bool := match k with KMeta => true | _ => false end.

Record hstate := { stored : list item; dropped : list item; meta_dropped : bool }.
Definition h0 : hstate := {| stored := []; dropped := []; meta_dropped := false |}.

Definition hstep (s : hstate) (o : hop) : hstate :=
  match o with
  | Stored k sh => {| stored := (k, sh) :: stored s; dropped := dropped s; meta_dropped := meta_dropped s |}
  | Dropped KMeta _ => {| stored := stored s; dropped := dropped s; meta_dropped := true |}
  | Dropped k sh => {| stored := stored s; dropped := (k, sh) :: dropped s; meta_dropped := meta_dropped s |}
  end.
Definition hrun (s : hstate) (ops : list hop) : hstate := fold_left hstep ops s.

(* the log that held the item no longer exists *)
Definition log_gone (s : hstate) (x : item) : bool :=
  if is_meta (fst x) then meta_dropped s else memi x (dropped s).

(* after restart + the three Recover* functions the item is in the store *)
Definition recovered (s : hstate) (x : item) : bool := memi x (stored s) || negb (log_gone s x).
Definition all_recovered (s : hstate) (xs : list item) : bool := forallb (recovered s) xs.

(* a crash after ANY number of milestones loses none of the items xs *)
Definition crash_safe (xs : list item) (ops : list hop) : Prop :=
  forall k, all_recovered (hrun h0 (firstn k ops)) xs = true.

(* "store first, then drop the log": every Dropped is preceded by the Stored of everything (of xs) the log held *)
Definition covers (xs : list item) (o : hop) : list item :=
  match o with
  | Stored _ _ => []
  | Dropped KMeta _ => filter (fun x => is_meta (fst x)) xs
  | Dropped k sh => filter (item_eqb (k, sh)) xs
  end.
Fixpoint ordered_from (st : list item) (xs : list item) (ops : list hop) : bool :=
  match ops with
  | [] => true
  | Stored k sh :: r => ordered_from ((k, sh) :: st) xs r
  | o :: r => forallb (fun x => memi x st) (covers xs o) && ordered_from st xs r
  end.

(* ---- the code's sequence (fix 739a6ba: the shared meta-entry log is deleted once, after every shard) ---- *)
(* CheckAndRotate(true) of one shard: rotateBlock (flushBlock; delete the datapoint WAL), then rotateSegment
   (FlushMetricNames; cleanAndInitNewMNameWal deletes the name WAL; AddMetricsMetaEntry) *)
Definition rotate_shard_fixed (sh : N) : list hop :=
  [Stored KDp sh; Dropped KDp sh; Stored KName sh; Dropped KName sh; Stored KMeta sh].
(* ForceFlushMetricsBlock: one goroutine per shard with data, wg.Wait(), then the meta-entry WAL is deleted.  The
   milestones of the shards interleave in any order; [forced_rotation_fixed] is the schedule "one shard after the
   other", [Interleave] describes all of them.  (The shard number of [Dropped KMeta] is immaterial: one file.) *)
Definition meta_drop : hop := Dropped KMeta 0.
Definition forced_rotation_fixed (shards : list N) : list hop :=
  flat_map rotate_shard_fixed shards ++ [meta_drop].
Inductive Interleave : list (list hop) -> list hop -> Prop :=
| IL_done : forall qs, Forall (fun q => q = []) qs -> Interleave qs []
| IL_step : forall qs1 o q qs2 r,
    Interleave (qs1 ++ q :: qs2) r -> Interleave (qs1 ++ (o :: q) :: qs2) (o :: r).
(* the log dropped before the shards are registered (e.g. DeleteWAL moved in front of wg.Wait()) *)
Definition forced_rotation_drop_first (shards : list N) : list hop :=
  meta_drop :: flat_map rotate_shard_fixed shards.

(* PRE-FIX (before 739a6ba): the first shard to finish rotateSegment deleted the shared meta-entry WAL and set
   metricsMEntryWalState.wal = nil, so the later shards did not *)
Definition rotate_shard (first : bool) (sh : N) : list hop :=
  [Stored KDp sh; Dropped KDp sh; Stored KName sh; Dropped KName sh; Stored KMeta sh]
  ++ (if first then [Dropped KMeta sh] else []).
Definition forced_rotation (shards : list N) : list hop :=
  match shards with
  | [] => []
  | sh :: r => rotate_shard true sh ++ flat_map (rotate_shard false) r
  end.
(* ... and with the two last blocks of that rotateSegment the other way round (seed C10f) *)
Definition rotate_shard_swapped (first : bool) (sh : N) : list hop :=
  [Stored KDp sh; Dropped KDp sh; Stored KName sh; Dropped KName sh]
  ++ (if first then [Dropped KMeta sh] else []) ++ [Stored KMeta sh].
Definition forced_rotation_swapped (shards : list N) : list hop :=
  match shards with
  | [] => []
  | sh :: r => rotate_shard_swapped true sh ++ flat_map (rotate_shard_swapped false) r
  end.

(* ---- the start-up recovery is itself a hand-off.  Current code (fix 4a40913): RecoverWALData reads the WAL files of
   a block into a rebuilt block, calls flushBlock and only then deletes the files; RecoverMNameWALData calls
   FlushMetricNames and then deletes the name WAL file; RecoverMEntryWALData appends the logged entries to
   metricmeta.json and leaves the log in place (the next NewWAL truncates it).  The three functions run one after the
   other over all shards. ---- *)
Definition recovery_ops_store_first (shards : list N) : list hop :=
  flat_map (fun sh => [Stored KDp sh; Dropped KDp sh]) shards
  ++ flat_map (fun sh => [Stored KName sh; Dropped KName sh]) shards
  ++ map (Stored KMeta) shards.
(* PRE-FIX (before 4a40913): each file was deleted as soon as it was read, the store written afterwards *)
Definition recovery_ops (shards : list N) : list hop :=
  flat_map (fun sh => [Dropped KDp sh; Stored KDp sh]) shards
  ++ flat_map (fun sh => [Dropped KName sh; Stored KName sh]) shards
  ++ map (Stored KMeta) shards.

Definition items (shards : list N) : list item :=
  flat_map (fun sh => [(KDp, sh); (KName, sh); (KMeta, sh)]) shards.

(* ---- comparison with observations of the real forced rotation + real recovery ---- *)
Definition hop_eqb (a b : hop) : bool :=
  match a, b with
  | Stored k s, Stored k' s' | Dropped k s, Dropped k' s' => kind_eqb k k' && (s =? s')
  | _, _ => false
  end.

(* obs: (number of milestones completed before the crash, item, the real recovery has the item in the store) *)
Fixpoint bad_handoff (ms : list hop) (obs : list (nat * (item * bool))) (i : nat) : list nat :=
  match obs with
  | [] => []
  | (j, (x, present)) :: r =>
      (if Bool.eqb (recovered (hrun h0 (firstn j ms)) x) present then [] else [i]) ++ bad_handoff ms r (S i)
  end.

Definition check_handoff (expected observed : list hop) (obs : list (nat * (item * bool))) : list nat :=
  (if list_eqb hop_eqb expected observed then [] else [O]) ++ bad_handoff observed obs 1.

(* several shards rotate concurrently: the observed milestones must be a schedule of the model, i.e. every shard's own
   milestones, in order, are [rotate_shard_fixed sh], and the only other milestone is the meta drop, at the end *)
Definition hop_shard (o : hop) : N := match o with Stored _ sh | Dropped _ sh => sh end.
Definition is_meta_drop (o : hop) : bool := match o with Dropped KMeta _ => true | _ => false end.
Definition proj_shard (sh : N) (ops : list hop) : list hop :=
  filter (fun o => negb (is_meta_drop o) && (hop_shard o =? sh)) ops.
Definition is_schedule (shards : list N) (ops : list hop) : bool :=
  forallb (fun sh => list_eqb hop_eqb (proj_shard sh ops) (rotate_shard_fixed sh)) shards
  && list_eqb hop_eqb (filter is_meta_drop ops) [meta_drop]
  && (match rev ops with o :: _ => is_meta_drop o | [] => false end)
  && Nat.eqb (length ops) (5 * length shards + 1).
Definition check_handoff_schedule (shards : list N) (observed : list hop) (obs : list (nat * (item * bool))) : list nat :=
  (if is_schedule shards observed then [] else [O]) ++ bad_handoff observed obs 1.

(* WalOrder.v — the order in which RecoverWALData replays the WAL files of one metrics block:
   extractWALFileInfo appends the names in os.ReadDir order, i.e. sorted by file name as byte
   strings; the files of a block differ only in their decimal index suffix "_<i>.wal"
   (i = 0, 1, 2, ... in creation = append order). *)
From SigM Require Import Base.
Open Scope nat_scope.

(* decimal digits of n as ASCII codes, most significant first *)
Fixpoint dec_fuel (fuel n : nat) (acc : list nat) : list nat :=
  match fuel with
  | O => acc
  | S f => let acc' := (48 + n mod 10) :: acc in
           if Nat.ltb n 10 then acc' else dec_fuel f (n / 10) acc'
  end.
Definition dec (n : nat) : list nat := dec_fuel (S n) n [].

(* suffix of the file name that differs: "<i>.wal" *)
Definition suffix (i : nat) : list nat := dec i ++ [46; 119; 97; 108].

Fixpoint lex_leb (a b : list nat) : bool :=
  match a, b with
  | [], _ => true
  | _ :: _, [] => false
  | x :: a', y :: b' => if Nat.ltb x y then true else if Nat.ltb y x then false else lex_leb a' b'
  end.

Fixpoint insert_idx (i : nat) (l : list nat) : list nat :=
  match l with
  | [] => [i]
  | j :: r => if lex_leb (suffix i) (suffix j) then i :: l else j :: insert_idx i r
  end.

(* indices 0..n-1 in directory (file-name) order *)
Definition dir_order (n : nat) : list nat := fold_right insert_idx [] (seq 0 n).

(* the FIXED extractWALFileInfo (fixes/C10-wal-replay-order): the names of a block are then sorted by
   their numeric index (sort.SliceStable on ParseUint of the suffix).  A file is represented by its
   index, so ParseUint (FormatUint i) = i is built into the representation; the harness observes the
   real function on real names. *)
Fixpoint insert_num (i : nat) (l : list nat) : list nat :=
  match l with
  | [] => [i]
  | j :: r => if Nat.ltb i j then i :: l else j :: insert_num i r
  end.
Definition sort_num (l : list nat) : list nat := fold_right insert_num [] l.
Definition replay_order (n : nat) : list nat := sort_num (dir_order n).

Definition nat_list_eqb := list_eqb Nat.eqb.

(* cases: (number of files, observed replay order of the indices) *)
Fixpoint bad_order (cs : list (nat * list nat)) (i : nat) : list nat :=
  match cs with
  | [] => []
  | (n, obs) :: r => (if nat_list_eqb (replay_order n) obs then [] else [i]) ++ bad_order r (S i)
  end.
Definition check_wal_order cs := bad_order cs 0.

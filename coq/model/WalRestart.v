(* WalRestart.v — the start-up recovery of the metrics write-ahead logs as a SEQUENCE OF THREE FUNCTIONS that cooperate
   through the file system (cmd/startup/startup.go, startIngestServer):

       metrics.RecoverWALData()        (RDp)    rebuilds the block of every (shard, segment, block) that has datapoint
                                               log files: flushBlock = FlushSummary (os.MkdirAll of the segment
                                               directory final/ts/<shard>/<segID>/, .mbsu) + .tso/.tsg opened O_TRUNC;
                                               then the log files are deleted
       metrics.RecoverMNameWALData()   (RNm)    FlushMetricNames: since fix 5e1901f os.MkdirAll of the segment directory
                                               ([mk] = true), then <segment dir>/<segID>.mnm is opened with O_CREATE,
                                               the names are written and the log is deleted.  Before the fix ([mk] =
                                               false) the directory was NOT created here: on ENOENT the function logs a
                                               warning and keeps the name log "for the next restart" (fix 4a40913)
       metrics.RecoverMEntryWALData()  (RMeta)  appends every logged entry to metricmeta.json (its directory exists since
                                               InitMetricsMeta); the log stays

   The state is what a restart finds of the crashed open segment of one shard: whether its directory exists (it is
   created by the first flushBlock of the segment, i.e. a segment that is still in its FIRST block has none), the
   completed appends of its datapoint log (all files of the one block that has a log), its block files, the completed
   appends of its name log, its .mnm file, its entry in the shared meta-entry log and its line in metricmeta.json.
   Every function is one step (a restart that is not interrupted; crashes INSIDE the recovery are WalHandoff.v's
   recovery_ops_store_first).  [mk] = FlushMetricNames creates the directory itself (os.MkdirAll): true is the code (fix 5e1901f), false the code before
   it, kept for the C10_prefix_restart_* theorems. *)
From SigM Require Import Base.
Open Scope N_scope.

Inductive rfun := RDp | RNm | RMeta.

Record seg := mkSeg {
  sdir : bool;                 (* final/ts/<shard>/<segID>/ exists *)
  dp_blk : N;                  (* the block number the datapoint log files carry in their name *)
  dp_log : list N;             (* datapoints (timestamps) of the completed appends, files in replay order; [] = nothing to replay *)
  blocks : list (N * list N);  (* block files of the segment: block number -> datapoints *)
  nm_log : list N;             (* metric names of the completed appends of the name log *)
  nm_st : list N;              (* the names in <segID>.mnm ([] = no file) *)
  me_log : bool;               (* the meta-entry log holds the entry of this segment *)
  me_st : bool                 (* metricmeta.json lists the segment *)
}.

Definition nonempty {A} (l : list A) : bool := match l with [] => false | _ => true end.

Fixpoint set_blk (b : N) (v : list N) (bs : list (N * list N)) : list (N * list N) :=
  match bs with
  | [] => [(b, v)]
  | (b', v') :: r => if b' =? b then (b, v) :: r else (b', v') :: set_blk b v r
  end.
Fixpoint get_blk (b : N) (bs : list (N * list N)) : option (list N) :=
  match bs with
  | [] => None
  | (b', v') :: r => if b' =? b then Some v' else get_blk b r
  end.

(* one recovery function on one segment *)
Definition rstep (mk : bool) (s : seg) (f : rfun) : seg :=
  match f with
  | RDp =>
      if nonempty (dp_log s)
      then mkSeg true (dp_blk s) [] (set_blk (dp_blk s) (dp_log s) (blocks s)) (nm_log s) (nm_st s) (me_log s) (me_st s)
      else s
  | RNm =>
      if nonempty (nm_log s) && (sdir s || mk)
      then mkSeg true (dp_blk s) (dp_log s) (blocks s) [] (nm_log s) (me_log s) (me_st s)
      else s     (* nothing logged, or ENOENT: the log is kept, nothing is stored *)
  | RMeta =>
      if me_log s
      then mkSeg (sdir s) (dp_blk s) (dp_log s) (blocks s) (nm_log s) (nm_st s) true true
      else s
  end.

(* a restart = the functions in the order the start-up code calls them *)
Definition restart (mk : bool) (order : list rfun) (s : seg) : seg := fold_left (rstep mk) order s.
(* ... each function loops over all shards before the next one starts *)
Definition rstep_all (mk : bool) (ss : list seg) (f : rfun) : list seg := map (fun s => rstep mk s f) ss.
Definition restart_all (mk : bool) (order : list rfun) (ss : list seg) : list seg := fold_left (rstep_all mk) order ss.

(* startIngestServer *)
Definition startup_order : list rfun := [RDp; RNm; RMeta].
(* seed C10h: "replay the small name logs first" *)
Definition names_first_order : list rfun := [RNm; RDp; RMeta].

(* what ONE restart must achieve (property text): the state in which everything logged is in the store and nothing
   else changed: the block of the log holds exactly the logged datapoints, the other blocks are untouched, .mnm holds
   the logged names, the segment is listed *)
Definition replayed_state (s : seg) : seg :=
  mkSeg (sdir s || nonempty (dp_log s) || nonempty (nm_log s))
        (dp_blk s)
        []
        (if nonempty (dp_log s) then set_blk (dp_blk s) (dp_log s) (blocks s) else blocks s)
        []
        (if nonempty (nm_log s) then nm_log s else nm_st s)
        (me_log s)
        (me_st s || me_log s).

(* the crash states in which the names could be stored before 5e1901f (mk = false): no logged names, or the directory exists,
   or there are datapoints to replay (whose flushBlock creates it) *)
Definition names_storable (mk : bool) (s : seg) : bool :=
  mk || negb (nonempty (nm_log s)) || sdir s || nonempty (dp_log s).

(* orders with RecoverWALData before RecoverMNameWALData (every function called at least once) *)
Fixpoint mem_rfun (f : rfun) (l : list rfun) : bool :=
  match l with
  | [] => false
  | g :: r => (match f, g with RDp, RDp | RNm, RNm | RMeta, RMeta => true | _, _ => false end) || mem_rfun f r
  end.
Fixpoint dp_then_names (l : list rfun) : bool :=
  match l with
  | [] => false
  | RDp :: r => mem_rfun RNm r || dp_then_names r
  | _ :: r => dp_then_names r
  end.
Definition good_order (mk : bool) (l : list rfun) : bool :=
  mem_rfun RDp l && mem_rfun RNm l && mem_rfun RMeta l && (mk || dp_then_names l).

(* ---- comparison with the real restart (through startIngestServer) on the real crash states ---- *)
Definition same_set (a b : list N) : bool :=
  forallb (fun x => existsb (N.eqb x) b) a && forallb (fun x => existsb (N.eqb x) a) b.
Definition opt_set (o : option (list N)) : list N := match o with Some l => l | None => [] end.
Definition same_blocks (a b : list (N * list N)) : bool :=
  forallb (fun kv => same_set (snd kv) (opt_set (get_blk (fst kv) b))) a &&
  forallb (fun kv => same_set (snd kv) (opt_set (get_blk (fst kv) a))) b.
Definition seg_same (a b : seg) : bool :=
  Bool.eqb (sdir a) (sdir b) && same_set (dp_log a) (dp_log b) && same_blocks (blocks a) (blocks b)
  && same_set (nm_log a) (nm_log b) && same_set (nm_st a) (nm_st b)
  && Bool.eqb (me_log a) (me_log b) && Bool.eqb (me_st a) (me_st b).

(* cases: (state before the restart, state after the real restart); the model runs the START-UP order of the code *)
Fixpoint bad_restart (mk : bool) (cs : list (seg * seg)) (i : nat) : list nat :=
  match cs with
  | [] => []
  | (pre, post) :: r =>
      (if seg_same (restart mk startup_order pre) post then [] else [i]) ++ bad_restart mk r (S i)
  end.
Definition check_restart (mk : bool) (cs : list (seg * seg)) : list nat := bad_restart mk cs 0.

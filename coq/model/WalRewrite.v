(* WalRewrite.v — Wal.Write: the log is REPLACED by one new block (used every second for the
   metrics meta-entry log).  System-call level model of both protocols:
     in place (before the fix):  ftruncate(0); write version; write size; write crc; write payload
     atomic   (current code):    open tmp O_TRUNC; write version/size/crc/payload to tmp; fsync; rename
   and what a restart reads from the log file after a crash at any call boundary. *)
From SigM Require Import Base Crc32 Wal.
Open Scope N_scope.

Inductive wop :=
| WTrunc                      (* the log file itself is truncated to length 0 *)
| WAppend (b : bytes)         (* bytes appended to the log file *)
| TTrunc                      (* <log>.tmp created / truncated *)
| TAppend (b : bytes)         (* bytes appended to <log>.tmp *)
| TRename.                    (* rename(<log>.tmp, <log>) *)

Record wfs := { logf : bytes; tmpf : bytes }.

Definition wstep (f : wfs) (o : wop) : wfs :=
  match o with
  | WTrunc => {| logf := []; tmpf := tmpf f |}
  | WAppend b => {| logf := logf f ++ b; tmpf := tmpf f |}
  | TTrunc => {| logf := logf f; tmpf := [] |}
  | TAppend b => {| logf := logf f; tmpf := tmpf f ++ b |}
  | TRename => {| logf := tmpf f; tmpf := [] |}
  end.

Definition wrun (f : wfs) (ops : list wop) : wfs := fold_left wstep ops f.

(* the pieces writeBlockToFile hands to write(2) *)
Definition parts (p : bytes) : list bytes :=
  [le32 (N.of_nat (length p) + 4); le32 (crc32 p); p].

Definition write_inplace (p : bytes) : list wop :=
  WTrunc :: WAppend [WAL_VERSION] :: map WAppend (parts p).
Definition write_atomic (p : bytes) : list wop :=
  TTrunc :: TAppend [WAL_VERSION] :: map TAppend (parts p) ++ [TRename].

(* NewWAL: the file is created with the version byte *)
Definition fs_new : wfs := {| logf := [WAL_VERSION]; tmpf := [] |}.

Definition writes (proto : bytes -> list wop) (ps : list bytes) : list wop := flat_map proto ps.

(* what restart reads: the verified blocks of the log file *)
Definition recovered (f : wfs) : list bytes * status := read_file (logf f).

(* Specification: after a crash that follows the first k calls of a sequence of Writes, restart
   reads exactly the block of the last COMPLETED Write (nothing if none completed yet). *)
Fixpoint last_completed (len : bytes -> nat) (ps : list bytes) (k : nat) (cur : option bytes) : option bytes :=
  match ps with
  | [] => cur
  | p :: r => if Nat.leb (len p) k then last_completed len r (k - len p) (Some p) else cur
  end.

Definition expected_blocks (o : option bytes) : list bytes := match o with Some p => [p] | None => [] end.

(* ---- comparison with observations of the real Wal.Write ---- *)
Definition wop_eqb (a b : wop) : bool :=
  match a, b with
  | WTrunc, WTrunc | TTrunc, TTrunc | TRename, TRename => true
  | WAppend x, WAppend y | TAppend x, TAppend y => bytes_eqb x y
  | _, _ => false
  end.

(* case: payloads written by successive Write calls, the observed protocol tokens, and for sampled
   prefixes k the blocks (as entry-id lists through tbl) the real iterator returned + status *)
Fixpoint assoc_ids (p : bytes) (tbl : list (bytes * list N)) : list N :=
  match tbl with [] => [] | (a, ids) :: r => if bytes_eqb a p then ids else assoc_ids p r end.

Definition model_ids (tbl : list (bytes * list N)) (f : wfs) : list N * N :=
  let '(bs, st) := recovered f in
  (flat_map (fun p => assoc_ids p tbl) bs, match st with CleanEOF => 0 | Err => 1 end).

Fixpoint bad_prefixes (tbl : list (bytes * list N)) (ops : list wop) (obs : list (nat * (list N * N))) (i : nat) : list nat :=
  match obs with
  | [] => []
  | (k, (ids, st)) :: r =>
      let '(mi, ms) := model_ids tbl (wrun fs_new (firstn k ops)) in
      (if list_eqb N.eqb mi ids && (ms =? st) then [] else [i]) ++ bad_prefixes tbl ops r (S i)
  end.

Definition check_rewrite (atomic : bool) (payloads : list bytes) (tbl : list (bytes * list N))
  (observed_ops : list wop) (obs : list (nat * (list N * N))) : list nat :=
  (if list_eqb wop_eqb (writes (if atomic then write_atomic else write_inplace) payloads) observed_ops then [] else [O])
  ++ bad_prefixes tbl observed_ops obs 1.

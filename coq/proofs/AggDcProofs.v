(* AggDcProofs.v — proofs about the distinct-count model (C04): the hash key is an injective function of the VALUE
   for integers, the count is the number of distinct values, it does not depend on how the events are cut into
   blocks / segments / buckets or on the merge order; a key computed through float64 is injective only below 2^53. *)
From Coq Require Import List Arith NArith ZArith Bool Lia ZifyN ZifyNat ZifyBool Permutation.
From SigM Require Import Base Agg AggDc.
From SigP Require Import BaseProofs.
Import ListNotations.
Open Scope Z_scope.

(* ---------- bytes ---------- *)
Lemma bytes_eqb_spec : forall a b : list N, bytes_eqb a b = true <-> a = b.
Proof.
  unfold bytes_eqb. induction a as [|x a IH]; destruct b as [|y b]; cbn; split; try congruence; auto.
  - rewrite andb_true_iff, N.eqb_eq, IH. intros [-> ->]; reflexivity.
  - intros E; injection E as -> ->. rewrite andb_true_iff, N.eqb_eq, IH. auto.
Qed.

Definition bytes_dec : forall a b : list N, {a = b} + {a <> b} := list_eq_dec N.eq_dec.

Lemma mem_key_In : forall k l, mem_key k l = true <-> In k l.
Proof.
  induction l as [|x l IH]; cbn; [split; [discriminate|tauto]|].
  rewrite orb_true_iff, bytes_eqb_spec, IH. split; intros [H|H]; auto.
Qed.

(* the executable de-duplication is the standard library's [nodup] *)
Lemma dedup_keys_nodup : forall l, dedup_keys l = nodup bytes_dec l.
Proof.
  induction l as [|x l IH]; cbn [dedup_keys nodup]; [reflexivity|].
  rewrite IH. destruct (in_dec bytes_dec x l) as [Hin|Hn].
  - assert (E : mem_key x (nodup bytes_dec l) = true) by (apply mem_key_In, nodup_In; exact Hin).
    rewrite E; reflexivity.
  - destruct (mem_key x (nodup bytes_dec l)) eqn:E; [|reflexivity].
    apply mem_key_In, nodup_In in E. contradiction.
Qed.

Lemma dedup_keys_NoDup : forall l, NoDup (dedup_keys l).
Proof. intros; rewrite dedup_keys_nodup; apply NoDup_nodup. Qed.
Lemma dedup_keys_In : forall k l, In k (dedup_keys l) <-> In k l.
Proof. intros; rewrite dedup_keys_nodup; apply nodup_In. Qed.

(* two duplicate-free lists with the same elements have the same length *)
Lemma nodup_same_elements_length {A} : forall l1 l2 : list A,
  NoDup l1 -> NoDup l2 -> (forall x, In x l1 <-> In x l2) -> length l1 = length l2.
Proof.
  intros l1 l2 N1 N2 H. apply Nat.le_antisymm; apply NoDup_incl_length; auto; intros x Hx; apply H; exact Hx.
Qed.

Lemma dedup_keys_length_ext : forall l1 l2, (forall k, In k l1 <-> In k l2) ->
  length (dedup_keys l1) = length (dedup_keys l2).
Proof.
  intros. apply nodup_same_elements_length; try apply dedup_keys_NoDup.
  intros k; rewrite !dedup_keys_In; auto.
Qed.

(* an injective image has as many distinct elements as the list *)
Lemma nodup_map_inj_length {A B} (da : forall x y : A, {x = y} + {x <> y}) (db : forall x y : B, {x = y} + {x <> y})
  (f : A -> B) : forall l, (forall x y, In x l -> In y l -> f x = f y -> x = y) ->
  length (nodup db (map f l)) = length (nodup da l).
Proof.
  induction l as [|x l IH]; intros Hinj; cbn [map nodup]; [reflexivity|].
  assert (IH' : length (nodup db (map f l)) = length (nodup da l)).
  { apply IH. intros a b Ha Hb; apply Hinj; right; assumption. }
  destruct (in_dec db (f x) (map f l)) as [Hin|Hn]; destruct (in_dec da x l) as [Hx|Hx]; cbn [length]; auto.
  - exfalso. apply in_map_iff in Hin as [y [E Hy]]. apply Hx.
    assert (y = x) by (apply Hinj; [right; exact Hy|left; reflexivity|exact E]). subst; exact Hy.
  - exfalso. apply Hn, in_map; exact Hx.
Qed.

(* ---------- the key of a number is an injective function of its value ---------- *)
Lemma le64_inj : forall a b : N, (a < 18446744073709551616)%N -> (b < 18446744073709551616)%N -> le64 a = le64 b -> a = b.
Proof.
  intros a b Ha Hb E. unfold le64 in E.
  rewrite <- (le_dec_enc 8 a), <- (le_dec_enc 8 b) by (cbn; exact Ha || exact Hb). rewrite E; reflexivity.
Qed.

Lemma u64_of_i64_bound : forall z, (u64_of_i64 z < 18446744073709551616)%N.
Proof. intros; unfold u64_of_i64, two64d. lia. Qed.

Lemma u64_of_i64_inj : forall a b, in_i64 a -> in_i64 b -> u64_of_i64 a = u64_of_i64 b -> a = b.
Proof. unfold in_i64, u64_of_i64, two63d, two64d. intros a b Ha Hb E. lia. Qed.

Lemma key_int_inj : forall a b, in_i64 a -> in_i64 b -> hll_key (SInt a) = hll_key (SInt b) -> a = b.
Proof.
  intros a b Ha Hb E. cbn in E. apply le64_inj in E; try apply u64_of_i64_bound.
  apply u64_of_i64_inj; assumption.
Qed.

Lemma key_uint_inj : forall a b, in_u64 a -> in_u64 b -> hll_key (SUint a) = hll_key (SUint b) -> a = b.
Proof.
  unfold in_u64, two64d. intros a b Ha Hb E. cbn in E. apply le64_inj in E; lia.
Qed.

Lemma key_flt_inj : forall a b : N, (a < 18446744073709551616)%N -> (b < 18446744073709551616)%N ->
  hll_key (SFlt a) = hll_key (SFlt b) -> a = b.
Proof. intros a b Ha Hb E; cbn in E; apply le64_inj; assumption. Qed.

(* the same non-negative number stored as int64 and as uint64 has ONE key *)
Lemma key_int_uint_agree : forall n, 0 <= n < two63d -> hll_key (SInt n) = hll_key (SUint n).
Proof.
  unfold two63d. intros n H. cbn [hll_key]. unfold u64_of_i64, two64d. rewrite Z.mod_small by lia. reflexivity.
Qed.

(* ---------- the count ---------- *)
Lemma dc_count_with_nodup : forall key l,
  dc_count_with key l = Z.of_nat (length (nodup bytes_dec (map key l))).
Proof. intros; unfold dc_count_with, dc_keys_with; rewrite dedup_keys_nodup; reflexivity. Qed.

(* distinct count of integers = number of distinct integers, for EVERY list of int64 values *)
Lemma dc_count_ints : forall l, Forall in_i64 l ->
  dc_count (map SInt l) = Z.of_nat (length (nodup Z.eq_dec l)).
Proof.
  intros l H. unfold dc_count. rewrite dc_count_with_nodup, map_map. f_equal.
  apply nodup_map_inj_length. rewrite Forall_forall in H.
  intros x y Hx Hy E. apply key_int_inj; auto.
Qed.

Lemma dc_count_uints : forall l, Forall in_u64 l ->
  dc_count (map SUint l) = Z.of_nat (length (nodup Z.eq_dec l)).
Proof.
  intros l H. unfold dc_count. rewrite dc_count_with_nodup, map_map. f_equal.
  apply nodup_map_inj_length. rewrite Forall_forall in H.
  intros x y Hx Hy E. apply key_uint_inj; auto.
Qed.

Lemma dc_count_le_length : forall key l, dc_count_with key l <= Z.of_nat (length l).
Proof.
  intros. unfold dc_count_with, dc_keys_with. apply inj_le.
  rewrite <- (map_length key l). apply NoDup_incl_length; [apply dedup_keys_NoDup|].
  intros k; apply dedup_keys_In.
Qed.

(* any hash function that does not collide on the keys that occur yields the same count *)
Section Hash.
  Variable h : list N -> N.
  Lemma dc_count_is_number_of_distinct_hashes : forall l,
    (forall a b, In a l -> In b l -> h (hll_key a) = h (hll_key b) -> hll_key a = hll_key b) ->
    Z.of_nat (length (nodup N.eq_dec (map (fun v => h (hll_key v)) l))) = dc_count l.
  Proof.
    intros l Hc. unfold dc_count. rewrite dc_count_with_nodup. f_equal.
    rewrite <- (map_map hll_key h). apply nodup_map_inj_length.
    intros x y Hx Hy E. apply in_map_iff in Hx as [a [<- Ha]]. apply in_map_iff in Hy as [b [<- Hb]]. auto.
  Qed.
End Hash.

(* order and repetition of the events do not matter *)
Lemma dc_count_ext : forall key l1 l2, (forall v, In v l1 <-> In v l2) -> dc_count_with key l1 = dc_count_with key l2.
Proof.
  intros key l1 l2 H. unfold dc_count_with, dc_keys_with. f_equal. apply dedup_keys_length_ext.
  intros k. rewrite !in_map_iff. split; intros [v [E Hv]]; exists v; split; auto; apply H; exact Hv.
Qed.

Lemma dc_count_perm : forall key l1 l2, Permutation l1 l2 -> dc_count_with key l1 = dc_count_with key l2.
Proof.
  intros key l1 l2 P. apply dc_count_ext. intros v; split; apply Permutation_in; [exact P|apply Permutation_sym; exact P].
Qed.

(* union of two sketches = sketch of the concatenation *)
Lemma dc_union_In : forall a b k, In k (dc_union a b) <-> In k a \/ In k b.
Proof. intros; unfold dc_union; rewrite dedup_keys_In, in_app_iff; tauto. Qed.

Lemma dc_union_keys : forall l1 l2,
  length (dc_union (dc_keys l1) (dc_keys l2)) = length (dc_keys (l1 ++ l2)).
Proof.
  intros. unfold dc_union, dc_keys, dc_keys_with. apply dedup_keys_length_ext.
  intros k. rewrite map_app, !in_app_iff, !dedup_keys_In. tauto.
Qed.

Lemma dc_union_comm_length : forall a b, length (dc_union a b) = length (dc_union b a).
Proof. intros; unfold dc_union; apply dedup_keys_length_ext; intros k; rewrite !in_app_iff; tauto. Qed.

Lemma dc_union_idem_length : forall l, length (dc_union (dc_keys l) (dc_keys l)) = length (dc_keys l).
Proof.
  intros. unfold dc_union. rewrite <- (dedup_keys_length_ext (dc_keys l) (dc_keys l ++ dc_keys l)).
  - apply nodup_same_elements_length; [apply dedup_keys_NoDup|apply dedup_keys_NoDup|intros; apply dedup_keys_In].
  - intros k; rewrite in_app_iff; tauto.
Qed.

Lemma dc_merge_blocks_In : forall bs acc k,
  In k (fold_left (fun a b => dc_union a (dc_keys b)) bs acc) <-> In k acc \/ In k (map hll_key (concat bs)).
Proof.
  induction bs as [|b bs IH]; intros acc k; cbn [fold_left concat map].
  - cbn [In]. tauto.
  - rewrite IH, dc_union_In, map_app, in_app_iff. unfold dc_keys, dc_keys_with. rewrite dedup_keys_In. tauto.
Qed.

Lemma dc_merge_blocks_NoDup : forall bs acc, NoDup acc ->
  NoDup (fold_left (fun a b => dc_union a (dc_keys b)) bs acc).
Proof.
  induction bs as [|b bs IH]; intros acc H; cbn [fold_left]; auto.
  apply IH. apply dedup_keys_NoDup.
Qed.

(* merging the sketches of the blocks (any cut, the given order) = one sketch over all events *)
Lemma dc_merge_blocks_count : forall bs,
  Z.of_nat (length (dc_merge_blocks bs)) = dc_count (concat bs).
Proof.
  intros. unfold dc_merge_blocks, dc_count, dc_count_with, dc_keys_with. f_equal.
  apply nodup_same_elements_length.
  - apply dc_merge_blocks_NoDup; constructor.
  - apply dedup_keys_NoDup.
  - intros k. rewrite dc_merge_blocks_In, dedup_keys_In. cbn; tauto.
Qed.

Lemma dc_segmentation_irrelevant : forall bs bs', Permutation (concat bs) (concat bs') ->
  length (dc_merge_blocks bs) = length (dc_merge_blocks bs').
Proof.
  intros bs bs' P. apply Nat2Z.inj. rewrite !dc_merge_blocks_count. apply dc_count_perm; exact P.
Qed.

(* ---------- the key through float64 ---------- *)
Lemma f64_of_Z_zero : f64_of_Z 0 = 0%N.
Proof. reflexivity. Qed.

Lemma pow2_split : forall e, 0 <= e <= 52 -> 2 ^ e * 2 ^ (52 - e) = two52.
Proof. intros e H. rewrite <- Z.pow_add_r by lia. replace (e + (52 - e)) with 52 by lia. reflexivity. Qed.

(* below 2^53 the conversion is sign / exponent / mantissa of the exact value *)
Lemma f64_of_Z_small : forall z, z <> 0 -> Z.abs z < two53 ->
  let e := Z.log2 (Z.abs z) in
  let m := Z.abs z * 2 ^ (52 - e) - two52 in
  0 <= e <= 52 /\ 0 <= m < two52 /\
  f64_of_Z z = Z.to_N ((if z <? 0 then two63d else 0) + (e + 1023) * two52 + m).
Proof.
  intros z Hz Hs e m.
  assert (Ha : 0 < Z.abs z) by lia.
  assert (He0 : 0 <= e) by apply Z.log2_nonneg.
  assert (He : e < 53). { apply Z.log2_lt_pow2; [exact Ha|exact Hs]. }
  destruct (Z.log2_spec (Z.abs z) Ha) as [Hlo Hhi]. fold e in Hlo, Hhi.
  assert (Hp : 0 < 2 ^ (52 - e)) by (apply Z.pow_pos_nonneg; lia).
  assert (Hsplit : 2 ^ e * 2 ^ (52 - e) = two52) by (apply pow2_split; lia).
  assert (Hsucc : 2 ^ Z.succ e * 2 ^ (52 - e) = 2 * two52).
  { rewrite Z.pow_succ_r by lia. rewrite <- Z.mul_assoc, Hsplit. reflexivity. }
  assert (Hm : 0 <= m < two52).
  { subst m. split.
    - assert (2 ^ e * 2 ^ (52 - e) <= Z.abs z * 2 ^ (52 - e)) by (apply Z.mul_le_mono_nonneg_r; lia). lia.
    - assert (Z.abs z * 2 ^ (52 - e) < 2 ^ Z.succ e * 2 ^ (52 - e)) by (apply Z.mul_lt_mono_pos_r; lia). lia. }
  split; [lia|]. split; [exact Hm|].
  unfold f64_of_Z. destruct (z =? 0) eqn:E0; [apply Z.eqb_eq in E0; contradiction|].
  fold e. destruct (e <=? 52) eqn:E52; [|apply Z.leb_gt in E52; lia].
  cbn [fst snd]. reflexivity.
Qed.

Lemma f64_of_Z_small_nonzero : forall z, z <> 0 -> Z.abs z < two53 -> f64_of_Z z <> 0%N.
Proof.
  intros z Hz Hs. destruct (f64_of_Z_small z Hz Hs) as [He [Hm E]]. rewrite E.
  unfold two52, two63d in *. destruct (z <? 0); lia.
Qed.

(* guarded: below 2^53 the float64 image determines the integer *)
Lemma f64_of_Z_inj_small : forall a b, Z.abs a < two53 -> Z.abs b < two53 -> f64_of_Z a = f64_of_Z b -> a = b.
Proof.
  intros a b Ha Hb E.
  destruct (Z.eq_dec a 0) as [->|Na]; destruct (Z.eq_dec b 0) as [->|Nb]; auto.
  - exfalso. symmetry in E. revert E. rewrite f64_of_Z_zero. apply f64_of_Z_small_nonzero; assumption.
  - exfalso. revert E. rewrite f64_of_Z_zero. apply f64_of_Z_small_nonzero; assumption.
  - destruct (f64_of_Z_small a Na Ha) as [Hea [Hma Ea]]. destruct (f64_of_Z_small b Nb Hb) as [Heb [Hmb Eb]].
    rewrite Ea, Eb in E. clear Ea Eb.
    set (ea := Z.log2 (Z.abs a)) in *. set (eb := Z.log2 (Z.abs b)) in *.
    set (ma := Z.abs a * 2 ^ (52 - ea) - two52) in *. set (mb := Z.abs b * 2 ^ (52 - eb) - two52) in *.
    assert (Es : (if a <? 0 then two63d else 0) = (if b <? 0 then two63d else 0) /\ ea = eb /\ ma = mb).
    { unfold two52, two63d in *. destruct (a <? 0); destruct (b <? 0); lia. }
    destruct Es as [Es [Ee Em]].
    assert (Eabs : Z.abs a = Z.abs b).
    { subst ma mb. rewrite Ee in Em.
      assert (Hp : 0 < 2 ^ (52 - eb)) by (apply Z.pow_pos_nonneg; lia).
      apply (Z.mul_cancel_r _ _ (2 ^ (52 - eb))); lia. }
    unfold two63d in Es. destruct (a <? 0) eqn:Sa; destruct (b <? 0) eqn:Sb; try lia.
Qed.

Lemma f64_of_Z_bound_small : forall z, Z.abs z < two53 -> (f64_of_Z z < 18446744073709551616)%N.
Proof.
  intros z Hs. destruct (Z.eq_dec z 0) as [->|Nz]; [cbn; lia|].
  destruct (f64_of_Z_small z Nz Hs) as [He [Hm E]]. rewrite E.
  unfold two52, two63d in *. destruct (z <? 0); lia.
Qed.

Lemma key_via_float_inj_small : forall a b, Z.abs a < two53 -> Z.abs b < two53 ->
  hll_key_via_float (SInt a) = hll_key_via_float (SInt b) -> a = b.
Proof.
  intros a b Ha Hb E. cbn in E. apply le64_inj in E; try (apply f64_of_Z_bound_small; assumption).
  apply f64_of_Z_inj_small; assumption.
Qed.

(* refuted above 2^53: two neighbouring ids near 2^60 have ONE key, hence count as one value *)
Lemma key_via_float_refuted :
  exists a b, in_i64 a /\ in_i64 b /\ a <> b /\
    hll_key_via_float (SInt a) = hll_key_via_float (SInt b) /\
    hll_key (SInt a) <> hll_key (SInt b) /\
    dc_count_with hll_key_via_float [SInt a; SInt b] = 1 /\ dc_count [SInt a; SInt b] = 2.
Proof.
  exists 1152921504606846976, 1152921504606846977. unfold in_i64, two63d.
  repeat split; try lia; try (vm_compute; congruence); vm_compute; reflexivity.
Qed.

(* a block of 300 consecutive ids at 2^60 has 2 float64 images *)
Lemma key_via_float_300_ids :
  let ids := map (fun i => SInt (1152921504606846976 + Z.of_nat i)) (seq 0 300) in
  dc_count_with hll_key_via_float ids = 2 /\ dc_count ids = 300.
Proof. vm_compute. split; reflexivity. Qed.

(* ---------- one number, two stored forms (known class dc_counts_number_forms_separately) ---------- *)
Lemma number_forms_refuted :
  exists n bits, bits = f64_of_Z n /\ hll_key (SInt n) <> hll_key (SFlt bits) /\ dc_count [SInt n; SFlt bits] = 2.
Proof.
  exists 5, 4617315517961601024%N. split; [vm_compute; reflexivity|]. split; [vm_compute; congruence|]. vm_compute; reflexivity.
Qed.

(* guarded: when no value of the list is stored as a float, the count of a list of int64 is exact (dc_count_ints);
   non-vacuity: a list mixing both signs and both sides of 2^53 *)
Example dc_count_ints_example :
  Forall in_i64 [5; -5; 9007199254740993; 9007199254740992; 5; -9223372036854775808; 9223372036854775807] /\
  dc_count (map SInt [5; -5; 9007199254740993; 9007199254740992; 5; -9223372036854775808; 9223372036854775807]) = 6.
Proof. split; [repeat constructor; unfold in_i64, two63d; lia|vm_compute; reflexivity]. Qed.

(* ---------- strings (also string-typed numbers): every route hashes the text ---------- *)
Lemma key_str_inj : forall a b, hll_key (SStr a) = hll_key (SStr b) -> a = b.
Proof. intros a b E; exact E. Qed.

Lemma dc_count_strs : forall l, dc_count (map SStr l) = Z.of_nat (length (nodup bytes_dec l)).
Proof.
  intros l. unfold dc_count. rewrite dc_count_with_nodup, map_map. cbn [hll_key]. rewrite map_id. reflexivity.
Qed.

(* one string seen by two routes (an ingest-time record merged with a record built at query time) counts once *)
Lemma dc_str_two_routes_once : forall s, length (dc_union (dc_keys [SStr s]) (dc_keys [SStr s])) = 1%nat.
Proof. intros s. rewrite dc_union_idem_length. cbn. reflexivity. Qed.

(* ---------- string-typed numbers without BY BEFORE fix df5c019 (class stats_dc_numeric_strings_hashed_as_float64) ----------
   stats.AddSegStatsStr (query time, no BY) hashed the 8 bytes of strconv.ParseFloat(s) when the string parses, the
   ingest-time record and the group-by / timechart sketches hash the string.  [parse] = ParseFloat as float64 bits. *)
Section NumericStringsPrefix.
  Variable parse : str -> option N.

  Definition hll_key_qt_prefix (v : sval) : list N :=
    match v with
    | SStr s => match parse s with Some b => le64 b | None => s end
    | _ => hll_key v
    end.

  (* guarded: a list without parsable strings was counted as by the other routes *)
  Lemma dc_prefix_qt_guarded : forall l,
    (forall s, In (SStr s) l -> parse s = None) -> dc_count_with hll_key_qt_prefix l = dc_count l.
  Proof.
    intros l H. unfold dc_count, dc_count_with, dc_keys_with. do 3 f_equal.
    apply map_ext_in. intros v Hv. destruct v; cbn; auto. rewrite (H s Hv). reflexivity.
  Qed.

  (* refuted (1): two different strings with one float64 image were counted once *)
  Lemma dc_prefix_qt_merges : forall s1 s2 b, s1 <> s2 -> parse s1 = Some b -> parse s2 = Some b ->
    dc_count_with hll_key_qt_prefix [SStr s1; SStr s2] = 1 /\ dc_count [SStr s1; SStr s2] = 2.
  Proof.
    intros s1 s2 b Hne P1 P2. unfold dc_count, dc_count_with, dc_keys_with. cbn [map hll_key_qt_prefix hll_key].
    rewrite P1, P2. cbn [dedup_keys mem_key].
    assert (E1 : bytes_eqb (le64 b) (le64 b) = true) by (apply bytes_eqb_spec; reflexivity).
    rewrite E1. cbn.
    destruct (bytes_eqb s1 s2) eqn:E2; [apply bytes_eqb_spec in E2; contradiction|]. cbn. auto.
  Qed.

  (* refuted (2): ONE string, one block answered from its .sst record and one block read at query time: two keys *)
  Lemma dc_prefix_qt_union_counts_twice : forall s b, parse s = Some b -> le64 b <> s ->
    length (dc_union (dc_keys [SStr s]) (dc_keys_with hll_key_qt_prefix [SStr s])) = 2%nat.
  Proof.
    intros s b P Hne. unfold dc_union, dc_keys, dc_keys_with. cbn [map hll_key_qt_prefix hll_key]. rewrite P.
    cbn [dedup_keys mem_key app].
    destruct (bytes_eqb s (le64 b)) eqn:E; [apply bytes_eqb_spec in E; congruence|]. reflexivity.
  Qed.
End NumericStringsPrefix.

(* AggProofs.v — proofs about the aggregation records (C04). *)
From Coq Require Import List Arith NArith ZArith Bool Lia ZifyN ZifyNat ZifyBool QArith Permutation.
From SigM Require Import Base Agg.
From SigP Require Import BaseProofs.
Import ListNotations.
Open Scope Z_scope.

(* ================= Go string order ================= *)
Lemma str_cmp_refl : forall a, str_cmp a a = Eq.
Proof. induction a; simpl; auto. rewrite N.compare_refl. auto. Qed.

Lemma str_cmp_eq : forall a b, str_cmp a b = Eq -> a = b.
Proof.
  induction a; destruct b; simpl; intros; try discriminate; auto.
  destruct (N.compare a n) eqn:E; try discriminate.
  apply N.compare_eq in E. subst. f_equal. auto.
Qed.

Lemma str_cmp_antisym : forall a b, str_cmp b a = CompOpp (str_cmp a b).
Proof.
  induction a; destruct b; simpl; auto.
  rewrite (N.compare_antisym a n). destruct (N.compare a n); simpl; auto.
Qed.

Lemma str_cmp_lt_trans : forall a b c, str_cmp a b = Lt -> str_cmp b c = Lt -> str_cmp a c = Lt.
Proof.
  induction a; destruct b; destruct c; simpl; intros; try discriminate; auto.
  destruct (N.compare a n) eqn:E1; try discriminate;
  destruct (N.compare n n0) eqn:E2; try discriminate.
  - apply N.compare_eq in E1, E2. subst. rewrite N.compare_refl. eauto.
  - apply N.compare_eq in E1. subst. rewrite E2. auto.
  - apply N.compare_eq in E2. subst. rewrite E1. auto.
  - rewrite N.compare_lt_iff in *. assert (a < n0)%N by lia.
    apply N.compare_lt_iff in H1. rewrite H1. auto.
Qed.

Definition str_le (a b : str) : Prop := str_cmp a b <> Gt.

Lemma str_le_refl : forall a, str_le a a.
Proof. intros; unfold str_le; rewrite str_cmp_refl; discriminate. Qed.

Lemma str_le_trans : forall a b c, str_le a b -> str_le b c -> str_le a c.
Proof.
  unfold str_le; intros a b c H1 H2.
  destruct (str_cmp a b) eqn:E1; try congruence.
  - apply str_cmp_eq in E1; subst; auto.
  - destruct (str_cmp b c) eqn:E2; try congruence.
    + apply str_cmp_eq in E2; subst. rewrite E1. discriminate.
    + rewrite (str_cmp_lt_trans a b c) by auto. discriminate.
Qed.

Lemma str_le_antisym : forall a b, str_le a b -> str_le b a -> a = b.
Proof.
  unfold str_le; intros a b H1 H2. rewrite (str_cmp_antisym a b) in H2.
  destruct (str_cmp a b) eqn:E; simpl in *; try congruence.
  apply str_cmp_eq; auto.
Qed.

Lemma str_le_total : forall a b, str_le a b \/ str_le b a.
Proof.
  unfold str_le; intros. rewrite (str_cmp_antisym a b).
  destruct (str_cmp a b); simpl; [left|left|right]; discriminate.
Qed.

(* ================= min / max ================= *)
(* [better m v w]: v is at least as good a result as w for min (m = true) / max (m = false).
   Mathematical reading of the ordering ReduceMinMax implements: absent < string < number in
   priority; numbers by value; strings bytewise. *)
Definition better (m : bool) (v w : val) : Prop :=
  match w with
  | VNone => True
  | VNum b => match v with VNum a => if m then a <= b else b <= a | _ => False end
  | VStr b => match v with
              | VNum _ => True
              | VStr a => if m then str_le a b else str_le b a
              | VNone => False
              end
  end.

Lemma better_refl : forall m v, better m v v.
Proof. destruct m, v; simpl; auto; try lia; apply str_le_refl. Qed.

Lemma better_trans : forall m a b c, better m a b -> better m b c -> better m a c.
Proof.
  intros m a b c; destruct m, a, b, c; simpl; intros; auto; try lia; try tauto;
  eapply str_le_trans; eauto.
Qed.

Lemma better_antisym : forall m a b, better m a b -> better m b a -> a = b.
Proof.
  intros m a b; destruct m, a, b; simpl; intros; auto; try tauto; try (f_equal; lia);
  f_equal; apply str_le_antisym; auto.
Qed.

Lemma str_pick_min_l : forall a b, str_le (if str_ltb a b then a else b) a.
Proof.
  intros; unfold str_ltb, str_le. destruct (str_cmp a b) eqn:E.
  - rewrite (str_cmp_antisym a b), E; simpl; discriminate.
  - rewrite str_cmp_refl; discriminate.
  - rewrite (str_cmp_antisym a b), E; simpl; discriminate.
Qed.
Lemma str_pick_min_r : forall a b, str_le (if str_ltb a b then a else b) b.
Proof.
  intros; unfold str_ltb, str_le. destruct (str_cmp a b) eqn:E.
  - rewrite str_cmp_refl; discriminate.
  - rewrite E; discriminate.
  - rewrite str_cmp_refl; discriminate.
Qed.
(* max as coded: if b < a then a else b *)
Lemma str_pick_max_l : forall a b, str_le a (if str_ltb b a then a else b).
Proof.
  intros; unfold str_ltb, str_le. rewrite (str_cmp_antisym a b). destruct (str_cmp a b) eqn:E; simpl.
  - rewrite E; discriminate.
  - rewrite E; discriminate.
  - rewrite str_cmp_refl; discriminate.
Qed.
Lemma str_pick_max_r : forall a b, str_le b (if str_ltb b a then a else b).
Proof.
  intros; unfold str_ltb, str_le. rewrite (str_cmp_antisym a b). destruct (str_cmp a b) eqn:E; simpl.
  - rewrite str_cmp_refl; discriminate.
  - rewrite str_cmp_refl; discriminate.
  - rewrite (str_cmp_antisym a b), E; simpl; discriminate.
Qed.

Lemma rm_better_l : forall m a b, better m (reduce_minmax a b m) a.
Proof.
  intros m a b; destruct a as [|qa|sa], b as [|qb|sb]; simpl; auto; try apply better_refl.
  all: destruct m; simpl; try lia; auto using str_pick_min_l, str_pick_max_l, str_le_refl.
Qed.

Lemma rm_better_r : forall m a b, better m (reduce_minmax a b m) b.
Proof.
  intros m a b; destruct a as [|qa|sa], b as [|qb|sb]; simpl; auto; try apply better_refl.
  all: destruct m; simpl; try lia; auto using str_pick_min_r, str_pick_max_r, str_le_refl.
Qed.

Lemma rm_in : forall m a b, reduce_minmax a b m = a \/ reduce_minmax a b m = b.
Proof.
  intros m a b; destruct a as [|qa|sa], b as [|qb|sb]; simpl; auto.
  - destruct m; [destruct (Z.min_spec qa qb) as [[_ ->]|[_ ->]] | destruct (Z.max_spec qa qb) as [[_ ->]|[_ ->]]]; auto.
  - destruct m; [destruct (str_ltb sa sb) | destruct (str_ltb sb sa)]; auto.
Qed.

(* absorbing an argument that is not better *)
Lemma rm_absorb : forall m r x, better m r x -> reduce_minmax r x m = r.
Proof.
  intros m r x Hb. destruct r as [|qr|sr], x as [|qx|sx]; simpl in *; auto; try tauto.
  - destruct m; f_equal; lia.
  - destruct m; f_equal; unfold str_ltb, str_le in *.
    + destruct (str_cmp sr sx) eqn:E; auto; try congruence. apply str_cmp_eq in E; auto.
    + destruct (str_cmp sx sr) eqn:E; auto; try congruence. apply str_cmp_eq in E; auto.
Qed.

Lemma rm_comm : forall m a b, reduce_minmax a b m = reduce_minmax b a m.
Proof.
  intros. apply (better_antisym m).
  - destruct (rm_in m b a) as [-> | ->]; [apply rm_better_r | apply rm_better_l].
  - destruct (rm_in m a b) as [-> | ->]; [apply rm_better_r | apply rm_better_l].
Qed.

Lemma rm_assoc : forall m a b c,
  reduce_minmax (reduce_minmax a b m) c m = reduce_minmax a (reduce_minmax b c m) m.
Proof.
  intros. apply (better_antisym m).
  - destruct (rm_in m a (reduce_minmax b c m)) as [-> | ->].
    + eapply better_trans; [apply rm_better_l | apply rm_better_l].
    + destruct (rm_in m b c) as [-> | ->].
      * eapply better_trans; [apply rm_better_l | apply rm_better_r].
      * apply rm_better_r.
  - destruct (rm_in m (reduce_minmax a b m) c) as [-> | ->].
    + destruct (rm_in m a b) as [-> | ->].
      * apply rm_better_l.
      * eapply better_trans; [apply rm_better_r | apply rm_better_l].
    + eapply better_trans; [apply rm_better_r | apply rm_better_r].
Qed.

Lemma rm_none_r : forall m a, reduce_minmax a VNone m = a.
Proof. destruct a; reflexivity. Qed.

(* [is_best m vs v]: v is THE minimum (maximum) of the values vs in the sense above *)
Definition is_best (m : bool) (vs : list val) (v : val) : Prop :=
  (v = VNone \/ In v vs) /\ forall w, In w vs -> better m v w.

Lemma is_best_unique : forall m vs v v', is_best m vs v -> is_best m vs v' -> v = v'.
Proof.
  intros m vs v v' [H1 H2] [H3 H4].
  assert (Hn : forall u u', (u = VNone \/ In u vs) -> (forall w, In w vs -> better m u' w) -> better m u' u).
  { intros u u' [-> | Hin] Hb; [destruct u'; simpl; auto | auto]. }
  apply (better_antisym m); auto.
Qed.

Lemma is_best_perm : forall m vs vs' v, Permutation vs vs' -> is_best m vs v -> is_best m vs' v.
Proof.
  intros m vs vs' v P [H1 H2]. split.
  - destruct H1; auto. right. eapply Permutation_in; eauto.
  - intros w Hw. apply H2. eapply Permutation_in; [apply Permutation_sym|]; eauto.
Qed.

Lemma is_best_nil : forall m, is_best m [] VNone.
Proof. split; auto. intros w []. Qed.

Lemma is_best_app : forall m l1 l2 a b,
  is_best m l1 a -> is_best m l2 b -> is_best m (l1 ++ l2) (reduce_minmax a b m).
Proof.
  intros m l1 l2 a b [A1 A2] [B1 B2]. split.
  - destruct (rm_in m a b) as [-> | ->].
    + destruct A1; auto. right. apply in_or_app; auto.
    + destruct B1; auto. right. apply in_or_app; auto.
  - intros w Hw. apply in_app_or in Hw. destruct Hw.
    + eapply better_trans; [apply rm_better_l | auto].
    + eapply better_trans; [apply rm_better_r | auto].
Qed.

Lemma is_best_snoc : forall m l a v,
  is_best m l a -> is_best m (l ++ [v]) (reduce_minmax a v m).
Proof.
  intros. apply is_best_app; auto. split; [destruct v; simpl; auto|].
  intros w [<- | []]. apply better_refl.
Qed.

(* the best-for-min of a list is at least as good for min as any element, in particular the max *)
Lemma best_min_vs_member : forall m l a x, is_best m l a -> (x = VNone \/ In x l) -> better m a x.
Proof. intros m l a x [_ H] [-> | Hin]; auto. destruct a; simpl; auto. Qed.

(* ================= sums ================= *)
Definition is_flt (s : sumv) : bool := match s with SFlt _ => true | SInt _ => false end.
Definition abs_int (s : sumv) : Z := match s with SInt z => Z.abs z | SFlt _ => 0 end.
Definition total (ns : list sumv) : Z := fold_right (fun n acc => scaled n + acc) 0 ns.
Definition abs_total (ns : list sumv) : Z := fold_right (fun n acc => abs_int n + acc) 0 ns.
Definition any_flt (ns : list sumv) : bool := existsb is_flt ns.

(* [sum_ok ns s]: s is the mathematical sum of ns: value (exact), float iff some summand is a float *)
Definition sum_ok (ns : list sumv) (s : sumv) : Prop :=
  scaled s = total ns /\ is_flt s = any_flt ns /\
  match s with SInt z => Z.abs z <= abs_total ns | SFlt _ => True end.

Lemma wrap_i64_small : forall z, - two63 <= z < two63 -> wrap_i64 z = z.
Proof. intros. unfold wrap_i64. rewrite Z.mod_small; unfold two63, two64z in *; lia. Qed.

Lemma total_app : forall a b, total (a ++ b) = total a + total b.
Proof. induction a; simpl; intros; auto. rewrite IHa. lia. Qed.
Lemma abs_total_app : forall a b, abs_total (a ++ b) = abs_total a + abs_total b.
Proof. induction a; simpl; intros; auto. rewrite IHa. lia. Qed.
Lemma abs_total_nonneg : forall a, 0 <= abs_total a.
Proof. induction a as [|x a IH]; simpl; [lia|]. destruct x; simpl; lia. Qed.
Lemma any_flt_app : forall a b, any_flt (a ++ b) = any_flt a || any_flt b.
Proof. intros; apply existsb_app. Qed.

Lemma sum_ok_nil : sum_ok [] (SInt 0).
Proof. repeat split; simpl; lia. Qed.

Lemma sum_ok_single : forall n, sum_ok [n] n.
Proof. intros n; destruct n; repeat split; simpl; try lia; auto. Qed.

Lemma sum_ok_merge : forall n1 n2 a b,
  sum_ok n1 a -> sum_ok n2 b -> abs_total (n1 ++ n2) < two63 ->
  sum_ok (n1 ++ n2) (sum_merge a b).
Proof.
  intros n1 n2 a b [A1 [A2 A3]] [B1 [B2 B3]] Hf.
  rewrite abs_total_app in Hf.
  assert (Hn1 := abs_total_nonneg n1). assert (Hn2 := abs_total_nonneg n2).
  unfold sum_ok. rewrite total_app, any_flt_app, abs_total_app, <- A1, <- B1, <- A2, <- B2.
  destruct a as [x|x], b as [y|y]; simpl in *.
  - rewrite wrap_i64_small by (unfold two63 in *; lia). repeat split; try lia.
  - repeat split; lia.
  - repeat split; lia.
  - repeat split; lia.
Qed.

Lemma sum_ok_unique : forall ns s s', sum_ok ns s -> sum_ok ns s' -> s = s'.
Proof.
  intros ns s s' [A1 [A2 _]] [B1 [B2 _]]. rewrite <- B1 in A1. rewrite <- B2 in A2.
  destruct s, s'; simpl in *; try discriminate; f_equal; unfold FS in *; lia.
Qed.

Lemma total_perm : forall a b, Permutation a b -> total a = total b.
Proof. induction 1; simpl; lia. Qed.
Lemma abs_total_perm : forall a b, Permutation a b -> abs_total a = abs_total b.
Proof. induction 1; simpl; lia. Qed.
Lemma any_flt_perm : forall a b, Permutation a b -> any_flt a = any_flt b.
Proof.
  induction 1; simpl; auto.
  - rewrite IHPermutation; auto.
  - destruct (is_flt x), (is_flt y); auto.
  - congruence.
Qed.

Lemma sum_ok_perm : forall a b s, Permutation a b -> sum_ok a s -> sum_ok b s.
Proof.
  intros a b s P [H1 [H2 H3]]. unfold sum_ok.
  rewrite <- (total_perm a b P), <- (any_flt_perm a b P), <- (abs_total_perm a b P). auto.
Qed.

(* the int64 guard: the absolute values of the integer summands add up to less than 2^63 *)
Lemma sum_merge_comm : forall a b, sum_merge a b = sum_merge b a.
Proof. intros a b; destruct a, b; simpl; f_equal; try lia. f_equal; lia. Qed.

(* ================= earliest / latest ================= *)
Definition ts_ok (l : list event) (o : option tstats) : Prop :=
  (l = [] /\ o = None) \/
  (exists x, o = Some x /\
     In (lts x, lval x) l /\ (forall e, In e l -> fst e <= lts x) /\
     In (ets x, eval_ x) l /\ (forall e, In e l -> ets x <= fst e)).

Lemma ts_ok_step : forall l o t v, ts_ok l o -> ts_ok (l ++ [(t, v)]) (ts_step o t v).
Proof.
  intros l o t v [[-> ->] | [x [-> [L1 [L2 [E1 E2]]]]]]; right.
  - exists (mkT t v t v). simpl. repeat split; auto; intros e [<- | []]; simpl; lia.
  - unfold ts_step. eexists; split; [reflexivity|]. simpl.
    repeat split.
    + destruct (lts x <? t) eqn:C; [rewrite Z.eqb_refl; apply in_or_app; right; simpl; auto|].
      destruct (lts x =? t) eqn:D; apply in_or_app.
      * apply Z.eqb_eq in D. subst t. right; simpl; auto.
      * left; auto.
    + intros e He. apply in_app_or in He. destruct He as [He | [<- | []]].
      * specialize (L2 e He). destruct (lts x <? t) eqn:C; lia.
      * simpl. destruct (lts x <? t) eqn:C; lia.
    + destruct (t <? ets x) eqn:C; [rewrite Z.eqb_refl; apply in_or_app; right; simpl; auto|].
      destruct (ets x =? t) eqn:D; apply in_or_app.
      * apply Z.eqb_eq in D. subst t. right; simpl; auto.
      * left; auto.
    + intros e He. apply in_app_or in He. destruct He as [He | [<- | []]].
      * specialize (E2 e He). destruct (t <? ets x) eqn:C; lia.
      * simpl. destruct (t <? ets x) eqn:C; lia.
Qed.

Lemma ts_ok_merge : forall l1 l2 a b, ts_ok l1 a -> ts_ok l2 b -> ts_ok (l1 ++ l2) (ts_merge a b).
Proof.
  intros l1 l2 a b [[-> ->] | [x [-> [L1 [L2 [E1 E2]]]]]] Hb.
  - simpl. destruct b; auto.
  - destruct Hb as [[-> ->] | [y [-> [M1 [M2 [F1 F2]]]]]].
    + rewrite app_nil_r. right. exists x. simpl. auto.
    + right. simpl. eexists; split; [reflexivity|]. simpl. repeat split.
      * destruct (lts x <? lts y); apply in_or_app; auto.
      * intros e He. apply in_app_or in He. destruct He as [He|He];
        [specialize (L2 e He) | specialize (M2 e He)]; destruct (lts x <? lts y) eqn:C; lia.
      * destruct (ets y <? ets x); apply in_or_app; auto.
      * intros e He. apply in_app_or in He. destruct He as [He|He];
        [specialize (E2 e He) | specialize (F2 e He)]; destruct (ets y <? ets x) eqn:C; lia.
Qed.

Lemma nodup_fst_fun : forall (l : list event) t v v',
  NoDup (map fst l) -> In (t, v) l -> In (t, v') l -> v = v'.
Proof.
  induction l as [|[t0 v0] r IH]; simpl; intros t v v' Hn H1 H2; [tauto|].
  inversion Hn as [|? ? Hnot Hr]; subst.
  destruct H1 as [H1|H1], H2 as [H2|H2].
  - congruence.
  - injection H1 as -> ->. exfalso. apply Hnot. apply in_map_iff. exists (t, v'); auto.
  - injection H2 as -> ->. exfalso. apply Hnot. apply in_map_iff. exists (t, v); auto.
  - eauto.
Qed.

Lemma ts_ok_unique : forall l l' o o',
  Permutation l l' -> NoDup (map fst l) -> ts_ok l o -> ts_ok l' o' -> o = o'.
Proof.
  intros l l' o o' P Hn [[-> ->] | [x [-> [L1 [L2 [E1 E2]]]]]] [[-> ->] | [y [-> [M1 [M2 [F1 F2]]]]]]; auto.
  - apply Permutation_nil in P. subst. destruct M1.
  - apply Permutation_sym, Permutation_nil in P. subst. destruct L1.
  - assert (P' := Permutation_sym P).
    assert (lts x = lts y).
    { specialize (L2 _ (Permutation_in _ P' M1)). specialize (M2 _ (Permutation_in _ P L1)). simpl in *. lia. }
    assert (ets x = ets y).
    { specialize (E2 _ (Permutation_in _ P' F1)). specialize (F2 _ (Permutation_in _ P E1)). simpl in *. lia. }
    assert (lval x = lval y).
    { apply (nodup_fst_fun l (lts x)); auto. rewrite H. apply (Permutation_in _ P'); auto. }
    assert (eval_ x = eval_ y).
    { apply (nodup_fst_fun l (ets x)); auto. rewrite H0. apply (Permutation_in _ P'); auto. }
    destruct x, y; simpl in *; congruence.
Qed.

(* ================= the record is exact ================= *)
Definition vals (l : list event) : list val := map (fun e => val_of (snd e)) l.
Definition nums (l : list event) : list sumv :=
  flat_map (fun e => match num_of (snd e) with Some n => [n] | None => [] end) l.
Definition items (l : list event) : list item :=
  flat_map (fun e => match item_of (snd e) with Some i => [i] | None => [] end) l.
Definition has_num (l : list event) : bool := match nums l with [] => false | _ => true end.
Definition present (v : mval) : bool := match v with MAbs => false | _ => true end.
(* the events that have the field *)
Definition pres (l : list event) : list event := filter (fun e => present (snd e)) l.
Definition nnorm (o : option numstats) : numstats := match o with Some x => x | None => num_zero end.
Definition view (o : option segstats) : segstats := match o with Some s => s | None => new_for_str end.

(* the int64 guard on a list of events *)
Definition fits (l : list event) : Prop := abs_total (nums l) < two63.

(* [exactv wt l s]: every part of the record s equals its mathematical definition over the events l *)
Record exactv (wt : bool) (l : list event) (s : segstats) : Prop := mkExact {
  ex_isn  : isnum s = has_num l;                           (* IsNumeric iff some event has a numeric value *)
  ex_cnt  : cnt s = Z.of_nat (length (items l));          (* count(f) = number of events that have f *)
  ex_mn   : is_best true (vals l) (mn s);
  ex_mx   : is_best false (vals l) (mx s);
  ex_ncnt : ncnt (nnorm (num s)) = Z.of_nat (length (nums l));
  ex_sum  : sum_ok (nums l) (nsum (nnorm (num s)));
  ex_set  : sset s = items l;
  ex_list : slist s = items l;
  ex_ts   : if wt then ts_ok (pres l) (tst s) else tst s = None   (* over the events that have f *)
}.

(* equality of everything exactv looks at *)
Definition sameF (s s' : segstats) : Prop :=
  isnum s = isnum s' /\
  cnt s = cnt s' /\ mn s = mn s' /\ mx s = mx s' /\ nnorm (num s) = nnorm (num s') /\
  sset s = sset s' /\ slist s = slist s' /\ tst s = tst s'.

Lemma exactv_sameF : forall wt l s s', sameF s s' -> exactv wt l s -> exactv wt l s'.
Proof.
  intros wt l s s' [H0 [H1 [H2 [H3 [H4 [H5 [H6 H7]]]]]]] [I A B C D E F G H].
  constructor; rewrite <- ?H0, <- ?H1, <- ?H2, <- ?H3, <- ?H4, <- ?H5, <- ?H6, <- ?H7; auto.
Qed.

Lemma vals_app : forall a b, vals (a ++ b) = vals a ++ vals b.
Proof. intros; apply map_app. Qed.
Lemma nums_app : forall a b, nums (a ++ b) = nums a ++ nums b.
Proof. intros; apply flat_map_app. Qed.
Lemma items_app : forall a b, items (a ++ b) = items a ++ items b.
Proof. intros; apply flat_map_app. Qed.
Lemma pres_app : forall a b, pres (a ++ b) = pres a ++ pres b.
Proof. intros; apply filter_app. Qed.
Lemma has_num_app : forall a b, has_num (a ++ b) = has_num a || has_num b.
Proof. intros; unfold has_num; rewrite nums_app. destruct (nums a), (nums b); auto. Qed.

Lemma fits_app : forall a b, fits (a ++ b) -> fits a /\ fits b.
Proof.
  unfold fits; intros a b H. rewrite nums_app, abs_total_app in H.
  assert (H1 := abs_total_nonneg (nums a)). assert (H2 := abs_total_nonneg (nums b)). lia.
Qed.

Lemma exactv_nil : forall wt, exactv wt [] new_for_str.
Proof.
  intros; constructor; simpl; auto; try apply is_best_nil; try apply sum_ok_nil.
  destruct wt; auto. left; auto.
Qed.

(* no numeric value so far -> the numeric part is still the default *)
Lemma nonum_zero : forall wt l s, exactv wt l s -> has_num l = false -> nnorm (num s) = num_zero.
Proof.
  intros wt l s E Hn. unfold has_num in Hn. destruct (nums l) eqn:Hl; [|discriminate].
  destruct E as [_ _ _ _ D [S1 [S2 _]] _ _ _]. rewrite Hl in *. simpl in *.
  destruct (nnorm (num s)) as [c sm]; simpl in *. unfold num_zero. f_equal; [lia|].
  destruct sm; simpl in *; try discriminate. f_equal. unfold FS in S1. lia.
Qed.

(* ---- one add ---- *)
Definition with_tst (s : segstats) (x : option tstats) : segstats :=
  mkS (isnum s) (cnt s) (mn s) (mx s) (num s) (sset s) (slist s) x.

Lemma add_num_exact : forall wt l s ts' t v n it,
  exactv wt l s ->
  num_of v = Some n -> item_of v = Some it -> present v = true ->
  (if wt then ts_ok (pres l ++ [(t, v)]) ts' else ts' = None) ->
  abs_total (nums l ++ [n]) < two63 ->
  exactv wt (l ++ [(t, v)]) (add_num (Some (with_tst s ts')) v n).
Proof.
  intros wt l s ts' t v n it E Hn Hit Hp Hts Hf.
  assert (Hz := nonum_zero wt l s E).
  destruct E as [Hi A B C D S F G H].
  assert (Hnum : nums (l ++ [(t, v)]) = nums l ++ [n]).
  { rewrite nums_app. simpl. rewrite Hn. reflexivity. }
  assert (Hitm : items (l ++ [(t, v)]) = items l ++ [it]).
  { rewrite items_app. simpl. rewrite Hit. reflexivity. }
  assert (Hval : vals (l ++ [(t, v)]) = vals l ++ [val_of v]).
  { rewrite vals_app. reflexivity. }
  assert (Hpr : pres (l ++ [(t, v)]) = pres l ++ [(t, v)]).
  { rewrite pres_app. unfold pres at 2. simpl. rewrite Hp. reflexivity. }
  assert (Hnn : nnorm (if isnum s then num s else Some num_zero) = nnorm (num s)).
  { destruct (isnum s) eqn:Ei; auto. simpl. symmetry. apply Hz. congruence. }
  unfold add_num, with_tst; simpl.
  constructor; simpl; rewrite ?Hnum, ?Hitm, ?Hval, ?Hpr, ?app_length; simpl.
  - rewrite has_num_app. unfold has_num at 2. simpl. rewrite Hn. simpl.
    destruct (isnum s); simpl; rewrite orb_true_r; reflexivity.
  - destruct (isnum s); simpl; rewrite A; lia.
  - destruct (isnum s); simpl; apply is_best_snoc; auto.
  - destruct (isnum s); simpl; apply is_best_snoc; auto.
  - destruct (isnum s) eqn:Ei; simpl in *.
    + change (match num s with Some x => x | None => num_zero end) with (nnorm (num s)). rewrite D. lia.
    + rewrite <- Hnn in D. simpl in D. lia.
  - destruct (isnum s) eqn:Ei; simpl in *.
    + change (match num s with Some x => x | None => num_zero end) with (nnorm (num s)).
      apply sum_ok_merge; auto using sum_ok_single.
    + rewrite <- Hnn in S. simpl in S.
      change (sum_ok (nums l ++ [n]) (sum_merge (SInt 0) n)).
      apply sum_ok_merge; auto using sum_ok_single.
  - destruct (isnum s); simpl; rewrite Hit; simpl; congruence.
  - destruct (isnum s); simpl; rewrite Hit; simpl; congruence.
  - destruct (isnum s); simpl; auto.
Qed.

Lemma add_some_exact : forall wt l s e,
  exactv wt l s -> fits (l ++ [e]) ->
  exactv wt (l ++ [e]) (view (add wt (Some s) e)).
Proof.
  intros wt l s [t v] E Hf.
  assert (Hts : present v = true ->
     if wt then ts_ok (pres l ++ [(t, v)]) (ts_step (tst s) t v) else tst s = None).
  { intros _. destruct E as [_ _ _ _ _ _ _ _ H]. destruct wt; auto. apply ts_ok_step; auto. }
  assert (Hadd : forall n it, num_of v = Some n -> item_of v = Some it -> present v = true ->
     exactv wt (l ++ [(t, v)]) (add_num (if wt then Some (with_tst s (ts_step (tst s) t v)) else Some s) v n)).
  { intros n it Hn Hit Hp. unfold fits in Hf. rewrite nums_app in Hf. simpl in Hf. rewrite Hn in Hf. simpl in Hf.
    destruct wt.
    - eapply add_num_exact; eauto.
    - replace s with (with_tst s (tst s)) at 1 by (destruct s; reflexivity).
      eapply add_num_exact; eauto. }
  destruct v as [|z|q|sx q|sx]; unfold add; simpl.
  - (* absent: nothing changes *)
    destruct E as [Hi A B C D S F G H].
    constructor; rewrite ?has_num_app, ?vals_app, ?nums_app, ?items_app, ?pres_app; simpl;
      rewrite ?app_nil_r; auto.
    + unfold has_num at 2; simpl. rewrite orb_false_r. auto.
    + rewrite <- (rm_none_r true (mn s)); apply is_best_snoc; auto.
    + rewrite <- (rm_none_r false (mx s)); apply is_best_snoc; auto.
  - eapply Hadd; reflexivity.
  - eapply Hadd; reflexivity.
  - eapply Hadd; reflexivity.
  - (* other string *)
    specialize (Hts eq_refl). destruct E as [Hi A B C D S F G H].
    destruct wt; simpl; constructor; simpl;
      rewrite ?has_num_app, ?vals_app, ?nums_app, ?items_app, ?pres_app, ?app_length; simpl; rewrite ?app_nil_r;
      try (apply is_best_snoc; assumption);
      try (rewrite A; lia); try (rewrite D; lia); try congruence; auto;
      try (unfold has_num at 2; simpl; rewrite orb_false_r; auto).
Qed.

(* an absent map entry behaves like the empty record *)
Lemma add_none_same : forall wt e,
  sameF (view (add wt None e)) (view (add wt (Some new_for_str) e)).
Proof.
  intros wt [t v]. destruct wt, v; simpl; repeat split; reflexivity.
Qed.

Lemma add_exact : forall wt l o e,
  exactv wt l (view o) -> fits (l ++ [e]) ->
  exactv wt (l ++ [e]) (view (add wt o e)).
Proof.
  intros wt l o e E Hf. destruct o as [s|]; [apply add_some_exact; auto|].
  simpl in *. assert (E' := add_some_exact wt l new_for_str e E Hf).
  assert (Hs := add_none_same wt e).
  eapply exactv_sameF; [|exact E']. destruct Hs as [? [? [? [? [? [? [? ?]]]]]]]. repeat split; congruence.
Qed.

Lemma stats_from_exact : forall wt l2 l1 o,
  exactv wt l1 (view o) -> fits (l1 ++ l2) ->
  exactv wt (l1 ++ l2) (view (fold_left (add wt) l2 o)).
Proof.
  induction l2 as [|e r IH]; intros l1 o E Hf; simpl.
  - rewrite app_nil_r. auto.
  - replace (l1 ++ e :: r) with ((l1 ++ [e]) ++ r) in * by (rewrite <- app_assoc; reflexivity).
    apply IH; auto. apply add_exact; auto. apply (fits_app _ r); auto.
Qed.

(* each measure of the record built from a block of events equals its mathematical definition *)
Lemma stats_exact : forall wt l, fits l -> exactv wt l (view (stats wt l)).
Proof.
  intros. apply (stats_from_exact wt l [] None); auto. apply exactv_nil.
Qed.

(* ---- merge ---- *)
Lemma merge_exact : forall wt l1 l2 a b,
  exactv wt l1 a -> exactv wt l2 b -> fits (l1 ++ l2) ->
  exactv wt (l1 ++ l2) (merge a b).
Proof.
  intros wt l1 l2 a b [A0 A1 A2 A3 A4 A5 A6 A7 A8] [B0 B1 B2 B3 B4 B5 B6 B7 B8] Hf.
  unfold fits in Hf. rewrite nums_app in Hf.
  assert (Hmn : better true (mn b) (mx b)).
  { eapply best_min_vs_member; eauto. destruct B3 as [H _]; auto. }
  assert (Hmx : better false (mx b) (mn b)).
  { eapply best_min_vs_member; eauto. destruct B2 as [H _]; auto. }
  constructor; unfold merge; simpl; rewrite ?has_num_app, ?vals_app, ?nums_app, ?items_app, ?pres_app, ?app_length.
  - congruence.
  - lia.
  - rewrite rm_assoc, (rm_absorb true (mn b) (mx b)) by auto. apply is_best_app; auto.
  - rewrite rm_assoc, (rm_comm false (mn b) (mx b)), (rm_absorb false (mx b) (mn b)) by auto.
    apply is_best_app; auto.
  - destruct (num a) as [x|], (num b) as [y|]; simpl in *; lia.
  - destruct (num a) as [x|] eqn:Ea, (num b) as [y|] eqn:Eb; simpl in *.
    + apply sum_ok_merge; auto.
    + destruct (nums l2); [rewrite app_nil_r; auto | simpl in B4; lia].
    + destruct (nums l1); [simpl; auto | simpl in A4; lia].
    + destruct (nums l1); [simpl; auto | simpl in A4; lia].
  - congruence.
  - congruence.
  - destruct wt.
    + apply ts_ok_merge; auto.
    + rewrite A8, B8. reflexivity.
Qed.

Lemma merge_zero_r : forall x, sameF (merge x new_for_str) x.
Proof.
  intros x. unfold merge, sameF; simpl. rewrite !rm_none_r, !app_nil_r, orb_false_r.
  repeat split; try lia.
  - destruct (num x); reflexivity.
  - destruct (tst x); reflexivity.
Qed.

Lemma merge_zero_l : forall wt l y, exactv wt l y -> sameF (merge new_for_str y) y.
Proof.
  intros wt l y [B0 B1 B2 B3 B4 B5 B6 B7 B8]. unfold merge, sameF; simpl.
  assert (Hmn : better true (mn y) (mx y)).
  { eapply best_min_vs_member; eauto. destruct B3 as [H _]; auto. }
  assert (Hmx : better false (mx y) (mn y)).
  { eapply best_min_vs_member; eauto. destruct B2 as [H _]; auto. }
  repeat split.
  - apply rm_absorb; auto.
  - rewrite rm_comm. apply rm_absorb; auto.
Qed.

Lemma mergeo_exact : forall wt l1 l2 a b,
  exactv wt l1 (view a) -> exactv wt l2 (view b) -> fits (l1 ++ l2) ->
  exactv wt (l1 ++ l2) (view (mergeo a b)).
Proof.
  intros wt l1 l2 a b Ea Eb Hf.
  assert (Em := merge_exact wt l1 l2 _ _ Ea Eb Hf).
  destruct a as [x|], b as [y|]; simpl in *; auto.
  - eapply exactv_sameF; [apply merge_zero_r | exact Em].
  - eapply exactv_sameF; [eapply merge_zero_l; eauto | exact Em].
Qed.

Lemma fits_concat_in : forall bs b, fits (concat bs) -> In b bs -> fits b.
Proof.
  induction bs as [|x r IH]; simpl; intros b Hf Hin; [destruct Hin|].
  destruct Hin as [<- | Hin].
  - apply (fits_app _ (concat r)); auto.
  - apply IH; auto. apply (fits_app x); auto.
Qed.

Lemma blocks_from_exact : forall wt bs l0 acc,
  exactv wt l0 (view acc) -> fits (l0 ++ concat bs) ->
  exactv wt (l0 ++ concat bs) (view (fold_left (fun a b => mergeo a (stats wt b)) bs acc)).
Proof.
  induction bs as [|b r IH]; intros l0 acc E Hf; simpl.
  - rewrite app_nil_r; auto.
  - simpl in Hf. rewrite app_assoc in *. apply IH; auto.
    apply mergeo_exact; auto.
    + apply stats_exact. apply (fits_app _ (concat r)) in Hf. destruct Hf as [Hf _].
      apply (fits_app l0) in Hf. tauto.
    + apply (fits_app _ (concat r)) in Hf. tauto.
Qed.

(* any sequence of blocks / segments of the matched events, merged in that order, is exact for
   the concatenation *)
Lemma blocks_exact : forall wt bs, fits (concat bs) ->
  exactv wt (concat bs) (view (merge_blocks wt bs)).
Proof.
  intros. apply (blocks_from_exact wt bs [] None); auto. apply exactv_nil.
Qed.

(* ---- uniqueness up to the order of the events ---- *)
(* equality of records up to the order in which values()/list() were collected *)
Definition req (s s' : segstats) : Prop :=
  isnum s = isnum s' /\
  cnt s = cnt s' /\ mn s = mn s' /\ mx s = mx s' /\ nnorm (num s) = nnorm (num s') /\
  (forall x, In x (sset s) <-> In x (sset s')) /\ Permutation (slist s) (slist s') /\ tst s = tst s'.

Lemma perm_flat_map : forall (A B : Type) (f : A -> list B) l l',
  Permutation l l' -> Permutation (flat_map f l) (flat_map f l').
Proof.
  induction 1; simpl; auto.
  - apply Permutation_app_head; auto.
  - rewrite !app_assoc. apply Permutation_app_tail. apply Permutation_app_comm.
  - eapply Permutation_trans; eauto.
Qed.

Lemma perm_filter : forall (A : Type) (f : A -> bool) l l',
  Permutation l l' -> Permutation (filter f l) (filter f l').
Proof.
  induction 1; simpl; auto.
  - destruct (f x); auto.
  - destruct (f x), (f y); auto. apply perm_swap.
  - eapply Permutation_trans; eauto.
Qed.

Lemma nodup_map_filter : forall (l : list event) f, NoDup (map fst l) -> NoDup (map fst (filter f l)).
Proof.
  induction l as [|e r IH]; simpl; intros f Hn; auto. inversion Hn; subst.
  destruct (f e); simpl; auto. constructor; auto.
  intros Hin. apply H1. apply in_map_iff in Hin. destruct Hin as [x [Hx Hin]].
  apply filter_In in Hin. apply in_map_iff. exists x; tauto.
Qed.

Lemma has_num_perm : forall l l', Permutation l l' -> has_num l = has_num l'.
Proof.
  intros l l' P. unfold has_num.
  assert (Pn : Permutation (nums l) (nums l')) by (apply perm_flat_map; auto).
  destruct (nums l) eqn:E1, (nums l') eqn:E2; auto.
  - apply Permutation_nil in Pn. discriminate.
  - apply Permutation_sym, Permutation_nil in Pn. discriminate.
Qed.

Lemma exactv_perm_unique : forall wt l l' s s',
  Permutation l l' -> (wt = true -> NoDup (map fst l)) ->
  exactv wt l s -> exactv wt l' s' -> req s s'.
Proof.
  intros wt l l' s s' P Hnd [A0 A1 A2 A3 A4 A5 A6 A7 A8] [B0 B1 B2 B3 B4 B5 B6 B7 B8].
  assert (Pi : Permutation (items l) (items l')) by (apply perm_flat_map; auto).
  assert (Pn : Permutation (nums l) (nums l')) by (apply perm_flat_map; auto).
  assert (Pv : Permutation (vals l) (vals l')) by (apply Permutation_map; auto).
  repeat split.
  - rewrite A0, B0. apply has_num_perm; auto.
  - rewrite A1, B1, (Permutation_length Pi). auto.
  - eapply is_best_unique; [eapply is_best_perm; eauto | auto].
  - eapply is_best_unique; [eapply is_best_perm; eauto | auto].
  - assert (nsum (nnorm (num s)) = nsum (nnorm (num s'))).
    { eapply sum_ok_unique; [eapply sum_ok_perm; eauto | auto]. }
    assert (ncnt (nnorm (num s)) = ncnt (nnorm (num s'))).
    { rewrite A4, B4, (Permutation_length Pn). auto. }
    destruct (nnorm (num s)), (nnorm (num s')); simpl in *; congruence.
  - rewrite A6, B6. intros. eapply Permutation_in; eauto.
  - rewrite A6, B6. intros. eapply Permutation_in; [apply Permutation_sym|]; eauto.
  - rewrite A7, B7. auto.
  - destruct wt.
    + eapply (ts_ok_unique (pres l) (pres l')); eauto.
      * apply perm_filter; auto.
      * apply nodup_map_filter; auto.
    + congruence.
Qed.

(* ================= results ================= *)
Definition res_eq (r r' : result) : Prop :=
  r_count r = r_count r' /\ r_sum r = r_sum r' /\ r_avg r = r_avg r' /\
  r_min r = r_min r' /\ r_max r = r_max r' /\ r_range r = r_range r' /\
  (forall x, In x (r_values r) <-> In x (r_values r')) /\ Permutation (r_list r) (r_list r') /\
  r_earliest r = r_earliest r' /\ r_latest r = r_latest r'.

Lemma finalize_view : forall o, finalize o = finalize (Some (view o)).
Proof. destruct o; reflexivity. Qed.

Lemma finalize_req : forall s s', req s s' -> res_eq (finalize (Some s)) (finalize (Some s')).
Proof.
  intros s s' [Hi [H1 [H2 [H3 [H4 [H5 [H6 H7]]]]]]]. unfold finalize, res_eq; simpl.
  change (match num s with Some x => x | None => num_zero end) with (nnorm (num s)).
  change (match num s' with Some x => x | None => num_zero end) with (nnorm (num s')).
  rewrite H1, H2, H3, H4, H7, Hi. repeat split; auto; apply H5.
Qed.

Lemma fits_perm : forall l l', Permutation l l' -> fits l -> fits l'.
Proof.
  unfold fits; intros l l' P H. rewrite <- (abs_total_perm (nums l) (nums l')); auto.
  apply perm_flat_map; auto.
Qed.

(* any partition of the matched events into blocks / segments, merged in any order, gives the
   same answer, and that answer is the one of a single pass over the events *)
Lemma segmentation_irrelevant_guarded : forall wt l bs bs',
  Permutation (concat bs) l -> Permutation (concat bs') l ->
  fits l -> (wt = true -> NoDup (map fst l)) ->
  res_eq (finalize (merge_blocks wt bs)) (finalize (merge_blocks wt bs')) /\
  res_eq (finalize (merge_blocks wt bs)) (finalize (stats wt l)).
Proof.
  intros wt l bs bs' P P' Hf Hnd.
  assert (F1 : fits (concat bs)) by (eapply fits_perm; [apply Permutation_sym|]; eauto).
  assert (F2 : fits (concat bs')) by (eapply fits_perm; [apply Permutation_sym|]; eauto).
  assert (E1 := blocks_exact wt bs F1). assert (E2 := blocks_exact wt bs' F2).
  assert (E3 := stats_exact wt l Hf).
  assert (N1 : wt = true -> NoDup (map fst (concat bs))).
  { intros Hw. eapply Permutation_NoDup; [apply Permutation_map, Permutation_sym; eauto | auto]. }
  rewrite (finalize_view (merge_blocks wt bs)), (finalize_view (merge_blocks wt bs')), (finalize_view (stats wt l)).
  split; apply finalize_req.
  - eapply exactv_perm_unique; [| exact N1 | exact E1 | exact E2].
    eapply Permutation_trans; [eauto | apply Permutation_sym; auto].
  - eapply exactv_perm_unique; [| exact N1 | exact E1 | exact E3]. auto.
Qed.

(* ---- what the final numbers are ---- *)
Lemma sum_q_ok : forall ns s, sum_ok ns s -> (sum_q s == Qmake (total ns) 1024)%Q.
Proof.
  intros ns s [H _]. rewrite <- H. destruct s; simpl; [|reflexivity].
  unfold Qeq, inject_Z, FS; simpl. lia.
Qed.

Lemma finalize_exact : forall wt l s,
  exactv wt l s ->
  let r := finalize (Some s) in
  r_count r = Z.of_nat (length (items l)) /\
  (if has_num l then sum_ok (nums l) (r_sum r) else r_sum r = SInt 0) /\
  (if has_num l
   then exists a, r_avg r = Some a /\ (a == Qmake (total (nums l)) 1024 / inject_Z (Z.of_nat (length (nums l))))%Q
   else r_avg r = None) /\
  is_best true (vals l) (r_min r) /\ is_best false (vals l) (r_max r) /\
  r_values r = items l /\ r_list r = items l /\
  (if wt then ts_ok (pres l) (tst s) else tst s = None).
Proof.
  intros wt l s [Hi A B C D S F G H]. unfold finalize; simpl.
  change (match num s with Some x => x | None => num_zero end) with (nnorm (num s)).
  rewrite Hi.
  refine (conj A (conj _ (conj _ (conj B (conj C (conj F (conj G H))))))).
  - destruct (has_num l); auto.
  - destruct (has_num l) eqn:Eh; simpl.
    + assert (0 <? ncnt (nnorm (num s)) = true) as ->.
      { apply Z.ltb_lt. rewrite D. unfold has_num in Eh. destruct (nums l); [discriminate|simpl; lia]. }
      eexists; split; [reflexivity|]. rewrite D. rewrite (sum_q_ok _ _ S). reflexivity.
    + reflexivity.
Qed.

(* avg is Sum / NumericCount of the same record, for every record *)
Lemma avg_is_sum_div_count : forall o a,
  r_avg (finalize o) = Some a ->
  exists s, isnum s = true /\ view o = s /\ 0 < ncnt (nnorm (num s)) /\
    r_sum (finalize o) = nsum (nnorm (num s)) /\
    a = Qdiv (sum_q (nsum (nnorm (num s)))) (inject_Z (ncnt (nnorm (num s)))).
Proof.
  intros o a H. destruct o as [s|]; simpl in *; [|discriminate].
  exists s. change (match num s with Some x => x | None => num_zero end) with (nnorm (num s)) in *.
  destruct (isnum s); simpl in *; [|discriminate].
  destruct (0 <? ncnt (nnorm (num s))) eqn:E; [|discriminate].
  apply Z.ltb_lt in E. injection H as <-. auto.
Qed.

(* ---- merge laws on reachable records ---- *)
Lemma merge_comm_reachable : forall wt l1 l2 a b,
  exactv wt l1 a -> exactv wt l2 b -> fits (l1 ++ l2) ->
  (wt = true -> NoDup (map fst (l1 ++ l2))) ->
  req (merge a b) (merge b a).
Proof.
  intros wt l1 l2 a b Ea Eb Hf Hnd.
  assert (P : Permutation (l1 ++ l2) (l2 ++ l1)) by apply Permutation_app_comm.
  eapply exactv_perm_unique; [exact P | exact Hnd | |].
  - apply merge_exact; auto.
  - apply merge_exact; auto. eapply fits_perm; eauto.
Qed.

Lemma merge_assoc_reachable : forall wt l1 l2 l3 a b c,
  exactv wt l1 a -> exactv wt l2 b -> exactv wt l3 c -> fits (l1 ++ l2 ++ l3) ->
  (wt = true -> NoDup (map fst (l1 ++ l2 ++ l3))) ->
  req (merge (merge a b) c) (merge a (merge b c)).
Proof.
  intros wt l1 l2 l3 a b c Ea Eb Ec Hf Hnd.
  assert (F23 : fits (l2 ++ l3)) by (apply (fits_app l1); auto).
  assert (F12 : fits (l1 ++ l2)) by (rewrite app_assoc in Hf; apply (fits_app _ l3); auto).
  eapply exactv_perm_unique; [apply Permutation_refl | exact Hnd | |].
  - rewrite app_assoc. apply merge_exact; auto; [apply merge_exact; auto|]. rewrite <- app_assoc; auto.
  - apply merge_exact; auto. apply merge_exact; auto.
Qed.

Lemma fold_add_app_guarded : forall wt l1 l2,
  fits (l1 ++ l2) -> (wt = true -> NoDup (map fst (l1 ++ l2))) ->
  req (view (stats wt (l1 ++ l2))) (view (mergeo (stats wt l1) (stats wt l2))).
Proof.
  intros wt l1 l2 Hf Hnd. destruct (fits_app _ _ Hf) as [F1 F2].
  eapply exactv_perm_unique; [apply Permutation_refl | exact Hnd | apply stats_exact; auto |].
  apply mergeo_exact; auto; apply stats_exact; auto.
Qed.

(* ================= group-by ================= *)
Section GroupProofs.
Variable K : Type.
Variable keqb : K -> K -> bool.
Hypothesis keqb_spec : forall a b, keqb a b = true <-> a = b.

Lemma keqb_refl : forall a, keqb a a = true.
Proof. intros; apply keqb_spec; auto. Qed.

Lemma g_add_lookup : forall acc k e k0,
  g_lookup K keqb k0 (g_add K keqb k e acc) =
  if keqb k k0 then g_lookup K keqb k0 acc ++ [e] else g_lookup K keqb k0 acc.
Proof.
  induction acc as [|[k' es] r IH]; intros; simpl.
  - destruct (keqb k k0); reflexivity.
  - destruct (keqb k' k) eqn:E1; simpl.
    + apply keqb_spec in E1; subst k'. destruct (keqb k k0); reflexivity.
    + destruct (keqb k' k0) eqn:E2.
      * apply keqb_spec in E2; subst k'.
        destruct (keqb k k0) eqn:E3; auto. apply keqb_spec in E3; subst. rewrite keqb_refl in E1. discriminate.
      * apply IH.
Qed.

Lemma g_add_keys : forall acc k e x,
  In x (map fst (g_add K keqb k e acc)) <-> x = k \/ In x (map fst acc).
Proof.
  induction acc as [|[k' es] r IH]; intros; simpl.
  - intuition.
  - destruct (keqb k' k) eqn:E; simpl.
    + apply keqb_spec in E; subst. intuition.
    + rewrite IH. intuition.
Qed.

Lemma g_add_nodup : forall acc k e, NoDup (map fst acc) -> NoDup (map fst (g_add K keqb k e acc)).
Proof.
  induction acc as [|[k' es] r IH]; intros k e Hn; simpl.
  - constructor; [simpl; tauto | constructor].
  - inversion Hn; subst. destruct (keqb k' k) eqn:E; simpl.
    + constructor; auto.
    + constructor; [|apply IH; auto]. rewrite g_add_keys. simpl in *.
      intros [-> | Hin]; [rewrite keqb_refl in E; discriminate | auto].
Qed.

Definition g_total (acc : list (K * list event)) : nat := fold_right (fun g n => (length (snd g) + n)%nat) O acc.

Lemma g_add_total : forall acc k e, g_total (g_add K keqb k e acc) = S (g_total acc).
Proof.
  induction acc as [|[k' es] r IH]; intros; simpl; auto.
  destruct (keqb k' k); simpl.
  - rewrite app_length. simpl. lia.
  - rewrite IH. lia.
Qed.

Lemma group_fold_inv : forall l acc,
  let g := fold_left (fun a ke => g_add K keqb (fst ke) (snd ke) a) l acc in
  (NoDup (map fst acc) -> NoDup (map fst g)) /\
  (forall k, In k (map fst g) <-> In k (map fst acc) \/ In k (map fst l)) /\
  (forall k, g_lookup K keqb k g = g_lookup K keqb k acc ++ map snd (filter (fun ke => keqb (fst ke) k) l)) /\
  g_total g = (g_total acc + length l)%nat.
Proof.
  induction l as [|[k e] r IH]; intros acc; simpl.
  - repeat split; auto; try tauto. intros; rewrite app_nil_r; auto.
  - destruct (IH (g_add K keqb k e acc)) as [H1 [H2 [H3 H4]]]. repeat split.
    + intros Hn. apply H1. apply g_add_nodup; auto.
    + intros Hk. apply H2 in Hk. rewrite g_add_keys in Hk. intuition.
    + intros Hk. apply H2. rewrite g_add_keys. intuition.
    + intros k0. rewrite H3, g_add_lookup. destruct (keqb k k0); simpl; auto.
      rewrite <- app_assoc. reflexivity.
    + rewrite H4, g_add_total. lia.
Qed.

(* every group key that occurs appears exactly once, holds exactly the events with that key (in
   arrival order), and the group sizes add up to the number of events *)
Lemma groups_once : forall l : list (K * event),
  NoDup (map fst (group_by K keqb l)) /\
  (forall k, In k (map fst (group_by K keqb l)) <-> In k (map fst l)) /\
  (forall k, g_lookup K keqb k (group_by K keqb l) = map snd (filter (fun ke => keqb (fst ke) k) l)) /\
  g_total (group_by K keqb l) = length l.
Proof.
  intros l. destruct (group_fold_inv l []) as [H1 [H2 [H3 H4]]]. unfold group_by. repeat split.
  - apply H1. constructor.
  - intros Hk. apply H2 in Hk. simpl in Hk. tauto.
  - intros Hk. apply H2. auto.
  - intros k. rewrite H3. reflexivity.
  - rewrite H4. reflexivity.
Qed.

(* grouping commutes with splitting the input: the events of a group over l1 ++ l2 are those over
   l1 followed by those over l2 (so per-group records merge like the ungrouped ones) *)
Lemma group_by_app : forall l1 l2 k,
  g_lookup K keqb k (group_by K keqb (l1 ++ l2)) =
  g_lookup K keqb k (group_by K keqb l1) ++ g_lookup K keqb k (group_by K keqb l2).
Proof.
  intros. destruct (groups_once (l1 ++ l2)) as [_ [_ [H _]]].
  destruct (groups_once l1) as [_ [_ [H1 _]]]. destruct (groups_once l2) as [_ [_ [H2 _]]].
  rewrite H, H1, H2, filter_app, map_app. reflexivity.
Qed.
End GroupProofs.

(* ---- the group bucket as coded ---- *)
Lemma gsum_fold : forall vs acc ns,
  (match acc with None => ns = [] | Some s => sum_ok ns s /\ ns <> [] end) ->
  abs_total (ns ++ flat_map (fun v => match num_of v with Some n => [n] | None => [] end) vs) < two63 ->
  let ns' := ns ++ flat_map (fun v => match num_of v with Some n => [n] | None => [] end) vs in
  match fold_left gsum_add vs acc with None => ns' = [] | Some s => sum_ok ns' s /\ ns' <> [] end.
Proof.
  induction vs as [|v r IH]; intros acc ns Ha Hf; simpl in *.
  - rewrite app_nil_r in *. auto.
  - unfold gsum_add at 2. destruct (num_of v) as [n|] eqn:En; simpl in *.
    + replace (ns ++ n :: flat_map (fun v0 => match num_of v0 with Some n0 => [n0] | None => [] end) r)
        with ((ns ++ [n]) ++ flat_map (fun v0 => match num_of v0 with Some n0 => [n0] | None => [] end) r) in *
        by (rewrite <- app_assoc; reflexivity).
      apply IH; auto.
      assert (Hf' : abs_total (ns ++ [n]) < two63).
      { rewrite abs_total_app in Hf.
        assert (H0 := abs_total_nonneg (flat_map (fun v0 => match num_of v0 with Some n0 => [n0] | None => [] end) r)). lia. }
      destruct acc as [s|].
      * destruct Ha as [Hs Hne]. split; [apply sum_ok_merge; auto using sum_ok_single|].
        destruct ns; simpl; discriminate.
      * subst ns. simpl. split; [apply sum_ok_single | discriminate].
    + apply IH; auto.
Qed.

Lemma nums_as_flat_map : forall es,
  nums es = flat_map (fun v => match num_of v with Some n => [n] | None => [] end) (map snd es).
Proof. induction es as [|[t v] r IH]; simpl; auto. rewrite IH. reflexivity. Qed.

(* sum(f) by g is exact (numeric values; absent ones are skipped) *)
Lemma gstats_sum_exact : forall es, fits es ->
  match g_sum (gstats es) with
  | None => nums es = []
  | Some s => sum_ok (nums es) s
  end.
Proof.
  intros es Hf. unfold gstats; simpl.
  assert (H := gsum_fold (map snd es) None [] eq_refl). simpl in H.
  rewrite <- nums_as_flat_map in H. specialize (H Hf).
  destruct (fold_left gsum_add (map snd es) None); tauto.
Qed.

(* avg(f) by g divides by the ROW count of the group: exact only when every row has a number *)
Lemma gstats_avg_dense : forall es, fits es ->
  length (nums es) = length es -> es <> [] ->
  exists a, g_avg (gstats es) = Some a /\
    (a == Qmake (total (nums es)) 1024 / inject_Z (Z.of_nat (length (nums es))))%Q.
Proof.
  intros es Hf Hd Hne. assert (Hs := gstats_sum_exact es Hf). unfold gstats in *; simpl in *.
  destruct (fold_left gsum_add (map snd es) None) as [s|].
  - assert (0 <? Z.of_nat (length es) = true) as ->.
    { apply Z.ltb_lt. destruct es; [congruence | simpl; lia]. }
    eexists; split; [reflexivity|]. rewrite Hd, (sum_q_ok _ _ Hs). reflexivity.
  - rewrite Hs in Hd. destruct es; [congruence | discriminate].
Qed.

(* ================= where the code leaves the mathematics (witnesses) ================= *)
Definition big : Z := 4611686018427387904.   (* 2^62 *)

(* int64 sums wrap: two events with f = 2^62 *)
Lemma sum_overflow_refuted :
  exists l, ~ fits l /\ has_num l = true /\
            ~ sum_ok (nums l) (r_sum (finalize (stats false l))) /\
            r_sum (finalize (stats false l)) = SInt (- two63).
Proof.
  exists [(0, MInt big); (1, MInt big)].
  split; [unfold fits; vm_compute; congruence|].
  split; [reflexivity|].
  split; [intros [H _]; vm_compute in H; discriminate | vm_compute; reflexivity].
Qed.

(* ... and then the answer depends on how the same events are cut into blocks *)
Lemma sum_overflow_segmentation_refuted :
  exists bs bs', concat bs = concat bs' /\
    r_sum (finalize (merge_blocks false bs)) <> r_sum (finalize (merge_blocks false bs')).
Proof.
  exists [[(0, MInt big)]; [(1, MInt big); (2, MFlt 512)]], [[(0, MInt big); (1, MInt big)]; [(2, MFlt 512)]].
  split; [reflexivity | vm_compute; congruence].
Qed.

Lemma sum_merge_assoc_refuted :
  exists a b c, sum_merge (sum_merge a b) c <> sum_merge a (sum_merge b c).
Proof. exists (SInt big), (SInt big), (SFlt 0). vm_compute. congruence. Qed.

Definition sx : str := [120%N].

(* the guards are satisfiable together with real work (non-vacuity): strings-only block first,
   an event without the field last *)
Example guards_satisfiable :
  let bs := [[(1, MStr sx)]; [(0, MInt 5); (2, MFlt 2560); (3, MAbs)]; [(4, MNumStr [55%N] 7168); (5, MAbs)]] in
  fits (concat bs) /\ NoDup (map fst (concat bs)) /\
  r_sum (finalize (merge_blocks true bs)) = SFlt (5 * 1024 + 2560 + 7168) /\
  r_latest (finalize (merge_blocks true bs)) = Some (INum 7168).
Proof.
  simpl.
  split; [unfold fits; vm_compute; reflexivity|].
  split; [repeat constructor; simpl; intuition; discriminate|].
  split; vm_compute; reflexivity.
Qed.

(* count(f) / avg(f) BY a group use the number of rows of the group *)
Lemma gavg_refuted :
  exists es, fits es /\ length (nums es) = 1%nat /\ total (nums es) = 4 * 1024 /\
    g_rows (gstats es) = 2 /\
    g_avg (gstats es) = Some (Qdiv (inject_Z 4) (inject_Z 2)).
Proof.
  exists [(0, MInt 4); (1, MAbs)].
  split; [unfold fits; vm_compute; reflexivity|]. repeat split; vm_compute; reflexivity.
Qed.

(* ================= the code before the two fixes (documentation) ================= *)
(* [merge_prefix]: IsNumeric of the receiver was kept.  It agrees with the fixed merge when both
   sides agree on IsNumeric ... *)
Lemma prefix_merge_guarded : forall a b, isnum a = isnum b -> merge_prefix a b = merge a b.
Proof. intros a b H. unfold merge_prefix, merge. rewrite H, orb_diag. reflexivity. Qed.

(* ... and otherwise: a block that holds only non-numeric strings, merged first, turned sum and
   avg of the whole into 0 (older segment f=5,7; newest segment f="x") *)
Lemma prefix_segmentation_isnum_refuted :
  exists bs bs', Permutation bs bs' /\ fits (concat bs) /\
    r_sum (finalize (merge_blocks_prefix false bs)) = SInt 0 /\
    r_avg (finalize (merge_blocks_prefix false bs)) = None /\
    r_sum (finalize (merge_blocks_prefix false bs')) = SInt 12 /\
    r_sum (finalize (merge_blocks false bs)) = SInt 12 /\
    r_avg (finalize (merge_blocks false bs)) = Some (Qdiv (inject_Z 12) (inject_Z 2)).
Proof.
  exists [[(2, MStr sx)]; [(0, MInt 5); (1, MInt 7)]], [[(0, MInt 5); (1, MInt 7)]; [(2, MStr sx)]].
  split; [apply perm_swap|].
  split; [unfold fits; vm_compute; reflexivity|].
  repeat split; vm_compute; reflexivity.
Qed.

Lemma prefix_merge_identity_isnum_refuted :
  exists y, isnum (merge_prefix new_for_str y) <> isnum y.
Proof. exists new_for_num. vm_compute. congruence. Qed.

(* [add_prefix]: the time functions ran on every matched record.  Same as the fixed add on an
   event that has the field ... *)
Lemma prefix_add_guarded : forall wt o e, present (snd e) = true -> add_prefix wt o e = add wt o e.
Proof. intros wt o [t v] H. destruct v; simpl in *; try discriminate; reflexivity. Qed.

(* ... and otherwise: events f=5, f=7, (no f) in time order gave latest(f) = nothing (printed 0)
   although the latest event that has f says 7 *)
Lemma prefix_latest_from_event_without_field_refuted :
  exists l, NoDup (map fst l) /\
    r_latest (finalize (stats_prefix true l)) = None /\
    r_latest (finalize (stats true l)) = Some (INum (7 * 1024)).
Proof.
  exists [(0, MInt 5); (1, MInt 7); (2, MAbs)].
  split; [repeat constructor; simpl; intuition; discriminate|].
  split; vm_compute; reflexivity.
Qed.

(* ================= the statement for results ================= *)
(* for every way of cutting the matched events into blocks: each reported measure equals its
   mathematical definition over the matched events; earliest/latest are the values at the least /
   greatest timestamp among the events that HAVE the field *)
Lemma result_exact_guarded : forall wt bs,
  let l := concat bs in
  fits l ->
  let r := finalize (merge_blocks wt bs) in
  r_count r = Z.of_nat (length (items l)) /\
  (if has_num l then sum_ok (nums l) (r_sum r) else r_sum r = SInt 0) /\
  (if has_num l
   then exists a, r_avg r = Some a /\ (a == Qmake (total (nums l)) 1024 / inject_Z (Z.of_nat (length (nums l))))%Q
   else r_avg r = None) /\
  is_best true (vals l) (r_min r) /\ is_best false (vals l) (r_max r) /\
  r_values r = items l /\ r_list r = items l /\
  (wt = true -> pres l <> [] ->
     exists te ve tl vl,
       In (te, ve) l /\ present ve = true /\
       (forall e, In e l -> present (snd e) = true -> te <= fst e) /\ r_earliest r = item_of ve /\
       In (tl, vl) l /\ present vl = true /\
       (forall e, In e l -> present (snd e) = true -> fst e <= tl) /\ r_latest r = item_of vl).
Proof.
  intros wt bs l Hf r. unfold r. rewrite finalize_view.
  assert (E := blocks_exact wt bs Hf). fold l in E.
  destruct (finalize_exact wt l _ E) as [H1 [H2 [H3 [H4 [H5 [H6 [H7 H8]]]]]]].
  refine (conj H1 (conj H2 (conj H3 (conj H4 (conj H5 (conj H6 (conj H7 _))))))).
  intros -> Hne. destruct H8 as [[Hn _] | [x [Hx [L1 [L2 [E1 E2]]]]]]; [congruence|].
  exists (ets x), (eval_ x), (lts x), (lval x). unfold finalize; simpl. rewrite Hx.
  unfold pres in *. apply filter_In in L1. apply filter_In in E1. simpl in *.
  destruct L1 as [L1 L1p], E1 as [E1 E1p].
  repeat split; auto.
  - intros e He Hp. apply E2. apply filter_In. auto.
  - intros e He Hp. apply L2. apply filter_In. auto.
Qed.

Lemma minmax_comm_assoc : forall m a b c,
  reduce_minmax a b m = reduce_minmax b a m /\
  reduce_minmax (reduce_minmax a b m) c m = reduce_minmax a (reduce_minmax b c m) m /\
  reduce_minmax a VNone m = a /\ reduce_minmax VNone a m = a.
Proof.
  intros. split; [apply rm_comm|]. split; [apply rm_assoc|]. split; [apply rm_none_r | reflexivity].
Qed.

(* the absent map entry and the empty record are identities (the empty record on the left: for a
   reachable right operand, because Min/Max are each merged with both Min and Max of the other side) *)
Lemma merge_identity : forall wt l x,
  mergeo None (Some x) = Some x /\ mergeo (Some x) None = Some x /\
  sameF (merge x new_for_str) x /\
  (exactv wt l x -> sameF (merge new_for_str x) x).
Proof.
  intros. split; [reflexivity|]. split; [reflexivity|]. split; [apply merge_zero_r|].
  intros; eapply merge_zero_l; eauto.
Qed.

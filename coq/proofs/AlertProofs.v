(* AlertProofs.v — the alert state is a function of the last N evaluation outcomes;
   notification theorems.  Model: SigM.Alert. *)
From Coq Require Import Lia.
From Coq Require Import ZifyN ZifyNat ZifyBool.
From SigM Require Import Base Alert.
From SigP Require Import BaseProofs.
Ltac Zify.zify_post_hook ::= Z.div_mod_to_equations.
Open Scope Z_scope.

(* ------------------------------------------------------------------ *)
(* 1. state = function of the history rows                             *)
(* ------------------------------------------------------------------ *)

(* the evaluation rows of the history (newest first) mirror the evaluation outcomes:
   a row is Pending/Firing iff its outcome was true.  Config-change rows are not read. *)
Definition rows_match (h : history) (os : list bool) : Prop :=
  Forall2 (fun r o => pending_or_firing r = o) (eval_rows h) os.

Lemma window_ok_all_held l os : Forall2 (fun r o => pending_or_firing r = o) l os ->
  forall n, window_ok n l = all_held n os.
Proof.
  induction 1 as [|r o h os Hro _ IH]; intros n.
  - destruct n; reflexivity.
  - cbn [window_ok all_held]. destruct (n =? 0)%N; [reflexivity|].
    rewrite Hro, IH. reflexivity.
Qed.

Lemma outcomes_app a b : outcomes (a ++ b) = outcomes a ++ outcomes b.
Proof.
  induction a as [|e a IH]; cbn [app outcomes]; [reflexivity|].
  destruct e; cbn [app]; rewrite IH; reflexivity.
Qed.

(* the state the code computes for an outcome, given the outcomes of the earlier evaluations *)
Definition code_state (n : N) (m : bool) (ros : list bool) : astate :=
  if m then
    (if (n =? 0)%N then Pending else if (n =? 1)%N then Firing
     else if all_held (n - 1) ros then Firing else Pending)
  else Normal.

Lemma handle_condition_state t m d a ros :
  rows_match (a_hist a) ros ->
  let a' := fst (handle_condition t m d a) in
  a_state a' = code_state (a_window a / a_interval a) m ros
  /\ rows_match (a_hist a') (m :: ros)
  /\ a_window a' = a_window a /\ a_interval a' = a_interval a.
Proof.
  intros Hr. unfold handle_condition. cbn [fst a_state a_hist a_window a_interval].
  unfold code_state, should_fire. cbn [pending_or_firing negb].
  rewrite (window_ok_all_held _ _ Hr).
  unfold rows_match. cbn [eval_rows].
  destruct m.
  - destruct (a_window a / a_interval a =? 0)%N;
      [|destruct (a_window a / a_interval a =? 1)%N;
         [|destruct (all_held (a_window a / a_interval a - 1) ros)]];
      (split; [reflexivity|split; [constructor; [reflexivity|exact Hr]|split; reflexivity]]).
  - split; [reflexivity|split; [constructor; [reflexivity|exact Hr]|split; reflexivity]].
Qed.

(* code_state against the specification *)
Lemma code_state_spec n m os : code_state n m os = spec_state n (m :: os).
Proof.
  unfold code_state, spec_state. destruct m; [|reflexivity].
  cbn [all_held andb].
  destruct (N.eqb_spec n 0) as [->|Hn0]; [reflexivity|].
  destruct (N.eqb_spec n 1) as [->|Hn1]; [cbn; destruct os; reflexivity|].
  replace (1 <=? n)%N with true by (symmetry; apply N.leb_le; lia).
  reflexivity.
Qed.

Lemma step_rows d a e ros :
  rows_match (a_hist a) ros ->
  rows_match (a_hist (fst (step d a e))) (outcomes [e] ++ ros).
Proof.
  intros Hr. destruct e as [t m|w i|mn]; cbn [step outcomes app].
  - pose proof (handle_condition_state t m d a ros Hr) as H. cbn zeta in H.
    destruct (handle_condition t m d a) as [a' s]. cbn [fst] in *. apply H.
  - cbn [fst a_hist]. exact Hr.
  - cbn [fst a_hist]. exact Hr.
Qed.

Lemma run_from_app d e1 e2 a sent :
  run_from d (e1 ++ e2) a sent =
  run_from d e2 (fst (run_from d e1 a sent)) (snd (run_from d e1 a sent)).
Proof.
  revert a sent; induction e1 as [|e r IH]; intros a sent; cbn [app run_from fst snd]; [reflexivity|].
  destruct (step d a e) as [a' s]. apply IH.
Qed.

(* the evaluation rows after any event list mirror the outcomes (newest first) *)
Lemma run_rows d evs : forall a sent ros,
  rows_match (a_hist a) ros ->
  rows_match (a_hist (fst (run_from d evs a sent))) (outcomes (rev evs) ++ ros).
Proof.
  induction evs as [|e r IH]; intros a sent ros Hr; cbn [run_from rev fst outcomes app]; [exact Hr|].
  pose proof (step_rows d a e ros Hr) as Hs.
  destruct (step d a e) as [a' s]. cbn [fst] in Hs.
  rewrite outcomes_app, <- app_assoc. apply IH. exact Hs.
Qed.

Lemma outcomes_rev evs : outcomes (rev evs) = rev (outcomes evs).
Proof.
  induction evs as [|e r IH]; [reflexivity|].
  cbn [rev]. rewrite outcomes_app, IH.
  destruct e; cbn [outcomes app]; rewrite ?app_nil_r; reflexivity.
Qed.

(* MAIN, all events: after ANY sequence of evaluations, configuration updates and silencing
   followed by an evaluation, the state is the specified function of the evaluation outcomes
   alone; N is taken from the configuration in force. *)
Theorem alert_state_is_function_of_last_N_all_events d evs t m w i cd :
  let a := fst (run d (evs ++ [Eval t m]) (new_alert w i cd)) in
  a_state a = spec_state (a_window a / a_interval a) (rev (outcomes (evs ++ [Eval t m]))).
Proof.
  cbn zeta. unfold run. rewrite run_from_app.
  pose proof (run_rows d evs (new_alert w i cd) [] [] (Forall2_nil _)) as Hr.
  rewrite app_nil_r in Hr.
  set (a0 := fst (run_from d evs (new_alert w i cd) [])) in *.
  cbn [run_from step].
  pose proof (handle_condition_state t m d a0 _ Hr) as H. cbn zeta in H.
  destruct (handle_condition t m d a0) as [a' s]. cbn [fst] in *.
  destruct H as (H1 & _ & H3 & H4). rewrite H1, H3, H4.
  rewrite outcomes_app, rev_app_distr. cbn [outcomes rev app].
  rewrite code_state_spec, outcomes_rev. reflexivity.
Qed.

Lemma run_evals_config d evs : forall a sent, forallb is_eval evs = true ->
  a_window (fst (run_from d evs a sent)) = a_window a /\
  a_interval (fst (run_from d evs a sent)) = a_interval a.
Proof.
  induction evs as [|e r IH]; intros a sent H; [split; reflexivity|].
  cbn [forallb] in H. apply andb_true_iff in H. destruct H as [He Hl].
  destruct e as [t m| |]; try discriminate.
  cbn [run_from step]. unfold handle_condition.
  destruct (IH (fst (handle_condition t m d a))
              (match snd (handle_condition t m d a) with Some k => (t, k) :: sent | None => sent end) Hl) as [A B].
  unfold handle_condition in A, B. cbn [fst snd] in A, B.
  match goal with |- context [if ?c then Some _ else None] => destruct c end; cbn [a_window a_interval] in *; auto.
Qed.

(* MAIN, evaluations only: for every sequence of evaluations (any length, any outcomes, any times),
   the alert's state is the specified function of the outcomes: it depends on the last N only *)
Theorem alert_state_is_function_of_last_N d w i cd evs :
  forallb is_eval evs = true ->
  a_state (fst (run d evs (new_alert w i cd))) = spec_state (w / i) (rev (outcomes evs)).
Proof.
  intros H.
  destruct evs as [|e0 r0] using rev_ind; [reflexivity|].
  pose proof H as Hall.
  rewrite forallb_app in H. apply andb_true_iff in H. destruct H as [Hr He].
  cbn [forallb] in He. destruct e0 as [t m| |]; try discriminate.
  pose proof (alert_state_is_function_of_last_N_all_events d r0 t m w i cd) as G. cbn zeta in G.
  destruct (run_evals_config d (r0 ++ [Eval t m]) (new_alert w i cd) [] Hall) as [Hw Hi].
  unfold run in *. rewrite Hw, Hi in G. exact G.
Qed.

(* reading of spec_state: the three clauses of the property text ([os] newest first) *)
Lemma all_held_iff os : forall n : nat,
  all_held (N.of_nat n) os = true <-> (n <= length os)%nat /\ Forall (eq true) (firstn n os).
Proof.
  induction os as [|o os IH]; intros n.
  - destruct n; cbn [all_held].
    + cbn. split; [intros _; split; [lia|constructor]|reflexivity].
    + replace (N.of_nat (S n) =? 0)%N with false by (symmetry; apply N.eqb_neq; lia).
      split; [discriminate|]. cbn [length]. intros [H _]. lia.
  - destruct n.
    + cbn. split; [intros _; split; [lia|constructor]|reflexivity].
    + cbn [all_held]. replace (N.of_nat (S n) =? 0)%N with false by (symmetry; apply N.eqb_neq; lia).
      replace (N.of_nat (S n) - 1)%N with (N.of_nat n) by lia.
      rewrite andb_true_iff, IH. cbn [length firstn]. split.
      * intros [-> [H1 H2]]. split; [lia|constructor; auto].
      * intros [H1 H2]. inversion H2; subst. split; [reflexivity|split; [lia|assumption]].
Qed.

Theorem spec_state_firing_iff (n : nat) os :
  spec_state (N.of_nat n) os = Firing <->
  (1 <= n)%nat /\ (n <= length os)%nat /\ Forall (eq true) (firstn n os).
Proof.
  unfold spec_state. destruct os as [|[|] os].
  - split; [discriminate|]. intros (H1 & H2 & _). cbn in H2. lia.
  - destruct (1 <=? N.of_nat n)%N eqn:E1; cbn [andb].
    + apply N.leb_le in E1.
      destruct (all_held (N.of_nat n) (true :: os)) eqn:E2.
      * apply all_held_iff in E2. split; [intros _; split; [lia|exact E2]|reflexivity].
      * split; [discriminate|]. intros (_ & H2 & H3).
        assert (all_held (N.of_nat n) (true :: os) = true) by (apply all_held_iff; auto). congruence.
    + apply N.leb_gt in E1. split; [discriminate|]. intros (H1 & _). lia.
  - split; [discriminate|]. intros (H1 & H2 & H3).
    destruct n; [lia|]. cbn [firstn] in H3. inversion H3; discriminate.
Qed.

Theorem spec_state_pending_iff (n : nat) os :
  spec_state (N.of_nat n) os = Pending <->
  (exists r, os = true :: r) /\
  ~ ((1 <= n)%nat /\ (n <= length os)%nat /\ Forall (eq true) (firstn n os)).
Proof.
  rewrite <- spec_state_firing_iff.
  unfold spec_state. destruct os as [|[|] os].
  - split; [discriminate|]. intros [[r H] _]. discriminate.
  - destruct ((1 <=? N.of_nat n)%N && all_held (N.of_nat n) (true :: os)).
    + split; [discriminate|]. intros [_ H]. exfalso. apply H. reflexivity.
    + split; [intros _; split; [eexists; reflexivity|discriminate]|reflexivity].
  - split; [discriminate|]. intros [[r H] _]. discriminate.
Qed.

Theorem spec_state_normal_iff n os :
  spec_state n os = Normal <-> exists r, os = false :: r.
Proof.
  unfold spec_state. destruct os as [|[|] os].
  - split; [discriminate|]. intros [r H]. discriminate.
  - split; [destruct (_ && _); discriminate|]. intros [r H]. discriminate.
  - split; [intros _; eexists; reflexivity|reflexivity].
Qed.

(* PRE-FIX documentation: the window check used to read the newest N-1 rows of ANY kind, and a
   configuration update writes a row with state Inactive: window 2, interval 1:
   T, T, update (same config), T  ->  the last two evaluation outcomes are true, yet Pending *)
Definition update_witness : list event := [Eval 0 true; Eval 60 true; Update 2 1; Eval 120 true].

Theorem prefix_alert_state_update_refuted :
  exists w i cd evs,
    let a := run_prefix evs (new_alert w i cd) in
    (a_window a / a_interval a = w / i)%N /\
    a_state a <> spec_state (w / i) (rev (outcomes evs)).
Proof.
  exists 2%N, 1%N, 0, update_witness. vm_compute. split; [reflexivity|discriminate].
Qed.

(* the same events on the fixed code *)
Example update_witness_fixed :
  a_state (fst (run true update_witness (new_alert 2 1 0))) = Firing.
Proof. vm_compute. reflexivity. Qed.

(* ------------------------------------------------------------------ *)
(* 2. notifications                                                    *)
(* ------------------------------------------------------------------ *)

Definition head_time (sent : list (Z * astate)) : option Z :=
  match sent with [] => None | (t, _) :: _ => Some t end.
Definition head_kind (sent : list (Z * astate)) : astate :=
  match sent with [] => Inactive | (_, k) :: _ => k end.

(* consecutive notifications are at least the cool-down apart *)
Fixpoint gaps_ok (cd : Z) (sent : list (Z * astate)) : Prop :=
  match sent with
  | (t2, _) :: (((t1, _) :: _) as r) => cd * 60 <= t2 - t1 /\ gaps_ok cd r
  | _ => True
  end.

(* every Normal notification directly follows a Firing notification *)
Fixpoint normal_ok (sent : list (Z * astate)) : Prop :=
  match sent with
  | [] => True
  | (_, k) :: r => (k = Firing \/ (k = Normal /\ head_kind r = Firing)) /\ normal_ok r
  end.

Record ninv (cd : Z) (a : alert) (sent : list (Z * astate)) : Prop := {
  ni_time : n_last_sent (a_notif a) = head_time sent;
  ni_kind : n_last_state (a_notif a) = head_kind sent;
  ni_cd : n_cooldown (a_notif a) = cd;
  ni_gaps : gaps_ok cd sent;
  ni_normal : normal_ok sent
}.

Lemma astate_eqb_eq a b : astate_eqb a b = true <-> a = b.
Proof. destruct a, b; cbn; split; congruence. Qed.

Lemma step_ninv cd d a e sent : ninv cd a sent ->
  ninv cd (fst (step d a e))
       (match snd (step d a e) with Some x => x :: sent | None => sent end).
Proof.
  intros [Ht Hk Hc Hg Hn].
  destruct e as [t m|w i|mn]; cbn [step]; [|constructor; assumption|constructor; assumption].
  unfold handle_condition.
  set (new := if m then _ else Normal).
  set (snt := _ && _ && d).
  destruct snt eqn:Es; cbn [fst snd a_notif n_last_sent n_last_state n_cooldown];
    [|constructor; assumption].
  apply andb_true_iff in Es. destruct Es as [Es _].
  apply andb_true_iff in Es. destruct Es as [Eatt Ess].
  constructor; cbn [head_time head_kind]; auto.
  - (* gaps *)
    destruct sent as [|[t1 k1] r]; [exact I|]. cbn [gaps_ok]. split; [|exact Hg].
    unfold should_send in Ess. rewrite Hc, Ht in Ess. cbn [head_time gate_over] in Ess.
    destruct (astate_eqb new Normal && _); [discriminate|].
    destruct (astate_eqb new Normal && _); [discriminate|].
    destruct (cd * 60 <=? t - t1) eqn:E; [|discriminate]. lia.
  - (* normal follows firing *)
    cbn [normal_ok]. split; [|exact Hn].
    assert (Hnew : new = Firing \/ new = Normal).
    { destruct new; try discriminate; auto. }
    destruct Hnew as [->|Hnew]; [left; reflexivity|]. right. split; [exact Hnew|].
    rewrite Hnew in Ess. unfold should_send in Ess. rewrite Hk in Ess.
    cbn [astate_eqb astate_code N.eqb andb] in Ess.
    destruct (head_kind sent) eqn:Ek; cbn in Ess; try discriminate; try reflexivity.
    (* head kind Pending is impossible: kinds are Firing or Normal *)
    destruct sent as [|[t1 k1] r]; [discriminate|]. cbn [head_kind] in Ek. subst k1.
    cbn [normal_ok] in Hn. destruct Hn as [[H|[H _]] _]; discriminate.
Qed.

Lemma run_from_ninv cd d evs : forall a sent, ninv cd a sent ->
  ninv cd (fst (run_from d evs a sent)) (snd (run_from d evs a sent)).
Proof.
  induction evs as [|e r IH]; intros a sent H; cbn [run_from fst snd]; [exact H|].
  pose proof (step_ninv cd d a e sent H) as Hs.
  destruct (step d a e) as [a' s]. cbn [fst snd] in Hs. apply IH. exact Hs.
Qed.

Lemma new_alert_ninv w i cd : ninv cd (new_alert w i cd) [].
Proof. constructor; cbn; auto. Qed.

Lemma gaps_ok_adjacent cd pre : forall t2 k2 t1 k1 post,
  gaps_ok cd (pre ++ (t2, k2) :: (t1, k1) :: post) -> cd * 60 <= t2 - t1.
Proof.
  induction pre as [|[t k] pre IH]; intros t2 k2 t1 k1 post H.
  - cbn in H. tauto.
  - cbn [app gaps_ok] in H. destruct (pre ++ _) eqn:E.
    + destruct pre; discriminate.
    + destruct p. destruct H as [_ H]. rewrite <- E in H. eapply IH. exact H.
Qed.

(* FULL: whatever the events (evaluations at any times with any outcomes, configuration
   updates, silencing) and whether or not delivery succeeds, two consecutive notifications of an
   alert are at least the cool-down apart; [sent] is newest first. *)
Theorem repeat_only_after_cooldown d w i cd evs pre t2 k2 t1 k1 post :
  snd (run d evs (new_alert w i cd)) = pre ++ (t2, k2) :: (t1, k1) :: post ->
  cd * 60 <= t2 - t1.
Proof.
  intros E. pose proof (run_from_ninv cd d evs _ _ (new_alert_ninv w i cd)) as H.
  unfold run in E. destruct H as [_ _ _ Hg _]. rewrite E in Hg.
  eapply gaps_ok_adjacent. exact Hg.
Qed.

Lemma normal_ok_split pre : forall t post,
  normal_ok (pre ++ (t, Normal) :: post) -> exists t' post', post = (t', Firing) :: post'.
Proof.
  induction pre as [|[t0 k0] pre IH]; intros t post H.
  - cbn [app normal_ok] in H. destruct H as [[H|[_ H]] _]; [discriminate|].
    destruct post as [|[t' k'] post']; cbn in H; [discriminate|]. subst k'. eauto.
  - cbn [app normal_ok] in H. destruct H as [_ H]. eapply IH. exact H.
Qed.

(* FULL: a Normal notification goes out at most once per firing episode and never without
   one: in the sequence of notifications every Normal one directly follows a Firing one. *)
Theorem normal_notified_at_most_once d w i cd evs pre t post :
  snd (run d evs (new_alert w i cd)) = pre ++ (t, Normal) :: post ->
  exists t' post', post = (t', Firing) :: post'.
Proof.
  intros E. pose proof (run_from_ninv cd d evs _ _ (new_alert_ninv w i cd)) as H.
  unfold run in E. destruct H as [_ _ _ _ Hn]. rewrite E in Hn.
  eapply normal_ok_split. exact Hn.
Qed.

(* only Firing and Normal notifications exist *)
Theorem notification_kinds d w i cd evs t k :
  In (t, k) (snd (run d evs (new_alert w i cd))) -> k = Firing \/ k = Normal.
Proof.
  pose proof (run_from_ninv cd d evs _ _ (new_alert_ninv w i cd)) as H.
  destruct H as [_ _ _ _ Hn]. unfold run. revert Hn.
  generalize (snd (run_from d evs (new_alert w i cd) [])). intros l.
  induction l as [|[t0 k0] l IH]; intros Hn Hin; [destruct Hin|].
  cbn [normal_ok] in Hn. destruct Hn as [Hk Hn]. destruct Hin as [E|Hin].
  - inversion E; subst. tauto.
  - apply IH; assumption.
Qed.

(* the two time gates of shouldSendNotification *)
Definition gates_open (a : alert) (now : Z) : bool :=
  gate_over (n_cooldown (a_notif a)) (n_last_sent (a_notif a)) now &&
  gate_over (a_silence a) (n_last_sent (a_notif a)) now.

(* GUARDED: in any state reached by any events, an evaluation that makes the alert Firing
   sends a Firing notification provided the cool-down and silence gates are open (exact guard)
   and a contact channel accepts it *)
Theorem notify_on_enter_firing_guarded w i cd evs t :
  let a := fst (run true evs (new_alert w i cd)) in
  gates_open a t = true ->
  a_state (fst (step true a (Eval t true))) = Firing ->
  snd (step true a (Eval t true)) = Some (t, Firing).
Proof.
  cbn zeta. set (a := fst _). intros G. unfold gates_open in G.
  apply andb_true_iff in G. destruct G as [G1 G2].
  cbn [step]. unfold handle_condition. cbn [fst snd a_state].
  destruct (should_fire _ _ _ _); [|discriminate]. intros _.
  unfold should_send. cbn [astate_eqb astate_code N.eqb andb]. rewrite G1, G2. reflexivity.
Qed.

(* GUARDED: after a Firing notification, the first evaluation whose condition does not hold
   sends the Normal notification provided the gates are open *)
Theorem notify_once_on_normal_guarded w i cd evs t :
  let a := fst (run true evs (new_alert w i cd)) in
  gates_open a t = true ->
  n_last_state (a_notif a) = Firing ->
  snd (step true a (Eval t false)) = Some (t, Normal).
Proof.
  cbn zeta. set (a := fst _). intros G L. unfold gates_open in G.
  apply andb_true_iff in G. destruct G as [G1 G2].
  cbn [step]. unfold handle_condition. cbn [fst snd].
  unfold should_send. rewrite L. cbn [astate_eqb astate_code N.eqb andb]. rewrite G1, G2. reflexivity.
Qed.

(* with the cool-down that siglens actually configures (0: CreateAlert writes 0, nothing ever
   changes it) and no silencing, the gates are open at every evaluation of a time-ordered run *)
Definition last_time_le (a : alert) (t : Z) : Prop :=
  match n_last_sent (a_notif a) with Some t' => t' <= t | None => True end.

Definition no_silence (e : event) : bool := match e with Silence _ => false | _ => true end.

Record cinv (a : alert) (t : Z) : Prop := {
  ci_cd : n_cooldown (a_notif a) = 0;
  ci_sil : a_silence a = 0;
  ci_time : last_time_le a t
}.

Lemma step_cinv d a e t0 :
  cinv a t0 -> no_silence e = true ->
  match e with
  | Eval t _ => t0 <= t -> cinv (fst (step d a e)) t
  | _ => cinv (fst (step d a e)) t0
  end.
Proof.
  intros [Hc Hs Ht] Hn. destruct e as [t m|w i|mn]; try discriminate.
  - intros Hle. cbn [step]. unfold handle_condition.
    match goal with |- context [if ?c then Some _ else None] => destruct c end.
    + constructor; cbn [fst a_notif a_silence n_cooldown n_last_sent]; auto.
      unfold last_time_le. cbn [fst a_notif n_last_sent]. lia.
    + constructor; cbn [fst a_notif a_silence n_cooldown n_last_sent]; auto.
      unfold last_time_le in *. cbn [fst a_notif]. destruct (n_last_sent (a_notif a)); [lia|exact I].
  - constructor; assumption.
Qed.

Lemma run_from_cinv d evs : forall a sent t0 tf m,
  cinv a t0 -> forallb no_silence evs = true ->
  times_from t0 (evs ++ [Eval tf m]) = true ->
  cinv (fst (run_from d evs a sent)) tf.
Proof.
  induction evs as [|e r IH]; intros a sent t0 tf m Hc Hn Ht.
  - cbn [app times_from] in Ht. apply andb_true_iff in Ht. destruct Ht as [Ht _].
    apply Z.leb_le in Ht. destruct Hc as [A B C]. cbn [run_from fst]. constructor; auto.
    unfold last_time_le in *. destruct (n_last_sent (a_notif a)); [lia|exact I].
  - cbn [forallb] in Hn. apply andb_true_iff in Hn. destruct Hn as [Hn1 Hn2].
    cbn [run_from]. pose proof (step_cinv d a e t0 Hc Hn1) as Hs.
    destruct (step d a e) as [a' s] eqn:Es. cbn [fst] in Hs.
    destruct e as [t m'|w i|mn]; try discriminate.
    + cbn [app times_from] in Ht. apply andb_true_iff in Ht. destruct Ht as [Ht1 Ht2].
      apply Z.leb_le in Ht1. eapply IH; [apply Hs; exact Ht1|exact Hn2|exact Ht2].
    + cbn [app times_from] in Ht. eapply IH; [exact Hs|exact Hn2|exact Ht].
Qed.

Lemma cinv_gates a t : cinv a t -> gates_open a t = true.
Proof.
  intros [Hc Hs Ht]. unfold gates_open, gate_over, last_time_le in *. rewrite Hc, Hs.
  destruct (n_last_sent (a_notif a)); [|reflexivity].
  apply andb_true_iff; split; apply Z.leb_le; lia.
Qed.

Lemma new_alert_cinv w i t : cinv (new_alert w i 0) t.
Proof. constructor; cbn; auto. Qed.

(* FULL for the configured cool-down 0 and no silencing: for every time-ordered sequence of
   evaluations and configuration updates, EVERY evaluation that leaves the alert Firing (in
   particular the one on which it enters Firing) sends a Firing notification *)
Theorem notify_on_enter_firing w i evs t t0 :
  forallb no_silence evs = true ->
  times_from t0 (evs ++ [Eval t true]) = true ->
  let a := fst (run true evs (new_alert w i 0)) in
  a_state (fst (step true a (Eval t true))) = Firing ->
  snd (step true a (Eval t true)) = Some (t, Firing).
Proof.
  intros Hn Ht. cbn zeta. apply notify_on_enter_firing_guarded.
  apply cinv_gates. unfold run.
  eapply run_from_cinv; [apply new_alert_cinv|exact Hn|exact Ht].
Qed.

(* FULL for cool-down 0 and no silencing: when the last notification was Firing, the next
   evaluation whose condition does not hold sends the Normal notification at once *)
Theorem notify_once_on_normal w i evs t t0 :
  forallb no_silence evs = true ->
  times_from t0 (evs ++ [Eval t false]) = true ->
  let a := fst (run true evs (new_alert w i 0)) in
  n_last_state (a_notif a) = Firing ->
  snd (step true a (Eval t false)) = Some (t, Normal).
Proof.
  intros Hn Ht. cbn zeta. apply notify_once_on_normal_guarded.
  apply cinv_gates. unfold run.
  eapply run_from_cinv; [apply new_alert_cinv|exact Hn|exact Ht].
Qed.

(* REFUTED for a cool-down > 0 (the column exists, shouldSendNotification reads it):
   N = 1, cool-down 10 min.  t=0 T: Firing, notified.  t=60 F: Normal, NOT notified (gate).
   t=120 T: the alert ENTERS Firing again, NOT notified. *)
Definition cooldown_witness : list event := [Eval 0 true; Eval 60 false].

Theorem notify_once_on_normal_refuted :
  exists w i cd evs t,
    let a := fst (run true evs (new_alert w i cd)) in
    n_last_state (a_notif a) = Firing /\ a_state a = Firing /\
    a_state (fst (step true a (Eval t false))) = Normal /\
    snd (step true a (Eval t false)) = None.
Proof.
  exists 1%N, 1%N, 10, [Eval 0 true], 60. vm_compute. repeat split; reflexivity.
Qed.

Theorem notify_on_enter_firing_refuted :
  exists w i cd evs t,
    let a := fst (run true evs (new_alert w i cd)) in
    a_state a <> Firing /\
    a_state (fst (step true a (Eval t true))) = Firing /\
    snd (step true a (Eval t true)) = None.
Proof.
  exists 1%N, 1%N, 10, cooldown_witness, 120. vm_compute. repeat split; try reflexivity. discriminate.
Qed.

(* the Normal notification of that episode is never sent if the alert fires again before the
   cool-down is over: whole run, notifications newest first *)
Theorem normal_notification_lost_refuted :
  snd (run true [Eval 0 true; Eval 60 false; Eval 120 true; Eval 700 true] (new_alert 1 1 10))
  = [(700, Firing); (0, Firing)].
Proof. vm_compute. reflexivity. Qed.

(* non-vacuity of the guards *)
Example gates_guard_satisfiable :
  let a := fst (run true [Eval 0 true; Eval 600 false; Eval 660 false] (new_alert 1 1 10)) in
  gates_open (fst (run true [Eval 0 true] (new_alert 1 1 10))) 600 = true /\
  snd (run true [Eval 0 true; Eval 600 false] (new_alert 1 1 10)) = [(600, Normal); (0, Firing)] /\
  a_state a = Normal.
Proof. vm_compute. repeat split; reflexivity. Qed.

(* BaseProofs.v — lemmas on little-endian fields and list surgery. *)
From Coq Require Import Lia.
From Coq Require Import ZifyN ZifyNat ZifyBool.
From SigM Require Import Base.
Ltac Zify.zify_post_hook ::= Z.div_mod_to_equations.
Open Scope N_scope.

Definition bytes_ok (p : bytes) : Prop := Forall (fun b => b < 256) p.

Lemma le_enc_length k n : length (le_enc k n) = k.
Proof. revert n; induction k as [|k IH]; intros n; cbn [le_enc length]; auto. Qed.

Lemma le_enc_ok k n : bytes_ok (le_enc k n).
Proof.
  revert n; induction k as [|k IH]; intros n; cbn [le_enc]; constructor.
  - apply N.mod_lt. lia.
  - apply IH.
Qed.

Lemma le_dec_enc k : forall n, n < 256 ^ N.of_nat k -> le_dec (le_enc k n) = n.
Proof.
  induction k as [|k IH]; intros n H.
  - cbn in *. lia.
  - cbn [le_enc le_dec]. rewrite IH.
    + pose proof (N.div_mod' n 256). lia.
    + rewrite Nat2N.inj_succ, N.pow_succ_r' in H.
      apply N.div_lt_upper_bound; lia.
Qed.

Lemma le_dec_bound bs : bytes_ok bs -> le_dec bs < 256 ^ N.of_nat (length bs).
Proof.
  induction 1 as [|b bs Hb Hbs IH]; cbn [le_dec length].
  - cbn. lia.
  - rewrite Nat2N.inj_succ, N.pow_succ_r'. lia.
Qed.

(* little-endian decoding is injective on byte lists of equal length *)
Lemma le_dec_inj a : forall b, bytes_ok a -> bytes_ok b -> length a = length b ->
  le_dec a = le_dec b -> a = b.
Proof.
  induction a as [|x a IH]; intros [|y b] Ha Hb Hl E; cbn in Hl; try discriminate; auto.
  inversion Ha as [|? ? Hx Ha']; inversion Hb as [|? ? Hy Hb']; subst.
  cbn [le_dec] in E.
  assert (x = y) by lia. subst y.
  f_equal. apply IH; auto. lia.
Qed.

Lemma rd_le_app k n r : n < 256 ^ N.of_nat k -> rd_le k (le_enc k n ++ r) = Some (n, r).
Proof.
  intros H. unfold rd_le.
  rewrite app_length, le_enc_length.
  replace (Nat.ltb (k + length r) k) with false by (symmetry; apply Nat.ltb_ge; lia).
  rewrite firstn_app, le_enc_length, Nat.sub_diag. cbn [firstn]. rewrite app_nil_r.
  rewrite firstn_all2 by (rewrite le_enc_length; lia).
  rewrite skipn_app, le_enc_length, Nat.sub_diag. cbn [skipn].
  rewrite skipn_all2 by (rewrite le_enc_length; lia).
  rewrite le_dec_enc by exact H. reflexivity.
Qed.

Lemma rd_le_bytes k a r : length a = k -> rd_le k (a ++ r) = Some (le_dec a, r).
Proof.
  intros H. unfold rd_le. rewrite app_length.
  replace (Nat.ltb (length a + length r) k) with false by (symmetry; apply Nat.ltb_ge; lia).
  rewrite firstn_app. replace (k - length a)%nat with 0%nat by lia. cbn [firstn]. rewrite app_nil_r.
  rewrite firstn_all2 by lia.
  rewrite skipn_app. replace (k - length a)%nat with 0%nat by lia. cbn [skipn].
  rewrite skipn_all2 by lia. reflexivity.
Qed.

Lemma rd_le_short k b : (length b < k)%nat -> rd_le k b = None.
Proof. intros H. unfold rd_le. replace (Nat.ltb (length b) k) with true by (symmetry; apply Nat.ltb_lt; lia). reflexivity. Qed.

Lemma bytes_ok_app a b : bytes_ok (a ++ b) <-> bytes_ok a /\ bytes_ok b.
Proof. apply Forall_app. Qed.

Lemma set_nth_length {A} i (x : A) l : length (set_nth i x l) = length l.
Proof. revert i; induction l as [|y l IH]; intros [|i]; cbn; auto. Qed.

Lemma set_nth_split {A} i (y : A) l : (i < length l)%nat ->
  exists pre x post, l = pre ++ x :: post /\ set_nth i y l = pre ++ y :: post /\ length pre = i /\ nth_error l i = Some x.
Proof.
  revert i; induction l as [|z l IH]; intros i H; cbn in H; [lia|].
  destruct i as [|i].
  - exists [], z, l. cbn. auto.
  - destruct (IH i) as (pre & x & post & E1 & E2 & E3 & E4); [lia|].
    exists (z :: pre), x, post. cbn. rewrite <- E1, E2. repeat split; auto.
Qed.

(* BitsProofs.v — lemmas on bit strings: leading/trailing zeros, slice/rebuild,
   fixed-width fields, xor of words. *)
From Coq Require Import Lia.
From Coq Require Import ZifyN ZifyNat ZifyBool.
From SigM Require Import Base Bits.
Ltac Zify.zify_post_hook ::= Z.div_mod_to_equations.
Open Scope nat_scope.

Lemma lz_spec w : exists r, w = zeros (lz w) ++ r /\ (r = [] \/ exists r', r = true :: r').
Proof.
  induction w as [|b w IH]; simpl.
  - exists []. auto.
  - destruct b.
    + exists (true :: w). split; auto. right; eauto.
    + destruct IH as [r [E H]]. exists r. split; auto. simpl. f_equal. exact E.
Qed.

Lemma firstn_zeros_prefix l w : l <= lz w -> firstn l w = zeros l.
Proof.
  revert w; induction l as [|l IH]; intros w H; simpl; auto.
  destruct w as [|[|] w]; simpl in H; try lia.
  change (zeros (S l)) with (false :: zeros l). f_equal. apply IH. lia.
Qed.

Lemma rev_zeros n : rev (zeros n) = zeros n.
Proof.
  unfold zeros. induction n as [|n IH]; simpl; auto.
  rewrite IH. clear IH. induction n as [|n IH]; simpl; auto. f_equal. exact IH.
Qed.

Lemma lz_le_length w : lz w <= length w.
Proof. induction w as [|[|] w IH]; simpl; lia. Qed.

Lemma lastn_zeros_suffix t w : t <= tz w -> skipn (length w - t) w = zeros t.
Proof.
  intros H. unfold tz in H.
  assert (Hl : t <= length w). { pose proof (lz_le_length (rev w)). rewrite rev_length in H0. lia. }
  pose proof (firstn_zeros_prefix t (rev w) H) as F.
  rewrite <- (rev_involutive w) at 2.
  rewrite skipn_rev. rewrite rev_length.
  replace (length w - (length w - t)) with t by lia.
  rewrite F. apply rev_zeros.
Qed.

Lemma skipn_add {A} (a b : nat) (l : list A) : skipn a (skipn b l) = skipn (b + a) l.
Proof.
  revert l; induction b as [|b IH]; intros l; simpl; auto.
  destruct l as [|x l]; simpl; [now rewrite skipn_nil | apply IH].
Qed.

(* key lemma: if the window (l,t) is within the zeros of w, slicing then rebuilding gives w back *)
Lemma split3 {A} (l m : nat) (w : list A) :
  w = firstn l w ++ firstn m (skipn l w) ++ skipn (l + m) w.
Proof.
  rewrite <- skipn_add. rewrite (firstn_skipn m (skipn l w)). now rewrite firstn_skipn.
Qed.

Lemma rebuild_slice l t w :
  l <= lz w -> t <= tz w -> l + t <= length w ->
  rebuild l t (slice l t w) = w.
Proof.
  intros Hl Ht Hlen. unfold rebuild, slice.
  rewrite <- (firstn_zeros_prefix l w Hl).
  rewrite <- (lastn_zeros_suffix t w Ht).
  replace (length w - t) with (l + (length w - l - t)) by lia.
  symmetry. apply split3.
Qed.

(* ---------- fixed-width fields ---------- *)
Open Scope N_scope.

Lemma N2bits_rev_length k n : length (N2bits_rev k n) = k.
Proof. revert n; induction k as [|k IH]; intros n; cbn [N2bits_rev length]; auto. Qed.

Lemma N2bits_length k n : length (N2bits k n) = k.
Proof. unfold N2bits. rewrite rev_length. apply N2bits_rev_length. Qed.

Lemma bitsrev2N_N2bits_rev k : forall n, bitsrev2N (N2bits_rev k n) = n mod 2 ^ N.of_nat k.
Proof.
  induction k as [|k IH]; intros n.
  - cbn. rewrite N.mod_1_r. reflexivity.
  - cbn [N2bits_rev bitsrev2N]. rewrite IH.
    rewrite Nat2N.inj_succ, N.pow_succ_r'.
    rewrite N.mod_mul_r by (try apply N.pow_nonzero; lia).
    rewrite N.div2_div.
    f_equal. rewrite <- N.bit0_mod, N.bit0_odd. reflexivity.
Qed.

Lemma bits2N_N2bits k n : bits2N (N2bits k n) = n mod 2 ^ N.of_nat k.
Proof. unfold bits2N, N2bits. rewrite rev_involutive. apply bitsrev2N_N2bits_rev. Qed.

Lemma bits2N_N2bits_small k n : n < 2 ^ N.of_nat k -> bits2N (N2bits k n) = n.
Proof. intros H. rewrite bits2N_N2bits. apply N.mod_small. exact H. Qed.

Lemma btake_app a r : btake (length a) (a ++ r) = Some (a, r).
Proof.
  unfold btake. rewrite app_length.
  replace (Nat.leb (length a) (length a + length r)) with true by (symmetry; apply Nat.leb_le; lia).
  rewrite firstn_app, Nat.sub_diag, firstn_all. cbn [firstn]. rewrite app_nil_r.
  rewrite skipn_app, Nat.sub_diag, skipn_all. reflexivity.
Qed.

Lemma btake_app' k a r : length a = k -> btake k (a ++ r) = Some (a, r).
Proof. intros <-. apply btake_app. Qed.

(* ---------- words ---------- *)
Lemma xorw_length a b : length a = length b -> length (xorw a b) = length a.
Proof. intros H. unfold xorw. rewrite map_length, combine_length. lia. Qed.

Lemma xorw_invol a : forall b, length a = length b -> xorw a (xorw a b) = b.
Proof.
  induction a as [|x a IH]; intros [|y b] H; cbn in *; try discriminate; auto.
  unfold xorw in *. cbn. rewrite <- xorb_assoc, xorb_nilpotent, xorb_false_l. f_equal. apply IH. lia.
Qed.

Lemma iszero_xorw_eq a : forall b, length a = length b -> iszero (xorw a b) = true -> a = b.
Proof.
  induction a as [|x a IH]; intros [|y b] H Z; cbn in *; try discriminate; auto.
  unfold xorw in Z. cbn in Z. apply andb_true_iff in Z as [Z1 Z2].
  f_equal; [destruct x, y; cbn in *; congruence | apply IH; [lia | exact Z2]].
Qed.

Lemma lz_app_true a b : (lz (a ++ true :: b) <= length a)%nat.
Proof. induction a as [|[|] a IH]; cbn; lia. Qed.

Lemma lz_tz_lt x : iszero x = false -> (lz x + tz x < length x)%nat.
Proof.
  intros Hz. destruct (lz_spec x) as [r [E [Hr|[r' Hr]]]].
  - subst r. rewrite app_nil_r in E. rewrite E in Hz. exfalso.
    clear E. induction (lz x); cbn in *; [discriminate|auto].
  - subst r. unfold tz. rewrite E at 2 3.
    rewrite rev_app_distr. cbn. rewrite <- app_assoc. cbn.
    pose proof (lz_app_true (rev r') (rev (zeros (lz x)))) as L. rewrite rev_length in L.
    rewrite app_length. unfold zeros at 2. rewrite repeat_length. cbn. lia.
Qed.

Lemma slice_length l t x : (l + t <= length x)%nat -> length (slice l t x) = (length x - l - t)%nat.
Proof. intros H. unfold slice. rewrite firstn_length, skipn_length. lia. Qed.

(* BucketProofs.v — proofs about the timechart bucket arithmetic (C04). *)
From Coq Require Import List Arith NArith ZArith Bool Lia ZifyN ZifyNat ZifyBool.
From SigM Require Import Base Bucket.
From SigP Require Import BaseProofs.
Import ListNotations.
Ltac Zify.zify_post_hook ::= Z.div_mod_to_equations.
Open Scope Z_scope.

Lemma wrap_small : forall z, 0 <= z < two64 -> wrap_u64 z = z.
Proof. intros; unfold wrap_u64; apply Z.mod_small; auto. Qed.

(* value of find_bucket inside the half-open range *)
Lemma find_bucket_inside : forall start end_ step ts,
  0 <= start -> start <= ts -> ts < end_ -> end_ < two64 -> 0 < step ->
  find_bucket start end_ step ts = Some (start + ((ts - start) / step) * step).
Proof.
  intros. unfold find_bucket.
  destruct (ts <? start) eqn:E1; [lia|].
  destruct (end_ <=? ts) eqn:E2; [lia|].
  destruct (step =? 0) eqn:E3; [lia|].
  assert (Hq : 0 <= (ts - start) / step) by (apply Z.div_pos; lia).
  assert (Hm : ((ts - start) / step) * step <= ts - start).
  { rewrite Z.mul_comm. apply Z.mul_div_le. lia. }
  rewrite (wrap_small (ts - start)) by lia.
  rewrite (wrap_small ((ts - start) / step * step)) by nia.
  rewrite wrap_small by nia. reflexivity.
Qed.

Lemma bucket_contains_ts : forall start end_ step ts,
  0 <= start -> start <= ts -> ts < end_ -> end_ < two64 -> 0 < step ->
  exists b, find_bucket start end_ step ts = Some b /\
            b <= ts /\ ts < b + step /\ (b - start) mod step = 0.
Proof.
  intros. exists (start + ((ts - start) / step) * step).
  split; [apply find_bucket_inside; auto|].
  assert (Hm := Z.mul_div_le (ts - start) step ltac:(lia)).
  assert (Hr := Z.mod_pos_bound (ts - start) step ltac:(lia)).
  assert (Hd := Z.div_mod (ts - start) step ltac:(lia)).
  repeat split; try nia.
  replace (start + (ts - start) / step * step - start) with ((ts - start) / step * step) by lia.
  apply Z.mod_mul. lia.
Qed.

(* ---- the list of aligned buckets ---- *)
Lemma bucket_list_from_spec : forall n s e step b, 0 < step ->
  In b (bucket_list_from n s e step) <->
  exists k, 0 <= k < Z.of_nat n /\ b = s + k * step /\ b < e.
Proof.
  induction n; intros s e step b Hs; simpl.
  - split; [tauto | intros [k [Hk _]]; lia].
  - destruct (s <? e) eqn:E.
    + simpl. rewrite IHn by auto. split.
      * intros [Hb | [k [Hk [Hb Hlt]]]].
        -- exists 0. lia.
        -- exists (k + 1). nia.
      * intros [k [Hk [Hb Hlt]]].
        destruct (Z.eq_dec k 0) as [->|Hn]; [left; lia|].
        right. exists (k - 1). nia.
    + split; [simpl; tauto|]. intros [k [Hk [Hb Hlt]]]. nia.
Qed.

Lemma bucket_list_spec : forall start end_ step b, 0 < step ->
  In b (bucket_list start end_ step) <->
  exists k, 0 <= k /\ b = start + k * step /\ b < end_.
Proof.
  intros. unfold bucket_list. rewrite bucket_list_from_spec by auto.
  split; intros [k [Hk [Hb Hlt]]]; exists k; repeat split; try lia.
  unfold bucket_count. destruct (end_ <=? start) eqn:E; [nia|].
  rewrite Z2Nat.id by (apply Z.div_pos; lia).
  assert (Hd := Z.div_mod (end_ - start + step - 1) step ltac:(lia)).
  assert (Hr := Z.mod_pos_bound (end_ - start + step - 1) step ltac:(lia)).
  nia.
Qed.

Lemma bucket_list_from_nodup : forall n s e step, 0 < step -> NoDup (bucket_list_from n s e step).
Proof.
  induction n; intros; simpl; [constructor|].
  destruct (s <? e); [|constructor].
  constructor; [|apply IHn; auto].
  rewrite bucket_list_from_spec by auto. intros [k [Hk [Hb _]]]. nia.
Qed.

Lemma bucket_list_nodup : forall start end_ step, 0 < step -> NoDup (bucket_list start end_ step).
Proof. intros; apply bucket_list_from_nodup; auto. Qed.

(* each timestamp of the half-open range lies in exactly one listed bucket: the one find_bucket returns *)
Lemma buckets_partition : forall start end_ step ts b,
  0 <= start -> start <= ts -> ts < end_ -> end_ < two64 -> 0 < step ->
  (In b (bucket_list start end_ step) /\ in_bucket b step ts = true)
  <-> find_bucket start end_ step ts = Some b.
Proof.
  intros start end_ step ts b H0 H1 H2 H3 H4.
  rewrite find_bucket_inside by auto. unfold in_bucket.
  rewrite bucket_list_spec by auto.
  assert (Hd := Z.div_mod (ts - start) step ltac:(lia)).
  assert (Hr := Z.mod_pos_bound (ts - start) step ltac:(lia)).
  split.
  - intros [[k [Hk [Hb Hlt]]] Hin]. f_equal.
    apply andb_true_iff in Hin. destruct Hin as [Ha Hb'].
    assert (k = (ts - start) / step); [|subst; lia].
    apply Z.leb_le in Ha. apply Z.ltb_lt in Hb'.
    assert (k * step <= ts - start < (k + 1) * step) by lia.
    apply Z.div_unique with (r := ts - start - k * step); lia.
  - intros Heq. injection Heq as <-. split.
    + exists ((ts - start) / step). split; [apply Z.div_pos; lia|]. split; nia.
    + apply andb_true_iff. split; [apply Z.leb_le | apply Z.ltb_lt]; nia.
Qed.

(* ---- the inclusive end of the query range ---- *)
Definition T0 : Z := 1700000000000.

Lemma bucket_at_end_refuted :
  exists start end_ step ts b,
    0 <= start /\ start <= ts /\ ts = end_ /\ end_ < two64 /\ 0 < step /\
    find_bucket start end_ step ts = Some b /\
    in_bucket b step ts = false /\
    ~ In b (bucket_list start end_ step) /\
    (b - start) mod step <> 0.
Proof.
  exists T0, (T0 + 10000), 4000, (T0 + 10000), (T0 + 6000).
  repeat split.
  all: try (unfold T0, two64; lia).
  all: try (vm_compute; congruence).
  intros Hin. vm_compute in Hin.
  repeat (destruct Hin as [Hin | Hin]; [discriminate|]). exact Hin.
Qed.

(* the bucket the inclusive end should fall in (start + k*step containing end_) is never the one returned *)
Lemma bucket_at_end_never_contains : forall start end_ step,
  0 <= start -> start <= end_ -> end_ < two64 -> 0 < step -> step <= end_ ->
  exists b, find_bucket start end_ step end_ = Some b /\ in_bucket b step end_ = false.
Proof.
  intros. unfold find_bucket.
  destruct (end_ <? start) eqn:E1; [lia|].
  destruct (end_ <=? end_) eqn:E2; [|lia].
  eexists; split; [reflexivity|].
  rewrite wrap_small by lia. unfold in_bucket.
  apply andb_false_iff. right. apply Z.ltb_ge. lia.
Qed.

(* ---- timechart = grouping by find_bucket ---- *)
Fixpoint tc_lookup (b : Z) (acc : list (Z * (Z * Z))) : Z * Z :=
  match acc with
  | [] => (0, 0)
  | (b', cs) :: r => if b' =? b then cs else tc_lookup b r
  end.

Lemma tc_add_lookup : forall acc b v b0,
  tc_lookup b0 (tc_add b v acc) =
  if b =? b0 then (fst (tc_lookup b0 acc) + 1, snd (tc_lookup b0 acc) + v) else tc_lookup b0 acc.
Proof.
  induction acc as [|[b' [c s]] r IH]; intros; simpl.
  - destruct (b =? b0); reflexivity.
  - destruct (b' =? b) eqn:E1; simpl.
    + apply Z.eqb_eq in E1; subst b'. destruct (b =? b0) eqn:E2; simpl; reflexivity.
    + destruct (b' =? b0) eqn:E2.
      * apply Z.eqb_eq in E2; subst b'. rewrite Z.eqb_sym in E1. rewrite E1. reflexivity.
      * apply IH.
Qed.

Lemma tc_add_keys : forall acc b v x,
  In x (map fst (tc_add b v acc)) <-> x = b \/ In x (map fst acc).
Proof.
  induction acc as [|[b' [c s]] r IH]; intros; simpl.
  - intuition.
  - destruct (b' =? b) eqn:E; simpl.
    + apply Z.eqb_eq in E; subst. intuition.
    + rewrite IH. intuition.
Qed.

Lemma tc_add_nodup : forall acc b v, NoDup (map fst acc) -> NoDup (map fst (tc_add b v acc)).
Proof.
  induction acc as [|[b' [c s]] r IH]; intros b v Hn; simpl.
  - constructor; [simpl; tauto | constructor].
  - inversion Hn; subst. destruct (b' =? b) eqn:E; simpl.
    + constructor; auto.
    + constructor; [|apply IH; auto].
      rewrite tc_add_keys. apply Z.eqb_neq in E. simpl in *. intuition.
Qed.

Definition ev_count (key : Z -> Z) (b : Z) (evs : list (Z * Z)) : Z :=
  Z.of_nat (length (filter (fun e => key (fst e) =? b) evs)).
Definition ev_sum (key : Z -> Z) (b : Z) (evs : list (Z * Z)) : Z :=
  fold_right Z.add 0 (map snd (filter (fun e => key (fst e) =? b) evs)).

Lemma tc_fold_inv : forall (key : Z -> Z) (evs : list (Z * Z)) acc b,
  tc_lookup b (fold_left (fun a e => tc_add (key (fst e)) (snd e) a) evs acc)
  = (fst (tc_lookup b acc) + ev_count key b evs, snd (tc_lookup b acc) + ev_sum key b evs).
Proof.
  induction evs as [|[t v] r IH]; intros; simpl.
  - unfold ev_count, ev_sum; simpl. destruct (tc_lookup b acc); simpl; f_equal; lia.
  - rewrite IH. rewrite tc_add_lookup. unfold ev_count, ev_sum. simpl.
    destruct (key t =? b); simpl; f_equal; lia.
Qed.

Lemma tc_fold_nodup : forall (key : Z -> Z) (evs : list (Z * Z)) acc, NoDup (map fst acc) ->
  NoDup (map fst (fold_left (fun a e => tc_add (key (fst e)) (snd e) a) evs acc)).
Proof.
  induction evs; intros; simpl; auto. apply IHevs. apply tc_add_nodup; auto.
Qed.

Lemma tc_fold_keys : forall (key : Z -> Z) (evs : list (Z * Z)) acc x,
  In x (map fst (fold_left (fun a e => tc_add (key (fst e)) (snd e) a) evs acc))
  <-> In x (map fst acc) \/ In x (map (fun e => key (fst e)) evs).
Proof.
  induction evs as [|e r IH]; intros; simpl; [tauto|].
  rewrite IH, tc_add_keys. intuition.
Qed.

(* every event of the half-open range is counted exactly once, in the listed bucket whose span
   contains its timestamp; bucket keys are unique; no other key appears *)
Lemma timechart_partition : forall start end_ step evs,
  0 <= start -> end_ < two64 -> 0 < step ->
  Forall (fun e => start <= fst e /\ fst e < end_) evs ->
  let tc := timechart start end_ step evs in
  NoDup (map fst tc) /\
  (forall b, In b (map fst tc) -> In b (bucket_list start end_ step)) /\
  (forall b, In b (bucket_list start end_ step) ->
     tc_lookup b tc =
       (Z.of_nat (length (filter (fun e => in_bucket b step (fst e)) evs)),
        fold_right Z.add 0 (map snd (filter (fun e => in_bucket b step (fst e)) evs)))).
Proof.
  intros start end_ step evs H0 H1 H2 Hall tc. unfold tc, timechart.
  split; [apply tc_fold_nodup; constructor|]. split.
  - intros b Hin. apply tc_fold_keys in Hin. destruct Hin as [[]|Hin].
    apply in_map_iff in Hin. destruct Hin as [e [He Hine]].
    rewrite Forall_forall in Hall. destruct (Hall e Hine) as [Ha Hb].
    unfold find_bucket_t in He.
    destruct (bucket_contains_ts start end_ step (fst e)) as [b' [Hf _]]; auto.
    rewrite Hf in He. subst b'.
    apply (buckets_partition start end_ step (fst e) b); auto.
  - intros b Hb. rewrite tc_fold_inv. simpl.
    assert (Hext : forall e, In e evs ->
        (find_bucket_t start end_ step (fst e) =? b) = in_bucket b step (fst e)).
    { intros e Hine. rewrite Forall_forall in Hall. destruct (Hall e Hine) as [Ha Hc].
      unfold find_bucket_t.
      destruct (find_bucket start end_ step (fst e)) as [b'|] eqn:Hf.
      - destruct (in_bucket b step (fst e)) eqn:Hi.
        + assert (Some b' = Some b) as Hx.
          { rewrite <- Hf. apply buckets_partition; auto. }
          injection Hx as ->. apply Z.eqb_refl.
        + apply Z.eqb_neq. intros ->.
          apply buckets_partition in Hf; auto. destruct Hf as [_ Hf]. congruence.
      - destruct (bucket_contains_ts start end_ step (fst e)) as [b' [Hf' _]]; auto. congruence. }
    unfold ev_count, ev_sum.
    rewrite (filter_ext_in _ _ evs Hext). reflexivity.
Qed.

(* =============================================================================================
   `bin <timefield> span=.. [aligntime=T]`: buckets on a grid with an origin (events on both sides of it)
   ============================================================================================= *)

(* for EVERY origin and timestamp (also ts < origin): the bucket contains ts and lies on the grid *)
Lemma grid_bucket_contains : forall origin span ts, 0 < span ->
  let b := grid_bucket origin span ts in
  b <= ts /\ ts < b + span /\ (b - origin) mod span = 0.
Proof.
  intros origin span ts Hs. unfold grid_bucket. cbv zeta.
  assert (Hd := Z.div_mod (ts - origin) span ltac:(lia)).
  assert (Hr := Z.mod_pos_bound (ts - origin) span ltac:(lia)).
  repeat split; try nia.
  replace (origin + (ts - origin) / span * span - origin) with ((ts - origin) / span * span) by lia.
  apply Z.mod_mul. lia.
Qed.

(* the only grid point whose span contains ts *)
Lemma grid_bucket_unique : forall origin span ts b, 0 < span ->
  (b - origin) mod span = 0 -> in_bucket b span ts = true -> b = grid_bucket origin span ts.
Proof.
  intros origin span ts b Hs Hg Hin. unfold grid_bucket.
  unfold in_bucket in Hin. apply andb_true_iff in Hin. destruct Hin as [Ha Hb].
  apply Z.leb_le in Ha. apply Z.ltb_lt in Hb.
  apply Z.mod_divide in Hg; [|lia]. destruct Hg as [k Hk].
  assert (b = origin + k * span) by lia. subst b.
  assert (k = (ts - origin) / span); [|subst; lia].
  apply Z.div_unique with (r := ts - origin - k * span); lia.
Qed.

Lemma grid_bucket_iff : forall origin span ts b, 0 < span ->
  (grid_bucket origin span ts = b) <-> ((b - origin) mod span = 0 /\ in_bucket b span ts = true).
Proof.
  intros origin span ts b Hs. split.
  - intros <-. destruct (grid_bucket_contains origin span ts Hs) as [Ha [Hb Hc]].
    split; auto. unfold in_bucket. apply andb_true_iff. split; [apply Z.leb_le | apply Z.ltb_lt]; lia.
  - intros [Hg Hin]. symmetry. apply grid_bucket_unique; auto.
Qed.

(* moving the origin by whole spans (in either direction) does not move any bucket *)
Lemma grid_bucket_shift : forall origin span ts k, 0 < span ->
  grid_bucket (origin + k * span) span ts = grid_bucket origin span ts.
Proof.
  intros origin span ts k Hs. symmetry. apply grid_bucket_unique; auto.
  - destruct (grid_bucket_contains origin span ts Hs) as [_ [_ Hc]].
    replace (grid_bucket origin span ts - (origin + k * span))
      with ((grid_bucket origin span ts - origin) + (- k) * span) by lia.
    rewrite Z.mod_add by lia. exact Hc.
  - destruct (grid_bucket_contains origin span ts Hs) as [Ha [Hb _]].
    unfold in_bucket. apply andb_true_iff. split; [apply Z.leb_le | apply Z.ltb_lt]; lia.
Qed.

(* a truncating division (Go's int64 `/`) instead of the floor: every timestamp before the origin that is
   not on a bucket boundary gets a bucket that starts AFTER it (one span too late) *)
Lemma trunc_bucket_misses_ts : forall origin span ts, 0 < span ->
  ts < origin -> (origin - ts) mod span <> 0 ->
  trunc_bucket origin span ts = grid_bucket origin span ts + span /\
  in_bucket (trunc_bucket origin span ts) span ts = false.
Proof.
  intros origin span ts Hs Hlt Hnz.
  assert (Hq : Z.quot (ts - origin) span = (ts - origin) / span + 1).
  { replace (ts - origin) with (- (origin - ts)) by lia.
    rewrite Z.quot_opp_l by lia.
    rewrite Z.quot_div_nonneg by lia.
    rewrite Z.div_opp_l_nz by lia. lia. }
  assert (Heq : trunc_bucket origin span ts = grid_bucket origin span ts + span).
  { unfold trunc_bucket, grid_bucket. rewrite Hq. lia. }
  split; [exact Heq|].
  rewrite Heq. destruct (grid_bucket_contains origin span ts Hs) as [Ha [Hb _]].
  unfold in_bucket. apply andb_false_iff. left. apply Z.leb_gt. lia.
Qed.

(* at or after the origin, and on bucket boundaries before it, floor and truncation agree: the difference is
   confined to the timestamps named in trunc_bucket_misses_ts *)
Lemma trunc_bucket_agrees : forall origin span ts, 0 < span ->
  (origin <= ts \/ (origin - ts) mod span = 0) ->
  trunc_bucket origin span ts = grid_bucket origin span ts.
Proof.
  intros origin span ts Hs [Hge | Hz]; unfold trunc_bucket, grid_bucket.
  - rewrite Z.quot_div_nonneg by lia. reflexivity.
  - destruct (Z_le_gt_dec origin ts) as [Hge | Hlt].
    + rewrite Z.quot_div_nonneg by lia. reflexivity.
    + replace (ts - origin) with (- (origin - ts)) by lia.
      rewrite Z.quot_opp_l by lia. rewrite Z.quot_div_nonneg by lia.
      rewrite Z.div_opp_l_z by lia. reflexivity.
Qed.

(* aligntime: the returned bucket contains ts; it is on the grid of the align time unless clamped to 0 *)
Lemma bin_align_contains : forall span align ts, 0 < span -> 0 <= ts ->
  let b := bin_align span align ts in
  b <= ts /\ ts < b + span /\ (span <= ts -> b = grid_bucket align span ts /\ (b - align) mod span = 0).
Proof.
  intros span align ts Hs Hts. unfold bin_align. cbv zeta.
  destruct (grid_bucket_contains align span ts Hs) as [Ha [Hb Hc]].
  destruct (grid_bucket align span ts <? 0) eqn:E.
  - apply Z.ltb_lt in E. repeat split; try lia.
  - repeat split; auto; lia.
Qed.

Lemma bin_trunc_is_grid : forall span ts, 0 < span ->
  bin_trunc span ts = grid_bucket (- go_zero_ms) span ts.
Proof.
  intros span ts Hs. unfold bin_trunc, grid_bucket.
  replace (ts - - go_zero_ms) with (ts + go_zero_ms) by lia.
  assert (Hd := Z.div_mod (ts + go_zero_ms) span ltac:(lia)). lia.
Qed.

Lemma bin_days_contains : forall w ts, 0 < w -> 0 <= ts ->
  let b := bin_days w ts in
  b <= ts /\ ts < b + w * day_ms /\ b mod (w * day_ms) = 0.
Proof.
  intros w ts Hw Hts. unfold bin_days, day_ms. cbv zeta.
  assert (Hd1 := Z.div_mod ts 86400000 ltac:(lia)).
  assert (Hr1 := Z.mod_pos_bound ts 86400000 ltac:(lia)).
  assert (Hd2 := Z.div_mod (ts / 86400000) w ltac:(lia)).
  assert (Hr2 := Z.mod_pos_bound (ts / 86400000) w ltac:(lia)).
  repeat split; try nia.
  replace (ts / 86400000 / w * w * 86400000) with ((ts / 86400000 / w) * (w * 86400000)) by lia.
  apply Z.mod_mul. lia.
Qed.

Lemma bin_days_is_grid : forall w ts, 0 < w -> 0 <= ts ->
  bin_days w ts = grid_bucket 0 (w * day_ms) ts.
Proof.
  intros w ts Hw Hts. apply grid_bucket_unique; [unfold day_ms; lia| |].
  - rewrite Z.sub_0_r. apply bin_days_contains; auto.
  - destruct (bin_days_contains w ts Hw Hts) as [Ha [Hb _]].
    unfold in_bucket. apply andb_true_iff. split; [apply Z.leb_le | apply Z.ltb_lt]; lia.
Qed.

Lemma unit_ms_pos : forall u, 0 < unit_ms u.
Proof. destruct u; simpl; lia. Qed.

(* the origin of the bucket grid of `bin span=<n><u> [aligntime=a]` *)
Definition bin_origin (u : tunit) (align : option Z) : Z :=
  match u with
  | UDay | UWeek => 0
  | _ => match align with None => - go_zero_ms | Some a => a end
  end.

(* every unit, with and without aligntime, events before / at / after the align time: one grid function *)
Lemma bin_time_is_grid : forall u n align ts, 0 < n -> bin_span u n <= ts ->
  bin_time u n align ts = grid_bucket (bin_origin u align) (bin_span u n) ts.
Proof.
  intros u n align ts Hn Hts.
  assert (Hsp : 0 < bin_span u n) by (unfold bin_span; pose proof (unit_ms_pos u); nia).
  assert (Hgen : forall a, bin_align (bin_span u n) a ts = grid_bucket a (bin_span u n) ts).
  { intros a. destruct (bin_align_contains (bin_span u n) a ts Hsp ltac:(lia)) as [_ [_ H]].
    apply H. exact Hts. }
  destruct u; simpl bin_time; simpl bin_origin;
    try (destruct align as [a|]; [apply Hgen | apply bin_trunc_is_grid; exact Hsp]).
  - (* day *) unfold bin_span in *. simpl unit_ms in *. change (86400000 / day_ms) with 1.
    rewrite bin_days_is_grid by lia. unfold day_ms. f_equal; lia.
  - (* week *) unfold bin_span in *. simpl unit_ms in *. change (604800000 / day_ms) with 7.
    rewrite bin_days_is_grid by lia. unfold day_ms. f_equal; lia.
Qed.

Lemma bin_time_contains_ts : forall u n align ts, 0 < n -> bin_span u n <= ts ->
  let b := bin_time u n align ts in
  b <= ts /\ ts < b + bin_span u n /\ (b - bin_origin u align) mod bin_span u n = 0.
Proof.
  intros u n align ts Hn Hts. cbv zeta. rewrite bin_time_is_grid by auto.
  apply grid_bucket_contains. unfold bin_span. pose proof (unit_ms_pos u). nia.
Qed.

(* `bin .. | stats count, sum(f) by <binned time>`: one row per occupied bucket; the row of a grid point holds
   exactly the events whose timestamp lies in its span, and nothing else appears.  No assumption on where the
   events lie relative to the align time. *)
Lemma chart_by_grid_partition : forall origin span (evs : list (Z * Z)), 0 < span ->
  let tc := chart_by (grid_bucket origin span) evs in
  NoDup (map fst tc) /\
  (forall b, In b (map fst tc) -> (b - origin) mod span = 0 /\ exists e, In e evs /\ in_bucket b span (fst e) = true) /\
  (forall b, (b - origin) mod span = 0 ->
     tc_lookup b tc =
       (Z.of_nat (length (filter (fun e => in_bucket b span (fst e)) evs)),
        fold_right Z.add 0 (map snd (filter (fun e => in_bucket b span (fst e)) evs)))).
Proof.
  intros origin span evs Hs tc. unfold tc, chart_by.
  split; [apply tc_fold_nodup; constructor|]. split.
  - intros b Hin. apply tc_fold_keys in Hin. destruct Hin as [[]|Hin].
    apply in_map_iff in Hin. destruct Hin as [e [He Hine]].
    apply grid_bucket_iff in He; auto. destruct He as [Hg Hi]. split; auto. exists e; auto.
  - intros b Hg. rewrite tc_fold_inv. simpl.
    assert (Hext : forall e, In e evs -> (grid_bucket origin span (fst e) =? b) = in_bucket b span (fst e)).
    { intros e _. destruct (in_bucket b span (fst e)) eqn:Hi.
      - apply Z.eqb_eq. apply grid_bucket_iff; auto.
      - apply Z.eqb_neq. intros Heq. apply grid_bucket_iff in Heq; auto. destruct Heq. congruence. }
    unfold ev_count, ev_sum. rewrite (filter_ext_in _ _ evs Hext). reflexivity.
Qed.

Lemma chart_by_ext : forall (k1 k2 : Z -> Z) (evs : list (Z * Z)),
  (forall e, In e evs -> k1 (fst e) = k2 (fst e)) -> chart_by k1 evs = chart_by k2 evs.
Proof.
  intros k1 k2 evs. unfold chart_by. generalize (@nil (Z * (Z * Z))).
  induction evs as [|e r IH]; intros acc H; simpl; auto.
  rewrite (H e) by (left; auto). apply IH. intros; apply H; right; auto.
Qed.

Lemma bin_chart_partition : forall u n align (evs : list (Z * Z)), 0 < n ->
  Forall (fun e => bin_span u n <= fst e) evs ->
  let span := bin_span u n in
  let origin := bin_origin u align in
  let tc := bin_chart u n align evs in
  NoDup (map fst tc) /\
  (forall b, In b (map fst tc) -> (b - origin) mod span = 0 /\ exists e, In e evs /\ in_bucket b span (fst e) = true) /\
  (forall b, (b - origin) mod span = 0 ->
     tc_lookup b tc =
       (Z.of_nat (length (filter (fun e => in_bucket b span (fst e)) evs)),
        fold_right Z.add 0 (map snd (filter (fun e => in_bucket b span (fst e)) evs)))).
Proof.
  intros u n align evs Hn Hall. cbv zeta. unfold bin_chart.
  rewrite (chart_by_ext (bin_time u n align) (grid_bucket (bin_origin u align) (bin_span u n))).
  - apply chart_by_grid_partition. unfold bin_span. pose proof (unit_ms_pos u). nia.
  - intros e He. rewrite Forall_forall in Hall. apply bin_time_is_grid; auto.
Qed.

(* the rows add up to the number of events: nothing is lost, nothing is counted twice *)
Lemma chart_by_total : forall (key : Z -> Z) (evs : list (Z * Z)),
  fold_right Z.add 0 (map (fun r => fst (snd r)) (chart_by key evs)) = Z.of_nat (length evs).
Proof.
  intros key evs. unfold chart_by.
  assert (G : forall acc, fold_right Z.add 0 (map (fun r : Z * (Z * Z) => fst (snd r))
      (fold_left (fun a e => tc_add (key (fst e)) (snd e) a) evs acc))
      = fold_right Z.add 0 (map (fun r : Z * (Z * Z) => fst (snd r)) acc) + Z.of_nat (length evs)).
  { induction evs as [|e r IH]; intros acc; simpl; [lia|].
    rewrite IH.
    assert (A : forall b v (l : list (Z * (Z * Z))),
      fold_right Z.add 0 (map (fun r : Z * (Z * Z) => fst (snd r)) (tc_add b v l))
      = fold_right Z.add 0 (map (fun r : Z * (Z * Z) => fst (snd r)) l) + 1).
    { intros b v l. induction l as [|[b' [c s]] l' IHl]; simpl; [lia|].
      destruct (b' =? b); simpl; lia. }
    rewrite A. lia. }
  rewrite G. simpl. lia.
Qed.

(* the clamp: a timestamp smaller than one span whose grid bucket would start below 0 is reported under 0 *)
Lemma bin_align_clamp_example : bin_align 10 5 2 = 0 /\ grid_bucket 5 10 2 = -5.
Proof. vm_compute. auto. Qed.

(* ---- timechart span=<n><unit>: the interval that is used ---- *)
Lemma tc_interval_is_span : forall u n, tc_interval u n = bin_span u n.
Proof. intros u n. destruct u; unfold tc_interval, bin_span; simpl; lia. Qed.

(* before fix c9c5b98: span=5cs asks for 50 ms buckets; the interval used was 50 000 000 ms: an event 1.5 s after the
   range start was counted in the bucket that starts at the range start, whose 50 ms span does not contain it *)
Lemma tc_interval_prefix_cs_ds_refuted :
  exists u n start end_ ts b, 0 < n /\ start <= ts /\ ts < end_ /\
    tc_interval_prefix u n <> bin_span u n /\
    find_bucket start end_ (tc_interval_prefix u n) ts = Some b /\
    in_bucket b (bin_span u n) ts = false.
Proof.
  exists UCs, 5, T0, (T0 + 2000), (T0 + 1500), T0. unfold T0.
  repeat split; try lia; vm_compute; congruence.
Qed.

Lemma tc_interval_prefix_guarded : forall u n, u <> UCs -> u <> UDs -> tc_interval_prefix u n = bin_span u n.
Proof. intros u n H1 H2. rewrite <- tc_interval_is_span. destruct u; try congruence; reflexivity. Qed.

(* BucketProofs.v — proofs about the timechart bucket arithmetic (C04). *)
From Coq Require Import List Arith NArith ZArith Bool Lia ZifyN ZifyNat ZifyBool.
From SigM Require Import Base Bucket.
From SigP Require Import BaseProofs.
Import ListNotations.
Ltac Zify.zify_post_hook ::= Z.div_mod_to_equations.
Open Scope Z_scope.

Lemma wrap_small : forall z, 0 <= z < two64 -> wrap_u64 z = z.
Proof. intros; unfold wrap_u64; apply Z.mod_small; auto. Qed.

(* value of find_bucket inside the half-open range *)
Lemma find_bucket_inside : forall start end_ step ts,
  0 <= start -> start <= ts -> ts < end_ -> end_ < two64 -> 0 < step ->
  find_bucket start end_ step ts = Some (start + ((ts - start) / step) * step).
Proof.
  intros. unfold find_bucket.
  destruct (ts <? start) eqn:E1; [lia|].
  destruct (end_ <=? ts) eqn:E2; [lia|].
  destruct (step =? 0) eqn:E3; [lia|].
  assert (Hq : 0 <= (ts - start) / step) by (apply Z.div_pos; lia).
  assert (Hm : ((ts - start) / step) * step <= ts - start).
  { rewrite Z.mul_comm. apply Z.mul_div_le. lia. }
  rewrite (wrap_small (ts - start)) by lia.
  rewrite (wrap_small ((ts - start) / step * step)) by nia.
  rewrite wrap_small by nia. reflexivity.
Qed.

Lemma bucket_contains_ts : forall start end_ step ts,
  0 <= start -> start <= ts -> ts < end_ -> end_ < two64 -> 0 < step ->
  exists b, find_bucket start end_ step ts = Some b /\
            b <= ts /\ ts < b + step /\ (b - start) mod step = 0.
Proof.
  intros. exists (start + ((ts - start) / step) * step).
  split; [apply find_bucket_inside; auto|].
  assert (Hm := Z.mul_div_le (ts - start) step ltac:(lia)).
  assert (Hr := Z.mod_pos_bound (ts - start) step ltac:(lia)).
  assert (Hd := Z.div_mod (ts - start) step ltac:(lia)).
  repeat split; try nia.
  replace (start + (ts - start) / step * step - start) with ((ts - start) / step * step) by lia.
  apply Z.mod_mul. lia.
Qed.

(* ---- the list of aligned buckets ---- *)
Lemma bucket_list_from_spec : forall n s e step b, 0 < step ->
  In b (bucket_list_from n s e step) <->
  exists k, 0 <= k < Z.of_nat n /\ b = s + k * step /\ b < e.
Proof.
  induction n; intros s e step b Hs; simpl.
  - split; [tauto | intros [k [Hk _]]; lia].
  - destruct (s <? e) eqn:E.
    + simpl. rewrite IHn by auto. split.
      * intros [Hb | [k [Hk [Hb Hlt]]]].
        -- exists 0. lia.
        -- exists (k + 1). nia.
      * intros [k [Hk [Hb Hlt]]].
        destruct (Z.eq_dec k 0) as [->|Hn]; [left; lia|].
        right. exists (k - 1). nia.
    + split; [simpl; tauto|]. intros [k [Hk [Hb Hlt]]]. nia.
Qed.

Lemma bucket_list_spec : forall start end_ step b, 0 < step ->
  In b (bucket_list start end_ step) <->
  exists k, 0 <= k /\ b = start + k * step /\ b < end_.
Proof.
  intros. unfold bucket_list. rewrite bucket_list_from_spec by auto.
  split; intros [k [Hk [Hb Hlt]]]; exists k; repeat split; try lia.
  unfold bucket_count. destruct (end_ <=? start) eqn:E; [nia|].
  rewrite Z2Nat.id by (apply Z.div_pos; lia).
  assert (Hd := Z.div_mod (end_ - start + step - 1) step ltac:(lia)).
  assert (Hr := Z.mod_pos_bound (end_ - start + step - 1) step ltac:(lia)).
  nia.
Qed.

Lemma bucket_list_from_nodup : forall n s e step, 0 < step -> NoDup (bucket_list_from n s e step).
Proof.
  induction n; intros; simpl; [constructor|].
  destruct (s <? e); [|constructor].
  constructor; [|apply IHn; auto].
  rewrite bucket_list_from_spec by auto. intros [k [Hk [Hb _]]]. nia.
Qed.

Lemma bucket_list_nodup : forall start end_ step, 0 < step -> NoDup (bucket_list start end_ step).
Proof. intros; apply bucket_list_from_nodup; auto. Qed.

(* each timestamp of the half-open range lies in exactly one listed bucket: the one find_bucket returns *)
Lemma buckets_partition : forall start end_ step ts b,
  0 <= start -> start <= ts -> ts < end_ -> end_ < two64 -> 0 < step ->
  (In b (bucket_list start end_ step) /\ in_bucket b step ts = true)
  <-> find_bucket start end_ step ts = Some b.
Proof.
  intros start end_ step ts b H0 H1 H2 H3 H4.
  rewrite find_bucket_inside by auto. unfold in_bucket.
  rewrite bucket_list_spec by auto.
  assert (Hd := Z.div_mod (ts - start) step ltac:(lia)).
  assert (Hr := Z.mod_pos_bound (ts - start) step ltac:(lia)).
  split.
  - intros [[k [Hk [Hb Hlt]]] Hin]. f_equal.
    apply andb_true_iff in Hin. destruct Hin as [Ha Hb'].
    assert (k = (ts - start) / step); [|subst; lia].
    apply Z.leb_le in Ha. apply Z.ltb_lt in Hb'.
    assert (k * step <= ts - start < (k + 1) * step) by lia.
    apply Z.div_unique with (r := ts - start - k * step); lia.
  - intros Heq. injection Heq as <-. split.
    + exists ((ts - start) / step). split; [apply Z.div_pos; lia|]. split; nia.
    + apply andb_true_iff. split; [apply Z.leb_le | apply Z.ltb_lt]; nia.
Qed.

(* ---- the inclusive end of the query range ---- *)
Definition T0 : Z := 1700000000000.

Lemma bucket_at_end_refuted :
  exists start end_ step ts b,
    0 <= start /\ start <= ts /\ ts = end_ /\ end_ < two64 /\ 0 < step /\
    find_bucket start end_ step ts = Some b /\
    in_bucket b step ts = false /\
    ~ In b (bucket_list start end_ step) /\
    (b - start) mod step <> 0.
Proof.
  exists T0, (T0 + 10000), 4000, (T0 + 10000), (T0 + 6000).
  repeat split.
  all: try (unfold T0, two64; lia).
  all: try (vm_compute; congruence).
  intros Hin. vm_compute in Hin.
  repeat (destruct Hin as [Hin | Hin]; [discriminate|]). exact Hin.
Qed.

(* the bucket the inclusive end should fall in (start + k*step containing end_) is never the one returned *)
Lemma bucket_at_end_never_contains : forall start end_ step,
  0 <= start -> start <= end_ -> end_ < two64 -> 0 < step -> step <= end_ ->
  exists b, find_bucket start end_ step end_ = Some b /\ in_bucket b step end_ = false.
Proof.
  intros. unfold find_bucket.
  destruct (end_ <? start) eqn:E1; [lia|].
  destruct (end_ <=? end_) eqn:E2; [|lia].
  eexists; split; [reflexivity|].
  rewrite wrap_small by lia. unfold in_bucket.
  apply andb_false_iff. right. apply Z.ltb_ge. lia.
Qed.

(* ---- timechart = grouping by find_bucket ---- *)
Fixpoint tc_lookup (b : Z) (acc : list (Z * (Z * Z))) : Z * Z :=
  match acc with
  | [] => (0, 0)
  | (b', cs) :: r => if b' =? b then cs else tc_lookup b r
  end.

Lemma tc_add_lookup : forall acc b v b0,
  tc_lookup b0 (tc_add b v acc) =
  if b =? b0 then (fst (tc_lookup b0 acc) + 1, snd (tc_lookup b0 acc) + v) else tc_lookup b0 acc.
Proof.
  induction acc as [|[b' [c s]] r IH]; intros; simpl.
  - destruct (b =? b0); reflexivity.
  - destruct (b' =? b) eqn:E1; simpl.
    + apply Z.eqb_eq in E1; subst b'. destruct (b =? b0) eqn:E2; simpl; reflexivity.
    + destruct (b' =? b0) eqn:E2.
      * apply Z.eqb_eq in E2; subst b'. rewrite Z.eqb_sym in E1. rewrite E1. reflexivity.
      * apply IH.
Qed.

Lemma tc_add_keys : forall acc b v x,
  In x (map fst (tc_add b v acc)) <-> x = b \/ In x (map fst acc).
Proof.
  induction acc as [|[b' [c s]] r IH]; intros; simpl.
  - intuition.
  - destruct (b' =? b) eqn:E; simpl.
    + apply Z.eqb_eq in E; subst. intuition.
    + rewrite IH. intuition.
Qed.

Lemma tc_add_nodup : forall acc b v, NoDup (map fst acc) -> NoDup (map fst (tc_add b v acc)).
Proof.
  induction acc as [|[b' [c s]] r IH]; intros b v Hn; simpl.
  - constructor; [simpl; tauto | constructor].
  - inversion Hn; subst. destruct (b' =? b) eqn:E; simpl.
    + constructor; auto.
    + constructor; [|apply IH; auto].
      rewrite tc_add_keys. apply Z.eqb_neq in E. simpl in *. intuition.
Qed.

Definition ev_count (key : Z -> Z) (b : Z) (evs : list (Z * Z)) : Z :=
  Z.of_nat (length (filter (fun e => key (fst e) =? b) evs)).
Definition ev_sum (key : Z -> Z) (b : Z) (evs : list (Z * Z)) : Z :=
  fold_right Z.add 0 (map snd (filter (fun e => key (fst e) =? b) evs)).

Lemma tc_fold_inv : forall (key : Z -> Z) (evs : list (Z * Z)) acc b,
  tc_lookup b (fold_left (fun a e => tc_add (key (fst e)) (snd e) a) evs acc)
  = (fst (tc_lookup b acc) + ev_count key b evs, snd (tc_lookup b acc) + ev_sum key b evs).
Proof.
  induction evs as [|[t v] r IH]; intros; simpl.
  - unfold ev_count, ev_sum; simpl. destruct (tc_lookup b acc); simpl; f_equal; lia.
  - rewrite IH. rewrite tc_add_lookup. unfold ev_count, ev_sum. simpl.
    destruct (key t =? b); simpl; f_equal; lia.
Qed.

Lemma tc_fold_nodup : forall (key : Z -> Z) (evs : list (Z * Z)) acc, NoDup (map fst acc) ->
  NoDup (map fst (fold_left (fun a e => tc_add (key (fst e)) (snd e) a) evs acc)).
Proof.
  induction evs; intros; simpl; auto. apply IHevs. apply tc_add_nodup; auto.
Qed.

Lemma tc_fold_keys : forall (key : Z -> Z) (evs : list (Z * Z)) acc x,
  In x (map fst (fold_left (fun a e => tc_add (key (fst e)) (snd e) a) evs acc))
  <-> In x (map fst acc) \/ In x (map (fun e => key (fst e)) evs).
Proof.
  induction evs as [|e r IH]; intros; simpl; [tauto|].
  rewrite IH, tc_add_keys. intuition.
Qed.

(* every event of the half-open range is counted exactly once, in the listed bucket whose span
   contains its timestamp; bucket keys are unique; no other key appears *)
Lemma timechart_partition : forall start end_ step evs,
  0 <= start -> end_ < two64 -> 0 < step ->
  Forall (fun e => start <= fst e /\ fst e < end_) evs ->
  let tc := timechart start end_ step evs in
  NoDup (map fst tc) /\
  (forall b, In b (map fst tc) -> In b (bucket_list start end_ step)) /\
  (forall b, In b (bucket_list start end_ step) ->
     tc_lookup b tc =
       (Z.of_nat (length (filter (fun e => in_bucket b step (fst e)) evs)),
        fold_right Z.add 0 (map snd (filter (fun e => in_bucket b step (fst e)) evs)))).
Proof.
  intros start end_ step evs H0 H1 H2 Hall tc. unfold tc, timechart.
  split; [apply tc_fold_nodup; constructor|]. split.
  - intros b Hin. apply tc_fold_keys in Hin. destruct Hin as [[]|Hin].
    apply in_map_iff in Hin. destruct Hin as [e [He Hine]].
    rewrite Forall_forall in Hall. destruct (Hall e Hine) as [Ha Hb].
    unfold find_bucket_t in He.
    destruct (bucket_contains_ts start end_ step (fst e)) as [b' [Hf _]]; auto.
    rewrite Hf in He. subst b'.
    apply (buckets_partition start end_ step (fst e) b); auto.
  - intros b Hb. rewrite tc_fold_inv. simpl.
    assert (Hext : forall e, In e evs ->
        (find_bucket_t start end_ step (fst e) =? b) = in_bucket b step (fst e)).
    { intros e Hine. rewrite Forall_forall in Hall. destruct (Hall e Hine) as [Ha Hc].
      unfold find_bucket_t.
      destruct (find_bucket start end_ step (fst e)) as [b'|] eqn:Hf.
      - destruct (in_bucket b step (fst e)) eqn:Hi.
        + assert (Some b' = Some b) as Hx.
          { rewrite <- Hf. apply buckets_partition; auto. }
          injection Hx as ->. apply Z.eqb_refl.
        + apply Z.eqb_neq. intros ->.
          apply buckets_partition in Hf; auto. destruct Hf as [_ Hf]. congruence.
      - destruct (bucket_contains_ts start end_ step (fst e)) as [b' [Hf' _]]; auto. congruence. }
    unfold ev_count, ev_sum.
    rewrite (filter_ext_in _ _ evs Hext). reflexivity.
Qed.

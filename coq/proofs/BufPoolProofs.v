(* BufPoolProofs.v — a pooled buffer is never in two readers' fields for the acquire /
   release sequence of the readers; it is with "release without forget". *)
From Coq Require Import Lia.
From SigM Require Import Base BufPool.
From SigP Require Import BaseProofs.

Definition Inv (s : pstate) : Prop :=
  (forall r b, In (r, b) (holds s) -> nth b (pool s) false = true) /\
  NoDup (map snd (holds s)) /\ NoDup (map fst (holds s)).

Lemma nth_set_nth_same {A} i (x d : A) l : (i < length l)%nat -> nth i (set_nth i x l) d = x.
Proof.
  revert i; induction l as [|y l IH]; intros [|i] H; cbn in *; try lia; auto. apply IH. lia.
Qed.

Lemma nth_set_nth_other {A} i j (x d : A) l : i <> j -> nth j (set_nth i x l) d = nth j l d.
Proof.
  revert i j; induction l as [|y l IH]; intros [|i] [|j] H; cbn; auto; try congruence.
Qed.

Lemma ff_spec p : forall k, (k <= first_free p k <= k + length p)%nat /\
  ((first_free p k < k + length p)%nat -> nth (first_free p k - k) p true = false).
Proof.
  induction p as [|u p IH]; intros k; cbn [first_free length].
  - split; lia.
  - destruct u.
    + destruct (IH (S k)) as [H1 H2]. split; [lia|]. intros H.
      replace (first_free p (S k) - k)%nat with (S (first_free p (S k) - S k)) by lia.
      cbn [nth]. apply H2. lia.
    + split; [lia|]. intros _. rewrite Nat.sub_diag. reflexivity.
Qed.

(* what Get returns was not in use, is in use afterwards, and nothing else changes *)
Lemma pget_spec p i p' : pget p = (i, p') ->
  nth i p false = false /\ nth i p' false = true /\ (forall j, j <> i -> nth j p' false = nth j p false).
Proof.
  unfold pget. destruct (ff_spec p 0) as [H1 H2]. cbn [Nat.add] in *.
  destruct (Nat.ltb_spec (first_free p 0) (length p)) as [L|L]; intros [= <- <-].
  - specialize (H2 L). rewrite Nat.sub_0_r in H2.
    repeat split.
    + rewrite (nth_indep p false true) by exact L. exact H2.
    + apply nth_set_nth_same. exact L.
    + intros j Hj. apply nth_set_nth_other. congruence.
  - assert (E : first_free p 0 = length p) by lia. rewrite E. repeat split.
    + apply nth_overflow. lia.
    + rewrite app_nth2, Nat.sub_diag by lia. reflexivity.
    + intros j Hj. destruct (Nat.lt_ge_cases j (length p)).
      * apply app_nth1. assumption.
      * rewrite (nth_overflow p) by lia. apply nth_overflow. rewrite app_length. cbn. lia.
Qed.

Lemma lookup_some r h b : lookup r h = Some b -> In (r, b) h.
Proof.
  induction h as [|[r' b'] t IH]; cbn; [discriminate|].
  destruct (Nat.eqb_spec r r'); [intros [= ->]; subst; auto|auto].
Qed.

Lemma lookup_none r h : lookup r h = None -> ~ In r (map fst h).
Proof.
  induction h as [|[r' b'] t IH]; cbn; [tauto|].
  destruct (Nat.eqb_spec r r'); [discriminate|]. intros H [E|E]; [congruence|]. apply IH; auto.
Qed.

Lemma in_remove_r r h r' b : In (r', b) (remove_r r h) <-> In (r', b) h /\ r' <> r.
Proof.
  induction h as [|[r0 b0] t IH]; cbn; [tauto|].
  destruct (Nat.eqb_spec r r0); cbn; rewrite IH; split.
  - tauto.
  - intros [[E|E] N]; [injection E as -> ->; congruence|tauto].
  - intros [E|E]; [injection E as -> ->; split; auto|tauto].
  - tauto.
Qed.

Lemma remove_r_not_in r h : ~ In r (map fst (remove_r r h)).
Proof.
  induction h as [|[r0 b0] t IH]; cbn; [tauto|].
  destruct (Nat.eqb_spec r r0); cbn; [exact IH|]. intros [E|E]; [congruence|tauto].
Qed.

Lemma nodup_remove_r (f : nat * nat -> nat) r h : NoDup (map f h) -> NoDup (map f (remove_r r h)).
Proof.
  induction h as [|[r0 b0] t IH]; cbn; intros H; [constructor|].
  inversion H as [|? ? Hn Ht]; subst.
  destruct (Nat.eqb_spec r r0); [auto|]. cbn. constructor; [|auto].
  intros Hin. apply Hn. apply in_map_iff in Hin. destruct Hin as ([r1 b1] & E & Hin).
  apply in_remove_r in Hin. apply in_map_iff. exists (r1, b1). tauto.
Qed.

Lemma nodup_snd_owner (h : list (nat * nat)) : NoDup (map snd h) ->
  forall (r r' b : nat), In (r, b) h -> In (r', b) h -> r = r'.
Proof.
  induction h as [|[r0 b0] t IH]; cbn; intros H r r' b H1 H2; [tauto|].
  inversion H as [|? ? Hn Ht]; subst.
  destruct H1 as [E1|E1], H2 as [E2|E2].
  - congruence.
  - injection E1 as -> ->. exfalso. apply Hn. apply in_map_iff. exists (r', b). auto.
  - injection E2 as -> ->. exfalso. apply Hn. apply in_map_iff. exists (r, b). auto.
  - eapply IH; eauto.
Qed.

Lemma acquire_inv r s : Inv s -> ~ In r (map fst (holds s)) -> Inv (acquire r s).
Proof.
  intros (I1 & I2 & I3) Hr. unfold acquire.
  destruct (pget (pool s)) as [i p'] eqn:G. apply pget_spec in G. destruct G as (G1 & G2 & G3).
  assert (Hfree : ~ In i (map snd (holds s))).
  { intros Hin. apply in_map_iff in Hin. destruct Hin as ([r0 b0] & E & Hin). cbn in E. subst b0.
    apply I1 in Hin. congruence. }
  repeat split; cbn [pool holds map fst snd].
  - intros r0 b0 [E|E].
    + injection E as <- <-. exact G2.
    + rewrite G3; [eauto|]. intros ->. apply Hfree. apply in_map_iff. exists (r0, i). auto.
  - constructor; auto.
  - constructor; auto.
Qed.

Lemma release_forget_inv r s : Inv s -> Inv (release_forget r s) /\ ~ In r (map fst (holds (release_forget r s))).
Proof.
  intros (I1 & I2 & I3). unfold release_forget.
  destruct (lookup r (holds s)) as [b|] eqn:L.
  - apply lookup_some in L. split; [|apply remove_r_not_in].
    repeat split; cbn [pool holds].
    + intros r0 b0 Hin. apply in_remove_r in Hin. destruct Hin as [Hin Hne].
      unfold pput. rewrite nth_set_nth_other; [eauto|].
      intros <-. apply Hne. eapply nodup_snd_owner; eauto.
    + apply nodup_remove_r. exact I2.
    + apply nodup_remove_r. exact I3.
  - split; [repeat split; auto|]. apply lookup_none. exact L.
Qed.

Theorem pstep_inv s o : Inv s -> Inv (pstep false s o).
Proof.
  intros I. destruct o as [r|r|r|r]; cbn [pstep].
  - destruct (lookup r (holds s)) eqn:L; [exact I|]. apply acquire_inv; auto. apply lookup_none. exact L.
  - destruct (release_forget_inv r s I) as [I' Hn]. apply acquire_inv; auto.
  - exact I.
  - apply release_forget_inv. exact I.
Qed.

Lemma init_inv : Inv init.
Proof. repeat split; cbn; try constructor. intros r b []. Qed.

Theorem prun_inv ops : Inv (prun false ops).
Proof.
  unfold prun. assert (G : forall s, Inv s -> Inv (fold_left (pstep false) ops s)).
  { induction ops as [|o ops IH]; intros s I; cbn [fold_left]; auto. apply IH. apply pstep_inv. exact I. }
  apply G. exact init_inv.
Qed.

(* for every sequence of reader operations: a buffer is in at most one reader's field, and a
   buffer in a field is marked in use (Get never hands it out) *)
Theorem buffer_never_shared ops : forall r1 r2 b,
  In (r1, b) (holds (prun false ops)) -> In (r2, b) (holds (prun false ops)) -> r1 = r2.
Proof. destruct (prun_inv ops) as (_ & I2 & _). apply nodup_snd_owner. exact I2. Qed.

Theorem held_buffer_in_use ops : forall r b,
  In (r, b) (holds (prun false ops)) -> nth b (pool (prun false ops)) false = true.
Proof. destruct (prun_inv ops) as (I1 & _). exact I1. Qed.

(* release without forget: three operations put one buffer into two readers' fields *)
Theorem release_without_forget_refuted :
  exists ops r1 r2 b, r1 <> r2 /\ In (r1, b) (holds (prun true ops)) /\ In (r2, b) (holds (prun true ops)).
Proof.
  exists [Need 0%nat; Fail 0%nat; Need 1%nat], 0%nat, 1%nat, 0%nat.
  split; [discriminate|]. vm_compute. auto.
Qed.

(* BulkAliasProofs.v — proofs about SigM.BulkAlias: filing of ingested documents under the
   resolved index name, and what queries through an alias / the index find afterwards. *)
From Coq Require Import Lia List Permutation.
From Coq Require Import ZifyN ZifyNat ZifyBool.
From SigM Require Import Base Bulk BulkAlias.
From SigP Require Import BaseProofs BulkProofs.
Import ListNotations.
Open Scope N_scope.

(* ---------- (1) the filing invariant ---------- *)

(* every history of alias definitions, ingest requests (any groups, any order) and store
   removals keeps every segment store filed under the name of its stream *)
Lemma add_entry_filed : forall ss r ds,
  filed_ok ss = true -> filed_ok (add_entry ss (stream_id r) r ds) = true.
Proof.
  unfold filed_ok, stream_id.
  induction ss as [|s ss IH]; intros r ds H.
  - cbn. rewrite N.eqb_refl. reflexivity.
  - cbn [forallb] in H. apply andb_prop in H. destruct H as [H1 H2].
    cbn [add_entry]. destruct (ss_stream s =? r) eqn:E.
    + cbn [forallb ss_stream ss_table]. rewrite H1, H2. reflexivity.
    + cbn [forallb]. rewrite H1, (IH r ds H2). reflexivity.
Qed.

Lemma run_batches_filed : forall al gs ss,
  filed_ok ss = true -> filed_ok (run_batches al ss gs) = true.
Proof.
  unfold run_batches.
  induction gs as [|g gs IH]; intros ss H; cbn [fold_left]; auto.
  apply IH. unfold process_index. apply add_entry_filed. exact H.
Qed.

Lemma forallb_filter {T} (f g : T -> bool) l :
  forallb f l = true -> forallb f (filter g l) = true.
Proof.
  induction l as [|x l IH]; cbn; intros H; auto.
  apply andb_prop in H. destruct H as [H1 H2].
  destruct (g x); cbn; rewrite ?H1; auto.
Qed.

Theorem filing_invariant : forall h s,
  filed_ok (snd s) = true -> filed_ok (snd (run_ahist s h)) = true.
Proof.
  unfold run_ahist.
  induction h as [|e h IH]; intros s H; cbn [fold_left]; auto.
  apply IH. destruct e as [a i|gs|sid]; cbn [run_aev snd].
  - exact H.
  - apply run_batches_filed. exact H.
  - unfold filed_ok. apply forallb_filter. exact H.
Qed.

Corollary filing_invariant_init : forall h, filed_ok (snd (run_ahist a_init h)) = true.
Proof. intros h. apply filing_invariant. reflexivity. Qed.

(* ---------- (2) a request adds exactly its documents to what a query finds ---------- *)

(* the documents of a list of groups whose index name resolves to the table name [t] *)
Definition docs_at (al : amap) (gs : list (N * list N)) (t : N) : list N :=
  flat_map (fun g => if resolve al (fst g) =? t then snd g else []) gs.

Lemma add_entry_occ : forall ss r ds t id,
  filed_ok ss = true ->
  occ id (table_docs (add_entry ss (stream_id r) r ds) t) =
  (occ id (table_docs ss t) + (if (r =? t)%N then occ id ds else 0))%nat.
Proof.
  unfold filed_ok, stream_id, occ, table_docs.
  induction ss as [|s ss IH]; intros r ds t id H.
  - cbn. destruct (r =? t); rewrite app_nil_r; reflexivity.
  - cbn [forallb] in H. apply andb_prop in H. destruct H as [H1 H2].
    cbn [add_entry]. destruct (ss_stream s =? r) eqn:E.
    + apply N.eqb_eq in E. apply N.eqb_eq in H1.
      cbn [flat_map ss_table ss_docs ss_stream]. rewrite !count_occ_app.
      assert (T : ss_table s = r) by congruence. rewrite T.
      destruct (r =? t); rewrite ?count_occ_app; cbn [count_occ]; lia.
    + cbn [flat_map]. rewrite !count_occ_app, (IH r ds t id H2). lia.
Qed.

Lemma run_batches_occ : forall al gs ss t id,
  filed_ok ss = true ->
  occ id (table_docs (run_batches al ss gs) t) =
  (occ id (table_docs ss t) + occ id (docs_at al gs t))%nat.
Proof.
  unfold run_batches.
  induction gs as [|g gs IH]; intros ss t id H; cbn [fold_left].
  - cbn. lia.
  - rewrite IH by (unfold process_index; apply add_entry_filed; exact H).
    unfold process_index. rewrite add_entry_occ by exact H.
    unfold docs_at, occ. cbn [flat_map]. rewrite count_occ_app.
    destruct (resolve al (fst g) =? t); cbn [count_occ]; lia.
Qed.

Theorem request_conserves_search : forall al ss gs name id,
  filed_ok ss = true ->
  occ id (searchable al (run_batches al ss gs) name) =
  (occ id (searchable al ss name) + occ id (docs_for al gs name))%nat.
Proof.
  intros al ss gs name id H. unfold searchable.
  rewrite run_batches_occ by exact H. reflexivity.
Qed.

(* the groups of ConvertSliceToMap hold exactly the grouped pairs *)
Lemma ungroup_add : forall g k, Permutation (ungroup (add_to_group g k)) (ungroup g ++ [k]).
Proof.
  unfold ungroup.
  induction g as [|[i ds] g IH]; intros k.
  - destruct k as [a d]. cbn. apply Permutation_refl.
  - cbn [add_to_group]. destruct (i =? fst k) eqn:E.
    + apply N.eqb_eq in E. cbn [flat_map fst snd]. rewrite map_app. cbn [map].
      rewrite E. rewrite <- surjective_pairing. rewrite <- !app_assoc.
      apply Permutation_app_head. apply Permutation_app_comm.
    + cbn [flat_map fst snd]. rewrite <- app_assoc.
      apply Permutation_app_head. apply IH.
Qed.

Lemma ungroup_fold : forall ps g,
  Permutation (ungroup (fold_left add_to_group ps g)) (ungroup g ++ ps).
Proof.
  induction ps as [|p ps IH]; intros g; cbn [fold_left].
  - rewrite app_nil_r. apply Permutation_refl.
  - eapply Permutation_trans; [apply IH|].
    replace (ungroup g ++ p :: ps) with ((ungroup g ++ [p]) ++ ps)
      by (rewrite <- app_assoc; reflexivity).
    apply Permutation_app_tail. apply ungroup_add.
Qed.

Theorem groups_partition : forall ps, Permutation (ungroup (groups ps)) ps.
Proof. intros ps. unfold groups. apply (ungroup_fold ps []). Qed.

(* ---------- (3) HandleBulkBody with aliases, after any history ---------- *)

(* the pairs whose index name satisfies [g] and whose document is [id] *)
Definition sel (g : N -> bool) (id : N) (p : N * N) : bool := g (fst p) && (snd p =? id).

Lemma docs_at_sel : forall al gs t id,
  occ id (docs_at al gs t) =
  length (filter (sel (fun n => resolve al n =? t) id) (ungroup gs)).
Proof.
  intros al gs t id. unfold docs_at, ungroup, occ.
  induction gs as [|[n ds] gs IH]; [reflexivity|].
  cbn [flat_map fst snd]. rewrite count_occ_app, filter_app, app_length, IH. f_equal.
  clear IH. unfold sel.
  induction ds as [|d ds IHd].
  - destruct (resolve al n =? t); reflexivity.
  - cbn [map filter fst snd].
    destruct (resolve al n =? t) eqn:E; cbn [andb].
    + cbn [count_occ]. destruct (N.eq_dec d id) as [Q|Q].
      * subst d. rewrite N.eqb_refl. cbn [length]. rewrite IHd. reflexivity.
      * apply N.eqb_neq in Q. rewrite Q. exact IHd.
    + exact IHd.
Qed.

Lemma filter_length_perm {T} (f : T -> bool) l l' :
  Permutation l l' -> length (filter f l) = length (filter f l').
Proof.
  induction 1 as [|x l l' P IH|x y l|l l' l'' P1 IH1 P2 IH2]; cbn [filter].
  - reflexivity.
  - destruct (f x); cbn [length]; rewrite IH; reflexivity.
  - destruct (f x), (f y); reflexivity.
  - congruence.
Qed.

Lemma sel_none g id L : ~ In id (map snd L) -> filter (sel g id) L = [].
Proof.
  induction L as [|p L IH]; cbn [map filter]; intros H; auto.
  assert (Q : snd p <> id) by (intros Q; apply H; left; exact Q).
  apply N.eqb_neq in Q. unfold sel at 1. rewrite Q, Bool.andb_false_r.
  apply IH. intros Hin. apply H. right. exact Hin.
Qed.

(* with distinct document ids in the body, the accepted pairs contain the document of an action
   exactly once if the action is well-formed and not at all otherwise, whatever the index names *)
Lemma accepted_sel acts : NoDup (map snd (flat_map act_doc acts)) ->
  forall i a, nth_error acts i = Some a -> forall k, In k (act_doc a) -> forall g,
  length (filter (sel g (snd k)) (accepted acts)) =
  if act_ok a && g (fst k) then 1%nat else 0%nat.
Proof.
  induction acts as [|x acts IH]; intros ND i a Ha k Hk g; [destruct i; discriminate|].
  cbn [flat_map] in ND. rewrite map_app in ND. apply NoDup_app_inv in ND.
  destruct ND as (U & V & D).
  assert (E : accepted (x :: acts) = (if act_ok x then act_doc x else []) ++ accepted acts)
    by (unfold accepted; cbn [filter]; destruct (act_ok x); reflexivity).
  rewrite E, filter_app, app_length.
  destruct i as [|i]; cbn [nth_error] in Ha.
  - inversion Ha; subst x. rewrite (sel_none g (snd k) (accepted acts)).
    2:{ intros Hin. apply (D (snd k)); [apply in_map; exact Hk|].
        apply in_map_iff in Hin. destruct Hin as (k' & Ek & Hk').
        rewrite <- Ek. apply in_map. apply accepted_incl. exact Hk'. }
    destruct a as [l [d|]|l [d|]|l]; cbn [act_doc In] in Hk; try contradiction.
    destruct Hk as [<-|[]].
    destruct (act_ok (AWrite l (Some d))); cbn [andb]; [|reflexivity].
    cbn [act_doc filter fst snd]. unfold sel. cbn [fst snd]. rewrite N.eqb_refl.
    destruct (g (l_idx l)); reflexivity.
  - rewrite (IH V i a Ha k Hk g).
    rewrite (sel_none g (snd k) (if act_ok x then act_doc x else [])); [reflexivity|].
    intros Hin. destruct (act_ok x); [|exact Hin].
    apply (D (snd k) Hin). apply in_map. apply in_flat_map. exists a.
    split; [eapply nth_error_In; eauto|exact Hk].
Qed.

Section AliasBulk.
Variable h : list aev.
Variable so : N -> bool.
Variable b : list line.
Variable order : list (N * list N).
Let A := actions (body_lines b).
Let r := handle so b.
Let al := fst (run_ahist a_init h).
Let ss := snd (run_ahist a_init h).
Let ss' := run_batches al ss order.

(* [order]: the groups in the order the Go map yields them (any grouping of the stored
   documents in any order) *)
(* table level: under which table names the document of an action is filed afterwards *)
Lemma filed_under_resolved_name :
  Permutation (ungroup order) (r_stored r) ->
  stores_ok so A = true ->
  NoDup (map snd (flat_map act_doc A)) ->
  (forall k t, In k (flat_map act_doc A) -> occ (snd k) (table_docs ss t) = 0%nat) ->
  forall i a k t, nth_error A i = Some a -> In k (act_doc a) ->
    occ (snd k) (table_docs ss' t) =
    if act_ok a && (resolve al (fst k) =? t) then 1%nat else 0%nat.
Proof.
  intros P G ND F i a k t Ha Hk.
  unfold ss'. rewrite run_batches_occ by exact (filing_invariant_init h).
  rewrite (F k t) by (apply in_flat_map; exists a; split; [eapply nth_error_In; eauto|exact Hk]).
  rewrite docs_at_sel. rewrite (filter_length_perm _ _ _ P).
  pose proof (stored_are_created_docs so b G) as S. fold A r in S. rewrite S.
  cbn [plus]. exact (accepted_sel A ND i a Ha k Hk (fun n => resolve al n =? t)).
Qed.

Theorem created_iff_searchable_through_alias :
  Permutation (ungroup order) (r_stored r) ->
  stores_ok so A = true ->
  NoDup (map snd (flat_map act_doc A)) ->
  (forall k t, In k (flat_map act_doc A) -> occ (snd k) (table_docs ss t) = 0%nat) ->
  forall i a sti, nth_error A i = Some a -> nth_error (r_items r) i = Some sti ->
    (sti = 201 -> exists idx id, act_doc a = [(idx, id)] /\
       forall name, occ id (searchable al ss' name) =
                    if resolve al name =? resolve al idx then 1%nat else 0%nat) /\
    (sti <> 201 -> forall k, In k (act_doc a) ->
       forall name, occ (snd k) (searchable al ss' name) = 0%nat).
Proof.
  intros P G ND F i a sti Ha Hs.
  pose proof (success_is_local so b i a sti Ha Hs) as L.
  split.
  - intros E. subst sti.
    assert (Ok : act_ok a = true) by (rewrite <- L; reflexivity).
    destruct a as [l [d|]|l [d|]|l]; try (cbn in Ok; discriminate).
    exists (l_idx l), (l_id d). split; [reflexivity|]. intros name. unfold searchable.
    pose proof (filed_under_resolved_name P G ND F i _ (l_idx l, l_id d) (resolve al name) Ha
                  (or_introl eq_refl)) as T.
    cbn [fst snd] in T. rewrite T, Ok. cbn [andb]. rewrite N.eqb_sym. reflexivity.
  - intros Hn k Hk name. unfold searchable.
    rewrite (filed_under_resolved_name P G ND F i a k (resolve al name) Ha Hk).
    assert (Ok : act_ok a = false).
    { rewrite <- L. unfold created. apply N.eqb_neq. exact Hn. }
    rewrite Ok. reflexivity.
Qed.

(* the document of a created item written through an alias [idx] of the index [real]: found
   once through the alias, once under the index, and nothing is filed under the alias name *)
Corollary created_through_alias_found_under_index :
  Permutation (ungroup order) (r_stored r) ->
  stores_ok so A = true ->
  NoDup (map snd (flat_map act_doc A)) ->
  (forall k t, In k (flat_map act_doc A) -> occ (snd k) (table_docs ss t) = 0%nat) ->
  forall i l d real,
    nth_error A i = Some (AWrite l (Some d)) -> nth_error (r_items r) i = Some 201 ->
    alias_of al (l_idx l) = Some real -> alias_of al real = None ->
    occ (l_id d) (searchable al ss' (l_idx l)) = 1%nat /\
    occ (l_id d) (searchable al ss' real) = 1%nat /\
    occ (l_id d) (table_docs ss' (l_idx l)) = 0%nat.
Proof.
  intros P G ND F i l d real Ha Hs Al Nr.
  pose proof (success_is_local so b i _ 201 Ha Hs) as L.
  assert (Ok : act_ok (AWrite l (Some d)) = true) by (rewrite <- L; reflexivity).
  assert (T : forall t, occ (l_id d) (table_docs ss' t) =
                        if resolve al (l_idx l) =? t then 1%nat else 0%nat).
  { intros t.
    pose proof (filed_under_resolved_name P G ND F i _ (l_idx l, l_id d) t Ha
                  (or_introl eq_refl)) as T.
    cbn [fst snd] in T. rewrite Ok in T. exact T. }
  assert (R1 : resolve al (l_idx l) = real) by (unfold resolve; rewrite Al; reflexivity).
  assert (R2 : resolve al real = real) by (unfold resolve; rewrite Nr; reflexivity).
  assert (Ne : real <> l_idx l) by (intros E; rewrite E in Nr; congruence).
  apply N.eqb_neq in Ne.
  unfold searchable. rewrite !T, R2, R1, N.eqb_refl, Ne. auto.
Qed.
End AliasBulk.

(* HandleBulkBody's own grouping is such an [order] *)
Lemma bulk_groups_order : forall so b, Permutation (ungroup (bulk_groups so b)) (r_stored (handle so b)).
Proof. intros. apply groups_partition. Qed.

(* ---------- witnesses (vm_compute) ---------- *)

(* the invariant is what carries (3): with ONE store filed under another name than its stream's
   (the store of the index's stream created under the alias name) the item is 201,
   errors = false, and the document is found neither through the alias nor under the index *)
Definition w_alias_body : list line := [ln_index 70; ln_doc 1; empty_line].
Definition w_direct_body : list line := [ln_index 80; ln_doc 1; empty_line].

Theorem misfiled_store_refuted : exists al ss b idx real id,
  filed_ok ss = false /\
  alias_of al idx = Some real /\ alias_of al real = None /\
  flat_map act_doc (actions (body_lines b)) = [(idx, id)] /\
  r_items (handle all_ok b) = [201] /\ r_errors (handle all_ok b) = false /\
  occ id (searchable al (bulk_after (al, ss) all_ok b) idx) = 0%nat /\
  occ id (searchable al (bulk_after (al, ss) all_ok b) real) = 0%nat /\
  occ id (table_docs (bulk_after (al, ss) all_ok b) idx) = 1%nat.
Proof.
  exists [(70, 80)], [mkSS 80 70 []], w_alias_body, 70, 80, 1.
  vm_compute. repeat split; reflexivity.
Qed.

(* ... and documents written directly to the index afterwards are lost to queries as well *)
Theorem misfiled_store_loses_direct_writes : exists al ss b real id,
  filed_ok ss = false /\ alias_of al real = None /\
  flat_map act_doc (actions (body_lines b)) = [(real, id)] /\
  r_items (handle all_ok b) = [201] /\
  occ id (searchable al (bulk_after (al, ss) all_ok b) real) = 0%nat.
Proof.
  exists [(70, 80)], [mkSS 80 70 []], w_direct_body, 80, 1.
  vm_compute. repeat split; reflexivity.
Qed.

(* non-vacuity: index written first, aliases defined afterwards (one for an index without
   store), the store of the first index removed, then one body through both aliases and an
   index name; the second alias' index has no store yet *)
Definition h_alias : list aev :=
  [EReq [(80, [900])]; EAlias 70 80; EAlias 71 81; EReq [(70, [901]); (81, [902])]; EDrop 81].
Definition w_alias_mixed : list line :=
  [ln_index 70; ln_doc 1; ln_index 80; ln_doc 2; ln_index 71; ln_doc 3; ln_index 70; ln_bad; empty_line].

Example alias_history_example :
  filed_ok (snd (run_ahist a_init h_alias)) = true /\
  r_items (handle all_ok w_alias_mixed) = [201; 201; 201; 400] /\
  (let s := run_ahist a_init h_alias in
   let ss' := bulk_after s all_ok w_alias_mixed in
   searchable (fst s) ss' 70 = [900; 901; 1; 2] /\ searchable (fst s) ss' 80 = [900; 901; 1; 2] /\
   searchable (fst s) ss' 71 = [3] /\ searchable (fst s) ss' 81 = [3] /\
   table_docs ss' 70 = [] /\ table_docs ss' 71 = [] /\ filed_ok ss' = true).
Proof. vm_compute. repeat split; reflexivity. Qed.

(* BulkConcProofs.v — proofs about SigM.BulkConc: under the get-or-create that re-checks the table
   after taking the write lock, EVERY interleaving of any number of ingest requests puts all their
   documents into the one store the table holds for the stream (so the next flush makes each of
   them searchable exactly once); without the re-check a two-request interleaving loses documents. *)
From Coq Require Import Lia List Permutation Arith.
From Coq Require Import ZifyN ZifyNat ZifyBool.
From SigM Require Import Base Bulk BulkAlias BulkConc.
From SigP Require Import BaseProofs BulkProofs BulkAliasProofs.
Import ListNotations.
Open Scope N_scope.

(* ---------- the table ---------- *)

Lemma tbl_get_in : forall t s k, tbl_get t s = Some k -> In (s, k) t.
Proof.
  induction t as [|[s' k'] t IH]; intros s k H; cbn in H; [discriminate|].
  destruct (s' =? s) eqn:E.
  - apply N.eqb_eq in E. inversion H; subst. left. reflexivity.
  - right. apply IH. exact H.
Qed.

Lemma tbl_get_none : forall t s, tbl_get t s = None -> ~ In s (map fst t).
Proof.
  induction t as [|[s' k'] t IH]; intros s H; cbn in *; [tauto|].
  destruct (s' =? s) eqn:E; [discriminate|].
  apply N.eqb_neq in E. intros [Q|Q]; [congruence|]. exact (IH s H Q).
Qed.

Lemma in_tbl_get : forall t s k, NoDup (map fst t) -> In (s, k) t -> tbl_get t s = Some k.
Proof.
  induction t as [|[s' k'] t IH]; intros s k ND H; cbn in *; [tauto|].
  inversion ND as [|x l Hn ND']; subst.
  destruct H as [H|H].
  - inversion H; subst. rewrite N.eqb_refl. reflexivity.
  - destruct (s' =? s) eqn:E.
    + apply N.eqb_eq in E. subst s'. exfalso. apply Hn.
      change s with (fst (s, k)). apply in_map. exact H.
    + apply IH; assumption.
Qed.

(* ---------- upd ---------- *)

Lemma Forall_upd {T} (P : T -> Prop) : forall l i x, Forall P l -> P x -> Forall P (upd l i x).
Proof.
  induction l as [|y l IH]; intros i x H Hx; cbn; [constructor|].
  inversion H; subst. destruct i; constructor; auto.
Qed.

(* ---------- the invariant ---------- *)

Lemma thr_ok_cons : forall b tbl t, thr_ok tbl t -> thr_ok (b :: tbl) t.
Proof.
  intros b tbl [[|[s ds] rest] [| |k]] H; cbn in *; auto.
Qed.

Lemma cinv_arrive : forall st reqs, cinv st -> cinv (c_arrive st reqs).
Proof.
  intros st reqs [A B C D E]. constructor; cbn; auto.
  apply Forall_forall. intros t Ht. apply in_map_iff in Ht. destruct Ht as (r & <- & _).
  destruct r as [|[s ds] r]; exact I.
Qed.

Lemma cinv_empty : cinv c_empty.
Proof. constructor; cbn; try constructor; intros; contradiction. Qed.

Lemma cinv_step : forall st i, cinv st -> cinv (cstep_thr true st i).
Proof.
  intros st i [A B C D E]. unfold cstep_thr.
  destruct (nth_error (c_thr st) i) as [[[|[s ds] rest] pc]|] eqn:N; try (constructor; assumption).
  destruct pc as [| |k].
  - (* look-up *)
    constructor; cbn; auto. apply Forall_upd; [exact E|].
    destruct (tbl_get (c_tbl st) s) as [k|] eqn:G; cbn; [apply tbl_get_in; exact G|exact I].
  - (* create, with the re-check *)
    destruct (tbl_get (c_tbl st) s) as [k|] eqn:G.
    + constructor; cbn; auto. apply Forall_upd; [exact E|]. cbn. apply tbl_get_in. exact G.
    + constructor; cbn.
      * constructor; [apply tbl_get_none; exact G|exact A].
      * constructor; [|exact B]. intros H. apply in_map_iff in H. destruct H as ([s' k'] & Q & H).
        cbn in Q. subst k'. apply C in H. lia.
      * intros s' k' [H|H]; [inversion H; lia|]. apply C in H. lia.
      * intros k' d H. apply D in H. lia.
      * apply Forall_upd; [|cbn; left; reflexivity].
        eapply Forall_impl; [|exact E]. intros t. apply thr_ok_cons.
  - (* add *)
    constructor; cbn; auto.
    + intros k' d H. apply in_app_or in H. destruct H as [H|H]; [eapply D; exact H|].
      apply in_map_iff in H. destruct H as (d' & Q & _). inversion Q; subst k'.
      pose proof (proj1 (Forall_forall _ _) E _ (nth_error_In _ _ N)) as T. cbn in T.
      eapply C. exact T.
    + apply Forall_upd; [exact E|]. destruct rest as [|[s' ds'] rest]; exact I.
Qed.

Lemma NoDup_map_filter {A B} (f : A -> B) (g : A -> bool) : forall l,
  NoDup (map f l) -> NoDup (map f (filter g l)).
Proof.
  induction l as [|x l IH]; cbn; intros H; [constructor|].
  inversion H as [|y l' Hn H']; subst.
  destruct (g x); cbn; [constructor|]; auto.
  intros Q. apply Hn. apply in_map_iff in Q. destruct Q as (z & Ez & Hz).
  apply filter_In in Hz. rewrite <- Ez. apply in_map. tauto.
Qed.

(* an idle store leaves the table while nothing is in flight *)
Lemma cinv_drop : forall st s, cinv st -> c_thr st = [] -> cinv (c_drop st s).
Proof.
  intros st s [A B C D E] Z. constructor; cbn.
  - apply NoDup_map_filter. exact A.
  - apply NoDup_map_filter. exact B.
  - intros s' k H. apply filter_In in H. apply (C s' k). tauto.
  - exact D.
  - rewrite Z. constructor.
Qed.

Lemma cinv_run : forall sched st, cinv st -> cinv (crun true st sched).
Proof.
  unfold crun. induction sched as [|i sched IH]; intros st H; cbn [fold_left]; auto.
  apply IH. apply cinv_step. exact H.
Qed.

(* ---------- ONE store per stream: the number of store objects ever created is the number of
   streams in the table (from the empty table) ---------- *)

Lemma created_step : forall rc st i,
  (c_next (cstep_thr rc st i) + length (c_tbl st) = c_next st + length (c_tbl (cstep_thr rc st i)))%nat.
Proof.
  intros rc st i. unfold cstep_thr.
  destruct (nth_error (c_thr st) i) as [[[|[s ds] rest] pc]|]; try lia.
  destruct pc as [| |k]; cbn; try lia.
  destruct (if rc then tbl_get (c_tbl st) s else None); cbn; lia.
Qed.

Lemma created_run : forall rc sched st,
  (c_next (crun rc st sched) + length (c_tbl st) = c_next st + length (c_tbl (crun rc st sched)))%nat.
Proof.
  unfold crun. induction sched as [|i sched IH]; intros st; cbn [fold_left]; [lia|].
  pose proof (created_step rc st i). specialize (IH (cstep_thr rc st i)). lia.
Qed.

Theorem one_store_per_stream : forall reqs sched,
  let fin := crun true (c_start reqs) sched in
  NoDup (map fst (c_tbl fin)) /\ c_next fin = length (c_tbl fin).
Proof.
  intros reqs sched fin. split.
  - apply (i_streams _ (cinv_run sched _ (cinv_arrive _ reqs cinv_empty))).
  - pose proof (created_run true sched (c_start reqs)) as R.
    fold fin in R. cbn in R. lia.
Qed.

(* ---------- conservation: visible + in flight is constant ---------- *)

Lemma store_docs_app : forall e1 e2 k, store_docs (e1 ++ e2) k = store_docs e1 k ++ store_docs e2 k.
Proof. intros. unfold store_docs. rewrite filter_app, map_app. reflexivity. Qed.

Lemma store_docs_pair : forall k ds k', store_docs (map (pair k) ds) k' = if Nat.eqb k k' then ds else [].
Proof.
  intros k ds k'. unfold store_docs. induction ds as [|d ds IH]; cbn [map filter fst].
  - destruct (Nat.eqb k k'); reflexivity.
  - destruct (Nat.eqb k k') eqn:E; cbn [map snd]; rewrite IH; reflexivity.
Qed.

Lemma store_docs_fresh : forall ents n,
  (forall k d, In (k, d) ents -> (k < n)%nat) -> store_docs ents n = [].
Proof.
  unfold store_docs. induction ents as [|[k d] ents IH]; intros n H; cbn [filter fst]; [reflexivity|].
  assert (Q : Nat.eqb k n = false) by (apply Nat.eqb_neq; specialize (H k d (or_introl eq_refl)); lia).
  rewrite Q. apply IH. intros k' d' Hin. apply (H k' d'). right. exact Hin.
Qed.

Lemma pending_upd : forall thr i t t' s d,
  nth_error thr i = Some t ->
  (occ d (pending (upd thr i t') s) + occ d (req_docs (fst t) s) =
   occ d (pending thr s) + occ d (req_docs (fst t') s))%nat.
Proof.
  unfold pending, occ.
  induction thr as [|y thr IH]; intros i t t' s d H; [destruct i; discriminate|].
  destruct i as [|i]; cbn [nth_error] in H.
  - inversion H; subst y. cbn [upd flat_map]. rewrite !count_occ_app. lia.
  - cbn [upd flat_map]. rewrite !count_occ_app. specialize (IH i t t' s d H). lia.
Qed.

(* what a stream shows after the next flush plus what is still on its way to it *)
Definition balance (st : cstate) (s d : N) : nat :=
  (occ d (visible st s) + occ d (pending (c_thr st) s))%nat.

Lemma balance_step : forall st i s d, cinv st -> balance (cstep_thr true st i) s d = balance st s d.
Proof.
  intros st i s d [A B C D E]. unfold cstep_thr.
  destruct (nth_error (c_thr st) i) as [[[|[s0 ds] rest] pc]|] eqn:N; try reflexivity.
  pose proof (proj1 (Forall_forall _ _) E _ (nth_error_In _ _ N)) as T.
  destruct pc as [| |k]; unfold balance.
  - (* look-up: only the position changes *)
    pose proof (pending_upd (c_thr st) i _
      ((s0, ds) :: rest, match tbl_get (c_tbl st) s0 with Some k => PAdd k | None => PCreate end) s d N) as P.
    cbn [fst] in P. unfold visible. cbn [c_thr c_tbl c_ents]. lia.
  - destruct (tbl_get (c_tbl st) s0) as [k|] eqn:G.
    + pose proof (pending_upd (c_thr st) i _ ((s0, ds) :: rest, PAdd k) s d N) as P.
      cbn [fst] in P. unfold visible. cbn [c_thr c_tbl c_ents]. lia.
    + (* a new, empty store enters the table *)
      pose proof (pending_upd (c_thr st) i _ ((s0, ds) :: rest, PAdd (c_next st)) s d N) as P.
      cbn [fst] in P. unfold visible. cbn [c_thr c_tbl c_ents tbl_get].
      destruct (s0 =? s) eqn:Es.
      * apply N.eqb_eq in Es. subst s0. rewrite G. rewrite (store_docs_fresh _ _ D). lia.
      * lia.
  - (* AddEntry: the documents of the group reach the store the request holds = the table's *)
    cbn in T.
    pose proof (pending_upd (c_thr st) i _ (rest, PLook) s d N) as P. cbn [fst] in P.
    unfold visible. cbn [c_thr c_tbl c_ents].
    assert (R : req_docs ((s0, ds) :: rest) s = (if s0 =? s then ds else []) ++ req_docs rest s)
      by reflexivity.
    unfold occ in *. rewrite R in P. rewrite count_occ_app in P.
    pose proof (in_tbl_get _ _ _ A T) as G0.
    destruct (tbl_get (c_tbl st) s) as [k'|] eqn:G.
    + rewrite store_docs_app, store_docs_pair, count_occ_app.
      destruct (s0 =? s) eqn:Es.
      * apply N.eqb_eq in Es. subst s0. assert (k' = k) by congruence. subst k'.
        rewrite Nat.eqb_refl. lia.
      * assert (Q : Nat.eqb k k' = false).
        { apply Nat.eqb_neq. intros Q. subst k'. apply tbl_get_in in G.
          apply N.eqb_neq in Es. apply Es.
          clear - B T G. revert B T G. generalize (c_tbl st) as t.
          induction t as [|[a b] t IH]; cbn; intros B T G; [tauto|].
          inversion B as [|x l Hn B']; subst.
          destruct T as [T|T], G as [G|G].
          - congruence.
          - inversion T; subst. exfalso. apply Hn. change k with (snd (s, k)). apply in_map. exact G.
          - inversion G; subst. exfalso. apply Hn. change k with (snd (s0, k)). apply in_map. exact T.
          - apply IH; assumption. }
        rewrite Q. cbn [count_occ] in *. lia.
    + destruct (s0 =? s) eqn:Es.
      * apply N.eqb_eq in Es. subst s0. congruence.
      * cbn [count_occ] in *. lia.
Qed.

Lemma balance_run : forall sched st s d, cinv st -> balance (crun true st sched) s d = balance st s d.
Proof.
  unfold crun. induction sched as [|i sched IH]; intros st s d H; cbn [fold_left]; [reflexivity|].
  rewrite IH by (apply cinv_step; exact H). apply balance_step. exact H.
Qed.

Lemma pending_done : forall thr s, forallb thr_done thr = true -> pending thr s = [].
Proof.
  unfold pending. induction thr as [|[r pc] thr IH]; intros s H; cbn in *; [reflexivity|].
  apply andb_prop in H. destruct H as [H1 H2]. unfold thr_done in H1. cbn in H1.
  destruct r; [|discriminate]. cbn. apply IH. exact H2.
Qed.

Lemma pending_arrive : forall reqs s,
  pending (map (fun r => (r, PLook)) reqs) s = flat_map (fun r => req_docs r s) reqs.
Proof.
  unfold pending. induction reqs as [|r reqs IH]; intros s; cbn; [reflexivity|]. rewrite IH. reflexivity.
Qed.

(* for EVERY interleaving that lets the requests finish: what the next flush makes searchable for a
   stream is what it showed before plus exactly the documents the requests sent to that stream *)
Theorem concurrent_requests_conserve : forall st reqs sched s d,
  cinv st ->
  let fin := crun true (c_arrive st reqs) sched in
  all_done fin = true ->
  occ d (visible fin s) =
  (occ d (visible st s) + occ d (flat_map (fun r => req_docs r s) reqs))%nat.
Proof.
  intros st reqs sched s d H fin Done.
  pose proof (balance_run sched (c_arrive st reqs) s d (cinv_arrive st reqs H)) as B.
  fold fin in B. unfold balance in B.
  unfold all_done in Done. rewrite (pending_done _ s Done) in B.
  cbn [c_arrive c_thr] in B. rewrite pending_arrive in B.
  unfold visible in B at 2. cbn [c_arrive c_tbl c_ents] in B. fold (visible st s) in B.
  unfold occ in *. cbn [count_occ] in B. lia.
Qed.

(* ---------- the bulk requests of a wave ---------- *)

Lemma req_docs_docs_at : forall r s, req_docs r s = docs_at [] r s.
Proof. reflexivity. Qed.

Lemma stores_all_ok : forall A, stores_ok all_ok A = true.
Proof.
  intros A. unfold stores_ok. apply forallb_forall. intros a _. reflexivity.
Qed.

(* the documents of a body whose identity does not occur in it: none *)
Lemma creq_absent : forall b r s id, creq_of b r -> ~ In id (map snd (body_docs b)) ->
  occ id (req_docs r s) = 0%nat.
Proof.
  intros b r s id P H. change (Permutation (ungroup r) (r_stored (handle all_ok b))) in P.
  rewrite req_docs_docs_at, docs_at_sel.
  rewrite (filter_length_perm _ _ _ P).
  rewrite (stored_are_created_docs all_ok b (stores_all_ok _)).
  rewrite sel_none; [reflexivity|].
  intros Hin. apply H. apply in_map_iff in Hin. destruct Hin as (k & Ek & Hk).
  rewrite <- Ek. apply in_map. unfold body_docs. apply accepted_incl. exact Hk.
Qed.

Lemma wave_absent : forall bs rs s id, Forall2 creq_of bs rs ->
  ~ In id (map snd (flat_map body_docs bs)) ->
  occ id (flat_map (fun r => req_docs r s) rs) = 0%nat.
Proof.
  induction 1 as [|b r bs rs P F IH]; intros H; [reflexivity|].
  cbn [flat_map] in *. unfold occ in *. rewrite count_occ_app.
  rewrite map_app in H.
  fold (occ id (req_docs r s)). rewrite (creq_absent b r s id P) by (intros Q; apply H; apply in_or_app; left; exact Q).
  rewrite IH by (intros Q; apply H; apply in_or_app; right; exact Q). reflexivity.
Qed.

(* the document of action [i] of body number [j] of the wave, over all requests of the wave *)
Lemma wave_sel : forall bs rs, Forall2 creq_of bs rs ->
  NoDup (map snd (flat_map body_docs bs)) ->
  forall j b i a k s, nth_error bs j = Some b -> nth_error (actions (body_lines b)) i = Some a ->
  In k (act_doc a) ->
  occ (snd k) (flat_map (fun r => req_docs r s) rs) =
  if act_ok a && (fst k =? s) then 1%nat else 0%nat.
Proof.
  induction 1 as [|b0 r bs rs P F IH]; intros ND j b i a k s Hb Ha Hk; [destruct j; discriminate|].
  change (Permutation (ungroup r) (r_stored (handle all_ok b0))) in P.
  cbn [flat_map] in ND. rewrite map_app in ND. apply NoDup_app_inv in ND. destruct ND as (U & V & Dj).
  cbn [flat_map]. unfold occ. rewrite count_occ_app. fold (occ (snd k) (req_docs r s)).
  fold (occ (snd k) (flat_map (fun r => req_docs r s) rs)).
  destruct j as [|j]; cbn [nth_error] in Hb.
  - inversion Hb; subst b0.
    assert (Hin : In (snd k) (map snd (body_docs b))).
    { apply in_map. unfold body_docs. apply in_flat_map. exists a. split; [eapply nth_error_In; eauto|exact Hk]. }
    rewrite (wave_absent bs rs s (snd k) F) by (intros Q; exact (Dj _ Hin Q)).
    rewrite req_docs_docs_at, docs_at_sel, (filter_length_perm _ _ _ P).
    rewrite (stored_are_created_docs all_ok b (stores_all_ok _)).
    rewrite (accepted_sel _ U i a Ha k Hk (fun n => resolve [] n =? s)).
    cbn. lia.
  - assert (Hin : In (snd k) (map snd (flat_map body_docs bs))).
    { apply in_map. apply in_flat_map. exists b. split; [eapply nth_error_In; eauto|].
      unfold body_docs. apply in_flat_map. exists a. split; [eapply nth_error_In; eauto|exact Hk]. }
    rewrite (creq_absent b0 r s (snd k) P) by (intros Q; exact (Dj _ Q Hin)).
    rewrite (IH V j b i a k s Hb Ha Hk). reflexivity.
Qed.

(* created iff searchable exactly once, for every request of a wave of concurrent bulk requests,
   whatever the interleaving *)
Theorem concurrent_created_iff_searchable : forall st bs rs sched,
  cinv st ->
  Forall2 creq_of bs rs ->
  NoDup (map snd (flat_map body_docs bs)) ->
  (forall k s, In k (flat_map body_docs bs) -> occ (snd k) (visible st s) = 0%nat) ->
  let fin := crun true (c_arrive st rs) sched in
  all_done fin = true ->
  forall j b, nth_error bs j = Some b ->
  forall i a sti, nth_error (actions (body_lines b)) i = Some a ->
    nth_error (r_items (handle all_ok b)) i = Some sti ->
    (sti = 201 -> exists idx id, act_doc a = [(idx, id)] /\
       forall s, occ id (visible fin s) = if s =? idx then 1%nat else 0%nat) /\
    (sti <> 201 -> forall k, In k (act_doc a) -> forall s, occ (snd k) (visible fin s) = 0%nat).
Proof.
  intros st bs rs sched Inv F ND New fin Done j b Hb i a sti Ha Hs.
  pose proof (success_is_local all_ok b i a sti Ha Hs) as L.
  assert (V : forall k s, In k (act_doc a) ->
    occ (snd k) (visible fin s) = if act_ok a && (fst k =? s) then 1%nat else 0%nat).
  { intros k s Hk. unfold fin. rewrite (concurrent_requests_conserve st rs sched s (snd k) Inv Done).
    rewrite (New k s).
    2:{ apply in_flat_map. exists b. split; [eapply nth_error_In; eauto|].
        unfold body_docs. apply in_flat_map. exists a. split; [eapply nth_error_In; eauto|exact Hk]. }
    rewrite (wave_sel bs rs F ND j b i a k s Hb Ha Hk). reflexivity. }
  split.
  - intros E. subst sti.
    assert (Ok : act_ok a = true) by (rewrite <- L; reflexivity).
    destruct a as [l [d|]|l [d|]|l]; try (cbn in Ok; discriminate).
    exists (l_idx l), (l_id d). split; [reflexivity|]. intros s.
    pose proof (V (l_idx l, l_id d) s (or_introl eq_refl)) as T. cbn [fst snd] in T.
    rewrite T, Ok. cbn [andb]. rewrite N.eqb_sym. reflexivity.
  - intros Hn k Hk s. rewrite (V k s Hk).
    assert (Ok : act_ok a = false).
    { rewrite <- L. unfold created. apply N.eqb_neq. exact Hn. }
    rewrite Ok. reflexivity.
Qed.

(* HandleBulkBody's own grouping is such a request *)
Lemma bulk_creq_of : forall b, creq_of b (bulk_creq all_ok b).
Proof.
  intros b. unfold creq_of, bulk_creq, stream_id.
  rewrite map_ext with (g := fun g => g) by (intros [x y]; reflexivity). rewrite map_id.
  apply bulk_groups_order.
Qed.

(* ---------- witnesses (vm_compute) ---------- *)

Definition w_conc_a : list line := [ln_index 7; ln_doc 1; empty_line].
Definition w_conc_b : list line := [ln_index 7; ln_doc 2; empty_line].
(* both look the stream up (no store yet), both create, both add *)
Definition w_gate_sched : list nat := [0; 1; 0; 1; 0; 1]%nat.
Definition w_seq_sched : list nat := [0; 0; 0; 1; 1; 1]%nat.

(* without the re-check after taking the write lock: two requests, each one well-formed write into
   the same new index; both are answered 201 / errors=false; the table ends with the second
   request's store, and the first request's document is in no store the flush visits *)
Theorem no_recheck_refuted : exists b1 b2 sched id1,
  let rs := [bulk_creq all_ok b1; bulk_creq all_ok b2] in
  let fin := crun false (c_start rs) sched in
  NoDup (map snd (flat_map body_docs [b1; b2])) /\
  all_done fin = true /\
  r_items (handle all_ok b1) = [201] /\ r_errors (handle all_ok b1) = false /\
  r_items (handle all_ok b2) = [201] /\ r_errors (handle all_ok b2) = false /\
  body_docs b1 = [(7, id1)] /\
  (forall s, In s [7] -> occ id1 (visible fin s) = 0%nat) /\
  c_next fin = 2%nat /\ map fst (c_tbl fin) = [7; 7].
Proof.
  exists w_conc_a, w_conc_b, w_gate_sched, 1.
  vm_compute. repeat split; try reflexivity.
  - repeat constructor; cbn; intuition discriminate.
  - intros s [<-|[]]. reflexivity.
Qed.

(* the same two requests one after the other: nothing is lost without the re-check either — which
   is why sequential request streams cannot see the difference *)
Example no_recheck_sequential_is_fine :
  let rs := [bulk_creq all_ok w_conc_a; bulk_creq all_ok w_conc_b] in
  visible (crun false (c_start rs) w_seq_sched) 7 = [1; 2] /\
  visible (crun true (c_start rs) w_seq_sched) 7 = [1; 2] /\
  visible (crun true (c_start rs) w_gate_sched) 7 = [1; 2] /\
  visible (crun false (c_start rs) w_gate_sched) 7 = [2].
Proof. vm_compute. repeat split; reflexivity. Qed.

(* ---------- respItemsPool: the response owns its items ---------- *)

Lemma mget_cons : forall mem b c a,
  mget ((b, c) :: mem) a = if Nat.eqb b a then c else mget mem a.
Proof. intros. unfold mget. cbn. destruct (Nat.eqb b a); reflexivity. Qed.

Lemma aget_in : forall {T} (l : list (nat * T)) k v, aget l k = Some v -> In (k, v) l.
Proof.
  induction l as [|[k' v'] l IH]; intros k v H; cbn in H; [discriminate|].
  destruct (Nat.eqb k' k) eqn:E.
  - apply Nat.eqb_eq in E. inversion H; subst. left. reflexivity.
  - right. apply IH. exact H.
Qed.

Lemma in_remove_at : forall {T} (l : list T) n x, In x (remove_at l n) -> In x l.
Proof.
  induction l as [|y l IH]; intros n x H; cbn in *; [destruct n; exact H|].
  destruct n as [|n]; [right; exact H|].
  destruct H as [H|H]; [left; exact H|right; eapply IH; exact H].
Qed.

Lemma in_run_filter : forall run j b,
  In b (map snd (filter (fun r : nat * nat => negb (Nat.eqb (fst r) j)) run)) -> In b (map snd run).
Proof.
  intros run j b H. apply in_map_iff in H. destruct H as (x & E & H).
  apply filter_In in H. rewrite <- E. apply in_map. tauto.
Qed.

Lemma sinv_empty : sinv s_empty.
Proof. constructor; cbn; intros; contradiction. Qed.

(* one event of the code (with the copy): the invariant stays, every response stays, and the slice a
   response points into keeps its contents *)
Lemma sstep_private : forall st e, sinv st ->
  sinv (sstep true st e) /\
  forall j a, In (j, a) (s_resp st) ->
    In (j, a) (s_resp (sstep true st e)) /\ mget (s_mem (sstep true st e)) a = mget (s_mem st) a.
Proof.
  intros st e [R P U]. destruct e as [j n|j i x|j]; cbn [sstep].
  - destruct (nth_error (s_pool st) n) as [a0|] eqn:E.
    + pose proof (nth_error_In _ _ E) as Hin. split.
      * constructor; cbn.
        -- intros j' a H. destruct (R j' a H) as (H1 & H2 & H3). repeat split; auto.
           ++ intros Q. apply H2. eapply in_remove_at. exact Q.
           ++ intros [Q|Q]; [subst a0; exact (H2 Hin)|exact (H3 Q)].
        -- intros a H. apply P. eapply in_remove_at. exact H.
        -- intros b [H|H]; [subst b; apply P; exact Hin|apply U; exact H].
      * intros j' a H. split; [exact H|reflexivity].
    + split.
      * constructor; cbn.
        -- intros j' a H. destruct (R j' a H) as (H1 & H2 & H3). repeat split; auto.
           intros [Q|Q]; [lia|exact (H3 Q)].
        -- intros a H. apply P in H. lia.
        -- intros b [H|H]; [lia|apply U in H; lia].
      * intros j' a H. split; [exact H|]. cbn. rewrite mget_cons.
        destruct (R j' a H) as (H1 & _). destruct (Nat.eqb (s_nexta st) a) eqn:Q; [|reflexivity].
        apply Nat.eqb_eq in Q. lia.
  - destruct (aget (s_run st) j) as [b|] eqn:E.
    + pose proof (aget_in _ _ _ E) as Hin. split.
      * constructor; cbn; auto.
      * intros j' a H. split; [exact H|]. cbn. rewrite mget_cons.
        destruct (Nat.eqb b a) eqn:Q; [|reflexivity]. apply Nat.eqb_eq in Q. subst b.
        destruct (R j' a H) as (_ & _ & H3). exfalso. apply H3.
        change a with (snd (j, a)). apply in_map. exact Hin.
    + split; [constructor; assumption|]. intros j' a H. split; [exact H|reflexivity].
  - destruct (aget (s_run st) j) as [b|] eqn:E.
    + pose proof (aget_in _ _ _ E) as Hin.
      assert (Hb : In b (map snd (s_run st))) by (change b with (snd (j, b)); apply in_map; exact Hin).
      split.
      * constructor; cbn.
        -- intros j' a [H|H].
           ++ inversion H; subst. repeat split; [lia| |].
              ** intros [Q|Q]; [apply U in Hb; lia|apply P in Q; lia].
              ** intros Q. apply in_run_filter in Q. apply U in Q. lia.
           ++ destruct (R j' a H) as (H1 & H2 & H3). repeat split; [lia| |].
              ** intros [Q|Q]; [subst b; exact (H3 Hb)|exact (H2 Q)].
              ** intros Q. apply in_run_filter in Q. exact (H3 Q).
        -- intros a [H|H]; [subst a; apply U in Hb; lia|apply P in H; lia].
        -- intros b' H. apply in_run_filter in H. apply U in H. lia.
      * intros j' a H. split; [right; exact H|]. cbn. rewrite mget_cons.
        destruct (R j' a H) as (H1 & _). destruct (Nat.eqb (s_nexta st) a) eqn:Q; [|reflexivity].
        apply Nat.eqb_eq in Q. lia.
    + split; [constructor; assumption|]. intros j' a H. split; [exact H|reflexivity].
Qed.

Lemma srun_private : forall evs st, sinv st ->
  sinv (srun true st evs) /\
  forall j a, In (j, a) (s_resp st) ->
    In (j, a) (s_resp (srun true st evs)) /\ mget (s_mem (srun true st evs)) a = mget (s_mem st) a.
Proof.
  unfold srun. induction evs as [|e evs IH]; intros st H; cbn [fold_left].
  - split; [exact H|]. intros; split; [assumption|reflexivity].
  - destruct (sstep_private st e H) as [H1 H2]. destruct (IH _ H1) as [I1 I2]. split; [exact I1|].
    intros j a Hin. destruct (H2 j a Hin) as [A1 A2]. destruct (I2 j a A1) as [B1 B2].
    split; [exact B1|]. rewrite B2. exact A2.
Qed.

(* the invariant holds after every event sequence of the process *)
Theorem slice_invariant : forall evs, sinv (srun true s_empty evs).
Proof. intros evs. apply (srun_private evs s_empty sinv_empty). Qed.

(* FULL statement: in any reachable state, a request that holds the slice [b] returns; whatever the
   process does afterwards (other requests starting with any pooled slice, writing, returning), its
   response reads what its slice held when it returned *)
Theorem response_items_private : forall before st j b,
  st = srun true s_empty before ->
  aget (s_run st) j = Some b ->
  exists a, aget (s_resp (sstep true st (SReturn j))) j = Some a /\
    forall after, mget (s_mem (srun true (sstep true st (SReturn j)) after)) a = mget (s_mem st) b.
Proof.
  intros before st j b -> E. set (st := srun true s_empty before) in *.
  pose proof (slice_invariant before) as Inv. fold st in Inv.
  destruct (sstep_private st (SReturn j) Inv) as [Inv1 _].
  exists (s_nexta st). cbn [sstep]. rewrite E. cbn [s_resp aget]. rewrite Nat.eqb_refl.
  split; [reflexivity|]. intros after.
  assert (Hin : In (j, s_nexta st) (s_resp (sstep true st (SReturn j))))
    by (cbn [sstep]; rewrite E; left; reflexivity).
  destruct (srun_private after _ Inv1) as [_ K]. destruct (K _ _ Hin) as [_ M].
  cbn [sstep] in M. rewrite E in M. rewrite M. cbn [s_mem]. rewrite mget_cons, Nat.eqb_refl. reflexivity.
Qed.

(* BEFORE the fix (response["items"] = the view into the pooled slice): request 0 writes [201] and
   returns; request 1 starts, gets the slice back from the pool and writes [400]; request 0's response,
   not yet serialised, now reads 400 - for a document that is stored *)
Theorem prefix_response_items_overwritten_refuted : exists before j b after a k,
  let st := srun false s_empty before in
  aget (s_run st) j = Some b /\
  aget (s_resp (sstep false st (SReturn j))) j = Some a /\
  firstn 1 (mget (s_mem st) b) = r_items (handle all_ok w_conc_a) /\
  r_items (handle all_ok w_conc_a) = [201] /\
  count_occ key_dec (r_stored (handle all_ok w_conc_a)) k = 1%nat /\
  firstn 1 (mget (s_mem (srun false (sstep false st (SReturn j)) after)) a) = [400] /\
  slice_response false [201] [[400]] = [400] /\ slice_response true [201] [[400]] = [201].
Proof.
  exists [SStart 0 0; SWrite 0 0 201]%nat, 0%nat, 0%nat, [SStart 1 0; SWrite 1 0 400]%nat, 0%nat, (7, 1).
  vm_compute. repeat split; reflexivity.
Qed.

(* BulkPoolProofs.v — the shared ParsedLogEvent pool (C15): as long as every request of
   the process history puts each object of its PLE array back at most once, the pool
   never holds an object twice, every request (of any protocol) hands the store exactly
   the documents it acknowledged, and a bulk request behaves as in the pool-free model
   [Bulk.handle] whatever ran before it.  One double release in the history refutes it. *)
From Coq Require Import Lia.
From Coq Require Import ZifyN ZifyNat ZifyBool.
From SigM Require Import Base Bulk BulkPool.
From SigP Require Import BaseProofs BulkProofs.
Ltac Zify.zify_post_hook ::= Z.div_mod_to_equations.
Open Scope N_scope.

(* ---------- lists ---------- *)

Lemma insert_at_In k o l x : In x (insert_at k o l) <-> x = o \/ In x l.
Proof.
  revert k. induction l as [|a l IH]; intros [|k]; cbn; try (intuition congruence).
  rewrite IH. intuition congruence.
Qed.

Lemma insert_at_NoDup k o l : NoDup l -> ~ In o l -> NoDup (insert_at k o l).
Proof.
  revert k. induction l as [|a l IH]; intros [|k] Hn Ho; cbn.
  1,2: constructor; [intros []|constructor].
  - constructor; assumption.
  - inversion Hn; subst. constructor.
    + rewrite insert_at_In. intros [E|E]; [subst; apply Ho; now left|contradiction].
    + apply IH; auto. intros E. apply Ho. now right.
Qed.

Lemma nodupb_NoDup l : nodupb l = true <-> NoDup l.
Proof.
  induction l as [|x l IH]; cbn.
  - split; auto. constructor.
  - rewrite Bool.andb_true_iff, Bool.negb_true_iff, IH. split.
    + intros [H1 H2]. constructor; auto. intros Hin.
      assert (existsb (Nat.eqb x) l = true).
      { apply existsb_exists. exists x. split; auto. apply Nat.eqb_refl. }
      congruence.
    + intros H. inversion H; subst. split; auto.
      destruct (existsb (Nat.eqb x) l) eqn:E; auto.
      apply existsb_exists in E. destruct E as (y & Hy & Ey). apply Nat.eqb_eq in Ey. subst. contradiction.
Qed.

Lemma lookup_head o d m : lookup o ((o, d) :: m) = d.
Proof. cbn. now rewrite N.eqb_refl. Qed.

Lemma lookup_other o o' d m : o <> o' -> lookup o' ((o, d) :: m) = lookup o' m.
Proof. intros H. cbn. apply N.eqb_neq in H. now rewrite H. Qed.

(* ---------- step 1: the objects of one request ---------- *)

Lemma acquire_all_cons s d ok ds : acquire_all s ((d, ok) :: ds) =
  let r := acquire_all (snd (acquire s d)) ds in
  (if ok then fst (acquire s d) :: fst r else fst r, snd r).
Proof.
  cbn [acquire_all]. destruct (acquire s d) as [o s1]. cbn [fst snd].
  destruct (acquire_all s1 ds). reflexivity.
Qed.

Lemma acquire_nil s d : p_free s = [] ->
  acquire s d = (p_next s, mkP [] (p_next s + 1) ((p_next s, d) :: p_mem s)).
Proof. intros E. unfold acquire, pool_get. rewrite E. reflexivity. Qed.

Lemma acquire_cons s d o f : p_free s = o :: f ->
  acquire s d = (o, mkP f (p_next s) ((o, d) :: p_mem s)).
Proof. intros E. unfold acquire, pool_get. rewrite E. reflexivity. Qed.

Lemma acquire_all_spec ds : forall s, pool_ok s ->
  let r := acquire_all s ds in
  pool_ok (snd r) /\ p_next s <= p_next (snd r) /\ NoDup (fst r) /\
  (forall o, In o (fst r) ->
     ~ In o (p_free (snd r)) /\ o < p_next (snd r) /\ (In o (p_free s) \/ p_next s <= o)) /\
  (forall o, In o (p_free (snd r)) -> In o (p_free s)) /\
  map (fun o => lookup o (p_mem (snd r))) (fst r) = map fst (filter snd ds) /\
  (forall o, ~ In o (p_free s) -> o < p_next s -> lookup o (p_mem (snd r)) = lookup o (p_mem s)).
Proof.
  induction ds as [|[d ok] ds IH]; intros s [Hnd Hlt].
  - cbn. repeat split; auto; try lia; try constructor.
  - rewrite acquire_all_cons.
    destruct (p_free s) as [|o f] eqn:Ef.
    + (* the pool is empty: New() *)
      rewrite (acquire_nil _ _ Ef). cbv zeta. cbn [fst snd].
      set (s1 := mkP [] (p_next s + 1) ((p_next s, d) :: p_mem s)).
      assert (Ok1 : pool_ok s1) by (split; cbn; constructor).
      specialize (IH s1 Ok1). destruct (acquire_all s1 ds) as [os s2]. cbn [fst snd] in *.
      destruct IH as (I1 & I2 & I3 & I4 & I5 & I6 & I7). cbn [p_next p_free p_mem s1] in *.
      assert (Hfresh : ~ In (p_next s) os).
      { intros Hin. destruct (I4 _ Hin) as (_ & _ & [[]|Hge]). lia. }
      assert (Hlk : lookup (p_next s) (p_mem s2) = d).
      { rewrite I7; [apply lookup_head|intros []|lia]. }
      split; [exact I1|]. split; [lia|]. split; [destruct ok; auto; constructor; auto|].
      split; [|split; [|split]].
      * intros o' H.
        assert (Hos : In o' os -> ~ In o' (p_free s2) /\ o' < p_next s2 /\ (In o' [] \/ p_next s <= o')).
        { intros Hin. destruct (I4 _ Hin) as (A & B & [[]|C]). repeat split; auto. right; lia. }
        assert (Hself : ~ In (p_next s) (p_free s2) /\ p_next s < p_next s2 /\ (In (p_next s) [] \/ p_next s <= p_next s)).
        { repeat split; [intros Hin; apply I5 in Hin; destruct Hin|lia|right; lia]. }
        destruct ok; [destruct H as [<-|H]|]; auto.
      * intros o' Hin. apply I5 in Hin. destruct Hin.
      * destruct ok; cbn [filter snd map fst]; [rewrite Hlk, I6|rewrite I6]; reflexivity.
      * intros o' _ Ho'. rewrite I7; [apply lookup_other; lia|intros []|lia].
    + (* an object of the pool *)
      rewrite (acquire_cons _ _ _ _ Ef). cbv zeta. cbn [fst snd].
      inversion Hnd as [|? ? Hof Hndf]; subst. inversion Hlt as [|? ? Ho Hltf]; subst.
      set (s1 := mkP f (p_next s) ((o, d) :: p_mem s)).
      assert (Ok1 : pool_ok s1) by (split; cbn; assumption).
      specialize (IH s1 Ok1). destruct (acquire_all s1 ds) as [os s2]. cbn [fst snd] in *.
      destruct IH as (I1 & I2 & I3 & I4 & I5 & I6 & I7). cbn [p_next p_free p_mem s1] in *.
      assert (Hfresh : ~ In o os).
      { intros Hin. destruct (I4 _ Hin) as (_ & _ & [Hf|Hge]); [contradiction|lia]. }
      assert (Hlk : lookup o (p_mem s2) = d).
      { rewrite I7; [apply lookup_head|assumption|assumption]. }
      split; [exact I1|]. split; [lia|]. split; [destruct ok; auto; constructor; auto|].
      split; [|split; [|split]].
      * intros o' H.
        assert (Hos : In o' os -> ~ In o' (p_free s2) /\ o' < p_next s2 /\ (In o' (o :: f) \/ p_next s <= o')).
        { intros Hin. destruct (I4 _ Hin) as (A & B & [C|C]); repeat split; auto. left; now right. }
        assert (Hself : ~ In o (p_free s2) /\ o < p_next s2 /\ (In o (o :: f) \/ p_next s <= o)).
        { repeat split; [intros Hin; apply I5 in Hin; contradiction|lia|left; now left]. }
        destruct ok; [destruct H as [<-|H]|]; auto.
      * intros o' Hin. right. now apply I5.
      * destruct ok; cbn [filter snd map fst]; [rewrite Hlk, I6|rewrite I6]; reflexivity.
      * intros o' Hn Ho'. rewrite I7; [apply lookup_other; intros ->; apply Hn; now left| |assumption].
        intros Hin. apply Hn. now right.
Qed.

(* ---------- step 3: putting the objects back ---------- *)

Lemma release_all_ok objs : NoDup objs -> forall rel s,
  NoDup (map fst rel) ->
  NoDup (p_free s) -> Forall (fun o => o < p_next s) (p_free s) ->
  (forall i o, In i (map fst rel) -> nth_error objs i = Some o -> ~ In o (p_free s) /\ o < p_next s) ->
  pool_ok (release_all s objs rel).
Proof.
  intros Hobjs. induction rel as [|[i k] rel IH]; intros s Hr Hnd Hlt Hout.
  - cbn. split; assumption.
  - cbn [release_all fold_left fst snd]. cbn [map fst] in Hr. inversion Hr as [|? ? Hi Hr']; subst.
    destruct (nth_error objs i) as [o|] eqn:En.
    + destruct (Hout i o (or_introl eq_refl) En) as [Hnotin Holt].
      apply IH; auto; cbn [pool_put p_free p_next].
      * apply insert_at_NoDup; auto.
      * apply Forall_forall. intros x Hx. apply insert_at_In in Hx. destruct Hx as [->|Hx]; auto.
        rewrite Forall_forall in Hlt. auto.
      * intros j o' Hj Ej. destruct (Hout j o' (or_intror Hj) Ej) as [A B]. split; auto.
        rewrite insert_at_In. intros [->|C]; [|contradiction].
        assert (i = j).
        { apply (proj1 (NoDup_nth_error objs) Hobjs); [apply nth_error_Some; congruence|congruence]. }
        subst. contradiction.
    + apply IH; auto. intros j o' Hj Ej. apply (Hout j o'); auto. now right.
Qed.

(* ---------- one request ---------- *)

Lemma run_req_spec s q : pool_ok s ->
  fst (run_req s q) = q_accepted q /\
  (disciplined q = true -> pool_ok (snd (run_req s q))).
Proof.
  intros Ok. unfold run_req. pose proof (acquire_all_spec (q_docs q) s Ok) as H.
  destruct (acquire_all s (q_docs q)) as [objs s1]. cbn [fst snd] in *.
  destruct H as ((Hnd & Hlt) & _ & Hobjs & Hin & _ & Hmap & _).
  split; [exact Hmap|].
  intros D. apply release_all_ok; auto.
  - now apply nodupb_NoDup.
  - intros i o _ En. apply nth_error_In in En. destruct (Hin _ En) as (A & B & _). auto.
Qed.

Lemma run_hist_ok h : forall s, forallb disciplined_ev h = true -> pool_ok s -> pool_ok (run_hist s h).
Proof.
  induction h as [|e h IH]; intros s D Ok; [exact Ok|].
  cbn [forallb] in D. apply andb_prop in D. destruct D as [De Dh].
  cbn [run_hist fold_left]. apply IH; auto.
  destruct e as [q|]; cbn [run_ev].
  - apply run_req_spec; auto.
  - split; cbn; constructor.
Qed.

Lemma p_init_ok : pool_ok p_init.
Proof. split; cbn; constructor. Qed.

(* the pool never holds an object twice *)
Theorem pool_discipline_invariant h :
  forallb disciplined_ev h = true -> pool_ok (run_hist p_init h).
Proof. intros D. apply run_hist_ok; auto. apply p_init_ok. Qed.

(* after such a history ANY request hands the store exactly the documents it accepted *)
Theorem request_stores_its_documents h q :
  forallb disciplined_ev h = true ->
  fst (run_req (run_hist p_init h) q) = q_accepted q.
Proof. intros D. apply run_req_spec. now apply pool_discipline_invariant. Qed.

(* ---------- the entry points of the unchanged code are disciplined ---------- *)

Lemma release_once_fst n : map fst (release_once n) = seq 0 n.
Proof. unfold release_once. rewrite map_map. cbn. apply map_id. Qed.

Theorem preq_disciplined p ds : disciplined (preq p ds) = true.
Proof.
  unfold disciplined, preq. cbn [q_release]. destruct p; cbn [proto_release]; try reflexivity.
  all: rewrite release_once_fst; apply nodupb_NoDup, seq_NoDup.
Qed.

(* ---------- the bulk request ---------- *)

Lemma bulk_gets_cons a acts : bulk_gets (a :: acts) = bulk_gets [a] ++ bulk_gets acts.
Proof. unfold bulk_gets. cbn [flat_map]. now rewrite app_nil_r. Qed.

Lemma bulk_gets_accepted acts : map fst (filter snd (bulk_gets acts)) = accepted acts.
Proof.
  unfold accepted. induction acts as [|a acts IH]; [reflexivity|].
  rewrite bulk_gets_cons, filter_app, map_app, IH. cbn [filter].
  destruct a as [l [d|]|l [d|]|l]; cbn [act_ok]; try reflexivity.
  unfold bulk_gets, doc_ok, get_new_ple. cbn [flat_map]. rewrite app_nil_r.
  destruct (l_safe l); cbn [andb]; [|reflexivity].
  destruct (l_len d <? MAX_RECORD_SIZE); destruct (l_len d =? 0); destruct (l_parses d); reflexivity.
Qed.

Lemma bulk_accepted b : q_accepted (bulk_ireq b) = accepted (actions (body_lines b)).
Proof. unfold q_accepted, bulk_ireq, preq. cbn [q_docs]. apply bulk_gets_accepted. Qed.

Lemma loop_ples b : ples (loop b init) = accepted (actions (body_lines b)).
Proof.
  destruct (loop_fold b init) as [p Hp]. rewrite Hp.
  destruct (fold_spec (actions (body_lines b)) init) as (_ & I2 & _).
  destruct (fold_left step (actions (body_lines b)) init). cbn in *. exact I2.
Qed.

(* the documents for which the bulk request obtains an object and keeps it are the loop's allPLEs *)
Theorem bulk_gets_are_allPLEs b : q_accepted (bulk_ireq b) = ples (loop b init).
Proof. now rewrite bulk_accepted, loop_ples. Qed.

(* whatever ran before: same response, same documents in the store *)
Theorem bulk_outcome_independent_of_history h so b :
  forallb disciplined_ev h = true -> handle_after h so b = handle so b.
Proof.
  intros D. unfold handle_after. rewrite request_stores_its_documents by exact D.
  rewrite bulk_accepted, <- handle_stored. destruct (handle so b); reflexivity.
Qed.

Theorem created_iff_stored_after_history h so b :
  forallb disciplined_ev h = true ->
  stores_ok so (actions (body_lines b)) = true ->
  NoDup (flat_map act_doc (actions (body_lines b))) ->
  forall i a st,
    nth_error (actions (body_lines b)) i = Some a ->
    nth_error (r_items (handle_after h so b)) i = Some st ->
    (st = 201 -> exists k, act_doc a = [k] /\ count_occ key_dec (r_stored (handle_after h so b)) k = 1%nat) /\
    (st <> 201 -> forall k, In k (act_doc a) -> count_occ key_dec (r_stored (handle_after h so b)) k = 0%nat).
Proof.
  intros D G N i a st Ha Hs. rewrite bulk_outcome_independent_of_history in * by exact D.
  eapply created_iff_stored_guarded; eauto.
Qed.

(* ---------- without the discipline: one request that releases its object twice ---------- *)

Definition h_double : list hev := [HReq (mkReq [((9, 1), true)] [(0, 0); (0, 0)]%nat)].
Definition w_two : list line := [ln_index 1; ln_doc 1; ln_index 1; ln_doc 2; empty_line].

Theorem double_release_refuted : exists h b k1 k2,
  NoDup (flat_map act_doc (actions (body_lines b))) /\
  r_items (handle_after h all_ok b) = [201; 201] /\
  r_errors (handle_after h all_ok b) = false /\
  In k1 (flat_map act_doc (actions (body_lines b))) /\
  count_occ key_dec (r_stored (handle_after h all_ok b)) k1 = 0%nat /\
  count_occ key_dec (r_stored (handle_after h all_ok b)) k2 = 2%nat.
Proof.
  exists h_double, w_two, (1, 1), (1, 2). vm_compute.
  repeat split; auto.
  constructor; [intros [E|[]]; discriminate|constructor; [intros []|constructor]].
Qed.

(* a history with every entry point and a garbage collection satisfies the guard *)
Definition h_mixed : list hev :=
  [HReq (preq PSplunkHec [((50, 1), true); ((51, 2), true)]);
   HReq (preq PEsDoc [((52, 3), true)]);
   HReq (preq PBulk [((1, 4), true); ((1, 5), false); ((2, 6), true)]);
   HGc;
   HReq (preq PLoki [((53, 7), true)]);
   HReq (preq POtlpLogs [((54, 8), true); ((54, 9), true)]);
   HReq (preq PBulk [((1, 10), false); ((3, 11), true)])].

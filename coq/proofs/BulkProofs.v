(* BulkProofs.v — proofs about the HandleBulkBody model (C15).

   Plan: (1) the ReadLine loop is a fold of a per-action step over the list of
   actions it itemises ([iacts], its own parse of the segments);
   (2) [iacts b] is the grammar's action list of the body, minus the last action
   when that action has no document line (the loop breaks before counting it);
   (3) closed forms of the fold: item statuses, accepted documents, flags;
   (4) the property theorems. *)
From Coq Require Import Lia.
From Coq Require Import ZifyN ZifyNat ZifyBool.
From SigM Require Import Base Bulk.
From SigP Require Import BaseProofs.
Ltac Zify.zify_post_hook ::= Z.div_mod_to_equations.
Open Scope N_scope.

(* ---------- (1) loop = fold of a per-action step ---------- *)

Definition step (s : st) (a : action) : st :=
  emit (match a with
        | AWrite l (Some d) =>
          if l_len d <? MAX_RECORD_SIZE then
            if get_new_ple d then push_ple (l_idx l, l_id d) (set_success true s)
            else set_success false s
          else set_oversize true (set_success false s)
        | _ => set_success false s
        end).

Fixpoint iacts (b : list line) : list action :=
  match b with
  | [] => []
  | a :: rem =>
    if buf_empty rem then [] else
    match extract_action a with
    | INDEX | CREATE =>
      match rem with [] => [] | d :: rem' => AWrite a (Some d) :: iacts rem' end
    | UPDATE =>
      match rem with [] => [] | d :: rem' => AUpdate a (Some d) :: iacts rem' end
    | DELETE => AOther a :: iacts rem
    end
  end.

Lemma setp_id s : set_processed (processed s) s = s.
Proof. destruct s; reflexivity. Qed.

Lemma setp_setp p q s : set_processed p (set_processed q s) = set_processed p s.
Proof. destruct s; reflexivity. Qed.

Lemma emit_setp p s : emit (set_processed p s) = set_processed p (emit s).
Proof. destruct s as [su ov oa al pr it pl]; unfold emit; cbn. destruct su, ov; reflexivity. Qed.

Lemma step_setp p s a : step (set_processed p s) a = set_processed p (step s a).
Proof.
  unfold step. rewrite <- emit_setp. f_equal.
  destruct a as [l [d|]|l [d|]|l]; try (destruct s; reflexivity).
  destruct (l_len d <? MAX_RECORD_SIZE); [destruct (get_new_ple d)|]; destruct s; reflexivity.
Qed.

Lemma fold_setp acts : forall p s,
  fold_left step acts (set_processed p s) = set_processed p (fold_left step acts s).
Proof.
  induction acts as [|a acts IH]; intros p s; cbn [fold_left]; auto.
  rewrite step_setp. apply IH.
Qed.

Lemma emit_write_doc a d s : exists q,
  emit (write_doc (l_idx a) d s) = set_processed q (step s (AWrite a (Some d))).
Proof.
  unfold step, write_doc.
  destruct (l_len d <? MAX_RECORD_SIZE).
  - exists (processed s + 1). rewrite <- emit_setp. f_equal.
    destruct (get_new_ple d); destruct s; reflexivity.
  - exists (processed s). destruct s; reflexivity.
Qed.

Lemma emit_missing_doc a d s : l_len d =? 0 = true ->
  emit (set_success false s) = step s (AWrite a (Some d)).
Proof.
  intros H. unfold step, get_new_ple. rewrite H.
  apply N.eqb_eq in H. rewrite H. reflexivity.
Qed.

Lemma loop_fold_n : forall n b, (length b <= n)%nat -> forall s,
  exists p, loop b s = set_processed p (fold_left step (iacts b) s).
Proof.
  induction n as [|n IH]; intros b Hl s.
  - destruct b; [|cbn in Hl; lia]. exists (processed s). cbn. now rewrite setp_id.
  - destruct b as [|a rem]; [exists (processed s); cbn; now rewrite setp_id|].
    cbn [loop iacts]. cbn [length] in Hl.
    destruct (buf_empty rem) eqn:Eb; [exists (processed s); cbn; now rewrite setp_id|].
    destruct (extract_action a).
    1,2: destruct rem as [|d rem']; [discriminate Eb|]; cbn [length] in Hl;
      (destruct ((l_len d =? 0) && buf_empty rem') eqn:Em;
       [ apply andb_prop in Em; destruct Em as [E0 _];
         rewrite (emit_missing_doc a d s E0);
         destruct (IH rem' ltac:(lia) (step s (AWrite a (Some d)))) as [p Hp];
         exists p; exact Hp
       | destruct (emit_write_doc a d s) as [q Hq]; rewrite Hq;
         destruct (IH rem' ltac:(lia) (set_processed q (step s (AWrite a (Some d))))) as [p Hp];
         exists p; rewrite Hp; cbn [fold_left]; now rewrite fold_setp, setp_setp ]).
    + destruct rem as [|d rem']; [discriminate Eb|]. cbn [length] in Hl.
      destruct (IH rem' ltac:(lia) (emit (set_success false s))) as [p Hp].
      exists p. exact Hp.
    + destruct (IH rem ltac:(lia) (emit (set_success false s))) as [p Hp].
      exists p. exact Hp.
Qed.

Lemma loop_fold b s : exists p, loop b s = set_processed p (fold_left step (iacts b) s).
Proof. apply (loop_fold_n (length b)); lia. Qed.

(* ---------- (2) the loop's parse vs the grammar ---------- *)

Lemma tail_case (x : action) (X I : list action) :
  I = (if ends_with_doc X then X else removelast X) ->
  (X = [] -> has_doc x = true) ->
  x :: I = if ends_with_doc (x :: X) then x :: X else removelast (x :: X).
Proof.
  intros HI HX. destruct X as [|y Y].
  - cbn in HI. subst I. cbn. rewrite HX; auto.
  - subst I.
    change (ends_with_doc (x :: y :: Y)) with (ends_with_doc (y :: Y)).
    change (removelast (x :: y :: Y)) with (x :: removelast (y :: Y)).
    destruct (ends_with_doc (y :: Y)); reflexivity.
Qed.

Lemma actions_cons_nonnil l ls : actions (l :: ls) <> [].
Proof. cbn. destruct (extract_action l); destruct ls; discriminate. Qed.

Lemma single_nodoc l : exists x, actions [l] = [x] /\ has_doc x = false.
Proof.
  cbn. destruct (extract_action l); eexists; split; reflexivity.
Qed.

Lemma iacts_cons a rem : iacts (a :: rem) =
  if buf_empty rem then [] else
  match extract_action a with
  | INDEX | CREATE => match rem with [] => [] | d :: rem' => AWrite a (Some d) :: iacts rem' end
  | UPDATE => match rem with [] => [] | d :: rem' => AUpdate a (Some d) :: iacts rem' end
  | DELETE => AOther a :: iacts rem
  end.
Proof. reflexivity. Qed.

Lemma actions_cons a r : actions (a :: r) =
  match extract_action a with
  | INDEX | CREATE => match r with [] => [AWrite a None] | d :: r' => AWrite a (Some d) :: actions r' end
  | UPDATE => match r with [] => [AUpdate a None] | d :: r' => AUpdate a (Some d) :: actions r' end
  | DELETE => AOther a :: actions r
  end.
Proof. reflexivity. Qed.

Lemma iacts_actions_n : forall n b, (length b <= n)%nat ->
  iacts b = if ends_with_doc (actions (body_lines b)) then actions (body_lines b)
            else removelast (actions (body_lines b)).
Proof.
  induction n as [|n IH]; intros b Hl.
  - destruct b; [reflexivity|cbn in Hl; lia].
  - destruct b as [|a rem]; [reflexivity|]. cbn [length] in Hl.
    destruct rem as [|d rem'].
    + (* one segment, no newline *)
      cbn [iacts buf_empty body_lines].
      destruct (l_len a =? 0); [reflexivity|].
      destruct (single_nodoc a) as (x & Ex & Hx). rewrite Ex. cbn. rewrite Hx. reflexivity.
    + destruct rem' as [|e rem''].
      * (* a \n d *)
        cbn [iacts buf_empty body_lines].
        destruct (l_len d =? 0) eqn:E0.
        { destruct (single_nodoc a) as (x & Ex & Hx). rewrite Ex. cbn. rewrite Hx. reflexivity. }
        cbn [actions].
        destruct (extract_action a); cbn; try reflexivity.
        destruct (extract_action d); reflexivity.
      * (* at least three segments *)
        assert (Hbl : body_lines (a :: d :: e :: rem'') = a :: d :: body_lines (e :: rem'')) by reflexivity.
        rewrite Hbl.
        assert (Hbe : buf_empty (d :: e :: rem'') = false) by reflexivity.
        rewrite (iacts_cons a), Hbe, (actions_cons a).
        cbn [length] in Hl.
        destruct (extract_action a) eqn:Ea; cbv beta iota.
        1,2,3: (apply tail_case; [apply IH; cbn [length]; lia | reflexivity]).
        apply tail_case.
        -- rewrite (IH (d :: e :: rem'')) by (cbn [length]; lia). reflexivity.
        -- intros HX. exfalso. exact (actions_cons_nonnil _ _ HX).
Qed.

Lemma iacts_actions b :
  iacts b = if ends_with_doc (actions (body_lines b)) then actions (body_lines b)
            else removelast (actions (body_lines b)).
Proof. apply (iacts_actions_n (length b)); lia. Qed.

(* ---------- (3) closed forms of the fold ---------- *)

(* the status the code gives each action, [ov] = maxRecordSizeExceeded so far *)
Fixpoint statuses (ov : bool) (acts : list action) : list N :=
  match acts with
  | [] => []
  | a :: r =>
    let ov' := ov || act_oversize a in
    (if act_ok a then 201 else if ov' then 413 else 400) :: statuses ov' r
  end.

Definition accepted (acts : list action) : list (N * N) :=
  flat_map act_doc (filter act_ok acts).

Lemma leb_ltb x y : (y <=? x) = negb (x <? y).
Proof. apply N.leb_antisym. Qed.

Lemma step_spec s a :
  let ov' := oversize s || act_oversize a in
  let stt := if act_ok a then 201 else if ov' then 413 else 400 in
  items (step s a) = items s ++ [stt] /\
  ples (step s a) = ples s ++ (if act_ok a then act_doc a else []) /\
  oversize (step s a) = ov' /\
  overall (step s a) = overall s || (stt =? 400) /\
  atleast (step s a) = atleast s || (stt =? 201).
Proof.
  destruct s as [su ov oa al pr it pl].
  destruct a as [l [d|]|l [d|]|l]; unfold step, emit, act_ok, act_oversize, act_doc, doc_ok, get_new_ple;
    cbn [success oversize overall atleast items ples set_success set_oversize set_overall set_atleast push_item push_ple negb].
  2,3,4,5: rewrite Bool.orb_false_r; destruct ov; cbn; rewrite ?app_nil_r, ?Bool.orb_true_r, ?Bool.orb_false_r; auto.
  rewrite leb_ltb.
  destruct (l_len d <? MAX_RECORD_SIZE); destruct (l_len d =? 0); destruct (l_parses d); destruct ov;
    cbn; rewrite ?app_nil_r, ?Bool.orb_true_r, ?Bool.orb_false_r; auto.
Qed.

Lemma fold_spec acts : forall s,
  let s' := fold_left step acts s in
  items s' = items s ++ statuses (oversize s) acts /\
  ples s' = ples s ++ accepted acts /\
  overall s' = overall s || existsb (N.eqb 400) (statuses (oversize s) acts) /\
  atleast s' = atleast s || existsb (N.eqb 201) (statuses (oversize s) acts).
Proof.
  induction acts as [|a acts IH]; intros s.
  - cbn. rewrite !app_nil_r, !Bool.orb_false_r. auto.
  - cbn [fold_left]. destruct (IH (step s a)) as (I1 & I2 & I3 & I4).
    destruct (step_spec s a) as (S1 & S2 & S3 & S4 & S5).
    cbv zeta. rewrite I1, I2, I3, I4, S1, S2, S3, S4, S5.
    cbn [statuses existsb]. unfold accepted. cbn [filter].
    rewrite <- !app_assoc. cbn [app].
    repeat split.
    + destruct (act_ok a); cbn [flat_map app]; rewrite <- ?app_assoc; reflexivity.
    + rewrite Bool.orb_assoc. f_equal. f_equal. apply N.eqb_sym.
    + rewrite Bool.orb_assoc. f_equal. f_equal. apply N.eqb_sym.
Qed.

Section Handle.
Variable store_ok : N -> bool.
Variable b : list line.

Lemma handle_items : r_items (handle store_ok b) = statuses false (iacts b).
Proof.
  unfold handle. destruct (loop_fold b init) as [p Hp]. rewrite Hp. cbn [r_items].
  destruct (fold_spec (iacts b) init) as (I1 & _).
  destruct (fold_left step (iacts b) init) eqn:E. cbn in *. exact I1.
Qed.

Lemma handle_errors : r_errors (handle store_ok b) = existsb (N.eqb 400) (statuses false (iacts b)).
Proof.
  unfold handle. destruct (loop_fold b init) as [p Hp]. rewrite Hp. cbn [r_errors].
  destruct (fold_spec (iacts b) init) as (_ & _ & I3 & _).
  destruct (fold_left step (iacts b) init) eqn:E. cbn in *. exact I3.
Qed.

Lemma handle_allfailed : r_allfailed (handle store_ok b) = negb (existsb (N.eqb 201) (statuses false (iacts b))).
Proof.
  unfold handle. destruct (loop_fold b init) as [p Hp]. rewrite Hp. cbn [r_allfailed].
  destruct (fold_spec (iacts b) init) as (_ & _ & _ & I4).
  destruct (fold_left step (iacts b) init) eqn:E. cbn in *. now rewrite I4.
Qed.

Lemma handle_stored : r_stored (handle store_ok b) = filter (fun p => store_ok (fst p)) (accepted (iacts b)).
Proof.
  unfold handle. destruct (loop_fold b init) as [p Hp]. rewrite Hp. cbn [r_stored].
  destruct (fold_spec (iacts b) init) as (_ & I2 & _).
  destruct (fold_left step (iacts b) init) eqn:E. cbn in *. now rewrite I2.
Qed.
End Handle.

(* ---------- list facts ---------- *)

Lemma statuses_length acts : forall ov, length (statuses ov acts) = length acts.
Proof. induction acts; intros ov; cbn; auto. Qed.

Lemma removelast_len {A} (l : list A) : l <> [] -> S (length (removelast l)) = length l.
Proof.
  intros H. destruct (exists_last H) as (l' & x & E). subst l.
  rewrite removelast_last, app_length. cbn. lia.
Qed.

Lemma removelast_nth {A} (l : list A) : forall i x,
  nth_error (removelast l) i = Some x -> nth_error l i = Some x.
Proof.
  induction l as [|y l IH]; intros i x H; [destruct i; discriminate|].
  destruct l as [|z l]; [destruct i; discriminate|].
  change (removelast (y :: z :: l)) with (y :: removelast (z :: l)) in H.
  destruct i; cbn in *; auto.
Qed.

Lemma ends_false_filter acts : ends_with_doc acts = false ->
  filter act_ok (removelast acts) = filter act_ok acts.
Proof.
  induction acts as [|a acts IH]; intros H; [discriminate|].
  destruct acts as [|a' acts].
  - cbn in H. cbn. destruct a as [l [d|]|l [d|]|l]; cbn in *; try discriminate; reflexivity.
  - change (removelast (a :: a' :: acts)) with (a :: removelast (a' :: acts)).
    cbn [filter]. rewrite IH; auto.
Qed.

Lemma forallb_removelast {A} (f : A -> bool) l : forallb f l = true -> forallb f (removelast l) = true.
Proof.
  induction l as [|x l IH]; intros H; auto.
  destruct l as [|y l]; auto.
  change (removelast (x :: y :: l)) with (x :: removelast (y :: l)).
  cbn [forallb] in *. apply andb_prop in H. destruct H as [H1 H2].
  rewrite H1. cbn. apply IH. exact H2.
Qed.

Lemma statuses_nth acts : forall ov i st, nth_error (statuses ov acts) i = Some st ->
  exists a, nth_error acts i = Some a /\ created st = act_ok a.
Proof.
  induction acts as [|a acts IH]; intros ov i st H; [destruct i; discriminate|].
  destruct i; cbn in H.
  - exists a. split; auto. inversion H. unfold created.
    destruct (act_ok a); auto. destruct (ov || act_oversize a); reflexivity.
  - apply IH in H. exact H.
Qed.

Lemma statuses_clean acts : no_oversize acts = true ->
  statuses false acts = map expected_status acts.
Proof.
  induction acts as [|a acts IH]; intros H; auto.
  cbn [no_oversize forallb] in H. apply andb_prop in H. destruct H as [H1 H2].
  apply Bool.negb_true_iff in H1.
  cbn [statuses map]. rewrite H1. cbn [orb]. unfold expected_status at 1. rewrite H1.
  f_equal. apply IH. exact H2.
Qed.

(* the item list the code produces, relative to the grammar's actions *)
Definition itemised (A : list action) : list action :=
  if ends_with_doc A then A else removelast A.

Lemma itemised_nth A i a : nth_error (itemised A) i = Some a -> nth_error A i = Some a.
Proof. unfold itemised. destruct (ends_with_doc A); auto. apply removelast_nth. Qed.

Lemma itemised_no_oversize A : no_oversize A = true -> no_oversize (itemised A) = true.
Proof. unfold itemised. destruct (ends_with_doc A); auto. apply forallb_removelast. Qed.

Lemma itemised_accepted A : accepted (itemised A) = accepted A.
Proof.
  unfold itemised, accepted. destruct (ends_with_doc A) eqn:E; auto.
  now rewrite ends_false_filter.
Qed.

(* ---------- (4) the property theorems ---------- *)

Section Props.
Variable store_ok : N -> bool.
Variable b : list line.
Let A := actions (body_lines b).
Let r := handle store_ok b.

Lemma items_eq : r_items r = statuses false (itemised A).
Proof. unfold r, A, itemised. rewrite handle_items, iacts_actions. reflexivity. Qed.

(* one item per action, exactly when the body does not end with a document-less action *)
Theorem one_item_per_action_exact :
  length (r_items r) = length A <-> ends_with_doc A = true.
Proof.
  rewrite items_eq, statuses_length. unfold itemised.
  destruct (ends_with_doc A) eqn:E.
  - split; auto.
  - split; [|discriminate]. intros H.
    assert (A <> []) by (intros Z; rewrite Z in E; discriminate).
    pose proof (removelast_len A H0). lia.
Qed.

Theorem one_item_per_action_guarded :
  ends_with_doc A = true -> length (r_items r) = length A.
Proof. apply one_item_per_action_exact. Qed.

(* without the guard exactly the last action has no item *)
Theorem trailing_action_dropped :
  ends_with_doc A = false -> S (length (r_items r)) = length A.
Proof.
  intros E. rewrite items_eq, statuses_length. unfold itemised. rewrite E.
  apply removelast_len. intros Z; rewrite Z in E; discriminate.
Qed.

(* an item says "created" iff its own action is a well-formed write — for every body *)
Theorem success_is_local : forall i a st,
  nth_error A i = Some a -> nth_error (r_items r) i = Some st ->
  created st = act_ok a.
Proof.
  intros i a st Ha Hs. rewrite items_eq in Hs.
  apply statuses_nth in Hs. destruct Hs as (a' & Ha' & E).
  apply itemised_nth in Ha'. rewrite Ha in Ha'. inversion Ha'. subst a'. exact E.
Qed.

(* exact status of every item is a function of its own action, when nothing is oversize *)
Theorem failure_is_local_guarded : no_oversize A = true ->
  forall i a st, nth_error A i = Some a -> nth_error (r_items r) i = Some st ->
  st = expected_status a.
Proof.
  intros G i a st Ha Hs. rewrite items_eq in Hs.
  rewrite statuses_clean in Hs by (apply itemised_no_oversize; exact G).
  rewrite nth_error_map in Hs.
  destruct (nth_error (itemised A) i) eqn:E; [|discriminate].
  apply itemised_nth in E. rewrite Ha in E. inversion E. subst. cbn in Hs. now inversion Hs.
Qed.

(* the store holds exactly the documents of the well-formed writes whose index accepts them *)
Theorem stored_eq :
  r_stored r = filter (fun p => store_ok (fst p)) (accepted A).
Proof. unfold r, A. rewrite handle_stored, iacts_actions. fold (itemised (actions (body_lines b))). now rewrite itemised_accepted. Qed.

Lemma filter_all_ok acts : stores_ok store_ok acts = true ->
  filter (fun p => store_ok (fst p)) (accepted acts) = accepted acts.
Proof.
  unfold accepted, stores_ok.
  induction acts as [|a acts IH]; intros H; auto.
  cbn [forallb] in H. apply andb_prop in H. destruct H as [H1 H2].
  cbn [filter]. destruct (act_ok a) eqn:E; [|auto].
  cbn [flat_map]. rewrite filter_app, IH by exact H2.
  f_equal. destruct a as [l [d|]|l [d|]|l]; cbn in *; try discriminate.
  rewrite H1. reflexivity.
Qed.

Theorem stored_are_created_docs : stores_ok store_ok A = true ->
  r_stored r = accepted A.
Proof. intros G. rewrite stored_eq. apply filter_all_ok. exact G. Qed.

(* errors flag: exact meaning for every body *)
Theorem errors_flag_iff_some_400 : r_errors r = true <-> In 400 (r_items r).
Proof.
  unfold r. rewrite handle_errors, handle_items.
  rewrite existsb_exists. split.
  - intros (x & Hx & E). apply N.eqb_eq in E. subst x. exact Hx.
  - intros H. exists 400. split; auto.
Qed.

Lemma clean_400 acts : no_oversize acts = true ->
  existsb (N.eqb 400) (statuses false acts) = existsb (fun st => negb (created st)) (statuses false acts).
Proof.
  intros G. rewrite statuses_clean by exact G.
  induction acts as [|a acts IH]; auto.
  cbn [no_oversize forallb] in G. apply andb_prop in G. destruct G as [G1 G2].
  apply Bool.negb_true_iff in G1.
  cbn [map existsb]. rewrite IH by exact G2. f_equal.
  unfold expected_status, created. rewrite G1. destruct (act_ok a); reflexivity.
Qed.

Theorem errors_flag_iff_some_failed_guarded : no_oversize A = true ->
  (r_errors r = true <-> exists st, In st (r_items r) /\ st <> 201).
Proof.
  intros G.
  assert (E : r_errors r = existsb (fun st => negb (created st)) (r_items r)).
  { rewrite items_eq. unfold r. rewrite handle_errors, iacts_actions. fold (itemised A).
    apply clean_400. apply itemised_no_oversize. exact G. }
  rewrite E, existsb_exists. unfold created. split.
  - intros (x & Hx & Hn). exists x. split; auto. apply Bool.negb_true_iff, N.eqb_neq in Hn. exact Hn.
  - intros (x & Hx & Hn). exists x. split; auto. apply Bool.negb_true_iff, N.eqb_neq. exact Hn.
Qed.

Theorem all_failed_iff_no_created : r_allfailed r = true <-> ~ In 201 (r_items r).
Proof.
  unfold r. rewrite handle_allfailed, handle_items, Bool.negb_true_iff.
  split.
  - intros H Hin. assert (existsb (N.eqb 201) (statuses false (iacts b)) = true).
    { apply existsb_exists. exists 201. split; auto. }
    congruence.
  - intros H. destruct (existsb (N.eqb 201) (statuses false (iacts b))) eqn:E; auto.
    apply existsb_exists in E. destruct E as (x & Hx & Ex). apply N.eqb_eq in Ex. subst x. contradiction.
Qed.
End Props.

(* ---------- created iff searchable exactly once ---------- *)

Definition key_dec : forall x y : N * N, {x = y} + {x <> y}.
Proof. decide equality; apply N.eq_dec. Defined.

Lemma NoDup_app_inv {T} (u v : list T) : NoDup (u ++ v) ->
  NoDup u /\ NoDup v /\ (forall x, In x u -> ~ In x v).
Proof.
  induction u as [|x u IH]; cbn; intros H.
  - repeat split; auto. constructor.
  - inversion H as [|? ? Hn Hd]; subst. destruct (IH Hd) as (U & V & D).
    repeat split; auto.
    + constructor; auto. intros Hi. apply Hn. apply in_or_app. now left.
    + intros y [Hy|Hy] Hv.
      * subst y. apply Hn. apply in_or_app. now right.
      * exact (D y Hy Hv).
Qed.

Lemma NoDup_app_intro {T} (u v : list T) :
  NoDup u -> NoDup v -> (forall x, In x u -> ~ In x v) -> NoDup (u ++ v).
Proof.
  induction u as [|x u IH]; cbn; intros U V D; auto.
  inversion U; subst. constructor.
  - intros Hi. apply in_app_or in Hi. destruct Hi as [Hi|Hi]; auto. apply (D x); auto.
  - apply IH; auto.
Qed.

Lemma accepted_incl acts k : In k (accepted acts) -> In k (flat_map act_doc acts).
Proof.
  unfold accepted. rewrite !in_flat_map. intros (a & Ha & Hk).
  apply filter_In in Ha. destruct Ha as [Ha _]. exists a. auto.
Qed.

Lemma accepted_NoDup acts : NoDup (flat_map act_doc acts) -> NoDup (accepted acts).
Proof.
  unfold accepted.
  induction acts as [|a acts IH]; cbn [flat_map filter]; intros H; [constructor|].
  apply NoDup_app_inv in H. destruct H as (U & V & D).
  destruct (act_ok a); auto.
  cbn [flat_map]. apply NoDup_app_intro; auto.
  intros x Hx Hin. apply (D x Hx). apply accepted_incl. exact Hin.
Qed.

Lemma doc_owner acts : NoDup (flat_map act_doc acts) ->
  forall i j a a' k, nth_error acts i = Some a -> nth_error acts j = Some a' ->
  In k (act_doc a) -> In k (act_doc a') -> i = j.
Proof.
  induction acts as [|x acts IH]; intros H i j a a' k Hi Hj Ka Ka'; [destruct i; discriminate|].
  cbn [flat_map] in H. apply NoDup_app_inv in H. destruct H as (U & V & D).
  destruct i, j; cbn in Hi, Hj; auto.
  - inversion Hi; subst. exfalso. apply (D k Ka). apply in_flat_map. exists a'. split; auto.
    eapply nth_error_In; eauto.
  - inversion Hj; subst. exfalso. apply (D k Ka'). apply in_flat_map. exists a. split; auto.
    eapply nth_error_In; eauto.
  - f_equal. eapply IH; eauto.
Qed.

Section Once.
Variable store_ok : N -> bool.
Variable b : list line.
Let A := actions (body_lines b).
Let r := handle store_ok b.

Theorem created_iff_stored_guarded :
  stores_ok store_ok A = true ->
  NoDup (flat_map act_doc A) ->
  forall i a st, nth_error A i = Some a -> nth_error (r_items r) i = Some st ->
    (st = 201 -> exists k, act_doc a = [k] /\ count_occ key_dec (r_stored r) k = 1%nat) /\
    (st <> 201 -> forall k, In k (act_doc a) -> count_occ key_dec (r_stored r) k = 0%nat).
Proof.
  intros G ND i a st Ha Hs.
  pose proof (success_is_local store_ok b i a st Ha Hs) as L.
  pose proof (stored_are_created_docs store_ok b G) as S. fold r A in S.
  split.
  - intros E. subst st. cbn in L. symmetry in L.
    destruct a as [l [d|]|l [d|]|l]; cbn in L; try discriminate.
    exists (l_idx l, l_id d). split; [reflexivity|].
    rewrite S. apply NoDup_count_occ'; [apply accepted_NoDup; exact ND|].
    unfold accepted. apply in_flat_map. exists (AWrite l (Some d)). split.
    + apply filter_In. split; [eapply nth_error_In; eauto|exact L].
    + cbn. auto.
  - intros Hn k Hk. rewrite S. apply count_occ_not_In.
    intros Hin. unfold accepted in Hin. apply in_flat_map in Hin. destruct Hin as (a' & Ha' & Hk').
    apply filter_In in Ha'. destruct Ha' as [Ha' Ok'].
    apply In_nth_error in Ha'. destruct Ha' as [j Hj].
    assert (i = j) by (eapply doc_owner; eauto). subst j.
    rewrite Ha in Hj. inversion Hj. subst a'.
    unfold created in L. rewrite Ok' in L. apply N.eqb_eq in L. contradiction.
Qed.
End Once.

(* ---------- witnesses of the refuted full statements (checked by vm_compute) ---------- *)

Definition ln_index (idx : N) : line := mkLine 24 KIndex idx false 0.
Definition ln_delete : line := mkLine 25 KDelete 1 false 0.
Definition ln_doc (id : N) : line := mkLine 40 KUnknown 0 true id.
Definition ln_bad : line := mkLine 9 KBadJson 0 false 0.
Definition ln_big (id : N) : line := mkLine 63000 KUnknown 0 true id.
Definition all_ok (_ : N) : bool := true.
Definition none_ok (_ : N) : bool := false.

(* {"delete":{..}}\n *)
Definition w_trailing : list line := [ln_delete; empty_line].
(* index, oversize doc *)
Definition w_errors : list line := [ln_index 1; ln_big 1; empty_line].
(* index+oversize, index+invalid JSON, index+valid *)
Definition w_sticky : list line := [ln_index 1; ln_big 1; ln_index 1; ln_bad; ln_index 1; ln_doc 3; empty_line].
(* index+valid into an index whose store call fails *)
Definition w_store : list line := [ln_index 1; ln_doc 1; empty_line].

Theorem one_item_per_action_refuted : exists b,
  length (r_items (handle all_ok b)) <> length (actions (body_lines b)).
Proof. exists w_trailing. vm_compute. discriminate. Qed.

Theorem errors_flag_iff_some_failed_refuted : exists b,
  r_errors (handle all_ok b) = false /\ exists st, In st (r_items (handle all_ok b)) /\ st <> 201.
Proof. exists w_errors. vm_compute. split; [reflexivity|]. exists 413. split; [now left|discriminate]. Qed.

Theorem failure_is_local_refuted : exists b i a st,
  nth_error (actions (body_lines b)) i = Some a /\
  nth_error (r_items (handle all_ok b)) i = Some st /\ st <> expected_status a.
Proof.
  exists w_sticky, 1%nat, (AWrite (ln_index 1) (Some ln_bad)), 413.
  vm_compute. repeat split; discriminate.
Qed.

Theorem created_iff_stored_refuted : exists store_ok b i a k,
  nth_error (actions (body_lines b)) i = Some a /\
  nth_error (r_items (handle store_ok b)) i = Some 201 /\
  In k (act_doc a) /\ count_occ key_dec (r_stored (handle store_ok b)) k = 0%nat.
Proof.
  exists none_ok, w_store, 0%nat, (AWrite (ln_index 1) (Some (ln_doc 1))), (1, 1).
  vm_compute. repeat split. now left.
Qed.

(* the guards are satisfiable by bodies that exercise every branch *)
Definition w_good : list line :=
  [ln_index 1; ln_doc 1; ln_delete; ln_index 2; ln_bad; ln_index 2; ln_doc 2].

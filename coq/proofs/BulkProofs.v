(* BulkProofs.v — proofs about the HandleBulkBody model (C15), code after the fix
   "bulk response accounting".

   Plan: (1) the ReadLine loop is a fold of a per-action step over the grammar's
   action list of the body, [actions (body_lines b)] (up to processedCount);
   (2) closed forms of the fold: item statuses, accepted documents, flags;
   (3) the property theorems; (4) witnesses against the pre-fix code. *)
From Coq Require Import Lia.
From Coq Require Import ZifyN ZifyNat ZifyBool.
From SigM Require Import Base Bulk.
From SigP Require Import BaseProofs.
Ltac Zify.zify_post_hook ::= Z.div_mod_to_equations.
Open Scope N_scope.

(* ---------- (1) loop = fold of a per-action step ---------- *)

Definition step (s : st) (a : action) : st :=
  let s0 := set_oversize false s in
  emit (match a with
        | AWrite l (Some d) =>
          if negb (l_safe l) then set_success false s0 else
          if l_len d <? MAX_RECORD_SIZE then
            if get_new_ple d then push_ple (l_idx l, l_id d) (set_success true s0)
            else set_success false s0
          else set_oversize true (set_success false s0)
        | _ => set_success false s0
        end).

Lemma setp_id s : set_processed (processed s) s = s.
Proof. destruct s; reflexivity. Qed.

Lemma setp_setp p q s : set_processed p (set_processed q s) = set_processed p s.
Proof. destruct s; reflexivity. Qed.

Lemma emit_setp p s : emit (set_processed p s) = set_processed p (emit s).
Proof. destruct s as [su ov oa al pr it pl]; unfold emit; cbn. destruct su, ov; reflexivity. Qed.

Lemma step_setp p s a : step (set_processed p s) a = set_processed p (step s a).
Proof.
  unfold step. rewrite <- emit_setp. f_equal.
  destruct a as [l [d|]|l [d|]|l]; try (destruct s; reflexivity).
  destruct (l_safe l); cbn [negb]; [|destruct s; reflexivity].
  destruct (l_len d <? MAX_RECORD_SIZE); [destruct (get_new_ple d)|]; destruct s; reflexivity.
Qed.

Lemma fold_setp acts : forall p s,
  fold_left step acts (set_processed p s) = set_processed p (fold_left step acts s).
Proof.
  induction acts as [|a acts IH]; intros p s; cbn [fold_left]; auto.
  rewrite step_setp. apply IH.
Qed.

Lemma emit_write_doc a d s : exists q,
  (if negb (l_safe a) then emit (set_success false (set_oversize false s))
   else emit (write_doc (l_idx a) d (set_oversize false s)))
  = set_processed q (step s (AWrite a (Some d))).
Proof.
  unfold step, write_doc.
  destruct (l_safe a); cbn [negb]; [|exists (processed s); destruct s; reflexivity].
  destruct (l_len d <? MAX_RECORD_SIZE).
  - exists (processed s + 1). rewrite <- emit_setp. f_equal.
    destruct (get_new_ple d); destruct s; reflexivity.
  - exists (processed s). destruct s; reflexivity.
Qed.

Lemma buf_empty_lines r : buf_empty r = true -> body_lines r = [].
Proof.
  destruct r as [|e [|x r]]; cbn; intros H; auto; [|discriminate].
  rewrite H. reflexivity.
Qed.

Lemma body_lines_cons l r : (l_len l =? 0) && buf_empty r = false ->
  body_lines (l :: r) = l :: body_lines r.
Proof. intros H. cbn [body_lines]. rewrite H. reflexivity. Qed.

Lemma actions_cons a r : actions (a :: r) =
  match extract_action a with
  | INDEX | CREATE => match r with [] => [AWrite a None] | d :: r' => AWrite a (Some d) :: actions r' end
  | UPDATE => match r with [] => [AUpdate a None] | d :: r' => AUpdate a (Some d) :: actions r' end
  | DELETE => AOther a :: actions r
  end.
Proof. reflexivity. Qed.

Lemma loop_cons a rem s : loop (a :: rem) s =
  if (l_len a =? 0) && buf_empty rem then s else
  let s0 := set_oversize false s in
  match extract_action a with
  | INDEX | CREATE =>
    match rem with
    | [] => emit (set_success false s0)
    | d :: rem' =>
      if (l_len d =? 0) && buf_empty rem'
      then loop rem' (emit (set_success false s0))
      else if negb (l_safe a)
      then loop rem' (emit (set_success false s0))
      else loop rem' (emit (write_doc (l_idx a) d s0))
    end
  | UPDATE =>
    match rem with
    | [] => emit (set_success false s0)
    | _ :: rem' => loop rem' (emit (set_success false s0))
    end
  | DELETE => loop rem (emit (set_success false s0))
  end.
Proof. reflexivity. Qed.

Lemma loop_fold_n : forall n b, (length b <= n)%nat -> forall s,
  exists p, loop b s = set_processed p (fold_left step (actions (body_lines b)) s).
Proof.
  induction n as [|n IH]; intros b Hl s.
  - destruct b; [|cbn in Hl; lia]. exists (processed s). destruct s; reflexivity.
  - destruct b as [|a rem]; [exists (processed s); destruct s; reflexivity|].
    rewrite loop_cons. cbn [length] in Hl.
    destruct ((l_len a =? 0) && buf_empty rem) eqn:Eb.
    { cbn [body_lines]. rewrite Eb. exists (processed s). destruct s; reflexivity. }
    rewrite (body_lines_cons _ _ Eb), actions_cons. cbv zeta.
    destruct (extract_action a).
    1,2: (destruct rem as [|d rem'];
      [ exists (processed s); destruct s; reflexivity
      | cbn [length] in Hl;
        destruct ((l_len d =? 0) && buf_empty rem') eqn:Em;
        [ cbn [body_lines]; rewrite Em;
          apply andb_prop in Em; destruct Em as [_ Er];
          destruct (IH rem' ltac:(lia) (emit (set_success false (set_oversize false s)))) as [p Hp];
          exists p; rewrite Hp, (buf_empty_lines _ Er); reflexivity
        | rewrite (body_lines_cons _ _ Em);
          destruct (emit_write_doc a d s) as [q Hq];
          destruct (l_safe a); cbn [negb] in Hq |- *; rewrite Hq;
          destruct (IH rem' ltac:(lia) (set_processed q (step s (AWrite a (Some d))))) as [p Hp];
          exists p; rewrite Hp; cbn [fold_left]; now rewrite fold_setp, setp_setp ] ]).
    + destruct rem as [|d rem'];
        [ exists (processed s); destruct s; reflexivity |].
      cbn [length] in Hl.
      destruct ((l_len d =? 0) && buf_empty rem') eqn:Em.
      * cbn [body_lines]. rewrite Em.
        apply andb_prop in Em. destruct Em as [_ Er].
        destruct (IH rem' ltac:(lia) (emit (set_success false (set_oversize false s)))) as [p Hp].
        exists p. rewrite Hp, (buf_empty_lines _ Er). reflexivity.
      * rewrite (body_lines_cons _ _ Em).
        destruct (IH rem' ltac:(lia) (emit (set_success false (set_oversize false s)))) as [p Hp].
        exists p. exact Hp.
    + destruct (IH rem ltac:(lia) (emit (set_success false (set_oversize false s)))) as [p Hp].
      exists p. exact Hp.
Qed.

Lemma loop_fold b s : exists p, loop b s = set_processed p (fold_left step (actions (body_lines b)) s).
Proof. apply (loop_fold_n (length b)); lia. Qed.

(* ---------- (2) closed forms of the fold ---------- *)

Definition accepted (acts : list action) : list (N * N) :=
  flat_map act_doc (filter act_ok acts).

Lemma leb_ltb x y : (y <=? x) = negb (x <? y).
Proof. apply N.leb_antisym. Qed.

Lemma step_spec s a :
  items (step s a) = items s ++ [expected_status a] /\
  ples (step s a) = ples s ++ (if act_ok a then act_doc a else []) /\
  overall (step s a) = overall s || negb (act_ok a) /\
  atleast (step s a) = atleast s || act_ok a.
Proof.
  destruct s as [su ov oa al pr it pl].
  destruct a as [l [d|]|l [d|]|l]; unfold step, emit, expected_status, act_ok, act_oversize, act_doc, doc_ok, get_new_ple;
    cbn [success oversize overall atleast items ples set_success set_oversize set_overall set_atleast push_item push_ple negb].
  2,3,4,5: cbn; rewrite ?app_nil_r, ?Bool.orb_true_r, ?Bool.orb_false_r; auto.
  rewrite leb_ltb.
  destruct (l_safe l); cbn [negb andb]; [|cbn; rewrite ?app_nil_r, ?Bool.orb_true_r, ?Bool.orb_false_r; auto].
  destruct (l_len d <? MAX_RECORD_SIZE); destruct (l_len d =? 0); destruct (l_parses d);
    cbn; rewrite ?app_nil_r, ?Bool.orb_true_r, ?Bool.orb_false_r; auto.
Qed.

Lemma fold_spec acts : forall s,
  let s' := fold_left step acts s in
  items s' = items s ++ map expected_status acts /\
  ples s' = ples s ++ accepted acts /\
  overall s' = overall s || existsb (fun a => negb (act_ok a)) acts /\
  atleast s' = atleast s || existsb act_ok acts.
Proof.
  induction acts as [|a acts IH]; intros s.
  - cbn. rewrite !app_nil_r, !Bool.orb_false_r. auto.
  - cbn [fold_left]. destruct (IH (step s a)) as (I1 & I2 & I3 & I4).
    destruct (step_spec s a) as (S1 & S2 & S3 & S4).
    cbv zeta. rewrite I1, I2, I3, I4, S1, S2, S3, S4.
    cbn [map existsb]. unfold accepted. cbn [filter].
    rewrite <- !app_assoc. cbn [app].
    repeat split.
    + destruct (act_ok a); cbn [flat_map app]; rewrite <- ?app_assoc; reflexivity.
    + now rewrite Bool.orb_assoc.
    + now rewrite Bool.orb_assoc.
Qed.

Section Handle.
Variable store_ok : N -> bool.
Variable b : list line.
Let A := actions (body_lines b).

Lemma handle_items : r_items (handle store_ok b) = map expected_status A.
Proof.
  unfold handle. destruct (loop_fold b init) as [p Hp]. rewrite Hp. cbn [r_items].
  destruct (fold_spec A init) as (I1 & _). fold A.
  destruct (fold_left step A init) eqn:E. cbn in *. exact I1.
Qed.

Lemma handle_errors : r_errors (handle store_ok b) = existsb (fun a => negb (act_ok a)) A.
Proof.
  unfold handle. destruct (loop_fold b init) as [p Hp]. rewrite Hp. cbn [r_errors].
  destruct (fold_spec A init) as (_ & _ & I3 & _). fold A.
  destruct (fold_left step A init) eqn:E. cbn in *. exact I3.
Qed.

Lemma handle_allfailed : r_allfailed (handle store_ok b) = negb (existsb act_ok A).
Proof.
  unfold handle. destruct (loop_fold b init) as [p Hp]. rewrite Hp. cbn [r_allfailed].
  destruct (fold_spec A init) as (_ & _ & _ & I4). fold A.
  destruct (fold_left step A init) eqn:E. cbn in *. now rewrite I4.
Qed.

Lemma handle_stored : r_stored (handle store_ok b) = filter (fun p => store_ok (fst p)) (accepted A).
Proof.
  unfold handle. destruct (loop_fold b init) as [p Hp]. rewrite Hp. cbn [r_stored].
  destruct (fold_spec A init) as (_ & I2 & _). fold A.
  destruct (fold_left step A init) eqn:E. cbn in *. now rewrite I2.
Qed.
End Handle.

Lemma expected_created a : created (expected_status a) = act_ok a.
Proof. unfold expected_status, created. destruct (act_ok a); auto. destruct (act_oversize a); reflexivity. Qed.

(* ---------- (3) the property theorems ---------- *)

Section Props.
Variable store_ok : N -> bool.
Variable b : list line.
Let A := actions (body_lines b).
Let r := handle store_ok b.

(* the items are, in request order, what each action deserves on its own *)
Theorem items_are_expected : r_items r = map expected_status A.
Proof. apply handle_items. Qed.

Theorem one_item_per_action : length (r_items r) = length A.
Proof. rewrite items_are_expected. apply map_length. Qed.

Theorem failure_is_local : forall i a st,
  nth_error A i = Some a -> nth_error (r_items r) i = Some st -> st = expected_status a.
Proof.
  intros i a st Ha Hs. rewrite items_are_expected, nth_error_map, Ha in Hs.
  cbn in Hs. now inversion Hs.
Qed.

Theorem success_is_local : forall i a st,
  nth_error A i = Some a -> nth_error (r_items r) i = Some st -> created st = act_ok a.
Proof.
  intros i a st Ha Hs. rewrite (failure_is_local i a st Ha Hs). apply expected_created.
Qed.

Theorem stored_eq : r_stored r = filter (fun p => store_ok (fst p)) (accepted A).
Proof. apply handle_stored. Qed.

Lemma filter_all_ok acts : stores_ok store_ok acts = true ->
  filter (fun p => store_ok (fst p)) (accepted acts) = accepted acts.
Proof.
  unfold accepted, stores_ok.
  induction acts as [|a acts IH]; intros H; auto.
  cbn [forallb] in H. apply andb_prop in H. destruct H as [H1 H2].
  cbn [filter]. destruct (act_ok a) eqn:E; [|auto].
  cbn [flat_map]. rewrite filter_app, IH by exact H2.
  f_equal. destruct a as [l [d|]|l [d|]|l]; cbn in *; try discriminate.
  rewrite H1. reflexivity.
Qed.

Theorem stored_are_created_docs : stores_ok store_ok A = true -> r_stored r = accepted A.
Proof. intros G. rewrite stored_eq. apply filter_all_ok. exact G. Qed.

Theorem errors_flag_iff_some_failed :
  r_errors r = true <-> exists st, In st (r_items r) /\ st <> 201.
Proof.
  unfold r. rewrite handle_errors, handle_items. fold A.
  rewrite existsb_exists. split.
  - intros (a & Ha & Hn). exists (expected_status a). split; [apply in_map; exact Ha|].
    intros E. apply Bool.negb_true_iff in Hn. rewrite <- expected_created in Hn.
    unfold created in Hn. rewrite E in Hn. discriminate.
  - intros (st & Hs & Hn). apply in_map_iff in Hs. destruct Hs as (a & Ea & Ha).
    exists a. split; auto. apply Bool.negb_true_iff. rewrite <- expected_created.
    unfold created. apply N.eqb_neq. congruence.
Qed.

Theorem all_failed_iff_no_created : r_allfailed r = true <-> ~ In 201 (r_items r).
Proof.
  unfold r. rewrite handle_allfailed, handle_items, Bool.negb_true_iff. fold A.
  split.
  - intros H Hin. apply in_map_iff in Hin. destruct Hin as (a & Ea & Ha).
    assert (existsb act_ok A = true).
    { apply existsb_exists. exists a. split; auto. rewrite <- expected_created. unfold created. rewrite Ea. reflexivity. }
    congruence.
  - intros H. destruct (existsb act_ok A) eqn:E; auto.
    apply existsb_exists in E. destruct E as (a & Ha & Ok). exfalso. apply H.
    apply in_map_iff. exists a. split; auto.
    rewrite <- expected_created in Ok. unfold created in Ok. now apply N.eqb_eq in Ok.
Qed.
End Props.

(* ---------- created iff searchable exactly once ---------- *)

Definition key_dec : forall x y : N * N, {x = y} + {x <> y}.
Proof. decide equality; apply N.eq_dec. Defined.

Lemma NoDup_app_inv {T} (u v : list T) : NoDup (u ++ v) ->
  NoDup u /\ NoDup v /\ (forall x, In x u -> ~ In x v).
Proof.
  induction u as [|x u IH]; cbn; intros H.
  - repeat split; auto. constructor.
  - inversion H as [|? ? Hn Hd]; subst. destruct (IH Hd) as (U & V & D).
    repeat split; auto.
    + constructor; auto. intros Hi. apply Hn. apply in_or_app. now left.
    + intros y [Hy|Hy] Hv.
      * subst y. apply Hn. apply in_or_app. now right.
      * exact (D y Hy Hv).
Qed.

Lemma NoDup_app_intro {T} (u v : list T) :
  NoDup u -> NoDup v -> (forall x, In x u -> ~ In x v) -> NoDup (u ++ v).
Proof.
  induction u as [|x u IH]; cbn; intros U V D; auto.
  inversion U; subst. constructor.
  - intros Hi. apply in_app_or in Hi. destruct Hi as [Hi|Hi]; auto. apply (D x); auto.
  - apply IH; auto.
Qed.

Lemma accepted_incl acts k : In k (accepted acts) -> In k (flat_map act_doc acts).
Proof.
  unfold accepted. rewrite !in_flat_map. intros (a & Ha & Hk).
  apply filter_In in Ha. destruct Ha as [Ha _]. exists a. auto.
Qed.

Lemma accepted_NoDup acts : NoDup (flat_map act_doc acts) -> NoDup (accepted acts).
Proof.
  unfold accepted.
  induction acts as [|a acts IH]; cbn [flat_map filter]; intros H; [constructor|].
  apply NoDup_app_inv in H. destruct H as (U & V & D).
  destruct (act_ok a); auto.
  cbn [flat_map]. apply NoDup_app_intro; auto.
  intros x Hx Hin. apply (D x Hx). apply accepted_incl. exact Hin.
Qed.

Lemma doc_owner acts : NoDup (flat_map act_doc acts) ->
  forall i j a a' k, nth_error acts i = Some a -> nth_error acts j = Some a' ->
  In k (act_doc a) -> In k (act_doc a') -> i = j.
Proof.
  induction acts as [|x acts IH]; intros H i j a a' k Hi Hj Ka Ka'; [destruct i; discriminate|].
  cbn [flat_map] in H. apply NoDup_app_inv in H. destruct H as (U & V & D).
  destruct i, j; cbn in Hi, Hj; auto.
  - inversion Hi; subst. exfalso. apply (D k Ka). apply in_flat_map. exists a'. split; auto.
    eapply nth_error_In; eauto.
  - inversion Hj; subst. exfalso. apply (D k Ka'). apply in_flat_map. exists a. split; auto.
    eapply nth_error_In; eauto.
  - f_equal. eapply IH; eauto.
Qed.

Section Once.
Variable store_ok : N -> bool.
Variable b : list line.
Let A := actions (body_lines b).
Let r := handle store_ok b.

Theorem created_iff_stored_guarded :
  stores_ok store_ok A = true ->
  NoDup (flat_map act_doc A) ->
  forall i a st, nth_error A i = Some a -> nth_error (r_items r) i = Some st ->
    (st = 201 -> exists k, act_doc a = [k] /\ count_occ key_dec (r_stored r) k = 1%nat) /\
    (st <> 201 -> forall k, In k (act_doc a) -> count_occ key_dec (r_stored r) k = 0%nat).
Proof.
  intros G ND i a st Ha Hs.
  pose proof (success_is_local store_ok b i a st Ha Hs) as L.
  pose proof (stored_are_created_docs store_ok b G) as S. fold r A in S.
  split.
  - intros E. subst st. cbn in L. symmetry in L.
    destruct a as [l [d|]|l [d|]|l]; cbn in L; try discriminate.
    exists (l_idx l, l_id d). split; [reflexivity|].
    rewrite S. apply NoDup_count_occ'; [apply accepted_NoDup; exact ND|].
    unfold accepted. apply in_flat_map. exists (AWrite l (Some d)). split.
    + apply filter_In. split; [eapply nth_error_In; eauto|exact L].
    + cbn. auto.
  - intros Hn k Hk. rewrite S. apply count_occ_not_In.
    intros Hin. unfold accepted in Hin. apply in_flat_map in Hin. destruct Hin as (a' & Ha' & Hk').
    apply filter_In in Ha'. destruct Ha' as [Ha' Ok'].
    apply In_nth_error in Ha'. destruct Ha' as [j Hj].
    assert (i = j) by (eapply doc_owner; eauto). subst j.
    rewrite Ha in Hj. inversion Hj. subst a'.
    unfold created in L. rewrite Ok' in L. apply N.eqb_eq in L. contradiction.
Qed.
End Once.

(* ---------- witnesses (checked by vm_compute) ---------- *)

Definition ln_index (idx : N) : line := mkLine 24 KIndex idx true false 0.
Definition ln_delete : line := mkLine 25 KDelete 1 true false 0.
Definition ln_doc (id : N) : line := mkLine 40 KUnknown 0 true true id.
Definition ln_bad : line := mkLine 9 KBadJson 0 true false 0.
Definition ln_big (id : N) : line := mkLine 63000 KUnknown 0 true true id.
Definition all_ok (_ : N) : bool := true.
Definition none_ok (_ : N) : bool := false.

(* {"delete":{..}}\n *)
Definition w_trailing : list line := [ln_delete; empty_line].
(* index, oversize doc *)
Definition w_errors : list line := [ln_index 1; ln_big 1; empty_line].
(* index+oversize, index+invalid JSON, index+valid *)
Definition w_sticky : list line := [ln_index 1; ln_big 1; ln_index 1; ln_bad; ln_index 1; ln_doc 3; empty_line].
(* index+valid into an index whose store call fails *)
Definition w_store : list line := [ln_index 1; ln_doc 1; empty_line].
(* a body that exercises every branch, ending with a lone action and no final newline *)
Definition w_good : list line :=
  [ln_index 1; ln_doc 1; ln_delete; ln_index 2; ln_bad; ln_index 2; ln_big 5; ln_index 2; ln_doc 2; ln_delete].

(* an index action with an unusable index name whose document line is itself a
   well-formed index action line, then a real index action with its document *)
Definition ln_unsafe : line := mkLine 22 KIndex 20 false true 0.
Definition ln_actdoc : line := mkLine 30 KIndex 2 true true 7.
Definition w_unsafe : list line := [ln_unsafe; ln_actdoc; ln_index 1; ln_doc 3; empty_line].

(* still open: a failing store call after the statuses were assigned *)
Theorem created_iff_stored_refuted : exists store_ok b i a k,
  nth_error (actions (body_lines b)) i = Some a /\
  nth_error (r_items (handle store_ok b)) i = Some 201 /\
  In k (act_doc a) /\ count_occ key_dec (r_stored (handle store_ok b)) k = 0%nat.
Proof.
  exists none_ok, w_store, 0%nat, (AWrite (ln_index 1) (Some (ln_doc 1))), (1, 1).
  vm_compute. repeat split. now left.
Qed.

(* ---------- (4) the code before the fix violated three clauses ---------- *)

Theorem prefix_one_item_per_action_refuted : exists b,
  length (r_items (handle_prefix all_ok b)) <> length (actions (body_lines b)).
Proof. exists w_trailing. vm_compute. discriminate. Qed.

Theorem prefix_errors_flag_iff_some_failed_refuted : exists b,
  r_errors (handle_prefix all_ok b) = false /\
  exists st, In st (r_items (handle_prefix all_ok b)) /\ st <> 201.
Proof. exists w_errors. vm_compute. split; [reflexivity|]. exists 413. split; [now left|discriminate]. Qed.

Theorem prefix_failure_is_local_refuted : exists b i a st,
  nth_error (actions (body_lines b)) i = Some a /\
  nth_error (r_items (handle_prefix all_ok b)) i = Some st /\ st <> expected_status a.
Proof.
  exists w_sticky, 1%nat, (AWrite (ln_index 1) (Some ln_bad)), 413.
  vm_compute. repeat split; discriminate.
Qed.

(* the same three bodies through the fixed code *)
Example fixed_on_witnesses :
  r_items (handle all_ok w_trailing) = [400] /\
  (r_items (handle all_ok w_errors) = [413] /\ r_errors (handle all_ok w_errors) = true) /\
  r_items (handle all_ok w_sticky) = [413; 400; 201].
Proof. vm_compute. repeat split; reflexivity. Qed.

(* CallOrderProofs.v — soundness of the call-order analysis of CallOrder.v: when `oanalyse` reports nothing,
   the obligation's automaton accepts EVERY trace of the skeleton (any branch choices, any numbers of loop
   iterations); and what the two automata in use mean on traces. *)
From Coq Require Import NArith List Bool Lia.
From SigM Require Import LockTrace CallOrder.
From SigP Require Import LockTraceProofs.
Import ListNotations.
Open Scope N_scope.

Lemma Neqb_eq' : forall a b : N, (a =? b) = true <-> a = b.
Proof. intros. apply N.eqb_eq. Qed.

Section SOUND.
Variable step : N -> ev -> option N.

(* the result component an outcome lands in *)
Definition sel (o : outc) (r : ores) : list N :=
  match o with ONorm => o_norm r | ORet => o_ret r | OBrk => o_brk r | OCont => o_cont r end.


(* ---------- state lists ---------- *)
Lemma nmem_In : forall h X, nmem h X = true <-> In h X.
Proof.
  intros h X. induction X as [|x r IH]; simpl.
  - split; [discriminate | tauto].
  - rewrite orb_true_iff, Neqb_eq', IH. split; intros [H|H]; subst; auto.
Qed.

Lemma nmem_union_iff : forall h a b, nmem h (nunion a b) = true <-> nmem h a = true \/ nmem h b = true.
Proof.
  intros h a b. induction a as [|x r IH]; simpl.
  - split; [auto | intros [H|H]; [discriminate H | exact H]].
  - destruct (nmem x b) eqn:E; simpl; rewrite ?orb_true_iff, IH.
    + split.
      * intros [H|H]; auto.
      * intros [[H|H]|H]; auto. apply Neqb_eq' in H. subst x. auto.
    + tauto.
Qed.

Lemma nmem_union : forall h a b, nmem h (nunion a b) = nmem h a || nmem h b.
Proof.
  intros h a b. apply eq_true_iff_eq. rewrite orb_true_iff. apply nmem_union_iff.
Qed.

Lemma nsubset_mem : forall a b h, nsubset a b = true -> nmem h a = true -> nmem h b = true.
Proof.
  unfold nsubset. intros a b h Hs Hm. rewrite forallb_forall in Hs. apply nmem_In in Hm. apply Hs. exact Hm.
Qed.

(* ---------- step_all ---------- *)
Lemma ostep_all_mem : forall k o X h h',
  nmem h X = true -> step h (k, o) = Some h' -> nmem h' (fst (ostep_all step (k, o) X)) = true.
Proof.
  intros k o X h h'. induction X as [|x r IH]; cbn [ostep_all nmem]; intros Hm Hs.
  - discriminate Hm.
  - destruct (ostep_all step (k, o) r) as [hs vs]. cbn [fst] in IH. apply orb_true_iff in Hm as [Hm|Hm].
    + apply Neqb_eq' in Hm. subst x. rewrite Hs. cbn [fst].
      apply nmem_union_iff. left. cbn [nmem]. rewrite N.eqb_refl. reflexivity.
    + destruct (step x (k, o)) as [h1|]; cbn [fst].
      * apply nmem_union_iff. right. auto.
      * auto.
Qed.

Lemma ostep_all_nobad : forall k o X h,
  snd (ostep_all step (k, o) X) = [] -> nmem h X = true -> exists h', step h (k, o) = Some h'.
Proof.
  intros k o X h. induction X as [|x r IH]; cbn [ostep_all nmem]; intros Hb Hm.
  - discriminate Hm.
  - destruct (ostep_all step (k, o) r) as [hs vs]. cbn [snd] in IH.
    destruct (step x (k, o)) as [h1|] eqn:E; cbn [snd] in Hb.
    + apply orb_true_iff in Hm as [Hm|Hm].
      * apply Neqb_eq' in Hm. subst x. eauto.
      * auto.
    + discriminate Hb.
Qed.

(* ---------- the monitor over concatenated traces ---------- *)
Lemma orun_app : forall t1 t2 h,
  orun step h (t1 ++ t2) = match orun step h t1 with Some h' => orun step h' t2 | None => None end.
Proof.
  induction t1 as [|e r IH]; intros t2 h; simpl.
  - reflexivity.
  - destruct (step h e); auto.
Qed.

(* ---------- the loop head iteration, as a standalone function ---------- *)
Definition loop_iter (fuel : nat) (a p : stm) : nat -> list N -> list N * bool :=
  fix iter (n : nat) (X : list N) {struct n} : list N * bool :=
    match n with
    | O => (X, false)
    | S n' =>
      let ra := opost step fuel a X in
      let rp := opost step fuel p (nunion (o_norm ra) (o_cont ra)) in
      let X' := nunion (o_norm rp) X in
      if nsubset X' X then (X, true) else iter n' X'
    end.

Definition loop_ra (fuel : nat) (a : stm) (X : list N) : ores := opost step fuel a X.
Definition loop_rp (fuel : nat) (a p : stm) (X : list N) : ores :=
  opost step fuel p (nunion (o_norm (loop_ra fuel a X)) (o_cont (loop_ra fuel a X))).

Lemma opost_loop : forall fuel a p X0,
  opost step fuel (SLoop a p) X0 =
  let '(X, ok) := loop_iter fuel a p fuel X0 in
  mkO (nunion X (o_brk (loop_ra fuel a X)))
        (nunion (o_ret (loop_ra fuel a X)) (o_ret (loop_rp fuel a p X))) [] []
        ((if ok then [] else [ONoFix]) ++ o_bad (loop_ra fuel a X) ++ o_bad (loop_rp fuel a p X)).
Proof. intros. reflexivity. Qed.

Lemma loop_iter_true : forall fuel a p n X0 X,
  loop_iter fuel a p n X0 = (X, true) ->
  (forall h, nmem h X0 = true -> nmem h X = true) /\
  nsubset (nunion (o_norm (loop_rp fuel a p X)) X) X = true.
Proof.
  intros fuel a p n. induction n as [|n IH]; intros X0 X E; simpl in E.
  - discriminate E.
  - fold (loop_iter fuel a p) in E. fold (loop_ra fuel a X0) in E. fold (loop_rp fuel a p X0) in E.
    destruct (nsubset (nunion (o_norm (loop_rp fuel a p X0)) X0) X0) eqn:Es.
    + inversion E; subst X. split; auto.
    + apply IH in E as [E1 E2]. split; [|exact E2].
      intros h Hm. apply E1. apply nmem_union_iff. right. exact Hm.
Qed.

(* ---------- soundness ---------- *)
Definition sound_at (fuel : nat) (s : stm) : Prop :=
  forall (t : list ev) (o : outc), exec s t o -> forall (X : list N) (h0 : N),
  nmem h0 X = true -> o_bad (opost step fuel s X) = [] ->
  exists h, orun step h0 t = Some h /\ nmem h (sel o (opost step fuel s X)) = true.

Definition loop_exit (fuel : nat) (a p : stm) (X : list N) (o : outc) : list N :=
  match o with
  | ONorm => nunion X (o_brk (loop_ra fuel a X))
  | ORet => nunion (o_ret (loop_ra fuel a X)) (o_ret (loop_rp fuel a p X))
  | _ => []
  end.

(* from any lock set of a closed head set X, a run of the loop stays inside what was computed from X *)
Lemma loop_run : forall fuel a p X,
  sound_at fuel a -> sound_at fuel p ->
  nsubset (nunion (o_norm (loop_rp fuel a p X)) X) X = true ->
  o_bad (loop_ra fuel a X) = [] -> o_bad (loop_rp fuel a p X) = [] ->
  forall l t o, exec l t o -> l = SLoop a p -> forall h0, nmem h0 X = true ->
  exists h, orun step h0 t = Some h /\ nmem h (loop_exit fuel a p X o) = true.
Proof.
  intros fuel a p X Sa Sp Hcl Ba Bp l t o Hex.
  induction Hex as [ | | | | | | | | | | | | |
                   | a' p'
                   | a' p' t1 t2 t3 o1 o Ha _ Hor Hp _ Hl IHl
                   | a' p' t Ha _
                   | a' p' t Ha _
                   | a' p' t1 t2 o1 Ha _ Hor Hp _ ];
    intros El h0 Hm; try discriminate El; injection El as Ea Ep; subst a' p'.
  - exists h0. split; [reflexivity|]. unfold loop_exit. apply nmem_union_iff. left. exact Hm.
  - destruct (Sa _ _ Ha _ _ Hm Ba) as [h1 [R1 M1]].
    assert (M1' : nmem h1 (nunion (o_norm (loop_ra fuel a X)) (o_cont (loop_ra fuel a X))) = true).
    { apply nmem_union_iff. destruct Hor as [Ho|Ho]; subst o1; simpl in M1; auto. }
    destruct (Sp _ _ Hp _ _ M1' Bp) as [h2 [R2 M2]]. simpl in M2.
    assert (M2' : nmem h2 X = true).
    { apply (nsubset_mem _ _ _ Hcl). apply nmem_union_iff. left. exact M2. }
    destruct (IHl eq_refl h2 M2') as [h3 [R3 M3]].
    exists h3. split; [|exact M3]. rewrite orun_app, R1, orun_app, R2. exact R3.
  - destruct (Sa _ _ Ha _ _ Hm Ba) as [h1 [R1 M1]]. simpl in M1.
    exists h1. split; [exact R1|]. unfold loop_exit. apply nmem_union_iff. right. exact M1.
  - destruct (Sa _ _ Ha _ _ Hm Ba) as [h1 [R1 M1]]. simpl in M1.
    exists h1. split; [exact R1|]. unfold loop_exit. apply nmem_union_iff. left. exact M1.
  - destruct (Sa _ _ Ha _ _ Hm Ba) as [h1 [R1 M1]].
    assert (M1' : nmem h1 (nunion (o_norm (loop_ra fuel a X)) (o_cont (loop_ra fuel a X))) = true).
    { apply nmem_union_iff. destruct Hor as [Ho|Ho]; subst o1; simpl in M1; auto. }
    destruct (Sp _ _ Hp _ _ M1' Bp) as [h2 [R2 M2]]. simpl in M2.
    exists h2. split.
    + rewrite orun_app, R1. exact R2.
    + unfold loop_exit. apply nmem_union_iff. right. exact M2.
Qed.

Lemma opost_sound_aux : forall fuel s, sound_at fuel s.
Proof.
  intros fuel s.
  induction s as [ | k ob | a IHa b IHb | a IHa b IHb | | | | b IHb | b IHb | b IHb | a IHa p IHp ];
    intros t o Hex X0 h0 Hmem Hbad.
  - (* SSkip *)
    apply exec_skip_inv in Hex as [-> ->]. exists h0. split; [reflexivity | exact Hmem].
  - (* SEv *)
    apply exec_ev_inv in Hex as [-> ->]. simpl in Hbad |- *.
    pose proof (ostep_all_nobad k ob X0 h0) as Hnb. pose proof (ostep_all_mem k ob X0 h0) as Hin.
    destruct (ostep_all step (k, ob) X0) as [hs vs]. simpl in Hbad, Hnb, Hin |- *.
    destruct (Hnb Hbad Hmem) as [h' Hs]. rewrite Hs. exists h'. split; [reflexivity|].
    apply Hin; auto.
  - (* SSeq *)
    simpl in Hbad. apply app_eq_nil in Hbad as [Ba Bb].
    apply exec_seq_inv in Hex as [(t1 & t2 & -> & H1 & H2) | [H1 Hne]].
    + destruct (IHa _ _ H1 _ _ Hmem Ba) as [h1 [R1 M1]]. simpl in M1.
      destruct (IHb _ _ H2 _ _ M1 Bb) as [h2 [R2 M2]].
      exists h2. split.
      * rewrite orun_app, R1. exact R2.
      * destruct o; simpl in M2 |- *; rewrite ?nmem_union_iff; auto.
    + destruct (IHa _ _ H1 _ _ Hmem Ba) as [h1 [R1 M1]].
      exists h1. split; [exact R1|].
      destruct o; simpl in M1 |- *; rewrite ?nmem_union_iff; auto; congruence.
  - (* SAlt *)
    simpl in Hbad. apply app_eq_nil in Hbad as [Ba Bb].
    apply exec_alt_inv in Hex as [H1 | H1].
    + destruct (IHa _ _ H1 _ _ Hmem Ba) as [h1 [R1 M1]].
      exists h1. split; [exact R1|].
      destruct o; simpl in M1 |- *; rewrite ?nmem_union_iff; auto.
    + destruct (IHb _ _ H1 _ _ Hmem Bb) as [h1 [R1 M1]].
      exists h1. split; [exact R1|].
      destruct o; simpl in M1 |- *; rewrite ?nmem_union_iff; auto.
  - (* SRet *)
    apply exec_ret_inv in Hex as [-> ->]. exists h0. split; [reflexivity | exact Hmem].
  - (* SBreak *)
    apply exec_break_inv in Hex as [-> ->]. exists h0. split; [reflexivity | exact Hmem].
  - (* SContinue *)
    apply exec_continue_inv in Hex as [-> ->]. exists h0. split; [reflexivity | exact Hmem].
  - (* SCall *)
    simpl in Hbad. apply exec_call_inv in Hex as [-> [o' H1]].
    destruct (IHb _ _ H1 _ _ Hmem Hbad) as [h1 [R1 M1]].
    exists h1. split; [exact R1|].
    destruct o'; simpl in M1 |- *; rewrite ?nmem_union_iff; auto.
  - (* SBrk *)
    simpl in Hbad. apply exec_brk_inv in Hex as [[-> H1] | [H1 Hne]].
    + destruct (IHb _ _ H1 _ _ Hmem Hbad) as [h1 [R1 M1]].
      exists h1. split; [exact R1|]. simpl in M1 |- *. rewrite nmem_union_iff. auto.
    + destruct (IHb _ _ H1 _ _ Hmem Hbad) as [h1 [R1 M1]].
      exists h1. split; [exact R1|].
      destruct o; simpl in M1 |- *; rewrite ?nmem_union_iff; auto; congruence.
  - (* SCont *)
    simpl in Hbad. apply exec_cont_inv in Hex as [[-> H1] | [H1 Hne]].
    + destruct (IHb _ _ H1 _ _ Hmem Hbad) as [h1 [R1 M1]].
      exists h1. split; [exact R1|]. simpl in M1 |- *. rewrite nmem_union_iff. auto.
    + destruct (IHb _ _ H1 _ _ Hmem Hbad) as [h1 [R1 M1]].
      exists h1. split; [exact R1|].
      destruct o; simpl in M1 |- *; rewrite ?nmem_union_iff; auto; congruence.
  - (* SLoop *)
    rewrite opost_loop in Hbad |- *.
    destruct (loop_iter fuel a p fuel X0) as [X ok] eqn:E.
    destruct ok; simpl in Hbad.
    + apply app_eq_nil in Hbad as [Ba Bp].
      apply loop_iter_true in E as [Hsub Hcl].
      destruct (loop_run fuel a p X IHa IHp Hcl Ba Bp _ _ _ Hex eq_refl h0 (Hsub _ Hmem)) as [h [R M]].
      exists h. split; [exact R|].
      destruct o; simpl in M |- *; exact M.
    + discriminate Hbad.
Qed.

(* every execution from a lock set of S stays inside what the analysis computed, when the analysis reports nothing *)
Theorem opost_sound : forall (fuel : nat) (s : stm) (t : list ev) (o : outc),
  exec s t o -> forall (S : list N) (h0 : N),
  nmem h0 S = true -> o_bad (opost step fuel s S) = [] ->
  exists h, orun step h0 t = Some h /\ nmem h (sel o (opost step fuel s S)) = true.
Proof.
  intros fuel s t o Hex X h0 Hm Hb. exact (opost_sound_aux fuel s t o Hex X h0 Hm Hb).
Qed.


Theorem oanalyse_sound : forall (fuel : nat) (s : stm),
  oanalyse step fuel s = [] -> forall t o, exec s t o -> exists q, orun step 0 t = Some q.
Proof.
  unfold oanalyse. intros fuel s Hb t o Hex.
  assert (Hm : nmem 0 [0] = true) by reflexivity.
  destruct (opost_sound fuel s t o Hex [0] 0 Hm Hb) as [h [R _]].
  exists h. exact R.
Qed.
End SOUND.
Print Assumptions oanalyse_sound.

(* ---------- what the automata in use mean ---------- *)
Lemma is_call_spec : forall e l, is_call e l = true <-> e = (KCall, l).
Proof.
  intros [k o] l. unfold is_call. destruct k; try (split; [discriminate | intro H; inversion H]).
  rewrite N.eqb_eq. split; [intros ->; reflexivity | intro H; inversion H; reflexivity].
Qed.

Theorem before_means : forall a b, a <> b -> forall t q,
  orun (before_step a b) 0 t = Some q -> preceded a b t.
Proof.
  intros a b Hab. induction t as [|e r IH]; intros q H t1 t2 Ht.
  - destruct t1; discriminate Ht.
  - cbn [orun] in H. unfold before_step at 1 in H. cbn [N.eqb] in H.
    destruct (is_call e a) eqn:Ea.
    + apply is_call_spec in Ea. subst e. destruct t1 as [|x t1'].
      * injection Ht as Hb. congruence.
      * injection Ht as -> _. left. reflexivity.
    + destruct (is_call e b) eqn:Eb; [discriminate H|].
      destruct t1 as [|x t1'].
      * injection Ht as -> _. assert (E : is_call (KCall, b) b = true) by (apply is_call_spec; reflexivity).
        rewrite E in Eb. discriminate Eb.
      * injection Ht as -> Hr. right. exact (IH q H t1' t2 Hr).
Qed.
Print Assumptions before_means.

Lemma never_after_run1 : forall a b t q, orun (never_after_step a b) 1 t = Some q -> ~ In (KCall, b) t.
Proof.
  intros a b. induction t as [|e r IH]; intros q H Hin.
  - exact Hin.
  - cbn [orun] in H. unfold never_after_step at 1 in H. cbn [N.eqb Pos.eqb] in H.
    destruct (is_call e b) eqn:Eb; [discriminate H|].
    destruct Hin as [->|Hin].
    + assert (E : is_call (KCall, b) b = true) by (apply is_call_spec; reflexivity). rewrite E in Eb. discriminate Eb.
    + exact (IH q H Hin).
Qed.

Theorem never_after_means : forall a b t q,
  orun (never_after_step a b) 0 t = Some q -> not_followed a b t.
Proof.
  intros a b. induction t as [|e r IH]; intros q H t1 t2 Ht.
  - destruct t1; discriminate Ht.
  - cbn [orun] in H. unfold never_after_step at 1 in H. cbn [N.eqb] in H.
    destruct (is_call e a) eqn:Ea.
    + destruct t1 as [|x t1'].
      * injection Ht as _ Hr. subst t2. exact (never_after_run1 a b r q H).
      * injection Ht as _ Hr. subst r. intro Hin. apply (never_after_run1 a b _ q H).
        apply in_or_app. right. right. exact Hin.
    + destruct t1 as [|x t1'].
      * injection Ht as -> _. assert (E : is_call (KCall, a) a = true) by (apply is_call_spec; reflexivity).
        rewrite E in Ea. discriminate Ea.
      * injection Ht as _ Hr. exact (IH q H t1' t2 Hr).
Qed.
Print Assumptions never_after_means.

(* the two together: a clean analysis of a skeleton gives the trace property for every execution *)
Theorem before_checked : forall fuel a b s, a <> b ->
  oanalyse (before_step a b) fuel s = [] -> forall t o, exec s t o -> preceded a b t.
Proof.
  intros fuel a b s Hab Hc t o Hex. destruct (oanalyse_sound _ fuel s Hc t o Hex) as [q R].
  exact (before_means a b Hab t q R).
Qed.
Theorem never_after_checked : forall fuel a b s,
  oanalyse (never_after_step a b) fuel s = [] -> forall t o, exec s t o -> not_followed a b t.
Proof.
  intros fuel a b s Hc t o Hex. destruct (oanalyse_sound _ fuel s Hc t o Hex) as [q R].
  exact (never_after_means a b t q R).
Qed.
Print Assumptions before_checked.
Print Assumptions never_after_checked.

(* non-vacuity / sanity: the analysis objects to the swapped order and to a branch that skips the first call *)
Example order_examples :
  oanalyse (before_step 1 2) 4 (SSeq (SEv KCall 1) (SAlt (SEv KCall 2) SSkip)) = []
  /\ oanalyse (before_step 1 2) 4 (SSeq (SEv KCall 2) (SEv KCall 1)) <> []
  /\ oanalyse (before_step 1 2) 4 (SSeq (SAlt (SEv KCall 1) SSkip) (SEv KCall 2)) <> []
  /\ oanalyse (before_step 1 2) 4 (SSeq (SAlt (SSeq (SEv KCall 1) SSkip) SRet) (SLoop (SEv KCall 2) SSkip)) = []
  /\ oanalyse (never_after_step 1 2) 4 (SLoop (SSeq (SEv KCall 2) (SEv KCall 1)) SSkip) <> [].
Proof. repeat split; vm_compute; congruence. Qed.

(* ---------- the guard automaton ---------- *)
Lemma guard_run : forall a b it, a <> b -> a <> it -> b <> it -> forall t q q',
  orun (guard_step a b it) q t = Some q' -> (q = 0 \/ q = 1) ->
  forall t1 t2, t = t1 ++ (KCall, b) :: t2 ->
  (q = 1 /\ ~ In (KCall, it) t1) \/ exists u v, t1 = u ++ (KCall, a) :: v /\ ~ In (KCall, it) v.
Proof.
  intros a b it Hab Hai Hbi. induction t as [|e r IH]; intros q q' H Hq t1 t2 Ht.
  - destruct t1; discriminate Ht.
  - cbn [orun] in H. destruct (guard_step a b it q e) as [q1|] eqn:Es; [|discriminate H].
    destruct t1 as [|x t1'].
    + (* the call of b is the first event *)
      injection Ht as -> _. left. split; [|intros []].
      unfold guard_step in Es.
      assert (Eb : is_call (KCall, b) b = true) by (apply is_call_spec; reflexivity).
      assert (Ea : is_call (KCall, b) a = false).
      { destruct (is_call (KCall, b) a) eqn:E; [|reflexivity]. apply is_call_spec in E. inversion E. congruence. }
      destruct Hq as [-> | ->]; [|reflexivity].
      cbn [N.eqb] in Es. rewrite Ea, Eb in Es. discriminate Es.
    + injection Ht as He Hr. subst x.
      assert (Hq1 : q1 = 0 \/ q1 = 1).
      { unfold guard_step in Es. destruct Hq as [-> | ->]; cbn [N.eqb Pos.eqb] in Es.
        - destruct (is_call e a); [injection Es as <-; auto|]. destruct (is_call e b); [discriminate Es|]. injection Es as <-; auto.
        - destruct (is_call e it); injection Es as <-; auto. }
      destruct (IH q1 q' H Hq1 t1' t2 Hr) as [[E1 Hni] | (u & v & -> & Hni)].
      * (* state after e is 1 and no marker in t1' *)
        subst q1. unfold guard_step in Es. destruct Hq as [-> | ->]; cbn [N.eqb Pos.eqb] in Es.
        -- destruct (is_call e a) eqn:Ea.
           ++ apply is_call_spec in Ea. subst e. right. exists [], t1'. split; [reflexivity | exact Hni].
           ++ destruct (is_call e b); [discriminate Es | injection Es as Es; discriminate Es].
        -- destruct (is_call e it) eqn:Ei; [injection Es as Es; discriminate Es|].
           left. split; [reflexivity|]. intros [He | Hin]; [|exact (Hni Hin)].
           subst e. assert (E : is_call (KCall, it) it = true) by (apply is_call_spec; reflexivity).
           rewrite E in Ei. discriminate Ei.
      * right. exists (e :: u), v. split; [reflexivity | exact Hni].
Qed.

Theorem guard_means : forall a b it, a <> b -> a <> it -> b <> it -> forall t q,
  orun (guard_step a b it) 0 t = Some q -> guarded a b it t.
Proof.
  intros a b it Hab Hai Hbi t q H t1 t2 Ht.
  destruct (guard_run a b it Hab Hai Hbi t 0 q H (or_introl eq_refl) t1 t2 Ht) as [[E _] | Hx].
  - discriminate E.
  - exact Hx.
Qed.
Print Assumptions guard_means.

Theorem guard_checked : forall fuel a b it s, a <> b -> a <> it -> b <> it ->
  oanalyse (guard_step a b it) fuel s = [] -> forall t o, exec s t o -> guarded a b it t.
Proof.
  intros fuel a b it s Hab Hai Hbi Hc t o Hex. destruct (oanalyse_sound _ fuel s Hc t o Hex) as [q R].
  exact (guard_means a b it Hab Hai Hbi t q R).
Qed.
Print Assumptions guard_checked.

Example guard_examples :
  (* checked in every iteration: accepted; checked once before the loop only: objected to *)
  oanalyse (guard_step 1 2 9) 4 (SLoop (SCont (SSeq (SEv KCall 9) (SSeq (SAlt (SSeq (SEv KCall 1) SSkip) SContinue) (SEv KCall 2)))) SSkip) = []
  /\ oanalyse (guard_step 1 2 9) 4 (SSeq (SEv KCall 1) (SLoop (SCont (SSeq (SEv KCall 9) (SEv KCall 2))) SSkip)) <> []
  /\ oanalyse (guard_step 1 2 9) 4 (SLoop (SCont (SSeq (SEv KCall 9) (SSeq (SAlt (SEv KCall 1) SSkip) (SEv KCall 2)))) SSkip) <> [].
Proof. repeat split; vm_compute; congruence. Qed.

(* ---------- a call that does not occur in the skeleton occurs in none of its traces ---------- *)
Lemma exec_mentions : forall s t o, exec s t o -> forall l, In (KCall, l) t -> mentions l s = true.
Proof.
  induction 1; intros l Hin; cbn [mentions];
    repeat match goal with
    | H : In _ (_ ++ _) |- _ => apply in_app_or in H; destruct H
    end;
    try match goal with H : In _ [] |- _ => destruct H end;
    try (apply orb_true_iff; auto; fail); auto.
  all: try (destruct Hin as [E|[]]; injection E as -> ->; apply N.eqb_refl).
  all: try (apply orb_true_iff; right; apply orb_true_iff; auto; fail).
  all: match goal with IH : forall l, In _ ?t -> mentions l (SLoop _ _) = true, H : In _ ?t |- _ => exact (IH _ H) end.
Qed.

Theorem never_checked : forall b s, mentions b s = false -> forall t o, exec s t o -> ~ In (KCall, b) t.
Proof.
  intros b s Hm t o Hex Hin. rewrite (exec_mentions s t o Hex b Hin) in Hm. discriminate Hm.
Qed.
Print Assumptions never_checked.

(* ---------- the held-lock automaton ---------- *)
Lemma held_run : forall l v t q q' d, orun (held_step l v) q t = Some q' -> q <= d ->
  forall t1 t2, t = t1 ++ (KCall, v) :: t2 -> 0 < depth_from l d t1.
Proof.
  intros l v. induction t as [|e r IH]; intros q q' d H Hle t1 t2 Ht.
  - destruct t1; discriminate Ht.
  - cbn [orun] in H. destruct (held_step l v q e) as [q1|] eqn:Es; [|discriminate H].
    destruct t1 as [|x t1'].
    + injection Ht as -> _. cbn [depth_from fold_left]. unfold held_step in Es.
      assert (Ea : is_acq (KCall, v) l = false) by (unfold is_acq, is_op; rewrite andb_false_r; reflexivity).
      assert (Er : is_rel (KCall, v) l = false) by (unfold is_rel, is_op; rewrite andb_false_r; reflexivity).
      assert (Ec : is_call (KCall, v) v = true) by (apply is_call_spec; reflexivity).
      rewrite Ea, Er, Ec in Es. destruct (q =? 0) eqn:E0; [discriminate Es|].
      apply N.eqb_neq in E0. lia.
    + injection Ht as He Hr. subst x. cbn [depth_from fold_left].
      apply (IH q1 q' (depth_step l d e) H) with (t2 := t2); [|exact Hr].
      unfold held_step in Es. unfold depth_step.
      destruct (is_acq e l).
      * injection Es as <-. lia.
      * destruct (is_rel e l).
        -- injection Es as <-. lia.
        -- destruct (is_call e v); [destruct (q =? 0); [discriminate Es|]|]; injection Es as <-; exact Hle.
Qed.

Theorem held_means : forall l v t q, orun (held_step l v) 0 t = Some q -> protected l v t.
Proof.
  intros l v t q H t1 t2 Ht. exact (held_run l v t 0 q 0 H (N.le_refl 0) t1 t2 Ht).
Qed.
Print Assumptions held_means.

Theorem held_checked : forall fuel l v s,
  oanalyse (held_step l v) fuel s = [] -> forall t o, exec s t o -> protected l v t.
Proof.
  intros fuel l v s Hc t o Hex. destruct (oanalyse_sound _ fuel s Hc t o Hex) as [q R].
  exact (held_means l v t q R).
Qed.
Print Assumptions held_checked.

Example held_examples :
  oanalyse (held_step 7 1) 4 (SSeq (SEv KRLock 7) (SSeq (SLoop (SCont (SEv KCall 1)) SSkip) (SEv KRUnlock 7))) = []
  /\ oanalyse (held_step 7 1) 4 (SSeq (SEv KLock 7) (SSeq (SEv KUnlock 7) (SEv KCall 1))) <> []
  /\ oanalyse (held_step 7 1) 4 (SSeq (SAlt (SEv KLock 7) SSkip) (SEv KCall 1)) <> []
  /\ oanalyse (held_step 7 1) 4 (SSeq (SEv KLock 8) (SEv KCall 1)) <> [].
Proof. repeat split; vm_compute; congruence. Qed.

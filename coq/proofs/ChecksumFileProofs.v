(* ChecksumFileProofs.v — theorems about the checksummed chunk file model
   (SigM.ChecksumFile, following pkg/utils/checksumfile.go). *)
From Coq Require Import Lia.
From Coq Require Import ZifyN ZifyNat ZifyBool.
From SigM Require Import Base Crc32 ChecksumFile.
From SigP Require Import BaseProofs Crc32Proofs.
Ltac Zify.zify_post_hook ::= Z.div_mod_to_equations.
Open Scope N_scope.

Notation W := write_chunks.

(* what AppendChunk / writeWip can write as one chunk: non-empty, below 4 GiB, bytes *)
Definition chunk_ok (d : bytes) : Prop :=
  d <> [] /\ N.of_nat (length d) < 4294967296 /\ bytes_ok d.

(* ---------- small facts ---------- *)
Lemma cf_pow : 256 ^ N.of_nat 4 = 4294967296. Proof. reflexivity. Qed.
Lemma cf_le32_length n : length (le32 n) = 4%nat. Proof. apply le_enc_length. Qed.
Lemma cf_magic_lt : MAGIC < 4294967296. Proof. reflexivity. Qed.

Lemma cf_crc32_range p : bytes_ok p -> crc32 p < 4294967296.
Proof.
  intros H. unfold crc32. apply lxor_bound; [|lia].
  apply crc_raw_bound; [lia|exact H].
Qed.

Lemma chunk_length d : length (chunk d) = (HDR + length d)%nat.
Proof. unfold chunk, HDR. rewrite !app_length, !cf_le32_length. lia. Qed.

Lemma W_cons d ds : W (d :: ds) = chunk d ++ W ds.
Proof. reflexivity. Qed.

Lemma W_app a b : W (a ++ b) = W a ++ W b.
Proof. unfold W. rewrite map_app, concat_app. reflexivity. Qed.

Lemma W_length_ge ds : (length ds <= length (W ds))%nat.
Proof.
  induction ds as [|d ds IH]; [cbn; lia|].
  rewrite W_cons, app_length, chunk_length. cbn [length]. unfold HDR. lia.
Qed.

Lemma chunk_ok_len d : chunk_ok d -> (0 < length d)%nat.
Proof. intros [H _]. destruct d; [congruence|cbn; lia]. Qed.

Lemma concat_ok_len m : Forall chunk_ok m -> m <> [] -> (0 < length (concat m))%nat.
Proof.
  intros H Hne. destruct m as [|d m]; [congruence|].
  inversion H as [|? ? Hd _]; subst. cbn [concat]. rewrite app_length.
  pose proof (chunk_ok_len d Hd). lia.
Qed.

Lemma firstn_app_ge {A} k (a b : list A) : (length a <= k)%nat ->
  firstn k (a ++ b) = a ++ firstn (k - length a) b.
Proof. intros H. rewrite firstn_app, firstn_all2 by lia. reflexivity. Qed.

Lemma firstn_app_le {A} k (a b : list A) : (k <= length a)%nat ->
  firstn k (a ++ b) = firstn k a.
Proof.
  intros H. rewrite firstn_app. replace (k - length a)%nat with 0%nat by lia.
  cbn [firstn]. apply app_nil_r.
Qed.

Lemma skipn_app_exact {A} k (a b : list A) : length a = k -> skipn k (a ++ b) = b.
Proof.
  intros <-. rewrite skipn_app, Nat.sub_diag, skipn_all. reflexivity.
Qed.

Lemma firstn_app_exact {A} k (a b : list A) : length a = k -> firstn k (a ++ b) = a.
Proof.
  intros <-. rewrite firstn_app, Nat.sub_diag, firstn_all. cbn [firstn]. apply app_nil_r.
Qed.

Lemma firstn_min {A} n (l : list A) : firstn (Nat.min n (length l)) l = firstn n l.
Proof.
  destruct (Nat.le_ge_cases n (length l)) as [H|H].
  - rewrite Nat.min_l by lia. reflexivity.
  - rewrite Nat.min_r by lia. rewrite firstn_all, firstn_all2 by lia. reflexivity.
Qed.

Lemma is_err_lift (e : res) d :
  is_err e = true -> is_err (match e with Ok d' => Ok (d ++ d') | ErrShort => ErrShort | ErrBad w => ErrBad w end) = true.
Proof. destruct e; auto. Qed.

(* the three header fields read back *)
Lemma rd32_le32 n r : n < 4294967296 -> rd32 (le32 n ++ r) = Some (n, r).
Proof. intros H. unfold rd32, le32. apply rd_le_app. rewrite cf_pow. exact H. Qed.

Lemma rd32_bytes a r : length a = 4%nat -> rd32 (a ++ r) = Some (le_dec a, r).
Proof. intros H. unfold rd32. apply rd_le_bytes. exact H. Qed.

Lemma rd32_short b : (length b < 4)%nat -> rd32 b = None.
Proof. intros H. unfold rd32. apply rd_le_short. exact H. Qed.

(* ---------- reading one intact chunk ---------- *)

(* a verified chunk whose header fields are (MAGIC, c, len): the generic unfolding *)
Lemma chunk_here_fields m0 c len body r : c < 4294967296 -> len < 4294967296 ->
  read_chunk_here m0 (le32 MAGIC ++ le32 c ++ le32 len ++ body) r =
  if N.of_nat r <? len then ErrBad WLen
  else let data := firstn (N.to_nat len) body in
       if negb (crc32 data =? c) then ErrBad WCrc
       else if Nat.ltb (length data) (N.to_nat len) then ErrShort else Ok data.
Proof.
  intros Hc Hl. unfold read_chunk_here.
  rewrite rd32_le32 by exact cf_magic_lt.
  rewrite N.eqb_refl. cbn [negb].
  rewrite rd32_le32 by exact Hc. rewrite rd32_le32 by exact Hl. reflexivity.
Qed.

Lemma chunk_here_ok m0 d R r : chunk_ok d -> (length d <= r)%nat ->
  read_chunk_here m0 (chunk d ++ R) r = Ok d.
Proof.
  intros (Hne & Hlen & Hb) Hr. unfold chunk. rewrite <- !app_assoc.
  rewrite chunk_here_fields by (auto using cf_crc32_range).
  replace (N.of_nat r <? N.of_nat (length d)) with false by (symmetry; apply N.ltb_ge; lia).
  cbv zeta. rewrite Nat2N.id.
  rewrite firstn_app_exact by reflexivity.
  rewrite N.eqb_refl. cbn [negb].
  rewrite Nat.ltb_irrefl. reflexivity.
Qed.

(* a buffer shorter than the chunk: "buffer length mismatch" (the TODO in readChunkAt) *)
Lemma chunk_here_small_buffer m0 d R r : chunk_ok d -> (r < length d)%nat ->
  read_chunk_here m0 (chunk d ++ R) r = ErrBad WLen.
Proof.
  intros (Hne & Hlen & Hb) Hr. unfold chunk. rewrite <- !app_assoc.
  rewrite chunk_here_fields by (auto using cf_crc32_range).
  replace (N.of_nat r <? N.of_nat (length d)) with true by (symmetry; apply N.ltb_lt; lia).
  reflexivity.
Qed.

(* ---------- the loop over a run of intact chunks ---------- *)

(* intact chunks m in front of X, more than their data still wanted: the loop
   delivers concat m and goes on at X *)
Lemma loop_reach m0 m : Forall chunk_ok m -> forall fuel X extra,
  (length m < fuel)%nat -> (0 < extra)%nat ->
  read_loop fuel m0 (W m ++ X) (length (concat m) + extra) =
  match read_loop (fuel - length m) m0 X extra with
  | Ok d' => Ok (concat m ++ d')
  | e => e
  end.
Proof.
  induction 1 as [|d m Hd Hm IH]; intros fuel X extra Hf He.
  - cbn [W write_chunks map concat app length Nat.add]. rewrite Nat.sub_0_r.
    destruct (read_loop fuel m0 X extra); reflexivity.
  - destruct fuel as [|fuel]; [cbn in Hf; lia|]. cbn [length] in Hf.
    rewrite W_cons, <- app_assoc. cbn [concat]. rewrite app_length.
    cbn [read_loop].
    rewrite chunk_here_ok by (auto; lia).
    replace (Nat.leb (length d + length (concat m) + extra) (length d)) with false
      by (symmetry; apply Nat.leb_gt; lia).
    rewrite <- chunk_length, skipn_app_exact by reflexivity.
    replace (length d + length (concat m) + extra - length d)%nat
      with (length (concat m) + extra)%nat by lia.
    rewrite IH by lia.
    cbn [length]. replace (S fuel - S (length m))%nat with (fuel - length m)%nat by lia.
    destruct (read_loop (fuel - length m) m0 X extra); try reflexivity.
    rewrite app_assoc. reflexivity.
Qed.

(* exactly the data of a run of intact chunks wanted: the loop returns it *)
Lemma loop_ok m0 m : Forall chunk_ok m -> m <> [] -> forall fuel R,
  (length m <= fuel)%nat ->
  read_loop fuel m0 (W m ++ R) (length (concat m)) = Ok (concat m).
Proof.
  intros Hm Hne.
  destruct (exists_last Hne) as (m' & d & ->).
  apply Forall_app in Hm. destruct Hm as [Hm' Hd]. inversion Hd as [|? ? Hd' _]; subst.
  intros fuel R Hf. rewrite app_length in Hf. cbn [length] in Hf.
  rewrite W_app, <- app_assoc, concat_app, app_length. cbn [concat]. rewrite app_nil_r.
  rewrite loop_reach by (auto using chunk_ok_len; lia).
  destruct (fuel - length m')%nat as [|k] eqn:E; [lia|].
  cbn [W write_chunks map concat]. rewrite app_nil_r.
  cbn [read_loop]. rewrite chunk_here_ok by (auto; lia).
  rewrite Nat.leb_refl. reflexivity.
Qed.

(* ---------- ReadAt returns what was written ---------- *)

(* Strong form: a run m of intact chunks is read back whatever precedes and follows
   it in the file (A, B arbitrary bytes — e.g. damaged neighbours). *)
Theorem readat_intact_run A m B : Forall chunk_ok m -> m <> [] ->
  read_at (length A) (length (concat m)) (A ++ W m ++ B) = Ok (concat m).
Proof.
  intros Hm Hne. unfold read_at. rewrite skipn_app_exact by reflexivity.
  apply loop_ok; auto.
  rewrite !app_length. pose proof (W_length_ge m). lia.
Qed.

Lemma slice_concat (a m b : list bytes) :
  slice (length (concat a)) (length (concat m)) (concat (a ++ m ++ b)) = concat m.
Proof.
  unfold slice. rewrite !concat_app.
  rewrite skipn_app_exact by reflexivity. apply firstn_app_exact. reflexivity.
Qed.

(* every chunking a ++ m ++ b of the data, every chunk-aligned (offset, length) *)
Theorem readat_roundtrip a m b : Forall chunk_ok (a ++ m ++ b) -> m <> [] ->
  read_at (length (W a)) (length (concat m)) (W (a ++ m ++ b))
  = Ok (slice (length (concat a)) (length (concat m)) (concat (a ++ m ++ b))).
Proof.
  intros H Hne. rewrite slice_concat, !W_app.
  apply readat_intact_run; auto.
  apply Forall_app in H. destruct H as [_ H]. apply Forall_app in H. tauto.
Qed.

(* a buffer that ends inside a chunk is refused, never filled with part of a chunk *)
Theorem readat_partial_chunk_rejected A d B r : chunk_ok d -> (r < length d)%nat ->
  read_at (length A) r (A ++ chunk d ++ B) = ErrBad WLen.
Proof.
  intros Hd Hr. unfold read_at. rewrite skipn_app_exact by reflexivity.
  cbn [read_loop]. rewrite chunk_here_small_buffer by auto. reflexivity.
Qed.

(* ---------- the loop always ends: fuel = file length + 1 is enough ---------- *)
Lemma rd32_some_length x v r : rd32 x = Some (v, r) -> length x = (4 + length r)%nat.
Proof.
  unfold rd32, rd_le. remember (skipn 4 x) as s eqn:Es.
  destruct (Nat.ltb_spec (length x) 4); [discriminate|].
  intros [= _ <-]. subst s. rewrite skipn_length. lia.
Qed.

Lemma read_chunk_here_consumes m0 x r d : read_chunk_here m0 x r = Ok d ->
  (Nat.leb r (length d) = true) \/ (HDR + length d <= length x)%nat.
Proof.
  unfold read_chunk_here.
  destruct (rd32 x) as [[magic x1]|] eqn:E0; [|discriminate].
  pose proof (rd32_some_length _ _ _ E0) as L0.
  destruct (negb (magic =? MAGIC)).
  - destruct m0 as [g|]; [|discriminate]. destruct (g =? MAGIC); [discriminate|].
    destruct (Nat.leb_spec r (length x)); [|discriminate].
    intros [= <-]. left. rewrite firstn_length. apply Nat.leb_le. lia.
  - destruct (rd32 x1) as [[c x2]|] eqn:E1; [|discriminate].
    pose proof (rd32_some_length _ _ _ E1) as L1.
    destruct (rd32 x2) as [[len body]|] eqn:E2; [|discriminate].
    pose proof (rd32_some_length _ _ _ E2) as L2.
    destruct (N.of_nat r <? len); [discriminate|]. cbv zeta.
    destruct (negb _); [discriminate|].
    destruct (Nat.ltb_spec (length (firstn (N.to_nat len) body)) (N.to_nat len)); [discriminate|].
    intros [= <-]. right. rewrite firstn_length in *. unfold HDR. lia.
Qed.

Theorem read_loop_fuel m0 : forall k1 k2 x rem,
  (length x < k1)%nat -> (length x < k2)%nat ->
  read_loop k1 m0 x rem = read_loop k2 m0 x rem.
Proof.
  induction k1 as [|k1 IH]; intros k2 x rem H1 H2; [lia|].
  destruct k2 as [|k2]; [lia|]. cbn [read_loop].
  destruct (read_chunk_here m0 x rem) as [d| |] eqn:E; try reflexivity.
  destruct (Nat.leb rem (length d)) eqn:El; [reflexivity|].
  apply read_chunk_here_consumes in E. destruct E as [E|E]; [congruence|].
  rewrite (IH k2); [reflexivity| |]; rewrite skipn_length; unfold HDR in *; lia.
Qed.

(* ---------- truncation ---------- *)
Lemma chunk_here_trunc m0 d R k r : chunk_ok d -> (k < HDR + length d)%nat ->
  is_err (read_chunk_here m0 (firstn k (chunk d ++ R)) r) = true.
Proof.
  intros (Hne & Hlen & Hb) Hk. unfold HDR in Hk.
  rewrite firstn_app_le by (rewrite chunk_length; unfold HDR; lia).
  unfold chunk.
  destruct (Nat.lt_ge_cases k 4) as [K|K].
  { unfold read_chunk_here. rewrite rd32_short; [reflexivity|]. rewrite firstn_length. lia. }
  rewrite firstn_app_ge by (rewrite cf_le32_length; lia). rewrite cf_le32_length.
  unfold read_chunk_here. rewrite rd32_le32 by exact cf_magic_lt.
  rewrite N.eqb_refl. cbn [negb].
  destruct (Nat.lt_ge_cases k 8) as [K2|K2].
  { rewrite rd32_short; [reflexivity|]. rewrite firstn_length. lia. }
  rewrite firstn_app_ge by (rewrite cf_le32_length; lia). rewrite cf_le32_length.
  rewrite rd32_le32 by (auto using cf_crc32_range).
  destruct (Nat.lt_ge_cases k 12) as [K3|K3].
  { rewrite rd32_short; [reflexivity|]. rewrite firstn_length. lia. }
  rewrite firstn_app_ge by (rewrite cf_le32_length; lia). rewrite cf_le32_length.
  rewrite rd32_le32 by exact Hlen.
  destruct (N.of_nat r <? N.of_nat (length d)); [reflexivity|]. cbv zeta.
  rewrite Nat2N.id.
  destruct (negb _); [reflexivity|].
  replace (Nat.ltb _ _) with true; [reflexivity|].
  symmetry. apply Nat.ltb_lt. rewrite !firstn_length. lia.
Qed.

Lemma loop_trunc m0 m : Forall chunk_ok m -> forall fuel R k,
  (k < length (W m))%nat ->
  is_err (read_loop fuel m0 (firstn k (W m ++ R)) (length (concat m))) = true.
Proof.
  induction 1 as [|d m Hd Hm IH]; intros fuel R k Hk; [cbn in Hk; lia|].
  destruct fuel as [|fuel]; [reflexivity|].
  rewrite W_cons, app_length, chunk_length in Hk.
  rewrite W_cons, <- app_assoc. cbn [read_loop concat]. rewrite app_length.
  destruct (Nat.lt_ge_cases k (HDR + length d)) as [K|K].
  - pose proof (chunk_here_trunc m0 d (W m ++ R) k (length d + length (concat m)) Hd K) as E.
    destruct (read_chunk_here _ _ _); [discriminate|reflexivity|reflexivity].
  - rewrite firstn_app_ge by (rewrite chunk_length; lia). rewrite chunk_length.
    rewrite chunk_here_ok by (auto; lia).
    assert (Hm' : m <> []) by (intros ->; cbn in Hk; unfold HDR in *; lia).
    pose proof (concat_ok_len m Hm Hm').
    replace (Nat.leb _ _) with false by (symmetry; apply Nat.leb_gt; lia).
    rewrite <- chunk_length, skipn_app_exact by reflexivity.
    replace (length d + length (concat m) - length d)%nat with (length (concat m)) by lia.
    apply is_err_lift. apply IH. rewrite chunk_length. lia.
Qed.

(* A file cut at ANY byte k: a read whose chunks reach beyond the cut reports an
   error (end of file or checksum mismatch) — it never returns data. *)
Theorem truncation_detected A m B k : Forall chunk_ok m -> m <> [] ->
  (k < length (A ++ W m))%nat ->
  is_err (read_at (length A) (length (concat m)) (firstn k (A ++ W m ++ B))) = true.
Proof.
  intros Hm Hne Hk. rewrite app_length in Hk. unfold read_at.
  rewrite skipn_firstn_comm, skipn_app_exact by reflexivity.
  apply loop_trunc; auto.
  pose proof (W_length_ge m). destruct m; [congruence|]. cbn [length] in *. lia.
Qed.

(* ... and a read whose chunks lie before the cut is not affected *)
Theorem truncation_before_cut_harmless A m B k : Forall chunk_ok m -> m <> [] ->
  (length (A ++ W m) <= k)%nat ->
  read_at (length A) (length (concat m)) (firstn k (A ++ W m ++ B)) = Ok (concat m).
Proof.
  intros Hm Hne Hk. rewrite app_assoc.
  rewrite firstn_app_ge by exact Hk. rewrite <- app_assoc.
  apply readat_intact_run; auto.
Qed.

(* ---------- single-byte damage ---------- *)

(* [dmg d fld c'] : c' is chunk d with exactly one byte of field fld replaced by a
   different byte value *)
Inductive dmg (d : bytes) : field -> bytes -> Prop :=
| dmg_magic i y : (i < 4)%nat -> y < 256 -> nth_error (le32 MAGIC) i <> Some y ->
    dmg d FMagic (set_nth i y (le32 MAGIC) ++ le32 (crc32 d) ++ le32 (N.of_nat (length d)) ++ d)
| dmg_crc i y : (i < 4)%nat -> y < 256 -> nth_error (le32 (crc32 d)) i <> Some y ->
    dmg d FCrc (le32 MAGIC ++ set_nth i y (le32 (crc32 d)) ++ le32 (N.of_nat (length d)) ++ d)
| dmg_len i y : (i < 4)%nat -> y < 256 -> nth_error (le32 (N.of_nat (length d))) i <> Some y ->
    dmg d FLen (le32 MAGIC ++ le32 (crc32 d) ++ set_nth i y (le32 (N.of_nat (length d))) ++ d)
| dmg_data pre x y post : d = pre ++ x :: post -> y < 256 -> x <> y ->
    dmg d FData (le32 MAGIC ++ le32 (crc32 d) ++ le32 (N.of_nat (length d)) ++ pre ++ y :: post).

Lemma dmg_length d fld c' : dmg d fld c' -> length c' = length (chunk d).
Proof.
  intros D. unfold chunk. destruct D; subst; rewrite !app_length, ?set_nth_length; reflexivity.
Qed.

Lemma nth_error_set_nth_ne {A} i (y : A) l :
  nth_error l i <> Some y -> (i < length l)%nat -> set_nth i y l <> l.
Proof.
  revert i; induction l as [|x l IH]; intros [|i] H Hl E; cbn in *; try lia.
  - injection E as ->. auto.
  - injection E as E. eapply IH; eauto. lia.
Qed.

Lemma set_nth_bytes_ok i y l : y < 256 -> bytes_ok l -> bytes_ok (set_nth i y l).
Proof.
  intros Hy. revert i; induction l as [|x l IH]; intros [|i] H; cbn; auto;
  inversion H; subst; constructor; auto. apply IH; auto.
Qed.

(* a 4-byte little-endian field with one byte replaced decodes to a different number *)
Lemma le32_damaged n i y : n < 4294967296 -> (i < 4)%nat -> y < 256 ->
  nth_error (le32 n) i <> Some y ->
  le_dec (set_nth i y (le32 n)) <> n /\ le_dec (set_nth i y (le32 n)) < 4294967296
  /\ length (set_nth i y (le32 n)) = 4%nat.
Proof.
  intros Hn Hi Hy Hne.
  assert (L : length (set_nth i y (le32 n)) = 4%nat) by (rewrite set_nth_length; apply cf_le32_length).
  assert (OK : bytes_ok (set_nth i y (le32 n))) by (apply set_nth_bytes_ok; [exact Hy|apply le_enc_ok]).
  repeat split; auto.
  - intro E.
    assert (set_nth i y (le32 n) = le32 n).
    { apply le_dec_inj.
      - exact OK.
      - apply le_enc_ok.
      - rewrite L, cf_le32_length. reflexivity.
      - unfold le32 at 2. rewrite le_dec_enc by (rewrite cf_pow; exact Hn). exact E. }
    revert H. apply nth_error_set_nth_ne; [exact Hne|]. rewrite cf_le32_length. exact Hi.
  - pose proof (le_dec_bound _ OK) as B. rewrite L, cf_pow in B. exact B.
Qed.

(* the length a damaged header announces *)
Definition len_of (c' : bytes) : N := le_dec (firstn 4 (skipn 8 c')).

Lemma len_of_dmg_len d i y :
  len_of (le32 MAGIC ++ le32 (crc32 d) ++ set_nth i y (le32 (N.of_nat (length d))) ++ d)
  = le_dec (set_nth i y (le32 (N.of_nat (length d)))).
Proof.
  unfold len_of.
  rewrite app_assoc, skipn_app_exact by (rewrite app_length, !cf_le32_length; reflexivity).
  rewrite firstn_app_exact by (rewrite set_nth_length; apply cf_le32_length). reflexivity.
Qed.

(* Reading a damaged chunk.
   magic (file still starts with the magic number), checksum, data: always "ErrBad";
   length: ErrBad ("buffer length mismatch" or "checksum mismatch") unless the
   CRC-32 of the mis-sized span equals the stored one. *)
Lemma chunk_here_damaged m0 d fld c' R r : chunk_ok d -> dmg d fld c' ->
  (fld = FMagic -> m0 = Some MAGIC) ->
  is_bad (read_chunk_here m0 (c' ++ R) r) = true \/
  (fld = FLen /\ len_of c' <> N.of_nat (length d) /\ len_of c' <= N.of_nat r /\
   crc32 (firstn (N.to_nat (len_of c')) (d ++ R)) = crc32 d).
Proof.
  intros (Hne & Hlen & Hb) D Hm0.
  pose proof (cf_crc32_range d Hb) as Hc.
  destruct D as [i y Hi Hy Hn | i y Hi Hy Hn | i y Hi Hy Hn | pre x y post Ed Hy Hxy].
  - (* magic *)
    left. destruct (le32_damaged MAGIC i y cf_magic_lt Hi Hy Hn) as (Hd & _ & L).
    unfold read_chunk_here. rewrite <- app_assoc, rd32_bytes by exact L.
    replace (le_dec (set_nth i y (le32 MAGIC)) =? MAGIC) with false
      by (symmetry; apply N.eqb_neq; exact Hd).
    cbn [negb]. rewrite Hm0 by reflexivity. rewrite N.eqb_refl. reflexivity.
  - (* checksum field *)
    left. destruct (le32_damaged (crc32 d) i y Hc Hi Hy Hn) as (Hd & Hlt & L).
    unfold read_chunk_here. rewrite <- !app_assoc.
    rewrite rd32_le32 by exact cf_magic_lt. rewrite N.eqb_refl. cbn [negb].
    rewrite rd32_bytes by exact L. rewrite rd32_le32 by exact Hlen.
    destruct (N.of_nat r <? N.of_nat (length d)); [reflexivity|]. cbv zeta.
    rewrite Nat2N.id, firstn_app_exact by reflexivity.
    replace (crc32 d =? _) with false by (symmetry; apply N.eqb_neq; congruence).
    reflexivity.
  - (* length field *)
    destruct (le32_damaged (N.of_nat (length d)) i y Hlen Hi Hy Hn) as (Hd & Hlt & L).
    rewrite len_of_dmg_len.
    set (len' := le_dec (set_nth i y (le32 (N.of_nat (length d))))) in *.
    unfold read_chunk_here. rewrite <- !app_assoc.
    rewrite rd32_le32 by exact cf_magic_lt. rewrite N.eqb_refl. cbn [negb].
    rewrite rd32_le32 by exact Hc. rewrite rd32_bytes by exact L. fold len'.
    destruct (N.ltb_spec (N.of_nat r) len') as [Hr|Hr]; [left; reflexivity|]. cbv zeta.
    destruct (N.eqb_spec (crc32 (firstn (N.to_nat len') (d ++ R))) (crc32 d)) as [E|E].
    + right. auto.
    + left. reflexivity.
  - (* data byte *)
    left. subst d.
    assert (Hpre : bytes_ok pre) by (apply bytes_ok_app in Hb; tauto).
    assert (Hpost : bytes_ok post /\ x < 256).
    { apply bytes_ok_app in Hb. destruct Hb as [_ Hb]. inversion Hb; auto. }
    unfold read_chunk_here. rewrite <- !app_assoc.
    rewrite rd32_le32 by exact cf_magic_lt. rewrite N.eqb_refl. cbn [negb].
    rewrite rd32_le32 by exact Hc. rewrite rd32_le32 by exact Hlen.
    destruct (N.of_nat r <? _); [reflexivity|]. cbv zeta.
    rewrite Nat2N.id.
    replace (firstn (length (pre ++ x :: post)) (pre ++ (y :: post) ++ R)) with (pre ++ y :: post)
      by (rewrite (app_assoc pre); symmetry; apply firstn_app_exact; rewrite !app_length; reflexivity).
    replace (crc32 (pre ++ y :: post) =? crc32 (pre ++ x :: post)) with false; [reflexivity|].
    symmetry. apply N.eqb_neq. apply crc32_single_byte; [tauto|tauto|exact Hy|tauto|congruence].
Qed.

Lemma rd32_here_W ds X : ds <> [] -> rd32_here (W ds ++ X) = Some MAGIC.
Proof.
  destruct ds as [|d ds]; [congruence|]. intros _.
  rewrite W_cons. unfold chunk, rd32_here. rewrite <- !app_assoc.
  rewrite rd32_le32 by exact cf_magic_lt. reflexivity.
Qed.

(* the read region m1 ++ d :: m2 contains the damaged chunk *)
Lemma read_touching_damage A m1 d m2 B fld c' :
  Forall chunk_ok m1 -> chunk_ok d -> dmg d fld c' ->
  (fld = FMagic -> rd32_here (A ++ W m1 ++ c' ++ W m2 ++ B) = Some MAGIC) ->
  is_bad (read_at (length A) (length (concat (m1 ++ d :: m2))) (A ++ W m1 ++ c' ++ W m2 ++ B)) = true \/
  (fld = FLen /\ len_of c' <> N.of_nat (length d) /\
   len_of c' <= N.of_nat (length (concat (d :: m2))) /\
   crc32 (firstn (N.to_nat (len_of c')) (d ++ W m2 ++ B)) = crc32 d).
Proof.
  intros Hm1 Hd D Hm0. unfold read_at.
  rewrite skipn_app_exact by reflexivity.
  set (f' := A ++ W m1 ++ c' ++ W m2 ++ B) in *.
  rewrite concat_app.  rewrite app_length.
  pose proof (chunk_ok_len d Hd) as Hl.
  assert (Hpos : (0 < length (concat (d :: m2)))%nat) by (cbn [concat]; rewrite app_length; lia).
  rewrite loop_reach; auto.
  2:{ unfold f'. rewrite !app_length. pose proof (W_length_ge m1). lia. }
  destruct (S (length f') - length m1)%nat as [|k] eqn:Ek.
  { unfold f' in Ek. rewrite !app_length in Ek. pose proof (W_length_ge m1). lia. }
  cbn [read_loop].
  destruct (chunk_here_damaged (rd32_here f') d fld c' (W m2 ++ B) (length (concat (d :: m2))) Hd D Hm0)
    as [E|E].
  - left. destruct (read_chunk_here _ _ _); try discriminate. reflexivity.
  - right. exact E.
Qed.

(* One altered byte in the DATA or the CHECKSUM field of a chunk: every read that
   touches the chunk fails with a checksum error (from crc32_single_byte: CRC-32
   detects every single-byte change, for data of any length).  Reads that do not
   touch it return the original data: that is readat_intact_run, which holds for
   arbitrary bytes A, B around the run. *)
Theorem data_or_crc_byte_damage_detected A m1 d m2 B fld c' :
  Forall chunk_ok m1 -> chunk_ok d -> dmg d fld c' -> fld = FCrc \/ fld = FData ->
  is_bad (read_at (length A) (length (concat (m1 ++ d :: m2))) (A ++ W m1 ++ c' ++ W m2 ++ B)) = true.
Proof.
  intros Hm1 Hd D Hf.
  destruct (read_touching_damage A m1 d m2 B fld c' Hm1 Hd D) as [E|(E & _)]; auto.
  - intros ->. destruct Hf; discriminate.
  - subst. destruct Hf; discriminate.
Qed.

(* One altered byte in the MAGIC number of a chunk that is not the first of the
   file: rejected ("offset is not the start of a chunk"). *)
Theorem magic_damage_later_chunk_detected a m1 d m2 B c' :
  Forall chunk_ok m1 -> chunk_ok d -> dmg d FMagic c' -> a ++ m1 <> [] ->
  is_bad (read_at (length (W a)) (length (concat (m1 ++ d :: m2))) (W a ++ W m1 ++ c' ++ W m2 ++ B)) = true.
Proof.
  intros Hm1 Hd D Hne.
  destruct (read_touching_damage (W a) m1 d m2 B FMagic c' Hm1 Hd D) as [E|(E & _)]; auto; [|discriminate].
  intros _. rewrite app_assoc, <- W_app. apply rd32_here_W. exact Hne.
Qed.

(* One altered byte in the LENGTH field: what is guaranteed, precisely.
   The read fails ("buffer length mismatch" when the announced length exceeds what
   is left of the buffer, else "checksum mismatch"), unless the announced length
   len' <> len fits the buffer AND the CRC-32 of the first len' bytes after the
   header equals the stored CRC-32 of the original data: a CRC collision between
   byte strings of different lengths, which CRC-32 does not exclude. *)
Theorem length_damage_detected_or_mismatch A m1 d m2 B c' :
  Forall chunk_ok m1 -> chunk_ok d -> dmg d FLen c' ->
  is_bad (read_at (length A) (length (concat (m1 ++ d :: m2))) (A ++ W m1 ++ c' ++ W m2 ++ B)) = true \/
  (len_of c' <> N.of_nat (length d) /\
   len_of c' <= N.of_nat (length (concat (d :: m2))) /\
   crc32 (firstn (N.to_nat (len_of c')) (d ++ W m2 ++ B)) = crc32 d).
Proof.
  intros Hm1 Hd D.
  destruct (read_touching_damage A m1 d m2 B FLen c' Hm1 Hd D) as [E|(_ & E)]; auto.
  discriminate.
Qed.

(* the common case in siglens (one block = one chunk, buffer = block length): a
   length field damaged to a LARGER value is always refused *)
Corollary length_damage_single_chunk_larger A d B c' :
  chunk_ok d -> dmg d FLen c' -> N.of_nat (length d) < len_of c' ->
  is_bad (read_at (length A) (length d) (A ++ c' ++ B)) = true.
Proof.
  intros Hd D Hgt.
  destruct (length_damage_detected_or_mismatch A [] d [] B c' (Forall_nil _) Hd D) as [E|(_ & E & _)].
  - cbn [W write_chunks map concat app] in E. rewrite app_nil_r in E. exact E.
  - cbn [concat] in E. rewrite app_nil_r in E. lia.
Qed.

(* ---------- from "byte i of the file set to y" to a damaged chunk ---------- *)
Lemma set_nth_app_l {A} i (y : A) a b : (i < length a)%nat ->
  set_nth i y (a ++ b) = set_nth i y a ++ b.
Proof.
  revert i; induction a as [|x a IH]; intros i H; cbn in H; [lia|].
  destruct i as [|i]; cbn; [reflexivity|]. rewrite IH by lia. reflexivity.
Qed.

Lemma set_nth_app_r {A} i (y : A) a b :
  set_nth (length a + i) y (a ++ b) = a ++ set_nth i y b.
Proof. induction a as [|x a IH]; cbn; [reflexivity|]. rewrite IH. reflexivity. Qed.

Lemma set_nth_same {A} i (y : A) l : nth_error l i = Some y -> set_nth i y l = l.
Proof.
  revert i; induction l as [|x l IH]; intros [|i] H; cbn in *; try discriminate.
  - congruence.
  - rewrite IH by exact H. reflexivity.
Qed.

Lemma locate_spec ds : forall i j o, locate ds i = Some (j, o) ->
  exists pre d post, ds = pre ++ d :: post /\ length pre = j /\
    (o < HDR + length d)%nat /\ i = (length (W pre) + o)%nat.
Proof.
  induction ds as [|d r IH]; intros i j o H; cbn [locate] in H; [discriminate|].
  destruct (Nat.ltb_spec i (HDR + length d)) as [L|L].
  - injection H as <- <-. exists [], d, r. cbn. auto.
  - destruct (locate r (i - (HDR + length d))) as [[j' o']|] eqn:E; [|discriminate].
    injection H as <- <-.
    destruct (IH _ _ _ E) as (pre & d' & post & -> & Hj & Ho & Hi).
    exists (d :: pre), d', post. cbn [app length]. repeat split; auto.
    rewrite W_cons, app_length, chunk_length. lia.
Qed.

Lemma nth_skipn_middle {A} (pre : list A) d post dflt :
  nth (length pre) (pre ++ d :: post) dflt = d /\ skipn (S (length pre)) (pre ++ d :: post) = post.
Proof.
  split; [apply nth_middle|].
  induction pre as [|x pre IH]; cbn [length app]; [reflexivity|].
  cbn [skipn]. exact IH.
Qed.

Lemma set_nth_app_r' {A} i (y : A) a b : (length a <= i)%nat ->
  set_nth i y (a ++ b) = a ++ set_nth (i - length a) y b.
Proof.
  intros H. replace i with (length a + (i - length a))%nat at 1 by lia. apply set_nth_app_r.
Qed.

Lemma dmg_of_set_nth d o y : (o < HDR + length d)%nat -> y < 256 ->
  nth_error (chunk d) o <> Some y ->
  dmg d (field_of o) (set_nth o y (chunk d)) /\
  (field_of o = FLen ->
   len_of (set_nth o y (chunk d)) = le_dec (set_nth (o - 8) y (le32 (N.of_nat (length d))))).
Proof.
  unfold HDR, chunk, field_of. intros Ho Hy Hn.
  destruct (Nat.ltb_spec o 4) as [K1|K1].
  { split; [|discriminate].
    rewrite nth_error_app1 in Hn by (rewrite cf_le32_length; lia).
    rewrite set_nth_app_l by (rewrite cf_le32_length; lia).
    apply dmg_magic; auto. }
  rewrite nth_error_app2 in Hn by (rewrite cf_le32_length; lia).
  rewrite set_nth_app_r' by (rewrite cf_le32_length; lia).
  rewrite cf_le32_length in *.
  destruct (Nat.ltb_spec o 8) as [K2|K2].
  { split; [|discriminate].
    rewrite nth_error_app1 in Hn by (rewrite cf_le32_length; lia).
    rewrite set_nth_app_l by (rewrite cf_le32_length; lia).
    apply dmg_crc; auto. lia. }
  rewrite nth_error_app2 in Hn by (rewrite cf_le32_length; lia).
  rewrite set_nth_app_r' by (rewrite cf_le32_length; lia).
  rewrite cf_le32_length in *.
  replace (o - 4 - 4)%nat with (o - 8)%nat in * by lia.
  destruct (Nat.ltb_spec o 12) as [K3|K3].
  { rewrite nth_error_app1 in Hn by (rewrite cf_le32_length; lia).
    rewrite set_nth_app_l by (rewrite cf_le32_length; lia).
    split; [apply dmg_len; auto; lia|]. intros _. apply len_of_dmg_len. }
  split; [|discriminate].
  rewrite nth_error_app2 in Hn by (rewrite cf_le32_length; lia).
  rewrite set_nth_app_r' by (rewrite cf_le32_length; lia).
  rewrite cf_le32_length in *.
  destruct (set_nth_split (o - 8 - 4) y d) as (pre & x & post & E1 & E2 & _ & E4); [lia|].
  rewrite E2. apply (dmg_data d pre x y post); auto. rewrite E4 in Hn. congruence.
Qed.

(* a run m of the chunk list a ++ m ++ b, and the damaged chunk d = (pre ++ d :: post)[|pre|]:
   d lies before the run, inside it, or after it *)
Lemma run_position {A} (a m b pre post : list A) d : a ++ m ++ b = pre ++ d :: post ->
  (exists l, a = pre ++ d :: l /\ post = l ++ m ++ b) \/
  (exists m1 m2, m = m1 ++ d :: m2 /\ pre = a ++ m1 /\ post = m2 ++ b) \/
  (exists l, pre = a ++ m ++ l /\ b = l ++ d :: post).
Proof.
  intros E. apply app_eq_app in E. destruct E as (l & [[-> E]|[-> E]]).
  - destruct l as [|x l].
    + cbn [app] in E. rewrite app_nil_r.
      destruct m as [|x m].
      * cbn [app] in E. right. right. exists []. rewrite app_nil_r. cbn. auto.
      * injection E as <- ->. right. left. exists [], m. rewrite app_nil_r. auto.
    + injection E as <- ->. left. exists l. auto.
  - apply app_eq_app in E. destruct E as (l2 & [[-> E]|[-> E]]).
    + destruct l2 as [|x l2].
      * cbn [app] in E. subst b. right. right. exists []. rewrite !app_nil_r. auto.
      * injection E as <- ->. right. left. exists l, l2. auto.
    + right. right. exists l2. auto.
Qed.

(* ---------- the integrity theorem ---------- *)
(* Full statement (FALSE for the code as written, see magic_damage_first_chunk_refuted):
     for every file W ds, every position i and value y, every chunk-aligned read:
       read_at off len (set_nth i y (W ds)) = Ok out -> out = the original data.
   Proved with the exact boolean guard [damage_guard ds i y]. *)
Theorem never_altered_data_guarded ds i y a m b out :
  Forall chunk_ok ds -> ds = a ++ m ++ b -> m <> [] -> y < 256 ->
  damage_guard ds i y = true ->
  read_at (length (W a)) (length (concat m)) (set_nth i y (W ds)) = Ok out ->
  out = concat m.
Proof.
  intros Hds Eds Hne Hy G R.
  assert (Hm : Forall chunk_ok m).
  { subst ds. apply Forall_app in Hds. destruct Hds as [_ H]. apply Forall_app in H. tauto. }
  destruct (nth_error (W ds) i) as [x|] eqn:Ex.
  2:{ (* no such byte: guard is false *)
      unfold damage_guard in G. destruct (locate ds i) as [[j o]|] eqn:L; [|discriminate].
      destruct (locate_spec _ _ _ _ L) as (pre & d & post & -> & _ & Ho & ->).
      apply nth_error_None in Ex. rewrite W_app, W_cons, !app_length, chunk_length in Ex. lia. }
  destruct (N.eq_dec x y) as [->|Hxy].
  { (* nothing changed *)
    rewrite set_nth_same in R by exact Ex. subst ds. rewrite !W_app in R.
    rewrite readat_intact_run in R by auto. congruence. }
  unfold damage_guard in G. destruct (locate ds i) as [[j o]|] eqn:L; [|discriminate].
  destruct (locate_spec _ _ _ _ L) as (pre & d & post & E & Hj & Ho & Hi).
  assert (Hd : chunk_ok d).
  { rewrite E in Hds. apply Forall_app in Hds. destruct Hds as [_ H]. inversion H; auto. }
  assert (Hnth : nth_error (chunk d) o <> Some y).
  { rewrite E, W_app, W_cons, Hi in Ex. rewrite nth_error_app2 in Ex by lia.
    replace (length (W pre) + o - length (W pre))%nat with o in Ex by lia.
    rewrite nth_error_app1 in Ex by (rewrite chunk_length; lia). congruence. }
  destruct (dmg_of_set_nth d o y Ho Hy Hnth) as [D Dlen].
  set (c' := set_nth o y (chunk d)) in *.
  assert (F' : set_nth i y (W ds) = W pre ++ c' ++ W post).
  { rewrite E, W_app, W_cons, Hi, set_nth_app_r.
    rewrite set_nth_app_l by (rewrite chunk_length; lia). reflexivity. }
  rewrite F' in R.
  rewrite Eds in E.
  destruct (run_position a m b pre post d E) as [(l & -> & ->)|[(m1 & m2 & -> & -> & ->)|(l & -> & ->)]].
  - (* damage before the run *)
    rewrite !W_app, W_cons, app_length, app_length in R.
    rewrite <- (dmg_length d _ c' D) in R.
    replace (W pre ++ c' ++ W l ++ W m ++ W b) with ((W pre ++ c' ++ W l) ++ W m ++ W b) in R
      by (rewrite <- !app_assoc; reflexivity).
    replace (length (W pre) + (length c' + length (W l)))%nat with (length (W pre ++ c' ++ W l)) in R
      by (rewrite !app_length; lia).
    rewrite readat_intact_run in R by auto. congruence.
  - (* damage inside the run: the read cannot succeed *)
    exfalso.
    apply Forall_app in Hm. destruct Hm as [Hm1 _].
    rewrite !W_app in R. rewrite <- !app_assoc in R.
    destruct (read_touching_damage (W a) m1 d m2 (W b) (field_of o) c' Hm1 Hd D) as [Eb|(Ef & _ & Hle & Ecrc)].
    + intros Ef. rewrite Ef in G.
      rewrite app_assoc, <- W_app. apply rd32_here_W.
      rewrite <- Hj in G.
      destruct (a ++ m1); [cbn in G|]; discriminate.
    + rewrite R in Eb. discriminate.
    + rewrite Ef in G. rewrite <- Hj in G. rewrite Eds, E in G.
      destruct (nth_skipn_middle (a ++ m1) d (m2 ++ b) []) as [N1 N2].
      rewrite N1, N2 in G. rewrite <- Dlen in G by exact Ef.
      change (concat (map chunk (m2 ++ b))) with (W (m2 ++ b)) in G. rewrite W_app in G.
      apply negb_true_iff, N.eqb_neq in G. apply G. rewrite <- Ecrc. f_equal.
      rewrite N2Nat.inj_min, Nat2N.id. apply firstn_min.
  - (* damage after the run *)
    rewrite !W_app in R. rewrite <- !app_assoc in R.
    rewrite readat_intact_run in R by auto. congruence.
Qed.

(* the guard is satisfiable at every kind of position (non-vacuity):
   two chunks [1;2;3] and [4;5]; data byte, crc byte, length byte, magic of chunk 1 *)
Example damage_guard_sat :
  map (fun i => damage_guard [[1;2;3];[4;5]] i 255) [12%nat; 5%nat; 8%nat; 15%nat; 27%nat]
  = [true; true; true; true; true].
Proof. vm_compute. reflexivity. Qed.

Example chunk_ok_sat : Forall chunk_ok [[1;2;3];[4;5]].
Proof.
  repeat constructor; try discriminate; try (cbn; lia).
Qed.

(* ---------- the defect: magic number of the FIRST chunk ---------- *)
(* One bit of the first chunk's magic number flipped (0x21 -> 0x20): ReadAt takes the
   file for a legacy file and returns the 12 header bytes (+ data prefix) as data,
   err == nil.  Here: a one-chunk file holding [1;2;3;...;16], read of the chunk. *)
Theorem magic_damage_first_chunk_refuted :
  exists ds i y a m b out,
    Forall chunk_ok ds /\ ds = a ++ m ++ b /\ m <> [] /\ y < 256 /\
    read_at (length (W a)) (length (concat m)) (set_nth i y (W ds)) = Ok out /\
    out <> concat m.
Proof.
  exists [[1;2;3;4;5;6;7;8;9;10;11;12;13;14;15;16]], 0%nat, 32, [],
         [[1;2;3;4;5;6;7;8;9;10;11;12;13;14;15;16]], [].
  exists [32;67;101;135; 241;128;76;9; 16;0;0;0; 1;2;3;4].
  split; [repeat constructor; try discriminate; cbn; lia|].
  split; [reflexivity|]. split; [discriminate|]. split; [reflexivity|].
  split; [vm_compute; reflexivity|vm_compute; discriminate].
Qed.

(* ---------- the writer: AppendPartialChunk* + Flush writes exactly one chunk ---------- *)
Lemma lxor_ff x : N.lxor (N.lxor x 4294967295) 4294967295 = x.
Proof. rewrite N.lxor_assoc, N.lxor_nilpotent. apply N.lxor_0_r. Qed.

Lemma crc_update_app D p : crc_update (crc32 D) p = crc32 (D ++ p).
Proof.
  unfold crc_update, crc32. rewrite lxor_ff. unfold crc_raw. rewrite fold_left_app. reflexivity.
Qed.

Lemma write_at_mid (a b bs c : bytes) : length b = length bs ->
  write_at (length a) bs (a ++ b ++ c) = a ++ bs ++ c.
Proof.
  intros H. unfold write_at.
  rewrite firstn_app_exact by reflexivity.
  replace (length a - length (a ++ b ++ c))%nat with 0%nat by (rewrite !app_length; lia).
  cbn [repeat app].
  rewrite skipn_app, skipn_all2 by lia. cbn [app].
  replace (length a + length bs - length a)%nat with (length b) by lia.
  rewrite skipn_app_exact by reflexivity. reflexivity.
Qed.

(* partial writes after the chunk was started *)
Lemma run_partials_started parts : forall s D, (0 < w_len s)%nat -> w_crc s = crc32 D ->
  w_run s (map OpPartial parts) =
  {| w_file := w_file s ++ concat parts; w_off := w_off s;
     w_crc := crc32 (D ++ concat parts); w_len := (w_len s + length (concat parts))%nat |}.
Proof.
  induction parts as [|p parts IH]; intros s D Hl Hc.
  - cbn [map w_run fold_left concat]. rewrite !app_nil_r, Nat.add_0_r, <- Hc. destruct s; reflexivity.
  - cbn [map concat]. unfold w_run. cbn [fold_left]. fold (w_run).
    destruct p as [|x p].
    + cbn [w_step app]. apply IH; auto.
    + cbn [w_step]. replace (Nat.eqb (w_len s) 0) with false by (symmetry; apply Nat.eqb_neq; lia).
      change (fold_left (fun s o => match w_step s o with Some s' => s' | None => s end) (map OpPartial parts) ?s0)
        with (w_run s0 (map OpPartial parts)).
      rewrite (IH _ (D ++ x :: p)); cbn [w_file w_off w_crc w_len].
      * rewrite <- !app_assoc, app_length, Nat.add_assoc. reflexivity.
      * lia.
      * rewrite Hc. apply crc_update_app.
Qed.

(* writeWip: AppendPartialChunk(encType) (one byte), AppendPartialChunk(compressed), Flush
   appends exactly chunk (encType ++ compressed) to the column file *)
Theorem write_block_is_chunk f p rest : p <> [] ->
  write_block f (p :: rest) = f ++ chunk (p ++ concat rest).
Proof.
  intros Hp. destruct p as [|x p]; [congruence|].
  unfold write_block, w_run. rewrite fold_left_app. cbn [map fold_left].
  cbn [w_step w_init w_len Nat.eqb w_file w_crc Nat.add].
  change (fold_left (fun s o => match w_step s o with Some s' => s' | None => s end) (map OpPartial rest) ?s0)
    with (w_run s0 (map OpPartial rest)).
  rewrite (run_partials_started rest _ (x :: p)); cbn [w_file w_off w_crc w_len].
  2: cbn [length]; lia.
  2: { change 0 with (crc32 []). apply crc_update_app. }
  set (D := (x :: p) ++ concat rest).
  replace (length (x :: p) + length (concat rest))%nat with (length D) by (unfold D; rewrite app_length; reflexivity).
  replace (((f ++ repeat 0 HDR) ++ x :: p) ++ concat rest)
    with (f ++ [0;0;0;0] ++ ([0;0;0;0] ++ [0;0;0;0] ++ D))
    by (unfold D, HDR; cbn [repeat]; rewrite <- !app_assoc; reflexivity).
  rewrite write_at_mid by (rewrite cf_le32_length; reflexivity).
  replace (length f + 4)%nat with (length (f ++ le32 MAGIC)) by (rewrite app_length, cf_le32_length; reflexivity).
  replace (f ++ le32 MAGIC ++ [0;0;0;0] ++ [0;0;0;0] ++ D)
    with ((f ++ le32 MAGIC) ++ [0;0;0;0] ++ ([0;0;0;0] ++ D))
    by (rewrite <- !app_assoc; reflexivity).
  rewrite write_at_mid by (rewrite cf_le32_length; reflexivity).
  replace (length f + 8)%nat with (length ((f ++ le32 MAGIC) ++ le32 (crc32 D)))
    by (rewrite !app_length, !cf_le32_length; lia).
  replace ((f ++ le32 MAGIC) ++ le32 (crc32 D) ++ [0;0;0;0] ++ D)
    with (((f ++ le32 MAGIC) ++ le32 (crc32 D)) ++ [0;0;0;0] ++ D)
    by (rewrite <- !app_assoc; reflexivity).
  rewrite write_at_mid by (rewrite cf_le32_length; reflexivity).
  unfold chunk. rewrite <- !app_assoc. reflexivity.
Qed.

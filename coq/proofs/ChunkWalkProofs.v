(* ChunkWalkProofs.v — proofs about SigM.ChunkWalk (C02): the two nested index loops cut the
   list into chunks of n, every element exactly once and in order; the variant with `i++` in
   the outer header as well loses the element at index n whenever there is more than one chunk. *)
From SigM Require Import ChunkWalk.
From Coq Require Import List Arith Bool Lia Permutation. Import ListNotations.

(* ---------- helpers on lists ---------- *)

Lemma cw_skipn_cons {A} : forall (l : list A) i x,
  nth_error l i = Some x -> skipn i l = x :: skipn (S i) l.
Proof.
  induction l as [|a l IH]; intros i x H.
  - destruct i; discriminate.
  - destruct i as [|i].
    + simpl in H. inversion H; subst. reflexivity.
    + simpl in H. change (skipn (S i) (a :: l)) with (skipn i l).
      change (skipn (S (S i)) (a :: l)) with (skipn (S i) l). apply IH; assumption.
Qed.

Lemma cw_skipn_nil {A} : forall (l : list A) i, (length l <= i)%nat -> skipn i l = [].
Proof.
  induction l as [|a l IH]; intros i H.
  - destruct i; reflexivity.
  - destruct i as [|i]; simpl in H; [lia|]. simpl. apply IH. lia.
Qed.

Lemma cw_skipn_skipn {A} : forall (l : list A) i n, skipn n (skipn i l) = skipn (i + n) l.
Proof.
  induction l as [|a l IH]; intros i n.
  - rewrite !skipn_nil. reflexivity.
  - destruct i as [|i]; simpl; [reflexivity|]. apply IH.
Qed.

Lemma cw_skipn_length {A} : forall (l : list A) i, length (skipn i l) = (length l - i)%nat.
Proof.
  induction l as [|a l IH]; intros i.
  - rewrite skipn_nil. reflexivity.
  - destruct i as [|i]; simpl; [reflexivity|]. apply IH.
Qed.

Lemma cw_firstn_length {A} : forall (l : list A) n, length (firstn n l) = Nat.min n (length l).
Proof.
  induction l as [|a l IH]; intros n.
  - rewrite firstn_nil. simpl. lia.
  - destruct n as [|n]; simpl; [reflexivity|]. rewrite IH. reflexivity.
Qed.

Lemma cw_firstn_skipn {A} : forall (l : list A) n, firstn n l ++ skipn n l = l.
Proof.
  induction l as [|a l IH]; intros n.
  - rewrite firstn_nil, skipn_nil. reflexivity.
  - destruct n as [|n]; simpl; [reflexivity|]. rewrite IH. reflexivity.
Qed.

Lemma cw_firstn_all {A} : forall (l : list A) n, (length l <= n)%nat -> firstn n l = l.
Proof.
  induction l as [|a l IH]; intros n H.
  - apply firstn_nil.
  - destruct n as [|n]; simpl in H; [lia|]. simpl. rewrite IH by lia. reflexivity.
Qed.

(* an element of firstn n l sits at an index below n *)
Lemma cw_in_firstn {A} : forall n (l : list A) x d,
  In x (firstn n l) -> exists m, (m < n)%nat /\ (m < length l)%nat /\ nth m l d = x.
Proof.
  induction n as [|n IH]; intros l x d H.
  - simpl in H. contradiction.
  - destruct l as [|a l]; simpl in H; [contradiction|].
    destruct H as [H|H].
    + exists 0%nat. simpl. repeat split; try lia. assumption.
    + destruct (IH l x d H) as [m [H1 [H2 H3]]].
      exists (S m). simpl. repeat split; try lia. assumption.
Qed.

Lemma cw_nth_skipn {A} : forall (l : list A) i m d, nth m (skipn i l) d = nth (i + m) l d.
Proof.
  induction l as [|a l IH]; intros i m d.
  - rewrite skipn_nil. destruct m; destruct (i + _)%nat; reflexivity.
  - destruct i as [|i]; simpl; [reflexivity|]. apply IH.
Qed.

(* an element of the window [i, i+n) of l sits at an index in that window *)
Lemma cw_in_window {A} : forall n i (l : list A) x d,
  In x (firstn n (skipn i l)) ->
  exists k, (i <= k)%nat /\ (k < i + n)%nat /\ (k < length l)%nat /\ nth k l d = x.
Proof.
  intros n i l x d H.
  destruct (cw_in_firstn n (skipn i l) x d H) as [m [H1 [H2 H3]]].
  rewrite cw_skipn_length in H2. rewrite cw_nth_skipn in H3.
  exists (i + m)%nat. repeat split; try lia. assumption.
Qed.

(* ---------- the inner loop ---------- *)

(* the inner loop takes min(n-j, len-i) elements starting at index i *)
Lemma go_inner_spec {A} : forall fuel n (l : list A) j i nm,
  (Nat.min (n - j) (length l - i) <= fuel)%nat ->
  go_inner fuel n l j i nm = (nm ++ firstn (n - j) (skipn i l), (i + Nat.min (n - j) (length l - i))%nat).
Proof.
  assert (STOP : forall n (l : list A) j i nm,
    Nat.min (n - j) (length l - i) = 0%nat ->
    (nm, i) = (nm ++ firstn (n - j) (skipn i l), (i + Nat.min (n - j) (length l - i))%nat)).
  { intros n l j i nm H. rewrite H, Nat.add_0_r.
    destruct (Nat.eq_dec (n - j) 0) as [E|E].
    - rewrite E. simpl. rewrite app_nil_r. reflexivity.
    - rewrite (cw_skipn_nil l i) by lia. rewrite firstn_nil, app_nil_r. reflexivity. }
  induction fuel as [|f IH]; intros n l j i nm H.
  - simpl. apply STOP. lia.
  - simpl.
    destruct (j <? n) eqn:Ej; simpl.
    2:{ apply Nat.ltb_ge in Ej. apply STOP. lia. }
    destruct (i <? length l) eqn:Ei.
    2:{ apply Nat.ltb_ge in Ei. apply STOP. lia. }
    apply Nat.ltb_lt in Ej. apply Nat.ltb_lt in Ei.
    destruct (nth_error l i) as [x|] eqn:Ex.
    2:{ apply nth_error_None in Ex. lia. }
    rewrite IH by lia.
    rewrite (cw_skipn_cons l i x Ex).
    f_equal; [|lia].
    replace (n - j)%nat with (S (n - S j)) by lia.
    cbn [firstn]. rewrite <- app_assoc. reflexivity.
Qed.

(* ---------- the outer loop ---------- *)

Lemma go_outer_stop {A} : forall fuel step n (l : list A) i,
  (length l <= i)%nat -> go_outer fuel step n l i = [].
Proof.
  intros fuel step n l i H. destruct fuel as [|f]; [reflexivity|].
  cbn [go_outer]. apply Nat.ltb_ge in H. rewrite H. reflexivity.
Qed.

Lemma go_outer_step {A} : forall f step n (l : list A) i,
  (i < length l)%nat ->
  go_outer (S f) step n l i =
  firstn n (skipn i l) :: go_outer f step n l (i + Nat.min n (length l - i) + step).
Proof.
  intros f step n l i H. cbn [go_outer].
  apply Nat.ltb_lt in H. rewrite H.
  rewrite go_inner_spec by lia.
  rewrite Nat.sub_0_r. reflexivity.
Qed.

Lemma go_outer_chunks {A} : forall fuel n (l : list A) i,
  go_outer fuel 0 n l i = chunks_of fuel n (skipn i l).
Proof.
  induction fuel as [|f IH]; intros n l i; [reflexivity|].
  destruct (Nat.lt_ge_cases i (length l)) as [H|H].
  - rewrite go_outer_step by assumption.
    cbn [chunks_of].
    destruct (skipn i l) as [|a s] eqn:Es.
    { apply (f_equal (@length A)) in Es. rewrite cw_skipn_length in Es. simpl in Es. lia. }
    rewrite <- Es. f_equal.
    rewrite IH. f_equal. rewrite cw_skipn_skipn, Nat.add_0_r.
    destruct (Nat.le_gt_cases n (length l - i)) as [Hn|Hn].
    + f_equal. lia.
    + rewrite !cw_skipn_nil by lia. reflexivity.
  - rewrite go_outer_stop by assumption.
    rewrite cw_skipn_nil by assumption. reflexivity.
Qed.

(* the code = cutting n elements off the front until nothing is left *)
Theorem go_chunks_spec {A} : forall n (l : list A), (1 <= n)%nat -> go_chunks n l = chunks_of (length l) n l.
Proof.
  intros n l _. unfold go_chunks. rewrite go_outer_chunks. reflexivity.
Qed.

Lemma chunks_of_concat {A} : forall fuel n (l : list A),
  (1 <= n)%nat -> (length l <= fuel)%nat -> concat (chunks_of fuel n l) = l.
Proof.
  induction fuel as [|f IH]; intros n l Hn H.
  - destruct l; simpl in H; [reflexivity|lia].
  - destruct l as [|a l]; [reflexivity|].
    cbn [chunks_of concat]. rewrite IH.
    + apply cw_firstn_skipn.
    + assumption.
    + rewrite cw_skipn_length. lia.
Qed.

(* every element exactly once, in order *)
Theorem go_chunks_concat {A} : forall n (l : list A), (1 <= n)%nat -> concat (go_chunks n l) = l.
Proof.
  intros n l Hn. rewrite go_chunks_spec by assumption. apply chunks_of_concat; [assumption|lia].
Qed.

Lemma chunks_of_sizes {A} : forall fuel n (l : list A), (1 <= n)%nat ->
  Forall (fun c => (1 <= length c <= n)%nat) (chunks_of fuel n l).
Proof.
  induction fuel as [|f IH]; intros n l Hn; [constructor|].
  destruct l as [|a l]; [constructor|].
  cbn [chunks_of]. constructor.
  - rewrite cw_firstn_length. simpl length. lia.
  - apply IH. assumption.
Qed.

(* chunk sizes: no chunk is empty or longer than n; every chunk but the last is full *)
Theorem go_chunks_sizes {A} : forall n (l : list A), (1 <= n)%nat ->
  Forall (fun c => (1 <= length c <= n)%nat) (go_chunks n l).
Proof.
  intros n l Hn. rewrite go_chunks_spec by assumption. apply chunks_of_sizes. assumption.
Qed.

Lemma chunks_of_full {A} : forall fuel n (l : list A) k,
  (S k < length (chunks_of fuel n l))%nat -> length (nth k (chunks_of fuel n l) []) = n.
Proof.
  induction fuel as [|f IH]; intros n l k H.
  - simpl in H. lia.
  - destruct l as [|a l]; [simpl in H; lia|].
    cbn [chunks_of] in *. cbn [length] in H.
    destruct k as [|k].
    + cbn [nth]. rewrite cw_firstn_length.
      destruct f as [|f']; [simpl in H; lia|].
      cbn [chunks_of] in H.
      destruct (skipn n (a :: l)) as [|b s] eqn:Es; [simpl in H; lia|].
      apply (f_equal (@length A)) in Es. rewrite cw_skipn_length in Es. simpl length in Es.
      simpl length. lia.
    + cbn [nth]. apply IH. lia.
Qed.

Theorem go_chunks_full {A} : forall n (l : list A) k, (1 <= n)%nat ->
  (S k < length (go_chunks n l))%nat -> length (nth k (go_chunks n l) []) = n.
Proof.
  intros n l k Hn. rewrite go_chunks_spec by assumption. apply chunks_of_full.
Qed.

(* ---------- the variant with i++ in the outer header ---------- *)

Lemma go_outer_one_chunk {A} : forall step n (l : list A), (length l <= n)%nat ->
  go_outer (length l) step n l 0 = match l with [] => [] | _ => [l] end.
Proof.
  intros step n l H. destruct l as [|a l]; [reflexivity|].
  change (length (a :: l)) with (S (length l)) at 1.
  rewrite go_outer_step by (simpl; lia).
  rewrite go_outer_stop by lia.
  change (skipn 0 (a :: l)) with (a :: l).
  rewrite cw_firstn_all by assumption. reflexivity.
Qed.

(* identical when everything fits into one chunk ... *)
Theorem go_chunks_skip_small {A} : forall n (l : list A), (1 <= n)%nat -> (length l <= n)%nat ->
  go_chunks_skip n l = go_chunks n l.
Proof.
  intros n l _ H. unfold go_chunks_skip, go_chunks.
  rewrite !go_outer_one_chunk by assumption. reflexivity.
Qed.

(* every element of the chunks from index i on is an element of l at an index >= i *)
Lemma go_outer_index {A} : forall fuel step n (l : list A) i x d,
  In x (concat (go_outer fuel step n l i)) ->
  exists k, (i <= k)%nat /\ (k < length l)%nat /\ nth k l d = x.
Proof.
  induction fuel as [|f IH]; intros step n l i x d H.
  - simpl in H. contradiction.
  - destruct (Nat.lt_ge_cases i (length l)) as [Hi|Hi].
    + rewrite go_outer_step in H by assumption.
      cbn [concat] in H. apply in_app_or in H. destruct H as [H|H].
      * destruct (cw_in_window n i l x d H) as [k [H1 [_ [H3 H4]]]].
        exists k. repeat split; assumption.
      * destruct (IH _ _ _ _ _ d H) as [k [H1 [H2 H3]]].
        exists k. repeat split; try assumption. lia.
    + rewrite go_outer_stop in H by assumption. simpl in H. contradiction.
Qed.

(* ... and otherwise the element at index n is in no chunk *)
Theorem go_chunks_skip_loses {A} : forall n (l : list A) d, (1 <= n)%nat -> NoDup l -> (n < length l)%nat ->
  ~ In (nth n l d) (concat (go_chunks_skip n l)).
Proof.
  intros n l d Hn ND Hl H. unfold go_chunks_skip in H.
  destruct (length l) as [|f] eqn:El; [lia|].
  rewrite go_outer_step in H by lia. rewrite <- El in *.
  cbn [concat] in H. apply in_app_or in H.
  assert (U : forall k, (k < length l)%nat -> nth k l d = nth n l d -> k = n).
  { intros k Hk E. apply (proj1 (NoDup_nth l d) ND); assumption. }
  destruct H as [H|H].
  - destruct (cw_in_window n 0 l _ d H) as [k [_ [H2 [H3 H4]]]].
    apply U in H4; [lia|assumption].
  - destruct (go_outer_index _ _ _ _ _ _ d H) as [k [H1 [H2 H3]]].
    apply U in H3; [lia|assumption].
Qed.

(* whatever it returns is a sub-list of the input (it never invents elements) *)
Theorem go_chunks_skip_incl {A} : forall n (l : list A) x, In x (concat (go_chunks_skip n l)) -> In x l.
Proof.
  intros n l x H. unfold go_chunks_skip in H.
  destruct (go_outer_index _ _ _ _ _ _ x H) as [k [_ [H2 H3]]].
  rewrite <- H3. apply nth_In. assumption.
Qed.

Example go_chunks_skip_refuted : concat (go_chunks_skip 2 [1;2;3;4;5;6;7]%nat) = [1;2;4;5;7]%nat /\ go_chunks 2 [1;2;3;4;5;6;7]%nat = [[1;2];[3;4];[5;6];[7]]%nat.
Proof. split; vm_compute; reflexivity. Qed.

(* CmiEvictProofs.v — memory rebalancing never changes an answer (model: CmiEvict.v).
   Main results, for EVERY sequence of flushes, open-side evictions (with or without room), rotations, rotated-side
   evictions and reloads, and every query:
     search_exact          : the search does not die and returns exactly the matching events of every block flushed so
                             far, in flush order — provided the micro indexes are sound (a block holding a match is
                             never ruled out by its own indexes) and removeInMemoryMetadata clears the loaded flag;
     eviction_transparent  : inserting an eviction / reload anywhere in the sequence leaves every answer unchanged;
     indexes_optional      : in any state whose loaded open segment has the indexes of its blocks, searching with the
                             indexes = searching every block;
   and, on the instance of CmiEvictCheck.v, the refutations for the variant that leaves the flag set. *)
From Coq Require Import List Bool Arith NArith Lia.
From SigM Require Import Base CmiEvict CmiEvictCheck.
Import ListNotations.
Open Scope nat_scope.

Section Proofs.
Variables event query idx : Type.
Variable matches : query -> event -> bool.
Variable consults : query -> bool.
Variable is_range : query -> bool.
Variable index_of : list event -> idx.
Variable empty_idx : idx.
Variable may : idx -> query -> bool.
Variable needs_passed : query -> bool.
Variable mark_unloaded : bool.

(* soundness of the micro indexes: built from the block, they never rule out a block that holds a match *)
Hypothesis sound : forall b q e, In e b -> matches q e = true -> may (index_of b) q = true.

Notation oseg := (oseg event idx).
Notation st := (st event idx).
Notation op := (op event).
Notation step := (step event idx index_of empty_idx).
Notation run := (run event idx index_of empty_idx).
Notation search := (search event query idx matches consults is_range index_of may needs_passed mark_unloaded).
Notation search_blocks := (search_blocks event query idx matches consults is_range may needs_passed mark_unloaded).
Notation block_verdict := (block_verdict event query idx consults is_range may mark_unloaded).
(* the guard of the exactness theorems: the query does not depend on the set of passed columns, or an open segment
   without loaded indexes marks every column as passed (the repaired code) *)
Definition passed_ok (q : query) : Prop := mark_unloaded = true \/ needs_passed q = false.
Notation spec_answer := (spec_answer event query matches).

Lemma unsound_block_empty : forall b q, may (index_of b) q = false -> filter (matches q) b = [].
Proof.
  intros b q H. assert (A : forall e, In e b -> matches q e = false).
  { intros e He. destruct (matches q e) eqn:M; auto. rewrite (sound b q e He M) in H. discriminate. }
  clear H. induction b as [|x r IH]; simpl; auto.
  rewrite (A x (or_introl eq_refl)). apply IH. intros e He. apply A. right. exact He.
Qed.

(* a block is either kept, or dropped while holding no match: then the walk returns the specification *)
Lemma search_blocks_spec : forall (s : oseg) q bs i,
  (forall j b, nth_error bs j = Some b ->
     block_verdict s q (i + j) = Keep \/ (block_verdict s q (i + j) = KeepUnmarked /\ needs_passed q = false)
     \/ (block_verdict s q (i + j) = Drop /\ filter (matches q) b = [])) ->
  search_blocks s q i bs = Some (spec_answer q bs).
Proof.
  intros s q bs. induction bs as [|b r IH]; intros i H; simpl; auto.
  rewrite (IH (S i)).
  2:{ intros j b' Hj. specialize (H (S j) b' Hj). replace (S i + j) with (i + S j) by lia. exact H. }
  specialize (H 0 b eq_refl). rewrite Nat.add_0_r in H.
  destruct H as [H | [[H E] | [H E]]]; rewrite H; unfold CmiEvict.spec_answer; simpl; auto.
  - rewrite E. reflexivity.
  - rewrite E. reflexivity.
Qed.

Definition oinv (s : oseg) : Prop :=
  loaded event idx s = true -> cmis event idx s = map index_of (blocks event idx s).

Lemma verdict_ok : forall (s : oseg) q j b, passed_ok q -> oinv s -> nth_error (blocks event idx s) j = Some b ->
  block_verdict s q j = Keep \/ (block_verdict s q j = KeepUnmarked /\ needs_passed q = false)
  \/ (block_verdict s q j = Drop /\ filter (matches q) b = []).
Proof.
  intros s q j b P I Hj. unfold CmiEvict.block_verdict.
  destruct (consults q); simpl; auto.
  destruct (loaded event idx s) eqn:L; simpl.
  - rewrite (I L). rewrite (map_nth_error index_of j _ Hj).
    destruct (may (index_of b) q) eqn:M; auto.
    right. right. split; auto. apply unsound_block_empty. exact M.
  - destruct P as [P | P]; [rewrite P; auto|]. destruct mark_unloaded; auto.
Qed.

(* searching with the indexes = searching every block *)
Lemma search_open_spec : forall (s : oseg) q, passed_ok q -> oinv s ->
  search_blocks s q 0 (blocks event idx s) = Some (spec_answer q (blocks event idx s)).
Proof.
  intros s q P I. apply search_blocks_spec. intros j b Hj. simpl. apply verdict_ok; auto.
Qed.

Lemma search_rot_spec : forall q (r : rseg event idx),
  rot_idx event idx index_of r = map index_of (rblocks event idx r) ->
  search_rot event query idx matches consults index_of may q r = spec_answer q (rblocks event idx r).
Proof.
  intros q r H. unfold search_rot. rewrite H. clear H. unfold CmiEvict.spec_answer.
  induction (rblocks event idx r) as [|b l IH]; simpl; auto.
  rewrite IH. f_equal.
  destruct (consults q); simpl; auto.
  destruct (may (index_of b) q) eqn:M; auto. symmetry. apply unsound_block_empty. exact M.
Qed.

Definition rinv (r : rseg event idx) : Prop :=
  rot_idx event idx index_of r = map index_of (rblocks event idx r).

Definition inv (s : st) : Prop :=
  Forall rinv (rotated event idx s) /\
  match open event idx s with Some o => oinv o | None => True end.

Lemma spec_app : forall q a b, spec_answer q (a ++ b) = spec_answer q a ++ spec_answer q b.
Proof. intros. unfold CmiEvict.spec_answer. apply flat_map_app. Qed.

Lemma spec_flat : forall q (rs : list (rseg event idx)),
  Forall rinv rs ->
  flat_map (search_rot event query idx matches consults index_of may q) rs
  = spec_answer q (flat_map (rblocks event idx) rs).
Proof.
  intros q rs H. induction H as [|r l Hr Hl IH]; simpl; auto.
  rewrite spec_app, IH, search_rot_spec; auto.
Qed.

Theorem indexes_optional : forall (s : st) q, passed_ok q -> inv s ->
  search s q = Some (spec_answer q (all_blocks event idx s)).
Proof.
  intros s q P [HR HO]. unfold CmiEvict.search, all_blocks, search_open.
  destruct (open event idx s) as [o|].
  - rewrite (search_open_spec o q P HO). rewrite spec_app, spec_flat; auto.
  - rewrite spec_app, spec_flat; auto.
Qed.

(* ---- the invariant is kept by every operation when the eviction clears the flag ---- *)
Lemma assign_pad_snoc : forall (l : list idx) v,
  assign idx (pad idx empty_idx l (S (length l))) (length l) v = l ++ [v].
Proof.
  intros l v. unfold assign, pad.
  replace (S (length l) - length l) with 1 by lia. change (repeat empty_idx 1) with [empty_idx].
  rewrite (skipn_all2 (n := S (length l))) by (rewrite app_length; simpl; lia).
  rewrite firstn_app, Nat.sub_diag, firstn_all. simpl. rewrite app_nil_r. reflexivity.
Qed.

Lemma inv_step : forall (s : st) o, inv s -> inv (step true s o).
Proof.
  intros s o [HR HO]. destruct o as [b | fits | | | ]; simpl.
  - split; auto. simpl. unfold flush_open. destruct (open event idx s) as [os|].
    + intro L. simpl in *. rewrite L. rewrite (HO L).
      rewrite <- (map_length index_of (blocks event idx os)).
      rewrite assign_pad_snoc. rewrite map_app. reflexivity.
    + intro L. simpl. unfold pad. simpl. reflexivity.
  - destruct fits; [split; auto|]. split; auto. simpl.
    destruct (open event idx s) as [os|]; simpl; auto.
    intro L. simpl in L. discriminate.
  - destruct (open event idx s) as [os|] eqn:E.
    + split; simpl; auto. apply Forall_app. split; auto. constructor; auto. reflexivity.
    + split; auto. rewrite E. exact I.
  - split; simpl; auto. apply Forall_forall. intros r Hr. apply in_map_iff in Hr.
    destruct Hr as [r0 [<- _]]. reflexivity.
  - split; simpl; auto. apply Forall_forall. intros r Hr. apply in_map_iff in Hr.
    destruct Hr as [r0 [<- _]]. reflexivity.
Qed.

Lemma inv_run : forall ops (s : st), inv s -> inv (run true ops s).
Proof.
  induction ops as [|o r IH]; intros s H; simpl; auto. apply IH. apply inv_step. exact H.
Qed.

Lemma inv_init : inv (init event idx).
Proof. split; simpl; auto. Qed.

(* ---- the blocks of the store are the flushed blocks, in flush order (whatever the flag does) ---- *)
Lemma all_blocks_step : forall c (s : st) o,
  all_blocks event idx (step c s o)
  = all_blocks event idx s ++ flushed_blocks event [o].
Proof.
  intros c s o. unfold all_blocks. destruct o as [b | fits | | | ]; simpl.
  - unfold flush_open. destruct (open event idx s); simpl; rewrite ?app_nil_r, ?app_assoc; auto.
  - destruct fits; simpl; rewrite app_nil_r; auto.
    destruct (open event idx s); simpl; auto.
  - destruct (open event idx s) eqn:E; simpl; rewrite ?E, ?app_nil_r; auto.
    rewrite flat_map_app. simpl. rewrite app_nil_r. reflexivity.
  - rewrite app_nil_r. f_equal. induction (rotated event idx s); simpl; auto. rewrite IHl. reflexivity.
  - rewrite app_nil_r. f_equal. induction (rotated event idx s); simpl; auto. rewrite IHl. reflexivity.
Qed.

Lemma all_blocks_run : forall c ops (s : st),
  all_blocks event idx (run c ops s) = all_blocks event idx s ++ flushed_blocks event ops.
Proof.
  intros c ops. induction ops as [|o r IH]; intros s; simpl.
  - rewrite app_nil_r. reflexivity.
  - rewrite IH, all_blocks_step. simpl. rewrite <- app_assoc, app_nil_r. reflexivity.
Qed.

Theorem search_exact : forall ops q, passed_ok q ->
  search (run true ops (init event idx)) q = Some (spec_answer q (flushed_blocks event ops)).
Proof.
  intros ops q P. rewrite indexes_optional by (auto; apply inv_run, inv_init).
  rewrite all_blocks_run. reflexivity.
Qed.

Definition is_rebalance (o : op) : bool :=
  match o with Flush _ _ => false | Rotate _ => false | _ => true end.

Lemma flushed_app : forall a b : list op,
  flushed_blocks event (a ++ b) = flushed_blocks event a ++ flushed_blocks event b.
Proof. intros. unfold flushed_blocks. apply flat_map_app. Qed.

Theorem eviction_transparent : forall ops1 e ops2 q, passed_ok q -> is_rebalance e = true ->
  search (run true (ops1 ++ e :: ops2) (init event idx)) q
  = search (run true (ops1 ++ ops2) (init event idx)) q.
Proof.
  intros ops1 e ops2 q P He. rewrite !search_exact by exact P. do 2 f_equal.
  rewrite !flushed_app. f_equal.
  destruct e; simpl in *; try discriminate; reflexivity.
Qed.

Lemma spec_is_filter_concat : forall q bs, spec_answer q bs = filter (matches q) (concat bs).
Proof.
  intros q bs. unfold CmiEvict.spec_answer. induction bs as [|b r IH]; simpl; auto.
  rewrite filter_app, IH. reflexivity.
Qed.

Theorem indexes_optional_explicit : forall (s : st) q, passed_ok q ->
  (forall r, In r (rotated event idx s) -> rot_idx event idx index_of r = map index_of (rblocks event idx r)) ->
  (forall o, open event idx s = Some o -> loaded event idx o = true ->
             cmis event idx o = map index_of (blocks event idx o)) ->
  search s q = Some (filter (matches q) (concat (all_blocks event idx s))).
Proof.
  intros s q P HR HO. rewrite <- spec_is_filter_concat. apply indexes_optional; auto. split.
  - apply Forall_forall. exact HR.
  - destruct (open event idx s) as [o|]; auto. intro L. apply HO; auto.
Qed.

Theorem search_exact_filter : forall ops q, passed_ok q ->
  search (run true ops (init event idx)) q
  = Some (filter (matches q) (concat (flushed_blocks event ops))).
Proof. intros. rewrite search_exact, spec_is_filter_concat; auto. Qed.

End Proofs.

(* ---------- the instance of the case files ---------- *)
Lemma inst_sound : forall (b : list N) (q : iquery) (e : N),
  In e b -> imatches q e = true -> imay (iindex_of b) q = true.
Proof.
  intros b q e He M. unfold imay, iindex_of. apply existsb_exists. exists e. split; auto.
Qed.

Theorem inst_search_exact : forall (mark : bool) (ops : list iop) (q : iquery),
  mark = true \/ ineeds q = false ->
  isearch_gen mark (fold_left (istep true) ops iinit) q
  = Some (filter (imatches q) (concat (flushed_blocks N ops))).
Proof.
  intros mark ops q P. unfold isearch_gen, istep, iinit.
  rewrite <- (spec_is_filter_concat N iquery imatches).
  exact (search_exact N iquery iidx imatches iconsults irange iindex_of None imay ineeds mark inst_sound ops q P).
Qed.

(* the known finding: a query that searches only passed columns finds nothing in an open segment whose indexes
   were evicted; with every column marked as passed (the proposed repair) it does; before the eviction and after
   the rotation the code is right *)
Definition q_allcol4 : iquery := (true, true, true, [4%N]).
Lemma allcol_without_indexes_refuted :
  isearch_gen false (fold_left (istep true) [Flush N [4%N]; EvictOpen N false] iinit) q_allcol4 = Some []
  /\ isearch_gen true (fold_left (istep true) [Flush N [4%N]; EvictOpen N false] iinit) q_allcol4 = Some [4%N]
  /\ isearch_gen false (fold_left (istep true) [Flush N [4%N]] iinit) q_allcol4 = Some [4%N]
  /\ isearch_gen false (fold_left (istep true) [Flush N [4%N]; EvictOpen N false; Rotate N] iinit) q_allcol4 = Some [4%N].
Proof. vm_compute. repeat split. Qed.


(* ---------- the code since fix 7108dc6 (mark_unloaded = true): no guard on the query ---------- *)
Section Fixed.
Variables event query idx : Type.
Variable matches : query -> event -> bool.
Variable consults : query -> bool.
Variable is_range : query -> bool.
Variable index_of : list event -> idx.
Variable empty_idx : idx.
Variable may : idx -> query -> bool.
Variable needs_passed : query -> bool.
Hypothesis sound : forall b q e, In e b -> matches q e = true -> may (index_of b) q = true.

Theorem fixed_search_exact : forall (ops : list (op event)) (q : query),
  search event query idx matches consults is_range index_of may needs_passed true
    (run event idx index_of empty_idx true ops (init event idx)) q
  = Some (filter (matches q) (concat (flushed_blocks event ops))).
Proof. intros. apply search_exact_filter; auto. left. reflexivity. Qed.

Theorem fixed_eviction_transparent : forall (ops1 : list (op event)) e ops2 (q : query),
  is_rebalance event e = true ->
  search event query idx matches consults is_range index_of may needs_passed true
    (run event idx index_of empty_idx true (ops1 ++ e :: ops2) (init event idx)) q
  = search event query idx matches consults is_range index_of may needs_passed true
    (run event idx index_of empty_idx true (ops1 ++ ops2) (init event idx)) q.
Proof. intros. apply eviction_transparent; auto. left. reflexivity. Qed.

Theorem fixed_indexes_optional : forall (s : st event idx) (q : query),
  (forall r, In r (rotated event idx s) -> rot_idx event idx index_of r = map index_of (rblocks event idx r)) ->
  (forall o, open event idx s = Some o -> loaded event idx o = true ->
             cmis event idx o = map index_of (blocks event idx o)) ->
  search event query idx matches consults is_range index_of may needs_passed true s q
  = Some (filter (matches q) (concat (all_blocks event idx s))).
Proof. intros. apply indexes_optional_explicit; auto. left. reflexivity. Qed.
End Fixed.

Theorem inst_search_exact_code : forall (ops : list iop) (q : iquery),
  isearch (fold_left (istep true) ops iinit) q
  = Some (filter (imatches q) (concat (flushed_blocks N ops))).
Proof. intros. unfold isearch, code_marks_unloaded. apply inst_search_exact. left. reflexivity. Qed.

(* the variant that leaves isCmiLoaded set: three witnesses *)
Definition q_eq1 : iquery := (true, false, false, [1%N]).     (* a bloom-checked filter matching event 1 *)
Definition q_rng1 : iquery := (true, true, false, [1%N]).     (* a range-checked filter matching event 1 *)
Definition q_all1 : iquery := (false, false, false, [1%N; 2%N]).  (* does not ask the indexes *)
Definition stale_ops : list iop := [Flush N [1%N]; EvictOpen N false; Flush N [2%N]].

Lemma stale_flag_refuted :
  (* lost: the block flushed before the eviction is ruled out by the empty map it was padded with *)
  isearch (fold_left (istep false) stale_ops iinit) q_eq1 = Some []
  /\ isearch (fold_left (istep true) stale_ops iinit) q_eq1 = Some [1%N]
  (* the same search before the next flush: kept (the bloom check skips a block beyond the slice) *)
  /\ isearch (fold_left (istep false) [Flush N [1%N]; EvictOpen N false] iinit) q_eq1 = Some [1%N]
  (* ... but the range check indexes the empty slice: the process dies *)
  /\ isearch (fold_left (istep false) [Flush N [1%N]; EvictOpen N false] iinit) q_rng1 = None
  /\ isearch (fold_left (istep true) [Flush N [1%N]; EvictOpen N false] iinit) q_rng1 = Some [1%N]
  (* searches that do not ask the indexes, and searches after rotation, are unaffected: why ordinary use hides it *)
  /\ isearch (fold_left (istep false) stale_ops iinit) q_all1 = Some [1%N; 2%N]
  /\ isearch (fold_left (istep false) (stale_ops ++ [Rotate N]) iinit) q_eq1 = Some [1%N]
  (* and without an eviction the two variants are the same function *)
  /\ isearch (fold_left (istep false) [Flush N [1%N]; EvictOpen N true; Flush N [2%N]] iinit) q_eq1 = Some [1%N].
Proof. vm_compute. repeat split. Qed.

(* ColStoreProofs.v — the column store: dictionary codec, raw blocks, type consolidation,
   the per-column invariant of the open block, and the round trip of a whole segment. *)
From Coq Require Import Lia.
From Coq Require Import ZifyN ZifyNat ZifyBool.
From SigM Require Import Base Tlv TsEnc ColStore.
From SigP Require Import BaseProofs TlvProofs TsEncProofs.
Ltac Zify.zify_post_hook ::= Z.div_mod_to_equations.
Open Scope N_scope.

(* ================================================================== *)
(* byte-string keys                                                    *)
(* ================================================================== *)
Lemma bytes_eqb_eq a : forall b, bytes_eqb a b = true <-> a = b.
Proof.
  unfold bytes_eqb. induction a as [|x a IH]; intros [|y b]; cbn; split; intros H; try discriminate; auto.
  - apply andb_true_iff in H as [H1 H2]. apply N.eqb_eq in H1. apply IH in H2. congruence.
  - inversion H; subst. rewrite N.eqb_refl. cbn. apply IH. reflexivity.
Qed.
Lemma bytes_eqb_refl a : bytes_eqb a a = true.
Proof. apply bytes_eqb_eq. reflexivity. Qed.
Lemma bytes_eqb_neq a b : a <> b -> bytes_eqb a b = false.
Proof. intros H. destruct (bytes_eqb a b) eqn:E; auto. apply bytes_eqb_eq in E. contradiction. Qed.
Lemma bytes_eq_dec (a b : bytes) : {a = b} + {a <> b}.
Proof. destruct (bytes_eqb a b) eqn:E; [left; apply bytes_eqb_eq; exact E | right; intro H; apply bytes_eqb_eq in H; congruence]. Qed.

Section Assoc.
Context {A : Type}.
Implicit Types (l : list (bytes * A)).

Lemma get_put_same k (v : A) l : get k (put k v l) = Some v.
Proof.
  induction l as [|[k' v'] r IH]; cbn.
  - rewrite bytes_eqb_refl. reflexivity.
  - destruct (bytes_eqb k' k) eqn:E; cbn; rewrite E; auto.
Qed.

Lemma get_put_other k k' (v : A) l : k <> k' -> get k' (put k v l) = get k' l.
Proof.
  intros H. induction l as [|[k0 v0] r IH]; cbn.
  - rewrite (bytes_eqb_neq k k') by exact H. reflexivity.
  - destruct (bytes_eqb k0 k) eqn:E; cbn.
    + apply bytes_eqb_eq in E. subst k0. rewrite (bytes_eqb_neq k k') by exact H. reflexivity.
    + destruct (bytes_eqb k0 k'); auto.
Qed.

Lemma get_In k l (v : A) : get k l = Some v -> In (k, v) l.
Proof.
  induction l as [|[k0 v0] r IH]; cbn; [discriminate|].
  destruct (bytes_eqb k0 k) eqn:E; intros H.
  - apply bytes_eqb_eq in E. inversion H; subst. auto.
  - auto.
Qed.

Lemma get_None_notin k l : get k l = None -> forall v, ~ In (k, v) l.
Proof.
  induction l as [|[k0 v0] r IH]; cbn; intros H v; [tauto|].
  destruct (bytes_eqb k0 k) eqn:E; [discriminate|].
  intros [Heq|Hin]; [inversion Heq; subst; rewrite bytes_eqb_refl in E; discriminate | eapply IH; eauto].
Qed.

Lemma In_put e k (v : A) l : In e (put k v l) -> e = (k, v) \/ In e l.
Proof.
  induction l as [|[k0 v0] r IH]; cbn.
  - intros [H|[]]; auto.
  - destruct (bytes_eqb k0 k) eqn:E; cbn.
    + apply bytes_eqb_eq in E. subst. intros [H|H]; auto.
    + intros [H|H]; auto. destruct (IH H); auto.
Qed.

(* an entry survives a put unless it is the (first) entry of that key, which then carries the new value *)
Lemma In_put_keep k0 (v0 : A) k v l : In (k0, v0) l -> In (k0, v0) (put k v l) \/ (k0 = k /\ get k l = Some v0).
Proof.
  induction l as [|[k1 v1] r IH]; cbn; [tauto|].
  intros [H|H].
  - inversion H; subst. destruct (bytes_eqb k0 k) eqn:E.
    + apply bytes_eqb_eq in E. subst. right. auto.
    + left. cbn. auto.
  - destruct (bytes_eqb k1 k) eqn:E.
    + left. cbn. auto.
    + destruct (IH H) as [H1|[H1 H2]]; [left; cbn; auto | right; auto].
Qed.

Lemma In_put_new k (v : A) l : In (k, v) (put k v l).
Proof.
  induction l as [|[k1 v1] r IH]; cbn; auto.
  destruct (bytes_eqb k1 k) eqn:E; cbn; auto.
  apply bytes_eqb_eq in E. subst. auto.
Qed.

Lemma put_length_some k (v v0 : A) l : get k l = Some v0 -> length (put k v l) = length l.
Proof.
  induction l as [|[k1 v1] r IH]; cbn; [discriminate|].
  destruct (bytes_eqb k1 k) eqn:E; cbn; auto.
Qed.

Lemma put_keys_in k (v : A) l x : In x (map fst (put k v l)) -> x = k \/ In x (map fst l).
Proof.
  induction l as [|[k1 v1] r IH]; cbn.
  - intros [H|[]]; auto.
  - destruct (bytes_eqb k1 k) eqn:E; cbn; intros [H|H]; auto. destruct (IH H); auto.
Qed.

Lemma put_keys_nodup k (v : A) l : NoDup (map fst l) -> NoDup (map fst (put k v l)).
Proof.
  induction l as [|[k1 v1] r IH]; cbn; intros H.
  - constructor; [tauto | constructor].
  - inversion H as [|? ? Hn Hr]; subst.
    destruct (bytes_eqb k1 k) eqn:E; cbn.
    + constructor; auto.
    + constructor; auto. intro Hin. apply put_keys_in in Hin as [Hin|Hin]; auto.
      subst. rewrite bytes_eqb_refl in E. discriminate.
Qed.

Lemma get_notin_keys k l : ~ In k (map fst l) -> get k l = None.
Proof.
  induction l as [|[k1 v1] r IH]; cbn; auto.
  intros H. destruct (bytes_eqb k1 k) eqn:E.
  - apply bytes_eqb_eq in E. subst. tauto.
  - apply IH. tauto.
Qed.

Lemma get_in_keys k l : In k (map fst l) -> exists v, get k l = Some v.
Proof.
  induction l as [|[k1 v1] r IH]; cbn; [tauto|].
  intros H. destruct (bytes_eqb k1 k) eqn:E; eauto.
  destruct H as [H|H]; [subst; rewrite bytes_eqb_refl in E; discriminate | auto].
Qed.
End Assoc.

(* ================================================================== *)
(* witnesses of the defects (evaluated on the faithful model)          *)
(* ================================================================== *)
Definition s_ (l : list N) : bytes := l.
Definition ka : key := [97].
Definition kb : key := [98].
Definition kz : key := [122].

(* strconv.ParseFloat on the strings of the witnesses; FormatFloat is not needed by them *)
Definition fc_w : fconv :=
  {| pf := fun s => if bytes_eqb s [49;101;51] then Some 4652007308841189376 (* "1e3" -> 1000.0 *) else None;
     ff := fun b => if b =? 4609434218613702656 then [49;46;53] (* 1.5 *) else [63] |}.

Definition ev (t : N) (f : fields) : event := {| ev_ts := t; ev_fields := f |}.

(* column k of block b of a match-all result *)
Definition out_col (outs : list (list N * list (key * list cval))) (b : nat) (k : key) : list cval :=
  match nth_error outs b with
  | Some (_, cols) => match get k cols with Some vs => vs | None => [] end
  | None => []
  end.

Definition run_read_pre (pre : bool) (fc : fconv) (card : N) (blooms : list key) (blocks : list (list event)) :=
  read_all (fst (ingest_blocks fc pre card (init_store blooms) blocks)).
Definition run_read := run_read_pre false.

(* {"a":7,"a":8,"z":"p"} then {"a":9,"z":"q"}, cardinality limit 2 (raw block): the second event returns a=8 *)
Definition w_dup : list (list event) :=
  [[ev 1700000000001 [(ka, VInt 7); (ka, VInt 8); (kz, VStr [112])];
    ev 1700000000002 [(ka, VInt 9); (kz, VStr [113])]]].

(* before the repair of doLogEventFilling ([pre = true]) *)
Lemma dupkey_witness :
  out_col (match run_read_pre true fc_w 2 [] w_dup with Some o => o | None => [] end) 0 ka = [VInt 7; VInt 8] /\
  colview ka (nth 0 w_dup []) = [VInt 7; VInt 9].
Proof. vm_compute. split; reflexivity. Qed.

(* the same two events with the default limit (dictionary block): the first event's 7 is gone *)
Lemma dupkey_dict_witness :
  out_col (match run_read_pre true fc_w 501 [] w_dup with Some o => o | None => [] end) 0 ka = [VInt 8; VInt 9].
Proof. vm_compute. reflexivity. Qed.

(* the repaired code keeps the first value of a duplicated key and nothing moves *)
Lemma dupkey_fixed_witness :
  out_col (match run_read fc_w 2 [] w_dup with Some o => o | None => [] end) 0 ka = [VInt 7; VInt 9] /\
  out_col (match run_read fc_w 501 [] w_dup with Some o => o | None => [] end) 0 ka = [VInt 7; VInt 9].
Proof. vm_compute. split; reflexivity. Qed.

(* {"a":5},{"a":"007"},{"a":"1e3"} -> 5, 7, 1000.0 *)
Definition w_numstr : list (list event) :=
  [[ev 1700000000001 [(ka, VInt 5)];
    ev 1700000000002 [(ka, VStr [48;48;55])];
    ev 1700000000003 [(ka, VStr [49;101;51])]]].

Lemma numstr_witness :
  out_col (match run_read fc_w 501 [] w_numstr with Some o => o | None => [] end) 0 ka
  = [VInt 5; VInt 7; VFloat 4652007308841189376].
Proof. vm_compute. reflexivity. Qed.

(* {"b":1},{"a":true,"b":1},{"a":5,"b":1}: a late bool column gets a bloom, the number a range index:
   both become text although the column never held a string *)
Definition w_booltext : list (list event) :=
  [[ev 1700000000001 [(kb, VInt 1)];
    ev 1700000000002 [(ka, VBool true); (kb, VInt 1)];
    ev 1700000000003 [(ka, VInt 5); (kb, VInt 1)]]].

Lemma booltext_witness :
  out_col (match run_read fc_w 501 [] w_booltext with Some o => o | None => [] end) 0 ka
  = [VNull; VStr s_true; VStr [53]].
Proof. vm_compute. reflexivity. Qed.

(* the constant-record-length shortcut: {"a":5},{"a":"abcdef"},{"a":1.5} all encode to 9 bytes, so
   AllSeenColumnSizes says 9; consolidateColumnTypes rewrites the block as text of other lengths *)
Definition w_shortcut_vals : list cval := [VInt 5; VStr [97;98;99;100;101;102]; VFloat 4609434218613702656].
Definition w_shortcut_buf : bytes := concat (map enc_val w_shortcut_vals).

(* AllSeenColumnSizes of column a after the flush of one block / of the second of two blocks *)
Definition seen_after (pre : bool) (blocks : list (list event)) (k : key) : option N :=
  get k (st_seen (snd (ingest_blocks fc_w pre 501 (init_store []) blocks))).
Definition w_seen_text : list (list event) :=
  [[ev 1700000000001 [(ka, VInt 5)]; ev 1700000000002 [(ka, VStr [97;98;99;100;101;102])];
    ev 1700000000003 [(ka, VFloat 4609434218613702656)]]].
(* {"a":5,"b":1} flush {"b":1},{"a":6,"b":2}: column a of the second block starts with a back-filled null *)
Definition w_seen_late : list (list event) :=
  [[ev 1700000000001 [(ka, VInt 5); (kb, VInt 1)]];
   [ev 1700000000002 [(kb, VInt 1)]; ev 1700000000003 [(ka, VInt 6); (kb, VInt 2)]]].
Lemma seen_witness :
  seen_after true w_seen_text ka = Some 9 /\ seen_after false w_seen_text ka = Some INCONSISTENT /\
  seen_after true w_seen_late ka = Some 9 /\ seen_after false w_seen_late ka = Some INCONSISTENT /\
  seen_after false w_seen_late kb = Some 9.
Proof. vm_compute. repeat split; reflexivity. Qed.

Lemma shortcut_witness :
  Forall (fun v => length (enc_val v) = 9%nat) w_shortcut_vals /\
  to_numbers fc_w (S (length w_shortcut_buf)) w_shortcut_buf = None /\
  let b := to_strings fc_w (S (length w_shortcut_buf)) w_shortcut_buf in
  raw_records INCONSISTENT 3 b = Some (map enc_val [VStr [53]; VStr [97;98;99;100;101;102]; VStr [49;46;53]]) /\
  raw_records 9 3 b = None /\
  raw_records 9 2 b = Some [[2;1;0;53;2;6;0;97;98]; [99;100;101;102;2;3;0;49;46]].
Proof.
  split; [repeat constructor|]. vm_compute. repeat split; reflexivity.
Qed.

(* ================================================================== *)
(* dictionary blocks: PackDictEnc / ReadDictEnc                        *)
(* ================================================================== *)
(* a dictionary word the reader's type switch steps over exactly *)
Definition word_ok (w : bytes) : Prop :=
  forall rest, dict_word_len (w ++ rest) = Some (N.of_nat (length w)).

Definition entry_ok (n : nat) (e : bytes * list N) : Prop :=
  word_ok (fst e) /\ N.of_nat (length (snd e)) < 65536 /\ Forall (fun r => r < N.of_nat n) (snd e).

Lemma rd16_le16 x rest : x < 65536 -> rd16 (le16 x ++ rest) = Some (x, rest).
Proof. intros H. unfold rd16, le16. apply rd_le_app. change (256 ^ N.of_nat 2) with 65536. exact H. Qed.

(* the table deRecToTlv after the record numbers of word j *)
Definition apply_recs (j : N) (recs : list N) (tbl : list N) : list N :=
  fold_left (fun t r => set_nth (N.to_nat r) j t) recs tbl.
Fixpoint apply_entries (j : N) (d : list (bytes * list N)) (tbl : list N) : list N :=
  match d with
  | [] => tbl
  | e :: r => apply_entries (j + 1) r (apply_recs j (snd e) tbl)
  end.

Lemma apply_recs_length j recs : forall tbl, length (apply_recs j recs tbl) = length tbl.
Proof.
  unfold apply_recs. induction recs as [|r recs IH]; intros tbl; cbn [fold_left]; auto.
  rewrite IH. apply set_nth_length.
Qed.

Lemma rd_recs_pack j recs : forall tbl rest,
  N.of_nat (length tbl) <= 65536 ->
  Forall (fun r => r < N.of_nat (length tbl)) recs ->
  rd_recs (length recs) (concat (map le16 recs) ++ rest) j tbl = Some (apply_recs j recs tbl, rest).
Proof.
  induction recs as [|r recs IH]; intros tbl rest Hn H; cbn [length rd_recs map concat]; auto.
  inversion H as [|? ? Hr Hrs]; subst.
  rewrite <- app_assoc. rewrite rd16_le16 by lia.
  replace (N.of_nat (length tbl) <=? r) with false by (symmetry; apply N.leb_gt; lia).
  unfold apply_recs. cbn [fold_left]. apply IH.
  - rewrite set_nth_length. exact Hn.
  - rewrite set_nth_length. exact Hrs.
Qed.

Lemma firstn_app_exact {A} (a r : list A) : firstn (length a) (a ++ r) = a.
Proof. rewrite firstn_app, Nat.sub_diag, firstn_all. cbn [firstn]. apply app_nil_r. Qed.
Lemma skipn_app_exact {A} (a r : list A) : skipn (length a) (a ++ r) = r.
Proof. rewrite skipn_app, Nat.sub_diag, skipn_all. reflexivity. Qed.

Lemma rd_words_pack d : forall j tlv tbl rest,
  N.of_nat (length tbl) <= 65536 ->
  Forall (entry_ok (length tbl)) d ->
  rd_words (length d) j (concat (map pack_entry d) ++ rest) tlv tbl
  = Some (tlv ++ map fst d, apply_entries j d tbl).
Proof.
  induction d as [|[w recs] d IH]; intros j tlv tbl rest Hn H; cbn [length rd_words map concat apply_entries fst snd].
  - rewrite app_nil_r. reflexivity.
  - inversion H as [|? ? [Hw [Hl Hr]] Hd]; subst. cbn [fst snd] in *.
    change (pack_entry (w, recs)) with (w ++ le16 (N.of_nat (length recs)) ++ concat (map le16 recs)).
    rewrite <- !app_assoc. rewrite Hw. cbv beta iota.
    match goal with |- context [N.of_nat (length ?x) <? N.of_nat (length w)] =>
      replace (N.of_nat (length x) <? N.of_nat (length w)) with false
        by (symmetry; apply N.ltb_ge; rewrite app_length; lia) end.
    cbv beta iota.
    rewrite Nat2N.id. rewrite firstn_app_exact, skipn_app_exact.
    rewrite rd16_le16 by exact Hl. cbv beta iota. rewrite Nat2N.id.
    rewrite rd_recs_pack by assumption. cbv beta iota.
    rewrite IH.
    + rewrite <- app_assoc. reflexivity.
    + rewrite apply_recs_length. exact Hn.
    + rewrite apply_recs_length. exact Hd.
Qed.

Lemma nth_set_nth {A} (l : list A) : forall i k x d, (k < length l)%nat ->
  nth i (set_nth k x l) d = if Nat.eqb i k then x else nth i l d.
Proof.
  induction l as [|y l IH]; intros i k x d H; cbn in H; [lia|].
  destruct k as [|k]; destruct i as [|i]; cbn; auto.
  apply IH. lia.
Qed.

Lemma nth_apply_recs j recs : forall tbl i,
  Forall (fun r => r < N.of_nat (length tbl)) recs ->
  nth i (apply_recs j recs tbl) 0 = if existsb (N.eqb (N.of_nat i)) recs then j else nth i tbl 0.
Proof.
  unfold apply_recs. induction recs as [|r recs IH]; intros tbl i H; cbn [fold_left existsb]; auto.
  inversion H as [|? ? Hr Hrs]; subst.
  rewrite IH by (rewrite set_nth_length; exact Hrs).
  rewrite nth_set_nth by lia.
  destruct (existsb (N.eqb (N.of_nat i)) recs) eqn:E; [rewrite orb_true_r; reflexivity|].
  rewrite orb_false_r.
  destruct (Nat.eqb i (N.to_nat r)) eqn:E2.
  - apply Nat.eqb_eq in E2. subst. rewrite N2Nat.id, N.eqb_refl. reflexivity.
  - apply Nat.eqb_neq in E2. replace (N.of_nat i =? r) with false by (symmetry; apply N.eqb_neq; lia). reflexivity.
Qed.

(* table entry -> word: the last entry that lists record i *)
Lemma lookup_apply_entries i d : forall j tlvpre tbl cur,
  N.to_nat j = length tlvpre ->
  Forall (entry_ok (length tbl)) d ->
  nth (N.to_nat (nth i tbl 0)) (tlvpre ++ map fst d) [] = cur ->
  nth (N.to_nat (nth i (apply_entries j d tbl) 0)) (tlvpre ++ map fst d) [] = dict_lookup_from d (N.of_nat i) cur.
Proof.
  induction d as [|[w recs] d IH]; intros j tlvpre tbl cur Hj Hd Hc; cbn [apply_entries dict_lookup_from map fst snd].
  - exact Hc.
  - revert Hc. inversion Hd as [|? ? [Hw [Hl Hr]] Hd']; subst. intros Hc. cbn [fst snd] in *.
    replace (tlvpre ++ w :: map fst d) with ((tlvpre ++ [w]) ++ map fst d) by (rewrite <- app_assoc; reflexivity).
    apply IH.
    + rewrite app_length. cbn. lia.
    + rewrite apply_recs_length. exact Hd'.
    + rewrite nth_apply_recs by exact Hr.
      destruct (existsb (N.eqb (N.of_nat i)) recs).
      * rewrite Hj. rewrite <- app_assoc. rewrite app_nth2 by lia. rewrite Nat.sub_diag. reflexivity.
      * rewrite <- app_assoc. exact Hc.
Qed.

Lemma seqN_length s n : length (seqN s n) = n.
Proof. revert s; induction n as [|n IH]; intros s; cbn; auto. Qed.
Lemma seqN_nth n : forall s i, (i < n)%nat -> nth i (seqN s n) 0 = s + N.of_nat i.
Proof.
  induction n as [|n IH]; intros s i H; [lia|]. destruct i as [|i]; cbn [seqN nth].
  - lia.
  - rewrite IH by lia. lia.
Qed.

(* pack / unpack of a dictionary-encoded column gives the per-record view: record i reads the word
   of the last entry that lists i.  For all dictionaries with fewer than 65536 words whose words
   are TLVs the reader knows, in a block of at most 65536 records. *)
Theorem dict_roundtrip n d :
  N.of_nat (length d) < 65536 -> N.of_nat n <= 65536 -> Forall (entry_ok n) d ->
  dict_records n (pack_dict (N.of_nat (length d)) d) = Some (map (dict_lookup d) (seqN 0 n)).
Proof.
  intros Hd Hn He. unfold dict_records, read_dict, pack_dict.
  rewrite rd16_le16 by exact Hd. rewrite Nat2N.id.
  rewrite <- (app_nil_r (concat (map pack_entry d))).
  assert (Lr : length (repeat 0 n) = n) by apply repeat_length.
  rewrite rd_words_pack by (rewrite Lr; assumption).
  f_equal. cbn [app].
  assert (L : forall j d0 tbl, length (apply_entries j d0 tbl) = length tbl).
  { clear. intros j d0; revert j; induction d0 as [|e d0 IH]; intros j tbl; cbn; auto. rewrite IH. apply apply_recs_length. }
  set (tbl := apply_entries 0 d (repeat 0 n)).
  assert (Lt : length tbl = n) by (unfold tbl; rewrite L; exact Lr).
  set (f := fun wi : N => nth (N.to_nat wi) (map fst d) []).
  set (g := dict_lookup d).
  apply nth_ext with (d := []) (d' := []).
  - rewrite !map_length, seqN_length. exact Lt.
  - intros i Hi. rewrite map_length, Lt in Hi.
    rewrite (nth_indep (map f tbl) [] (f 0)) by (rewrite map_length; lia).
    rewrite (map_nth f tbl 0 i).
    rewrite (nth_indep (map g (seqN 0 n)) [] (g 0)) by (rewrite map_length, seqN_length; lia).
    rewrite (map_nth g (seqN 0 n) 0 i).
    rewrite seqN_nth by exact Hi. cbn [N.add].
    unfold f, g, dict_lookup, tbl.
    apply (lookup_apply_entries i d 0 [] (repeat 0 n)).
    + reflexivity.
    + rewrite Lr. exact He.
    + cbn [app]. rewrite nth_repeat. cbn. destruct d as [|[w r] d']; reflexivity.
Qed.

(* ================================================================== *)
(* raw blocks: iteration with record lengths                           *)
(* ================================================================== *)
Definition wfv (v : cval) : Prop := wf_val v = true.

Lemma rec_len_inconsistent b : rec_len INCONSISTENT b = reclen b.
Proof. reflexivity. Qed.

Lemma concat_enc_nonempty v vs : concat (map enc_val (v :: vs)) <> [].
Proof. cbn. destruct (enc_val v) eqn:E; [exact (False_ind _ (enc_val_nonempty v E)) | discriminate]. Qed.

(* one step of the record walk: csz is either "no constant length" or the true length of v *)
Lemma raw_step csz v tail :
  wfv v -> rec_len csz (enc_val v ++ tail) = Some (N.of_nat (length (enc_val v))) ->
  forall n', raw_records csz (S n') (enc_val v ++ tail) =
    match n' with
    | O => Some [enc_val v]
    | _ => match tail with [] => None | _ => option_map (cons (enc_val v)) (raw_records csz n' tail) end
    end.
Proof.
  intros W H n'. cbn [raw_records]. rewrite H.
  replace (N.of_nat (length (enc_val v ++ tail)) <? N.of_nat (length (enc_val v))) with false
    by (symmetry; apply N.ltb_ge; rewrite app_length; lia).
  rewrite Nat2N.id, firstn_app_exact, skipn_app_exact. reflexivity.
Qed.

Theorem raw_roundtrip vs : Forall wfv vs ->
  raw_records INCONSISTENT (length vs) (concat (map enc_val vs)) = Some (map enc_val vs).
Proof.
  induction 1 as [|v vs W Hvs IH]; [reflexivity|].
  cbn [length map concat].
  rewrite raw_step; auto; [|rewrite rec_len_inconsistent; apply reclen_agrees; exact W].
  destruct vs as [|v' vs']; [reflexivity|].
  cbn [length] in *. destruct (concat (map enc_val (v' :: vs'))) eqn:E; [exact (False_ind _ (concat_enc_nonempty _ _ E))|].
  cbv beta iota. rewrite IH. reflexivity.
Qed.

(* the constant-record-length shortcut is sound when every record of the block really has
   that length (before any rewrite of the block) *)
Theorem shortcut_sound csz vs : Forall wfv vs ->
  0 < csz -> csz <> INCONSISTENT ->
  Forall (fun v => N.of_nat (length (enc_val v)) = csz) vs ->
  raw_records csz (length vs) (concat (map enc_val vs)) = Some (map enc_val vs).
Proof.
  intros Hw H0 Hi Hl. induction vs as [|v vs IH]; [reflexivity|].
  inversion Hw as [|? ? W Hw']; inversion Hl as [|? ? L Hl']; subst.
  cbn [length map concat].
  rewrite raw_step; auto.
  - destruct vs as [|v' vs']; [reflexivity|].
    cbn [length] in *. specialize (IH Hw' Hl').
    destruct (concat (map enc_val (v' :: vs'))) eqn:E; [exact (False_ind _ (concat_enc_nonempty _ _ E))|].
    cbv beta iota. rewrite IH. reflexivity.
  - unfold rec_len. replace (0 <? N.of_nat (length (enc_val v))) with true by (symmetry; apply N.ltb_lt; lia).
    replace (N.of_nat (length (enc_val v)) =? INCONSISTENT) with false by (symmetry; apply N.eqb_neq; exact Hi).
    reflexivity.
Qed.

Lemma dec_all_enc vs : Forall wfv vs -> dec_all (map enc_val vs) = Some vs.
Proof.
  induction 1 as [|v vs W Hvs IH]; [reflexivity|].
  cbn [map dec_all]. rewrite <- (app_nil_r (enc_val v)). rewrite tlv_roundtrip by exact W.
  rewrite IH. reflexivity.
Qed.

(* ================================================================== *)
(* consolidateColumnTypes on the column buffer                         *)
(* ================================================================== *)
Section Conversions.
Variable fc : fconv.
(* FormatFloat's output fits a string record *)
Hypothesis ff_short : forall b, N.of_nat (length (ff fc b)) < 65533.

Definition ingv (v : cval) : Prop := ingest_val v = true.

Lemma ingv_wf v : ingv v -> wfv v.
Proof. unfold ingv, wfv, ingest_val. intros H. apply andb_true_iff in H. tauto. Qed.

(* what convertColumnToNumbers makes of a value; None = the conversion gives up *)
Definition tonum_val (v : cval) : option cval :=
  match v with
  | VStr s => match parse_int s with
              | Some z => Some (VInt z)
              | None => match pf fc s with Some b => Some (VFloat b) | None => None end
              end
  | VInt _ | VFloat _ | VNull => Some v
  | VBool _ | VUint _ => None
  end.
Fixpoint tonum_vals (vs : list cval) : option (list cval) :=
  match vs with
  | [] => Some []
  | v :: r => match tonum_val v, tonum_vals r with
              | Some v', Some r' => Some (v' :: r')
              | _, _ => None
              end
  end.

Lemma le64_length x : length (le64 x) = 8%nat.
Proof. unfold le64. apply le_enc_length. Qed.

Lemma firstn8_le64 x r : firstn 8 (le64 x ++ r) = le64 x.
Proof. rewrite <- (le64_length x) at 1. apply firstn_app_exact. Qed.
Lemma skipn8_le64 x r : skipn 8 (le64 x ++ r) = r.
Proof. rewrite <- (le64_length x) at 1. apply skipn_app_exact. Qed.

Lemma to_numbers_vals vs : forall fuel, (length vs < fuel)%nat -> Forall ingv vs ->
  to_numbers fc fuel (concat (map enc_val vs)) = option_map (fun ws => concat (map enc_val ws)) (tonum_vals vs).
Proof.
  induction vs as [|v vs IH]; intros fuel Hf H.
  - destruct fuel; reflexivity.
  - destruct fuel as [|fuel]; [cbn in Hf; lia|].
    inversion H as [|? ? Hv Hvs]; subst.
    cbn [length] in Hf.
    specialize (IH fuel ltac:(lia) Hvs).
    cbn [map concat tonum_vals].
    pose proof (ingv_wf v Hv) as W.
    destruct v as [s|z|n|b|b|]; cbn [enc_val app to_numbers tonum_val].
    + (* string *)
      pose proof (wf_val_str s W) as L.
      change (T_STR =? T_STR) with true. cbv beta iota.
      rewrite <- app_assoc. rewrite rd16_le16 by lia. cbv beta iota.
      replace (N.of_nat (length (s ++ concat (map enc_val vs))) <? N.of_nat (length s)) with false
        by (symmetry; apply N.ltb_ge; rewrite app_length; lia).
      rewrite Nat2N.id, firstn_app_exact, skipn_app_exact.
      destruct (parse_int s) as [z|].
      * rewrite IH. destruct (tonum_vals vs); reflexivity.
      * destruct (pf fc s) as [bits|]; [|reflexivity].
        rewrite IH. destruct (tonum_vals vs); reflexivity.
    + (* int64 *)
      change (T_I64 =? T_STR) with false. change (T_I64 =? T_I64) with true. cbv beta iota. cbn [orb].
      cbv beta iota.
      replace (Nat.ltb (length (le64 (i64_to_u z) ++ concat (map enc_val vs))) 8) with false
        by (symmetry; apply Nat.ltb_ge; rewrite app_length, le64_length; lia).
      rewrite firstn8_le64, skipn8_le64.
      rewrite IH. destruct (tonum_vals vs); reflexivity.
    + (* uint64: not produced by the ingest path *)
      unfold ingv, ingest_val in Hv. apply andb_true_iff in Hv as [_ Hv]. discriminate.
    + (* float64 *)
      change (T_F64 =? T_STR) with false. change (T_F64 =? T_I64) with false. change (T_F64 =? T_F64) with true.
      cbv beta iota. cbn [orb]. cbv beta iota.
      replace (Nat.ltb (length (le64 b ++ concat (map enc_val vs))) 8) with false
        by (symmetry; apply Nat.ltb_ge; rewrite app_length, le64_length; lia).
      rewrite firstn8_le64, skipn8_le64.
      rewrite IH. destruct (tonum_vals vs); reflexivity.
    + (* bool *)
      reflexivity.
    + (* null *)
      change (T_BACKFILL =? T_STR) with false. change (T_BACKFILL =? T_I64) with false.
      change (T_BACKFILL =? T_F64) with false. change (T_BACKFILL =? T_BACKFILL) with true.
      cbv beta iota. cbn [orb]. cbv beta iota.
      rewrite IH. destruct (tonum_vals vs); reflexivity.
Qed.

Lemma to_strings_vals vs : forall fuel, (length vs < fuel)%nat -> Forall ingv vs ->
  to_strings fc fuel (concat (map enc_val vs)) = concat (map enc_val (map (to_text fc) vs)).
Proof.
  induction vs as [|v vs IH]; intros fuel Hf H.
  - destruct fuel; reflexivity.
  - destruct fuel as [|fuel]; [cbn in Hf; lia|].
    inversion H as [|? ? Hv Hvs]; subst.
    cbn [length] in Hf.
    specialize (IH fuel ltac:(lia) Hvs).
    cbn [map concat].
    pose proof (ingv_wf v Hv) as W.
    destruct v as [s|z|n|b|b|]; cbn [enc_val app to_strings to_text].
    + pose proof (wf_val_str s W) as L.
      change (T_STR =? T_STR) with true. cbv beta iota.
      rewrite <- app_assoc. rewrite rd16_le16 by lia. cbv beta iota.
      replace (N.min (N.of_nat (length s)) (N.of_nat (length (s ++ concat (map enc_val vs))))) with (N.of_nat (length s))
        by (rewrite app_length; lia).
      rewrite Nat2N.id, firstn_app_exact, skipn_app_exact.
      replace (firstn 2 (le16 (N.of_nat (length s)) ++ s ++ concat (map enc_val vs))) with (le16 (N.of_nat (length s))).
      * rewrite IH. cbn [app]. rewrite <- !app_assoc. reflexivity.
      * change 2%nat with (length (le16 (N.of_nat (length s)))) at 1. rewrite firstn_app_exact. reflexivity.
    + cbn in W. apply andb_true_iff in W as [W1 W2]. apply Z.leb_le in W1. apply Z.ltb_lt in W2.
      change (T_I64 =? T_STR) with false. change (T_I64 =? T_I64) with true. cbv beta iota.
      rewrite firstn8_le64, skipn8_le64.
      unfold le64. rewrite le_dec_enc by apply i64_to_u_bound. rewrite sext_i64 by lia.
      rewrite IH. reflexivity.
    + unfold ingv, ingest_val in Hv. apply andb_true_iff in Hv as [_ Hv]. discriminate.
    + cbn in W. apply N.ltb_lt in W.
      change (T_F64 =? T_STR) with false. change (T_F64 =? T_I64) with false. change (T_F64 =? T_F64) with true.
      cbv beta iota.
      rewrite firstn8_le64, skipn8_le64.
      unfold le64. rewrite le_dec_enc by exact W.
      rewrite IH. reflexivity.
    + change (T_BOOL =? T_STR) with false. change (T_BOOL =? T_I64) with false. change (T_BOOL =? T_F64) with false.
      change (T_BOOL =? T_BACKFILL) with false. change (T_BOOL =? T_BOOL) with true. cbv beta iota.
      rewrite IH. destruct b; reflexivity.
    + change (T_BACKFILL =? T_STR) with false. change (T_BACKFILL =? T_I64) with false.
      change (T_BACKFILL =? T_F64) with false. change (T_BACKFILL =? T_BACKFILL) with true. cbv beta iota.
      rewrite IH. reflexivity.
Qed.

(* values after the rewrite are still encodable *)
Lemma pos_digits_length fuel : forall n acc, (length (pos_digits fuel n acc) <= fuel + length acc)%nat.
Proof.
  induction fuel as [|f IH]; intros n acc; cbn [pos_digits]; [lia|].
  destruct (n <? 10); cbn [length]; [lia|].
  specialize (IH (n / 10) ((48 + n mod 10) :: acc)). cbn [length] in IH. lia.
Qed.

Lemma dec_of_Z_length z : (length (dec_of_Z z) <= 21)%nat.
Proof.
  unfold dec_of_Z, dec_of_N. destruct (z <? 0)%Z; cbn [length].
  - pose proof (pos_digits_length 20 (Z.to_N (- z)) []). cbn [length] in H. lia.
  - pose proof (pos_digits_length 20 (Z.to_N z) []). cbn [length] in H. lia.
Qed.

Lemma to_text_wf v : ingv v -> wfv (to_text fc v).
Proof.
  intros H. pose proof (ingv_wf v H) as W. destruct v; cbn [to_text]; auto.
  - unfold wfv. cbn. apply N.ltb_lt. pose proof (dec_of_Z_length z). lia.
  - unfold wfv. cbn. apply N.ltb_lt. apply ff_short.
  - unfold wfv. destruct b; reflexivity.
Qed.

Lemma tonum_vals_no_strings vs : Forall ingv vs ->
  existsb is_str vs = false -> existsb is_bool vs = false -> tonum_vals vs = Some vs.
Proof.
  induction 1 as [|v vs Hv Hvs IH]; intros Hs Hb; [reflexivity|].
  cbn [existsb] in Hs, Hb. apply orb_false_iff in Hs as [Hs1 Hs2]. apply orb_false_iff in Hb as [Hb1 Hb2].
  cbn [tonum_vals]. rewrite IH by assumption.
  destruct v; cbn in *; try discriminate; try reflexivity.
  unfold ingv, ingest_val in Hv. apply andb_true_iff in Hv as [_ Hv]. discriminate.
Qed.

Lemma tonum_vals_some vs ws : tonum_vals vs = Some ws ->
  existsb (nonnumeric_string fc) vs = false /\ existsb is_bool vs = false.
Proof.
  revert ws; induction vs as [|v vs IH]; intros ws H; [split; reflexivity|].
  cbn [tonum_vals] in H. destruct (tonum_val v) as [v'|] eqn:E; [|discriminate].
  destruct (tonum_vals vs) as [r'|] eqn:E2; [|discriminate].
  destruct (IH r' eq_refl) as [I1 I2]. cbn [existsb]. rewrite I1, I2.
  destruct v as [s| | | | |]; cbn in E |- *; try discriminate; auto.
  unfold numeric_str. destruct (parse_int s); [auto|]. destruct (pf fc s); [auto|discriminate].
Qed.

Lemma tonum_vals_none vs : tonum_vals vs = None -> Forall ingv vs ->
  existsb (nonnumeric_string fc) vs = true \/ existsb is_bool vs = true.
Proof.
  induction vs as [|v vs IH]; intros H Hi; [discriminate|].
  inversion Hi as [|? ? Hv Hvs]; subst.
  cbn [tonum_vals] in H. cbn [existsb].
  destruct (tonum_val v) as [v'|] eqn:E.
  - destruct (tonum_vals vs) eqn:E2; [discriminate|].
    destruct (IH eq_refl Hvs) as [I|I]; rewrite I; rewrite orb_true_r; auto.
  - destruct v as [s| | | | |]; cbn in E; try discriminate.
    + left. cbn. unfold numeric_str. destruct (parse_int s); [discriminate|]. destruct (pf fc s); [discriminate|]. reflexivity.
    + unfold ingv, ingest_val in Hv. apply andb_true_iff in Hv as [_ Hv]. discriminate.
    + right. reflexivity.
Qed.

End Conversions.

(* ================================================================== *)
(* the open block: what doLogEventFilling does to one column           *)
(* ================================================================== *)
Lemma bytes_eqb_sym a b : bytes_eqb a b = bytes_eqb b a.
Proof.
  destruct (bytes_eqb a b) eqn:E.
  - apply bytes_eqb_eq in E. subst. symmetry. apply bytes_eqb_refl.
  - destruct (bytes_eqb b a) eqn:E2; auto. apply bytes_eqb_eq in E2. subst. rewrite bytes_eqb_refl in E. discriminate.
Qed.

Lemma get_cw_put_same k cw cols : get_cw k (put k cw cols) = cw.
Proof. unfold get_cw. rewrite get_put_same. reflexivity. Qed.
Lemma get_cw_put_other k k' cw cols : k <> k' -> get_cw k' (put k cw cols) = get_cw k' cols.
Proof. intros H. unfold get_cw. rewrite get_put_other by exact H. reflexivity. Qed.

Lemma mem_add k k0 l : mem k (add k0 l) = true -> k = k0 \/ mem k l = true.
Proof.
  unfold add. destruct (mem k0 l) eqn:E; auto.
  unfold mem. rewrite existsb_app. cbn. intros H. apply orb_true_iff in H as [H|H]; auto.
  rewrite orb_false_r in H. apply bytes_eqb_eq in H. auto.
Qed.

Lemma nodup_get_none k0 (r : fields) :
  existsb (fun kv => bytes_eqb k0 (fst kv)) r = false -> get k0 r = None.
Proof.
  induction r as [|[k1 v1] r IH]; cbn; auto.
  intros H. apply orb_false_iff in H as [H1 H2]. rewrite bytes_eqb_sym, H1. auto.
Qed.

Lemma In_get_nodup (e : fields) k v : nodup_keys e = true -> In (k, v) e -> get k e = Some v.
Proof.
  induction e as [|[k1 v1] r IH]; cbn; [tauto|].
  intros H Hin. apply andb_true_iff in H as [H1 H2]. apply negb_true_iff in H1.
  destruct Hin as [Hin|Hin].
  - inversion Hin; subst. rewrite bytes_eqb_refl. reflexivity.
  - destruct (bytes_eqb k1 k) eqn:E.
    + apply bytes_eqb_eq in E. subst. apply nodup_get_none in H1.
      exfalso. eapply get_None_notin; eauto.
    + auto.
Qed.

Section Store.
Variable card : N.

Definition Cs (st : store) (k : key) : colwip := get_cw k (st_cols st).
Definition Fs (st : store) (k : key) : option bool := get k (st_inblock st).

Definition maybe_late (rc : N) (flag : option bool) (cw : colwip) : colwip :=
  match flag with
  | None => if rc =? 0 then cw else col_backfill_past rc cw
  | Some _ => cw
  end.

Lemma add_field_core_same st k v :
  Cs (add_field_core false card st (k, v)) k = col_append card v (st_rc st) (maybe_late (st_rc st) (Fs st k) (Cs st k)) /\
  Fs (add_field_core false card st (k, v)) k = Some true.
Proof.
  unfold Cs, Fs, add_field_core. cbn [st_cols st_inblock].
  rewrite get_cw_put_same, get_put_same. split; [|reflexivity].
  unfold maybe_late. destruct (get k (st_inblock st)); cbn [negb].
  - reflexivity.
  - destruct (st_rc st =? 0); reflexivity.
Qed.

Lemma add_field_core_other st k v k' : k <> k' ->
  Cs (add_field_core false card st (k, v)) k' = Cs st k' /\ Fs (add_field_core false card st (k, v)) k' = Fs st k'.
Proof.
  intros H. unfold Cs, Fs, add_field_core. cbn [st_cols st_inblock].
  rewrite get_cw_put_other, get_put_other by exact H. split; reflexivity.
Qed.

Lemma add_field_core_misc st kv :
  st_rc (add_field_core false card st kv) = st_rc st /\ st_ts (add_field_core false card st kv) = st_ts st /\
  (NoDup (map fst (st_inblock st)) -> NoDup (map fst (st_inblock (add_field_core false card st kv)))) /\
  (NoDup (map fst (st_cols st)) -> NoDup (map fst (st_cols (add_field_core false card st kv)))) /\
  (forall k, mem k (st_ris (add_field_core false card st kv)) = true -> mem k (st_ris st) = true \/ (k = fst kv /\ is_num (snd kv) = true)).
Proof.
  destruct kv as [k v]. unfold add_field_core. cbn [st_rc st_ts st_inblock st_cols st_ris fst snd].
  repeat split; auto using put_keys_nodup.
  intros k0 H. destruct (is_num v) eqn:Ev.
  - apply mem_add in H as [H|H]; auto.
    destruct (match get k (st_inblock st) with Some _ => false | None => negb (st_rc st =? 0) end); cbn [andb] in H.
    + apply mem_add in H as [H|H]; auto.
    + auto.
  - rewrite andb_false_r in H. auto.
Qed.

Definition flag_true (o : option bool) : bool := match o with Some true => true | _ => false end.

Lemma add_field_skip st k v : flag_true (Fs st k) = true -> add_field false card st (k, v) = st.
Proof. unfold add_field, Fs. cbn [fst negb andb]. unfold flag_true. intros H. destruct (get k (st_inblock st)) as [[|]|]; try discriminate. reflexivity. Qed.

Lemma add_field_go st k v : flag_true (Fs st k) = false ->
  add_field false card st (k, v) = add_field_core false card st (k, v).
Proof. unfold add_field, Fs. cbn [fst negb andb]. unfold flag_true. intros H. destruct (get k (st_inblock st)) as [[|]|]; try discriminate; reflexivity. Qed.

(* the loop over the event's (column, value) pairs, seen from column k: the first value of the
   column in this event is written, later ones (duplicate key) are skipped *)
Lemma fold_fields e : forall st,
  let st1 := fold_left (add_field false card) e st in
  (forall k, (Cs st1 k, Fs st1 k) =
     match get k e with
     | Some v => if flag_true (Fs st k) then (Cs st k, Fs st k)
                 else (col_append card v (st_rc st) (maybe_late (st_rc st) (Fs st k) (Cs st k)), Some true)
     | None => (Cs st k, Fs st k)
     end) /\
  st_rc st1 = st_rc st /\ st_ts st1 = st_ts st /\
  (NoDup (map fst (st_inblock st)) -> NoDup (map fst (st_inblock st1))) /\
  (NoDup (map fst (st_cols st)) -> NoDup (map fst (st_cols st1))) /\
  (forall k, mem k (st_ris st1) = true ->
     mem k (st_ris st) = true \/ (flag_true (Fs st k) = false /\ exists v, get k e = Some v /\ is_num v = true)).
Proof.
  induction e as [|[k0 v0] r IH]; intros st; cbn [fold_left].
  - cbn. repeat split; auto.
  - destruct (flag_true (Fs st k0)) eqn:Efl.
    + (* duplicate of a column already written by this event: skipped *)
      rewrite (add_field_skip st k0 v0 Efl).
      destruct (IH st) as (I1 & I2 & I3 & I4 & I5 & I6).
      cbn zeta. repeat split; auto.
      * intros k. rewrite I1. cbn [get].
        destruct (bytes_eqb k0 k) eqn:E; [|reflexivity].
        apply bytes_eqb_eq in E. subst k. rewrite Efl. destruct (get k0 r); reflexivity.
      * intros k H. destruct (I6 k H) as [H1|(H1 & v & H2 & H3)]; auto.
        right. split; auto. exists v. split; auto. cbn [get].
        destruct (bytes_eqb k0 k) eqn:E; auto. apply bytes_eqb_eq in E. subst k. congruence.
    + rewrite (add_field_go st k0 v0 Efl).
      destruct (IH (add_field_core false card st (k0, v0))) as (I1 & I2 & I3 & I4 & I5 & I6).
      destruct (add_field_core_misc st (k0, v0)) as (M1 & M2 & M3 & M4 & M5).
      destruct (add_field_core_same st k0 v0) as [A1 A2].
      cbn zeta. repeat split.
      * intros k. rewrite I1. cbn [get].
        destruct (bytes_eqb k0 k) eqn:E.
        -- apply bytes_eqb_eq in E. subst k. rewrite A2, Efl. cbn [flag_true].
           rewrite A1. destruct (get k0 r); reflexivity.
        -- assert (Hne : k0 <> k) by (intro; subst; rewrite bytes_eqb_refl in E; discriminate).
           destruct (add_field_core_other st k0 v0 k Hne) as [B1 B2]. rewrite B1, B2, M1. reflexivity.
      * congruence.
      * congruence.
      * auto.
      * auto.
      * intros k H. destruct (I6 k H) as [H1|(H1 & v & H2 & H3)].
        -- destruct (M5 k H1) as [H3|[H3 H4]]; auto. cbn [fst snd] in *. subst k.
           right. split; auto. exists v0. cbn [get]. rewrite bytes_eqb_refl. auto.
        -- destruct (bytes_eq_dec k0 k) as [<-|Hne].
           ++ rewrite A2 in H1. discriminate.
           ++ destruct (add_field_core_other st k0 v0 k Hne) as [B1 B2]. rewrite B2 in H1.
              right. split; auto. exists v. split; auto. cbn [get]. rewrite (bytes_eqb_neq k0 k Hne). exact H2.
Qed.

(* the back-fill loop at the end of the event *)
Lemma end_backfill_spec rc total inb : forall cols seen, NoDup (map fst inb) ->
  let '(inb', cols', seen') := end_backfill card rc total inb cols seen in
  (forall k, get k inb' = option_map (fun _ => false) (get k inb)) /\
  (forall k, get_cw k cols' =
     match get k inb with
     | Some false => col_append card VNull rc (get_cw k cols)
     | _ => get_cw k cols
     end) /\
  map fst inb' = map fst inb /\
  (NoDup (map fst cols) -> NoDup (map fst cols')).
Proof.
  induction inb as [|[k0 found] r IH]; intros cols seen Hnd; cbn [end_backfill].
  - repeat split; auto.
  - cbn [map fst] in Hnd. inversion Hnd as [|? ? Hnotin Hnd']; subst.
    set (cs := if found then (cols, seen)
               else (put k0 (col_append card VNull rc (get_cw k0 cols)) cols, seen_update k0 1 total seen)).
    destruct cs as [cols1 seen1] eqn:Ecs.
    specialize (IH cols1 seen1 Hnd').
    destruct (end_backfill card rc total r cols1 seen1) as [[r' cols2] seen2].
    destruct IH as (I1 & I2 & I3 & I4).
    assert (Hc1 : forall k, get_cw k cols1 = if bytes_eqb k0 k then (if found then get_cw k cols else col_append card VNull rc (get_cw k cols)) else get_cw k cols).
    { intros k. unfold cs in Ecs. destruct found; inversion Ecs; subst.
      - destruct (bytes_eqb k0 k); reflexivity.
      - destruct (bytes_eqb k0 k) eqn:E.
        + apply bytes_eqb_eq in E. subst. apply get_cw_put_same.
        + apply get_cw_put_other. intro; subst. rewrite bytes_eqb_refl in E. discriminate. }
    repeat split.
    + intros k. cbn [get]. destruct (bytes_eqb k0 k); [reflexivity | apply I1].
    + intros k. rewrite I2, Hc1. cbn [get].
      destruct (bytes_eqb k0 k) eqn:E.
      * apply bytes_eqb_eq in E. subst k. rewrite (get_notin_keys k0 r Hnotin). destruct found; reflexivity.
      * reflexivity.
    + cbn [map fst]. rewrite I3. reflexivity.
    + intros H. apply I4. unfold cs in Ecs. destruct found; inversion Ecs; subst; auto using put_keys_nodup.
Qed.

(* one event, seen from column k: (column buffer+dictionary, columnsInBlock flag) *)
Definition col_event (k : key) (rc : N) (e : fields) (s : colwip * option bool) : colwip * option bool :=
  match get k e with
  | Some v => (col_append card v rc (maybe_late rc (snd s) (fst s)), Some false)
  | None =>
    match snd s with
    | Some false => (col_append card VNull rc (fst s), Some false)
    | Some true => (fst s, Some false)
    | None => (fst s, None)
    end
  end.

Lemma add_event_spec st e : (forall k, Fs st k <> Some true) -> NoDup (map fst (st_inblock st)) ->
  let st' := add_event false card st e in
  (forall k, (Cs st' k, Fs st' k) = col_event k (st_rc st) (ev_fields e) (Cs st k, Fs st k)) /\
  st_rc st' = st_rc st + 1 /\ st_ts st' = st_ts st ++ [ev_ts e] /\
  NoDup (map fst (st_inblock st')) /\
  (NoDup (map fst (st_cols st)) -> NoDup (map fst (st_cols st'))) /\
  (forall k, mem k (st_ris st') = true -> mem k (st_ris st) = true \/ is_num (fget k (ev_fields e)) = true) /\
  st_blooms st' = st_blooms (fold_left (add_field false card) (ev_fields e) st).
Proof.
  intros Hfl Hnd. unfold add_event.
  destruct (fold_fields (ev_fields e) st) as (I1 & I2 & I3 & I4 & I5 & I6).
  set (st1 := fold_left (add_field false card) (ev_fields e) st) in *.
  pose proof (end_backfill_spec (st_rc st1) (st_total st1) (st_inblock st1) (st_cols st1) (st_seen st1) (I4 Hnd)) as EB.
  destruct (end_backfill card (st_rc st1) (st_total st1) (st_inblock st1) (st_cols st1) (st_seen st1)) as [[inb cols] seen].
  destruct EB as (E1 & E2 & E3 & E4).
  rewrite I2 in E2.
  assert (Hft : forall k, flag_true (Fs st k) = false).
  { intros k. specialize (Hfl k). unfold flag_true. destruct (Fs st k) as [[|]|]; congruence. }
  cbn zeta. cbn [st_rc st_ts st_inblock st_cols st_ris st_blooms].
  repeat split.
  - intros k. unfold Cs, Fs. cbn [st_cols st_inblock]. rewrite E1, E2.
    specialize (I1 k). rewrite (Hft k) in I1. unfold Cs, Fs in I1. unfold col_event. cbn [fst snd].
    destruct (get k (ev_fields e)) as [v|].
    + inversion I1 as [[A1 A2]]. rewrite A2. reflexivity.
    + inversion I1 as [[A1 A2]]. rewrite A2. destruct (get k (st_inblock st)) as [[|]|]; reflexivity.
  - rewrite I2. reflexivity.
  - rewrite I3. reflexivity.
  - rewrite E3. apply I4. exact Hnd.
  - intros H. apply E4. apply I5. exact H.
  - intros k H. destruct (I6 k H) as [H1|(_ & v & H1 & H2)]; auto.
    right. unfold fget. rewrite H1. exact H2.
Qed.

End Store.

(* ================================================================== *)
(* per-column invariant of the open block                              *)
(* ================================================================== *)
Section ColInv.
Variable card : N.

(* every (word, record number) pair in the dictionary is true of the column *)
Definition dict_truthful (d : list (bytes * list N)) (vs : list cval) : Prop :=
  forall w recs, In (w, recs) d ->
    (length recs <= length vs)%nat /\ (exists v, In v vs /\ enc_val v = w) /\
    forall r, In r recs -> exists v, nth_error vs (N.to_nat r) = Some v /\ enc_val v = w.
Definition dict_covers (d : list (bytes * list N)) (n : nat) : Prop :=
  forall i, (i < n)%nat -> exists w recs, In (w, recs) d /\ In (N.of_nat i) recs.
Definition DictInv (cw : colwip) (vs : list cval) : Prop :=
  dict_truthful (cw_dict cw) vs /\ cw_cnt cw = N.of_nat (length (cw_dict cw)) /\
  (cw_cnt cw < card -> dict_covers (cw_dict cw) (length vs)).

(* state of a column = (buffer + dictionary, columnsInBlock flag); vs = its values so far *)
Definition ColInv (s : colwip * option bool) (vs : list cval) : Prop :=
  match snd s with
  | None => fst s = empty_cw /\ vs = repeat VNull (length vs)
  | Some _ => cw_buf (fst s) = concat (map enc_val vs) /\ DictInv (fst s) vs
  end.

Lemma truthful_mono d vs v : dict_truthful d vs -> dict_truthful d (vs ++ [v]).
Proof.
  intros H w recs Hin. destruct (H w recs Hin) as (H1 & (v0 & H2 & H3) & H4).
  repeat split.
  - rewrite app_length. cbn. lia.
  - exists v0. split; auto. apply in_or_app. auto.
  - intros r Hr. destruct (H4 r Hr) as (v1 & E1 & E2). exists v1. split; auto.
    rewrite nth_error_app1; auto. apply nth_error_Some. congruence.
Qed.

Lemma nth_error_snoc {A} (l : list A) x : nth_error (l ++ [x]) (length l) = Some x.
Proof. rewrite nth_error_app2 by lia. rewrite Nat.sub_diag. reflexivity. Qed.

Lemma dict_add_buf w rc cw : cw_buf (dict_add card w rc cw) = cw_buf cw.
Proof. unfold dict_add. destruct (cw_cnt cw <? card); [destruct (get w (cw_dict cw))|]; reflexivity. Qed.

Lemma col_append_inv cw vs v rc :
  cw_buf cw = concat (map enc_val vs) -> DictInv cw vs -> rc = N.of_nat (length vs) ->
  cw_buf (col_append card v rc cw) = concat (map enc_val (vs ++ [v])) /\ DictInv (col_append card v rc cw) (vs ++ [v]).
Proof.
  intros Hb (Ht & Hc & Hcov) Hrc. subst rc. unfold col_append. split.
  - rewrite dict_add_buf. cbn [cw_buf]. rewrite Hb, map_app, concat_app. cbn. rewrite app_nil_r. reflexivity.
  - unfold dict_add. cbn [cw_buf cw_dict cw_cnt].
    destruct (cw_cnt cw <? card) eqn:Ec.
    2:{ (* limit reached: nothing is registered any more *)
      unfold DictInv. cbn [cw_dict cw_cnt]. split; [apply truthful_mono; exact Ht|]. split; [exact Hc|].
      intros Hlt. apply N.ltb_ge in Ec. lia. }
    apply N.ltb_lt in Ec.
    destruct (get (enc_val v) (cw_dict cw)) as [recs|] eqn:Eg; unfold DictInv; cbn [cw_dict cw_cnt].
    + (* known word: one more record number *)
      pose proof (get_In _ _ _ Eg) as Hin.
      destruct (Ht _ _ Hin) as (T1 & T2 & T3).
      split; [|split].
      * intros w r0 Hi. apply In_put in Hi as [Hi|Hi].
        -- inversion Hi; subst w r0. repeat split.
           ++ rewrite !app_length. cbn. lia.
           ++ exists v. split; auto. apply in_or_app. right. cbn. auto.
           ++ intros r Hr. apply in_app_or in Hr as [Hr|[Hr|[]]].
              ** destruct (T3 r Hr) as (v1 & E1 & E2). exists v1. split; auto.
                 rewrite nth_error_app1; auto. apply nth_error_Some. congruence.
              ** subst r. exists v. split; auto. rewrite Nat2N.id. apply nth_error_snoc.
        -- apply (truthful_mono _ _ v Ht). exact Hi.
      * rewrite (put_length_some _ _ _ _ Eg). exact Hc.
      * intros _ i Hi. rewrite app_length in Hi. cbn in Hi.
        destruct (Nat.eq_dec i (length vs)) as [->|Hne].
        -- exists (enc_val v), (recs ++ [N.of_nat (length vs)]). split; [apply In_put_new|]. apply in_or_app. right. cbn. auto.
        -- destruct (Hcov Ec i ltac:(lia)) as (w0 & r0 & Hi0 & Hi1).
           destruct (In_put_keep w0 r0 (enc_val v) (recs ++ [N.of_nat (length vs)]) _ Hi0) as [Hk|[Hk1 Hk2]].
           ++ exists w0, r0. auto.
           ++ subst w0. rewrite Eg in Hk2. inversion Hk2; subst r0.
              exists (enc_val v), (recs ++ [N.of_nat (length vs)]). split; [apply In_put_new|]. apply in_or_app. auto.
    + (* new word *)
      split; [|split].
      * intros w r0 Hi. apply in_app_or in Hi as [Hi|[Hi|[]]].
        -- apply (truthful_mono _ _ v Ht). exact Hi.
        -- inversion Hi; subst w r0. repeat split.
           ++ rewrite app_length. cbn. lia.
           ++ exists v. split; auto. apply in_or_app. right. cbn. auto.
           ++ intros r [Hr|[]]. subst r. exists v. split; auto. rewrite Nat2N.id. apply nth_error_snoc.
      * rewrite app_length. cbn. lia.
      * intros Hlt i Hi. rewrite app_length in Hi. cbn in Hi.
        destruct (Nat.eq_dec i (length vs)) as [->|Hne].
        -- exists (enc_val v), [N.of_nat (length vs)]. split; [apply in_or_app; right; cbn; auto|]. cbn. auto.
        -- destruct (Hcov ltac:(lia) i ltac:(lia)) as (w0 & r0 & Hi0 & Hi1).
           exists w0, r0. split; auto. apply in_or_app. auto.
Qed.

Lemma repeat_backfill n : repeat T_BACKFILL n = concat (map enc_val (repeat VNull n)).
Proof. induction n as [|n IH]; cbn; [reflexivity|]. rewrite IH. reflexivity. Qed.

Lemma In_seqN r : forall n s, In r (seqN s n) <-> s <= r < s + N.of_nat n.
Proof.
  induction n as [|n IH]; intros s; cbn [seqN In]; [lia|].
  rewrite IH. lia.
Qed.

Lemma nth_error_repeat' {A} (a : A) n i : (i < n)%nat -> nth_error (repeat a n) i = Some a.
Proof. revert i; induction n as [|n IH]; intros i H; [lia|]. destruct i; cbn; auto. apply IH. lia. Qed.

Lemma backfill_inv n : (0 < n)%nat ->
  let cw := col_backfill_past (N.of_nat n) empty_cw in
  cw_buf cw = concat (map enc_val (repeat VNull n)) /\ DictInv cw (repeat VNull n).
Proof.
  intros Hn. unfold col_backfill_past. cbn [cw_buf cw_dict cw_cnt empty_cw app put]. rewrite Nat2N.id.
  split; [apply repeat_backfill|].
  unfold DictInv. cbn [cw_dict cw_cnt]. split; [|split].
  - intros w recs [Hi|[]]. inversion Hi; subst w recs. rewrite repeat_length, seqN_length. repeat split.
    + lia.
    + exists VNull. split; [|reflexivity]. destruct n; [lia|]. cbn. auto.
    + intros r Hr. apply In_seqN in Hr. exists VNull. split; [|reflexivity].
      apply nth_error_repeat'. lia.
  - reflexivity.
  - intros _ i Hi. rewrite repeat_length in Hi. exists W_BACKFILL, (seqN 0 n). split; [cbn; auto|].
    apply In_seqN. lia.
Qed.

Lemma empty_inv : cw_buf empty_cw = concat (map enc_val []) /\ DictInv empty_cw [].
Proof.
  split; [reflexivity|]. unfold DictInv. cbn. split; [|split].
  - intros w recs [].
  - reflexivity.
  - intros _ i Hi. lia.
Qed.

Lemma repeat_snoc {A} (a : A) n : repeat a n ++ [a] = repeat a (S n).
Proof. induction n as [|n IH]; cbn; [reflexivity|]. rewrite IH. reflexivity. Qed.

(* one event keeps the invariant; the column's value list grows by the event's value (absent = null) *)
Lemma col_event_inv k e s vs rc :
  ColInv s vs -> rc = N.of_nat (length vs) -> snd s <> Some true ->
  ColInv (col_event card k rc e s) (vs ++ [fget k e]) /\ snd (col_event card k rc e s) <> Some true.
Proof.
  intros Hinv Hrc Hflag. unfold col_event, fget, ColInv in *.
  destruct s as [cw flag]. cbn [fst snd] in *.
  destruct (get k e) as [v|]; cbn [fst snd].
  - split; [|discriminate].
    destruct flag as [b|]; cbn [maybe_late].
    + destruct Hinv as [Hb Hd]. apply col_append_inv; auto.
    + destruct Hinv as [Hcw Hvs]. subst cw.
      destruct (rc =? 0) eqn:E0.
      * apply N.eqb_eq in E0. assert (length vs = 0%nat) by lia.
        destruct vs; [|discriminate]. apply col_append_inv; auto; apply empty_inv.
      * apply N.eqb_neq in E0. rewrite Hvs, Hrc.
        destruct (backfill_inv (length vs) ltac:(lia)) as [B1 B2].
        apply col_append_inv; auto. rewrite repeat_length. reflexivity.
  - destruct flag as [[|]|]; cbn [fst snd].
    + congruence.
    + split; [|discriminate]. destruct Hinv as [Hb Hd]. apply col_append_inv; auto.
    + split; [|discriminate]. destruct Hinv as [Hcw Hvs]. split; auto.
      rewrite app_length. cbn. rewrite Hvs at 1. rewrite Nat.add_1_r. apply repeat_snoc.
Qed.

End ColInv.

(* ================================================================== *)
(* a whole block, its flush, and the match-all read                    *)
(* ================================================================== *)
Lemma mem_del k k0 l : mem k (del k0 l) = true -> mem k l = true.
Proof.
  unfold mem, del. intros H. apply existsb_exists in H as (x & Hx & E).
  apply filter_In in Hx as [Hx _]. apply existsb_exists. eauto.
Qed.

Lemma existsb_In_eqb i recs : existsb (N.eqb i) recs = true <-> In i recs.
Proof.
  rewrite existsb_exists. split.
  - intros (x & Hx & E). apply N.eqb_eq in E. subst. exact Hx.
  - intros H. exists i. split; auto. apply N.eqb_refl.
Qed.

Lemma lookup_from_spec d i : forall cur,
  (exists w recs, In (w, recs) d /\ In i recs /\ dict_lookup_from d i cur = w) \/
  ((forall w recs, In (w, recs) d -> ~ In i recs) /\ dict_lookup_from d i cur = cur).
Proof.
  induction d as [|[w recs] r IH]; intros cur; cbn [dict_lookup_from].
  - right. split; [intros ? ? []|reflexivity].
  - destruct (IH (if existsb (N.eqb i) recs then w else cur)) as [(w1 & r1 & H1 & H2 & H3)|[H1 H2]].
    + left. exists w1, r1. cbn. auto.
    + destruct (existsb (N.eqb i) recs) eqn:E.
      * left. exists w, recs. cbn. repeat split; auto. apply existsb_In_eqb. exact E.
      * right. split; auto. intros w1 r1 [Hi|Hi].
        -- inversion Hi; subst. intro Hin. apply existsb_In_eqb in Hin. congruence.
        -- eauto.
Qed.

Lemma word_ok_enc v : ingv v -> word_ok (enc_val v).
Proof.
  intros H rest. pose proof (ingv_wf v H) as W. rewrite enc_val_length.
  destruct v as [s|z|n|b|b|]; cbn [enc_val app dict_word_len].
  - pose proof (wf_val_str s W) as L.
    change (T_STR =? T_STR) with true. cbv beta iota.
    rewrite <- app_assoc, rd16_le16 by lia. f_equal. lia.
  - reflexivity.
  - unfold ingv, ingest_val in H. apply andb_true_iff in H as [_ H]. discriminate.
  - reflexivity.
  - reflexivity.
  - reflexivity.
Qed.

Section Segment.
Variable fc : fconv.
Hypothesis ff_short : forall b, N.of_nat (length (ff fc b)) < 65533.
Variable card : N.
Hypothesis card_u16 : card < 65536.

(* reading one flushed column *)
Lemma read_dict_col cw vs :
  vs <> [] -> N.of_nat (length vs) < 65536 -> Forall ingv vs ->
  cw_buf cw = concat (map enc_val vs) ->
  (cw_dict cw = [] /\ cw_cnt cw = 0) \/ DictInv card cw vs ->
  read_col INCONSISTENT (length vs) (encode_col card cw) = Some (map enc_val vs).
Proof.
  intros Hne Hlen Hing Hbuf Hd.
  assert (Hwf : Forall wfv vs) by (eapply Forall_impl; [|exact Hing]; apply ingv_wf).
  unfold encode_col.
  destruct ((0 <? cw_cnt cw) && (cw_cnt cw <? card)) eqn:E.
  2:{ cbn [read_col]. change (ENC_RAW =? ENC_RAW) with true. cbv beta iota. rewrite Hbuf. apply raw_roundtrip. exact Hwf. }
  apply andb_true_iff in E as [E1 E2]. apply N.ltb_lt in E1, E2.
  destruct Hd as [[_ Hc]|(Ht & Hc & Hcov)]; [lia|].
  cbn [read_col]. change (ENC_DICT =? ENC_RAW) with false. change (ENC_DICT =? ENC_DICT) with true. cbv beta iota.
  rewrite Hc. rewrite dict_roundtrip.
  - f_equal. apply nth_ext with (d := []) (d' := []).
    + rewrite !map_length, seqN_length. reflexivity.
    + intros i Hi. rewrite map_length, seqN_length in Hi.
      rewrite (nth_indep (map (dict_lookup (cw_dict cw)) (seqN 0 (length vs))) [] (dict_lookup (cw_dict cw) 0))
        by (rewrite map_length, seqN_length; exact Hi).
      rewrite (map_nth (dict_lookup (cw_dict cw))). rewrite seqN_nth by exact Hi. cbn [N.add].
      rewrite (nth_indep (map enc_val vs) [] (enc_val VNull)) by (rewrite map_length; exact Hi).
      rewrite (map_nth enc_val).
      unfold dict_lookup.
      destruct (lookup_from_spec (cw_dict cw) (N.of_nat i) (match cw_dict cw with [] => [] | (w, _) :: _ => w end))
        as [(w & recs & H1 & H2 & H3)|[H1 _]].
      * rewrite H3. destruct (Ht w recs H1) as (_ & _ & T3). destruct (T3 _ H2) as (v & Ev & Ew).
        rewrite Nat2N.id in Ev. rewrite <- Ew. f_equal. symmetry. apply nth_error_nth. exact Ev.
      * destruct (Hcov E2 i Hi) as (w & recs & Hw1 & Hw2). exfalso. exact (H1 w recs Hw1 Hw2).
  - rewrite <- Hc. lia.
  - lia.
  - rewrite Forall_forall. intros [w recs] Hin. destruct (Ht w recs Hin) as (T1 & (v & Tv & Te) & T3).
    unfold entry_ok. cbn [fst snd]. repeat split.
    + rewrite <- Te. apply word_ok_enc. rewrite Forall_forall in Hing. auto.
    + lia.
    + rewrite Forall_forall. intros r Hr. destruct (T3 r Hr) as (v1 & E3 & _).
      assert (N.to_nat r < length vs)%nat by (apply nth_error_Some; congruence). lia.
Qed.

(* consolidateColumnTypes, seen from column k *)
Definition conv_buf (b : bytes) : bytes :=
  match to_numbers fc (S (length b)) b with
  | Some b' => b'
  | None => to_strings fc (S (length b)) b
  end.

Lemma consolidate_spec ks : forall cols blooms ris, NoDup ks ->
  let '(cols', _, _) := consolidate fc ks cols blooms ris in
  (forall k, get_cw k cols' = get_cw k cols \/
             (In k ks /\ mem k ris = true /\ get_cw k cols' = fresh_cw (conv_buf (cw_buf (get_cw k cols))))) /\
  (NoDup (map fst cols) -> NoDup (map fst cols')).
Proof.
  induction ks as [|k0 r IH]; intros cols blooms ris Hnd; cbn [consolidate].
  - split; auto.
  - inversion Hnd as [|? ? Hnotin Hnd']; subst.
    destruct (mem k0 blooms && mem k0 ris) eqn:E.
    + apply andb_true_iff in E as [E1 E2]. cbv zeta.
      set (b := cw_buf (get_cw k0 cols)).
      assert (Hstep : forall cols1 blooms1 ris1,
                 cols1 = put k0 (fresh_cw (conv_buf b)) cols ->
                 (forall k, mem k ris1 = true -> mem k ris = true) ->
                 let '(cols', _, _) := consolidate fc r cols1 blooms1 ris1 in
                 (forall k, get_cw k cols' = get_cw k cols \/
                    (In k (k0 :: r) /\ mem k ris = true /\ get_cw k cols' = fresh_cw (conv_buf (cw_buf (get_cw k cols))))) /\
                 (NoDup (map fst cols) -> NoDup (map fst cols'))).
      { intros cols1 blooms1 ris1 Hc1 Hris.
        specialize (IH cols1 blooms1 ris1 Hnd').
        destruct (consolidate fc r cols1 blooms1 ris1) as [[cols' bl'] ri'].
        destruct IH as [I1 I2]. split.
        - intros k. destruct (bytes_eq_dec k0 k) as [<-|Hne].
          + right. split; [cbn; auto|]. split; [exact E2|].
            destruct (I1 k0) as [H|[H _]]; [|contradiction].
            rewrite H, Hc1. apply get_cw_put_same.
          + destruct (I1 k) as [H|(H1 & H2 & H3)].
            * left. rewrite H, Hc1. apply get_cw_put_other. exact Hne.
            * right. split; [cbn; auto|]. split; [auto|].
              rewrite H3, Hc1. rewrite get_cw_put_other by exact Hne. reflexivity.
        - intros H. apply I2. rewrite Hc1. apply put_keys_nodup. exact H. }
      destruct (to_numbers fc (S (length b)) b) as [b'|] eqn:En.
      * apply (Hstep _ (del k0 blooms) ris); [unfold conv_buf; fold b; rewrite En; reflexivity | auto].
      * apply (Hstep _ blooms (del k0 ris)); [unfold conv_buf; fold b; rewrite En; reflexivity | intros k; apply mem_del].
    + specialize (IH cols blooms ris Hnd').
      destruct (consolidate fc r cols blooms ris) as [[cols' bl'] ri'].
      destruct IH as [I1 I2]. split; auto.
      intros k. destruct (I1 k) as [H|(H1 & H2 & H3)]; [left; auto | right; cbn; auto].
Qed.

(* reading back all columns of a block *)
Lemma In_get_nodup_assoc {A} (l : list (bytes * A)) k v : NoDup (map fst l) -> In (k, v) l -> get k l = Some v.
Proof.
  induction l as [|[k1 v1] r IH]; cbn; [tauto|].
  intros Hnd [Hin|Hin]; inversion Hnd as [|? ? Hn Hr]; subst.
  - inversion Hin; subst. rewrite bytes_eqb_refl. reflexivity.
  - destruct (bytes_eqb k1 k) eqn:E.
    + apply bytes_eqb_eq in E. subst. exfalso. apply Hn. apply in_map_iff. exists (k, v). auto.
    + auto.
Qed.

Lemma read_cols_ok n (R : key -> list cval -> Prop) cols : NoDup (map fst cols) ->
  (forall k cw, In (k, cw) cols -> cw_buf cw <> [] ->
     exists vs, read_col INCONSISTENT n (encode_col card cw) = Some (map enc_val vs) /\ Forall wfv vs /\ R k vs) ->
  exists out, read_cols n (encode_cols card cols) = Some out /\
    forall k, match cw_buf (get_cw k cols) with
              | [] => get k out = None
              | _ => exists vs, get k out = Some vs /\ R k vs
              end.
Proof.
  induction cols as [|[k0 cw0] r IH]; intros Hnd H.
  - exists []. split; [reflexivity|]. intros k. reflexivity.
  - cbn [map fst] in Hnd. inversion Hnd as [|? ? Hnotin Hnd']; subst.
    destruct (IH Hnd') as (out & Ho & Hk); [intros k cw Hi; apply H; cbn; auto|].
    assert (Hk0 : get k0 out = None).
    { specialize (Hk k0). unfold get_cw in Hk. rewrite (get_notin_keys k0 r Hnotin) in Hk. exact Hk. }
    cbn [encode_cols]. destruct (cw_buf cw0) eqn:Eb.
    + exists out. split; [exact Ho|]. intros k. unfold get_cw. cbn [get].
      destruct (bytes_eqb k0 k) eqn:E.
      * apply bytes_eqb_eq in E. subst. rewrite Eb. exact Hk0.
      * apply Hk.
    + destruct (H k0 cw0 (or_introl eq_refl)) as (vs & Hr & Hw & HR); [rewrite Eb; discriminate|].
      exists ((k0, vs) :: out). split.
      * cbn [read_cols]. rewrite Hr, (dec_all_enc vs Hw), Ho. reflexivity.
      * intros k. unfold get_cw. cbn [get].
        destruct (bytes_eqb k0 k) eqn:E.
        -- apply bytes_eqb_eq in E. subst. rewrite Eb. exists vs. auto.
        -- apply Hk.
Qed.

(* ---------- the invariant of the open block ---------- *)
Record BInv (st : store) (evs : list event) : Prop := {
  bi_col : forall k, ColInv card (Cs st k, Fs st k) (colview k evs);
  bi_flag : forall k, Fs st k <> Some true;
  bi_rc : st_rc st = N.of_nat (length evs);
  bi_ts : st_ts st = map ev_ts evs;
  bi_nd_in : NoDup (map fst (st_inblock st));
  bi_nd_cols : NoDup (map fst (st_cols st));
  bi_ris : forall k, mem k (st_ris st) = true -> existsb is_num (colview k evs) = true
}.

Definition block_start (st : store) : Prop :=
  st_inblock st = [] /\ st_ris st = [] /\ st_rc st = 0 /\ st_ts st = [] /\
  (forall k, get_cw k (st_cols st) = empty_cw) /\ NoDup (map fst (st_cols st)).

Lemma binv_start st : block_start st -> BInv st [].
Proof.
  intros (H1 & H2 & H3 & H4 & H5 & H6). constructor; auto.
  - intros k. unfold ColInv, Cs, Fs. rewrite H1. cbn. auto.
  - intros k. unfold Fs. rewrite H1. discriminate.
  - rewrite H1. constructor.
  - intros k. rewrite H2. discriminate.
Qed.

Lemma event_ok_parts e : event_ok e = true ->
  Forall (fun kv => ingv (snd kv)) (ev_fields e) /\ ts_ok (ev_ts e) = true.
Proof.
  unfold event_ok. intros H. apply andb_true_iff in H as [H2 H3].
  split; auto. apply Forall_forall. rewrite forallb_forall in H2. exact H2.
Qed.

Lemma binv_step st evs e : BInv st evs -> event_ok e = true -> BInv (add_event false card st e) (evs ++ [e]).
Proof.
  intros [B1 B2 B3 B4 B5 B6 B7] Hok.
  destruct (add_event_spec card st e B2 B5) as (A1 & A2 & A3 & A4 & A5 & A6 & _).
  assert (Hcv : forall k, colview k (evs ++ [e]) = colview k evs ++ [fget k (ev_fields e)])
    by (intros k; unfold colview; rewrite map_app; reflexivity).
  assert (Hlen : forall k, length (colview k evs) = length evs) by (intros k; apply map_length).
  constructor.
  - intros k. rewrite A1, Hcv.
    refine (proj1 (col_event_inv card k (ev_fields e) (Cs st k, Fs st k) (colview k evs) (st_rc st) (B1 k) _ (B2 k))).
    rewrite Hlen. exact B3.
  - intros k. specialize (A1 k). apply (f_equal snd) in A1. cbn [snd] in A1. rewrite A1.
    refine (proj2 (col_event_inv card k (ev_fields e) (Cs st k, Fs st k) (colview k evs) (st_rc st) (B1 k) _ (B2 k))).
    rewrite Hlen. exact B3.
  - rewrite A2, B3, app_length. cbn. lia.
  - rewrite A3, B4, map_app. reflexivity.
  - exact A4.
  - apply A5. exact B6.
  - intros k H. rewrite Hcv, existsb_app. cbn [existsb]. destruct (A6 k H) as [H1|H1].
    + rewrite (B7 k H1). reflexivity.
    + rewrite H1. rewrite orb_true_r. reflexivity.
Qed.

Lemma binv_fold evs : forall st done, BInv st done -> Forall (fun e => event_ok e = true) evs ->
  BInv (fold_left (add_event false card) evs st) (done ++ evs).
Proof.
  induction evs as [|e evs IH]; intros st done B H; cbn [fold_left].
  - rewrite app_nil_r. exact B.
  - inversion H as [|? ? He Hes]; subst.
    replace (done ++ e :: evs) with ((done ++ [e]) ++ evs) by (rewrite <- app_assoc; reflexivity).
    apply IH; auto. apply binv_step; auto.
Qed.

Lemma colview_ingv k evs : Forall (fun e => event_ok e = true) evs -> Forall ingv (colview k evs).
Proof.
  intros H. unfold colview. rewrite Forall_map. eapply Forall_impl; [|exact H].
  intros e He. destruct (event_ok_parts e He) as (Hv & _).
  unfold fget. destruct (get k (ev_fields e)) as [v|] eqn:E; [|reflexivity].
  apply get_In in E. rewrite Forall_forall in Hv. apply (Hv (k, v) E).
Qed.

Lemma get_cw_reset k (cols : list (key * colwip)) : get_cw k (map (fun kc => (fst kc, empty_cw)) cols) = empty_cw.
Proof.
  unfold get_cw. induction cols as [|[k1 c1] r IH]; cbn; auto.
  destruct (bytes_eqb k1 k); auto.
Qed.

Definition block_result_ok (evs : list event) (out : list N * list (key * list cval)) : Prop :=
  fst out = map ev_ts evs /\
  forall k, col_allowed fc (colview k evs)
              (match get k (snd out) with Some vs => vs | None => repeat VNull (length evs) end).

Definition block_guard (evs : list event) : Prop :=
  evs <> [] /\ N.of_nat (length evs) < 65536 /\ Forall (fun e => event_ok e = true) evs /\
  forall k, col_guard fc (colview k evs) = true.

Lemma map_enc_nonempty vs : vs <> [] -> concat (map enc_val vs) <> [].
Proof. destruct vs; [congruence|]. intros _. apply concat_enc_nonempty. Qed.

(* flush of a block whose events satisfy the guard, and the match-all read of that block *)
Theorem block_roundtrip st evs : block_start st -> block_guard evs ->
  let '(fb, st2) := flush_block fc false card (fold_left (add_event false card) evs st) in
  (exists out, read_block fb = Some out /\ block_result_ok evs out) /\ block_start st2.
Proof.
  intros Hs (Hne & Hlen & Hok & Hguard).
  pose proof (binv_fold evs st [] (binv_start st Hs) Hok) as B. cbn [app] in B.
  set (st1 := fold_left (add_event false card) evs st) in *.
  destruct B as [B1 B2 B3 B4 B5 B6 B7].
  unfold flush_block.
  assert (Hks : NoDup (map fst (st_inblock st1))) by exact B5.
  pose proof (consolidate_spec (map fst (st_inblock st1)) (st_cols st1) (st_blooms st1) (st_ris st1) Hks) as CS.
  destruct (consolidate fc (map fst (st_inblock st1)) (st_cols st1) (st_blooms st1) (st_ris st1)) as [[cols2 bl2] ri2].
  destruct CS as [C1 C2]. specialize (C2 B6).
  split.
  2:{ unfold block_start. cbn [st_inblock st_ris st_rc st_ts st_cols]. repeat split; auto.
      - intros k. apply get_cw_reset.
      - rewrite map_map. cbn [fst]. exact C2. }
  set (n := length evs).
  assert (Hn : n <> 0%nat) by (unfold n; destruct evs; [congruence | discriminate]).
  (* what each column looks like after consolidation *)
  assert (Hcol : forall k,
            (cw_buf (get_cw k cols2) = [] /\ colview k evs = repeat VNull n) \/
            (exists vs, vs <> [] /\ length vs = n /\ Forall ingv vs /\ Forall wfv vs /\
               cw_buf (get_cw k cols2) = concat (map enc_val vs) /\
               ((cw_dict (get_cw k cols2) = [] /\ cw_cnt (get_cw k cols2) = 0) \/ DictInv card (get_cw k cols2) vs) /\
               col_allowed fc (colview k evs) vs)).
  { intros k. specialize (B1 k). unfold ColInv in B1. cbn [fst snd] in B1.
    pose proof (colview_ingv k evs Hok) as Hing.
    assert (Hl : length (colview k evs) = n) by apply map_length.
    destruct (Fs st1 k) as [b|] eqn:EF.
    - (* the column is in the block *)
      destruct B1 as [Hb Hd]. right.
      assert (Hvne : colview k evs <> []) by (intro E; rewrite E in Hl; cbn in Hl; congruence).
      destruct (C1 k) as [Hsame|(Hin & Hri & Hconv)].
      + exists (colview k evs). rewrite Hsame. fold (Cs st1 k).
        repeat split; auto.
        * eapply Forall_impl; [|exact Hing]. apply ingv_wf.
        * left. reflexivity.
      + (* rewritten by consolidateColumnTypes: the range index says the column holds a number *)
        pose proof (B7 k Hri) as Hnum.
        specialize (Hguard k). unfold col_guard in Hguard. rewrite Hnum in Hguard. cbn [andb] in Hguard.
        apply andb_true_iff in Hguard as [G1 G2]. apply negb_true_iff in G1, G2.
        fold (Cs st1 k) in Hconv. rewrite Hb in Hconv. unfold conv_buf in Hconv.
        assert (Hfuel : (length (colview k evs) < S (length (concat (map enc_val (colview k evs)))))%nat).
        { clear. induction (colview k evs) as [|v vs IH]; cbn; [lia|]. rewrite app_length.
          pose proof (enc_val_nonempty v). destruct (enc_val v); [congruence|]. cbn. lia. }
        rewrite (to_numbers_vals fc ff_short _ _ Hfuel Hing) in Hconv.
        rewrite (to_strings_vals fc _ _ Hfuel Hing) in Hconv.
        destruct (tonum_vals fc (colview k evs)) as [ws|] eqn:Et.
        * (* all values convertible: under the guard there is no string at all, nothing changes *)
          destruct (tonum_vals_some fc _ _ Et) as [N1 N2].
          assert (Hnostr : existsb is_str (colview k evs) = false).
          { clear -N1 G1. induction (colview k evs) as [|v vs IH]; [reflexivity|].
            cbn [existsb] in *. apply orb_false_iff in N1 as [N1a N1b]. apply orb_false_iff in G1 as [G1a G1b].
            rewrite (IH G1b N1b). destruct v; cbn in *; try reflexivity. rewrite negb_false_iff in N1a. congruence. }
          rewrite (tonum_vals_no_strings fc _ Hing Hnostr N2) in Et. inversion Et; subst ws.
          cbn [option_map] in Hconv.
          exists (colview k evs). rewrite Hconv. cbn [cw_buf cw_dict cw_cnt fresh_cw].
          repeat split; auto.
          -- eapply Forall_impl; [|exact Hing]. apply ingv_wf.
          -- left. reflexivity.
        * (* rewritten as text: a non-numeric string is present (no bool, by the guard) *)
          cbn [option_map] in Hconv.
          destruct (tonum_vals_none fc _ Et Hing) as [Hs1|Hs1]; [|congruence].
          exists (map (to_text fc) (colview k evs)). rewrite Hconv. cbn [cw_buf cw_dict cw_cnt fresh_cw].
          repeat split; auto.
          -- intro E. apply map_eq_nil in E. contradiction.
          -- rewrite map_length. exact Hl.
          -- rewrite Forall_map. eapply Forall_impl; [|exact Hing].
             intros v Hv. destruct v; cbn [to_text]; try exact Hv; unfold ingv, ingest_val; cbn.
             ++ rewrite andb_true_r. apply N.ltb_lt. pose proof (dec_of_Z_length fc ff_short z). lia.
             ++ rewrite andb_true_r. apply N.ltb_lt. apply ff_short.
             ++ destruct b0; reflexivity.
          -- rewrite Forall_map. eapply Forall_impl; [|exact Hing]. intros v Hv. apply to_text_wf; auto.
          -- right. auto.
    - (* the column is not in the block: no key of columnsInBlock, never rewritten *)
      destruct B1 as [Hcw Hvs]. left. rewrite Hl in Hvs. split; auto.
      destruct (C1 k) as [Hsame|(Hin & _)].
      + rewrite Hsame. fold (Cs st1 k). rewrite Hcw. reflexivity.
      + exfalso. unfold Fs in EF. apply get_in_keys in Hin as [v Hv]. congruence. }
  (* read the columns *)
  destruct (read_cols_ok n (fun k vs => length vs = n /\ col_allowed fc (colview k evs) vs) cols2 C2) as (out & Hout & Hk).
  { intros k cw Hin Hbne. pose proof (In_get_nodup_assoc cols2 k cw C2 Hin) as Hg.
    assert (Hgc : get_cw k cols2 = cw) by (unfold get_cw; rewrite Hg; reflexivity).
    destruct (Hcol k) as [[He _]|(vs & V1 & V2 & V3 & V4 & V5 & V6 & V7)]; [rewrite Hgc in He; contradiction|].
    rewrite Hgc in *. exists vs. repeat split; auto.
    rewrite <- V2. apply read_dict_col; auto. rewrite V2. exact Hlen. }
  exists (map ev_ts evs, out). split.
  - unfold read_block. cbn [fb_n fb_ts fb_cols]. rewrite B3, Nat2N.id, B4.
    replace (length evs) with (length (map ev_ts evs)) at 1 by apply map_length.
    rewrite ts_roundtrip.
    + fold n. rewrite Hout. reflexivity.
    + intro E. apply map_eq_nil in E. contradiction.
    + rewrite Forall_map. eapply Forall_impl; [|exact Hok]. intros e He. apply (event_ok_parts e He).
    + rewrite map_length. exact Hlen.
  - split; [reflexivity|]. cbn [snd]. intros k. specialize (Hk k). fold n.
    destruct (Hcol k) as [[He Hv]|(vs & V1 & V2 & V3 & V4 & V5 & V6 & V7)].
    + rewrite He in Hk. rewrite Hk. left. symmetry. exact Hv.
    + rewrite V5 in Hk. pose proof (map_enc_nonempty vs V1) as Hne2.
      destruct (concat (map enc_val vs)); [congruence|].
      destruct Hk as (vs' & Hg & _ & Hall). rewrite Hg. exact Hall.
Qed.

(* ---------- a whole segment: any number of blocks ---------- *)
Theorem segment_roundtrip blocks : forall st, block_start st -> Forall block_guard blocks ->
  exists outs, read_all (fst (ingest_blocks fc false card st blocks)) = Some outs /\
               Forall2 block_result_ok blocks outs.
Proof.
  induction blocks as [|b r IH]; intros st Hs Hg; cbn [ingest_blocks].
  - exists []. split; [reflexivity | constructor].
  - inversion Hg as [|? ? Hb Hr]; subst.
    pose proof (block_roundtrip st b Hs Hb) as BR.
    destruct (flush_block fc false card (fold_left (add_event false card) b st)) as [fb st1].
    destruct BR as [(out & Ho & Hok) Hs1].
    destruct (IH st1 Hs1 Hr) as (outs & Ha & Hf).
    destruct (ingest_blocks fc false card st1 r) as [fbs st2]. cbn [fst] in *.
    exists (out :: outs). split.
    + cbn [read_all]. rewrite Ho, Ha. reflexivity.
    + constructor; auto.
Qed.

Lemma init_block_start blooms : block_start (init_store blooms).
Proof. unfold block_start, init_store. cbn. repeat split; auto. constructor. Qed.

End Segment.

(* ================================================================== *)
(* the boolean guard                                                   *)
(* ================================================================== *)
Lemma colview_absent k evs : ~ In k (block_keys evs) -> colview k evs = repeat VNull (length evs).
Proof.
  unfold block_keys, colview. induction evs as [|e evs IH]; cbn [map concat length repeat]; intros H; [reflexivity|].
  rewrite IH by (intro Hi; apply H; apply in_or_app; auto).
  f_equal. unfold fget. rewrite get_notin_keys; [reflexivity|]. intro Hi. apply H. apply in_or_app. auto.
Qed.

Lemma col_guard_nulls fc n : col_guard fc (repeat VNull n) = true.
Proof.
  unfold col_guard. assert (E : existsb is_num (repeat VNull n) = false) by (induction n; cbn; auto).
  rewrite E. reflexivity.
Qed.

Lemma block_ok_guard fc evs : block_ok fc evs = true -> block_guard fc evs.
Proof.
  unfold block_ok, block_guard. intros H.
  apply andb_true_iff in H as [H H4]. apply andb_true_iff in H as [H H3]. apply andb_true_iff in H as [H1 H2].
  repeat split.
  - destruct evs; [discriminate | discriminate].
  - apply N.ltb_lt. exact H2.
  - apply Forall_forall. rewrite forallb_forall in H3. exact H3.
  - intros k. destruct (in_dec bytes_eq_dec k (block_keys evs)) as [Hi|Hn].
    + rewrite forallb_forall in H4. apply H4. exact Hi.
    + rewrite (colview_absent k evs Hn). apply col_guard_nulls.
Qed.

Theorem store_roundtrip_guarded (fc : fconv) :
  (forall b, N.of_nat (length (ff fc b)) < 65533) ->
  forall card, card < 65536 -> forall blooms (blocks : list (list event)),
  Forall (fun evs => block_ok fc evs = true) blocks ->
  exists outs, read_all (fst (ingest_blocks fc false card (init_store blooms) blocks)) = Some outs /\
    Forall2 (fun evs out =>
               fst out = map ev_ts evs /\
               forall k, col_allowed fc (colview k evs)
                           (match get k (snd out) with Some vs => vs | None => repeat VNull (length evs) end))
            blocks outs.
Proof.
  intros Hff card Hc blooms blocks Hg.
  apply (segment_roundtrip fc Hff card Hc blocks (init_store blooms) (init_block_start blooms)).
  eapply Forall_impl; [|exact Hg]. apply block_ok_guard.
Qed.

(* non-vacuity: two blocks with a late column, an explicit null, a column that mixes numbers with
   a non-numeric string (the allowed relaxation), bools, a dictionary block and a raw block *)
Definition w_ok : list (list event) :=
  [[ev 1700000000001 [(ka, VInt 5); (kz, VStr [112])];
    ev 1700000000300 [(ka, VStr [120]); (kb, VBool true); (kz, VNull)];
    ev 1700000000002 [(kb, VBool false); (ka, VFloat 4609434218613702656)]];
   [ev 1700000070000 [(kz, VStr [113]); (ka, VInt (-1))]]].

Lemma guard_nonvacuous :
  Forall (fun evs => block_ok fc_w evs = true) w_ok /\
  run_read fc_w 2 [] w_ok =
    Some [([1700000000001; 1700000000300; 1700000000002],
           [(ka, [VStr [53]; VStr [120]; VStr [49;46;53]]); (kz, [VStr [112]; VNull; VNull]); (kb, [VNull; VBool true; VBool false])]);
          ([1700000070000], [(ka, [VInt (-1)]); (kz, [VStr [113]])])].
Proof. split; [repeat constructor|]. vm_compute. reflexivity. Qed.

(* ================================================================== *)
(* refutations of the unguarded statements (witnesses above)           *)
(* ================================================================== *)
Lemma shortcut_after_consolidation_refuted :
  exists fc vs, Forall (fun v => length (enc_val v) = 9%nat) vs /\
    let buf := concat (map enc_val vs) in
    let b := to_strings fc (S (length buf)) buf in
    to_numbers fc (S (length buf)) buf = None /\
    raw_records 9 (length vs) b <> raw_records INCONSISTENT (length vs) b.
Proof.
  exists fc_w, w_shortcut_vals.
  destruct shortcut_witness as (H1 & H2 & H3 & H4 & _).
  split; [exact H1|]. split; [exact H2|]. cbv zeta in H3, H4 |- *.
  change (length w_shortcut_vals) with 3%nat. fold w_shortcut_buf. rewrite H3, H4. discriminate.
Qed.

(* PRE-FIX documentation: before doLogEventFilling skipped the second value of a duplicated key *)
Lemma prefix_dupkey_refuted :
  exists fc card blocks outs,
    Forall (Forall (fun e => event_ok e = true)) blocks /\
    read_all (fst (ingest_blocks fc true card (init_store []) blocks)) = Some outs /\
    exists k, out_col outs 0 k = [VInt 7; VInt 8] /\ colview k (nth 0 blocks []) = [VInt 7; VInt 9].
Proof.
  exists fc_w, 2, w_dup.
  destruct (run_read_pre true fc_w 2 [] w_dup) as [o|] eqn:E; [|vm_compute in E; discriminate].
  exists o. split; [repeat constructor|]. split; [exact E|].
  exists ka. pose proof dupkey_witness as W. rewrite E in W. exact W.
Qed.

(* PRE-FIX documentation: AllSeenColumnSizes kept a constant record length for a column whose block
   was rewritten as text, or that was back-filled when it first appeared in a later block *)
Lemma prefix_seen_size_refuted :
  (exists blocks k, get k (st_seen (snd (ingest_blocks fc_w true 501 (init_store []) blocks))) = Some 9 /\
     exists fb blk recs, nth_error (fst (ingest_blocks fc_w true 501 (init_store []) blocks)) 0 = Some fb /\
       get k (fb_cols fb) = Some blk /\ read_col INCONSISTENT 3 blk = Some recs /\
       map (@length N) recs = [4; 9; 6]%nat /\ read_col 9 3 blk = None) /\
  (exists blocks k, get k (st_seen (snd (ingest_blocks fc_w true 501 (init_store []) blocks))) = Some 9 /\
     exists fb blk recs, nth_error (fst (ingest_blocks fc_w true 501 (init_store []) blocks)) 1 = Some fb /\
       get k (fb_cols fb) = Some blk /\ read_col INCONSISTENT 2 blk = Some recs /\
       map (@length N) recs = [1; 9]%nat).
Proof.
  split.
  - exists w_seen_text, ka. split; [vm_compute; reflexivity|].
    eexists. eexists. eexists. vm_compute. repeat split; reflexivity.
  - exists w_seen_late, ka. split; [vm_compute; reflexivity|].
    eexists. eexists. eexists. vm_compute. repeat split; reflexivity.
Qed.

Lemma store_roundtrip_refuted_numstring :
  exists fc card blocks outs,
    Forall (Forall (fun e => event_ok e = true)) blocks /\
    read_all (fst (ingest_blocks fc false card (init_store []) blocks)) = Some outs /\
    exists k, colview k (nth 0 blocks []) = [VInt 5; VStr [48;48;55]; VStr [49;101;51]] /\
              out_col outs 0 k = [VInt 5; VInt 7; VFloat 4652007308841189376].
Proof.
  exists fc_w, 501, w_numstr.
  destruct (run_read fc_w 501 [] w_numstr) as [o|] eqn:E; [|vm_compute in E; discriminate].
  exists o. split; [repeat constructor|]. split; [exact E|].
  exists ka. split; [reflexivity|]. pose proof numstr_witness as W. rewrite E in W. exact W.
Qed.

Lemma store_roundtrip_refuted_bool_number :
  exists fc card blocks outs,
    Forall (Forall (fun e => event_ok e = true)) blocks /\
    read_all (fst (ingest_blocks fc false card (init_store []) blocks)) = Some outs /\
    exists k, colview k (nth 0 blocks []) = [VNull; VBool true; VInt 5] /\
              out_col outs 0 k = [VNull; VStr s_true; VStr [53]].
Proof.
  exists fc_w, 501, w_booltext.
  destruct (run_read fc_w 501 [] w_booltext) as [o|] eqn:E; [|vm_compute in E; discriminate].
  exists o. split; [repeat constructor|]. split; [exact E|].
  exists ka. split; [reflexivity|]. pose proof booltext_witness as W. rewrite E in W. exact W.
Qed.

(* ================================================================== *)
(* AllSeenColumnSizes (the constant record length handed to searches)  *)
(* ================================================================== *)
Definition seen_val (cur : option N) (sz total : N) : N :=
  match cur with
  | None => if 0 <? total then INCONSISTENT else sz
  | Some c => if c =? INCONSISTENT then c else if c =? sz then c else INCONSISTENT
  end.

Lemma get_seen_update_same k sz total seen :
  get k (seen_update k sz total seen) = Some (seen_val (get k seen) sz total).
Proof.
  unfold seen_update, seen_val. destruct (get k seen) as [c|] eqn:E.
  - destruct (c =? INCONSISTENT); [exact E|]. destruct (c =? sz); [exact E|]. apply get_put_same.
  - apply get_put_same.
Qed.

Lemma get_seen_update_other k k' sz total seen : k <> k' ->
  get k' (seen_update k sz total seen) = get k' seen.
Proof.
  intros H. unfold seen_update. destruct (get k seen) as [c|].
  - destruct (c =? INCONSISTENT); auto. destruct (c =? sz); auto. apply get_put_other. exact H.
  - apply get_put_other. exact H.
Qed.

(* a constant length never changes into another constant length *)
Lemma seen_val_mono cur sz total s : seen_val cur sz total = s -> s <> INCONSISTENT ->
  (cur = None \/ cur = Some s) /\ sz = s.
Proof.
  unfold seen_val. destruct cur as [c|].
  - destruct (c =? INCONSISTENT) eqn:E1; [apply N.eqb_eq in E1; intros; subst; contradiction|].
    destruct (c =? sz) eqn:E2; [apply N.eqb_eq in E2; intros; subst; auto | intros; subst; contradiction].
  - destruct (0 <? total); intros; subst; [contradiction | auto].
Qed.

Section Seen.
Variable card : N.

Definition seen_field (rc total : N) (flag : option bool) (cur : option N) (v : cval) : option N :=
  let late := match flag with None => negb (rc =? 0) | Some _ => false end in
  Some (seen_val (if late then Some (seen_val cur 1 total) else cur) (N.of_nat (length (enc_val v))) total).

Lemma add_field_core_seen st k v :
  get k (st_seen (add_field_core false card st (k, v))) =
    seen_field (st_rc st) (st_total st) (Fs st k) (get k (st_seen st)) v /\
  (forall k', k <> k' -> get k' (st_seen (add_field_core false card st (k, v))) = get k' (st_seen st)) /\
  st_total (add_field_core false card st (k, v)) = st_total st.
Proof.
  unfold add_field_core, seen_field, Fs. cbn [st_seen st_total negb andb].
  repeat split.
  - rewrite get_seen_update_same. rewrite andb_true_r.
    destruct (match get k (st_inblock st) with Some _ => false | None => negb (st_rc st =? 0) end).
    + rewrite get_seen_update_same. reflexivity.
    + reflexivity.
  - intros k' H. rewrite get_seen_update_other by exact H. rewrite andb_true_r.
    destruct (match get k (st_inblock st) with Some _ => false | None => negb (st_rc st =? 0) end); auto.
    apply get_seen_update_other. exact H.
Qed.

Lemma fold_fields_seen e : forall st,
  let st1 := fold_left (add_field false card) e st in
  (forall k, get k (st_seen st1) =
     match get k e with
     | Some v => if flag_true (Fs st k) then get k (st_seen st)
                 else seen_field (st_rc st) (st_total st) (Fs st k) (get k (st_seen st)) v
     | None => get k (st_seen st)
     end) /\
  st_total st1 = st_total st.
Proof.
  induction e as [|[k0 v0] r IH]; intros st; cbn [fold_left].
  - cbn. split; auto.
  - destruct (flag_true (Fs st k0)) eqn:Efl.
    + rewrite (add_field_skip card st k0 v0 Efl). destruct (IH st) as (I1 & I2). cbn zeta. split; auto.
      intros k. rewrite I1. change (get k ((k0, v0) :: r)) with (if bytes_eqb k0 k then Some v0 else get k r).
      destruct (bytes_eqb k0 k) eqn:E; [|reflexivity].
      apply bytes_eqb_eq in E. subst k. rewrite Efl. destruct (get k0 r); reflexivity.
    + rewrite (add_field_go card st k0 v0 Efl).
      destruct (IH (add_field_core false card st (k0, v0))) as (I1 & I2).
      destruct (add_field_core_seen st k0 v0) as (S1 & S2 & S3).
      destruct (add_field_core_misc card st (k0, v0)) as (M1 & _).
      destruct (add_field_core_same card st k0 v0) as [_ A2].
      cbn zeta. split; [|rewrite I2; exact S3].
      intros k. rewrite I1. change (get k ((k0, v0) :: r)) with (if bytes_eqb k0 k then Some v0 else get k r).
      destruct (bytes_eqb k0 k) eqn:E.
      * apply bytes_eqb_eq in E. subst k. rewrite A2, Efl. cbn [flag_true].
        destruct (get k0 r); exact S1.
      * assert (Hne : k0 <> k) by (intro; subst; rewrite bytes_eqb_refl in E; discriminate).
        destruct (add_field_core_other card st k0 v0 k Hne) as [_ B2].
        match goal with |- context [st_seen ?X] =>
          replace (get k (st_seen X)) with (get k (st_seen st)) by (symmetry; apply S2; exact Hne);
          replace (Fs X k) with (Fs st k) by (symmetry; exact B2);
          replace (st_rc X) with (st_rc st) by (symmetry; exact M1);
          replace (st_total X) with (st_total st) by (symmetry; exact S3)
        end. reflexivity.
Qed.

Lemma end_backfill_seen rc total inb : forall cols seen, NoDup (map fst inb) ->
  let '(_, _, seen') := end_backfill card rc total inb cols seen in
  forall k, get k seen' =
    match get k inb with
    | Some false => Some (seen_val (get k seen) 1 total)
    | _ => get k seen
    end.
Proof.
  induction inb as [|[k0 found] r IH]; intros cols seen Hnd; cbn [end_backfill].
  - intros k. reflexivity.
  - cbn [map fst] in Hnd. inversion Hnd as [|? ? Hnotin Hnd']; subst.
    set (cs := if found then (cols, seen)
               else (put k0 (col_append card VNull rc (get_cw k0 cols)) cols, seen_update k0 1 total seen)).
    destruct cs as [cols1 seen1] eqn:Ecs.
    specialize (IH cols1 seen1 Hnd').
    destruct (end_backfill card rc total r cols1 seen1) as [[r' cols2] seen2].
    intros k. rewrite IH. cbn [get].
    destruct (bytes_eqb k0 k) eqn:E.
    + apply bytes_eqb_eq in E. subst k. rewrite (get_notin_keys k0 r Hnotin).
      unfold cs in Ecs. destruct found; inversion Ecs; subst; [reflexivity|]. apply get_seen_update_same.
    + assert (Hne : k0 <> k) by (intro; subst; rewrite bytes_eqb_refl in E; discriminate).
      assert (Hs : get k seen1 = get k seen).
      { unfold cs in Ecs. destruct found; inversion Ecs; subst; auto. apply get_seen_update_other. exact Hne. }
      rewrite Hs. reflexivity.
Qed.

(* one event, seen from the size entry of column k *)
Definition seen_event (k : key) (rc total : N) (e : fields) (flag : option bool) (cur : option N) : option N :=
  match get k e with
  | Some v => seen_field rc total flag cur v
  | None => match flag with Some false => Some (seen_val cur 1 total) | _ => cur end
  end.

Lemma add_event_seen st e : (forall k, Fs st k <> Some true) -> NoDup (map fst (st_inblock st)) ->
  (forall k, get k (st_seen (add_event false card st e)) =
             seen_event k (st_rc st) (st_total st) (ev_fields e) (Fs st k) (get k (st_seen st))) /\
  st_total (add_event false card st e) = st_total st + 1.
Proof.
  intros Hfl Hnd. unfold add_event.
  destruct (fold_fields card (ev_fields e) st) as (I1 & I2 & _ & I4 & _).
  destruct (fold_fields_seen (ev_fields e) st) as (F1 & F2).
  set (st1 := fold_left (add_field false card) (ev_fields e) st) in *.
  pose proof (end_backfill_seen (st_rc st1) (st_total st1) (st_inblock st1) (st_cols st1) (st_seen st1) (I4 Hnd)) as EB.
  destruct (end_backfill card (st_rc st1) (st_total st1) (st_inblock st1) (st_cols st1) (st_seen st1)) as [[inb cols] seen].
  cbn [st_seen st_total]. split; [|rewrite F2; reflexivity].
  intros k. rewrite EB, F1, F2. unfold seen_event.
  assert (Hft : flag_true (Fs st k) = false).
  { specialize (Hfl k). unfold flag_true. destruct (Fs st k) as [[|]|]; congruence. }
  specialize (I1 k). rewrite Hft in I1. apply (f_equal snd) in I1. cbn [snd] in I1. unfold Fs in I1 at 1. rewrite I1, Hft.
  destruct (get k (ev_fields e)) as [v|]; [reflexivity|].
  unfold Fs. destruct (get k (st_inblock st)) as [[|]|]; reflexivity.
Qed.

(* the size entry of a column is true of the column's records in the open block *)
Definition len_is (s : N) (v : cval) : Prop := N.of_nat (length (enc_val v)) = s.
Definition SInv (cur : option N) (flag : option bool) (vs : list cval) : Prop :=
  (flag <> None -> cur <> None) /\
  (forall s, cur = Some s -> s <> INCONSISTENT -> flag <> None -> Forall (len_is s) vs).

Lemma Forall_snoc {A} (P : A -> Prop) l x : Forall P l -> P x -> Forall P (l ++ [x]).
Proof. intros H1 H2. apply Forall_app. split; auto. Qed.

Lemma seen_event_inv k e cur flag vs rc total :
  SInv cur flag vs -> (flag = None -> vs = repeat VNull (length vs)) ->
  rc = N.of_nat (length vs) -> rc <= total -> flag <> Some true ->
  SInv (seen_event k rc total e flag cur) (snd (col_event card k rc e (empty_cw, flag))) (vs ++ [fget k e]).
Proof.
  intros [H1 H2] Hnull Hrc Htot Hfl. unfold seen_event, col_event, fget, seen_field. cbn [fst snd].
  destruct (get k e) as [v|]; cbn [snd].
  - split; [discriminate|]. intros s Hs Hcons _. injection Hs as Hs'.
    destruct flag as [b|].
    + (* the column is in the block already *)
      destruct (seen_val_mono _ _ _ _ Hs' Hcons) as [[Hc|Hc] Hl]; [exfalso; apply H1; [discriminate|exact Hc]|].
      apply Forall_snoc; [apply (H2 s Hc Hcons); discriminate | exact Hl].
    + destruct (rc =? 0) eqn:E0; cbn [negb] in Hs'.
      * apply N.eqb_eq in E0. assert (length vs = 0%nat) by lia. destruct vs; [|discriminate].
        destruct (seen_val_mono _ _ _ _ Hs' Hcons) as [_ Hl]. constructor; [exact Hl | constructor].
      * (* first appearance in the middle of the block: back-filled nulls, then the value *)
        apply N.eqb_neq in E0.
        destruct (seen_val_mono _ _ _ _ Hs' Hcons) as [[Hc|Hc] Hl]; [discriminate|].
        injection Hc as Hc'. assert (Hcons1 : seen_val cur 1 total <> INCONSISTENT) by (rewrite Hc'; exact Hcons).
        destruct (seen_val_mono _ _ _ _ Hc' Hcons) as [_ H1s].
        rewrite (Hnull eq_refl). apply Forall_snoc; [|exact Hl].
        apply Forall_forall. intros x Hx. apply repeat_spec in Hx. subst x. exact H1s.
  - destruct flag as [[|]|]; cbn [snd].
    + congruence.
    + split; [discriminate|]. intros s Hs Hcons _. injection Hs as Hs'.
      destruct (seen_val_mono _ _ _ _ Hs' Hcons) as [[Hc|Hc] Hl]; [exfalso; apply H1; [discriminate|exact Hc]|].
      apply Forall_snoc; [apply (H2 s Hc Hcons); discriminate | exact Hl].
    + split; [congruence|]. intros s _ _ Hf. congruence.
Qed.

End Seen.

(* raw walk for values whose record length the switch gets right whatever their payload *)
Definition reclen_ok (v : cval) : Prop :=
  forall rest, reclen (enc_val v ++ rest) = Some (N.of_nat (length (enc_val v))).

Lemma reclen_ok_wf v : wfv v -> reclen_ok v.
Proof. intros W rest. apply reclen_agrees. exact W. Qed.

Lemma reclen_ok_nostr v : is_str v = false -> reclen_ok v.
Proof. intros H rest. destruct v; try discriminate; rewrite enc_val_length; reflexivity. Qed.

Lemma raw_roundtrip_gen vs : Forall reclen_ok vs ->
  raw_records INCONSISTENT (length vs) (concat (map enc_val vs)) = Some (map enc_val vs).
Proof.
  induction 1 as [|v vs W Hvs IH]; [reflexivity|].
  cbn [length map concat].
  assert (Hstep : forall n' tail, raw_records INCONSISTENT (S n') (enc_val v ++ tail) =
     match n' with
     | O => Some [enc_val v]
     | _ => match tail with [] => None | _ => option_map (cons (enc_val v)) (raw_records INCONSISTENT n' tail) end
     end).
  { intros n' tail. cbn [raw_records]. rewrite rec_len_inconsistent, W.
    replace (N.of_nat (length (enc_val v ++ tail)) <? N.of_nat (length (enc_val v))) with false
      by (symmetry; apply N.ltb_ge; rewrite app_length; lia).
    rewrite Nat2N.id, firstn_app_exact, skipn_app_exact. reflexivity. }
  rewrite Hstep.
  destruct vs as [|v' vs']; [reflexivity|].
  cbn [length] in *. destruct (concat (map enc_val (v' :: vs'))) eqn:E; [exact (False_ind _ (concat_enc_nonempty _ _ E))|].
  cbv beta iota. rewrite IH. reflexivity.
Qed.

Lemma shortcut_sound_gen csz vs :
  0 < csz -> csz <> INCONSISTENT -> Forall (len_is csz) vs ->
  raw_records csz (length vs) (concat (map enc_val vs)) = Some (map enc_val vs).
Proof.
  intros H0 Hi Hl. induction vs as [|v vs IH]; [reflexivity|].
  inversion Hl as [|? ? L Hl']; subst. unfold len_is in L. subst csz.
  cbn [length map concat].
  assert (Hstep : forall n' tail, raw_records (N.of_nat (length (enc_val v))) (S n') (enc_val v ++ tail) =
     match n' with
     | O => Some [enc_val v]
     | _ => match tail with [] => None | _ => option_map (cons (enc_val v)) (raw_records (N.of_nat (length (enc_val v))) n' tail) end
     end).
  { intros n' tail. cbn [raw_records]. unfold rec_len.
    replace (0 <? N.of_nat (length (enc_val v))) with true by (symmetry; apply N.ltb_lt; exact H0).
    replace (N.of_nat (length (enc_val v)) =? INCONSISTENT) with false by (symmetry; apply N.eqb_neq; exact Hi).
    cbn [andb negb].
    replace (N.of_nat (length (enc_val v ++ tail)) <? N.of_nat (length (enc_val v))) with false
      by (symmetry; apply N.ltb_ge; rewrite app_length; lia).
    rewrite Nat2N.id, firstn_app_exact, skipn_app_exact. reflexivity. }
  rewrite Hstep.
  destruct vs as [|v' vs']; [reflexivity|].
  cbn [length] in *. specialize (IH Hl').
  destruct (concat (map enc_val (v' :: vs'))) eqn:E; [exact (False_ind _ (concat_enc_nonempty _ _ E))|].
  cbv beta iota. rewrite IH. reflexivity.
Qed.

Section SeenSegment.
Variable fc : fconv.
Hypothesis ff_short : forall b, N.of_nat (length (ff fc b)) < 65533.
Variable card : N.
Hypothesis card_u16 : card < 65536.

Record SBInv (st : store) (evs : list event) : Prop := {
  sb_col : forall k, SInv (get k (st_seen st)) (Fs st k) (colview k evs);
  sb_tot : st_rc st <= st_total st
}.

Lemma col_event_flag k rc e cw flag :
  snd (col_event card k rc e (cw, flag)) = snd (col_event card k rc e (empty_cw, flag)).
Proof. unfold col_event. cbn [fst snd]. destruct (get k e); [reflexivity|]. destruct flag as [[|]|]; reflexivity. Qed.

Lemma sbinv_step st evs e : BInv card st evs -> SBInv st evs -> SBInv (add_event false card st e) (evs ++ [e]).
Proof.
  intros [B1 B2 B3 B4 B5 B6 B7] [S1 S2].
  destruct (add_event_spec card st e B2 B5) as (A1 & A2 & _).
  destruct (add_event_seen card st e B2 B5) as (E1 & E2).
  constructor.
  - intros k. rewrite E1.
    specialize (A1 k). apply (f_equal snd) in A1. cbn [snd] in A1. rewrite A1, col_event_flag.
    unfold colview. rewrite map_app. cbn [map].
    apply seen_event_inv.
    + apply S1.
    + intros Hf. specialize (B1 k). unfold ColInv in B1. cbn [fst snd] in B1. rewrite Hf in B1. apply B1.
    + unfold colview. rewrite map_length. exact B3.
    + exact S2.
    + apply B2.
  - rewrite A2, E2. lia.
Qed.

Lemma sbinv_fold evs : forall st done, BInv card st done -> SBInv st done ->
  Forall (fun e => event_ok e = true) evs ->
  SBInv (fold_left (add_event false card) evs st) (done ++ evs).
Proof.
  induction evs as [|e evs IH]; intros st done B S H; cbn [fold_left].
  - rewrite app_nil_r. exact S.
  - inversion H as [|? ? He Hes]; subst.
    replace (done ++ e :: evs) with ((done ++ [e]) ++ evs) by (rewrite <- app_assoc; reflexivity).
    apply IH; auto. apply (binv_step fc ff_short card card_u16); auto. apply sbinv_step; auto.
Qed.

Lemma sbinv_start st : block_start st -> SBInv st [].
Proof.
  intros (H1 & _ & H3 & _). constructor.
  - intros k. unfold SInv, Fs. rewrite H1. cbn. split; congruence.
  - rewrite H3. lia.
Qed.

(* consolidateColumnTypes together with the update of AllSeenColumnSizes, seen from column k *)
Lemma consolidate_seen_spec ks : forall cols blooms ris seen, NoDup ks ->
  let '(cols', _, _) := consolidate fc ks cols blooms ris in
  let seen' := consolidate_seen fc ks cols blooms ris seen in
  forall k,
    (get k seen' = get k seen /\
     (get_cw k cols' = get_cw k cols \/
      (In k ks /\ mem k ris = true /\
       exists b', to_numbers fc (S (length (cw_buf (get_cw k cols)))) (cw_buf (get_cw k cols)) = Some b' /\
                  get_cw k cols' = fresh_cw b')))
    \/ (In k ks /\ get k seen' = Some INCONSISTENT).
Proof.
  induction ks as [|k0 r IH]; intros cols blooms ris seen Hnd; cbn [consolidate consolidate_seen].
  - intros k. left. auto.
  - inversion Hnd as [|? ? Hnotin Hnd']; subst.
    destruct (mem k0 blooms && mem k0 ris) eqn:E.
    + apply andb_true_iff in E as [E1 E2]. cbv zeta.
      set (b := cw_buf (get_cw k0 cols)).
      destruct (to_numbers fc (S (length b)) b) as [b'|] eqn:En.
      * specialize (IH (put k0 (fresh_cw b') cols) (del k0 blooms) ris seen Hnd').
        destruct (consolidate fc r (put k0 (fresh_cw b') cols) (del k0 blooms) ris) as [[cols' bl'] ri'].
        cbv zeta in *. intros k. destruct (bytes_eq_dec k0 k) as [<-|Hne].
        -- destruct (IH k0) as [[I1 [I2|(I2 & _)]]|[I1 _]]; try contradiction.
           left. split; [exact I1|]. right. split; [cbn; auto|]. split; [exact E2|].
           exists b'. split; [exact En|]. rewrite I2. apply get_cw_put_same.
        -- destruct (IH k) as [[I1 [I2|(I2 & I3 & b2 & I4 & I5)]]|[I1 I2]].
           ++ left. split; [exact I1|]. left. rewrite I2. apply get_cw_put_other. exact Hne.
           ++ left. split; [exact I1|]. right. split; [cbn; auto|]. split; [exact I3|].
              rewrite get_cw_put_other in I4 by exact Hne. exists b2. auto.
           ++ right. split; [cbn; auto | exact I2].
      * specialize (IH (put k0 (fresh_cw (to_strings fc (S (length b)) b)) cols) blooms (del k0 ris) (put k0 INCONSISTENT seen) Hnd').
        destruct (consolidate fc r (put k0 (fresh_cw (to_strings fc (S (length b)) b)) cols) blooms (del k0 ris)) as [[cols' bl'] ri'].
        cbv zeta in *. intros k. destruct (bytes_eq_dec k0 k) as [<-|Hne].
        -- right. split; [cbn; auto|].
           destruct (IH k0) as [[I1 _]|[I1 _]]; [|contradiction]. rewrite I1. apply get_put_same.
        -- destruct (IH k) as [[I1 [I2|(I2 & I3 & b2 & I4 & I5)]]|[I1 I2]].
           ++ left. split; [rewrite I1; apply get_put_other; exact Hne|]. left. rewrite I2. apply get_cw_put_other. exact Hne.
           ++ left. split; [rewrite I1; apply get_put_other; exact Hne|]. right. split; [cbn; auto|].
              split; [apply (mem_del _ _ _ I3)|]. rewrite get_cw_put_other in I4 by exact Hne. exists b2. auto.
           ++ right. split; [cbn; auto | exact I2].
    + specialize (IH cols blooms ris seen Hnd').
      destruct (consolidate fc r cols blooms ris) as [[cols' bl'] ri']. cbv zeta in *.
      intros k. destruct (IH k) as [[I1 [I2|(I2 & I3 & I4)]]|[I1 I2]].
      * left. auto.
      * left. split; auto. right. split; [cbn; auto | auto].
      * right. split; [cbn; auto | exact I2].
Qed.

Lemma get_cw_cons k k0 cw0 (r : list (key * colwip)) :
  get_cw k ((k0, cw0) :: r) = if bytes_eqb k0 k then cw0 else get_cw k r.
Proof. unfold get_cw. cbn [get]. destruct (bytes_eqb k0 k); reflexivity. Qed.

Lemma get_encode_cols k (cols : list (key * colwip)) blk : NoDup (map fst cols) ->
  get k (encode_cols card cols) = Some blk ->
  blk = encode_col card (get_cw k cols) /\ cw_buf (get_cw k cols) <> [].
Proof.
  induction cols as [|[k0 cw0] r IH]; intros Hnd H; [discriminate|].
  cbn [map fst] in Hnd. inversion Hnd as [|? ? Hnotin Hnd']; subst.
  cbn [encode_cols] in H. rewrite get_cw_cons.
  destruct (bytes_eqb k0 k) eqn:E.
  - apply bytes_eqb_eq in E. subst k. destruct (cw_buf cw0) as [|x l] eqn:Eb.
    + exfalso. destruct (IH Hnd' H) as [_ Hne]. unfold get_cw in Hne. rewrite (get_notin_keys k0 r Hnotin) in Hne. apply Hne. reflexivity.
    + cbn [get] in H. rewrite bytes_eqb_refl in H. inversion H. split; [reflexivity | discriminate].
  - destruct (cw_buf cw0) as [|x l] eqn:Eb.
    + apply IH; auto.
    + cbn [get] in H. rewrite E in H. apply IH; auto.
Qed.

Lemma tonum_vals_shape vs ws : tonum_vals fc vs = Some ws ->
  Forall (len_is 9) vs -> Forall (len_is 9) ws /\ Forall reclen_ok ws /\ length ws = length vs.
Proof.
  revert ws; induction vs as [|v vs IH]; intros ws H Hl.
  - inversion H. repeat split; constructor.
  - inversion Hl as [|? ? L Hl']; subst.
    cbn [tonum_vals] in H. destruct (tonum_val fc v) as [w|] eqn:E; [|discriminate].
    destruct (tonum_vals fc vs) as [r'|] eqn:E2; [|discriminate]. inversion H; subst ws.
    destruct (IH r' eq_refl Hl') as (I1 & I2 & I3).
    assert (len_is 9 w /\ reclen_ok w).
    { destruct v as [s| | | | |]; cbn in E; try discriminate.
      - destruct (parse_int s); [inversion E; subst; split; [unfold len_is; rewrite enc_val_length; reflexivity | apply reclen_ok_nostr; reflexivity]|].
        destruct (pf fc s); inversion E; subst. split; [unfold len_is; rewrite enc_val_length; reflexivity | apply reclen_ok_nostr; reflexivity].
      - inversion E; subst. split; [exact L | apply reclen_ok_nostr; reflexivity].
      - inversion E; subst. split; [exact L | apply reclen_ok_nostr; reflexivity]. }
    repeat split; [constructor; tauto | constructor; tauto | cbn; lia].
Qed.

Lemma read_col_dict csz n payload : read_col csz n (ENC_DICT, payload) = read_col INCONSISTENT n (ENC_DICT, payload).
Proof. reflexivity. Qed.

(* one block: after the flush, a constant length still recorded for column k is the length of every
   record of that column's block, so the reader that is given it returns what the walking reader returns *)
Theorem block_seen_sound st evs : block_start st -> st_rc st <= st_total st ->
  evs <> [] -> Forall (fun e => event_ok e = true) evs ->
  let '(fb, st2) := flush_block fc false card (fold_left (add_event false card) evs st) in
  forall k blk, get k (fb_cols fb) = Some blk ->
    get k (st_seen st2) <> None /\
    forall s, get k (st_seen st2) = Some s -> s <> INCONSISTENT ->
      read_col s (N.to_nat (fb_n fb)) blk = read_col INCONSISTENT (N.to_nat (fb_n fb)) blk.
Proof.
  intros Hs Htot Hne Hok.
  pose proof (binv_fold fc ff_short card card_u16 evs st [] (binv_start card st Hs) Hok) as B. cbn [app] in B.
  assert (SB0 : SBInv st []) by (apply sbinv_start; exact Hs).
  pose proof (sbinv_fold evs st [] (binv_start card st Hs) SB0 Hok) as SB. cbn [app] in SB.
  set (st1 := fold_left (add_event false card) evs st) in *.
  destruct B as [B1 B2 B3 B4 B5 B6 B7]. destruct SB as [SB1 _].
  unfold flush_block.
  pose proof (consolidate_spec fc (map fst (st_inblock st1)) (st_cols st1) (st_blooms st1) (st_ris st1) B5) as CS.
  pose proof (consolidate_seen_spec (map fst (st_inblock st1)) (st_cols st1) (st_blooms st1) (st_ris st1) (st_seen st1) B5) as CSS.
  destruct (consolidate fc (map fst (st_inblock st1)) (st_cols st1) (st_blooms st1) (st_ris st1)) as [[cols2 bl2] ri2].
  destruct CS as [_ C2]. specialize (C2 B6). cbv zeta in CSS.
  cbn [fb_cols fb_n st_seen].
  intros k blk Hget.
  destruct (get_encode_cols k cols2 blk C2 Hget) as [Hblk Hbuf].
  specialize (B1 k). unfold ColInv in B1. cbn [fst snd] in B1.
  specialize (SB1 k). destruct SB1 as [SI1 SI2].
  pose proof (colview_ingv k evs Hok) as Hing.
  assert (Hl : length (colview k evs) = length evs) by apply map_length.
  assert (Hvne : colview k evs <> []) by (intro E; rewrite E in Hl; destruct evs; [congruence|discriminate]).
  rewrite B3, Nat2N.id.
  (* the column is in the block *)
  assert (Hflag : Fs st1 k <> None).
  { intro Hf. rewrite Hf in B1. destruct B1 as [Hcw _].
    destruct (CSS k) as [[_ [Hsame|(Hin & _)]]|[Hin _]].
    - rewrite Hsame in Hbuf. fold (Cs st1 k) in Hbuf. rewrite Hcw in Hbuf. apply Hbuf. reflexivity.
    - unfold Fs in Hf. apply get_in_keys in Hin as [v Hv]. congruence.
    - unfold Fs in Hf. apply get_in_keys in Hin as [v Hv]. congruence. }
  destruct (Fs st1 k) as [fl|] eqn:EF; [|congruence].
  destruct B1 as [Hb Hd].
  destruct (CSS k) as [[Hseen Hcols]|[_ Hinc]].
  2:{ split; [rewrite Hinc; discriminate|]. intros s Hsv Hcons. rewrite Hinc in Hsv. inversion Hsv. congruence. }
  rewrite Hseen. split; [apply SI1; discriminate|].
  intros s Hsv Hcons.
  pose proof (SI2 s Hsv Hcons ltac:(discriminate)) as Hlen.
  assert (Hs0 : 0 < s).
  { destruct (colview k evs) as [|v vs]; [congruence|]. inversion Hlen as [|? ? L _]; subst.
    unfold len_is in L. pose proof (enc_val_nonempty v). destruct (enc_val v); [congruence|]. cbn in L. lia. }
  subst blk.
  destruct Hcols as [Hsame|(Hin & Hri & b' & Hnum & Hfresh)].
  - (* not rewritten *)
    rewrite Hsame. fold (Cs st1 k). unfold encode_col.
    destruct ((0 <? cw_cnt (Cs st1 k)) && (cw_cnt (Cs st1 k) <? card)); [apply read_col_dict|].
    cbn [read_col]. change (ENC_RAW =? ENC_RAW) with true. cbv beta iota.
    rewrite Hb, <- Hl. rewrite shortcut_sound_gen by assumption.
    rewrite raw_roundtrip_gen; [reflexivity|].
    eapply Forall_impl; [|exact Hing]. intros v Hv. apply reclen_ok_wf, ingv_wf, Hv.
  - (* converted to numbers: the range index says the column holds a number, so the length is 9 *)
    rewrite Hfresh. unfold encode_col, fresh_cw. cbn [cw_cnt cw_buf andb N.ltb N.compare].
    change (0 <? 0) with false. cbn [andb].
    cbn [read_col]. change (ENC_RAW =? ENC_RAW) with true. cbv beta iota.
    fold (Cs st1 k) in Hnum. rewrite Hb in Hnum.
    assert (Hfuel : (length (colview k evs) < S (length (concat (map enc_val (colview k evs)))))%nat).
    { clear. induction (colview k evs) as [|v vs IH]; cbn; [lia|]. rewrite app_length.
      pose proof (enc_val_nonempty v). destruct (enc_val v); [congruence|]. cbn. lia. }
    rewrite (to_numbers_vals fc ff_short _ _ Hfuel Hing) in Hnum.
    destruct (tonum_vals fc (colview k evs)) as [ws|] eqn:Et; [|discriminate].
    cbn [option_map] in Hnum. inversion Hnum; subst b'.
    assert (Hs9 : s = 9).
    { pose proof (B7 k Hri) as Hn. apply existsb_exists in Hn as (v & Hv & Hnv).
      rewrite Forall_forall in Hlen. specialize (Hlen v Hv). unfold len_is in Hlen. rewrite enc_val_length in Hlen.
      destruct v; try discriminate; cbn in Hlen; lia. }
    subst s.
    destruct (tonum_vals_shape _ _ Et Hlen) as (W1 & W2 & W3).
    rewrite <- Hl, <- W3.
    rewrite shortcut_sound_gen by assumption.
    rewrite raw_roundtrip_gen by assumption. reflexivity.
Qed.

(* a constant length never turns into another constant length, over events, flushes and blocks *)
Lemma seen_event_mono k rc total e flag cur s :
  seen_event k rc total e flag cur = Some s -> s <> INCONSISTENT -> cur = None \/ cur = Some s.
Proof.
  unfold seen_event, seen_field. intros H Hc. destruct (get k e) as [v|].
  - injection H as H. destruct (seen_val_mono _ _ _ _ H Hc) as [[Hx|Hx] _].
    + destruct (match flag with Some _ => false | None => negb (rc =? 0) end); [discriminate | auto].
    + destruct (match flag with Some _ => false | None => negb (rc =? 0) end); [|auto].
      injection Hx as Hx. destruct (seen_val_mono _ _ _ _ Hx Hc) as [Hy _]. exact Hy.
  - destruct flag as [[|]|]; auto. injection H as H. destruct (seen_val_mono _ _ _ _ H Hc) as [Hy _]. exact Hy.
Qed.

Lemma seen_event_none k rc total e flag cur : seen_event k rc total e flag cur = None -> cur = None.
Proof.
  unfold seen_event, seen_field. destruct (get k e); [discriminate|]. destruct flag as [[|]|]; auto; discriminate.
Qed.

Lemma mono_fold evs : forall st done, BInv card st done -> Forall (fun e => event_ok e = true) evs ->
  forall k s, get k (st_seen (fold_left (add_event false card) evs st)) = Some s -> s <> INCONSISTENT ->
  get k (st_seen st) = None \/ get k (st_seen st) = Some s.
Proof.
  induction evs as [|e evs IH]; intros st done B H k s Hs Hc; cbn [fold_left] in Hs; [auto|].
  inversion H as [|? ? He Hes]; subst.
  pose proof (binv_step fc ff_short card card_u16 st done e B He) as B'.
  destruct B as [_ B2 _ _ B5 _ _].
  destruct (add_event_seen card st e B2 B5) as (E1 & _).
  destruct (IH _ _ B' Hes k s Hs Hc) as [Hn|Hn]; rewrite E1 in Hn.
  - left. eapply seen_event_none. exact Hn.
  - eapply seen_event_mono; eauto.
Qed.

Lemma flush_seen_mono st1 evs : BInv card st1 evs -> forall k,
  (forall s, get k (st_seen (snd (flush_block fc false card st1))) = Some s -> s <> INCONSISTENT -> get k (st_seen st1) = Some s) /\
  (get k (st_seen (snd (flush_block fc false card st1))) = None -> get k (st_seen st1) = None).
Proof.
  intros [_ _ _ _ B5 _ _] k. unfold flush_block.
  pose proof (consolidate_seen_spec (map fst (st_inblock st1)) (st_cols st1) (st_blooms st1) (st_ris st1) (st_seen st1) B5) as CSS.
  destruct (consolidate fc (map fst (st_inblock st1)) (st_cols st1) (st_blooms st1) (st_ris st1)) as [[cols2 bl2] ri2].
  cbv zeta in CSS. cbn [snd st_seen].
  destruct (CSS k) as [[Hs _]|[_ Hs]]; rewrite Hs; split; auto; try discriminate.
  intros s H Hc. inversion H. congruence.
Qed.

Lemma flush_block_start st1 evs : BInv card st1 evs -> block_start (snd (flush_block fc false card st1)).
Proof.
  intros [_ _ _ _ B5 B6 _]. unfold flush_block.
  pose proof (consolidate_spec fc (map fst (st_inblock st1)) (st_cols st1) (st_blooms st1) (st_ris st1) B5) as CS.
  destruct (consolidate fc (map fst (st_inblock st1)) (st_cols st1) (st_blooms st1) (st_ris st1)) as [[cols2 bl2] ri2].
  destruct CS as [_ C2]. specialize (C2 B6).
  unfold block_start. cbn [snd st_inblock st_ris st_rc st_ts st_cols]. repeat split; auto.
  - intros k. apply get_cw_reset.
  - rewrite map_map. cbn [fst]. exact C2.
Qed.

Definition seg_ok (blocks : list (list event)) : Prop :=
  Forall (fun evs => evs <> [] /\ Forall (fun e => event_ok e = true) evs) blocks.

Lemma mono_blocks blocks : forall st, block_start st -> seg_ok blocks ->
  forall k s, get k (st_seen (snd (ingest_blocks fc false card st blocks))) = Some s -> s <> INCONSISTENT ->
  get k (st_seen st) = None \/ get k (st_seen st) = Some s.
Proof.
  induction blocks as [|b r IH]; intros st Hs Hok k s H Hc; cbn [ingest_blocks] in H; [auto|].
  inversion Hok as [|? ? [Hne Hb] Hr]; subst.
  pose proof (binv_fold fc ff_short card card_u16 b st [] (binv_start card st Hs) Hb) as B. cbn [app] in B.
  pose proof (flush_block_start _ _ B) as Hs1.
  destruct (flush_seen_mono _ _ B k) as [M1 M2].
  destruct (flush_block fc false card (fold_left (add_event false card) b st)) as [fb st1] eqn:Ef.
  cbn [snd] in *.
  specialize (IH st1 Hs1 Hr k s).
  destruct (ingest_blocks fc false card st1 r) as [fbs st2]. cbn [snd] in *.
  destruct (IH H Hc) as [Hn|Hn].
  - specialize (M2 Hn). destruct (get k (st_seen st)) as [c|] eqn:E0; auto.
    (* an entry never disappears *)
    exfalso. clear -M2 E0 Hb Hs card_u16 ff_short.
    assert (G : forall evs st done, BInv card st done -> Forall (fun e => event_ok e = true) evs ->
              get k (st_seen (fold_left (add_event false card) evs st)) = None -> get k (st_seen st) = None).
    { induction evs as [|e evs IHe]; intros st0 done B0 H0 Hn0; cbn [fold_left] in Hn0; auto.
      inversion H0 as [|? ? He Hes]; subst.
      pose proof (binv_step fc ff_short card card_u16 st0 done e B0 He) as B'.
      specialize (IHe _ _ B' Hes Hn0).
      destruct B0 as [_ B2 _ _ B5 _ _]. destruct (add_event_seen card st0 e B2 B5) as (E1 & _).
      rewrite E1 in IHe. eapply seen_event_none. exact IHe. }
    rewrite (G b st [] (binv_start card st Hs) Hb M2) in E0. discriminate.
  - eapply mono_fold; eauto. apply (binv_start card st Hs).
Qed.

(* FULL STATEMENT for the shortcut: whatever the events of a segment (no guard on the values), if
   AllSeenColumnSizes ends with a constant length s for column k, then in every flushed block that has
   the column, the reader that is given s returns exactly what the length-walking reader returns *)
Theorem segment_seen_sound blocks : forall st, block_start st -> seg_ok blocks ->
  forall k s, get k (st_seen (snd (ingest_blocks fc false card st blocks))) = Some s -> s <> INCONSISTENT ->
  forall fb blk, In fb (fst (ingest_blocks fc false card st blocks)) -> get k (fb_cols fb) = Some blk ->
    read_col s (N.to_nat (fb_n fb)) blk = read_col INCONSISTENT (N.to_nat (fb_n fb)) blk.
Proof.
  induction blocks as [|b r IH]; intros st Hs Hok k s H Hc fb blk Hin Hg; cbn [ingest_blocks] in *; [destruct Hin|].
  inversion Hok as [|? ? [Hne Hb] Hr]; subst.
  pose proof (binv_fold fc ff_short card card_u16 b st [] (binv_start card st Hs) Hb) as B. cbn [app] in B.
  pose proof (flush_block_start _ _ B) as Hs1.
  assert (Htot : st_rc st <= st_total st) by (destruct Hs as (_ & _ & H3 & _); rewrite H3; lia).
  pose proof (block_seen_sound st b Hs Htot Hne Hb) as BS.
  destruct (flush_block fc false card (fold_left (add_event false card) b st)) as [fb0 st1] eqn:Ef.
  cbn [snd] in *.
  pose proof (mono_blocks r st1 Hs1 Hr k s) as MB.
  specialize (IH st1 Hs1 Hr k s).
  destruct (ingest_blocks fc false card st1 r) as [fbs st2]. cbn [fst snd] in *.
  destruct Hin as [<-|Hin].
  - destruct (BS k blk Hg) as [Hnn Hread].
    destruct (MB H Hc) as [Hn|Hn]; [contradiction|]. apply Hread; assumption.
  - apply IH; assumption.
Qed.

End SeenSegment.

Theorem seen_size_sound (fc : fconv) :
  (forall b, N.of_nat (length (ff fc b)) < 65533) ->
  forall card, card < 65536 -> forall blooms (blocks : list (list event)),
  Forall (fun evs => evs <> [] /\ Forall (fun e => event_ok e = true) evs) blocks ->
  forall k s, get k (st_seen (snd (ingest_blocks fc false card (init_store blooms) blocks))) = Some s ->
  s <> INCONSISTENT ->
  forall fb blk, In fb (fst (ingest_blocks fc false card (init_store blooms) blocks)) ->
    get k (fb_cols fb) = Some blk ->
    read_col s (N.to_nat (fb_n fb)) blk = read_col INCONSISTENT (N.to_nat (fb_n fb)) blk.
Proof.
  intros Hff card Hc blooms blocks Hok.
  apply (segment_seen_sound fc Hff card Hc blocks (init_store blooms) (init_block_start blooms) Hok).
Qed.

Lemma seen_size_after_repair :
  seen_after false w_seen_text ka = Some INCONSISTENT /\
  seen_after false w_seen_late ka = Some INCONSISTENT /\
  seen_after false w_seen_late kb = Some 9.
Proof. exact (conj (proj1 (proj2 seen_witness)) (proj2 (proj2 (proj2 seen_witness)))). Qed.

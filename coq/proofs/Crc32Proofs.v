(* Crc32Proofs.v — linearity of the CRC-32 bit step over GF(2), trivial kernel on
   32-bit registers, and the theorem that every single-byte change is detected. *)
From Coq Require Import Lia.
From SigM Require Import Base Crc32.
Open Scope N_scope.

Lemma sel_xor (x y : bool) :
  (if xorb x y then POLY else 0) = N.lxor (if x then POLY else 0) (if y then POLY else 0).
Proof. destruct x, y; simpl; auto using N.lxor_nilpotent. Qed.

Lemma bstep_linear a b : bstep (N.lxor a b) = N.lxor (bstep a) (bstep b).
Proof.
  unfold bstep. rewrite N.shiftr_lxor, N.lxor_spec, sel_xor.
  rewrite !N.lxor_assoc. f_equal.
  rewrite <- !N.lxor_assoc. f_equal. apply N.lxor_comm.
Qed.

Lemma bstep_zero : bstep 0 = 0. Proof. reflexivity. Qed.

Lemma bstep_kernel d : d < 4294967296 -> bstep d = 0 -> d = 0.
Proof.
  intros Hd H. unfold bstep in H.
  destruct (N.testbit d 0) eqn:E.
  - apply N.lxor_eq in H.
    assert (N.shiftr d 1 < 2147483648).
    { rewrite N.shiftr_div_pow2. change (2^1) with 2. apply N.div_lt_upper_bound; lia. }
    unfold POLY in H. lia.
  - rewrite N.lxor_0_r in H. rewrite N.shiftr_div_pow2 in H. change (2^1) with 2 in H.
    rewrite N.bit0_odd in E.
    assert (d = 2 * (d / 2) + d mod 2) by (apply N.div_mod'; lia).
    rewrite <- N.negb_even in E. apply negb_false_iff in E. rewrite N.even_spec in E.
    destruct E as [k ->]. rewrite N.mul_comm, N.div_mul in H by lia. lia.
Qed.

Lemma bstep_bound s : s < 4294967296 -> bstep s < 4294967296.
Proof.
  intros H. unfold bstep.
  assert (N.shiftr s 1 < 4294967296).
  { rewrite N.shiftr_div_pow2. change (2^1) with 2. apply N.div_lt_upper_bound; lia. }
  destruct (N.testbit s 0).
  - (* lxor of two 32-bit numbers is 32-bit *)
    destruct (N.eq_dec (N.lxor (N.shiftr s 1) POLY) 0) as [->|Hn]; [lia|].
    apply N.log2_lt_pow2 with (b := 32); [lia|].
    eapply N.le_lt_trans; [apply N.log2_lxor|].
    apply N.max_lub_lt.
    + destruct (N.eq_dec (N.shiftr s 1) 0) as [->|]; [reflexivity|]. apply N.log2_lt_pow2; lia.
    + reflexivity.
  - now rewrite N.lxor_0_r.
Qed.

Lemma iter_linear n a b : iter n (N.lxor a b) = N.lxor (iter n a) (iter n b).
Proof. revert a b; induction n as [|n IH]; intros a b; simpl; auto. rewrite bstep_linear. apply IH. Qed.

Lemma iter_bound n s : s < 4294967296 -> iter n s < 4294967296.
Proof. revert s; induction n as [|n IH]; intros s H; simpl; auto. apply IH, bstep_bound, H. Qed.

Lemma iter_kernel n d : d < 4294967296 -> iter n d = 0 -> d = 0.
Proof.
  revert d; induction n as [|n IH]; intros d Hd H; simpl in H; auto.
  apply bstep_kernel; auto. apply IH; auto. now apply bstep_bound.
Qed.

Lemma xor3 s s' b : N.lxor s b = N.lxor (N.lxor s' b) (N.lxor s s').
Proof.
  apply N.bits_inj. intro n. rewrite !N.lxor_spec.
  destruct (N.testbit s n), (N.testbit s' n), (N.testbit b n); reflexivity.
Qed.

(* difference propagation: the difference of two registers evolves by the zero-input map *)
Lemma byte_step_diff s s' b : byte_step s b = N.lxor (byte_step s' b) (iter 8 (N.lxor s s')).
Proof. unfold byte_step. rewrite <- iter_linear. f_equal. apply xor3. Qed.

Lemma lxor_bound a b : a < 4294967296 -> b < 4294967296 -> N.lxor a b < 4294967296.
Proof.
  intros Ha Hb. destruct (N.eq_dec (N.lxor a b) 0) as [->|Hn]; [lia|].
  apply N.log2_lt_pow2 with (b := 32); [lia|].
  eapply N.le_lt_trans; [apply N.log2_lxor|].
  apply N.max_lub_lt.
  - destruct (N.eq_dec a 0) as [->|]; [reflexivity|]. apply N.log2_lt_pow2; lia.
  - destruct (N.eq_dec b 0) as [->|]; [reflexivity|]. apply N.log2_lt_pow2; lia.
Qed.

Lemma byte_step_bound s b : s < 4294967296 -> b < 256 -> byte_step s b < 4294967296.
Proof. intros Hs Hb. unfold byte_step. apply iter_bound, lxor_bound; lia. Qed.

Lemma lxor_self_id a x : N.lxor a x = a -> x = 0.
Proof.
  intro H. apply (f_equal (N.lxor a)) in H.
  rewrite <- N.lxor_assoc, N.lxor_nilpotent, N.lxor_0_l in H. exact H.
Qed.

Lemma lxor_cancel_r a b m : N.lxor a m = N.lxor b m -> a = b.
Proof.
  intro H. apply (f_equal (fun v => N.lxor v m)) in H.
  rewrite !N.lxor_assoc, N.lxor_nilpotent, !N.lxor_0_r in H. exact H.
Qed.

Lemma lxor_cancel_l a b m : N.lxor m a = N.lxor m b -> a = b.
Proof. rewrite !(N.lxor_comm m). apply lxor_cancel_r. Qed.

(* two registers that differ keep differing while they absorb the same bytes *)
Lemma crc_raw_diff bs : forall s s', s < 4294967296 -> s' < 4294967296 ->
  Forall (fun b => b < 256) bs -> s <> s' -> crc_raw s bs <> crc_raw s' bs.
Proof.
  induction bs as [|b bs IH]; intros s s' Hs Hs' Hb Hne; simpl; auto.
  inversion Hb as [|? ? Hb0 Hbs]; subst.
  apply IH; auto using byte_step_bound.
  intro E. rewrite (byte_step_diff s s' b) in E.
  apply lxor_self_id in E.
  apply iter_kernel in E; [|apply lxor_bound; assumption].
  apply N.lxor_eq in E. contradiction.
Qed.

Lemma crc_raw_bound bs : forall s, s < 4294967296 -> Forall (fun b => b < 256) bs -> crc_raw s bs < 4294967296.
Proof.
  induction bs as [|b bs IH]; intros s Hs Hb; simpl; auto.
  inversion Hb; subst. apply IH; auto using byte_step_bound.
Qed.

(* Single-byte damage is always detected. *)
Theorem crc32_single_byte pre x y post :
  Forall (fun b => b < 256) pre -> Forall (fun b => b < 256) post ->
  x < 256 -> y < 256 -> x <> y ->
  crc32 (pre ++ x :: post) <> crc32 (pre ++ y :: post).
Proof.
  intros Hpre Hpost Hx Hy Hne. unfold crc32, crc_raw.
  rewrite !fold_left_app. cbn [fold_left].
  change (fold_left byte_step pre 4294967295) with (crc_raw 4294967295 pre).
  set (s := crc_raw 4294967295 pre).
  assert (Hs : s < 4294967296) by (apply crc_raw_bound; [lia|assumption]).
  intro E. apply lxor_cancel_r in E. revert E.
  change (fold_left byte_step post ?a) with (crc_raw a post).
  apply crc_raw_diff; auto using byte_step_bound.
  intro E. unfold byte_step in E.
  assert (D : iter 8 (N.lxor (N.lxor s x) (N.lxor s y)) = 0) by (rewrite iter_linear, E; apply N.lxor_nilpotent).
  apply iter_kernel in D; [|apply lxor_bound; apply lxor_bound; lia].
  apply N.lxor_eq in D. apply lxor_cancel_l in D. contradiction.
Qed.

(* sanity: the standard check value of CRC-32 for "123456789" is 0xCBF43926 *)
Example crc_check : crc32 [49;50;51;52;53;54;55;56;57] = 3421780262.
Proof. vm_compute. reflexivity. Qed.

(* ---- bursts: any change confined to four consecutive bytes (a 32-bit burst on byte boundaries) is detected ---- *)
Lemma bstep_double y : bstep (2 * y) = y.
Proof.
  unfold bstep. rewrite N.testbit_even_0. rewrite N.lxor_0_r.
  rewrite N.shiftr_div_pow2. change (2 ^ 1) with 2. rewrite N.mul_comm. apply N.div_mul. discriminate.
Qed.

Lemma iter8_shl v : iter 8 (256 * v) = v.
Proof.
  replace (256 * v) with (2 * (2 * (2 * (2 * (2 * (2 * (2 * (2 * v)))))))) by lia.
  cbn [iter]. rewrite !bstep_double. reflexivity.
Qed.

Lemma lxor_disjoint8 a b : a < 256 -> N.lxor a (256 * b) = a + 256 * b.
Proof.
  intros Ha. symmetry. apply N.add_nocarry_lxor.
  apply N.bits_inj. intro n. rewrite N.land_spec, N.bits_0.
  destruct (N.ltb_spec n 8) as [Hn|Hn].
  - replace (256 * b) with (b * 2 ^ 8) by (change (2 ^ 8) with 256; lia).
    rewrite (N.mul_pow2_bits_low b 8 n Hn). apply andb_false_r.
  - rewrite <- (N.mod_small a (2 ^ 8)) by (change (2 ^ 8) with 256; exact Ha).
    rewrite N.mod_pow2_bits_high by exact Hn. reflexivity.
Qed.

(* the register difference after absorbing four bytes from equal registers *)
Definition pack4 (e1 e2 e3 e4 : N) : N := e1 + 256 * (e2 + 256 * (e3 + 256 * e4)).

Lemma byte_step_xor s t x y : byte_step (N.lxor s t) (N.lxor x y) = N.lxor (byte_step s x) (byte_step t y).
Proof.
  unfold byte_step. rewrite <- iter_linear. f_equal.
  apply N.bits_inj. intro n. rewrite !N.lxor_spec.
  destruct (N.testbit s n), (N.testbit t n), (N.testbit x n), (N.testbit y n); reflexivity.
Qed.

Lemma iter_add a : forall b s, iter (a + b) s = iter b (iter a s).
Proof. induction a as [|a IH]; intros b s; cbn [Nat.add iter]; [reflexivity|]. apply IH. Qed.

Lemma iter8_absorb u p : iter 8 (N.lxor u (256 * p)) = N.lxor (iter 8 u) p.
Proof. rewrite iter_linear, iter8_shl. reflexivity. Qed.

Lemma iter32_split z : iter 32 z = iter 8 (iter 8 (iter 8 (iter 8 z))).
Proof. change 32%nat with (8 + (8 + (8 + 8)))%nat. rewrite !iter_add. reflexivity. Qed.

Lemma window4_zero e1 e2 e3 e4 : e1 < 256 -> e2 < 256 -> e3 < 256 ->
  crc_raw 0 [e1; e2; e3; e4] = iter 32 (pack4 e1 e2 e3 e4).
Proof.
  intros H1 H2 H3. unfold pack4.
  rewrite <- (lxor_disjoint8 e3 e4 H3).
  rewrite <- (lxor_disjoint8 e2 _ H2).
  rewrite <- (lxor_disjoint8 e1 _ H1).
  rewrite iter32_split.
  rewrite iter8_absorb. rewrite <- N.lxor_assoc.
  rewrite iter8_absorb. rewrite <- N.lxor_assoc.
  rewrite iter8_absorb.
  unfold crc_raw. cbn [fold_left]. unfold byte_step. rewrite N.lxor_0_l. reflexivity.
Qed.

Lemma crc_raw_xor : forall xs ys s t, length xs = length ys ->
  N.lxor (crc_raw s xs) (crc_raw t ys) = crc_raw (N.lxor s t) (map (fun p => N.lxor (fst p) (snd p)) (combine xs ys)).
Proof.
  induction xs as [|x xs IH]; intros [|y ys] s t L; cbn in L; try discriminate.
  - reflexivity.
  - unfold crc_raw in *. cbn [fold_left combine map fst snd]. rewrite IH by lia. rewrite byte_step_xor. reflexivity.
Qed.

Lemma window4_diff s x1 x2 x3 x4 y1 y2 y3 y4 :
  N.lxor x1 y1 < 256 -> N.lxor x2 y2 < 256 -> N.lxor x3 y3 < 256 ->
  N.lxor (crc_raw s [x1; x2; x3; x4]) (crc_raw s [y1; y2; y3; y4]) =
  iter 32 (pack4 (N.lxor x1 y1) (N.lxor x2 y2) (N.lxor x3 y3) (N.lxor x4 y4)).
Proof.
  intros H1 H2 H3. rewrite crc_raw_xor by reflexivity. rewrite N.lxor_nilpotent.
  cbn [combine map fst snd]. apply window4_zero; assumption.
Qed.

Lemma lxor_byte a b : a < 256 -> b < 256 -> N.lxor a b < 256.
Proof.
  intros Ha Hb. destruct (N.eq_dec (N.lxor a b) 0) as [->|Hn]; [lia|].
  apply N.log2_lt_pow2 with (b := 8); [lia|].
  eapply N.le_lt_trans; [apply N.log2_lxor|].
  apply N.max_lub_lt.
  - destruct (N.eq_dec a 0) as [->|]; [reflexivity|]. apply N.log2_lt_pow2; lia.
  - destruct (N.eq_dec b 0) as [->|]; [reflexivity|]. apply N.log2_lt_pow2; lia.
Qed.

Lemma crc_raw_app s a b : crc_raw s (a ++ b) = crc_raw (crc_raw s a) b.
Proof. unfold crc_raw. apply fold_left_app. Qed.

Theorem crc32_burst4 pre post x1 x2 x3 x4 y1 y2 y3 y4 :
  Forall (fun b => b < 256) pre -> Forall (fun b => b < 256) post ->
  Forall (fun b => b < 256) [x1; x2; x3; x4] -> Forall (fun b => b < 256) [y1; y2; y3; y4] ->
  [x1; x2; x3; x4] <> [y1; y2; y3; y4] ->
  crc32 (pre ++ [x1; x2; x3; x4] ++ post) <> crc32 (pre ++ [y1; y2; y3; y4] ++ post).
Proof.
  intros Hpre Hpost Hx Hy Hne. unfold crc32.
  rewrite !crc_raw_app.
  set (s := crc_raw 4294967295 pre).
  assert (Hs : s < 4294967296) by (apply crc_raw_bound; [reflexivity|assumption]).
  intro E. apply lxor_cancel_r in E. revert E.
  apply crc_raw_diff; [apply crc_raw_bound; assumption|apply crc_raw_bound; assumption|assumption|].
  intro E.
  inversion Hx as [|? ? X1 Hx1]; inversion Hx1 as [|? ? X2 Hx2]; inversion Hx2 as [|? ? X3 Hx3]; inversion Hx3 as [|? ? X4 _]; subst.
  inversion Hy as [|? ? Y1 Hy1]; inversion Hy1 as [|? ? Y2 Hy2]; inversion Hy2 as [|? ? Y3 Hy3]; inversion Hy3 as [|? ? Y4 _]; subst.
  pose proof (lxor_byte _ _ X1 Y1) as B1. pose proof (lxor_byte _ _ X2 Y2) as B2.
  pose proof (lxor_byte _ _ X3 Y3) as B3. pose proof (lxor_byte _ _ X4 Y4) as B4.
  assert (D : iter 32 (pack4 (N.lxor x1 y1) (N.lxor x2 y2) (N.lxor x3 y3) (N.lxor x4 y4)) = 0).
  { rewrite <- (window4_diff s) by assumption. rewrite E. apply N.lxor_nilpotent. }
  set (e1 := N.lxor x1 y1) in *. set (e2 := N.lxor x2 y2) in *. set (e3 := N.lxor x3 y3) in *. set (e4 := N.lxor x4 y4) in *.
  apply iter_kernel in D.
  - unfold pack4 in D.
    assert (e1 = 0 /\ e2 = 0 /\ e3 = 0 /\ e4 = 0) as (E1 & E2 & E3 & E4) by lia.
    unfold e1 in E1. unfold e2 in E2. unfold e3 in E3. unfold e4 in E4.
    apply N.lxor_eq in E1, E2, E3, E4. subst. apply Hne. reflexivity.
  - unfold pack4. lia.
Qed.

(* Crc32Proofs.v — linearity of the CRC-32 bit step over GF(2), trivial kernel on
   32-bit registers, and the theorem that every single-byte change is detected. *)
From Coq Require Import Lia.
From SigM Require Import Base Crc32.
Open Scope N_scope.

Lemma sel_xor (x y : bool) :
  (if xorb x y then POLY else 0) = N.lxor (if x then POLY else 0) (if y then POLY else 0).
Proof. destruct x, y; simpl; auto using N.lxor_nilpotent. Qed.

Lemma bstep_linear a b : bstep (N.lxor a b) = N.lxor (bstep a) (bstep b).
Proof.
  unfold bstep. rewrite N.shiftr_lxor, N.lxor_spec, sel_xor.
  rewrite !N.lxor_assoc. f_equal.
  rewrite <- !N.lxor_assoc. f_equal. apply N.lxor_comm.
Qed.

Lemma bstep_zero : bstep 0 = 0. Proof. reflexivity. Qed.

Lemma bstep_kernel d : d < 4294967296 -> bstep d = 0 -> d = 0.
Proof.
  intros Hd H. unfold bstep in H.
  destruct (N.testbit d 0) eqn:E.
  - apply N.lxor_eq in H.
    assert (N.shiftr d 1 < 2147483648).
    { rewrite N.shiftr_div_pow2. change (2^1) with 2. apply N.div_lt_upper_bound; lia. }
    unfold POLY in H. lia.
  - rewrite N.lxor_0_r in H. rewrite N.shiftr_div_pow2 in H. change (2^1) with 2 in H.
    rewrite N.bit0_odd in E.
    assert (d = 2 * (d / 2) + d mod 2) by (apply N.div_mod'; lia).
    rewrite <- N.negb_even in E. apply negb_false_iff in E. rewrite N.even_spec in E.
    destruct E as [k ->]. rewrite N.mul_comm, N.div_mul in H by lia. lia.
Qed.

Lemma bstep_bound s : s < 4294967296 -> bstep s < 4294967296.
Proof.
  intros H. unfold bstep.
  assert (N.shiftr s 1 < 4294967296).
  { rewrite N.shiftr_div_pow2. change (2^1) with 2. apply N.div_lt_upper_bound; lia. }
  destruct (N.testbit s 0).
  - (* lxor of two 32-bit numbers is 32-bit *)
    destruct (N.eq_dec (N.lxor (N.shiftr s 1) POLY) 0) as [->|Hn]; [lia|].
    apply N.log2_lt_pow2 with (b := 32); [lia|].
    eapply N.le_lt_trans; [apply N.log2_lxor|].
    apply N.max_lub_lt.
    + destruct (N.eq_dec (N.shiftr s 1) 0) as [->|]; [reflexivity|]. apply N.log2_lt_pow2; lia.
    + reflexivity.
  - now rewrite N.lxor_0_r.
Qed.

Lemma iter_linear n a b : iter n (N.lxor a b) = N.lxor (iter n a) (iter n b).
Proof. revert a b; induction n as [|n IH]; intros a b; simpl; auto. rewrite bstep_linear. apply IH. Qed.

Lemma iter_bound n s : s < 4294967296 -> iter n s < 4294967296.
Proof. revert s; induction n as [|n IH]; intros s H; simpl; auto. apply IH, bstep_bound, H. Qed.

Lemma iter_kernel n d : d < 4294967296 -> iter n d = 0 -> d = 0.
Proof.
  revert d; induction n as [|n IH]; intros d Hd H; simpl in H; auto.
  apply bstep_kernel; auto. apply IH; auto. now apply bstep_bound.
Qed.

Lemma xor3 s s' b : N.lxor s b = N.lxor (N.lxor s' b) (N.lxor s s').
Proof.
  apply N.bits_inj. intro n. rewrite !N.lxor_spec.
  destruct (N.testbit s n), (N.testbit s' n), (N.testbit b n); reflexivity.
Qed.

(* difference propagation: the difference of two registers evolves by the zero-input map *)
Lemma byte_step_diff s s' b : byte_step s b = N.lxor (byte_step s' b) (iter 8 (N.lxor s s')).
Proof. unfold byte_step. rewrite <- iter_linear. f_equal. apply xor3. Qed.

Lemma lxor_bound a b : a < 4294967296 -> b < 4294967296 -> N.lxor a b < 4294967296.
Proof.
  intros Ha Hb. destruct (N.eq_dec (N.lxor a b) 0) as [->|Hn]; [lia|].
  apply N.log2_lt_pow2 with (b := 32); [lia|].
  eapply N.le_lt_trans; [apply N.log2_lxor|].
  apply N.max_lub_lt.
  - destruct (N.eq_dec a 0) as [->|]; [reflexivity|]. apply N.log2_lt_pow2; lia.
  - destruct (N.eq_dec b 0) as [->|]; [reflexivity|]. apply N.log2_lt_pow2; lia.
Qed.

Lemma byte_step_bound s b : s < 4294967296 -> b < 256 -> byte_step s b < 4294967296.
Proof. intros Hs Hb. unfold byte_step. apply iter_bound, lxor_bound; lia. Qed.

Lemma lxor_self_id a x : N.lxor a x = a -> x = 0.
Proof.
  intro H. apply (f_equal (N.lxor a)) in H.
  rewrite <- N.lxor_assoc, N.lxor_nilpotent, N.lxor_0_l in H. exact H.
Qed.

Lemma lxor_cancel_r a b m : N.lxor a m = N.lxor b m -> a = b.
Proof.
  intro H. apply (f_equal (fun v => N.lxor v m)) in H.
  rewrite !N.lxor_assoc, N.lxor_nilpotent, !N.lxor_0_r in H. exact H.
Qed.

Lemma lxor_cancel_l a b m : N.lxor m a = N.lxor m b -> a = b.
Proof. rewrite !(N.lxor_comm m). apply lxor_cancel_r. Qed.

(* two registers that differ keep differing while they absorb the same bytes *)
Lemma crc_raw_diff bs : forall s s', s < 4294967296 -> s' < 4294967296 ->
  Forall (fun b => b < 256) bs -> s <> s' -> crc_raw s bs <> crc_raw s' bs.
Proof.
  induction bs as [|b bs IH]; intros s s' Hs Hs' Hb Hne; simpl; auto.
  inversion Hb as [|? ? Hb0 Hbs]; subst.
  apply IH; auto using byte_step_bound.
  intro E. rewrite (byte_step_diff s s' b) in E.
  apply lxor_self_id in E.
  apply iter_kernel in E; [|apply lxor_bound; assumption].
  apply N.lxor_eq in E. contradiction.
Qed.

Lemma crc_raw_bound bs : forall s, s < 4294967296 -> Forall (fun b => b < 256) bs -> crc_raw s bs < 4294967296.
Proof.
  induction bs as [|b bs IH]; intros s Hs Hb; simpl; auto.
  inversion Hb; subst. apply IH; auto using byte_step_bound.
Qed.

(* Single-byte damage is always detected. *)
Theorem crc32_single_byte pre x y post :
  Forall (fun b => b < 256) pre -> Forall (fun b => b < 256) post ->
  x < 256 -> y < 256 -> x <> y ->
  crc32 (pre ++ x :: post) <> crc32 (pre ++ y :: post).
Proof.
  intros Hpre Hpost Hx Hy Hne. unfold crc32, crc_raw.
  rewrite !fold_left_app. cbn [fold_left].
  change (fold_left byte_step pre 4294967295) with (crc_raw 4294967295 pre).
  set (s := crc_raw 4294967295 pre).
  assert (Hs : s < 4294967296) by (apply crc_raw_bound; [lia|assumption]).
  intro E. apply lxor_cancel_r in E. revert E.
  change (fold_left byte_step post ?a) with (crc_raw a post).
  apply crc_raw_diff; auto using byte_step_bound.
  intro E. unfold byte_step in E.
  assert (D : iter 8 (N.lxor (N.lxor s x) (N.lxor s y)) = 0) by (rewrite iter_linear, E; apply N.lxor_nilpotent).
  apply iter_kernel in D; [|apply lxor_bound; apply lxor_bound; lia].
  apply N.lxor_eq in D. apply lxor_cancel_l in D. contradiction.
Qed.

(* sanity: the standard check value of CRC-32 for "123456789" is 0xCBF43926 *)
Example crc_check : crc32 [49;50;51;52;53;54;55;56;57] = 3421780262.
Proof. vm_compute. reflexivity. Qed.

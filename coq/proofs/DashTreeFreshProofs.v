From SigM Require Import Base DashTree.
From Coq Require Import Lia.
Open Scope N_scope.

(* DashTreeFreshProofs.v — under the history guard [hist_ok] (right kinds of ids, every folder
   name introduced once and slash free, tree well formed after every operation) the path-string
   test of refreshFolderMetadata is enough: [detects] holds for every dashboard after every run. *)

(* ---------- boolean equalities ---------- *)

Lemma bytes_eqb_eq : forall a b : list N, bytes_eqb a b = true -> a = b.
Proof.
  unfold bytes_eqb. induction a as [|x a IH]; destruct b as [|y b]; simpl; intros E;
    try discriminate; auto.
  apply andb_true_iff in E. destruct E as [E1 E2]. apply N.eqb_eq in E1. subst. f_equal. auto.
Qed.

Lemma bytes_eqb_refl : forall a : list N, bytes_eqb a a = true.
Proof. unfold bytes_eqb. induction a; simpl; auto. rewrite N.eqb_refl. auto. Qed.

Lemma names_eqb_refl : forall a, names_eqb a a = true.
Proof.
  unfold names_eqb. induction a as [|[q n] a IH]; simpl; auto.
  rewrite N.eqb_refl. fold bytes_eqb. rewrite bytes_eqb_refl. auto.
Qed.

Lemma finfo_eqb_refl a : finfo_eqb a a = true.
Proof. unfold finfo_eqb. rewrite N.eqb_refl, !bytes_eqb_refl, names_eqb_refl. reflexivity. Qed.

(* ---------- keyed lists ---------- *)

Lemma n_get_put {V} k (v : V) k' m :
  n_get k' (n_put k v m) = if N.eqb k k' then Some v else n_get k' m.
Proof.
  induction m as [|[a b] r IH]; simpl.
  - reflexivity.
  - destruct (N.eqb a k) eqn:E; simpl.
    + apply N.eqb_eq in E. subst a. destruct (N.eqb k k'); reflexivity.
    + rewrite IH. destruct (N.eqb a k') eqn:E2; auto. destruct (N.eqb k k') eqn:E3; auto.
      apply N.eqb_eq in E2, E3. subst. rewrite N.eqb_refl in E. discriminate.
Qed.

Lemma n_get_del {V} k k' (m : list (N * V)) :
  n_get k' (n_del k m) = if N.eqb k k' then None else n_get k' m.
Proof.
  induction m as [|[a b] r IH]; simpl.
  - destruct (N.eqb k k'); reflexivity.
  - destruct (N.eqb a k) eqn:E; simpl.
    + rewrite IH. apply N.eqb_eq in E. subst a. destruct (N.eqb k k'); reflexivity.
    + rewrite IH. destruct (N.eqb a k') eqn:E2; auto. destruct (N.eqb k k') eqn:E3; auto.
      apply N.eqb_eq in E2, E3. subst. rewrite N.eqb_refl in E. discriminate.
Qed.

Lemma n_get_filter {V} (P : N -> bool) k (m : list (N * V)) :
  n_get k (filter (fun kv => P (fst kv)) m) = if P k then n_get k m else None.
Proof.
  induction m as [|[a b] r IH]; simpl.
  - destruct (P k); reflexivity.
  - destruct (P a) eqn:E; simpl.
    + destruct (N.eqb a k) eqn:E2.
      * apply N.eqb_eq in E2; subst; rewrite E; reflexivity.
      * exact IH.
    + rewrite IH. destruct (N.eqb a k) eqn:E2; auto.
      apply N.eqb_eq in E2; subst. rewrite E. reflexivity.
Qed.

Lemma n_get_In {V} k (v : V) m : n_get k m = Some v -> In (k, v) m.
Proof.
  induction m as [|[a b] r IH]; simpl; intros E; try discriminate.
  destruct (N.eqb a k) eqn:E2.
  - apply N.eqb_eq in E2. inversion E; subst. auto.
  - auto.
Qed.

(* ---------- join is injective on slash free, non-empty names ---------- *)

Lemma slash_free_spec n : slash_free n = true -> ~ In slash n /\ n <> [].
Proof.
  unfold slash_free. intros E. apply andb_true_iff in E. destruct E as [E1 E2].
  apply negb_true_iff in E1. split.
  - intros I. assert (existsb (N.eqb slash) n = true) as X.
    { apply existsb_exists. exists slash. split; auto. }
    congruence.
  - intros ->. discriminate.
Qed.

Lemma cut_at_slash : forall x y r r',
  ~ In slash x -> ~ In slash y -> x ++ slash :: r = y ++ slash :: r' -> x = y /\ r = r'.
Proof.
  induction x as [|a x IH]; destruct y as [|b y]; simpl; intros r r' Hx Hy E.
  - inversion E. auto.
  - inversion E. subst. exfalso. apply Hy. auto.
  - inversion E. subst. exfalso. apply Hx. auto.
  - inversion E. subst. destruct (IH y r r') as [A B]; auto. subst. auto.
Qed.

Lemma no_slash_neq x y r : ~ In slash x -> x <> y ++ slash :: r.
Proof. intros Hx ->. apply Hx. apply in_elt. Qed.

Lemma join_cons2 x y r : join (x :: y :: r) = x ++ slash :: join (y :: r).
Proof. reflexivity. Qed.

Definition sf (n : name) : Prop := slash_free n = true.

Lemma join_inj : forall l1 l2, Forall sf l1 -> Forall sf l2 -> join l1 = join l2 -> l1 = l2.
Proof.
  induction l1 as [|x r1 IH]; intros l2 F1 F2 E.
  - destruct l2 as [|y r2]; auto. exfalso.
    inversion F2 as [|? ? Sy _]; subst. apply slash_free_spec in Sy. destruct Sy as [_ Ny].
    destruct r2 as [|z r2].
    + simpl in E. congruence.
    + rewrite join_cons2 in E. simpl in E. destruct y; simpl in E; congruence.
  - inversion F1 as [|? ? Sx F1']; subst. apply slash_free_spec in Sx. destruct Sx as [Sx Nx].
    destruct l2 as [|y r2].
    + exfalso. destruct r1 as [|z r1].
      * simpl in E. congruence.
      * rewrite join_cons2 in E. destruct x; simpl in E; congruence.
    + inversion F2 as [|? ? Sy F2']; subst. apply slash_free_spec in Sy. destruct Sy as [Sy Ny].
      destruct r1 as [|x' r1]; destruct r2 as [|y' r2].
      * simpl in E. subst. reflexivity.
      * rewrite join_cons2 in E. exfalso. exact (no_slash_neq _ _ _ Sx E).
      * rewrite join_cons2 in E. symmetry in E. exfalso. exact (no_slash_neq _ _ _ Sy E).
      * rewrite !join_cons2 in E. apply cut_at_slash in E; auto. destruct E as [-> E].
        f_equal. apply IH; auto.
Qed.

Lemma rev_inj {A} (a b : list A) : rev a = rev b -> a = b.
Proof. intros E. rewrite <- (rev_involutive a), <- (rev_involutive b). f_equal. exact E. Qed.

(* ---------- the walks ---------- *)

Lemma crumbs_chain tr : forall k f l n,
  crumbs_up k tr f = l ++ [(0, n)] -> crumbs_up k tr f = chain k tr f ++ [(0, root_name)].
Proof.
  induction k as [|k IH]; simpl; intros f l n E.
  - destruct l; discriminate.
  - destruct (f =? 0) eqn:E0; [reflexivity|].
    destruct (n_get f tr) as [it|].
    + destruct l as [|x l]; simpl in E.
      * inversion E. subst. discriminate.
      * inversion E as [[E1 E2]]. rewrite E2. simpl. f_equal. rewrite <- E2. eapply IH; eauto.
    + destruct l; discriminate.
Qed.

Lemma rooted_crumbs tr f : rooted tr f = true ->
  crumbs_up (fuel_of tr) tr f = chain (fuel_of tr) tr f ++ [(0, root_name)].
Proof.
  unfold rooted, crumbs_of. intros R.
  destruct (rev (crumbs_up (fuel_of tr) tr f)) as [|[q n] l] eqn:E; try discriminate.
  destruct q; try discriminate.
  apply (crumbs_chain tr _ _ (rev l) n).
  rewrite <- (rev_involutive (crumbs_up (fuel_of tr) tr f)), E. reflexivity.
Qed.

Lemma wf_parent tr i it : wf_tree tr = true -> n_get i tr = Some it ->
  is_folder tr (it_parent it) = true /\ rooted tr (it_parent it) = true.
Proof.
  unfold wf_tree. intros W G. apply n_get_In in G.
  rewrite forallb_forall in W. specialize (W _ G). simpl in W.
  apply andb_true_iff in W. exact W.
Qed.

Lemma is_folder_look tr p : is_folder tr p = true -> exists pf, look tr p = Some pf.
Proof.
  unfold is_folder, look. destruct (p =? 0); eauto.
  destruct (n_get p tr); eauto. discriminate.
Qed.

(* ---------- the invariant ---------- *)

Definition in_H (H c : list (N * name)) : Prop :=
  forall x, In x c -> In x H /\ slash_free (snd x) = true.

Definition shape (H : list (N * name)) (fi : finfo) : Prop :=
  exists c, in_H H c /\
    fi_path fi = join (rev (map snd c)) /\
    fi_crumbs fi = rev (c ++ [(0, root_name)]) /\
    match c with
    | [] => fi_id fi = 0 /\ fi_name fi = root_name
    | (q, n) :: _ => q = fi_id fi /\ fi_name fi = n
    end.

Definition folders_ok (H : list (N * name)) (tr : tree) : Prop :=
  forall f it, n_get f tr = Some it -> it_folder it = true ->
    In (f, it_name it) H /\ slash_free (it_name it) = true.

Definition functional (H : list (N * name)) : Prop :=
  forall a b n, In (a, n) H -> In (b, n) H -> a = b.

Definition H_ok (H : list (N * name)) (used : list name) : Prop :=
  functional H /\ (forall a n, In (a, n) H -> In n used).

Definition det_ok (H : list (N * name)) (tr : tree) (det : details) : Prop :=
  forall i fi it, n_get i det = Some fi -> n_get i tr = Some it -> it_folder it = false ->
    fi_id fi = it_parent it /\ shape H fi.

Definition Inv (s : dstate) (used : list name) : Prop :=
  exists H, wf_tree (d_tree s) = true /\ folders_ok H (d_tree s) /\ H_ok H used /\
            det_ok H (d_tree s) (d_det s).

Lemma in_H_mono H H' c : incl H H' -> in_H H c -> in_H H' c.
Proof. intros I C x Hx. destruct (C x Hx). split; auto. Qed.

Lemma shape_mono H H' fi : incl H H' -> shape H fi -> shape H' fi.
Proof.
  intros I (c & C & R). exists c. split; auto. eapply in_H_mono; eauto.
Qed.

Lemma folders_ok_gen H H' tr tr' :
  folders_ok H tr -> incl H H' ->
  (forall f it, n_get f tr' = Some it -> it_folder it = true ->
     n_get f tr = Some it \/ (In (f, it_name it) H' /\ slash_free (it_name it) = true)) ->
  folders_ok H' tr'.
Proof.
  intros F I C f it G Fo. destruct (C f it G Fo) as [G'|R]; auto.
  destruct (F f it G' Fo). split; auto.
Qed.

Lemma det_ok_gen H H' tr tr' det det' :
  det_ok H tr det -> incl H H' ->
  (forall i fi it, n_get i det' = Some fi -> n_get i tr' = Some it -> it_folder it = false ->
     (n_get i det = Some fi /\ n_get i tr = Some it) \/
     (fi_id fi = it_parent it /\ shape H' fi)) ->
  det_ok H' tr' det'.
Proof.
  intros D I C i fi it G1 G2 Fo. destruct (C i fi it G1 G2 Fo) as [[A B]|R]; auto.
  destruct (D i fi it A B Fo). split; auto. eapply shape_mono; eauto.
Qed.

Lemma fresh_notin n used : negb (existsb (bytes_eqb n) used) = true -> ~ In n used.
Proof.
  intros E I. apply negb_true_iff in E.
  assert (existsb (bytes_eqb n) used = true) as X.
  { apply existsb_exists. exists n. split; auto. apply bytes_eqb_refl. }
  congruence.
Qed.

Lemma H_ok_add H used i nm : H_ok H used -> ~ In nm used -> H_ok ((i, nm) :: H) (nm :: used).
Proof.
  intros [Fu Us] N. split.
  - intros a b n [A|A] [B|B].
    + congruence.
    + inversion A; subst. exfalso. apply N. eapply Us; eauto.
    + inversion B; subst. exfalso. apply N. eapply Us; eauto.
    + eapply Fu; eauto.
  - intros a n [A|A].
    + inversion A; subst. left; auto.
    + right. eapply Us; eauto.
Qed.

(* the chain from a folder of a well formed tree goes through recorded folder names only *)
Lemma chain_in_H H tr : wf_tree tr = true -> folders_ok H tr ->
  forall k f, is_folder tr f = true -> in_H H (chain k tr f).
Proof.
  intros W F. induction k as [|k IH]; simpl; intros f Fo x Hx.
  - destruct Hx.
  - unfold is_folder in Fo. destruct (f =? 0) eqn:E0; [destruct Hx|].
    destruct (n_get f tr) as [it|] eqn:G; [|destruct Hx].
    destruct Hx as [<-|Hx].
    + simpl. apply F; auto.
    + destruct (wf_parent _ _ _ W G) as [Fp _]. exact (IH _ Fp x Hx).
Qed.

Lemma chain_head tr p pf : look tr p = Some pf ->
  match chain (fuel_of tr) tr p with
  | [] => p = 0 /\ it_name pf = root_name
  | (q, n) :: _ => q = p /\ it_name pf = n
  end.
Proof.
  unfold look, fuel_of. simpl. destruct (p =? 0) eqn:E0.
  - intros E. inversion E. apply N.eqb_eq in E0. auto.
  - intros ->. auto.
Qed.

(* what createDashboard / updateDashboard / refreshFolderMetadata write has the recorded shape *)
Lemma info_shape H tr p pf : wf_tree tr = true -> folders_ok H tr ->
  is_folder tr p = true -> rooted tr p = true -> look tr p = Some pf ->
  shape H (info_at tr p pf).
Proof.
  intros W F Fo R L. exists (chain (fuel_of tr) tr p). split; [|split; [|split]].
  - apply chain_in_H; auto.
  - reflexivity.
  - simpl. unfold crumbs_of. rewrite rooted_crumbs; auto.
  - pose proof (chain_head tr p pf L) as Hd. simpl fi_id. simpl fi_name.
    destruct (chain (fuel_of tr) tr p) as [|[q n] l].
    + destruct Hd; auto.
    + destruct Hd; auto.
Qed.

Lemma fun_map_snd H : functional H -> forall c ch : list (N * name),
  (forall x, In x c -> In x H) -> (forall x, In x ch -> In x H) ->
  map snd c = map snd ch -> c = ch.
Proof.
  intros Fu. induction c as [|[a n] c IH]; destruct ch as [|[b m] ch]; simpl; intros A B E;
    try discriminate; auto.
  inversion E; subst. f_equal.
  - f_equal. eapply Fu; [apply A|apply B]; auto.
  - apply IH; auto.
Qed.

Lemma shape_unique H tr p pf fi : functional H -> wf_tree tr = true -> folders_ok H tr ->
  is_folder tr p = true -> rooted tr p = true -> look tr p = Some pf ->
  fi_id fi = p -> shape H fi -> fi_path fi = path_of tr p -> fi = info_at tr p pf.
Proof.
  intros Fu W F Fo R L Hid (c & C & Hp & Hc & Hm) Ep.
  pose proof (chain_in_H H tr W F (fuel_of tr) p Fo) as Ch.
  assert (c = chain (fuel_of tr) tr p) as ->.
  { apply (fun_map_snd H Fu).
    - intros x Hx. apply C; auto.
    - intros x Hx. apply Ch; auto.
    - apply rev_inj. apply join_inj.
      + apply Forall_forall. intros n Hn. apply in_rev in Hn. apply in_map_iff in Hn.
        destruct Hn as (x & <- & Hx). apply C; auto.
      + apply Forall_forall. intros n Hn. apply in_rev in Hn. apply in_map_iff in Hn.
        destruct Hn as (x & <- & Hx). apply Ch; auto.
      + rewrite <- Hp. exact Ep. }
  pose proof (chain_head tr p pf L) as Hd.
  destruct fi as [fid fnm fpa fcr]. cbn [fi_id fi_name fi_path fi_crumbs] in *. unfold info_at. subst fid.
  assert (fnm = it_name pf) as ->.
  { destruct (chain (fuel_of tr) tr p) as [|[q n] l].
    - destruct Hm as [_ ->]. destruct Hd as [_ ->]. reflexivity.
    - destruct Hm as [_ ->]. destruct Hd as [_ ->]. reflexivity. }
  rewrite Ep. f_equal. rewrite Hc. unfold crumbs_of. rewrite rooted_crumbs; auto.
Qed.

Lemma inv_detects s used : Inv s used -> forall i, detects s i = true.
Proof.
  intros (H & Hwf & Hf & [Hfun Hused] & Hd) i. unfold detects.
  destruct (n_get i (d_det s)) as [fi|] eqn:Ed; auto.
  destruct (info_of (d_tree s) i) as [cur|] eqn:Ei; auto.
  unfold info_of in Ei. destruct (n_get i (d_tree s)) as [it|] eqn:Et; try discriminate.
  destruct (it_folder it) eqn:Ef; try discriminate.
  destruct (look (d_tree s) (it_parent it)) as [pf|] eqn:El; try discriminate.
  inversion Ei; subst cur; clear Ei.
  destruct (bytes_eqb (fi_path fi) (fi_path (info_at (d_tree s) (it_parent it) pf))) eqn:Ep;
    simpl; auto.
  apply bytes_eqb_eq in Ep. simpl in Ep.
  destruct (Hd i fi it Ed Et Ef) as [Hid Hsh].
  destruct (wf_parent _ _ _ Hwf Et) as [Hpf Hpr].
  rewrite (shape_unique H (d_tree s) (it_parent it) pf fi); auto.
  apply finfo_eqb_refl.
Qed.

(* ---------- every step preserves the invariant ---------- *)

Lemma det_ok_put H tr det j fi :
  det_ok H tr det ->
  (forall it, n_get j tr = Some it -> it_folder it = false ->
     fi_id fi = it_parent it /\ shape H fi) ->
  det_ok H tr (n_put j fi det).
Proof.
  intros D P. eapply det_ok_gen; eauto using incl_refl.
  intros i fi' it G1 G2 Fo. rewrite n_get_put in G1.
  destruct (N.eqb j i) eqn:E.
  - apply N.eqb_eq in E. subst i. inversion G1; subst fi'. right. eauto.
  - left. auto.
Qed.

Lemma written_ok H tr j it pf : wf_tree tr = true -> folders_ok H tr ->
  n_get j tr = Some it -> look tr (it_parent it) = Some pf ->
  forall it', n_get j tr = Some it' -> it_folder it' = false ->
    fi_id (info_at tr (it_parent it) pf) = it_parent it' /\
    shape H (info_at tr (it_parent it) pf).
Proof.
  intros W F G L it' G' _. rewrite G in G'. inversion G'; subst it'.
  destruct (wf_parent _ _ _ W G) as [Fp Rp]. split; [reflexivity|].
  apply info_shape; auto.
Qed.

Lemma get_dash_ok H tr det j : wf_tree tr = true -> folders_ok H tr ->
  det_ok H tr det -> det_ok H tr (snd (get_dash tr det j)).
Proof.
  intros W F D. unfold get_dash.
  destruct (n_get j tr) as [it|] eqn:G; auto.
  destruct (it_folder it) eqn:Fo; auto.
  destruct (n_get j det) as [fi|] eqn:Gd; auto.
  destruct (look tr (it_parent it)) as [pf|] eqn:L; auto.
  destruct (bytes_eqb (fi_path fi) (path_of tr (it_parent it))); auto.
  cbn [snd]. apply det_ok_put; auto. eapply written_ok; eauto.
Qed.

Lemma refresh_ok H tr : wf_tree tr = true -> folders_ok H tr ->
  forall (l : tree) det, det_ok H tr det ->
    det_ok H tr (fold_left (fun d kv => snd (get_dash tr d (fst kv))) l det).
Proof.
  intros W F. induction l as [|kv l IH]; simpl; intros det D; auto.
  apply IH. apply get_dash_ok; auto.
Qed.

Lemma d_step_tree s o : d_tree (fst (d_step s o)) = tree_apply (d_tree s) o.
Proof.
  unfold d_step. destruct o; cbv zeta;
    repeat match goal with
           | |- context [match ?x with _ => _ end] =>
             match x with
             | look _ _ => destruct x
             | n_get _ (tree_apply _ _) => destruct x
             end
           end; reflexivity.
Qed.

Lemma n_get_filter_dead {V} dead k (m : list (N * V)) :
  n_get k (filter (fun kv => negb (existsb (N.eqb (fst kv)) dead)) m) =
  if negb (existsb (N.eqb k) dead) then n_get k m else None.
Proof. exact (n_get_filter (fun x => negb (existsb (N.eqb x) dead)) k m). Qed.

Lemma inv_same_H H tr' det' used :
  wf_tree tr' = true -> folders_ok H tr' -> H_ok H used -> det_ok H tr' det' ->
  Inv (mkD tr' det') used.
Proof. intros. exists H. auto. Qed.

Lemma step_inv tr det used o :
  Inv (mkD tr det) used -> op_ok tr used o = true -> wf_tree (tree_apply tr o) = true ->
  Inv (fst (d_step (mkD tr det) o)) (names_of_op o ++ used).
Proof.
  intros (H & Hwf & Hf & Hok & Hd) Hop Hwf'. cbn [d_tree d_det] in *.
  destruct o as [i nm p|i nm p|i nm p|i nm p|i|i|i| |f| ].
  - (* MkFolder *)
    cbn [op_ok] in Hop. apply andb_true_iff in Hop as [Hop Hp]. apply andb_true_iff in Hop as [Habs Hfr].
    unfold name_fresh in Hfr. apply andb_true_iff in Hfr as [Hsf Hnin]. apply fresh_notin in Hnin.
    cbn [tree_apply] in Hwf'. cbn [d_step fst d_tree d_det tree_apply names_of_op app].
    exists ((i, nm) :: H). cbn [d_tree d_det]. split; [exact Hwf'|]. split; [|split].
    + eapply folders_ok_gen; eauto using incl_tl, incl_refl.
      intros f it G Fo. rewrite n_get_put in G. destruct (N.eqb i f) eqn:E; auto.
      apply N.eqb_eq in E. subst f. inversion G; subst it. right. simpl. auto.
    + apply H_ok_add; auto.
    + eapply det_ok_gen; eauto using incl_tl, incl_refl.
      intros j fi it G1 G2 Fo. rewrite n_get_put in G2. destruct (N.eqb i j) eqn:E; auto.
      inversion G2; subst it. discriminate.
  - (* MkDash *)
    cbn [op_ok] in Hop. apply andb_true_iff in Hop as [Habs Hp].
    cbn [tree_apply] in Hwf'.
    assert (G : n_get i (n_put i (mkItem nm false p) tr) = Some (mkItem nm false p))
      by (rewrite n_get_put, N.eqb_refl; reflexivity).
    assert (F' : folders_ok H (n_put i (mkItem nm false p) tr)).
    { eapply folders_ok_gen; eauto using incl_refl. intros f it G' Fo.
      rewrite n_get_put in G'. destruct (N.eqb i f); auto. inversion G'; subst it; discriminate. }
    destruct (wf_parent _ _ _ Hwf' G) as [Fp Rp]. cbn [it_parent] in Fp, Rp.
    destruct (is_folder_look _ _ Fp) as [pf L].
    cbn [d_step d_tree d_det tree_apply names_of_op app]. rewrite L. cbn [fst].
    apply (inv_same_H H); auto.
    eapply det_ok_gen; eauto using incl_refl.
    intros j fi it G1 G2 Fo. rewrite n_get_put in G1. rewrite n_get_put in G2.
    destruct (N.eqb i j) eqn:E.
    + inversion G1; subst fi. inversion G2; subst it. right. split; [reflexivity|].
      apply info_shape; auto.
    + left; auto.
  - (* UpdFolder *)
    cbn [op_ok] in Hop. apply andb_true_iff in Hop as [Hop Hp]. apply andb_true_iff in Hop as [Hop Hnm].
    apply andb_true_iff in Hop as [Hi0 Hfo].
    destruct (n_get i tr) as [it0|] eqn:G0; try discriminate.
    cbn [tree_apply] in Hwf'. rewrite G0 in Hwf'.
    cbn [d_step d_tree d_det tree_apply fst]. rewrite G0.
    set (nm' := match nm with Some n => n | None => it_name it0 end) in *.
    set (p' := match p with Some q => q | None => it_parent it0 end) in *.
    assert (exists H', incl H H' /\ H_ok H' (names_of_op (UpdFolder i nm p) ++ used) /\
                       In (i, nm') H' /\ slash_free nm' = true) as (H' & I & Hok' & Hin & Hsf).
    { destruct nm as [n|]; cbn [names_of_op app optb] in *.
      - unfold name_fresh in Hnm. apply andb_true_iff in Hnm as [Hsf Hnin]. apply fresh_notin in Hnin.
        exists ((i, n) :: H). split; [apply incl_tl, incl_refl|]. split; [apply H_ok_add; auto|].
        split; [left; reflexivity|exact Hsf].
      - exists H. split; [apply incl_refl|]. split; [exact Hok|]. apply Hf; auto. }
    exists H'. cbn [d_tree d_det]. split; [exact Hwf'|]. split; [|split; [exact Hok'|]].
    + eapply folders_ok_gen; eauto.
      intros f it G Fo. rewrite n_get_put in G. destruct (N.eqb i f) eqn:E; auto.
      apply N.eqb_eq in E. subst f. inversion G; subst it. right. simpl. auto.
    + eapply det_ok_gen; eauto.
      intros j fi it G1 G2 Fo. rewrite n_get_put in G2. destruct (N.eqb i j) eqn:E; auto.
      inversion G2; subst it. cbn [it_folder] in Fo. congruence.
  - (* UpdDash *)
    cbn [op_ok] in Hop. apply andb_true_iff in Hop as [Hdash Hp].
    unfold is_dash in Hdash. destruct (n_get i tr) as [it0|] eqn:G0; try discriminate.
    apply negb_true_iff in Hdash.
    cbn [tree_apply] in Hwf'. rewrite G0, Hdash in Hwf'.
    cbn [d_step d_tree d_det tree_apply names_of_op app]. rewrite G0, Hdash.
    set (p' := match p with Some q => q | None => it_parent it0 end) in *.
    assert (G : n_get i (n_put i (mkItem nm false p') tr) = Some (mkItem nm false p'))
      by (rewrite n_get_put, N.eqb_refl; reflexivity).
    assert (F' : folders_ok H (n_put i (mkItem nm false p') tr)).
    { eapply folders_ok_gen; eauto using incl_refl. intros f it G' Fo.
      rewrite n_get_put in G'. destruct (N.eqb i f); auto. inversion G'; subst it; discriminate. }
    destruct (wf_parent _ _ _ Hwf' G) as [Fp Rp]. cbn [it_parent] in Fp, Rp.
    destruct (is_folder_look _ _ Fp) as [pf L].
    rewrite G. cbn [it_parent]. rewrite L. cbn [fst].
    apply (inv_same_H H); auto.
    eapply det_ok_gen; eauto using incl_refl.
    intros j fi it G1 G2 Fo. rewrite n_get_put in G1. rewrite n_get_put in G2.
    destruct (N.eqb i j) eqn:E.
    + inversion G1; subst fi. inversion G2; subst it. right. split; [reflexivity|].
      apply info_shape; auto.
    + left; auto.
  - (* DelDash *)
    cbn [tree_apply] in Hwf'. cbn [d_step d_tree d_det tree_apply names_of_op app fst].
    apply (inv_same_H H); auto.
    + eapply folders_ok_gen; eauto using incl_refl. intros f it G Fo.
      rewrite n_get_del in G. destruct (N.eqb i f); try discriminate; auto.
    + eapply det_ok_gen; eauto using incl_refl. intros j fi it G1 G2 Fo.
      rewrite n_get_del in G1. rewrite n_get_del in G2. destruct (N.eqb i j); try discriminate; auto.
  - (* DelFolder *)
    cbn [tree_apply] in Hwf'. cbn [d_step d_tree d_det tree_apply names_of_op app fst].
    cbv zeta in *.
    apply (inv_same_H H); auto.
    + eapply folders_ok_gen; eauto using incl_refl. intros f it G Fo.
      rewrite n_get_filter_dead in G.
      destruct (negb (existsb (N.eqb f) (dead_set tr i))); try discriminate; auto.
    + eapply det_ok_gen; eauto using incl_refl. intros j fi it G1 G2 Fo.
      rewrite n_get_filter_dead in G1. rewrite n_get_filter_dead in G2.
      destruct (negb (existsb (N.eqb j) (dead_set tr i))); try discriminate; auto.
  - (* GetDash *)
    cbn [tree_apply] in Hwf'. cbn [d_step d_tree d_det tree_apply names_of_op app fst].
    cbv zeta. apply (inv_same_H H); auto. apply get_dash_ok; auto.
  - (* ListAll *)
    cbn [tree_apply] in Hwf'. cbn [d_step d_tree d_det tree_apply names_of_op app fst].
    apply (inv_same_H H); auto. unfold refresh_all. apply refresh_ok; auto.
  - (* Contents *)
    cbn [d_step fst names_of_op app]. exists H. auto.
  - (* DRestart *)
    cbn [d_step fst names_of_op app]. exists H. auto.
Qed.

Lemma run_inv : forall ops s used, Inv s used -> hist_ok (d_tree s) used ops = true ->
  exists used', Inv (d_run ops s) used'.
Proof.
  induction ops as [|o r IH]; intros s used I Hh.
  - exists used. exact I.
  - cbn [hist_ok] in Hh. apply andb_true_iff in Hh as [Hh Hr]. apply andb_true_iff in Hh as [Hop Hwf].
    cbn [d_run]. apply (IH _ (names_of_op o ++ used)).
    + destruct s as [tr det]. apply step_inv; auto.
    + rewrite d_step_tree. exact Hr.
Qed.

Lemma inv_init : Inv d_init [].
Proof.
  exists []. split; [reflexivity|]. split; [|split; [split|]].
  - intros f it G. discriminate.
  - intros a b n [].
  - intros a n [].
  - intros i fi it G. discriminate.
Qed.

Theorem dt_hist_ok_detects : forall ops,
  hist_ok [] [] ops = true -> forall i, detects (d_run ops d_init) i = true.
Proof.
  intros ops Hh i. destruct (run_inv ops d_init [] inv_init Hh) as [used' I].
  eapply inv_detects; eauto.
Qed.

Print Assumptions dt_hist_ok_detects.

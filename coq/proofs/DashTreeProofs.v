(* DashTreeProofs.v — dashboards and folders as a keyed store with a tree (model: SigM.DashTree). *)
From SigM Require Import Base DashTree.
From Coq Require Import Lia.
Open Scope N_scope.

(* ---- boolean equalities ---- *)

Lemma bytes_eqb_eq : forall a b : list N, bytes_eqb a b = true -> a = b.
Proof.
  unfold bytes_eqb. induction a as [|x a IH]; destruct b as [|y b]; simpl; try discriminate; auto.
  intro H. apply andb_prop in H as [H1 H2]. apply N.eqb_eq in H1. subst. f_equal. auto.
Qed.

Lemma bytes_eqb_refl : forall a : list N, bytes_eqb a a = true.
Proof. unfold bytes_eqb. induction a; simpl; auto. rewrite N.eqb_refl. auto. Qed.

Lemma names_eqb_eq : forall a b, names_eqb a b = true -> a = b.
Proof.
  unfold names_eqb. induction a as [|[i n] a IH]; destruct b as [|[j m] b]; simpl; try discriminate; auto.
  intro H. apply andb_prop in H as [H1 H2]. apply andb_prop in H1 as [Hi Hn]. simpl in *.
  apply N.eqb_eq in Hi. apply bytes_eqb_eq in Hn. subst. f_equal. auto.
Qed.

Lemma names_eqb_refl : forall a, names_eqb a a = true.
Proof.
  unfold names_eqb. induction a as [|[i n] a IH]; simpl; auto.
  rewrite N.eqb_refl, bytes_eqb_refl. auto.
Qed.

Lemma finfo_eqb_eq a b : finfo_eqb a b = true -> a = b.
Proof.
  destruct a, b. unfold finfo_eqb. simpl. intro H.
  apply andb_prop in H as [H Hc]. apply andb_prop in H as [H Hp]. apply andb_prop in H as [Hi Hn].
  apply N.eqb_eq in Hi. apply bytes_eqb_eq in Hn. apply bytes_eqb_eq in Hp. apply names_eqb_eq in Hc.
  subst. reflexivity.
Qed.

Lemma finfo_eqb_refl a : finfo_eqb a a = true.
Proof. unfold finfo_eqb. rewrite N.eqb_refl, !bytes_eqb_refl, names_eqb_refl. reflexivity. Qed.

Lemma n_get_put {V} k (v : V) k' m :
  n_get k' (n_put k v m) = if N.eqb k k' then Some v else n_get k' m.
Proof.
  induction m as [|[k0 v0] m IH]; simpl.
  - reflexivity.
  - destruct (N.eqb k0 k) eqn:E0; simpl.
    + apply N.eqb_eq in E0. subst k0. destruct (N.eqb k k'); reflexivity.
    + destruct (N.eqb k0 k') eqn:E1.
      * apply N.eqb_eq in E1. subst k0. rewrite N.eqb_sym, E0. reflexivity.
      * exact IH.
Qed.

(* ---- the tree is a function of the writes: reads, refreshes and restarts never touch it
        (whatever the freshness test of the refresh is) ---- *)

Lemma d_step_tree same s o : d_tree (fst (d_step_with same s o)) = tree_apply (d_tree s) o.
Proof.
  unfold d_step_with. destruct o; cbv zeta; simpl; auto.
  - destruct (look _ _); reflexivity.
  - destruct (n_get i _) as [it|]; [destruct (look _ _)|]; reflexivity.
Qed.

Theorem dt_tree_of_writes same : forall ops s,
  d_tree (d_run_with same ops s) = fold_left tree_apply ops (d_tree s).
Proof.
  induction ops as [|o r IH]; simpl; intros; auto.
  rewrite IH, d_step_tree. reflexivity.
Qed.

Corollary dt_tree_init ops : d_tree (d_run ops d_init) = tree_of_writes ops.
Proof. apply dt_tree_of_writes. Qed.

(* ---- a read of a dashboard returns the folder info the tree determines: every state ---- *)

Lemma get_current tr det i fi cur :
  fst (get_dash tr det i) = Some fi -> info_of tr i = Some cur -> fi = cur.
Proof.
  unfold get_dash, get_dash_with, info_of.
  destruct (n_get i tr) as [it|]; try discriminate.
  destruct (it_folder it); try discriminate.
  destruct (n_get i det) as [st|]; try discriminate.
  destruct (look tr (it_parent it)) as [pf|]; try discriminate.
  destruct (finfo_eqb st (info_at tr (it_parent it) pf)) eqn:E; simpl; intros H1 H2;
    inversion H1; inversion H2; subst; auto.
  apply finfo_eqb_eq. exact E.
Qed.

Theorem dt_read_current ops i fi cur :
  fst (get_dash (d_tree (d_run ops d_init)) (d_det (d_run ops d_init)) i) = Some fi ->
  info_of (tree_of_writes ops) i = Some cur ->
  fi = cur.
Proof. rewrite <- dt_tree_init. apply get_current. Qed.

(* the details file holds what the read returned (a refresh writes exactly the current info) *)
Theorem dt_read_stores_what_it_returns tr det i fi :
  fst (get_dash tr det i) = Some fi -> n_get i (snd (get_dash tr det i)) = Some fi.
Proof.
  unfold get_dash, get_dash_with.
  destruct (n_get i tr) as [it|]; try discriminate.
  destruct (it_folder it); try discriminate.
  destruct (n_get i det) as [st|] eqn:Ed; try discriminate.
  destruct (look tr (it_parent it)) as [pf|]; simpl; try congruence.
  destruct (finfo_eqb st (info_at tr (it_parent it) pf)); simpl; intro H; inversion H; subst; auto.
  rewrite n_get_put, N.eqb_refl. reflexivity.
Qed.

(* ---- listing and folder contents: functions of the writes ---- *)

Theorem dt_list_current ops :
  snd (d_step (d_run ops d_init) ListAll) = DList (list_of (tree_of_writes ops)).
Proof. simpl. rewrite dt_tree_init. reflexivity. Qed.

Theorem dt_contents_current ops f :
  snd (d_step (d_run ops d_init) (Contents f)) = contents_of (tree_of_writes ops) f.
Proof. simpl. rewrite dt_tree_init. reflexivity. Qed.

(* ---- BEFORE THE FIX (path strings compared): the path was always current, the rest was not ---- *)

Lemma dt_tree_init_prefix ops : d_tree (d_run_prefix ops d_init) = tree_of_writes ops.
Proof. apply dt_tree_of_writes. Qed.

Theorem dt_prefix_read_path_current ops i fi cur :
  fst (get_dash_prefix (d_tree (d_run_prefix ops d_init)) (d_det (d_run_prefix ops d_init)) i) = Some fi ->
  info_of (tree_of_writes ops) i = Some cur ->
  fi_path fi = fi_path cur.
Proof.
  rewrite <- dt_tree_init_prefix. generalize (d_run_prefix ops d_init). intro s.
  unfold get_dash_prefix, get_dash_with, info_of.
  destruct (n_get i (d_tree s)) as [it|]; try discriminate.
  destruct (it_folder it); try discriminate.
  destruct (n_get i (d_det s)) as [st|]; try discriminate.
  destruct (look (d_tree s) (it_parent it)) as [pf|]; try discriminate.
  destruct (same_path st (info_at (d_tree s) (it_parent it) pf)) eqn:E; simpl; intros H1 H2;
    inversion H1; inversion H2; subst; auto.
  apply bytes_eqb_eq in E. exact E.
Qed.

Definition nm_x : name := [120].      (* "x" *)
Definition nm_y : name := [121].
Definition nm_p : name := [112].
Definition nm_D : name := [68].

(* folder x, folder p in x, dashboard D in p; x renamed y; a NEW folder x; p moved into it *)
Definition wit_crumbs : list dop :=
  [MkFolder 1 nm_x 0; MkFolder 2 nm_p 1; MkDash 3 nm_D 2;
   UpdFolder 1 (Some nm_y) None; MkFolder 4 nm_x 0; UpdFolder 2 None (Some 4)].

Theorem dt_prefix_read_breadcrumbs_refuted :
  exists ops i fi cur,
    forallb (fun o => forallb slash_free (names_of_op o)) ops = true /\
    fst (get_dash_prefix (d_tree (d_run_prefix ops d_init)) (d_det (d_run_prefix ops d_init)) i) = Some fi /\
    info_of (tree_of_writes ops) i = Some cur /\
    fi_path fi = fi_path cur /\ fi_crumbs fi <> fi_crumbs cur.
Proof.
  exists wit_crumbs, 3.
  eexists. eexists. split; [vm_compute; reflexivity|].
  split; [vm_compute; reflexivity|]. split; [vm_compute; reflexivity|].
  split; [vm_compute; reflexivity|]. vm_compute. discriminate.
Qed.

(* '/' in names: X > "a/b" > D, then X renamed "X/a" and "a/b" renamed "b" *)
Definition wit_name : list dop :=
  [MkFolder 1 [88] 0; MkFolder 2 [97; 47; 98] 1; MkDash 3 nm_D 2;
   UpdFolder 1 (Some [88; 47; 97]) None; UpdFolder 2 (Some [98]) None].

Theorem dt_prefix_read_folder_name_refuted :
  exists ops i fi cur,
    fst (get_dash_prefix (d_tree (d_run_prefix ops d_init)) (d_det (d_run_prefix ops d_init)) i) = Some fi /\
    info_of (tree_of_writes ops) i = Some cur /\
    fi_path fi = fi_path cur /\ fi_name fi <> fi_name cur.
Proof.
  exists wit_name, 3. eexists. eexists.
  split; [vm_compute; reflexivity|]. split; [vm_compute; reflexivity|].
  split; [vm_compute; reflexivity|]. vm_compute. discriminate.
Qed.

(* non-vacuity of the full-strength theorem on the two witnesses: the fixed read returns the info of
   the tree although the stored path string is the current one *)
Theorem dt_read_current_on_witnesses :
  fst (get_dash (d_tree (d_run wit_crumbs d_init)) (d_det (d_run wit_crumbs d_init)) 3) = info_of (tree_of_writes wit_crumbs) 3 /\
  info_of (tree_of_writes wit_crumbs) 3 <> None /\
  n_get 3 (d_det (d_run wit_crumbs d_init)) <> info_of (tree_of_writes wit_crumbs) 3 /\
  fst (get_dash (d_tree (d_run wit_name d_init)) (d_det (d_run wit_name d_init)) 3) = info_of (tree_of_writes wit_name) 3 /\
  n_get 3 (d_det (d_run wit_name d_init)) <> info_of (tree_of_writes wit_name) 3.
Proof.
  split; [vm_compute; reflexivity|]. split; [vm_compute; discriminate|].
  split; [vm_compute; discriminate|]. split; [vm_compute; reflexivity|]. vm_compute. discriminate.
Qed.

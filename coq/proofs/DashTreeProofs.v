(* DashTreeProofs.v — dashboards and folders as a keyed store with a tree (model: SigM.DashTree).
   The history-guard theorem dt_hist_ok_detects lives in DashTreeFreshProofs.v. *)
From SigM Require Import Base DashTree.
From SigP Require Import DashTreeFreshProofs.
From Coq Require Import Lia.
Open Scope N_scope.

(* ---- boolean equalities ---- *)

Lemma names_eqb_eq : forall a b, names_eqb a b = true -> a = b.
Proof.
  unfold names_eqb. induction a as [|[i n] a IH]; destruct b as [|[j m] b]; simpl; try discriminate; auto.
  intro H. apply andb_prop in H as [H1 H2]. apply andb_prop in H1 as [Hi Hn]. simpl in *.
  apply N.eqb_eq in Hi. apply bytes_eqb_eq in Hn. subst. f_equal. auto.
Qed.

Lemma finfo_eqb_eq a b : finfo_eqb a b = true -> a = b.
Proof.
  destruct a, b. unfold finfo_eqb. simpl. intro H.
  apply andb_prop in H as [H Hc]. apply andb_prop in H as [H Hp]. apply andb_prop in H as [Hi Hn].
  apply N.eqb_eq in Hi. apply bytes_eqb_eq in Hn. apply bytes_eqb_eq in Hp. apply names_eqb_eq in Hc.
  subst. reflexivity.
Qed.

(* ---- the tree is a function of the writes: reads, refreshes and restarts never touch it ---- *)

Theorem dt_tree_of_writes : forall ops s,
  d_tree (d_run ops s) = fold_left tree_apply ops (d_tree s).
Proof.
  induction ops as [|o r IH]; simpl; intros; auto.
  rewrite IH, d_step_tree. reflexivity.
Qed.

Corollary dt_tree_init ops : d_tree (d_run ops d_init) = tree_of_writes ops.
Proof. apply dt_tree_of_writes. Qed.

Lemma tree_apply_read o tr : is_read o = true -> tree_apply tr o = tr.
Proof. destruct o; simpl; try discriminate; auto. Qed.

Lemma d_run_app a : forall b s, d_run (a ++ b) s = d_run b (d_run a s).
Proof. induction a; simpl; intros; auto. Qed.

(* ---- path: always current, for every state ---- *)

Lemma get_path_current tr det i fi cur :
  fst (get_dash tr det i) = Some fi -> info_of tr i = Some cur -> fi_path fi = fi_path cur.
Proof.
  unfold get_dash, info_of.
  destruct (n_get i tr) as [it|]; try discriminate.
  destruct (it_folder it); try discriminate.
  destruct (n_get i det) as [st|]; try discriminate.
  destruct (look tr (it_parent it)) as [pf|]; try discriminate.
  destruct (bytes_eqb (fi_path st) (path_of tr (it_parent it))) eqn:E; simpl; intros H1 H2;
    inversion H1; inversion H2; subst; simpl; auto.
  apply bytes_eqb_eq in E. exact E.
Qed.

Theorem dt_get_path_current ops i fi cur :
  fst (get_dash (d_tree (d_run ops d_init)) (d_det (d_run ops d_init)) i) = Some fi ->
  info_of (tree_of_writes ops) i = Some cur ->
  fi_path fi = fi_path cur.
Proof. rewrite <- dt_tree_init. apply get_path_current. Qed.

(* the stored folder id is returned unless the path string changed; the whole info is current
   exactly under [detects] *)
Theorem dt_get_info_current_guarded s i fi cur :
  detects s i = true ->
  fst (get_dash (d_tree s) (d_det s) i) = Some fi ->
  info_of (d_tree s) i = Some cur ->
  fi = cur.
Proof.
  unfold detects, get_dash. intros Hd Hg Hi. rewrite Hi in Hd.
  unfold info_of in Hi.
  destruct (n_get i (d_tree s)) as [it|]; try discriminate.
  destruct (it_folder it); try discriminate.
  destruct (n_get i (d_det s)) as [st|]; try discriminate.
  destruct (look (d_tree s) (it_parent it)) as [pf|]; try discriminate.
  inversion Hi; subst cur; clear Hi. simpl in Hd.
  destruct (bytes_eqb (fi_path st) (path_of (d_tree s) (it_parent it))) eqn:E; simpl in *;
    inversion Hg; subst; auto.
  apply finfo_eqb_eq. exact Hd.
Qed.

Theorem dt_read_current_fresh_names ops i fi cur :
  hist_ok [] [] ops = true ->
  fst (get_dash (d_tree (d_run ops d_init)) (d_det (d_run ops d_init)) i) = Some fi ->
  info_of (tree_of_writes ops) i = Some cur ->
  fi = cur.
Proof.
  intros Hh Hg Hi. rewrite <- dt_tree_init in Hi.
  eapply dt_get_info_current_guarded; eauto. apply dt_hist_ok_detects. exact Hh.
Qed.

(* ---- listing and folder contents: functions of the writes ---- *)

Theorem dt_list_current ops :
  snd (d_step (d_run ops d_init) ListAll) = DList (list_of (tree_of_writes ops)).
Proof. simpl. rewrite dt_tree_init. reflexivity. Qed.

Theorem dt_contents_current ops f :
  snd (d_step (d_run ops d_init) (Contents f)) = contents_of (tree_of_writes ops) f.
Proof. simpl. rewrite dt_tree_init. reflexivity. Qed.

(* ---- after a save (or the creation) of a dashboard its whole folder info is current, and reads
        in between (of any dashboard, listings, restarts) keep it so ---- *)

Definition cur_stored (s : dstate) (i : N) : Prop :=
  forall c, info_of (d_tree s) i = Some c -> n_get i (d_det s) = Some c.

Lemma get_dash_fixed tr det i c :
  info_of tr i = Some c -> n_get i det = Some c -> get_dash tr det i = (Some c, det).
Proof.
  unfold info_of, get_dash. intros Hi Hd.
  destruct (n_get i tr) as [it|]; try discriminate.
  destruct (it_folder it); try discriminate.
  rewrite Hd.
  destruct (look tr (it_parent it)) as [pf|]; try discriminate.
  inversion Hi; subst c. simpl. rewrite bytes_eqb_refl. reflexivity.
Qed.

Lemma get_dash_keeps tr det i j :
  (forall c, info_of tr i = Some c -> n_get i det = Some c) ->
  n_get i (snd (get_dash tr det j)) = n_get i det.
Proof.
  intro Hc. destruct (N.eq_dec j i) as [->|Hne].
  - destruct (info_of tr i) as [c|] eqn:Ei.
    + rewrite (get_dash_fixed _ _ _ _ Ei (Hc _ eq_refl)). reflexivity.
    + unfold get_dash. unfold info_of in Ei.
      destruct (n_get i tr) as [it|]; auto.
      destruct (it_folder it); auto.
      destruct (n_get i det) eqn:Ed; simpl; auto.
      destruct (look tr (it_parent it)); try discriminate. simpl. congruence.
  - unfold get_dash.
    destruct (n_get j tr) as [it|]; auto.
    destruct (it_folder it); auto.
    destruct (n_get j det) as [st|]; auto.
    destruct (look tr (it_parent it)) as [pf|]; auto.
    destruct (bytes_eqb (fi_path st) (path_of tr (it_parent it))); simpl; auto.
    rewrite n_get_put. destruct (N.eqb j i) eqn:E; auto. apply N.eqb_eq in E. contradiction.
Qed.

Lemma refresh_fold_keeps tr i : forall (l : tree) det,
  (forall c, info_of tr i = Some c -> n_get i det = Some c) ->
  n_get i (fold_left (fun d kv => snd (get_dash tr d (fst kv))) l det) = n_get i det.
Proof.
  induction l as [|kv l IH]; simpl; intros det Hc; auto.
  rewrite IH.
  - apply get_dash_keeps. exact Hc.
  - intros c Hi. rewrite get_dash_keeps by exact Hc. auto.
Qed.

Lemma read_keeps_cur_stored s o i :
  is_read o = true -> cur_stored s i -> cur_stored (fst (d_step s o)) i.
Proof.
  unfold cur_stored. intros Hr Hc c.
  rewrite d_step_tree, (tree_apply_read _ _ Hr). intro Hi.
  destruct o; simpl in Hr; try discriminate; simpl.
  - rewrite get_dash_keeps; auto.
  - unfold refresh_all. rewrite refresh_fold_keeps; auto.
  - auto.
  - auto.
Qed.

Lemma reads_keep_cur_stored i : forall reads s,
  forallb is_read reads = true -> cur_stored s i -> cur_stored (d_run reads s) i.
Proof.
  induction reads as [|o r IH]; simpl; intros s Hr Hc; auto.
  apply andb_prop in Hr as [H1 H2]. apply IH; auto. apply read_keeps_cur_stored; auto.
Qed.

Lemma save_makes_cur_stored s i nm p : cur_stored (fst (d_step s (UpdDash i nm p))) i.
Proof.
  unfold cur_stored. intro c. rewrite d_step_tree. unfold d_step.
  set (tr' := tree_apply (d_tree s) (UpdDash i nm p)).
  unfold info_of.
  destruct (n_get i tr') as [it|] eqn:Et; try discriminate.
  destruct (it_folder it); try discriminate.
  destruct (look tr' (it_parent it)) as [pf|] eqn:El; try discriminate.
  intro H; inversion H; subst c. simpl. rewrite n_get_put, N.eqb_refl. reflexivity.
Qed.

Lemma create_makes_cur_stored s i nm p : cur_stored (fst (d_step s (MkDash i nm p))) i.
Proof.
  unfold cur_stored. intro c. rewrite d_step_tree. unfold d_step.
  set (tr' := tree_apply (d_tree s) (MkDash i nm p)).
  assert (Et : n_get i tr' = Some (mkItem nm false p)).
  { unfold tr'. simpl. rewrite n_get_put, N.eqb_refl. reflexivity. }
  unfold info_of. rewrite Et. simpl.
  destruct (look tr' p) as [pf|] eqn:El; try discriminate.
  intro H; inversion H; subst c. simpl. rewrite n_get_put, N.eqb_refl. reflexivity.
Qed.

Lemma cur_stored_get s i fi cur :
  cur_stored s i ->
  fst (get_dash (d_tree s) (d_det s) i) = Some fi -> info_of (d_tree s) i = Some cur -> fi = cur.
Proof.
  intros Hc Hg Hi. rewrite (get_dash_fixed _ _ _ _ Hi (Hc _ Hi)) in Hg. inversion Hg. reflexivity.
Qed.

Theorem dt_get_after_save_current ops0 i nm p reads fi cur :
  forallb is_read reads = true ->
  let s := d_run (ops0 ++ UpdDash i nm p :: reads) d_init in
  fst (get_dash (d_tree s) (d_det s) i) = Some fi ->
  info_of (d_tree s) i = Some cur ->
  fi = cur.
Proof.
  intros Hr s. subst s. rewrite d_run_app. simpl.
  apply cur_stored_get. apply reads_keep_cur_stored; auto. apply save_makes_cur_stored.
Qed.

Theorem dt_get_after_create_current ops0 i nm p reads fi cur :
  forallb is_read reads = true ->
  let s := d_run (ops0 ++ MkDash i nm p :: reads) d_init in
  fst (get_dash (d_tree s) (d_det s) i) = Some fi ->
  info_of (d_tree s) i = Some cur ->
  fi = cur.
Proof.
  intros Hr s. subst s. rewrite d_run_app. simpl.
  apply cur_stored_get. apply reads_keep_cur_stored; auto. apply create_makes_cur_stored.
Qed.

(* ---- the full statement fails: the path-string test misses changed chains ---- *)

Definition nm_x : name := [120].      (* "x" *)
Definition nm_y : name := [121].
Definition nm_p : name := [112].
Definition nm_D : name := [68].

(* folder x, folder p in x, dashboard D in p; x renamed y; a NEW folder x; p moved into it *)
Definition wit_crumbs : list dop :=
  [MkFolder 1 nm_x 0; MkFolder 2 nm_p 1; MkDash 3 nm_D 2;
   UpdFolder 1 (Some nm_y) None; MkFolder 4 nm_x 0; UpdFolder 2 None (Some 4)].

Theorem dt_get_crumbs_refuted :
  exists ops i fi cur,
    forallb (fun o => forallb slash_free (names_of_op o)) ops = true /\
    fst (get_dash (d_tree (d_run ops d_init)) (d_det (d_run ops d_init)) i) = Some fi /\
    info_of (tree_of_writes ops) i = Some cur /\
    fi_path fi = fi_path cur /\ fi_crumbs fi <> fi_crumbs cur.
Proof.
  exists wit_crumbs, 3.
  eexists. eexists. split; [vm_compute; reflexivity|].
  split; [vm_compute; reflexivity|]. split; [vm_compute; reflexivity|].
  split; [vm_compute; reflexivity|]. vm_compute. discriminate.
Qed.

(* '/' in names: X > "a/b" > D, then X renamed "X/a" and "a/b" renamed "b" *)
Definition wit_name : list dop :=
  [MkFolder 1 [88] 0; MkFolder 2 [97; 47; 98] 1; MkDash 3 nm_D 2;
   UpdFolder 1 (Some [88; 47; 97]) None; UpdFolder 2 (Some [98]) None].

Theorem dt_get_name_refuted :
  exists ops i fi cur,
    fst (get_dash (d_tree (d_run ops d_init)) (d_det (d_run ops d_init)) i) = Some fi /\
    info_of (tree_of_writes ops) i = Some cur /\
    fi_path fi = fi_path cur /\ fi_name fi <> fi_name cur.
Proof.
  exists wit_name, 3. eexists. eexists.
  split; [vm_compute; reflexivity|]. split; [vm_compute; reflexivity|].
  split; [vm_compute; reflexivity|]. vm_compute. discriminate.
Qed.

(* the history guard is satisfiable by a history that moves and renames ancestors, and the read at
   its end is a refresh that had something to notice (stored info differs from the current one) *)
Definition wit_ok : list dop :=
  [MkFolder 1 [97] 0; MkFolder 2 [98] 1; MkFolder 4 [101] 0; MkDash 3 nm_D 2;
   UpdFolder 1 (Some [99]) None; UpdFolder 2 None (Some 4)].

Theorem dt_hist_ok_satisfiable :
  hist_ok [] [] wit_ok = true /\
  n_get 3 (d_det (d_run wit_ok d_init)) <> info_of (tree_of_writes wit_ok) 3 /\
  fst (get_dash (d_tree (d_run wit_ok d_init)) (d_det (d_run wit_ok d_init)) 3) = info_of (tree_of_writes wit_ok) 3.
Proof.
  split; [vm_compute; reflexivity|]. split; [vm_compute; discriminate|]. vm_compute. reflexivity.
Qed.

(* DteProofs.v — typed comparison: implementation vs property text (C02). *)
From SigM Require Import Base Dte.
From SigP Require Import BaseProofs.
From Coq Require Import QArith Lia ZifyBool Psatz.
Open Scope Z_scope.
Local Arguments N.eqb : simpl never.
Local Arguments ceqb : simpl never.

Ltac qsimp := unfold Qltb, Qleb, Qeqb in *; simpl Qnum in *; simpl Qden in *.

Lemma QDen_pos q : 0 < QDen q.
Proof. lia. Qed.

(* ---------- integers ---------- *)
Lemma wrap_i64_id k : - two63 <= k < two63 -> wrap_i64 k = k.
Proof.
  intros H. unfold wrap_i64, two63, two64 in *.
  rewrite Z.mod_small; lia.
Qed.

Lemma zcmp_qcmp o a b : qcmp o (inject_Z a) (inject_Z b) = zcmp o a b.
Proof. destruct o; unfold qcmp, zcmp; qsimp; repeat rewrite Z.mul_1_r; reflexivity. Qed.

(* an integral rational equals its truncation *)
Lemma integral_trunc q : q_integral q = true -> Qnum q = qtrunc q * QDen q.
Proof.
  unfold q_integral, qtrunc. intros H. pose proof (QDen_pos q) as Hd.
  apply Z.eqb_eq in H.
  assert (Hdiv : Qnum q = QDen q * (Qnum q / QDen q)) by (apply Z_div_exact_full_2; lia).
  assert (Hq : Qnum q ÷ QDen q = Qnum q / QDen q).
  { rewrite Hdiv at 1. rewrite Z.mul_comm. rewrite Z.quot_mul by lia. reflexivity. }
  rewrite Hq. lia.
Qed.

Lemma qcmp_int_integral o z q t :
  0 < QDen q -> Qnum q = t * QDen q -> qcmp o (inject_Z z) q = zcmp o z t.
Proof.
  intros Hd Hn. destruct o; unfold qcmp, zcmp; qsimp; rewrite Hn; rewrite Z.mul_1_r;
    set (d := Z.pos (Qden q)) in *;
    apply eq_true_iff_eq; rewrite ?negb_true_iff, ?Z.ltb_lt, ?Z.leb_le, ?Z.eqb_eq, <- ?not_true_iff_false, ?Z.eqb_eq; nia.
Qed.

Lemma qcmp_zero_r o v q : Qeqb q 0 = true -> qcmp o v q = qcmp o v 0.
Proof.
  unfold Qeqb. simpl. rewrite Z.mul_1_r. intros H. apply Z.eqb_eq in H.
  pose proof (QDen_pos v) as Hv. pose proof (QDen_pos q) as Hq.
  destruct o; unfold qcmp; qsimp; rewrite H; simpl; rewrite ?Z.mul_1_r;
    apply eq_true_iff_eq; rewrite ?negb_true_iff, ?Z.ltb_lt, ?Z.leb_le, ?Z.eqb_eq, <- ?not_true_iff_false, ?Z.eqb_eq;
    nia.
Qed.

(* ---------- AlmostEquals ---------- *)
Lemma Qeqb_almost a b : Qeqb a b = true -> almost_equals a b = true.
Proof.
  unfold almost_equals, tol, Qminus, Qplus, Qopp. qsimp. intros H. apply Z.eqb_eq in H.
  apply andb_true_iff; split; apply Z.ltb_lt; nia.
Qed.

Lemma fcmp_guarded o r v :
  match o with Eq | Ne => Qeqb r v || negb (almost_equals r v) | _ => true end = true ->
  fcmp o r v = qcmp o r v.
Proof.
  destruct o; simpl; intros H; try reflexivity.
  - destruct (Qeqb r v) eqn:E; [ rewrite (Qeqb_almost _ _ E); reflexivity |].
    simpl in H. apply negb_true_iff in H. rewrite H. reflexivity.
  - destruct (Qeqb r v) eqn:E; [ rewrite (Qeqb_almost _ _ E); reflexivity |].
    simpl in H. apply negb_true_iff in H. rewrite H. reflexivity.
Qed.

Lemma d_float_val n o r : qcmp o r (d_float (mk_dte n)) = qcmp o r (numlit_val n).
Proof.
  destruct n as [z|q]; simpl.
  - destruct (z <? 0); reflexivity.
  - destruct (Qeqb q 0) eqn:E; simpl; [ symmetry; apply qcmp_zero_r; exact E | reflexivity ].
Qed.

Lemma almost_zero_r r q : Qeqb q 0 = true -> almost_equals r q = almost_equals r 0.
Proof.
  unfold Qeqb. simpl. rewrite Z.mul_1_r. intros H. apply Z.eqb_eq in H.
  pose proof (QDen_pos r) as Hr. pose proof (QDen_pos q) as Hq.
  unfold almost_equals, tol, Qminus, Qplus, Qopp. qsimp. rewrite H. simpl.
  apply eq_true_iff_eq. rewrite !andb_true_iff, !Z.ltb_lt.
  replace (Z.pos (Qden r * Qden q)) with (QDen r * QDen q) by lia.
  replace (Z.pos (Qden r * 1)) with (QDen r) by lia.
  nia.
Qed.

Lemma Qeqb_zero_r r q : Qeqb q 0 = true -> Qeqb r q = Qeqb r 0.
Proof. intros H. exact (qcmp_zero_r Eq r q H). Qed.

Lemma fcmp_d_float o r n : fcmp o r (d_float (mk_dte n)) = fcmp o r (numlit_val n).
Proof.
  destruct n as [z|q]; simpl.
  - destruct (z <? 0); reflexivity.
  - destruct (Qeqb q 0) eqn:E; simpl; [| reflexivity].
    destruct o; simpl; rewrite ?(almost_zero_r r q E); try reflexivity.
    + exact (eq_sym (qcmp_zero_r Lt r q E)).
    + exact (eq_sym (qcmp_zero_r Le r q E)).
    + exact (eq_sym (qcmp_zero_r Gt r q E)).
    + exact (eq_sym (qcmp_zero_r Ge r q E)).
Qed.

(* ---------- text ---------- *)
Lemma rx_of_pat_aux_nostar p acc :
  has_star p = false -> rx_of_pat_aux p acc = [RLit (rev acc ++ p)].
Proof.
  revert acc. induction p as [|c p IH]; intros acc H.
  - cbn [rx_of_pat_aux]. rewrite app_nil_r. reflexivity.
  - unfold has_star in H. cbn [existsb] in H. apply orb_false_iff in H. destruct H as [Hc Hp].
    cbn [rx_of_pat_aux]. rewrite N.eqb_sym in Hc. rewrite Hc. rewrite IH by exact Hp.
    cbn [rev]. rewrite <- app_assoc. reflexivity.
Qed.

Lemma rx_of_pat_nostar p : has_star p = false -> rx_of_pat p = [RLit p].
Proof. intros H. unfold rx_of_pat. rewrite rx_of_pat_aux_nostar by exact H. reflexivity. Qed.

Lemma ceqb_sym ci a b : ceqb ci a b = ceqb ci b a.
Proof. unfold ceqb. destruct ci; apply N.eqb_sym. Qed.

Lemma prefix_whole ci l s :
  match prefix_ceqb ci l s with Some [] => true | _ => false end = (Nat.eqb (length s) (length l) && bytes_ceqb ci s l).
Proof.
  unfold bytes_ceqb. revert s. induction l as [|a l IH]; intros s.
  - destruct s; reflexivity.
  - destruct s as [|b s]; [reflexivity|].
    cbn [prefix_ceqb length Nat.eqb list_eqb].
    rewrite (ceqb_sym ci b a). destruct (ceqb ci a b).
    + rewrite andb_true_l. apply IH.
    + rewrite andb_false_l, andb_false_r. reflexivity.
Qed.

Lemma bytes_ceqb_len ci a b : bytes_ceqb ci a b = true -> length a = length b.
Proof.
  revert b. induction a as [|x a IH]; intros [|y b]; simpl; intros H; try discriminate; try reflexivity.
  apply andb_true_iff in H. destruct H as [_ H]. f_equal. apply IH. exact H.
Qed.

Lemma glob_nostar ci p s : has_star p = false -> glob_match ci p s = str_equal ci s p.
Proof.
  intros H. unfold glob_match. rewrite rx_of_pat_nostar by exact H. simpl.
  unfold str_equal. rewrite <- prefix_whole.
  destruct (prefix_ceqb ci p s) as [[|? ?]|]; reflexivity.
Qed.

Lemma str_equal_ceqb ci s p : str_equal ci s p = bytes_ceqb ci s p.
Proof.
  unfold str_equal. destruct (bytes_ceqb ci s p) eqn:E.
  - rewrite (bytes_ceqb_len _ _ _ E). rewrite Nat.eqb_refl. reflexivity.
  - apply andb_false_r.
Qed.

Definition no_nl (s : bytes) : bool := negb (existsb (N.eqb newline) s).

Lemma prefix_suffix_no_nl ci l s s' : prefix_ceqb ci l s = Some s' -> no_nl s = true -> no_nl s' = true.
Proof.
  revert s. induction l as [|a l IH]; intros s H Hn; simpl in H.
  - inversion H; subst. exact Hn.
  - destruct s as [|b s]; [discriminate|]. destruct (ceqb ci a b); [|discriminate].
    apply (IH s H). unfold no_nl in *. cbn [existsb] in Hn. apply negb_true_iff in Hn. apply orb_false_iff in Hn.
    apply negb_true_iff. tauto.
Qed.

Lemma rx_any_nl_irrelevant k1 k2 s :
  (forall t, no_nl t = true -> k1 t = k2 t) -> no_nl s = true -> rx_any false k1 s = rx_any true k2 s.
Proof.
  intros Hk. induction s as [|c s IH]; intros Hn; simpl.
  - rewrite (Hk [] eq_refl). reflexivity.
  - rewrite (Hk _ Hn). unfold no_nl in Hn. cbn [existsb] in Hn. apply negb_true_iff in Hn. apply orb_false_iff in Hn.
    destruct Hn as [Hc Hs]. rewrite N.eqb_sym in Hc. rewrite Hc. simpl.
    rewrite IH; [reflexivity|]. unfold no_nl. rewrite Hs. reflexivity.
Qed.

Lemma rx_match_nl_irrelevant ci items : forall s, no_nl s = true -> rx_match false ci items s = rx_match true ci items s.
Proof.
  induction items as [|it items IH]; intros s Hn; simpl; [reflexivity|].
  destruct it as [l|].
  - destruct (prefix_ceqb ci l s) as [s'|] eqn:E; [|reflexivity].
    apply IH. exact (prefix_suffix_no_nl _ _ _ _ E Hn).
  - apply rx_any_nl_irrelevant; assumption.
Qed.

(* --- the prefix / suffix / contains fast path of pkg/regex is the glob on its shapes --- *)
Definition is_end (t : bytes) : bool := match t with [] => true | _ => false end.

Lemma rx_any_ext b k1 k2 s : (forall t, k1 t = k2 t) -> rx_any b k1 s = rx_any b k2 s.
Proof. intros H. induction s as [|c s IH]; simpl; rewrite H; [reflexivity|]. rewrite IH. reflexivity. Qed.

Lemma rx_any_end s : rx_any true is_end s = true.
Proof. induction s as [|c s IH]; simpl; [reflexivity|]. exact IH. Qed.

Lemma rx_match_lit_nil b ci t : rx_match b ci [RLit []] t = is_end t.
Proof. destruct t; reflexivity. Qed.

Lemma glob_prefix_shape ci w s : rx_match true ci [RLit w; RAny; RLit []] s = has_prefix ci w s.
Proof.
  unfold has_prefix. cbn [rx_match]. destruct (prefix_ceqb ci w s) as [s'|]; [|reflexivity].
  rewrite (rx_any_ext true _ is_end) by (intros t; apply (rx_match_lit_nil true ci)). apply rx_any_end.
Qed.

Lemma rx_any_contains ci w s : rx_any true (has_prefix ci w) s = contains ci w s.
Proof. induction s as [|c s IH]; simpl; [reflexivity|]. rewrite IH. reflexivity. Qed.

Lemma glob_contains_shape ci w s :
  rx_match true ci [RLit []; RAny; RLit w; RAny; RLit []] s = contains ci w s.
Proof.
  change (rx_any true (rx_match true ci [RLit w; RAny; RLit []]) s = contains ci w s).
  rewrite (rx_any_ext true _ (has_prefix ci w)) by (intros t; apply glob_prefix_shape).
  apply rx_any_contains.
Qed.

Lemma rx_any_suffix ci w s :
  rx_any true (fun t => Nat.eqb (length t) (length w) && bytes_ceqb ci t w) s = has_suffix ci w s.
Proof.
  unfold has_suffix, bytes_ceqb. induction s as [|c s IH].
  - simpl. destruct w; reflexivity.
  - cbn [rx_any orb andb]. rewrite IH. clear IH. cbn [length].
    destruct (Nat.eqb_spec (S (length s)) (length w)) as [E|E].
    + rewrite <- E. rewrite Nat.leb_refl, Nat.sub_diag. cbn [skipn andb].
      replace (Nat.leb (S (length s)) (length s)) with false by (symmetry; apply Nat.leb_gt; lia).
      cbn [andb]. rewrite orb_false_r. reflexivity.
    + cbn [andb orb]. destruct (Nat.leb_spec (length w) (length s)) as [L|L].
      * replace (Nat.leb (length w) (S (length s))) with true by (symmetry; apply Nat.leb_le; lia).
        replace (S (length s) - length w)%nat with (S (length s - length w)) by lia. reflexivity.
      * replace (Nat.leb (length w) (S (length s))) with false by (symmetry; apply Nat.leb_gt; lia).
        reflexivity.
Qed.

Lemma glob_suffix_shape ci w s : rx_match true ci [RLit []; RAny; RLit w] s = has_suffix ci w s.
Proof.
  change (rx_any true (rx_match true ci [RLit w]) s = has_suffix ci w s).
  rewrite <- rx_any_suffix. apply rx_any_ext. intros t. cbn [rx_match].
  rewrite <- prefix_whole. destruct (prefix_ceqb ci w t) as [[|? ?]|]; reflexivity.
Qed.

(* what the code evaluates for a wildcard pattern (fast path or Go regexp on the generated
   source) selects exactly the values the glob selects, on values without a newline *)
Lemma wild_impl_glob ci p s : no_nl s = true -> wild_impl ci p s = glob_match ci p s.
Proof.
  intros H. unfold wild_impl, glob_match.
  pose proof (fun items => rx_match_nl_irrelevant ci items s H) as Hgen.
  repeat match goal with
         | |- context [match ?x with _ => _ end] => destruct x
         end;
    try apply Hgen; symmetry;
    first [ apply glob_suffix_shape | apply glob_prefix_shape | apply glob_contains_shape ].
Qed.

(* ---------- declarative reading of the two matchers ---------- *)
(* s is  l0' x1 l1' x2 ... ln'  with li' equal to the literals up to case and the gaps xi arbitrary
   (any_nl) or newline-free (regex) *)
Inductive rsem (any_nl ci : bool) : list rx_item -> bytes -> Prop :=
| rs_nil : rsem any_nl ci [] []
| rs_lit l l' r s : bytes_ceqb ci l l' = true -> rsem any_nl ci r s -> rsem any_nl ci (RLit l :: r) (l' ++ s)
| rs_any x r s : any_nl = true \/ no_nl x = true -> rsem any_nl ci r s -> rsem any_nl ci (RAny :: r) (x ++ s).

Lemma prefix_ceqb_split ci l s s' :
  prefix_ceqb ci l s = Some s' -> exists l', s = l' ++ s' /\ bytes_ceqb ci l l' = true.
Proof.
  unfold bytes_ceqb. revert s. induction l as [|a l IH]; intros s H; cbn [prefix_ceqb] in H.
  - inversion H; subst. exists []. split; reflexivity.
  - destruct s as [|b s]; [discriminate|]. destruct (ceqb ci a b) eqn:E; [|discriminate].
    destruct (IH s H) as [l' [Hs Hl]]. exists (b :: l'). split; [simpl; congruence|].
    cbn [list_eqb]. rewrite E. exact Hl.
Qed.

Lemma prefix_ceqb_app ci l l' s : bytes_ceqb ci l l' = true -> prefix_ceqb ci l (l' ++ s) = Some s.
Proof.
  unfold bytes_ceqb. revert l'. induction l as [|a l IH]; intros [|b l'] H; cbn [list_eqb prefix_ceqb app] in *; try discriminate; [reflexivity|].
  apply andb_true_iff in H. destruct H as [H1 H2]. rewrite H1. apply IH. exact H2.
Qed.

Lemma rx_any_sound any_nl k s :
  rx_any any_nl k s = true -> exists x t, s = x ++ t /\ (any_nl = true \/ no_nl x = true) /\ k t = true.
Proof.
  induction s as [|c s IH]; simpl; intros H.
  - rewrite orb_false_r in H. exists [], []. repeat split; auto.
  - apply orb_true_iff in H. destruct H as [H|H].
    + exists [], (c :: s). repeat split; auto.
    + apply andb_true_iff in H. destruct H as [Hc H]. destruct (IH H) as [x [t [Hs [Hx Hk]]]].
      exists (c :: x), t. split; [simpl; congruence|]. split; [|exact Hk].
      destruct any_nl; [left; reflexivity|]. right. simpl in Hc.
      destruct Hx as [Hx|Hx]; [discriminate|].
      unfold no_nl in *. simpl. rewrite N.eqb_sym. apply negb_true_iff in Hc. rewrite Hc. exact Hx.
Qed.

Lemma rx_any_complete any_nl k x t :
  (any_nl = true \/ no_nl x = true) -> k t = true -> rx_any any_nl k (x ++ t) = true.
Proof.
  induction x as [|c x IH]; intros Hx Hk; simpl.
  - destruct t; simpl; rewrite Hk; reflexivity.
  - apply orb_true_iff. right. apply andb_true_iff. split.
    + destruct Hx as [Hx|Hx]; [rewrite Hx; reflexivity|].
      unfold no_nl in Hx. cbn [existsb] in Hx. apply negb_true_iff in Hx. apply orb_false_iff in Hx.
      destruct Hx as [Hc _]. rewrite N.eqb_sym in Hc. rewrite Hc. apply orb_true_r.
    + apply IH; [|exact Hk]. destruct Hx as [Hx|Hx]; [left; exact Hx|right].
      unfold no_nl in *. cbn [existsb] in Hx. apply negb_true_iff in Hx. apply orb_false_iff in Hx.
      apply negb_true_iff. tauto.
Qed.

Lemma rx_match_sem any_nl ci items : forall s, rx_match any_nl ci items s = true <-> rsem any_nl ci items s.
Proof.
  induction items as [|it items IH]; intros s.
  - simpl. split.
    + destruct s; [constructor|discriminate].
    + intros H. inversion H. reflexivity.
  - destruct it as [l|]; simpl.
    + split.
      * destruct (prefix_ceqb ci l s) as [s'|] eqn:E; [|discriminate]. intros H.
        destruct (prefix_ceqb_split _ _ _ _ E) as [l' [Hs Hl]]. subst s.
        constructor; [exact Hl|]. apply IH. exact H.
      * intros H. inversion H; subst. rewrite (prefix_ceqb_app _ _ _ _ H2). apply IH. assumption.
    + split.
      * intros H. destruct (rx_any_sound _ _ _ H) as [x [t [Hs [Hx Hk]]]]. subst s.
        constructor; [exact Hx|]. apply IH. exact Hk.
      * intros H. inversion H; subst. apply rx_any_complete; [assumption|]. apply IH. assumption.
Qed.

(* Go's regexp enters as a variable: on the source text SPLToRegex produces it is assumed to
   implement the fragment semantics (literal bytes, ".*" without newline, anchors, (?i)) *)
Section GoRegexp.
  Variable go_match : bytes -> bytes -> bool.     (* regexp.MustCompile(src).Match(s) *)
  Hypothesis go_fragment : forall ci p s, go_match (spl_to_regex ci p) s = rx_match false ci (rx_of_pat p) s.

  Theorem glob_regex_equiv ci p s :
    no_nl s = true -> go_match (spl_to_regex ci p) s = glob_match ci p s.
  Proof. intros H. rewrite go_fragment. apply rx_match_nl_irrelevant. exact H. Qed.
End GoRegexp.

Lemma wild_newline_refuted :
  wild_impl true [97; 42; 98]%N [97; 10; 98]%N = false /\ glob_match true [97; 42; 98]%N [97; 10; 98]%N = true.
Proof. split; vm_compute; reflexivity. Qed.

(* ---------- the comparison theorem ---------- *)
Lemma cop_ne_cases o : cop_eqb o Ne = false -> forall (P : cop -> Prop), P Eq -> P Lt -> P Le -> P Gt -> P Ge -> P o.
Proof. destruct o; simpl; intros H P; intros; try assumption; discriminate. Qed.

Theorem cmp_refines_spec_guarded ci o st l :
  stored_wf st = true -> lit_wf l = true -> cmp_guard o st l = true ->
  impl_cmp ci o st l = spec_cmp ci o st l.
Proof.
  intros Hst Hl Hg. destruct st as [z|u|r|s|b|]; destruct l as [n|p]; simpl in *.
  - (* int, number *)
    destruct n as [k|q]; simpl in *.
    + rewrite zcmp_qcmp. destruct (k <? 0) eqn:Ek; simpl; [reflexivity|].
      rewrite wrap_i64_id; [reflexivity|]. unfold two63 in *. lia.
    + apply andb_true_iff in Hg. destruct Hg as [Hi Hr].
      pose proof (integral_trunc q Hi) as Hn.
      rewrite (qcmp_int_integral o z q (qtrunc q) (QDen_pos q) Hn).
      destruct (Qeqb q 0) eqn:E0; simpl.
      * unfold Qeqb in E0. simpl in E0. rewrite Z.mul_1_r in E0. apply Z.eqb_eq in E0.
        assert (qtrunc q = 0) by (unfold qtrunc; rewrite E0; apply Z.quot_0_l; pose proof (QDen_pos q); lia).
        congruence.
      * unfold f2i64. rewrite Hr. reflexivity.
  - (* int, string *) destruct (cop_eqb o Ne); [discriminate|reflexivity].
  - (* uint, number *)
    destruct n as [k|q]; simpl in *.
    + rewrite zcmp_qcmp. destruct (k <? 0) eqn:Ek; simpl; [lia|reflexivity].
    + apply andb_true_iff in Hg. destruct Hg as [Hg Hr2]. apply andb_true_iff in Hg. destruct Hg as [Hi Hr1].
      pose proof (integral_trunc q Hi) as Hn.
      rewrite (qcmp_int_integral o u q (qtrunc q) (QDen_pos q) Hn).
      destruct (Qeqb q 0) eqn:E0; simpl.
      * unfold Qeqb in E0. simpl in E0. rewrite Z.mul_1_r in E0. apply Z.eqb_eq in E0.
        assert (qtrunc q = 0) by (unfold qtrunc; rewrite E0; apply Z.quot_0_l; pose proof (QDen_pos q); lia).
        congruence.
      * unfold f2u64. rewrite Hr1, Hr2. reflexivity.
  - destruct (cop_eqb o Ne); [discriminate|reflexivity].
  - (* float, number *)
    rewrite fcmp_d_float. apply fcmp_guarded. destruct o; try reflexivity; exact Hg.
  - destruct (cop_eqb o Ne); [discriminate|reflexivity].
  - (* string, number *) reflexivity.
  - (* string, string *)
    destruct (has_star p) eqn:Es; simpl in Hg.
    + rewrite wild_impl_glob by exact Hg. reflexivity.
    + rewrite glob_nostar by exact Es. rewrite str_equal_ceqb. reflexivity.
  - reflexivity.
  - destruct (cop_eqb o Ne); [discriminate|reflexivity].
  - destruct (cop_eqb o Ne); [discriminate|reflexivity].
  - reflexivity.
Qed.

(* CONFIRMED on the real code: integer-typed stored value against a decimal literal is compared
   with int64(literal) *)
Theorem cmp_refuted_int_vs_decimal :
  exists o z q, stored_wf (SInt z) = true /\
    impl_cmp true o (SInt z) (LNum (NLDec q)) <> spec_cmp true o (SInt z) (LNum (NLDec q)).
Proof. exists Lt, 2, (5 # 2)%Q. split; vm_compute; [reflexivity|discriminate]. Qed.

(* the other confirmed rows of the same class: n>=2.5 and n=2.5 return 2, n>-2.5 misses -2 *)
Lemma cmp_refuted_int_vs_decimal_more :
  impl_cmp true Ge (SInt 2) (LNum (NLDec (5 # 2))) = true /\ spec_cmp true Ge (SInt 2) (LNum (NLDec (5 # 2))) = false /\
  impl_cmp true Eq (SInt 2) (LNum (NLDec (5 # 2))) = true /\ spec_cmp true Eq (SInt 2) (LNum (NLDec (5 # 2))) = false /\
  impl_cmp true Gt (SInt (-2)) (LNum (NLDec (-5 # 2))) = false /\ spec_cmp true Gt (SInt (-2)) (LNum (NLDec (-5 # 2))) = true.
Proof. repeat split; vm_compute; reflexivity. Qed.

(* the tolerance of AlmostEquals: 1.00001 = 1 *)
Theorem cmp_refuted_float_tolerance :
  exists r n, impl_cmp true Eq (SFloat r) (LNum n) <> spec_cmp true Eq (SFloat r) (LNum n).
Proof. exists (100001 # 100000)%Q, (NLInt 1). vm_compute. discriminate. Qed.

(* != on an absent field, and on a number against a text literal *)
Theorem cmp_refuted_ne_absent :
  impl_cmp true Ne SAbsent (LNum (NLInt 5)) <> spec_cmp true Ne SAbsent (LNum (NLInt 5)).
Proof. vm_compute. discriminate. Qed.

(* an unsigned record against a negative literal; a literal beyond int64 against a signed record *)
Theorem cmp_refuted_width :
  impl_cmp true Lt (SUint 5) (LNum (NLInt (-1))) <> spec_cmp true Lt (SUint 5) (LNum (NLInt (-1))) /\
  impl_cmp true Lt (SInt 5) (LNum (NLInt two63)) <> spec_cmp true Lt (SInt 5) (LNum (NLInt two63)).
Proof. split; vm_compute; discriminate. Qed.

Example cmp_guard_satisfiable :
  cmp_guard Lt (SInt 2) (LNum (NLInt 3)) = true /\ cmp_guard Lt (SFloat (5 # 2)) (LNum (NLDec (5 # 2))) = true /\
  cmp_guard Eq (SFloat (5 # 2)) (LNum (NLDec (5 # 2))) = true /\ cmp_guard Eq (SInt 5) (LNum (NLDec (10 # 2))) = true /\
  cmp_guard Eq (SStr [97]%N) (LStr [97; 42]%N) = true.
Proof. repeat split; vm_compute; reflexivity. Qed.

(* ---------- the `where` stage ---------- *)
Lemma to_number_val q o v : qcmp o v (wval_q (w_number q)) = qcmp o v q.
Proof.
  unfold w_number. destruct (q_integral q) eqn:Ei; simpl; [|reflexivity].
  destruct (in_i64 (Qnum q / QDen q)); simpl; [|reflexivity].
  unfold q_integral in Ei. apply Z.eqb_eq in Ei. pose proof (QDen_pos q) as Hd. pose proof (QDen_pos v) as Hv.
  assert (Hn : Qnum q = QDen q * (Qnum q / QDen q)) by (apply Z_div_exact_full_2; lia).
  set (t := Qnum q / QDen q) in *.
  destruct o; unfold qcmp; qsimp; rewrite ?Z.mul_1_r; rewrite Hn;
    apply eq_true_iff_eq; rewrite ?negb_true_iff, ?Z.ltb_lt, ?Z.leb_le, ?Z.eqb_eq, <- ?not_true_iff_false, ?Z.eqb_eq; nia.
Qed.

Lemma qcmp_flip_args o a b :
  qcmp o a b = match o with Eq => qcmp Eq b a | Ne => qcmp Ne b a | Lt => qcmp Gt b a | Le => qcmp Ge b a | Gt => qcmp Lt b a | Ge => qcmp Le b a end.
Proof.
  destruct o; unfold qcmp; qsimp; try reflexivity.
  - rewrite Z.eqb_sym. reflexivity.
  - rewrite Z.eqb_sym. reflexivity.
Qed.

Lemma to_number_val_l q o v : qcmp o (wval_q (w_number q)) v = qcmp o q v.
Proof.
  rewrite qcmp_flip_args. rewrite (qcmp_flip_args o q v).
  destruct o; apply to_number_val.
Qed.

(* a value that is not an int64 never equals an int64 *)
Lemma float_ne_int a b :
  q_integral a && in_i64 (Qnum a / QDen a) = false ->
  q_integral b && in_i64 (Qnum b / QDen b) = true ->
  Qeqb a (inject_Z (Qnum b / QDen b)) = false.
Proof.
  intros Ea Eb. apply andb_true_iff in Eb. destruct Eb as [Eb1 Eb2].
  set (t := Qnum b / QDen b) in *.
  qsimp. rewrite Z.mul_1_r. apply Z.eqb_neq. intros H.
  assert (Hi : q_integral a = true).
  { unfold q_integral. apply Z.eqb_eq. rewrite H. apply Z.mod_mul. pose proof (QDen_pos a). lia. }
  assert (Hta : Qnum a / QDen a = t).
  { rewrite H. apply Z.div_mul. pose proof (QDen_pos a). lia. }
  rewrite Hi, Hta, Eb2 in Ea. discriminate.
Qed.

Lemma where_eqb_spec a b : where_eqb (w_number a) (w_number b) = Qeqb a b.
Proof.
  transitivity (Qeqb (wval_q (w_number a)) (wval_q (w_number b))).
  2:{ change (qcmp Eq (wval_q (w_number a)) (wval_q (w_number b)) = qcmp Eq a b).
      rewrite to_number_val. apply to_number_val_l. }
  unfold w_number.
  destruct (q_integral a && in_i64 (Qnum a / QDen a)) eqn:Ea; destruct (q_integral b && in_i64 (Qnum b / QDen b)) eqn:Eb; simpl.
  - qsimp. rewrite !Z.mul_1_r. reflexivity.
  - reflexivity.
  - symmetry. apply float_ne_int; assumption.
  - reflexivity.
Qed.

Lemma where_eqb_prefix_spec a b :
  match w_number a with WInt _ => true | WFloat _ => negb (Qeqb b 0) end = true ->
  where_eqb_prefix (w_number a) (w_number b) = Qeqb a b.
Proof.
  intros Hg. rewrite <- where_eqb_spec. unfold w_number in *.
  destruct (q_integral a && in_i64 (Qnum a / QDen a)) eqn:Ea; destruct (q_integral b && in_i64 (Qnum b / QDen b)) eqn:Eb; simpl; try reflexivity.
  (* the pre-fix code compared "0" with the literal's text *)
  apply andb_true_iff in Eb. destruct Eb as [Eb1 Eb2]. apply negb_true_iff in Hg.
  unfold q_integral in Eb1. apply Z.eqb_eq in Eb1. pose proof (QDen_pos b) as Hdb.
  assert (Hnb : Qnum b = QDen b * (Qnum b / QDen b)) by (apply Z_div_exact_full_2; lia).
  set (t := Qnum b / QDen b) in *.
  apply Z.eqb_neq. intros Ht. rewrite Ht in Hnb. unfold Qeqb in Hg. simpl in Hg. apply Z.eqb_neq in Hg. lia.
Qed.

Lemma where_num_gen (eqb : wval -> wval -> bool) o v w :
  (match o with Eq | Ne => eqb (w_number v) (w_number w) = Qeqb v w | _ => True end) ->
  match o with
  | Eq => eqb (w_number v) (w_number w) | Ne => negb (eqb (w_number v) (w_number w))
  | Lt => Qltb (wval_q (w_number v)) (wval_q (w_number w)) | Le => Qleb (wval_q (w_number v)) (wval_q (w_number w))
  | Gt => Qltb (wval_q (w_number w)) (wval_q (w_number v)) | Ge => Qleb (wval_q (w_number w)) (wval_q (w_number v))
  end = qcmp o v w.
Proof.
  intros Hg. destruct o.
  - exact Hg.
  - simpl. f_equal. exact Hg.
  - change (qcmp Lt (wval_q (w_number v)) (wval_q (w_number w)) = qcmp Lt v w). rewrite to_number_val. apply to_number_val_l.
  - change (qcmp Le (wval_q (w_number v)) (wval_q (w_number w)) = qcmp Le v w). rewrite to_number_val. apply to_number_val_l.
  - change (qcmp Gt (wval_q (w_number v)) (wval_q (w_number w)) = qcmp Gt v w). rewrite to_number_val. apply to_number_val_l.
  - change (qcmp Ge (wval_q (w_number v)) (wval_q (w_number w)) = qcmp Ge v w). rewrite to_number_val. apply to_number_val_l.
Qed.

(* in the exact-rational model the where stage compares numeric fields by value *)
Theorem where_refines_spec ci o st n v :
  stored_num st = Some v -> where_cmp o st n = Some (spec_cmp ci o st (LNum n)).
Proof.
  intros Hv.
  destruct st; simpl in Hv; try discriminate; unfold where_cmp, where_cmp_gen, spec_cmp; cbn [stored_num] in *;
    f_equal; apply where_num_gen; destruct o; try exact I; apply where_eqb_spec.
Qed.

(* PRE-FIX: by value except = / != between a field value that is not an int64 and the literal 0 *)
Theorem where_prefix_refines_spec_guarded ci o st n v :
  stored_num st = Some v -> where_prefix_guard o st n = true ->
  where_cmp_prefix o st n = Some (spec_cmp ci o st (LNum n)).
Proof.
  intros Hv Hg. unfold where_prefix_guard in Hg.
  destruct st; simpl in Hv; try discriminate; unfold where_cmp_prefix, where_cmp_gen, spec_cmp; cbn [stored_num] in *;
    f_equal; apply where_num_gen; destruct o; try exact I; apply where_eqb_prefix_spec; exact Hg.
Qed.

(* PRE-FIX, confirmed on the code before the repair: `| where x=0` kept every row whose x is not an integer *)
Theorem where_prefix_zero_refuted :
  where_cmp_prefix Eq (SFloat (5 # 2)) (NLInt 0) = Some true /\ spec_cmp true Eq (SFloat (5 # 2)) (LNum (NLInt 0)) = false.
Proof. split; vm_compute; reflexivity. Qed.

(* a comparison in the search clause and the same comparison in a later where stage agree on
   numeric fields — under the comparison guard of the search clause *)
Theorem search_where_agree_guarded ci o st n v :
  stored_num st = Some v -> stored_wf st = true -> lit_wf (LNum n) = true ->
  cmp_guard o st (LNum n) = true ->
  where_cmp o st n = Some (impl_cmp ci o st (LNum n)).
Proof.
  intros Hv Hs Hl Hg. rewrite (where_refines_spec ci o st n v Hv).
  rewrite (cmp_refines_spec_guarded ci o st (LNum n) Hs Hl Hg). reflexivity.
Qed.

Theorem search_where_refuted :
  exists o st n, where_cmp o st n <> Some (impl_cmp true o st (LNum n)).
Proof. exists Lt, (SInt 2), (NLDec (5 # 2)). vm_compute. discriminate. Qed.

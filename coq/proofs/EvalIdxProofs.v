(* EvalIdxProofs.v — the range check of substr admits only valid slices (C17). *)
From Coq Require Import List ZArith Bool Lia.
From Coq Require Import ZifyBool.
From SigM Require Import Base EvalIdx.
From SigP Require Import BaseProofs.
Open Scope Z_scope.

Lemma substr_slice_valid n start len lo hi :
  0 <= n -> substr_idx n start len = SOk lo hi -> 0 <= lo <= hi /\ hi <= n.
Proof.
  unfold substr_idx. intros Hn.
  destruct ((substr_start n start <? 0) || (n <=? substr_start n start)) eqn:E; [discriminate|].
  destruct len as [l|].
  - destruct ((l <? 0) || (n <? substr_start n start + l)) eqn:E2; [discriminate|].
    intros H. inversion H; subst. lia.
  - intros H. inversion H; subst. lia.
Qed.

Lemma substr_slice_valid_b n start len lo hi :
  0 <= n -> substr_idx n start len = SOk lo hi -> slice_valid n lo hi = true.
Proof. intros Hn H. apply substr_slice_valid in H; auto. unfold slice_valid. lia. Qed.

(* what is returned: from the start position, exactly [l] bytes, or the rest of the string *)
Lemma substr_extent n start len lo hi :
  substr_idx n start len = SOk lo hi ->
  lo = substr_start n start /\
  match len with Some l => 0 <= l /\ hi = lo + l | None => hi = n end.
Proof.
  unfold substr_idx.
  destruct ((substr_start n start <? 0) || (n <=? substr_start n start)) eqn:E; [discriminate|].
  destruct len as [l|].
  - destruct ((l <? 0) || (n <? substr_start n start + l)) eqn:E2; [discriminate|].
    intros H. inversion H; subst. lia.
  - intros H. inversion H; subst. lia.
Qed.

(* the result has the requested number of bytes *)
Lemma substr_bytes_length b start l r :
  substr_bytes b start (Some l) = Some r -> Z.of_nat (length r) = l.
Proof.
  unfold substr_bytes. destruct (substr_idx (Z.of_nat (length b)) start (Some l)) eqn:E; try discriminate.
  intros H. inversion H; subst.
  pose proof (substr_slice_valid _ _ _ _ _ (Nat2Z.is_nonneg _) E) as V.
  apply substr_extent in E. destruct E as [_ [Hl Hh]].
  rewrite firstn_length, skipn_length. lia.
Qed.

(* the end-index check agrees with the length check exactly when the length is not negative or the
   end index is negative ... *)
Lemma endcheck_agrees n start len :
  match len with Some l => 0 <= l \/ substr_start n start + l < 0 | None => True end ->
  substr_idx_endcheck n start len = substr_idx n start len.
Proof.
  unfold substr_idx_endcheck, substr_idx. intros G.
  destruct ((substr_start n start <? 0) || (n <=? substr_start n start)) eqn:E; [reflexivity|].
  destruct len as [l|]; [|reflexivity].
  destruct ((substr_start n start + l <? 0) || (n <? substr_start n start + l)) eqn:E1;
  destruct ((l <? 0) || (n <? substr_start n start + l)) eqn:E2; try reflexivity; try lia.
  f_equal. lia.
Qed.

(* ... and otherwise lets an invalid slice through: a negative length no larger than the start index *)
Lemma endcheck_refuted :
  exists n start l lo hi, 0 <= n /\ substr_idx_endcheck n start (Some l) = SOk lo hi /\
    slice_valid n lo hi = false /\ hi < lo /\ substr_idx n start (Some l) = SErrLen.
Proof. exists 8, 6, (-2), 5, 3. vm_compute. repeat split; congruence. Qed.

Definition abcde : list N := [97; 98; 99; 100; 101]%N.
Example substr_examples :
  substr_bytes abcde 2 (Some 3) = Some [98; 99; 100]%N /\
  substr_bytes abcde (-2) None = Some [100; 101]%N /\
  substr_bytes abcde 6 None = None /\
  substr_bytes abcde 3 (Some (-1)) = None.
Proof. vm_compute. auto. Qed.

(* FetchProofs.v (C03) — the block scheduler as a layout dimension: the answer of a plain search
   does not depend on how the matching records are split into blocks and segments, on the time
   ranges of the blocks (disjoint, overlapping, nested) nor on GOMAXPROCS.  Built on the
   scheduler theorems of SchedProofs (C05). *)
From Coq Require Import List Arith NArith Lia Bool Sorting.Sorted Sorting.Permutation.
From Coq Require Import ZifyN ZifyNat ZifyBool.
From SigM Require Import Base SortCmd Sched Fetch.
From SigP Require Import BaseProofs SortCmdProofs SchedProofs.
Import ListNotations.
Open Scope N_scope.

(* ---------- folds of min / max ---------- *)
Lemma fold_min_le {A} (f : A -> N) : forall l a, fold_left (fun acc x => N.min acc (f x)) l a <= a.
Proof. induction l as [|x l IH]; simpl; intros a; [lia|]. specialize (IH (N.min a (f x))). lia. Qed.

Lemma fold_min_le_in {A} (f : A -> N) : forall l a x, In x l ->
  fold_left (fun acc y => N.min acc (f y)) l a <= f x.
Proof.
  induction l as [|y l IH]; simpl; intros a x Hx; [destruct Hx|].
  destruct Hx as [<-|Hx].
  - pose proof (fold_min_le f l (N.min a (f y))). lia.
  - apply IH; assumption.
Qed.

Lemma fold_max_ge {A} (f : A -> N) : forall l a, a <= fold_left (fun acc x => N.max acc (f x)) l a.
Proof. induction l as [|x l IH]; simpl; intros a; [lia|]. specialize (IH (N.max a (f x))). lia. Qed.

Lemma fold_max_ge_in {A} (f : A -> N) : forall l a x, In x l ->
  f x <= fold_left (fun acc y => N.max acc (f y)) l a.
Proof.
  induction l as [|y l IH]; simpl; intros a x Hx; [destruct Hx|].
  destruct Hx as [<-|Hx].
  - pose proof (fold_max_ge f l (N.max a (f y))). lia.
  - apply IH; assumption.
Qed.

Lemma seg_lo_le s b : In b s -> seg_lo s <= fst (fst b).
Proof.
  destruct s as [|b0 r]; [intros []|]. simpl. intros [<-|Hb].
  - apply (fold_min_le (fun x : lblock => fst (fst x))).
  - apply (fold_min_le_in (fun x : lblock => fst (fst x))); assumption.
Qed.

Lemma seg_hi_ge s b : In b s -> snd (fst b) <= seg_hi s.
Proof. intros Hb. apply (fold_max_ge_in (fun x : lblock => snd (fst x))); assumption. Qed.

Lemma recs_lo_le rs r : In r rs -> recs_lo rs <= rts r.
Proof.
  destruct rs as [|r0 t]; [intros []|]. simpl. intros [<-|Hr].
  - apply (fold_min_le rts).
  - apply (fold_min_le_in rts); assumption.
Qed.

Lemma recs_hi_ge rs r : In r rs -> rts r <= recs_hi rs.
Proof. intros Hr. apply (fold_max_ge_in rts); assumption. Qed.

(* ---------- well-formedness ---------- *)
Lemma lblock_ok_wf b : lblock_ok b = true -> wf_block (to_block b).
Proof.
  unfold lblock_ok, wf_block, to_block. simpl. intros H. apply andb_true_iff in H as [H1 H2].
  split; [lia|]. rewrite forallb_forall in H2. apply Forall_forall. intros r Hr.
  specialize (H2 r Hr). lia.
Qed.

Lemma layout_ok_wf L : layout_ok L = true -> Forall wf_seg (to_queue L).
Proof.
  unfold layout_ok, to_queue. rewrite forallb_forall. intros H.
  apply Forall_forall. intros s Hs. apply in_map_iff in Hs as [ls [<- Hls]].
  specialize (H ls Hls). rewrite forallb_forall in H.
  unfold wf_seg, to_seg. simpl. apply Forall_forall. intros b Hb.
  apply in_map_iff in Hb as [lb [<- Hlb]]. split; [apply lblock_ok_wf; auto|].
  unfold to_block. simpl. split; [apply seg_lo_le|apply seg_hi_ge]; assumption.
Qed.

(* the summaries the writer computes from the records always give a well-formed layout:
   the premise layout_ok is satisfiable by every split of every record set *)
Lemma block_of_recs_ok rs : lblock_ok (block_of_recs rs) = true.
Proof.
  unfold lblock_ok, block_of_recs. simpl. apply andb_true_iff. split.
  - destruct rs as [|r t]; [reflexivity|].
    pose proof (recs_lo_le (r :: t) r (or_introl eq_refl)).
    pose proof (recs_hi_ge (r :: t) r (or_introl eq_refl)). lia.
  - apply forallb_forall. intros r Hr.
    pose proof (recs_lo_le rs r Hr). pose proof (recs_hi_ge rs r Hr). lia.
Qed.

Lemma layout_of_recs_ok L : layout_ok (layout_of_recs L) = true.
Proof.
  unfold layout_ok, layout_of_recs. apply forallb_forall. intros s Hs.
  apply in_map_iff in Hs as [bs [<- _]]. apply forallb_forall. intros b Hb.
  apply in_map_iff in Hb as [rs [<- _]]. apply block_of_recs_ok.
Qed.

(* ---------- the records of a layout ---------- *)
Definition lrecs (L : list lseg) : list rec := concat (map (fun s => concat (map snd s)) L).

Lemma all_recs_to_queue L : all_recs (to_queue L) = lrecs L.
Proof.
  unfold all_recs, recs_of, blocks_of, to_queue, lrecs.
  induction L as [|s L IH]; simpl; [reflexivity|].
  rewrite map_app, concat_app, IH. f_equal.
  rewrite map_map. simpl. reflexivity.
Qed.

Lemma lrecs_layout_of_recs L : lrecs (layout_of_recs L) = concat (map (@concat rec) L).
Proof.
  unfold lrecs, layout_of_recs. rewrite map_map. f_equal. apply map_ext. intros s.
  rewrite map_map. simpl. rewrite map_id. reflexivity.
Qed.

(* ---------- the answer is the specification, for every layout and every GOMAXPROCS ---------- *)
Theorem fetch_is_spec procs L : layout_ok L = true ->
  snd (run RecentFirst procs (to_queue L)) = true /\
  Permutation (fst (run RecentFirst procs (to_queue L))) (lrecs L) /\
  sorted_desc (fst (run RecentFirst procs (to_queue L))).
Proof.
  intros Hok. pose proof (run_concrete_ok procs (to_queue L) (layout_ok_wf L Hok)) as H.
  destruct (run RecentFirst procs (to_queue L)) as [out eof]. simpl.
  rewrite all_recs_to_queue in H. tauto.
Qed.

Theorem fetch_invariance p1 p2 L1 L2 :
  layout_ok L1 = true -> layout_ok L2 = true -> Permutation (lrecs L1) (lrecs L2) ->
  snd (run RecentFirst p1 (to_queue L1)) = true /\ snd (run RecentFirst p2 (to_queue L2)) = true /\
  Permutation (fst (run RecentFirst p1 (to_queue L1))) (fst (run RecentFirst p2 (to_queue L2))).
Proof.
  intros H1 H2 Hp.
  destruct (fetch_is_spec p1 L1 H1) as (E1 & P1 & _).
  destruct (fetch_is_spec p2 L2 H2) as (E2 & P2 & _).
  repeat split; auto.
  eapply Permutation_trans; [exact P1|]. eapply Permutation_trans; [exact Hp|].
  apply Permutation_sym. exact P2.
Qed.

Lemma NoDup_map_perm {A B} (f : A -> B) l1 l2 : Permutation l1 l2 -> NoDup (map f l1) -> NoDup (map f l2).
Proof. intros Hp Hn. eapply Permutation_NoDup; [apply Permutation_map; exact Hp|exact Hn]. Qed.

(* pairwise different timestamps: the very same list of hits, in the same order *)
Theorem fetch_invariance_exact p1 p2 L1 L2 :
  layout_ok L1 = true -> layout_ok L2 = true -> Permutation (lrecs L1) (lrecs L2) ->
  NoDup (map rts (lrecs L1)) ->
  fetch_answer p1 L1 = fetch_answer p2 L2 /\ snd (fetch_answer p1 L1) = true.
Proof.
  intros H1 H2 Hp Hn.
  destruct (fetch_is_spec p1 L1 H1) as (E1 & P1 & S1).
  destruct (fetch_is_spec p2 L2 H2) as (E2 & P2 & S2).
  unfold fetch_answer.
  destruct (run RecentFirst p1 (to_queue L1)) as [o1 e1].
  destruct (run RecentFirst p2 (to_queue L2)) as [o2 e2]. simpl in *. subst e1 e2.
  assert (o1 = o2).
  { apply sorted_perm_unique; auto.
    - eapply NoDup_map_perm; [apply Permutation_sym; exact P1|exact Hn].
    - eapply Permutation_trans; [exact P1|]. eapply Permutation_trans; [exact Hp|].
      apply Permutation_sym. exact P2. }
  subst o2. split; reflexivity.
Qed.

(* the same statement over bare record sets: ANY two splits into segments and blocks *)
Theorem fetch_split_invariance p1 p2 (S1 S2 : list (list (list rec))) :
  Permutation (concat (map (@concat rec) S1)) (concat (map (@concat rec) S2)) ->
  NoDup (map rts (concat (map (@concat rec) S1))) ->
  fetch_answer p1 (layout_of_recs S1) = fetch_answer p2 (layout_of_recs S2) /\
  snd (fetch_answer p1 (layout_of_recs S1)) = true.
Proof.
  intros Hp Hn. apply fetch_invariance_exact; try apply layout_of_recs_ok;
    rewrite ?lrecs_layout_of_recs; assumption.
Qed.

(* ---------- the end-of-stream test must look at the records held back ---------- *)
(* one segment, three blocks of two events per flush; the newest block also holds a late event
   with the oldest timestamp (id 0), so its time range encloses the other two *)
Definition late_layout : list lseg :=
  [[ (10, 20, [(10, 1); (20, 2)]);
     (30, 40, [(30, 3); (40, 4)]);
     (5, 60, [(50, 5); (60, 6); (5, 0)]) ]].

Theorem noflush_loses_held_back_record :
  layout_ok late_layout = true /\
  fetch_answer 2 late_layout = ([6; 5; 4; 3; 2; 1; 0], true) /\
  fetch_answer 16 late_layout = ([6; 5; 4; 3; 2; 1; 0], true) /\
  fetch_answer_noflush 16 late_layout = ([6; 5; 4; 3; 2; 1; 0], true, []) /\
  fetch_answer_noflush 2 late_layout = ([6; 5; 4; 3; 2; 1], true, [0]).
Proof. repeat split; vm_compute; reflexivity. Qed.

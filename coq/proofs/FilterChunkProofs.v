(* FilterChunkProofs.v — the search of a segment with many blocks, executed group by group and chunk by chunk, returns
   what the search of all blocks of the merged plan returns (C02).  Statements are restated in props/C02.v. *)
From SigM Require Import Base Dte Filter FilterPlan ChunkWalk FilterChunk FilterCheck.
From SigP Require Import BaseProofs FilterProofs FilterPlanProofs ChunkWalkProofs.
From Coq Require Import QArith Permutation Lia.
Open Scope Z_scope.

(* ---------- lists ---------- *)
Lemma flat_map_app_perm {A B} (f g : A -> list B) l :
  Permutation (flat_map (fun x => f x ++ g x) l) (flat_map f l ++ flat_map g l).
Proof.
  induction l as [|a l IH]; cbn; [constructor|].
  rewrite <- !app_assoc. apply Permutation_app_head.
  rewrite IH. rewrite !app_assoc. apply Permutation_app_tail. apply Permutation_app_comm.
Qed.

Lemma flat_map_nil_fun {A B} (l : list A) : flat_map (fun _ : A => @nil B) l = [].
Proof. induction l; cbn; auto. Qed.

Lemma flat_map_swap {A B C} (h : A -> B -> list C) (la : list A) (lb : list B) :
  Permutation (flat_map (fun a => flat_map (h a) lb) la) (flat_map (fun b => flat_map (fun a => h a b) la) lb).
Proof.
  induction la as [|a la IH]; cbn.
  - rewrite flat_map_nil_fun. constructor.
  - rewrite IH. symmetry. apply flat_map_app_perm.
Qed.

Lemma mem_col_In c l : mem_col c l = true <-> In c l.
Proof.
  unfold mem_col. rewrite existsb_exists. split.
  - intros [x [Hx He]]. apply N.eqb_eq in He. subst. exact Hx.
  - intros H. exists c. split; [exact H|apply N.eqb_refl].
Qed.

Lemma mem_col_false c l : mem_col c l = false <-> ~ In c l.
Proof. rewrite <- mem_col_In. destruct (mem_col c l); split; intros; congruence. Qed.

Lemma dedup_n_spec l : forall seen x, In x (dedup_n l seen) <-> In x l /\ mem_col x seen = false.
Proof.
  induction l as [|x0 r IH]; intros seen x; cbn [dedup_n].
  - cbn. tauto.
  - destruct (mem_col x0 seen) eqn:Hm.
    + rewrite IH. cbn [In]. split.
      * intros [H1 H2]. tauto.
      * intros [[H1|H1] H2]; [subst; congruence|tauto].
    + cbn [In]. rewrite IH. unfold mem_col at 1. cbn [existsb]. fold (mem_col x seen). split.
      * intros [H|[H1 H2]].
        -- subst. tauto.
        -- apply orb_false_iff in H2. tauto.
      * intros [[H|H] H2]; [left; exact H|].
        destruct (N.eqb x x0) eqn:He.
        -- apply N.eqb_eq in He. left. congruence.
        -- right. split; [exact H|]. rewrite H2. reflexivity.
Qed.

Lemma dedup_n_NoDup l : forall seen, NoDup (dedup_n l seen).
Proof.
  induction l as [|x0 r IH]; intros seen; cbn [dedup_n]; [constructor|].
  destruct (mem_col x0 seen); [apply IH|].
  constructor; [|apply IH].
  rewrite dedup_n_spec. intros [_ H]. unfold mem_col in H. cbn in H. rewrite N.eqb_refl in H. discriminate.
Qed.

Lemma lookup_b_In b p cs : lookup_b b p = Some cs -> In b (map fst p).
Proof.
  induction p as [|[k c] r IH]; cbn; [discriminate|].
  destruct (N.eqb k b) eqn:He; [apply N.eqb_eq in He; auto|auto].
Qed.

Lemma at_block_in_plan_blocks P b cs : at_block P b = Some cs -> In b (plan_blocks P).
Proof.
  destruct P as [p|]; cbn; [|discriminate]. intros H. apply dedup_n_spec. split; [eapply lookup_b_In; eauto|reflexivity].
Qed.

Lemma plan_blocks_NoDup P : NoDup (plan_blocks P).
Proof. destruct P; cbn; [apply dedup_n_NoDup|constructor]. Qed.

(* ---------- one block under a lawful batching: searched by exactly one batch ---------- *)
Lemma batches_none {B} (b : N) (g : list B) batches :
  ~ In b (concat batches) -> flat_map (fun nm : list N => if mem_col b nm then g else []) batches = [].
Proof.
  induction batches as [|nm r IH]; cbn; [auto|]. intros H.
  destruct (mem_col b nm) eqn:Hm.
  - exfalso. apply H. apply in_or_app. left. apply mem_col_In. exact Hm.
  - cbn. apply IH. intros Hin. apply H. apply in_or_app. right. exact Hin.
Qed.

Lemma batches_once {B} (b : N) (g : list B) batches :
  NoDup (concat batches) ->
  flat_map (fun nm : list N => if mem_col b nm then g else []) batches = if mem_col b (concat batches) then g else [].
Proof.
  induction batches as [|nm r IH]; cbn [flat_map concat]; [reflexivity|]. intros Hnd.
  rewrite mem_col_app.
  destruct (mem_col b nm) eqn:Hm; cbn [orb].
  - rewrite batches_none; [apply app_nil_r|].
    intros Hin. apply mem_col_In in Hm. revert Hnd Hm Hin. generalize (concat r). intros l2 Hnd Hm Hin.
    induction nm as [|x nm IHn]; [destruct Hm|].
    cbn in Hnd. inversion Hnd as [|? ? Hx Hr]; subst. destruct Hm as [->|Hm].
    + apply Hx. apply in_or_app. right. exact Hin.
    + apply IHn; assumption.
  - cbn [app]. apply IH. clear -Hnd. induction nm as [|x nm IHn]; [exact Hnd|].
    cbn in Hnd. inversion Hnd; subst. apply IHn. assumption.
Qed.

(* MAIN: whatever lawful batching hands the blocks of the merged plan to the raw search, the appended results are a
   permutation of the search of all blocks of the plan: no event lost, none returned twice *)
Theorem batched_select_perm batching cmi e tr blks :
  lawful_batching batching ->
  Permutation (batched_select batching cmi e tr blks) (plan_select cmi e tr blks).
Proof.
  intros Hl. unfold batched_select, plan_select.
  set (pe := push_not false e). set (P := plan_of cmi tr pe blks).
  destruct (Hl (plan_blocks P) (plan_blocks_NoDup P)) as [Hnd Hin].
  set (bt := batching (plan_blocks P)) in *.
  unfold search_blocks. rewrite flat_map_swap.
  erewrite flat_map_ext_in; [apply Permutation_refl|].
  intros nb _. cbn beta.
  rewrite (batches_once (fst nb) _ bt Hnd).
  destruct (mem_col (fst nb) (concat bt)) eqn:Hm; [reflexivity|].
  destruct (at_block P (fst nb)) as [cs|] eqn:Ha; [|reflexivity].
  exfalso. apply mem_col_false in Hm. apply Hm. apply Hin. eapply at_block_in_plan_blocks. exact Ha.
Qed.

(* ---------- the chunk walk of RawSearchSegmentFileWrapper is a lawful batching ---------- *)
Lemma insert_desc_perm b l : Permutation (insert_desc b l) (b :: l).
Proof.
  induction l as [|x r IH]; cbn; [apply Permutation_refl|].
  destruct (N.ltb x b); [apply Permutation_refl|].
  rewrite IH. apply perm_swap.
Qed.

Lemma sort_desc_perm l : Permutation (sort_desc l) l.
Proof.
  induction l as [|x r IH]; cbn; [constructor|]. rewrite insert_desc_perm. constructor. exact IH.
Qed.

Lemma sort_asc_perm l : Permutation (sort_asc l) l.
Proof. unfold sort_asc. rewrite <- Permutation_rev. apply sort_desc_perm. Qed.

Lemma lawful_of_perm (batching : list N -> list (list N)) :
  (forall bs, Permutation (concat (batching bs)) bs) -> lawful_batching batching.
Proof.
  intros H bs Hnd. split.
  - eapply Permutation_NoDup; [symmetry; apply H|exact Hnd].
  - intros b. split; intros Hb; eapply Permutation_in; try exact Hb; [apply H|symmetry; apply H].
Qed.

Theorem chunk_batching_lawful n asc : (1 <= n)%nat -> lawful_batching (chunk_batching n asc).
Proof.
  intros Hn. apply lawful_of_perm. intros bs. unfold chunk_batching.
  rewrite go_chunks_concat by exact Hn. destruct asc; [apply sort_asc_perm|apply sort_desc_perm].
Qed.

Theorem chunk_select_perm n asc cmi e tr blks : (1 <= n)%nat ->
  Permutation (chunk_select n asc cmi e tr blks) (plan_select cmi e tr blks).
Proof. intros Hn. apply batched_select_perm. apply chunk_batching_lawful. exact Hn. Qed.

(* with a sound micro-index check: the chunked search of a segment = the record-level search of all its records *)
Theorem chunk_select_exact n asc cmi e tr blks : (1 <= n)%nat ->
  NoDup (map fst blks) ->
  (forall a, In a (leaves (push_not false e)) -> forall nb, In nb blks -> cmi_sound_on cmi a (snd nb)) ->
  Permutation (chunk_select n asc cmi e tr blks) (impl_select e tr (all_events blks)).
Proof.
  intros Hn Hnd Hs. rewrite <- (plan_select_exact cmi e tr blks Hnd Hs). apply chunk_select_perm. exact Hn.
Qed.

(* groups (searcher) and chunks (search) composed *)
Lemma cut_groups_concat sizes : forall l, concat (cut_groups sizes l) = l.
Proof.
  induction sizes as [|k r IH]; intros l; destruct l as [|x l']; cbn [cut_groups]; try reflexivity.
  - cbn. rewrite app_nil_r. reflexivity.
  - destruct k as [|k]; [apply IH|]. cbn [concat]. rewrite IH. apply firstn_skipn.
Qed.

Theorem grouped_chunk_batching_lawful sizes n : (1 <= n)%nat -> lawful_batching (grouped_chunk_batching sizes n).
Proof.
  intros Hn. apply lawful_of_perm. intros bs. unfold grouped_chunk_batching.
  rewrite <- (cut_groups_concat sizes bs) at 2.
  induction (cut_groups sizes bs) as [|g gs IH]; cbn [flat_map concat]; [constructor|].
  rewrite concat_app. rewrite go_chunks_concat by exact Hn.
  apply Permutation_app; [apply sort_desc_perm|exact IH].
Qed.

Theorem grouped_chunk_select_exact sizes n cmi e tr blks : (1 <= n)%nat ->
  NoDup (map fst blks) ->
  (forall a, In a (leaves (push_not false e)) -> forall nb, In nb blks -> cmi_sound_on cmi a (snd nb)) ->
  Permutation (batched_select (grouped_chunk_batching sizes n) cmi e tr blks) (impl_select e tr (all_events blks)).
Proof.
  intros Hn Hnd Hs. rewrite <- (plan_select_exact cmi e tr blks Hnd Hs).
  apply batched_select_perm. apply grouped_chunk_batching_lawful. exact Hn.
Qed.

(* the set laws on the chunked search *)
Theorem chunk_or_is_union n asc cmi a b tr blks ev : (1 <= n)%nat ->
  NoDup (map fst blks) ->
  (forall x, In x (leaves (push_not false a) ++ leaves (push_not false b)) -> forall nb, In nb blks -> cmi_sound_on cmi x (snd nb)) ->
  (In ev (chunk_select n asc cmi (EOr a b) tr blks) <->
   In ev (chunk_select n asc cmi a tr blks) \/ In ev (chunk_select n asc cmi b tr blks)).
Proof.
  intros Hn Hnd Hs.
  assert (Hp : forall e, In ev (chunk_select n asc cmi e tr blks) <-> In ev (plan_select cmi e tr blks)).
  { intros e. split; apply Permutation_in; [|symmetry]; apply chunk_select_perm; exact Hn. }
  rewrite !Hp. apply plan_or_is_union; assumption.
Qed.

Theorem chunk_and_is_intersection n asc cmi a b tr blks ev : (1 <= n)%nat ->
  NoDup (map fst blks) ->
  (forall x, In x (leaves (push_not false a) ++ leaves (push_not false b)) -> forall nb, In nb blks -> cmi_sound_on cmi x (snd nb)) ->
  (In ev (chunk_select n asc cmi (EAnd a b) tr blks) <->
   In ev (chunk_select n asc cmi a tr blks) /\ In ev (chunk_select n asc cmi b tr blks)).
Proof.
  intros Hn Hnd Hs.
  assert (Hp : forall e, In ev (chunk_select n asc cmi e tr blks) <-> In ev (plan_select cmi e tr blks)).
  { intros e. split; apply Permutation_in; [|symmetry]; apply chunk_select_perm; exact Hn. }
  rewrite !Hp. apply plan_and_is_intersection; assumption.
Qed.

(* ---------- the variant with `i++` in the outer loop header ---------- *)
(* with more than n candidate blocks the block at position n of the sorted list is in no chunk: it is never searched *)
Theorem chunk_skip_block_never_searched n (bs : list N) d : (1 <= n)%nat -> NoDup bs -> (n < length bs)%nat ->
  ~ In (nth n (sort_desc bs) d) (concat (go_chunks_skip n (sort_desc bs))).
Proof.
  intros Hn Hnd Hlen. apply go_chunks_skip_loses; [exact Hn| |].
  - eapply Permutation_NoDup; [symmetry; apply sort_desc_perm|exact Hnd].
  - rewrite (Permutation_length (sort_desc_perm bs)). exact Hlen.
Qed.

(* up to n candidate blocks the variant is the code (why segments with few blocks do not tell them apart) *)
Theorem chunk_skip_same_when_small n cmi e tr blks : (1 <= n)%nat ->
  (length (plan_blocks (plan_of cmi tr (push_not false e) blks)) <= n)%nat ->
  chunk_select_skip n cmi e tr blks = chunk_select n false cmi e tr blks.
Proof.
  intros Hn Hlen. unfold chunk_select_skip, chunk_select, batched_select, chunk_batching.
  rewrite go_chunks_skip_small; [reflexivity|exact Hn|].
  rewrite (Permutation_length (sort_desc_perm _)). exact Hlen.
Qed.

(* three one-record blocks, chunks of 2, match-all: the code returns the three records, the variant loses block 0 *)
Definition ex3_blks : list blockrec :=
  [(0%N, [mkEv 0%N 10 [(8%N, SInt 0)]]); (1%N, [mkEv 1%N 11 [(8%N, SInt 1)]]); (2%N, [mkEv 2%N 12 [(8%N, SInt 2)]])].
Definition ex3_all : expr := EOr (EAtom (ATerm [] false)) (EAtom (ATerm [] true)).

Example chunk_skip_refuted :
  let tr := mkTr 0 100 in
  ids (chunk_select 2 false cmi_model ex3_all tr ex3_blks) = [1%N; 2%N; 0%N] /\
  ids (chunk_select_skip 2 cmi_model ex3_all tr ex3_blks) = [1%N; 2%N] /\
  ids (impl_select ex3_all tr (all_events ex3_blks)) = [0%N; 1%N; 2%N] /\
  check_chunk_select2 2 ex3_blks [(ex3_all, tr, [0%N; 1%N; 2%N]); (ex3_all, tr, [1%N; 2%N])] 0 = [1%nat].
Proof. repeat split; vm_compute; reflexivity. Qed.

(* FilterPlanProofs.v — the block / column plan of a search (C02): for every expression, every block
   layout and every sound micro-index check, the search executed under the merged plan (blocks
   intersected / united by JoinRequest, candidate columns united, all-column comparisons reading
   only the candidate columns of the block) returns exactly what the unplanned record-level search
   returns. *)
From SigM Require Import Base Dte Filter FilterPlan.
From SigP Require Import BaseProofs DteProofs FilterProofs.
From Coq Require Import QArith Lia ZifyBool.
Open Scope Z_scope.
Local Arguments N.eqb : simpl never.

(* ---------- non-negated leaves: restriction to candidate columns only removes matches ---------- *)
Lemma existsb_impl {A} (f g : A -> bool) l :
  (forall x, f x = true -> g x = true) -> existsb f l = true -> existsb g l = true.
Proof.
  intros H. induction l as [|x l IH]; simpl; [discriminate|].
  intros E. apply orb_true_iff in E. apply orb_true_iff. destruct E as [E|E]; [left; apply H; exact E|right; apply IH; exact E].
Qed.

Definition positive_atom (a : atom) : bool := match a with AAny _ _ neg => negb neg | _ => true end.

(* for a leaf that is not a negated all-column comparison, "matches nothing on all columns" gives the None case of
   cmi_sound_on (matches nothing on any column list) *)
Lemma impl_atom_in_le cs a ev : positive_atom a = true -> impl_atom a ev = false -> impl_atom_in cs a ev = false.
Proof.
  unfold impl_atom. destruct a as [f o l ci | w n | o l n]; cbn [positive_atom impl_atom_in]; try (intros _ H; exact H).
  intros Hn. destruct n; [discriminate|]. rewrite !Bool.xorb_false_l. intros H.
  destruct (existsb (fun kv : N * stored => col_in cs (fst kv) && impl_cmp true o (snd kv) l) (ev_fields ev)) eqn:E; [|reflexivity].
  rewrite <- H. symmetry. revert E. apply existsb_impl. intros [k v] Hk. cbn [fst snd col_in] in *.
  apply andb_true_iff in Hk. destruct Hk as [_ Hk]. exact Hk.
Qed.

(* ---------- JoinRequest as a map operation ---------- *)
Lemma mem_col_app c a b : mem_col c (a ++ b) = mem_col c a || mem_col c b.
Proof. unfold mem_col. apply existsb_app. Qed.

Lemma mem_col_union c a b : mem_col c (union_cols a b) = mem_col c a || mem_col c b.
Proof.
  unfold union_cols. rewrite mem_col_app. destruct (mem_col c a) eqn:Ea; [reflexivity|]. simpl.
  induction b as [|x b IH]; [reflexivity|]. cbn [filter].
  destruct (mem_col x a) eqn:Ex; cbn [negb].
  - rewrite IH. unfold mem_col at 2. cbn [existsb]. destruct (N.eqb c x) eqn:Ec; [|reflexivity].
    apply N.eqb_eq in Ec. subst. congruence.
  - unfold mem_col in *. cbn [existsb]. rewrite IH. reflexivity.
Qed.

(* AND: a block survives when both operands kept it; its candidate columns are united *)
Theorem lookup_join_and b p q :
  lookup_b b (join_and p q) =
  match lookup_b b p, lookup_b b q with
  | Some a, Some c => Some (union_cols a c)
  | _, _ => None
  end.
Proof.
  unfold join_and. induction p as [|[k cs] p IH]; [reflexivity|].
  cbn [flat_map fst snd lookup_b]. destruct (N.eqb k b) eqn:Ek.
  - apply N.eqb_eq in Ek. subst k. destruct (lookup_b b q) as [cq|] eqn:Eq.
    + cbn [app lookup_b]. rewrite N.eqb_refl. reflexivity.
    + cbn [app]. rewrite IH. destruct (lookup_b b p); reflexivity.
  - destruct (lookup_b k q) as [cq|]; cbn [app lookup_b]; [rewrite Ek|]; exact IH.
Qed.

Lemma lookup_app b p q : lookup_b b (p ++ q) = match lookup_b b p with Some a => Some a | None => lookup_b b q end.
Proof.
  induction p as [|[k cs] p IH]; [reflexivity|]. cbn [app lookup_b]. destruct (N.eqb k b); [reflexivity|exact IH].
Qed.

Lemma lookup_filter_other b p q :
  has_block b p = false ->
  lookup_b b (filter (fun bc : N * list N => negb (has_block (fst bc) p)) q) = lookup_b b q.
Proof.
  intros Hb. induction q as [|[k cs] q IH]; [reflexivity|]. cbn [filter fst lookup_b].
  destruct (N.eqb k b) eqn:Ek.
  - apply N.eqb_eq in Ek. subst k. rewrite Hb. cbn [negb lookup_b]. rewrite N.eqb_refl. reflexivity.
  - destruct (has_block k p); cbn [negb lookup_b]; [|rewrite Ek]; exact IH.
Qed.

(* OR: every block of either operand; the candidate columns of a block both kept are united *)
Theorem lookup_join_or b p q :
  lookup_b b (join_or p q) =
  match lookup_b b p, lookup_b b q with
  | Some a, Some c => Some (union_cols a c)
  | Some a, None => Some a
  | None, o => o
  end.
Proof.
  unfold join_or. rewrite lookup_app.
  assert (H : lookup_b b (map (fun bc : N * list N =>
                 (fst bc, match lookup_b (fst bc) q with None => snd bc | Some cq => union_cols (snd bc) cq end)) p)
              = match lookup_b b p with
                | Some a => Some match lookup_b b q with None => a | Some cq => union_cols a cq end
                | None => None
                end).
  { induction p as [|[k cs] p IH]; [reflexivity|]. cbn [map fst snd lookup_b].
    destruct (N.eqb k b) eqn:Ek; [apply N.eqb_eq in Ek; subst k; reflexivity|exact IH]. }
  rewrite H. destruct (lookup_b b p) as [a|] eqn:Ep.
  - destruct (lookup_b b q); reflexivity.
  - apply lookup_filter_other. unfold has_block. rewrite Ep. reflexivity.
Qed.

(* ---------- one block ---------- *)
Definition sub_cols (cs cs' : list N) : Prop := forall c, mem_col c cs = true -> mem_col c cs' = true.

(* what a plan entry promises for the records of a block: no entry = the expression selects none of them, whatever
   columns are read (a negated all-column comparison is not monotone in the columns); an entry =
   the expression evaluated on the listed columns, or on any larger list, selects what the unrestricted one selects *)
Definition blk_ok (tr : trange) (e : pexpr) (evs : list event) (o : option (list N)) : Prop :=
  match o with
  | None => forall cs ev, In ev evs -> sel_in cs tr e ev = false
  | Some cs => forall cs', sub_cols cs cs' -> forall ev, In ev evs -> sel_in (Some cs') tr e ev = sel tr e ev
  end.

Lemma blk_ok_of_false tr e evs o : (forall cs ev, In ev evs -> sel_in cs tr e ev = false) -> blk_ok tr e evs o.
Proof.
  intros H. destruct o as [cs|]; [|exact H]. intros cs' _ ev Hin. rewrite (H (Some cs') ev Hin). symmetry. exact (H None ev Hin).
Qed.

Lemma sub_union_l a c cs' : sub_cols (union_cols a c) cs' -> sub_cols a cs'.
Proof. intros H x Hx. apply H. rewrite mem_col_union, Hx. reflexivity. Qed.
Lemma sub_union_r a c cs' : sub_cols (union_cols a c) cs' -> sub_cols c cs'.
Proof. intros H x Hx. apply H. rewrite mem_col_union, Hx. apply orb_true_r. Qed.

Lemma sel_and cs tr a b ev : sel_in cs tr (PAnd a b) ev = sel_in cs tr a ev && sel_in cs tr b ev.
Proof. unfold sel_in. cbn [peval_in]. destruct (check_in_range tr (ev_ts ev)), (peval_in cs a ev), (peval_in cs b ev); reflexivity. Qed.
Lemma sel_or cs tr a b ev : sel_in cs tr (POr a b) ev = sel_in cs tr a ev || sel_in cs tr b ev.
Proof. unfold sel_in. cbn [peval_in]. destruct (check_in_range tr (ev_ts ev)), (peval_in cs a ev), (peval_in cs b ev); reflexivity. Qed.
Lemma sel_is_sel_in tr e ev : sel tr e ev = sel_in None tr e ev.
Proof. reflexivity. Qed.
Lemma sel_and0 tr a b ev : sel tr (PAnd a b) ev = sel tr a ev && sel tr b ev.
Proof. exact (sel_and None tr a b ev). Qed.
Lemma sel_or0 tr a b ev : sel tr (POr a b) ev = sel tr a ev || sel tr b ev.
Proof. exact (sel_or None tr a b ev). Qed.

(* the entry JoinRequest computes for a block from the entries of the two operands *)
Definition and_entry (x y : option (list N)) : option (list N) :=
  match x, y with Some a, Some c => Some (union_cols a c) | _, _ => None end.
Definition or_entry (x y : option (list N)) : option (list N) :=
  match x, y with Some a, Some c => Some (union_cols a c) | Some a, None => Some a | None, o => o end.

Lemma blk_and tr a b evs x y :
  blk_ok tr a evs x -> blk_ok tr b evs y -> blk_ok tr (PAnd a b) evs (and_entry x y).
Proof.
  intros Ha Hb. destruct x as [ca|]; [destruct y as [cb|]|]; cbn [and_entry blk_ok] in *.
  - intros cs' Hs ev Hin. rewrite sel_and, sel_and0.
    rewrite (Ha cs' (sub_union_l _ _ _ Hs) ev Hin), (Hb cs' (sub_union_r _ _ _ Hs) ev Hin). reflexivity.
  - intros cs ev Hin. rewrite sel_and. rewrite (Hb cs ev Hin). apply andb_false_r.
  - intros cs ev Hin. rewrite sel_and. rewrite (Ha cs ev Hin). reflexivity.
Qed.

Lemma blk_or tr a b evs x y :
  blk_ok tr a evs x -> blk_ok tr b evs y -> blk_ok tr (POr a b) evs (or_entry x y).
Proof.
  intros Ha Hb. destruct x as [ca|]; destruct y as [cb|]; cbn [or_entry blk_ok] in *.
  - intros cs' Hs ev Hin. rewrite sel_or, sel_or0.
    rewrite (Ha cs' (sub_union_l _ _ _ Hs) ev Hin), (Hb cs' (sub_union_r _ _ _ Hs) ev Hin). reflexivity.
  - intros cs' Hs ev Hin. rewrite sel_or, sel_or0.
    rewrite (Ha cs' Hs ev Hin), (Hb (Some cs') ev Hin). change (sel tr b ev) with (sel_in None tr b ev). rewrite (Hb None ev Hin). reflexivity.
  - intros cs' Hs ev Hin. rewrite sel_or, sel_or0.
    rewrite (Hb cs' Hs ev Hin), (Ha (Some cs') ev Hin). change (sel tr a ev) with (sel_in None tr a ev). rewrite (Ha None ev Hin). reflexivity.
  - intros cs ev Hin. rewrite sel_or. rewrite (Ha cs ev Hin), (Hb cs ev Hin). reflexivity.
Qed.

Lemma blk_and_comm tr a b evs o : blk_ok tr (PAnd a b) evs o -> blk_ok tr (PAnd b a) evs o.
Proof.
  destruct o as [cs|]; cbn [blk_ok].
  - intros H cs' Hs ev Hin. specialize (H cs' Hs ev Hin).
    rewrite sel_and, sel_and0 in *. rewrite (andb_comm (sel_in (Some cs') tr b ev)), (andb_comm (sel tr b ev)). exact H.
  - intros H cs ev Hin. specialize (H cs ev Hin). rewrite sel_and in *. rewrite andb_comm. exact H.
Qed.
Lemma blk_or_comm tr a b evs o : blk_ok tr (POr a b) evs o -> blk_ok tr (POr b a) evs o.
Proof.
  destruct o as [cs|]; cbn [blk_ok].
  - intros H cs' Hs ev Hin. specialize (H cs' Hs ev Hin).
    rewrite sel_or, sel_or0 in *. rewrite (orb_comm (sel_in (Some cs') tr b ev)), (orb_comm (sel tr b ev)). exact H.
  - intros H cs ev Hin. specialize (H cs ev Hin). rewrite sel_or in *. rewrite orb_comm. exact H.
Qed.

(* ---------- a file: every block ---------- *)
Definition plan_ok (tr : trange) (e : pexpr) (blks : list blockrec) (P : option plan) : Prop :=
  forall nb, In nb blks -> blk_ok tr e (snd nb) (at_block P (fst nb)).

Lemma at_join_and P Q b :
  at_block (join_file LAnd P Q) b =
  match P, Q with
  | None, _ => at_block Q b
  | Some _, None => at_block P b
  | Some _, Some _ => and_entry (at_block P b) (at_block Q b)
  end.
Proof. destruct P as [p|], Q as [q|]; cbn [join_file join_req at_block]; try reflexivity. apply lookup_join_and. Qed.

Lemma at_join_or P Q b :
  at_block (join_file LOr P Q) b =
  match P, Q with
  | None, _ => at_block Q b
  | Some _, None => at_block P b
  | Some _, Some _ => or_entry (at_block P b) (at_block Q b)
  end.
Proof. destruct P as [p|], Q as [q|]; cbn [join_file join_req at_block]; try reflexivity. apply lookup_join_or. Qed.

(* the merged plan of an AND condition, whichever operand was seen first; an operand without a request for the file
   (every block filtered out) leaves the other operand's plan as it is *)
Lemma plan_and tr a b blks P Q :
  plan_ok tr a blks P -> plan_ok tr b blks Q -> plan_ok tr (PAnd a b) blks (join_file LAnd P Q).
Proof.
  intros Ha Hb nb Hin. rewrite at_join_and. specialize (Ha nb Hin). specialize (Hb nb Hin).
  destruct P as [p|]; [destruct Q as [q|]|].
  - apply blk_and; assumption.
  - cbn [at_block] in Hb. apply blk_ok_of_false. intros cs ev Hev.
    rewrite sel_and. rewrite (Hb cs ev Hev). apply andb_false_r.
  - cbn [at_block] in Ha. apply blk_ok_of_false. intros cs ev Hev.
    rewrite sel_and. rewrite (Ha cs ev Hev). reflexivity.
Qed.

Lemma plan_or tr a b blks P Q :
  plan_ok tr a blks P -> plan_ok tr b blks Q -> plan_ok tr (POr a b) blks (join_file LOr P Q).
Proof.
  intros Ha Hb nb Hin. rewrite at_join_or. specialize (Ha nb Hin). specialize (Hb nb Hin).
  destruct P as [p|]; [destruct Q as [q|]|].
  - apply blk_or; assumption.
  - cbn [at_block] in Hb. replace (at_block (Some p) (fst nb)) with (or_entry (at_block (Some p) (fst nb)) None)
      by (destruct (at_block (Some p) (fst nb)); reflexivity).
    apply blk_or; assumption.
  - cbn [at_block] in Ha. change (at_block Q (fst nb)) with (or_entry None (at_block Q (fst nb))).
    apply blk_or; assumption.
Qed.

(* ---------- the leaf plan ---------- *)
Lemma ts_low_le evs ev : In ev evs -> ts_low evs <= ev_ts ev.
Proof.
  unfold ts_low. generalize (match evs with ev0 :: _ => ev_ts ev0 | [] => 0 end). intros d.
  induction evs as [|x evs IH]; [intros []|]. intros [H|H]; cbn [fold_right].
  - subst. lia.
  - specialize (IH H). lia.
Qed.
Lemma ts_high_ge evs ev : In ev evs -> ev_ts ev <= ts_high evs.
Proof.
  unfold ts_high. generalize (match evs with ev0 :: _ => ev_ts ev0 | [] => 0 end). intros d.
  induction evs as [|x evs IH]; [intros []|]. intros [H|H]; cbn [fold_right].
  - subst. lia.
  - specialize (IH H). lia.
Qed.

(* FilterBlocksByTime drops no record that is in the query range *)
Lemma block_time_pruned tr evs ev :
  block_overlaps tr evs = false -> In ev evs -> check_in_range tr (ev_ts ev) = false.
Proof.
  intros Ho Hin. destruct evs as [|x evs']; [destruct Hin|]. cbn [block_overlaps] in Ho.
  destruct (check_in_range tr (ev_ts ev)) eqn:E; [|reflexivity].
  pose proof (ts_low_le _ _ Hin). pose proof (ts_high_ge _ _ Hin).
  assert (Hr : t_start tr <= t_end tr) by (unfold check_in_range in E; lia).
  rewrite (time_prune_sound tr _ _ (ev_ts ev) Hr (conj H H0) Ho) in E. discriminate.
Qed.

Lemma lookup_flat_absent (f : blockrec -> option (list N)) blks b :
  ~ In b (map fst blks) ->
  lookup_b b (flat_map (fun x : blockrec => match f x with Some cs => [(fst x, cs)] | None => [] end) blks) = None.
Proof.
  induction blks as [|y blks IH]; intros Hnot; [reflexivity|]. cbn [flat_map]. rewrite lookup_app.
  assert (Hy : N.eqb (fst y) b = false).
  { apply N.eqb_neq. intros Heq. apply Hnot. left. exact Heq. }
  assert (Hrest : ~ In b (map fst blks)) by (intros Hc; apply Hnot; right; exact Hc).
  destruct (f y); cbn [lookup_b]; [rewrite Hy|]; apply IH; exact Hrest.
Qed.

Lemma lookup_leaf (f : blockrec -> option (list N)) blks nb :
  NoDup (map fst blks) -> In nb blks ->
  lookup_b (fst nb) (flat_map (fun x : blockrec => match f x with Some cs => [(fst x, cs)] | None => [] end) blks) = f nb.
Proof.
  induction blks as [|x blks IH]; intros Hnd Hin; [destruct Hin|].
  cbn [map] in Hnd. inversion Hnd as [|? ? Hnot Hnd']; subst. cbn [flat_map].
  rewrite lookup_app. destruct Hin as [H|H].
  - subst x. destruct (f nb) as [cs|]; cbn [lookup_b].
    + rewrite N.eqb_refl. reflexivity.
    + apply lookup_flat_absent. exact Hnot.
  - assert (Hx : N.eqb (fst x) (fst nb) = false).
    { apply N.eqb_neq. intros Heq. apply Hnot. rewrite Heq. apply in_map. exact H. }
    destruct (f x); cbn [lookup_b]; [rewrite Hx|]; apply IH; assumption.
Qed.

Lemma plan_leaf cmi tr a blks :
  NoDup (map fst blks) ->
  (forall nb, In nb blks -> cmi_sound_on cmi a (snd nb)) ->
  plan_ok tr (PAtom a) blks (leaf_plan cmi tr a blks).
Proof.
  intros Hnd Hs nb Hin. unfold leaf_plan.
  set (f := fun x : blockrec => if block_overlaps tr (snd x) then cmi a (snd x) else None).
  assert (Hp : flat_map (fun nb0 : blockrec =>
                 if block_overlaps tr (snd nb0) then match cmi a (snd nb0) with Some cs => [(fst nb0, cs)] | None => [] end else []) blks
               = flat_map (fun x : blockrec => match f x with Some cs => [(fst x, cs)] | None => [] end) blks).
  { apply flat_map_ext. intros x. unfold f. destruct (block_overlaps tr (snd x)); reflexivity. }
  rewrite Hp.
  assert (Hat : at_block (match flat_map (fun x : blockrec => match f x with Some cs => [(fst x, cs)] | None => [] end) blks with
                          | [] => None | _ :: _ => Some (flat_map (fun x : blockrec => match f x with Some cs => [(fst x, cs)] | None => [] end) blks) end)
                         (fst nb) = f nb).
  { rewrite <- (lookup_leaf f blks nb Hnd Hin).
    destruct (flat_map (fun x : blockrec => match f x with Some cs => [(fst x, cs)] | None => [] end) blks); reflexivity. }
  rewrite Hat. unfold f. specialize (Hs nb Hin). unfold cmi_sound_on in Hs.
  destruct (block_overlaps tr (snd nb)) eqn:Eo.
  - destruct (cmi a (snd nb)) as [cs|]; cbn [blk_ok].
    + intros cs' Hsub ev Hev. unfold sel_in, sel, peval. cbn [peval_in]. rewrite (Hs cs' Hsub ev Hev). reflexivity.
    + intros cs ev Hev. unfold sel_in. cbn [peval_in]. rewrite (Hs cs ev Hev). apply andb_false_r.
  - cbn [blk_ok]. intros cs ev Hev. unfold sel_in. rewrite (block_time_pruned tr _ ev Eo Hev). reflexivity.
Qed.

(* ---------- the whole tree ---------- *)
Theorem plan_of_ok cmi tr e blks :
  NoDup (map fst blks) ->
  (forall a, In a (leaves e) -> forall nb, In nb blks -> cmi_sound_on cmi a (snd nb)) ->
  plan_ok tr e blks (plan_of cmi tr e blks).
Proof.
  intros Hnd. induction e as [a | l IHl r IHr | l IHl r IHr]; intros Hs; cbn [plan_of].
  - apply plan_leaf; [exact Hnd|]. apply Hs. left. reflexivity.
  - assert (Hl := IHl (fun a Ha => Hs a (in_or_app _ _ a (or_introl Ha)))).
    assert (Hr := IHr (fun a Ha => Hs a (in_or_app _ _ a (or_intror Ha)))).
    destruct (is_atom r && negb (is_atom l)).
    + intros nb Hin. apply blk_and_comm. exact (plan_and tr r l blks _ _ Hr Hl nb Hin).
    + apply plan_and; assumption.
  - assert (Hl := IHl (fun a Ha => Hs a (in_or_app _ _ a (or_introl Ha)))).
    assert (Hr := IHr (fun a Ha => Hs a (in_or_app _ _ a (or_intror Ha)))).
    destruct (is_atom r && negb (is_atom l)).
    + intros nb Hin. apply blk_or_comm. exact (plan_or tr r l blks _ _ Hr Hl nb Hin).
    + apply plan_or; assumption.
Qed.

Lemma filter_flat_map {A B} (f : B -> bool) (g : A -> list B) l :
  filter f (flat_map g l) = flat_map (fun x => filter f (g x)) l.
Proof.
  induction l as [|x l IH]; [reflexivity|]. cbn [flat_map].
  assert (Happ : forall u v : list B, filter f (u ++ v) = filter f u ++ filter f v).
  { intros u v. induction u as [|y u IHu]; [reflexivity|]. simpl. destruct (f y); [simpl; f_equal|]; exact IHu. }
  rewrite Happ, IH. reflexivity.
Qed.

Lemma flat_map_ext_in {A B} (f g : A -> list B) l : (forall x, In x l -> f x = g x) -> flat_map f l = flat_map g l.
Proof.
  induction l as [|x l IH]; intros H; [reflexivity|]. cbn [flat_map].
  rewrite (H x (or_introl eq_refl)), IH; [reflexivity|]. intros y Hy. apply H. right. exact Hy.
Qed.

Lemma filter_none {A} (f : A -> bool) l : (forall x, In x l -> f x = false) -> filter f l = [].
Proof.
  induction l as [|x l IH]; intros H; [reflexivity|]. simpl. rewrite (H x (or_introl eq_refl)). apply IH.
  intros y Hy. apply H. right. exact Hy.
Qed.

(* MAIN: for every expression, time range and block layout, with a micro-index check that is sound for the leaves of
   the expression on the blocks, the search executed under the merged block / column plan selects exactly the records
   the unplanned search selects from all records *)
Theorem plan_select_exact cmi e tr blks :
  NoDup (map fst blks) ->
  (forall a, In a (leaves (push_not false e)) -> forall nb, In nb blks -> cmi_sound_on cmi a (snd nb)) ->
  plan_select cmi e tr blks = impl_select e tr (all_events blks).
Proof.
  intros Hnd Hs. rewrite impl_select_filter. unfold plan_select, all_events.
  rewrite filter_flat_map. apply flat_map_ext_in. intros nb Hin.
  pose proof (plan_of_ok cmi tr (push_not false e) blks Hnd Hs nb Hin) as Hb.
  destruct (at_block (plan_of cmi tr (push_not false e) blks) (fst nb)) as [cs|]; cbn [blk_ok] in Hb.
  - rewrite exec_in_pointwise, pick_map. apply filter_ext_in'. intros ev Hev.
    apply Hb; [intros c Hc; exact Hc|exact Hev].
  - symmetry. apply filter_none. exact (Hb None).
Qed.

(* A AND B / A OR B on the planned search: intersection / union of the planned results of A and of B *)
Theorem plan_or_is_union cmi a b tr blks ev :
  NoDup (map fst blks) ->
  (forall x, In x (leaves (push_not false a) ++ leaves (push_not false b)) -> forall nb, In nb blks -> cmi_sound_on cmi x (snd nb)) ->
  (In ev (plan_select cmi (EOr a b) tr blks) <-> In ev (plan_select cmi a tr blks) \/ In ev (plan_select cmi b tr blks)).
Proof.
  intros Hnd Hs.
  rewrite (plan_select_exact cmi (EOr a b) tr blks Hnd) by (cbn [push_not leaves]; exact Hs).
  rewrite (plan_select_exact cmi a tr blks Hnd) by (intros x Hx; apply Hs; apply in_or_app; left; exact Hx).
  rewrite (plan_select_exact cmi b tr blks Hnd) by (intros x Hx; apply Hs; apply in_or_app; right; exact Hx).
  apply or_is_union.
Qed.

Theorem plan_and_is_intersection cmi a b tr blks ev :
  NoDup (map fst blks) ->
  (forall x, In x (leaves (push_not false a) ++ leaves (push_not false b)) -> forall nb, In nb blks -> cmi_sound_on cmi x (snd nb)) ->
  (In ev (plan_select cmi (EAnd a b) tr blks) <-> In ev (plan_select cmi a tr blks) /\ In ev (plan_select cmi b tr blks)).
Proof.
  intros Hnd Hs.
  rewrite (plan_select_exact cmi (EAnd a b) tr blks Hnd) by (cbn [push_not leaves]; exact Hs).
  rewrite (plan_select_exact cmi a tr blks Hnd) by (intros x Hx; apply Hs; apply in_or_app; left; exact Hx).
  rewrite (plan_select_exact cmi b tr blks Hnd) by (intros x Hx; apply Hs; apply in_or_app; right; exact Hx).
  apply and_is_intersection.
Qed.

(* ---------- the union of the candidate columns is needed ---------- *)
(* JoinRequest variant that keeps the receiver's entry of a block both operands kept (no union of the names) *)
Definition join_or_keep (p q : plan) : plan :=
  p ++ filter (fun bc : N * list N => negb (has_block (fst bc) p)) q.

(* one block, status = 404 in one record and bytes = 500 in another: `404 OR 500` under the real merge returns both
   records; with the receiver's columns only, the record that matches through the other column is lost *)
Definition ex_blk : list event :=
  [mkEv 0%N 10 [(0%N, SInt 0); (1%N, SInt 404); (2%N, SInt 100000)];
   mkEv 1%N 11 [(0%N, SInt 1); (1%N, SInt 200); (2%N, SInt 500)]].
Definition ex_e : expr := EOr (EAtom (AAny Eq (LNum (NLInt 404)) false)) (EAtom (AAny Eq (LNum (NLInt 500)) false)).

Example plan_union_needed :
  let tr := mkTr 0 100 in
  let pa := leaf_plan cmi_model tr (AAny Eq (LNum (NLInt 404)) false) [(0%N, ex_blk)] in
  let pb := leaf_plan cmi_model tr (AAny Eq (LNum (NLInt 500)) false) [(0%N, ex_blk)] in
  pa = Some [(0%N, [1%N])] /\ pb = Some [(0%N, [2%N])] /\
  join_file LOr pa pb = Some [(0%N, [1%N; 2%N])] /\
  ids (plan_select cmi_model ex_e tr [(0%N, ex_blk)]) = [0%N; 1%N] /\
  ids (impl_select ex_e tr ex_blk) = [0%N; 1%N] /\
  ids (pick ex_blk (exec_in (lookup_b 0%N (join_or_keep [(0%N, [1%N])] [(0%N, [2%N])])) tr (push_not false ex_e) ex_blk)) = [0%N].
Proof. repeat split; vm_compute; reflexivity. Qed.

(* ---------- range checkers: an entry [mn, mx] that holds a matching value passes ---------- *)
Lemma pass_z_sound o l mn mx v :
  mn <= v <= mx -> zcmp o v l = true -> pass_z o l mn mx = true.
Proof. intros Hv. destruct o; unfold zcmp, pass_z; lia. Qed.

(* a negated all-column comparison keeps every block, with the columns whose range passes the positive comparison:
   `NOT 404` on the block of the example has the plan {0:[1]} and returns the record without 404 *)
Example plan_negated_leaf :
  let tr := mkTr 0 100 in
  leaf_plan cmi_model tr (AAny Eq (LNum (NLInt 404)) true) [(0%N, ex_blk)] = Some [(0%N, [1%N])] /\
  leaf_plan cmi_model tr (AAny Eq (LNum (NLInt 777777)) true) [(0%N, ex_blk)] = Some [(0%N, [])] /\
  leaf_plan cmi_model tr (AAny Eq (LNum (NLInt 777777)) false) [(0%N, ex_blk)] = None /\
  ids (plan_select cmi_model (ENot (EAtom (AAny Eq (LNum (NLInt 404)) false))) tr [(0%N, ex_blk)]) = [1%N] /\
  ids (plan_select cmi_model (ENot (EAtom (AAny Eq (LNum (NLInt 777777)) false))) tr [(0%N, ex_blk)]) = [0%N; 1%N].
Proof. repeat split; vm_compute; reflexivity. Qed.

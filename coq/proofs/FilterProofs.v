(* FilterProofs.v — search expressions: the block search state machine evaluates the
   expression record by record; NOT pushed to the leaves is the complement where the
   comparison is two-valued; time range checks (C02). *)
From SigM Require Import Base Dte Filter.
From SigP Require Import BaseProofs DteProofs.
From Coq Require Import QArith Lia ZifyBool Psatz.
Open Scope Z_scope.
Local Arguments N.eqb : simpl never.
Local Arguments ceqb : simpl never.

(* ---------- time range ---------- *)
Theorem time_range_exact tr ts :
  check_in_range tr ts = true <-> t_start tr <= ts <= t_end tr.
Proof. unfold check_in_range. lia. Qed.

Theorem overlap_iff tr earliest latest :
  t_start tr <= t_end tr -> earliest <= latest ->
  (check_range_overlap tr earliest latest = true <->
   exists ts, earliest <= ts <= latest /\ check_in_range tr ts = true).
Proof.
  intros Htr Hb. unfold check_range_overlap, check_in_range. split.
  - intros H.
    destruct ((t_start tr <=? earliest) && (earliest <=? t_end tr)) eqn:E1.
    + exists earliest. lia.
    + destruct ((t_start tr <=? latest) && (latest <=? t_end tr)) eqn:E2.
      * exists latest. lia.
      * exists (t_start tr). lia.
  - intros [ts H]. lia.
Qed.

(* a block whose [low, high] does not overlap the query range contains no record in range:
   FilterBlocksByTime never drops a matching record *)
Corollary time_prune_sound tr low high ts :
  t_start tr <= t_end tr -> low <= ts <= high ->
  check_range_overlap tr low high = false -> check_in_range tr ts = false.
Proof.
  intros Htr Hb Ho. destruct (check_in_range tr ts) eqn:E; [|reflexivity].
  assert (check_range_overlap tr low high = true) by (apply overlap_iff; [lia|lia|exists ts; split; [lia|exact E]]).
  congruence.
Qed.

(* a block that is fully enclosed skips the per-record check: every record of it is in range *)
Lemma enclosed_all_in_range tr low high ts :
  times_fully_enclosed tr low high = true -> low <= ts <= high -> check_in_range tr ts = true.
Proof. unfold times_fully_enclosed, check_in_range. lia. Qed.

(* empty query ranges: the third disjunct reports an overlap that does not exist *)
Lemma overlap_refuted_on_empty_range :
  check_range_overlap (mkTr 10 5) 0 20 = true /\ forall ts, check_in_range (mkTr 10 5) ts = false.
Proof. split; [reflexivity|]. intros ts. unfold check_in_range. simpl. lia. Qed.

(* ---------- bit vectors ---------- *)
Lemma map2_map {A B C D} (f : B -> C -> D) (g : A -> B) (h : A -> C) (l : list A) :
  map2 f (map g l) (map h l) = map (fun x => f (g x) (h x)) l.
Proof. induction l; simpl; [reflexivity|]. f_equal. exact IHl. Qed.

Lemma map2_l_map {A B C} (f : A -> B -> C) (h : A -> B) (l : list A) :
  map2 f l (map h l) = map (fun x => f x (h x)) l.
Proof. induction l; simpl; [reflexivity|]. f_equal. exact IHl. Qed.

Lemma pick_map {A} (f : A -> bool) (l : list A) : pick l (map f l) = filter f l.
Proof. induction l; simpl; [reflexivity|]. destruct (f a); rewrite IHl; reflexivity. Qed.

Definition sel_in cs tr (e : pexpr) (ev : event) : bool := check_in_range tr (ev_ts ev) && peval_in cs e ev.
Definition sel tr (e : pexpr) (ev : event) : bool := check_in_range tr (ev_ts ev) && peval e ev.

Lemma query_and_map cs tr a evs g :
  query_and_in cs tr a evs (map g evs) = map (fun ev => g ev && (check_in_range tr (ev_ts ev) && impl_atom_in cs a ev)) evs.
Proof. unfold query_and_in. apply map2_l_map. Qed.

Lemma query_or_map cs tr a evs g :
  query_or_in cs tr a evs (map g evs) =
  map (fun ev => g ev || (negb (g ev) && (check_in_range tr (ev_ts ev) && impl_atom_in cs a ev))) evs.
Proof. unfold query_or_in. apply map2_l_map. Qed.

Ltac btaut := repeat match goal with |- context [?b] => match type of b with bool => is_var b; destruct b end end; reflexivity.

(* the state machine (nested conditions first, leaf queries on the records still / not yet
   set, first search of an Or condition replaces, later ones are united) computes, for every
   expression and every list of candidate columns, the record-level evaluation restricted to
   the time range *)
Theorem exec_in_pointwise cs tr e evs : exec_in cs tr e evs = map (sel_in cs tr e) evs.
Proof.
  induction e as [a | l IHl r IHr | l IHl r IHr].
  - unfold exec_in, all_set. rewrite query_and_map. apply map_ext. intros ev. unfold sel_in. simpl. reflexivity.
  - cbn [exec_in]. unfold all_set.
    destruct l as [al | l1 l2 | l1 l2]; destruct r as [ar | r1 r2 | r1 r2]; cbn [is_atom];
      rewrite ?IHl, ?IHr, ?map2_map, ?query_and_map, ?map2_map, ?query_and_map;
      apply map_ext; intros ev; unfold sel_in; cbn [peval_in];
      repeat match goal with |- context [check_in_range ?t ?x] => generalize (check_in_range t x); intro end;
      repeat match goal with |- context [impl_atom_in ?c ?t ?x] => generalize (impl_atom_in c t x); intro end;
      repeat match goal with |- context [peval_in ?c ?t ?x] => generalize (peval_in c t x); intro end;
      btaut.
  - cbn [exec_in]. unfold all_set.
    destruct l as [al | l1 l2 | l1 l2]; destruct r as [ar | r1 r2 | r1 r2]; cbn [is_atom fst snd];
      rewrite ?IHl, ?IHr, ?map2_map, ?query_and_map, ?query_or_map, ?map2_map, ?query_and_map, ?query_or_map;
      apply map_ext; intros ev; unfold sel_in; cbn [peval_in];
      repeat match goal with |- context [check_in_range ?t ?x] => generalize (check_in_range t x); intro end;
      repeat match goal with |- context [impl_atom_in ?c ?t ?x] => generalize (impl_atom_in c t x); intro end;
      repeat match goal with |- context [peval_in ?c ?t ?x] => generalize (peval_in c t x); intro end;
      btaut.
Qed.

Theorem exec_pointwise tr e evs : exec tr e evs = map (sel tr e) evs.
Proof. exact (exec_in_pointwise None tr e evs). Qed.

Corollary impl_select_filter e tr evs :
  impl_select e tr evs = filter (sel tr (push_not false e)) evs.
Proof. unfold impl_select. rewrite exec_pointwise. apply pick_map. Qed.

(* ---------- AND / OR on result sets, for all expressions ---------- *)
Theorem and_is_intersection a b tr evs ev :
  In ev (impl_select (EAnd a b) tr evs) <-> In ev (impl_select a tr evs) /\ In ev (impl_select b tr evs).
Proof.
  rewrite !impl_select_filter, !filter_In. unfold sel. cbn [push_not peval peval_in].
  destruct (check_in_range tr (ev_ts ev)), (peval (push_not false a) ev), (peval (push_not false b) ev); simpl; intuition discriminate.
Qed.

Theorem or_is_union a b tr evs ev :
  In ev (impl_select (EOr a b) tr evs) <-> In ev (impl_select a tr evs) \/ In ev (impl_select b tr evs).
Proof.
  rewrite !impl_select_filter, !filter_In. unfold sel. cbn [push_not peval peval_in].
  destruct (check_in_range tr (ev_ts ev)), (peval (push_not false a) ev), (peval (push_not false b) ev); simpl; intuition discriminate.
Qed.

(* list form: the records of A AND B are the records of A (in order) that B also selects *)
Lemma filter_filter {A} (f g : A -> bool) l : filter g (filter f l) = filter (fun x => f x && g x) l.
Proof. induction l as [|x l IH]; simpl; [reflexivity|]. destruct (f x); simpl; [destruct (g x)|]; rewrite IH; reflexivity. Qed.

Theorem and_is_intersection_list a b tr evs :
  impl_select (EAnd a b) tr evs = impl_select b tr (impl_select a tr evs).
Proof.
  rewrite !impl_select_filter, filter_filter. apply filter_ext. intros ev. unfold sel. cbn [push_not peval peval_in].
  destruct (check_in_range tr (ev_ts ev)), (peval (push_not false a) ev), (peval (push_not false b) ev); reflexivity.
Qed.

(* ---------- IsSubWordPresent = the word-occurrence specification ---------- *)
Lemma bytes_ceqb_sym ci a b : bytes_ceqb ci a b = bytes_ceqb ci b a.
Proof.
  unfold bytes_ceqb. revert b. induction a as [|x a IH]; intros [|y b]; cbn [list_eqb]; try reflexivity.
  rewrite (ceqb_sym ci x y), IH. reflexivity.
Qed.

Lemma prefix_ceqb_firstn ci w s :
  (length w <= length s)%nat ->
  prefix_ceqb ci w s = if bytes_ceqb ci (firstn (length w) s) w then Some (skipn (length w) s) else None.
Proof.
  unfold bytes_ceqb. revert s. induction w as [|a w IH]; intros s Hl.
  - reflexivity.
  - destruct s as [|b s]; [simpl in Hl; lia|].
    cbn [length firstn skipn prefix_ceqb list_eqb]. rewrite (ceqb_sym ci b a).
    destruct (ceqb ci a b); [|reflexivity]. rewrite andb_true_l. apply IH. simpl in Hl. lia.
Qed.

Lemma prefix_ceqb_short ci w s : (length s < length w)%nat -> prefix_ceqb ci w s = None.
Proof.
  revert s. induction w as [|a w IH]; intros s Hl; [simpl in Hl; lia|].
  destruct s as [|b s]; [reflexivity|]. cbn [prefix_ceqb]. destruct (ceqb ci a b); [|reflexivity].
  apply IH. simpl in Hl. lia.
Qed.

Lemma ends_with_space_firstn s i :
  (i <= length s)%nat -> ends_with_space (firstn i s) = (Nat.eqb i 0 || is_space_at s (i - 1)).
Proof.
  intros Hi. destruct i as [|i]; [reflexivity|].
  cbn [Nat.eqb orb]. replace (S i - 1)%nat with i by lia.
  unfold ends_with_space, is_space_at.
  assert (Hs : exists c, nth_error s i = Some c).
  { destruct (nth_error s i) eqn:E; [eauto|]. apply nth_error_None in E. lia. }
  destruct Hs as [c Hc]. rewrite Hc.
  assert (Hf : firstn (S i) s = firstn i s ++ [c]).
  { clear Hi. revert i Hc. induction s as [|x s IH]; intros [|i] Hc; simpl in Hc; try discriminate.
    - inversion Hc; reflexivity.
    - assert (E := IH i Hc). change (firstn (S (S i)) (x :: s)) with (x :: firstn (S i) s). rewrite E. reflexivity. }
  rewrite Hf, rev_app_distr. reflexivity.
Qed.

Lemma starts_with_space_skipn s j :
  (j <= length s)%nat -> starts_with_space (skipn j s) = (Nat.eqb j (length s) || is_space_at s j).
Proof.
  revert j. induction s as [|x s IH]; intros j Hj.
  - simpl in Hj. assert (j = 0)%nat by lia. subst. reflexivity.
  - destruct j as [|j].
    + reflexivity.
    + cbn [skipn length Nat.eqb]. unfold is_space_at. cbn [nth_error]. apply IH. simpl in Hj. lia.
Qed.

Lemma skipn_skipn' {A} (a b : nat) (l : list A) : skipn a (skipn b l) = skipn (b + a) l.
Proof.
  revert l. induction b as [|b IH]; intros l; [reflexivity|].
  destruct l as [|x l]; [destruct a; reflexivity|]. simpl. apply IH.
Qed.

Definition sub_cond ci (hay w : bytes) (i : nat) : bool :=
  bytes_ceqb ci (firstn (length w) (skipn i hay)) w
  && (Nat.eqb i 0 || is_space_at hay (i - 1))
  && (Nat.eqb (i + length w) (length hay) || is_space_at hay (i + length w)).

Lemma subword_loop_existsb ci hay w cnt : forall i,
  subword_loop ci hay w i cnt = existsb (sub_cond ci hay w) (seq i cnt).
Proof. induction cnt as [|cnt IH]; intros i; simpl; [reflexivity|]. rewrite IH. reflexivity. Qed.

Lemma word_at_cond ci hay w i :
  (i + length w <= length hay)%nat -> word_at ci w hay i = sub_cond ci hay w i.
Proof.
  intros Hi. unfold word_at, sub_cond.
  rewrite prefix_ceqb_firstn by (rewrite skipn_length; lia).
  destruct (bytes_ceqb ci (firstn (length w) (skipn i hay)) w); [|reflexivity].
  rewrite andb_true_l. rewrite ends_with_space_firstn by lia.
  rewrite skipn_skipn'.
  rewrite starts_with_space_skipn by lia. reflexivity.
Qed.

Lemma word_at_out ci hay w i : (i <= length hay)%nat -> (length hay < i + length w)%nat -> word_at ci w hay i = false.
Proof.
  intros Hi0 Hi. unfold word_at. rewrite prefix_ceqb_short; [reflexivity|]. rewrite skipn_length. lia.
Qed.

Lemma existsb_all_false {A} (f : A -> bool) l : (forall x, In x l -> f x = false) -> existsb f l = false.
Proof.
  induction l as [|x l IH]; intros H; simpl; [reflexivity|].
  rewrite (H x (or_introl eq_refl)). apply IH. intros y Hy. apply H. right. exact Hy.
Qed.

Lemma existsb_ext_in {A} (f g : A -> bool) l : (forall x, In x l -> f x = g x) -> existsb f l = existsb g l.
Proof.
  induction l as [|x l IH]; intros H; simpl; [reflexivity|].
  rewrite (H x (or_introl eq_refl)). f_equal. apply IH. intros y Hy. apply H. right. exact Hy.
Qed.

(* the loop of IsSubWordPresent (slices, index arithmetic, neighbour bytes) finds exactly the
   occurrences of the word delimited by spaces or the ends of the value *)
Theorem is_subword_spec ci hay w : is_subword ci hay w = word_occurs ci w hay.
Proof.
  unfold is_subword, word_occurs. destruct (Nat.ltb (length hay) (length w)) eqn:El.
  - apply Nat.ltb_lt in El. symmetry. apply existsb_all_false. intros i Hi. apply in_seq in Hi. apply word_at_out; lia.
  - apply Nat.ltb_ge in El. rewrite subword_loop_existsb.
    set (k := (length hay - length w)%nat).
    replace (S (length hay)) with (S k + length w)%nat by lia.
    rewrite seq_app, existsb_app.
    rewrite (existsb_all_false (word_at ci w hay) (seq (0 + S k) (length w))).
    2:{ intros i Hi. apply in_seq in Hi. apply word_at_out; lia. }
    rewrite orb_false_r. apply existsb_ext_in. intros i Hi. apply in_seq in Hi.
    symmetry. apply word_at_cond. lia.
Qed.

(* ---------- NOT pushed to the leaves ---------- *)
Lemma field_wf f ev : ev_wf ev = true -> stored_wf (field f ev) = true.
Proof.
  unfold ev_wf, field. induction (ev_fields ev) as [|[k v] l IH]; intros H; cbn [lookup].
  - reflexivity.
  - cbn [forallb snd] in H. apply andb_true_iff in H. destruct H as [H1 H2].
    destruct (k =? f)%N; [exact H1|apply IH; exact H2].
Qed.

Lemma qcmp_flip o a b : qcmp (flip o) a b = negb (qcmp o a b).
Proof.
  destruct o; unfold qcmp, flip, Qltb, Qleb, Qeqb; rewrite ?negb_involutive; try reflexivity;
    apply eq_true_iff_eq; rewrite ?negb_true_iff, ?Z.ltb_lt, ?Z.leb_le, <- ?not_true_iff_false, ?Z.ltb_lt, ?Z.leb_le; lia.
Qed.

Lemma spec_cmp_flip ci o st l :
  comparable o st l = true -> spec_cmp ci (flip o) st l = negb (spec_cmp ci o st l).
Proof.
  destruct st, l; simpl; intros H; try discriminate; try apply qcmp_flip.
  destruct o; simpl in *; try discriminate; rewrite ?negb_involutive; reflexivity.
Qed.

Lemma text_fields_any_ext p q ev : (forall s, p s = q s) -> text_fields_any p ev = text_fields_any q ev.
Proof.
  intros H. unfold text_fields_any. induction (ev_fields ev) as [|[k v] l IH]; simpl; [reflexivity|].
  rewrite IH. destruct v; try reflexivity. rewrite H. reflexivity.
Qed.

Lemma any_refines o l fs :
  forallb (fun kv : N * stored => stored_wf (snd kv)) fs = true -> lit_wf l = true ->
  forallb (fun kv : N * stored => cmp_guard o (snd kv) l) fs = true ->
  existsb (fun kv : N * stored => col_in None (fst kv) && impl_cmp true o (snd kv) l) fs
  = existsb (fun kv : N * stored => spec_cmp true o (snd kv) l) fs.
Proof.
  intros Hw Hl Hg. induction fs as [|[k v] fs IH]; [reflexivity|].
  cbn [forallb existsb fst snd col_in andb] in *.
  apply andb_true_iff in Hw, Hg. destruct Hw as [Hw1 Hw2], Hg as [Hg1 Hg2].
  rewrite (cmp_refines_spec_guarded true o v l Hw1 Hl Hg1), IH by assumption. reflexivity.
Qed.

Lemma atom_refines neg a ev :
  ev_wf ev = true -> atom_wf a = true -> atom_guard neg a ev = true ->
  impl_atom (if neg then neg_atom a else a) ev = xorb neg (spec_atom a ev).
Proof.
  intros Hev Ha Hg. destruct a as [f o l ci | w n | o l n].
  - simpl in Ha, Hg. apply andb_true_iff in Hg. destruct Hg as [Hg Hc].
    pose proof (field_wf f ev Hev) as Hf.
    destruct neg; simpl.
    + unfold impl_atom; simpl. rewrite (cmp_refines_spec_guarded ci (flip o) _ l Hf Ha Hg).
      rewrite spec_cmp_flip by exact Hc. destruct (spec_cmp ci o (field f ev) l); reflexivity.
    + unfold impl_atom; simpl. rewrite (cmp_refines_spec_guarded ci o _ l Hf Ha Hg).
      destruct (spec_cmp ci o (field f ev) l); reflexivity.
  - destruct neg; unfold impl_atom; simpl;
      rewrite (text_fields_any_ext _ (word_occurs true w) ev) by (intros s; apply is_subword_spec);
      destruct n, (text_fields_any (word_occurs true w) ev); reflexivity.
  - cbn [atom_guard atom_wf] in *.
    destruct neg; unfold impl_atom; cbn [neg_atom impl_atom_in spec_atom];
      rewrite (any_refines o l (ev_fields ev) Hev Ha Hg); destruct n, (existsb _ _); reflexivity.
Qed.

(* deMorgansLaw + record-level evaluation = the expression, negated when under an odd number
   of NOTs — where every comparison under negation is two-valued on the event *)
Theorem push_not_refines e : forall neg ev,
  ev_wf ev = true -> expr_wf e = true -> expr_guard neg e ev = true ->
  peval (push_not neg e) ev = xorb neg (spec_eval e ev).
Proof.
  induction e as [a | a IHa b IHb | a IHa b IHb | a IHa]; intros neg ev Hev Hw Hg; cbn [push_not spec_eval].
  - cbn [peval peval_in]. apply atom_refines; assumption.
  - cbn [expr_wf expr_guard] in *. apply andb_true_iff in Hw, Hg. destruct Hw, Hg.
    destruct neg; unfold peval in *; cbn [peval_in]; rewrite IHa, IHb by assumption;
      destruct (spec_eval a ev), (spec_eval b ev); reflexivity.
  - cbn [expr_wf expr_guard] in *. apply andb_true_iff in Hw, Hg. destruct Hw, Hg.
    destruct neg; unfold peval in *; cbn [peval_in]; rewrite IHa, IHb by assumption;
      destruct (spec_eval a ev), (spec_eval b ev); reflexivity.
  - cbn [expr_wf expr_guard] in *. rewrite IHa by assumption.
    destruct neg, (spec_eval a ev); reflexivity.
Qed.

(* ---------- the main statement ---------- *)
Lemma filter_ext_in' {A} (f g : A -> bool) l : (forall x, In x l -> f x = g x) -> filter f l = filter g l.
Proof.
  induction l as [|x l IH]; intros H; simpl; [reflexivity|].
  rewrite (H x (or_introl eq_refl)). rewrite IH; [reflexivity|]. intros y Hy. apply H. right. exact Hy.
Qed.

Theorem select_exact_guarded e tr evs :
  expr_wf e = true ->
  (forall ev, In ev evs -> ev_wf ev = true /\ expr_guard false e ev = true) ->
  impl_select e tr evs = spec_select e tr evs.
Proof.
  intros Hw H. rewrite impl_select_filter. unfold spec_select. apply filter_ext_in'. intros ev Hin.
  destruct (H ev Hin) as [Hev Hg]. unfold sel. rewrite (push_not_refines e false ev Hev Hw Hg). destruct (spec_eval e ev); reflexivity.
Qed.

(* NOT selects the complement (among the records in the time range) — guarded *)
Theorem not_is_complement a tr evs :
  expr_wf a = true ->
  (forall ev, In ev evs -> ev_wf ev = true /\ expr_guard false a ev = true /\ expr_guard true a ev = true) ->
  forall ev, In ev (impl_select (ENot a) tr evs) <->
             In ev evs /\ check_in_range tr (ev_ts ev) = true /\ ~ In ev (impl_select a tr evs).
Proof.
  intros Hw H ev. rewrite !impl_select_filter, !filter_In. unfold sel. cbn [push_not negb].
  split.
  - intros [Hin Hs]. destruct (H ev Hin) as [Hev [Hg0 Hg1]].
    rewrite (push_not_refines a true ev Hev Hw Hg1) in Hs.
    split; [exact Hin|]. apply andb_true_iff in Hs. destruct Hs as [Ht Hs]. split; [exact Ht|].
    intros [_ Hc]. rewrite (push_not_refines a false ev Hev Hw Hg0) in Hc.
    destruct (spec_eval a ev); simpl in *; [discriminate|]. rewrite andb_false_r in Hc. discriminate.
  - intros [Hin [Ht Hn]]. destruct (H ev Hin) as [Hev [Hg0 Hg1]]. split; [exact Hin|].
    rewrite (push_not_refines a true ev Hev Hw Hg1). rewrite Ht. simpl.
    destruct (spec_eval a ev) eqn:E; [|reflexivity]. exfalso. apply Hn. split; [exact Hin|].
    rewrite (push_not_refines a false ev Hev Hw Hg0). rewrite Ht, E. reflexivity.
Qed.

(* without the guard: a record that lacks the field is in neither  n>2  nor  NOT n>2 *)
Theorem not_complement_refuted :
  exists a tr evs ev, In ev evs /\ check_in_range tr (ev_ts ev) = true /\
    ~ In ev (impl_select a tr evs) /\ ~ In ev (impl_select (ENot a) tr evs).
Proof.
  exists (EAtom (ACmp 1%N Gt (LNum (NLInt 2)) true)), (mkTr 0 10), [mkEv 7%N 5 []], (mkEv 7%N 5 []).
  split; [left; reflexivity|]. split; [reflexivity|]. split; vm_compute; tauto.
Qed.

(* NOT on an all-column comparison is the complement, for every operator, literal and record list (no guard): the
   operator is kept and the record-level result negated (SearchQuery.IsNegated) *)
Theorem not_allcolumn_is_complement o l n tr evs ev :
  In ev (impl_select (ENot (EAtom (AAny o l n))) tr evs) <->
  In ev evs /\ check_in_range tr (ev_ts ev) = true /\ ~ In ev (impl_select (EAtom (AAny o l n)) tr evs).
Proof.
  rewrite !impl_select_filter, !filter_In. unfold sel, peval. cbn [push_not negb neg_atom peval_in impl_atom_in].
  destruct (check_in_range tr (ev_ts ev)), n,
    (existsb (fun kv : N * stored => col_in None (fst kv) && impl_cmp true o (snd kv) l) (ev_fields ev));
    simpl; intuition discriminate.
Qed.

Example expr_guard_satisfiable :
  let e := ENot (EOr (EAtom (ACmp 1%N Gt (LNum (NLInt 2)) true)) (EAtom (ACmp 2%N Eq (LStr [97; 42]%N) true))) in
  let ev := mkEv 0%N 5 [(1%N, SInt 3); (2%N, SStr [65; 98]%N)] in
  expr_guard false e ev = true /\ ev_wf ev = true /\ expr_wf e = true /\ spec_eval e ev = false.
Proof. repeat split; vm_compute; reflexivity. Qed.

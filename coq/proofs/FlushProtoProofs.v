(* FlushProtoProofs.v — crash safety of the flush/rotate protocol model:
   after ANY prefix of the system calls of ANY history, what a restart makes searchable is
   exactly the blocks of the completed flushes plus, possibly, the whole block of the flush in
   progress. *)
From Coq Require Import Lia.
From SigM Require Import Base FlushProto.
Open Scope nat_scope.

Definition segvis (x : segst) (s : nat) : list (nat * nat) :=
  match sfm x with
  | Valid _ => map (pair s) (seq 0 (bsu x))
  | _ => []
  end.

(* ---------- per-segment view of a step ---------- *)
Definition target (o : fop) : nat :=
  match o with
  | ColWrite s | BsuAppend s | SstWrite s | SstRename s | SfmTmpTrunc s | SfmTmpWrite s _
  | SfmRename s | SfmTruncate s | SfmWriteInPlace s _ | SfmUnlink s | SegmetaAppend s | PqmrWrite s => s
  end.

Definition sstep (x : segst) (o : fop) : segst :=
  match o with
  | ColWrite _ | SstWrite _ | SstRename _ | SegmetaAppend _ | PqmrWrite _ => x
  | BsuAppend _ => {| bsu := S (bsu x); sfm := sfm x; tmp := tmp x |}
  | SfmTmpTrunc _ => {| bsu := bsu x; sfm := sfm x; tmp := Invalid |}
  | SfmTmpWrite _ nb => {| bsu := bsu x; sfm := sfm x; tmp := Valid nb |}
  | SfmRename _ => {| bsu := bsu x; sfm := tmp x; tmp := NoFile |}
  | SfmTruncate _ => {| bsu := bsu x; sfm := Invalid; tmp := tmp x |}
  | SfmWriteInPlace _ nb => {| bsu := bsu x; sfm := Valid nb; tmp := tmp x |}
  | SfmUnlink _ => {| bsu := bsu x; sfm := NoFile; tmp := tmp x |}
  end.

Lemma segst_eta x : {| bsu := bsu x; sfm := sfm x; tmp := tmp x |} = x.
Proof. destruct x; reflexivity. Qed.

Lemma step_pt f o t : step f o t = if Nat.eqb t (target o) then sstep (f t) o else f t.
Proof.
  destruct o; cbn [step target sstep]; unfold upd;
  destruct (Nat.eqb_spec t s); subst; auto.
Qed.

Lemma run_other ops : forall f s t, Forall (fun o => target o = s) ops -> t <> s -> run f ops t = f t.
Proof.
  induction ops as [|o ops IH]; intros f s t H Ht; [reflexivity|].
  inversion H as [|? ? Ho Hops]; subst. unfold run. cbn [fold_left]. fold (run (step f o) ops).
  rewrite (IH _ _ t Hops Ht). rewrite step_pt.
  destruct (Nat.eqb_spec t (target o)); congruence.
Qed.

Lemma run_same ops : forall f s, Forall (fun o => target o = s) ops -> run f ops s = fold_left sstep ops (f s).
Proof.
  induction ops as [|o ops IH]; intros f s H; [reflexivity|].
  inversion H as [|? ? Ho Hops]; subst. unfold run. cbn [fold_left]. fold (run (step f o) ops).
  rewrite (IH _ _ Hops). rewrite step_pt, Nat.eqb_refl. reflexivity.
Qed.

Lemma run_app f a b : run f (a ++ b) = run (run f a) b.
Proof. unfold run. apply fold_left_app. Qed.

Lemma firstn_repeat {A} (x : A) : forall m k, firstn k (repeat x m) = repeat x (Nat.min k m).
Proof. induction m as [|m IH]; intros [|k]; cbn; auto. f_equal. apply IH. Qed.

Lemma fold_repeat_col x s j : fold_left sstep (repeat (ColWrite s) j) x = x.
Proof. induction j; cbn; auto. Qed.
Lemma fold_repeat_pq x s j : fold_left sstep (repeat (PqmrWrite s) j) x = x.
Proof. induction j; cbn; auto. Qed.
Lemma fold_repeat_sst x s j : fold_left sstep (repeat (SstWrite s) j) x = x.
Proof. induction j; cbn; auto. Qed.

Lemma Forall_firstn {A} (P : A -> Prop) l k : Forall P l -> Forall P (firstn k l).
Proof. revert k; induction l as [|a l IH]; intros [|k] H; cbn; auto. inversion H; subst. constructor; auto. Qed.

Lemma flush_ops_target s b m n : Forall (fun o => target o = s) (flush_ops sfm_ops s b m n).
Proof.
  unfold flush_ops, sfm_ops. repeat rewrite Forall_app. repeat split.
  - apply Forall_forall. intros o Ho. apply repeat_spec in Ho. subst. reflexivity.
  - repeat constructor.
  - apply Forall_forall. intros o Ho. apply repeat_spec in Ho. subst. reflexivity.
  - repeat constructor.
  - repeat constructor.
Qed.

Lemma rotate_ops_target s b : Forall (fun o => target o = s) (rotate_ops sfm_ops s b).
Proof. unfold rotate_ops, sfm_ops. repeat constructor. Qed.

Lemma flush_ops_length s b m n : length (flush_ops sfm_ops s b m n) = m + n + 5.
Proof. unfold flush_ops, sfm_ops. rewrite !app_length, !repeat_length. cbn. lia. Qed.

(* the current segment after the first k calls of a flush *)
Lemma flush_prefix_seg x s b m n k :
  let x' := fold_left sstep (firstn k (flush_ops sfm_ops s b m n)) x in
  (k <= m -> x' = x) /\
  (m < k -> k < m + n + 5 -> bsu x' = S (bsu x) /\ sfm x' = sfm x) /\
  (m + n + 5 <= k -> bsu x' = S (bsu x) /\ sfm x' = Valid b /\ tmp x' = NoFile).
Proof.
  cbv zeta. unfold flush_ops, sfm_ops.
  rewrite firstn_app, firstn_repeat, repeat_length, fold_left_app, fold_repeat_col.
  destruct (k - m) as [|k1] eqn:E1.
  { cbn [firstn fold_left]. repeat split; intros; try lia; auto. }
  cbn [app firstn fold_left sstep].
  rewrite firstn_app, firstn_repeat, repeat_length, fold_left_app, fold_repeat_sst.
  destruct (k1 - n) as [|k2] eqn:E2.
  { cbn [firstn fold_left]. repeat split; intros; try lia; auto. }
  destruct k2 as [|k3]; [cbn; repeat split; intros; try lia; auto|].
  destruct k3 as [|k4]; [cbn; repeat split; intros; try lia; auto|].
  destruct k4 as [|k5]; [cbn; repeat split; intros; try lia; auto|].
  cbn [firstn fold_left sstep bsu sfm tmp].
  assert (E : firstn k5 (@nil fop) = []) by (destruct k5; reflexivity). rewrite E. cbn [fold_left].
  repeat split; intros; try lia; auto.
Qed.

(* rotation never changes what is visible, at any prefix *)
Lemma rotate_prefix_seg x s b k nb0 :
  sfm x = Valid nb0 ->
  let x' := fold_left sstep (firstn k (rotate_ops sfm_ops s b)) x in
  bsu x' = bsu x /\ (exists nb, sfm x' = Valid nb) /\ (4 <= k -> tmp x' = NoFile).
Proof.
  intros Hv. cbv zeta. unfold rotate_ops, sfm_ops. cbn [app].
  destruct k as [|[|[|[|k]]]]; cbn [firstn fold_left sstep bsu sfm tmp].
  1-4: repeat split; intros; eauto; try lia.
  assert (E : firstn k (@nil fop) = []) by (destruct k; reflexivity). rewrite E. cbn [fold_left sstep bsu sfm tmp].
  repeat split; intros; eauto.
Qed.

(* ---------- visible as a function of the per-segment states ---------- *)
Lemma visible_unfold f n : visible f n = flat_map (fun s => segvis (f s) s) (seq 0 n).
Proof. reflexivity. Qed.

Lemma flat_map_seq_ext (g h : nat -> list (nat * nat)) a n :
  (forall t, a <= t < a + n -> g t = h t) -> flat_map g (seq a n) = flat_map h (seq a n).
Proof.
  revert a; induction n as [|n IH]; intros a H; cbn [seq flat_map]; [reflexivity|].
  rewrite (H a) by lia. f_equal. apply IH. intros t Ht. apply H. lia.
Qed.

Lemma flat_map_seq_nil (g : nat -> list (nat * nat)) a n :
  (forall t, a <= t < a + n -> g t = []) -> flat_map g (seq a n) = [].
Proof.
  revert a; induction n as [|n IH]; intros a H; cbn [seq flat_map]; [reflexivity|].
  rewrite (H a) by lia. cbn [app]. apply IH. intros t Ht. apply H. lia.
Qed.

Lemma visible_split f s n : s < n ->
  visible f n = flat_map (fun t => segvis (f t) t) (seq 0 s) ++ segvis (f s) s
                ++ flat_map (fun t => segvis (f t) t) (seq (S s) (n - S s)).
Proof.
  intros H. rewrite visible_unfold.
  replace n with (s + (1 + (n - S s))) at 1 by lia.
  rewrite seq_app, flat_map_app. cbn [plus seq flat_map]. reflexivity.
Qed.

(* changing only segment s, later segments invisible: the new blocks are appended at the end *)
Lemma visible_change_one f f' s n extra :
  s < n -> (forall t, t <> s -> f' t = f t) ->
  (forall t, s < t -> segvis (f t) t = []) ->
  segvis (f' s) s = segvis (f s) s ++ extra ->
  visible f' n = visible f n ++ extra.
Proof.
  intros Hs Ho Hl Hx. rewrite (visible_split f s n Hs), (visible_split f' s n Hs).
  rewrite (flat_map_seq_nil (fun t => segvis (f t) t) (S s) (n - S s)) by (intros t Ht; apply Hl; lia).
  rewrite (flat_map_seq_nil (fun t => segvis (f' t) t) (S s) (n - S s)) by (intros t Ht; rewrite Ho by lia; apply Hl; lia).
  rewrite (flat_map_seq_ext (fun t => segvis (f' t) t) (fun t => segvis (f t) t) 0 s) by (intros t Ht; rewrite Ho by lia; reflexivity).
  rewrite Hx, !app_nil_r, app_assoc. reflexivity.
Qed.

(* ---------- the invariant between whole steps ---------- *)
Definition Inv (f : fs) (s b : nat) : Prop :=
  (forall t, s < t -> f t = seg0) /\ bsu (f s) = b /\
  (b = 0 -> sfm (f s) = NoFile) /\ (0 < b -> exists nb, sfm (f s) = Valid nb).

Lemma segvis_seg0 t : segvis seg0 t = [].
Proof. reflexivity. Qed.

Lemma seq_snoc b : seq 0 (S b) = seq 0 b ++ [b].
Proof. rewrite seq_S. reflexivity. Qed.

(* ---------- one whole step, cut anywhere ---------- *)
Lemma firstn_0 {A} (l : list A) : firstn 0 l = [].
Proof. reflexivity. Qed.

Lemma run_nil f : run f [] = f.
Proof. reflexivity. Qed.

(* the buffer flush of block b of segment s, first k calls *)
Lemma flush_step f s b m n0 k n :
  Inv f s b -> s < n ->
  visible (run f (firstn k (flush_ops sfm_ops s b m n0))) n =
    visible f n ++ (if Nat.leb (m + n0 + 5) k then [(s, b)]
                    else if Nat.ltb m k && negb (Nat.eqb b 0) then [(s, b)] else []) /\
  (m + n0 + 5 <= k -> Inv (run f (firstn k (flush_ops sfm_ops s b m n0))) s (S b)).
Proof.
  intros (Hlater & Hb & Hb0 & Hbpos) Hn.
  assert (Hlv : forall t, s < t -> segvis (f t) t = []) by (intros t Ht; rewrite Hlater by exact Ht; reflexivity).
  pose proof (flush_ops_target s b m n0) as HT.
  set (f1 := run f (firstn k (flush_ops sfm_ops s b m n0))).
  assert (Ho : forall t, t <> s -> f1 t = f t).
  { intros t Ht. unfold f1. apply (run_other _ _ s); auto using Forall_firstn. }
  assert (Hs1 : f1 s = fold_left sstep (firstn k (flush_ops sfm_ops s b m n0)) (f s)).
  { unfold f1. apply run_same. auto using Forall_firstn. }
  destruct (flush_prefix_seg (f s) s b m n0 k) as (P1 & P2 & P3). rewrite <- Hs1 in P1, P2, P3.
  split.
  - apply (visible_change_one f f1 s n); auto; try lia.
    destruct (Nat.leb_spec (m + n0 + 5) k) as [Hfull|Hpart].
    + destruct (P3 Hfull) as (B1 & S1 & T1).
      unfold segvis. rewrite S1, B1, Hb, seq_snoc, map_app. cbn [map].
      destruct b as [|b'].
      * rewrite Hb0 by reflexivity. reflexivity.
      * destruct (Hbpos ltac:(lia)) as [nb ->]. reflexivity.
    + destruct (Nat.ltb_spec m k) as [Hmk|Hmk]; cbn [andb].
      * destruct (P2 Hmk Hpart) as (B1 & S1).
        unfold segvis. rewrite S1, B1, Hb.
        destruct b as [|b'].
        -- cbn [Nat.eqb negb]. rewrite Hb0 by reflexivity. reflexivity.
        -- cbn [Nat.eqb negb]. destruct (Hbpos ltac:(lia)) as [nb ->].
           rewrite seq_snoc, map_app. reflexivity.
      * rewrite (P1 ltac:(lia)), app_nil_r. reflexivity.
  - intros Hfull. destruct (P3 Hfull) as (B1 & S1 & T1). repeat split.
    + intros t Ht. rewrite Ho by lia. apply Hlater. exact Ht.
    + rewrite B1, Hb. reflexivity.
    + intros; lia.
    + intros _. eauto.
Qed.

(* appends to the pqmr files change nothing start-up looks at *)
Lemma pq_step f s b p k n :
  Inv f s b ->
  visible (run f (firstn k (repeat (PqmrWrite s) p))) n = visible f n /\
  Inv (run f (firstn k (repeat (PqmrWrite s) p))) s b.
Proof.
  intros (Hlater & Hb & Hb0 & Hbpos). rewrite firstn_repeat.
  set (f1 := run f (repeat (PqmrWrite s) (Nat.min k p))).
  assert (HT : Forall (fun o => target o = s) (repeat (PqmrWrite s) (Nat.min k p))).
  { apply Forall_forall. intros o Ho. apply repeat_spec in Ho. subst. reflexivity. }
  assert (Hall : forall t, f1 t = f t).
  { intros t. destruct (Nat.eq_dec t s) as [->|Ht].
    - unfold f1. rewrite (run_same _ _ s HT). apply fold_repeat_pq.
    - unfold f1. apply (run_other _ _ s); auto. }
  split.
  - rewrite !visible_unfold. apply flat_map_seq_ext. intros t _. rewrite Hall. reflexivity.
  - repeat split.
    + intros t Ht. rewrite Hall. apply Hlater. exact Ht.
    + rewrite Hall. exact Hb.
    + intros E. rewrite Hall. apply Hb0. exact E.
    + intros E. rewrite Hall. apply Hbpos. exact E.
Qed.

(* the rotation of segment s (final .sfm through tmp + rename, segmeta.json line), first k calls: what is visible never
   changes; after all four calls the writer is at the next, empty segment *)
Lemma rotate_step f s b' k n :
  Inv f s (S b') -> s < n ->
  visible (run f (firstn k (rotate_ops sfm_ops s (S b')))) n = visible f n /\
  (4 <= k -> Inv (run f (firstn k (rotate_ops sfm_ops s (S b')))) (S s) 0).
Proof.
  intros (Hlater & Hb & Hb0 & Hbpos) Hn.
  assert (Hlv : forall t, s < t -> segvis (f t) t = []) by (intros t Ht; rewrite Hlater by exact Ht; reflexivity).
  destruct (Hbpos ltac:(lia)) as [nb0 Hv].
  pose proof (rotate_ops_target s (S b')) as HT.
  set (f1 := run f (firstn k (rotate_ops sfm_ops s (S b')))).
  assert (Ho : forall t, t <> s -> f1 t = f t).
  { intros t Ht. unfold f1. apply (run_other _ _ s); auto using Forall_firstn. }
  assert (Hs1 : f1 s = fold_left sstep (firstn k (rotate_ops sfm_ops s (S b'))) (f s)).
  { unfold f1. apply run_same. auto using Forall_firstn. }
  destruct (rotate_prefix_seg (f s) s (S b') k nb0 Hv) as (B1 & (nb1 & S1) & T1). rewrite <- Hs1 in B1, S1, T1.
  split.
  - rewrite <- (app_nil_r (visible f n)). apply (visible_change_one f f1 s n); auto; try lia.
    unfold segvis. rewrite S1, B1, Hv, app_nil_r. reflexivity.
  - intros Hfull. repeat split.
    + intros t Ht. rewrite Ho by lia. apply Hlater. lia.
    + rewrite Ho by lia. rewrite Hlater by lia. reflexivity.
    + intros _. rewrite Ho by lia. rewrite Hlater by lia. reflexivity.
    + intros; lia.
Qed.

Theorem crash_visible_from h : forall s b f k n,
  Inv f s b -> s + length h < n ->
  visible (run f (firstn k (ops_from sfm_ops s b h))) n = visible f n ++ expect_from s b h k.
Proof.
  induction h as [|st h IH]; intros s b f k n HI Hn.
  - cbn [ops_from expect_from]. rewrite firstn_nil, app_nil_r. reflexivity.
  - cbn [length] in Hn.
    destruct st as [m n0| |p|m n0 p].
    + (* Flush *)
      cbn [ops_from expect_from].
      pose proof (flush_ops_length s b m n0) as HL.
      rewrite firstn_app, run_app, HL.
      destruct (flush_step f s b m n0 k n HI ltac:(lia)) as (Hv1 & HI1).
      destruct (Nat.leb_spec (m + n0 + 5) k) as [Hfull|Hpart].
      * rewrite (IH s (S b) _ (k - (m + n0 + 5)) n (HI1 Hfull)) by lia.
        rewrite Hv1, <- app_assoc. reflexivity.
      * replace (k - (m + n0 + 5)) with 0 by lia. rewrite firstn_0, run_nil. exact Hv1.
    + (* Rotate *)
      cbn [ops_from expect_from]. destruct b as [|b'].
      * apply IH; [exact HI|lia].
      * assert (HL : length (rotate_ops sfm_ops s (S b')) = 4) by reflexivity.
        rewrite firstn_app, run_app, HL.
        destruct (rotate_step f s b' k n HI ltac:(lia)) as (Hv1 & HI1).
        destruct (Nat.leb_spec 4 k) as [Hfull|Hpart].
        -- rewrite (IH (S s) 0 _ (k - 4) n (HI1 Hfull)) by lia. rewrite Hv1. reflexivity.
        -- replace (k - 4) with 0 by lia. rewrite firstn_0, run_nil, Hv1, app_nil_r. reflexivity.
    + (* PqWrites *)
      cbn [ops_from expect_from].
      rewrite firstn_app, run_app, repeat_length.
      destruct (pq_step f s b p k n HI) as (Hv1 & HI1).
      destruct (Nat.leb_spec p k) as [Hfull|Hpart].
      * rewrite (IH s b _ (k - p) n HI1) by lia. rewrite Hv1. reflexivity.
      * replace (k - p) with 0 by lia. rewrite firstn_0, run_nil, Hv1, app_nil_r. reflexivity.
    + (* ForcedFlush: the buffer flush, the pqmr appends and the rotation in one call *)
      cbn [ops_from expect_from].
      pose proof (flush_ops_length s b m n0) as HL.
      rewrite firstn_app, run_app, HL.
      destruct (flush_step f s b m n0 k n HI ltac:(lia)) as (Hv1 & HI1).
      set (f1 := run f (firstn k (flush_ops sfm_ops s b m n0))) in *.
      destruct (Nat.leb_spec (m + n0 + 5) k) as [Hfull|Hpart].
      * specialize (HI1 Hfull).
        set (k1 := k - (m + n0 + 5)).
        rewrite firstn_app, run_app, repeat_length.
        destruct (pq_step f1 s (S b) p k1 n HI1) as (Hv2 & HI2).
        set (f2 := run f1 (firstn k1 (repeat (PqmrWrite s) p))) in *.
        assert (HLr : length (rotate_ops sfm_ops s (S b)) = 4) by reflexivity.
        rewrite firstn_app, run_app, HLr.
        destruct (rotate_step f2 s b (k1 - p) n HI2 ltac:(lia)) as (Hv3 & HI3).
        set (f3 := run f2 (firstn (k1 - p) (rotate_ops sfm_ops s (S b)))) in *.
        destruct (Nat.leb_spec (m + n0 + 5 + p + 4) k) as [Hall|Hrot].
        -- assert (H4 : 4 <= k1 - p) by (unfold k1; lia).
           replace (k - (m + n0 + 5 + p + 4)) with (k1 - p - 4) by (unfold k1; lia).
           rewrite (IH (S s) 0 f3 (k1 - p - 4) n (HI3 H4)) by lia.
           rewrite Hv3, Hv2, Hv1, <- app_assoc. reflexivity.
        -- replace (k1 - p - 4) with 0 by (unfold k1; lia).
           rewrite firstn_0, run_nil, Hv3, Hv2, Hv1. reflexivity.
      * replace (k - (m + n0 + 5)) with 0 by lia. rewrite firstn_0, run_nil. exact Hv1.
Qed.

Lemma Inv_init : Inv fs0 0 0.
Proof. repeat split; intros; try reflexivity; lia. Qed.

(* MAIN: for every history and every crash point k, restart sees exactly expect_visible *)
Theorem crash_visible_exact h k :
  visible (run fs0 (firstn k (ops_of h))) (nsegs h) = expect_visible h k.
Proof.
  unfold ops_of, expect_visible, nsegs.
  rewrite (crash_visible_from h 0 0 fs0 k (S (length h)) Inv_init) by lia.
  assert (E : visible fs0 (S (length h)) = []).
  { rewrite visible_unfold. apply flat_map_seq_nil. intros; reflexivity. }
  rewrite E. reflexivity.
Qed.

(* ---------- what expect_visible means ---------- *)

(* completed flushes are always there; at most the single block of the flush in progress is added *)
Lemma expect_completed h : forall s b k,
  exists extra, expect_from s b h k = completed_from s b h k ++ extra /\ (length extra <= 1).
Proof.
  induction h as [|st h IH]; intros s b k; cbn [expect_from completed_from].
  - exists []. split; auto.
  - destruct st as [m n| |p|m n p].
    + destruct (Nat.leb (m + n + 5) k).
      * destruct (IH s (S b) (k - (m + n + 5))) as (e & E & L). exists e. rewrite E. split; auto.
      * destruct (Nat.ltb m k && negb (Nat.eqb b 0)); [exists [(s, b)]|exists []]; split; cbn; auto.
    + destruct b as [|b']; [apply IH|].
      destruct (Nat.leb 4 k); [apply IH|]. exists []. split; auto.
    + destruct (Nat.leb p k); [apply IH|]. exists []. split; auto.
    + destruct (Nat.leb (m + n + 5) k).
      * destruct (Nat.leb (m + n + 5 + p + 4) k).
        -- destruct (IH (S s) 0 (k - (m + n + 5 + p + 4))) as (e & E & L). exists e. rewrite E. split; auto.
        -- exists []. split; auto.
      * destruct (Nat.ltb m k && negb (Nat.eqb b 0)); [exists [(s, b)]|exists []]; split; cbn; auto.
Qed.

(* all blocks named are distinct and in ingest order: (s,b) strictly increasing lexicographically *)
Definition blt (x y : nat * nat) : Prop := fst x < fst y \/ (fst x = fst y /\ snd x < snd y).

Lemma expect_lower h : forall s b k x, In x (expect_from s b h k) -> (s, b) = x \/ blt (s, b) x.
Proof.
  induction h as [|st h IH]; intros s b k x; cbn [expect_from]; [intros []|].
  destruct st as [m n| |p|m n p].
  - destruct (Nat.leb (m + n + 5) k).
    + intros [<-|H]; [left; reflexivity|]. right. apply IH in H as [<-|H]; unfold blt in *; cbn in *; lia.
    + destruct (Nat.ltb m k && negb (Nat.eqb b 0)); [intros [<-|[]]; left; reflexivity|intros []].
  - destruct b as [|b']; [apply IH|].
    destruct (Nat.leb 4 k); [|intros []].
    intros H. right. apply IH in H as [<-|H]; unfold blt in *; cbn in *; lia.
  - destruct (Nat.leb p k); [apply IH|intros []].
  - destruct (Nat.leb (m + n + 5) k).
    + intros [<-|H]; [left; reflexivity|]. right.
      destruct (Nat.leb (m + n + 5 + p + 4) k); [|destruct H].
      apply IH in H as [<-|H]; unfold blt in *; cbn in *; lia.
    + destruct (Nat.ltb m k && negb (Nat.eqb b 0)); [intros [<-|[]]; left; reflexivity|intros []].
Qed.

Lemma expect_nodup h : forall s b k, NoDup (expect_from s b h k).
Proof.
  induction h as [|st h IH]; intros s b k; cbn [expect_from]; [constructor|].
  destruct st as [m n| |p|m n p].
  - destruct (Nat.leb (m + n + 5) k).
    + constructor; [|apply IH]. intro H. apply expect_lower in H as [H|H].
      * injection H. lia.
      * unfold blt in H. cbn in H. lia.
    + destruct (Nat.ltb m k && negb (Nat.eqb b 0)); repeat constructor. intros [].
  - destruct b as [|b']; [apply IH|]. destruct (Nat.leb 4 k); [apply IH|constructor].
  - destruct (Nat.leb p k); [apply IH|constructor].
  - destruct (Nat.leb (m + n + 5) k).
    + destruct (Nat.leb (m + n + 5 + p + 4) k).
      * constructor; [|apply IH]. intro H. apply expect_lower in H as [H|H].
        -- injection H. lia.
        -- unfold blt in H. cbn in H. lia.
      * repeat constructor. intros [].
    + destruct (Nat.ltb m k && negb (Nat.eqb b 0)); repeat constructor. intros [].
Qed.

Theorem crash_safe h k :
  let vis := visible (run fs0 (firstn k (ops_of h))) (nsegs h) in
  (exists extra, vis = completed_from 0 0 h k ++ extra /\ length extra <= 1) /\ NoDup vis.
Proof.
  cbv zeta. rewrite crash_visible_exact. unfold expect_visible. split.
  - apply expect_completed.
  - apply expect_nodup.
Qed.

(* ---------- the protocol before the fix ---------- *)
(* Full statement fails for the in-place rewrite of the .sfm: a crash right after the O_TRUNC of
   the second flush hides the first, completed flush. *)
Theorem crash_safe_inplace_refuted :
  let h := [Flush 1 1; Flush 1 1] in
  (* the first flush is complete after 6 calls: its block is visible ... *)
  In (0, 0) (visible (run fs0 (firstn 6 (ops_of_inplace h))) (nsegs h)) /\
  (* ... and a crash after call 11 (the O_TRUNC of the second flush's sfm rewrite) hides it *)
  ~ In (0, 0) (visible (run fs0 (firstn 11 (ops_of_inplace h))) (nsegs h)).
Proof.
  cbv zeta. split.
  - vm_compute. left. reflexivity.
  - vm_compute. intros [].
Qed.

(* ---------- forced rotation (graceful shutdown) ---------- *)
(* What the general theorem says about the window the shutdown opens: once the buffer flush of the shutdown has returned
   (its .sfm is renamed), the block is searchable after a crash at EVERY later call - the pqmr appends, each of the three
   calls of the final .sfm, the segmeta.json line - whatever came before and whatever follows. *)
Lemma completed_from_In_expect h : forall s b k x, In x (completed_from s b h k) -> In x (expect_from s b h k).
Proof.
  intros s b k x H. destruct (expect_completed h s b k) as (e & E & _). rewrite E. apply in_or_app. left. exact H.
Qed.

Lemma completed_from_app h1 : forall s b h2 k x,
  length (ops_from sfm_ops s b h1) <= k ->
  In x (completed_from (fst (pos_from s b h1)) (snd (pos_from s b h1)) h2 (k - length (ops_from sfm_ops s b h1))) ->
  In x (completed_from s b (h1 ++ h2) k).
Proof.
  induction h1 as [|st h1 IH]; intros s b h2 k x Hk Hx.
  - cbn [ops_from length app pos_from fst snd] in *. rewrite Nat.sub_0_r in Hx. exact Hx.
  - destruct st as [m n| |p|m n p]; cbn [ops_from app completed_from pos_from] in *.
    + rewrite app_length, flush_ops_length in Hk, Hx.
      destruct (Nat.leb_spec (m + n + 5) k); [|lia]. right. apply IH; [lia|].
      replace (k - (m + n + 5) - length (ops_from sfm_ops s (S b) h1)) with (k - (m + n + 5 + length (ops_from sfm_ops s (S b) h1))) by lia.
      exact Hx.
    + destruct b as [|b'0]; [apply IH; assumption|].
      rewrite app_length in Hk, Hx. change (length (rotate_ops sfm_ops s (S b'0))) with 4 in Hk, Hx.
      destruct (Nat.leb_spec 4 k); [|lia]. apply IH; [lia|].
      replace (k - 4 - length (ops_from sfm_ops (S s) 0 h1)) with (k - (4 + length (ops_from sfm_ops (S s) 0 h1))) by lia.
      exact Hx.
    + rewrite app_length, repeat_length in Hk, Hx.
      destruct (Nat.leb_spec p k); [|lia]. apply IH; [lia|].
      replace (k - p - length (ops_from sfm_ops s b h1)) with (k - (p + length (ops_from sfm_ops s b h1))) by lia.
      exact Hx.
    + rewrite !app_length, flush_ops_length, repeat_length in Hk, Hx.
      change (length (rotate_ops sfm_ops s (S b))) with 4 in Hk, Hx.
      destruct (Nat.leb_spec (m + n + 5) k); [|lia]. right.
      destruct (Nat.leb_spec (m + n + 5 + p + 4) k); [|lia]. apply IH; [lia|].
      replace (k - (m + n + 5 + p + 4) - length (ops_from sfm_ops (S s) 0 h1))
        with (k - (m + n + 5 + (p + (4 + length (ops_from sfm_ops (S s) 0 h1))))) by lia.
      exact Hx.
Qed.

Theorem forced_rotation_keeps_shutdown_flush h1 m n p h2 k :
  length (ops_of h1) + (m + n + 5) <= k ->
  let h := h1 ++ ForcedFlush m n p :: h2 in
  In (pos_after h1) (visible (run fs0 (firstn k (ops_of h))) (nsegs h)).
Proof.
  intros Hk. cbv zeta. rewrite crash_visible_exact. unfold expect_visible, ops_of, pos_after in *.
  apply completed_from_In_expect. apply completed_from_app; [lia|].
  cbn [completed_from]. destruct (Nat.leb_spec (m + n + 5) (k - length (ops_from sfm_ops 0 0 h1))); [|lia].
  left. destruct (pos_from 0 0 h1); reflexivity.
Qed.

(* The shutdown flush that leaves the running .sfm to the rotation: all files of the flush are on disk after m + n + 2
   calls (the flush has returned, the rotation is under way), and until the final .sfm is renamed a crash loses the
   block - here the only flush of the segment, so the whole segment is never adopted. *)
Theorem forced_rotation_skip_running_sfm_refuted :
  let h := [ForcedFlush 1 1 0] in
  let ops := forced_ops_skip_running_sfm 0 0 1 1 0 in
  length ops = 8 /\
  (forall k, 4 <= k -> k < 7 -> visible (run fs0 (firstn k ops)) (nsegs h) = []) /\
  visible (run fs0 ops) (nsegs h) = [(0, 0)] /\
  (forall k, 7 <= k -> visible (run fs0 (firstn k (ops_of h))) (nsegs h) = [(0, 0)]).
Proof.
  cbv zeta. split; [reflexivity|]. split; [|split].
  - intros k H1 H2. assert (E : k = 4 \/ k = 5 \/ k = 6) by lia. destruct E as [->|[->| ->]]; reflexivity.
  - reflexivity.
  - intros k Hk. rewrite crash_visible_exact. unfold expect_visible. cbn [expect_from].
    destruct (Nat.leb_spec (1 + 1 + 5) k); [|lia].
    destruct (Nat.leb (1 + 1 + 5 + 0 + 4) k); reflexivity.
Qed.

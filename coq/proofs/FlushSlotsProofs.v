(* FlushSlotsProofs.v -- proofs about the scratch buffers of the parallel block flush
   (model/FlushSlots.v). *)
From Coq Require Import List Arith Bool PeanoNat Lia.
Import ListNotations.
From SigM Require Import Base FlushSlots.
Local Open Scope nat_scope.

Lemma walk_cons : forall pol every P has rest pos cur wave idx,
  walk pol every P (has :: rest) pos cur wave idx =
  (if P <=? (if has then S cur else cur)
   then (if has then [mkLaunch pos wave (pol P (if has then S cur else cur) idx)] else [])
        ++ walk pol every P rest (S pos) 0 (S wave) (if has || every then S idx else idx)
   else (if has then [mkLaunch pos wave (pol P (if has then S cur else cur) idx)] else [])
        ++ walk pol every P rest (S pos) (if has then S cur else cur) wave
             (if has || every then S idx else idx)).
Proof. reflexivity. Qed.

(* ---- the code's policy: invariants of the walk ---- *)
Lemma code_inv : forall every P cols pos cur wave idx l, cur < P ->
  In l (walk slot_code every P cols pos cur wave idx) ->
  l_slot l < P /\ wave <= l_wave l /\ pos <= l_col l /\ (l_wave l = wave -> cur <= l_slot l).
Proof.
  intros every P cols; induction cols as [|has rest IH]; intros pos cur wave idx l Hc Hin.
  - destruct Hin.
  - rewrite walk_cons in Hin. destruct has.
    + destruct (P <=? S cur) eqn:E; apply in_app_or in Hin; destruct Hin as [Hin|Hin].
      * simpl in Hin. destruct Hin as [<-|[]]. unfold slot_code; simpl. lia.
      * apply Nat.leb_le in E. apply IH in Hin; [|lia]. lia.
      * simpl in Hin. destruct Hin as [<-|[]]. unfold slot_code; simpl. lia.
      * apply Nat.leb_gt in E. apply IH in Hin; [|lia]. lia.
    + destruct (P <=? cur) eqn:E.
      * apply Nat.leb_le in E. lia.
      * simpl in Hin. apply IH in Hin; [|lia]. lia.
Qed.

Lemma existsb_false : forall (A : Type) (f : A -> bool) l,
  (forall x, In x l -> f x = false) -> existsb f l = false.
Proof.
  intros A f l H. destruct (existsb f l) eqn:E; [|reflexivity].
  apply existsb_exists in E. destruct E as (x & Hin & Hx). rewrite (H x Hin) in Hx. discriminate.
Qed.

Lemma code_distinctb_gen : forall every P cols pos cur wave idx, cur < P ->
  slots_distinctb (walk slot_code every P cols pos cur wave idx) = true.
Proof.
  intros every P cols; induction cols as [|has rest IH]; intros pos cur wave idx Hc.
  - reflexivity.
  - rewrite walk_cons. destruct has.
    + destruct (P <=? S cur) eqn:E; simpl; apply andb_true_iff; split.
      * apply negb_true_iff. apply existsb_false. intros m Hm.
        apply Nat.leb_le in E. apply code_inv in Hm; [|lia].
        apply andb_false_iff. left. apply Nat.eqb_neq. lia.
      * apply IH. apply Nat.leb_le in E. lia.
      * apply negb_true_iff. apply existsb_false. intros m Hm.
        apply Nat.leb_gt in E. apply code_inv in Hm; [|lia].
        unfold slot_code. simpl.
        destruct (l_wave m =? wave) eqn:Ew; [|reflexivity]. simpl.
        apply Nat.eqb_eq in Ew. apply Nat.eqb_neq. lia.
      * apply IH. apply Nat.leb_gt in E. lia.
    + destruct (P <=? cur) eqn:E.
      * apply Nat.leb_le in E. lia.
      * simpl. apply IH. lia.
Qed.

Lemma distinctb_sound : forall ls l1 l2, slots_distinctb ls = true ->
  In l1 ls -> In l2 ls -> l_wave l1 = l_wave l2 -> l_slot l1 = l_slot l2 -> l1 = l2.
Proof.
  induction ls as [|l t IH]; intros l1 l2 Hd H1 H2 Hw Hs.
  - destruct H1.
  - simpl in Hd. apply andb_true_iff in Hd. destruct Hd as [Hn Hd].
    apply negb_true_iff in Hn.
    assert (Hno : forall m, In m t -> l_wave m = l_wave l -> l_slot m = l_slot l -> False).
    { intros m Hm Hmw Hms.
      assert (existsb (fun m => (l_wave m =? l_wave l) && (l_slot m =? l_slot l)) t = true) as Ht.
      { apply existsb_exists. exists m. split; [exact Hm|].
        rewrite Hmw, Hms, !Nat.eqb_refl. reflexivity. }
      rewrite Ht in Hn. discriminate. }
    destruct H1 as [<-|H1]; destruct H2 as [<-|H2].
    + reflexivity.
    + exfalso. apply (Hno l2 H2); congruence.
    + exfalso. apply (Hno l1 H1); congruence.
    + apply IH; assumption.
Qed.

(* 1 *)
Theorem code_slots_in_bounds : forall every P cols l, 0 < P ->
  In l (flush_launches slot_code every P cols) -> l_slot l < P.
Proof.
  intros every P cols l HP Hin. unfold flush_launches in Hin.
  apply code_inv in Hin; [|exact HP]. tauto.
Qed.

(* 2 *)
Theorem code_wave_slots_distinct : forall every P cols l1 l2, 0 < P ->
  In l1 (flush_launches slot_code every P cols) -> In l2 (flush_launches slot_code every P cols) ->
  l_wave l1 = l_wave l2 -> l_slot l1 = l_slot l2 -> l1 = l2.
Proof.
  intros every P cols l1 l2 HP. apply distinctb_sound.
  unfold flush_launches. apply code_distinctb_gen. exact HP.
Qed.

(* 3 *)
Lemma walk_cols_gen : forall pol every P cols pos cur wave idx,
  map l_col (walk pol every P cols pos cur wave idx) = data_cols cols pos.
Proof.
  intros pol every P cols; induction cols as [|has rest IH]; intros pos cur wave idx.
  - reflexivity.
  - rewrite walk_cons.
    destruct (P <=? (if has then S cur else cur)); rewrite map_app, IH; destruct has; reflexivity.
Qed.

Theorem launches_are_data_cols : forall pol every P cols,
  map l_col (flush_launches pol every P cols) = data_cols cols 0.
Proof. intros. apply walk_cols_gen. Qed.

(* 4 *)
Lemma wave_len_gen : forall pol every P cols pos cur wave idx w, cur < P ->
  (w < wave -> length (wave_of w (walk pol every P cols pos cur wave idx)) = 0) /\
  (w = wave -> length (wave_of w (walk pol every P cols pos cur wave idx)) <= P - cur) /\
  length (wave_of w (walk pol every P cols pos cur wave idx)) <= P.
Proof.
  intros pol every P cols; induction cols as [|has rest IH]; intros pos cur wave idx w Hc.
  - simpl. lia.
  - rewrite walk_cons. unfold wave_of in *. destruct has.
    + destruct (P <=? S cur) eqn:E; rewrite filter_app, app_length.
      * apply Nat.leb_le in E.
        specialize (IH (S pos) 0 (S wave) (if true || every then S idx else idx) w ltac:(lia)).
        cbn [filter l_wave].
        destruct (wave =? w) eqn:E5;
          [apply Nat.eqb_eq in E5|apply Nat.eqb_neq in E5]; cbn [length]; lia.
      * apply Nat.leb_gt in E.
        specialize (IH (S pos) (S cur) wave (if true || every then S idx else idx) w ltac:(lia)).
        cbn [filter l_wave].
        destruct (wave =? w) eqn:E5;
          [apply Nat.eqb_eq in E5|apply Nat.eqb_neq in E5]; cbn [length]; lia.
    + destruct (P <=? cur) eqn:E.
      * apply Nat.leb_le in E. lia.
      * cbn [app]. apply IH. lia.
Qed.

Theorem wave_size_le : forall pol every P cols w, 0 < P ->
  length (wave_of w (flush_launches pol every P cols)) <= P.
Proof.
  intros pol every P cols w HP. unfold flush_launches.
  apply (wave_len_gen pol every P cols 0 0 0 0 w HP).
Qed.

(* 5 *)
Theorem code_flush_slots_ok : forall every P cols, 0 < P -> flush_slots_ok slot_code every P cols = true.
Proof.
  intros every P cols HP. unfold flush_slots_ok. apply andb_true_iff. split.
  - unfold flush_launches. apply code_distinctb_gen. exact HP.
  - apply forallb_forall. intros l Hl. apply Nat.ltb_lt.
    apply (code_slots_in_bounds every P cols l HP Hl).
Qed.

(* 6: the counter that counts only launched goroutines is also fine modulo P *)
Lemma modidx_false_eq_code : forall P cols pos cur wave q, cur < P ->
  walk slot_modidx false P cols pos cur wave (cur + q * P) =
  walk slot_code false P cols pos cur wave (cur + q * P).
Proof.
  intros P cols; induction cols as [|has rest IH]; intros pos cur wave q Hc.
  - reflexivity.
  - rewrite !walk_cons. destruct has.
    + assert (Hs : slot_modidx P (S cur) (cur + q * P) = slot_code P (S cur) (cur + q * P)).
      { unfold slot_modidx, slot_code. rewrite Nat.mod_add by lia.
        rewrite Nat.mod_small by lia. lia. }
      rewrite Hs. simpl orb. cbv iota.
      destruct (P <=? S cur) eqn:E; f_equal.
      * apply Nat.leb_le in E.
        replace (S (cur + q * P)) with (0 + (S q) * P) by (simpl; lia).
        apply IH. lia.
      * apply Nat.leb_gt in E.
        replace (S (cur + q * P)) with (S cur + q * P) by lia.
        apply IH. lia.
    + simpl orb. cbv iota. destruct (P <=? cur) eqn:E.
      * apply Nat.leb_le in E. lia.
      * simpl. apply IH. lia.
Qed.

Theorem modidx_launched_only_distinct : forall P cols l1 l2, 0 < P ->
  In l1 (flush_launches slot_modidx false P cols) -> In l2 (flush_launches slot_modidx false P cols) ->
  l_wave l1 = l_wave l2 -> l_slot l1 = l_slot l2 -> l1 = l2.
Proof.
  intros P cols l1 l2 HP. unfold flush_launches.
  pose proof (modidx_false_eq_code P cols 0 0 0 0 HP) as H. simpl in H. rewrite H.
  apply (code_wave_slots_distinct false P cols l1 l2 HP).
Qed.

(* 7: the counter over every column is not: one skipped column inside a wave *)
Theorem modidx_every_refuted : exists P cols l1 l2, 0 < P /\
  In l1 (flush_launches slot_modidx true P cols) /\ In l2 (flush_launches slot_modidx true P cols) /\
  l_wave l1 = l_wave l2 /\ l_slot l1 = l_slot l2 /\ l_col l1 <> l_col l2.
Proof.
  exists 2, [true; false; true], (mkLaunch 0 0 0), (mkLaunch 2 0 0).
  split; [lia|]. split; [vm_compute; auto|]. split; [vm_compute; auto|].
  split; [reflexivity|]. split; [reflexivity|]. simpl. discriminate.
Qed.

Example modidx_every_check : flush_slots_ok slot_modidx true 2 [true;false;true] = false.
Proof. vm_compute. reflexivity. Qed.

(* 8: goroutines with pairwise different buffers, under EVERY schedule, write their own bytes *)
Lemma wf_sched_prefix : forall ls pre suf, wf_sched ls (pre ++ suf) -> wf_sched ls pre.
Proof.
  intros ls pre suf [H1 H2]. split.
  - intros g Hg. apply H1. apply in_or_app. left. exact Hg.
  - intros p c s post Heq. apply (H2 p c s (post ++ suf)).
    rewrite Heq, <- app_assoc. reflexivity.
Qed.

Lemma exec_inv : forall enc ls b0,
  (forall l1 l2, In l1 ls -> In l2 ls -> l_slot l1 = l_slot l2 -> l_col l1 = l_col l2) ->
  forall sch, wf_sched ls sch ->
  (forall c s, In (GW c s) sch -> fst (fold_left (exec_step enc) sch (b0, [])) s = enc c) /\
  (forall c b, In (c, b) (snd (fold_left (exec_step enc) sch (b0, []))) -> b = enc c).
Proof.
  intros enc ls b0 Hd sch. induction sch as [|g pre IH] using rev_ind; intros Hwf.
  - split; intros c x H; destruct H.
  - pose proof (wf_sched_prefix _ _ _ Hwf) as Hpre. specialize (IH Hpre).
    destruct IH as [IHb IHf]. rewrite fold_left_app. simpl.
    destruct Hwf as [Hw1 Hw2].
    destruct g as [c s|c s]; simpl; split.
    + intros c' s' Hin. destruct (s' =? s) eqn:E.
      * apply Nat.eqb_eq in E. subst s'.
        destruct (Hw1 (GW c' s) Hin) as (l' & Hl' & Hc' & Hs').
        destruct (Hw1 (GW c s) ltac:(apply in_or_app; right; left; reflexivity))
          as (l & Hl & Hc & Hs).
        simpl in *. assert (l_col l = l_col l') as Hcc by (apply Hd; congruence).
        f_equal. congruence.
      * apply in_app_or in Hin. destruct Hin as [Hin|[Heq|[]]].
        -- apply IHb. exact Hin.
        -- inversion Heq; subst. rewrite Nat.eqb_refl in E. discriminate.
    + exact IHf.
    + intros c' s' Hin. apply in_app_or in Hin. destruct Hin as [Hin|[Heq|[]]].
      * apply IHb. exact Hin.
      * discriminate.
    + intros c' b Hin. apply in_app_or in Hin. destruct Hin as [Hin|[Heq|[]]].
      * apply IHf. exact Hin.
      * inversion Heq; subst. apply IHb. apply (Hw2 pre c' s []). reflexivity.
Qed.

Theorem exec_own_bytes : forall enc ls sch b0,
  (forall l1 l2, In l1 ls -> In l2 ls -> l_slot l1 = l_slot l2 -> l_col l1 = l_col l2) ->
  wf_sched ls sch ->
  forall c b, In (c, b) (exec enc b0 sch) -> b = enc c.
Proof.
  intros enc ls sch b0 Hd Hwf c b Hin. unfold exec in Hin.
  destruct (exec_inv enc ls b0 Hd sch Hwf) as [_ H]. apply H. exact Hin.
Qed.

(* 9: combined: every wave of the real walk, every schedule, every P, every pattern of skipped columns *)
Theorem code_flush_files_exact : forall enc every P cols w sch b0, 0 < P ->
  wf_sched (wave_of w (flush_launches slot_code every P cols)) sch ->
  forall c b, In (c, b) (exec enc b0 sch) -> b = enc c.
Proof.
  intros enc every P cols w sch b0 HP Hwf.
  apply (exec_own_bytes enc (wave_of w (flush_launches slot_code every P cols)) sch b0); [|exact Hwf].
  intros l1 l2 H1 H2 Hs. unfold wave_of in H1, H2.
  apply filter_In in H1. apply filter_In in H2.
  destruct H1 as [H1 W1]. destruct H2 as [H2 W2].
  apply Nat.eqb_eq in W1. apply Nat.eqb_eq in W2.
  f_equal. apply (code_wave_slots_distinct every P cols l1 l2 HP H1 H2); congruence.
Qed.

(* 10: with a shared buffer there is a schedule in which a column's file receives another column's block *)
Theorem modidx_every_files_refuted : exists P cols w sch, 0 < P /\
  wf_sched (wave_of w (flush_launches slot_modidx true P cols)) sch /\
  forall (enc : nat -> bytes) b0, In (0, enc 2) (exec enc b0 sch).
Proof.
  exists 2, [true; false; true], 0, [GW 0 0; GW 2 0; GF 0 0; GF 2 0].
  split; [lia|]. split.
  - change (wave_of 0 (flush_launches slot_modidx true 2 [true; false; true]))
      with [mkLaunch 0 0 0; mkLaunch 2 0 0].
    split.
    + intros g Hg. simpl in Hg.
      destruct Hg as [<-|[<-|[<-|[<-|[]]]]].
      * exists (mkLaunch 0 0 0). simpl. auto.
      * exists (mkLaunch 2 0 0). simpl. auto.
      * exists (mkLaunch 0 0 0). simpl. auto.
      * exists (mkLaunch 2 0 0). simpl. auto.
    + intros pre c s post Heq.
      destruct pre as [|g0 [|g1 [|g2 [|g3 [|g4 pre]]]]]; simpl in Heq; inversion Heq; subst;
        simpl; auto.
  - intros enc b0. unfold exec. simpl. left. reflexivity.
Qed.

Print Assumptions code_slots_in_bounds.
Print Assumptions code_wave_slots_distinct.
Print Assumptions launches_are_data_cols.
Print Assumptions wave_size_le.
Print Assumptions code_flush_slots_ok.
Print Assumptions modidx_launched_only_distinct.
Print Assumptions modidx_every_refuted.
Print Assumptions modidx_every_check.
Print Assumptions exec_own_bytes.
Print Assumptions code_flush_files_exact.
Print Assumptions modidx_every_files_refuted.

(* conjunctions stated in props/C01.v *)
Lemma code_wave_buffers : forall every P cols l1 l2, 0 < P ->
  In l1 (flush_launches slot_code every P cols) -> In l2 (flush_launches slot_code every P cols) ->
  l_slot l1 < P /\ (l_wave l1 = l_wave l2 -> l_slot l1 = l_slot l2 -> l1 = l2).
Proof.
  intros every P cols l1 l2 HP H1 H2. split.
  - exact (code_slots_in_bounds every P cols l1 HP H1).
  - exact (code_wave_slots_distinct every P cols l1 l2 HP H1 H2).
Qed.

Lemma data_cols_once : forall pol every P cols w,
  map l_col (flush_launches pol every P cols) = data_cols cols 0 /\
  (0 < P -> length (wave_of w (flush_launches pol every P cols)) <= P).
Proof.
  intros pol every P cols w. split.
  - exact (launches_are_data_cols pol every P cols).
  - intro HP. exact (wave_size_le pol every P cols w HP).
Qed.

Lemma modidx_every_refuted_both :
  (exists P cols l1 l2, 0 < P /\
     In l1 (flush_launches slot_modidx true P cols) /\ In l2 (flush_launches slot_modidx true P cols) /\
     l_wave l1 = l_wave l2 /\ l_slot l1 = l_slot l2 /\ l_col l1 <> l_col l2) /\
  (exists P cols w sch, 0 < P /\
     wf_sched (wave_of w (flush_launches slot_modidx true P cols)) sch /\
     forall (enc : nat -> bytes) b0, In (0, enc 2) (exec enc b0 sch)).
Proof. split. exact modidx_every_refuted. exact modidx_every_files_refuted. Qed.

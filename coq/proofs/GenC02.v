(* GenC02.v — definitions REGENERATED from the Go source on every run (coq/gen/Gen.v, produced by
   gotrans) coincide with the hand-written model the property theorems are about.  An edit of the
   Go function that changes its meaning breaks a proof here. *)
From Coq Require Import ZArith Bool Lia.
From SigG Require Import Gen.
From SigM Require Import Base Filter.
Open Scope Z_scope.

(* C02: TimeRange methods *)
Theorem gen_CheckInRange_is_model : forall tr ts,
  gen_CheckInRange (t_end tr) (t_start tr) ts = Filter.check_in_range tr ts.
Proof. intros. unfold gen_CheckInRange, Filter.check_in_range. destruct (_ && _); reflexivity. Qed.

Theorem gen_CheckRangeOverLap_is_model : forall tr lo hi,
  gen_CheckRangeOverLap (t_end tr) (t_start tr) lo hi = Filter.check_range_overlap tr lo hi.
Proof. intros. unfold gen_CheckRangeOverLap, Filter.check_range_overlap. destruct (_ || _); reflexivity. Qed.

Theorem gen_AreTimesFullyEnclosed_is_model : forall tr lo hi,
  gen_AreTimesFullyEnclosed (t_end tr) (t_start tr) lo hi = Filter.times_fully_enclosed tr lo hi.
Proof. intros. unfold gen_AreTimesFullyEnclosed, Filter.times_fully_enclosed. destruct (_ && _); reflexivity. Qed.


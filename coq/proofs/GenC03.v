(* GenC03.v — the range-filter checkers REGENERATED from metacheckers.go on every run (coq/gen/Gen.v,
   produced by gotrans, FilterOperator constants read from segconsts.go) coincide with the
   hand-written model pass_rangeZ that the pruning-soundness theorems are about. *)
From Coq Require Import ZArith Bool Lia.
From SigG Require Import Gen.
From SigM Require Import Base Prune.
Open Scope Z_scope.

(* sutils.FilterOperator: Equals = 0, NotEquals, LessThan, LessThanOrEqualTo, GreaterThan, GreaterThanOrEqualTo, ... *)
Definition op_to_code (o : op) : Z :=
  match o with Eq => 0 | Ne => 1 | Lt => 2 | Le => 3 | Gt => 4 | Ge => 5 | OpOther => 6 end.

Theorem gen_doesIntPassRangeFilter_is_model : forall o l mn mx,
  gen_doesIntPassRangeFilter (op_to_code o) l mn mx = pass_rangeZ o l mn mx.
Proof. intros o l mn mx. destruct o; reflexivity. Qed.

Theorem gen_doesUintPassRangeFilter_is_model : forall o l mn mx,
  gen_doesUintPassRangeFilter (op_to_code o) l mn mx = pass_rangeZ o l mn mx.
Proof. intros o l mn mx. destruct o; reflexivity. Qed.

(* every other operator code (IsNull, IsNotNull, anything above) never prunes *)
Theorem gen_range_filter_other_ops_pass : forall c l mn mx, 6 <= c ->
  gen_doesIntPassRangeFilter c l mn mx = true /\ gen_doesUintPassRangeFilter c l mn mx = true.
Proof.
  intros c l mn mx H. unfold gen_doesIntPassRangeFilter, gen_doesUintPassRangeFilter.
  repeat match goal with |- context [c =? ?k] => replace (c =? k) with false by (symmetry; apply Z.eqb_neq; lia) end.
  split; reflexivity.
Qed.

(* ---------- the time-range tests of TimePrune.v are the regenerated dtypeutils functions ---------- *)
From Coq Require Import NArith.
From SigM Require Import TimePrune.
Open Scope Z_scope.

Lemma leb_of_N a b : (Z.of_N a <=? Z.of_N b) = (a <=? b)%N.
Proof.
  destruct (N.leb_spec a b) as [H|H].
  - apply Z.leb_le. lia.
  - apply Z.leb_gt. lia.
Qed.

(* TimeRange.CheckRangeOverLap on uint64 values = TimePrune.overlap (the per-block test of FilterBlocksByTime) *)
Theorem gen_CheckRangeOverLap_is_overlap : forall tr lo hi,
  gen_CheckRangeOverLap (Z.of_N (tr_end tr)) (Z.of_N (tr_start tr)) (Z.of_N lo) (Z.of_N hi) = overlap tr lo hi.
Proof.
  intros tr lo hi. unfold gen_CheckRangeOverLap, overlap. rewrite !leb_of_N.
  destruct (_ || _); reflexivity.
Qed.

(* TimeRange.CheckInRange = TimePrune.ts_in_range (the per-record test) *)
Theorem gen_CheckInRange_is_ts_in_range : forall tr t,
  gen_CheckInRange (Z.of_N (tr_end tr)) (Z.of_N (tr_start tr)) (Z.of_N t) = ts_in_range tr t.
Proof.
  intros tr t. unfold gen_CheckInRange, ts_in_range. rewrite !leb_of_N.
  destruct (_ && _); reflexivity.
Qed.

Theorem gen_time_tests_are_model : forall tr lo hi t,
  gen_CheckRangeOverLap (Z.of_N (tr_end tr)) (Z.of_N (tr_start tr)) (Z.of_N lo) (Z.of_N hi) = overlap tr lo hi /\
  gen_CheckInRange (Z.of_N (tr_end tr)) (Z.of_N (tr_start tr)) (Z.of_N t) = ts_in_range tr t.
Proof. intros; split; [apply gen_CheckRangeOverLap_is_overlap|apply gen_CheckInRange_is_ts_in_range]. Qed.

(* GenC03.v — the range-filter checkers REGENERATED from metacheckers.go on every run (coq/gen/Gen.v,
   produced by gotrans, FilterOperator constants read from segconsts.go) coincide with the
   hand-written model pass_rangeZ that the pruning-soundness theorems are about. *)
From Coq Require Import ZArith Bool Lia.
From SigG Require Import Gen.
From SigM Require Import Base Prune.
Open Scope Z_scope.

(* sutils.FilterOperator: Equals = 0, NotEquals, LessThan, LessThanOrEqualTo, GreaterThan, GreaterThanOrEqualTo, ... *)
Definition op_to_code (o : op) : Z :=
  match o with Eq => 0 | Ne => 1 | Lt => 2 | Le => 3 | Gt => 4 | Ge => 5 | OpOther => 6 end.

Theorem gen_doesIntPassRangeFilter_is_model : forall o l mn mx,
  gen_doesIntPassRangeFilter (op_to_code o) l mn mx = pass_rangeZ o l mn mx.
Proof. intros o l mn mx. destruct o; reflexivity. Qed.

Theorem gen_doesUintPassRangeFilter_is_model : forall o l mn mx,
  gen_doesUintPassRangeFilter (op_to_code o) l mn mx = pass_rangeZ o l mn mx.
Proof. intros o l mn mx. destruct o; reflexivity. Qed.

(* every other operator code (IsNull, IsNotNull, anything above) never prunes *)
Theorem gen_range_filter_other_ops_pass : forall c l mn mx, 6 <= c ->
  gen_doesIntPassRangeFilter c l mn mx = true /\ gen_doesUintPassRangeFilter c l mn mx = true.
Proof.
  intros c l mn mx H. unfold gen_doesIntPassRangeFilter, gen_doesUintPassRangeFilter.
  repeat match goal with |- context [c =? ?k] => replace (c =? k) with false by (symmetry; apply Z.eqb_neq; lia) end.
  split; reflexivity.
Qed.

(* GenC04.v — definitions REGENERATED from the Go source on every run (coq/gen/Gen.v, produced by
   gotrans) coincide with the hand-written model the property theorems are about.  An edit of the
   Go function that changes its meaning breaks a proof here. *)
From Coq Require Import ZArith Bool Lia.
From SigG Require Import Gen.
From SigM Require Import Base Bucket.
Open Scope Z_scope.

(* C04: FindTimeRangeBucket (step is a non-zero uint64) *)
Theorem gen_FindTimeRangeBucket_is_model : forall s e st ts, 0 < st ->
  Bucket.find_bucket s e st ts = Some (gen_FindTimeRangeBucket e s st ts).
Proof.
  intros s e st ts Hst. unfold Bucket.find_bucket, gen_FindTimeRangeBucket.
  destruct (ts <? s); [reflexivity|].
  destruct (e <=? ts); [reflexivity|].
  replace (st =? 0) with false by (symmetry; apply Z.eqb_neq; lia).
  cbv zeta.
  (* the generated code also wraps the quotient, which is already below 2^64 *)
  assert (Q : Gen.wrap_u64 (Gen.wrap_u64 (ts - s) / st) = Bucket.wrap_u64 (ts - s) / st).
  { unfold Gen.wrap_u64, Gen.wrap_u, Bucket.wrap_u64, Bucket.two64.
    change (2 ^ 64) with 18446744073709551616.
    assert (0 <= (ts - s) mod 18446744073709551616 < 18446744073709551616) by (apply Z.mod_pos_bound; lia).
    apply Z.mod_small. split.
    - apply Z.div_pos; lia.
    - apply Z.div_lt_upper_bound; nia. }
  rewrite Q. reflexivity.
Qed.


(* GenC08.v — the Gorilla compressor REGENERATED from compressor.go on every run (coq/gen/Gen.v,
   produced by gotrans in its stateful mode: receiver fields threaded as a tuple, the calls
   c.bw.writeBit / c.bw.writeBits recorded as events) emits, for every series, exactly the bit
   stream of the hand-written model `compress_all` that the round-trip theorems are about.

   Interpretation of the events (the contract of bit_writer.go, which is tied to Bits.pack by the
   byte-for-byte correspondence of ./check C08): writeBit(b) appends the bit b; writeBits(u, n)
   appends the n right-most bits of u, most significant first. *)
From Coq Require Import ZArith List Lia Bool.
From Coq Require Import ZifyN ZifyNat ZifyBool.
From SigG Require Import Gen.
From SigM Require Import Base Bits Gorilla.
From SigP Require Import BaseProofs BitsProofs GorillaProofs.
Import ListNotations.
Ltac Zify.zify_post_hook ::= Z.div_mod_to_equations.
Open Scope Z_scope.

Definition ev_bits (e : Z * list Z) : list bool :=
  match e with
  | (0, [b]) => [negb (b =? 0)]
  | (1, [u; n]) => zbits (Z.to_nat n) u
  | _ => []
  end.
Definition evs_bits (evs : list (Z * list Z)) : list bool := flat_map ev_bits evs.

(* the Go Compressor's integer fields as a function of the model's encoder state *)
Definition abs_est (s : est) : Z * Z * Z * Z * Z * Z :=
  (e_hdr s, e_t s, e_td s, Z.of_nat (e_l s), Z.of_nat (e_tz s), Z.of_N (bits2N (e_v s))).

Definition est_ok (s : est) : Prop :=
  in_i32 (e_hdr s) /\ in_i32 (e_t s) /\ in_i32 (e_td s) /\
  (e_l s <= 255)%nat /\ (e_tz s <= 64)%nat /\ length (e_v s) = 64%nat.

(* one point through the regenerated Compress: the bits of its events and the new fields *)
Definition gen_step (st : Z * Z * Z * Z * Z * Z) (p : N * N) : list bool * (Z * Z * Z * Z * Z * Z) :=
  let '(_, st', evs) := gen_Compress st (Z.of_N (fst p)) (Z.of_N (snd p)) in (evs_bits evs, st').

Fixpoint gen_compress_all (st : Z * Z * Z * Z * Z * Z) (pts : list (N * N)) : list bool * (Z * Z * Z * Z * Z * Z) :=
  match pts with
  | [] => ([], st)
  | p :: r =>
    let bs' := gen_step st p in
    let rest := gen_compress_all (snd bs') r in
    (fst bs' ++ fst rest, snd rest)
  end.

(* ---------- lists by position ---------- *)
Lemma nth_skipn_ {A} (d : A) : forall l (w : list A) i, nth i (skipn l w) d = nth (l + i) w d.
Proof.
  induction l as [|l IH]; intros w i; [reflexivity|].
  destruct w as [|a w]; [destruct i; reflexivity|]. cbn [skipn Nat.add nth]. apply IH.
Qed.

Lemma nth_firstn_ {A} (d : A) : forall k (w : list A) i, (i < k)%nat -> nth i (firstn k w) d = nth i w d.
Proof.
  induction k as [|k IH]; intros w i H; [lia|].
  destruct w as [|a w]; [reflexivity|]. destruct i as [|i]; [reflexivity|].
  cbn [firstn nth]. apply IH. lia.
Qed.

Lemma skipn_cons_nth {A} (d : A) : forall r (w : list A), (r < length w)%nat ->
  skipn r w = nth r w d :: skipn (S r) w.
Proof.
  induction r as [|r IH]; intros w H; destruct w as [|a w]; cbn [length] in H; try lia.
  - reflexivity.
  - cbn [skipn nth]. cbn [skipn] in IH. apply IH. lia.
Qed.

(* ---------- fixed-width fields by position ---------- *)
Lemma nth_N2bits_rev : forall k n i, (i < k)%nat ->
  nth i (N2bits_rev k n) false = N.testbit n (N.of_nat i).
Proof.
  induction k as [|k IH]; intros n i H; [lia|]. cbn [N2bits_rev]. destruct i as [|i].
  - cbn [nth]. change (N.of_nat 0) with 0%N. symmetry. apply N.bit0_odd.
  - cbn [nth]. rewrite IH by lia. rewrite Nat2N.inj_succ. symmetry. apply N.testbit_succ_r_div2. lia.
Qed.

Lemma nth_N2bits k n i : (i < k)%nat ->
  nth i (N2bits k n) false = N.testbit n (N.of_nat (k - 1 - i)).
Proof.
  intros H. unfold N2bits. rewrite rev_nth by (rewrite N2bits_rev_length; lia).
  rewrite N2bits_rev_length. rewrite nth_N2bits_rev by lia. f_equal. lia.
Qed.

Lemma nth_zbits k z i : (i < k)%nat ->
  nth i (zbits k z) false = Z.testbit z (Z.of_nat (k - 1 - i)).
Proof.
  intros H. unfold zbits. rewrite nth_N2bits by lia.
  assert (Hp : 0 <= z mod 2 ^ Z.of_nat k) by (apply Z.mod_pos_bound; apply Z.pow_pos_nonneg; lia).
  rewrite <- Z.testbit_of_N. rewrite Z2N.id by exact Hp. rewrite nat_N_Z.
  apply Z.mod_pow2_bits_low. lia.
Qed.

Lemma N2bits_mod k n : N2bits k (n mod 2 ^ N.of_nat k) = N2bits k n.
Proof.
  apply (nth_ext _ _ false false); [now rewrite !N2bits_length|].
  intros i Hi. rewrite N2bits_length in Hi. rewrite !nth_N2bits by exact Hi.
  apply N.mod_pow2_bits_low. lia.
Qed.

Lemma zbits_of_N k n : zbits k (Z.of_N n) = N2bits k n.
Proof.
  apply (nth_ext _ _ false false); [now rewrite zbits_length, N2bits_length|].
  intros i Hi. rewrite zbits_length in Hi. rewrite nth_zbits, nth_N2bits by exact Hi.
  rewrite <- nat_N_Z. apply Z.testbit_of_N.
Qed.

Lemma zbits_congr k a b : a mod 2 ^ Z.of_nat k = b mod 2 ^ Z.of_nat k -> zbits k a = zbits k b.
Proof. unfold zbits. intros ->. reflexivity. Qed.

Lemma zbits_wrap_u64 k z : (k <= 64)%nat -> zbits k (wrap_u64 z) = zbits k z.
Proof.
  intros Hk. apply (nth_ext _ _ false false); [now rewrite !zbits_length|].
  intros i Hi. rewrite zbits_length in Hi. rewrite !nth_zbits by exact Hi.
  unfold wrap_u64, wrap_u. apply Z.mod_pow2_bits_low. lia.
Qed.

Lemma nth_xorw a b i : length a = length b -> (i < length a)%nat ->
  nth i (xorw a b) false = xorb (nth i a false) (nth i b false).
Proof.
  intros Hl Hi. unfold xorw.
  pose (f := fun p : bool * bool => xorb (fst p) (snd p)).
  change (nth i (map f (combine a b)) (f (false, false)) = xorb (nth i a false) (nth i b false)).
  rewrite map_nth, combine_nth by exact Hl. reflexivity.
Qed.

Lemma N2bits_lxor k a b : N2bits k (N.lxor a b) = xorw (N2bits k a) (N2bits k b).
Proof.
  apply (nth_ext _ _ false false).
  - rewrite xorw_length by now rewrite !N2bits_length. now rewrite !N2bits_length.
  - intros i Hi. rewrite N2bits_length in Hi.
    rewrite nth_xorw by (rewrite !N2bits_length; auto).
    rewrite !nth_N2bits by exact Hi. apply N.lxor_spec.
Qed.

Lemma slice_N2bits (l t : nat) (x : N) : (l + t <= 64)%nat ->
  zbits (64 - l - t) (Z.shiftr (Z.of_N x) (Z.of_nat t)) = slice l t (N2bits 64 x).
Proof.
  intros H. apply (nth_ext _ _ false false).
  - rewrite zbits_length, slice_length; rewrite N2bits_length; lia.
  - intros i Hi. rewrite zbits_length in Hi. rewrite nth_zbits by exact Hi.
    unfold slice. rewrite N2bits_length. rewrite nth_firstn_ by exact Hi.
    rewrite nth_skipn_. rewrite nth_N2bits by lia.
    rewrite Z.shiftr_spec by lia. rewrite <- Z.testbit_of_N. f_equal. lia.
Qed.

Lemma iszero_zeros w : iszero w = true -> w = zeros (length w).
Proof.
  induction w as [|b w IH]; [reflexivity|]. cbn [iszero forallb length]. intros H.
  apply andb_true_iff in H as [Hb Hw]. destruct b; [discriminate|].
  change (zeros (S (length w))) with (false :: zeros (length w)). f_equal. apply IH. exact Hw.
Qed.

Lemma iszero_N2bits64 x : (x < 2 ^ 64)%N -> iszero (N2bits 64 x) = (x =? 0)%N.
Proof.
  intros Hx. destruct (N.eqb_spec x 0) as [->|Hne]; [reflexivity|].
  destruct (iszero (N2bits 64 x)) eqn:E; [|reflexivity]. exfalso. apply Hne.
  apply iszero_zeros in E. rewrite N2bits_length in E.
  rewrite <- (bits2N_N2bits_small 64 x) by exact Hx. rewrite E. reflexivity.
Qed.

(* ---------- the two counting loops ---------- *)
Fixpoint zloop (nx : Z -> Z) (v : Z) (fuel__ : nat) (mask ret : Z) {struct fuel__} : Z * Z :=
  match fuel__ with
  | O => (mask, ret)
  | S fuel_ =>
    if ((ret <? 64) && ((wrap_u64 (Z.land v mask)) =? 0))
    then zloop nx v fuel_ (nx mask) (wrap_u8 (ret + 1))
    else (mask, ret)
  end.

Lemma gen_leardingZeros_zloop v :
  gen_leardingZeros v = snd (zloop (fun m => wrap_u64 (Z.shiftr m 1)) v 70 9223372036854775808 0).
Proof. reflexivity. Qed.

Lemma gen_trailingZeros_zloop v :
  gen_trailingZeros v = snd (zloop (fun m => wrap_u64 (Z.shiftl m 1)) v 70 1 0).
Proof. reflexivity. Qed.

Lemma land_pow2 x p : 0 <= p -> Z.land x (2 ^ p) = if Z.testbit x p then 2 ^ p else 0.
Proof.
  intros Hp. apply Z.bits_inj'. intros n Hn. rewrite Z.land_spec, Z.pow2_bits_eqb by exact Hp.
  destruct (Z.eqb_spec p n) as [->|Hne].
  - destruct (Z.testbit x n) eqn:E; cbn [andb].
    + rewrite Z.pow2_bits_true by exact Hn. reflexivity.
    + rewrite Z.bits_0. reflexivity.
  - rewrite andb_false_r. destruct (Z.testbit x p).
    + rewrite Z.pow2_bits_false by lia. reflexivity.
    + rewrite Z.bits_0. reflexivity.
Qed.

Lemma mask_test x p : 0 <= p < 64 -> (wrap_u64 (Z.land x (2 ^ p)) =? 0) = negb (Z.testbit x p).
Proof.
  intros Hp. rewrite land_pow2 by lia.
  assert (H1 : 0 < 2 ^ p) by (apply Z.pow_pos_nonneg; lia).
  assert (H2 : 2 ^ p < 2 ^ 64) by (apply Z.pow_lt_mono_r; lia).
  unfold wrap_u64, wrap_u. destruct (Z.testbit x p); cbn [negb].
  - rewrite Z.mod_small by lia. apply Z.eqb_neq. lia.
  - reflexivity.
Qed.

Lemma zloop_spec (nx : Z -> Z) (pos : nat -> Z) (x : Z) (L : list bool) :
  length L = 64%nat ->
  (forall r, (r < 64)%nat -> nth r L false = Z.testbit x (pos r)) ->
  (forall r, (r < 64)%nat -> 0 <= pos r < 64) ->
  (forall r, (S r < 64)%nat -> nx (2 ^ pos r) = 2 ^ pos (S r)) ->
  forall fuel r mask, (r <= 64)%nat -> (64 - r < fuel)%nat -> ((r < 64)%nat -> mask = 2 ^ pos r) ->
  snd (zloop nx x fuel mask (Z.of_nat r)) = Z.of_nat (r + lz (skipn r L)).
Proof.
  intros HL Hnth Hpos Hnx. induction fuel as [|fuel IH]; intros r mask Hr Hf Hm; [lia|].
  cbn [zloop]. destruct (Z.of_nat r <? 64) eqn:E.
  - assert (Hr' : (r < 64)%nat) by lia. rewrite (Hm Hr'). cbn [andb].
    rewrite mask_test by (apply Hpos; exact Hr').
    rewrite (skipn_cons_nth false r L) by lia. rewrite (Hnth r Hr').
    destruct (Z.testbit x (pos r)) eqn:B; cbn [negb lz snd]; [lia|].
    replace (wrap_u8 (Z.of_nat r + 1)) with (Z.of_nat (S r)) by (unfold wrap_u8, wrap_u; change (2 ^ 8) with 256; lia).
    rewrite IH; [lia|lia|lia|]. intros Hs. apply Hnx. exact Hs.
  - cbn [andb snd]. rewrite skipn_all2 by lia. cbn [lz]. lia.
Qed.

Theorem gen_leardingZeros_is_lz : forall x : N, (x < 2 ^ 64)%N ->
  gen_leardingZeros (Z.of_N x) = Z.of_nat (lz (N2bits 64 x)).
Proof.
  intros x Hx. rewrite gen_leardingZeros_zloop.
  change 0 with (Z.of_nat 0) at 1.
  rewrite (zloop_spec _ (fun r => 63 - Z.of_nat r) (Z.of_N x) (N2bits 64 x)).
  - reflexivity.
  - apply N2bits_length.
  - intros r Hr. rewrite nth_N2bits by exact Hr. rewrite <- Z.testbit_of_N. f_equal. lia.
  - intros r Hr. lia.
  - intros r Hr. cbv beta. rewrite Z.shiftr_div_pow2 by lia.
    replace (63 - Z.of_nat r) with (63 - Z.of_nat (S r) + 1) by lia.
    rewrite Z.pow_add_r by lia. rewrite Z.div_mul by (change (2 ^ 1) with 2; lia).
    unfold wrap_u64, wrap_u. apply Z.mod_small. split; [apply Z.pow_nonneg; lia|apply Z.pow_lt_mono_r; lia].
  - lia.
  - lia.
  - intros _. reflexivity.
Qed.
Print Assumptions gen_leardingZeros_is_lz.

Theorem gen_trailingZeros_is_tz : forall x : N, (x < 2 ^ 64)%N ->
  gen_trailingZeros (Z.of_N x) = Z.of_nat (tz (N2bits 64 x)).
Proof.
  intros x Hx. rewrite gen_trailingZeros_zloop.
  change 0 with (Z.of_nat 0) at 1.
  unfold tz, N2bits. rewrite rev_involutive.
  rewrite (zloop_spec _ (fun r => Z.of_nat r) (Z.of_N x) (N2bits_rev 64 x)).
  - reflexivity.
  - apply N2bits_rev_length.
  - intros r Hr. rewrite nth_N2bits_rev by exact Hr. rewrite <- Z.testbit_of_N. f_equal. lia.
  - intros r Hr. lia.
  - intros r Hr. cbv beta. rewrite Z.shiftl_mul_pow2 by lia.
    rewrite <- Z.pow_add_r by lia. replace (Z.of_nat r + 1) with (Z.of_nat (S r)) by lia.
    unfold wrap_u64, wrap_u. apply Z.mod_small. split; [apply Z.pow_nonneg; lia|apply Z.pow_lt_mono_r; lia].
  - lia.
  - lia.
  - intros _. reflexivity.
Qed.
Print Assumptions gen_trailingZeros_is_tz.

(* ---------- wrappers ---------- *)
Ltac pw :=
  change (2 ^ 64) with 18446744073709551616 in *;
  change (2 ^ (64 - 1)) with 9223372036854775808 in *;
  change (2 ^ 32) with 4294967296 in *;
  change (2 ^ (32 - 1)) with 2147483648 in *;
  change (2 ^ 8) with 256 in *.
Ltac unwrap := unfold wrap_u64, wrap_i64, wrap_u32, wrap_i32, wrap_u8, wrap_s, wrap_u in *; pw.

Lemma wrap_i32_is z : wrap_i32 z = wrap32s z.
Proof. unfold wrap32s. unwrap. reflexivity. Qed.

Lemma wrap_i64_small z : -9223372036854775808 <= z < 9223372036854775808 -> wrap_i64 z = z.
Proof. intros H. unwrap. lia. Qed.

Lemma wrap_u64_small z : 0 <= z < 18446744073709551616 -> wrap_u64 z = z.
Proof. intros H. unwrap. lia. Qed.

Lemma zbits_nat k (n : nat) z : z = Z.of_nat n -> zbits k z = N2bits k (N.of_nat n).
Proof. intros ->. rewrite <- nat_N_Z. apply zbits_of_N. Qed.

(* ---------- writeInt64Bits ---------- *)
Lemma gen_writeInt64Bits_ev dod n : (n = 7 \/ n = 9 \/ n = 12 \/ n = 32) ->
  exists u, gen_writeInt64Bits dod n = (tt, tt, [(1, [u; n])]) /\ u mod 2 ^ n = dod mod 2 ^ n.
Proof.
  intros Hn. unfold gen_writeInt64Bits. cbv zeta. cbn [app].
  destruct ((0 <=? dod) || (64 <=? n)) eqn:E.
  - exists (wrap_u64 dod). split.
    + destruct Hn as [-> | [-> | [-> | ->]]]; reflexivity.
    + unwrap. destruct Hn as [-> | [-> | [-> | ->]]];
        [change (2 ^ 7) with 128|change (2 ^ 9) with 512|change (2 ^ 12) with 4096|change (2 ^ 32) with 4294967296]; lia.
  - exists (wrap_u64 (wrap_i64 (wrap_i64 (Z.shiftl 1 n) + dod))). split.
    + destruct Hn as [-> | [-> | [-> | ->]]]; reflexivity.
    + destruct Hn as [-> | [-> | [-> | ->]]].
      * change (Z.shiftl 1 7) with 128. change (2 ^ 7) with 128. unwrap. lia.
      * change (Z.shiftl 1 9) with 512. change (2 ^ 9) with 512. unwrap. lia.
      * change (Z.shiftl 1 12) with 4096. change (2 ^ 12) with 4096. unwrap. lia.
      * change (Z.shiftl 1 32) with 4294967296. unwrap. lia.
Qed.

(* ---------- compressTimestamp ---------- *)
Lemma gen_compressTimestamp_is_model (s : est) (t : N) (c_l c_tz c_v : Z) :
  in_i32 (e_t s) -> in_i32 (e_td s) ->
  let '(_, st', evs) := gen_compressTimestamp (e_hdr s, e_t s, e_td s, c_l, c_tz, c_v) (Z.of_N t) in
  let '(tb, ti, delta) := enc_ts s t in
  evs_bits evs = tb /\ st' = (e_hdr s, ti, delta, c_l, c_tz, c_v).
Proof.
  intros Ht Htd. unfold gen_compressTimestamp, enc_ts. cbv beta iota zeta.
  rewrite (wrap_i32_is (Z.of_N t)). rewrite (wrap_i32_is (wrap32s (Z.of_N t) - e_t s)).
  set (ti := wrap32s (Z.of_N t)).
  set (delta := wrap32s (ti - e_t s)).
  assert (Hd : in_i32 delta) by apply wrap32s_range.
  unfold in_i32 in *.
  rewrite (wrap_i64_small delta) by lia.
  rewrite (wrap_i64_small (e_td s)) by lia.
  rewrite (wrap_i64_small (delta - e_td s)) by lia.
  set (dod := delta - e_td s).
  destruct (dod =? 0) eqn:E0; [split; reflexivity|].
  destruct ((-63 <=? dod) && (dod <=? 64)) eqn:E1.
  { destruct (gen_writeInt64Bits_ev dod 7) as (u & Eu & Hu); [tauto|]. rewrite Eu.
    cbn [app]. split; [|reflexivity].
    cbn [evs_bits flat_map ev_bits app]. change (Z.to_nat 7) with 7%nat.
    rewrite (zbits_congr 7 u dod Hu). rewrite app_nil_r. reflexivity. }
  destruct ((-255 <=? dod) && (dod <=? 256)) eqn:E2.
  { destruct (gen_writeInt64Bits_ev dod 9) as (u & Eu & Hu); [tauto|]. rewrite Eu.
    cbn [app]. split; [|reflexivity].
    cbn [evs_bits flat_map ev_bits app]. change (Z.to_nat 9) with 9%nat.
    rewrite (zbits_congr 9 u dod Hu). rewrite app_nil_r. reflexivity. }
  destruct ((-2047 <=? dod) && (dod <=? 2048)) eqn:E3.
  { destruct (gen_writeInt64Bits_ev dod 12) as (u & Eu & Hu); [tauto|]. rewrite Eu.
    cbn [app]. split; [|reflexivity].
    cbn [evs_bits flat_map ev_bits app]. change (Z.to_nat 12) with 12%nat.
    rewrite (zbits_congr 12 u dod Hu). rewrite app_nil_r. reflexivity. }
  destruct (gen_writeInt64Bits_ev dod 32) as (u & Eu & Hu); [tauto|]. rewrite Eu.
  cbn [app]. split; [|reflexivity].
  cbn [evs_bits flat_map ev_bits app]. change (Z.to_nat 32) with 32%nat.
  rewrite (zbits_congr 32 u dod Hu). rewrite app_nil_r. reflexivity.
Qed.

(* ---------- compressValue ---------- *)
Lemma Z_lxor_of_N p v : Z.lxor (Z.of_N p) (Z.of_N v) = Z.of_N (N.lxor p v).
Proof. destruct p, v; reflexivity. Qed.

Lemma reuse_bits (l0 t0 : nat) (X : N) : (l0 + t0 <= 64)%nat ->
  evs_bits [(0, [1]); (0, [0]);
            (1, [wrap_u64 (Z.shiftr (Z.of_N X) (Z.of_nat t0));
                 wrap_i64 (wrap_u8 (wrap_u8 (64 - Z.of_nat l0) - Z.of_nat t0))])]
  = true :: false :: slice l0 t0 (N2bits 64 X).
Proof.
  intros H. cbn [evs_bits flat_map ev_bits app Z.eqb negb]. rewrite app_nil_r. f_equal. f_equal.
  replace (wrap_i64 (wrap_u8 (wrap_u8 (64 - Z.of_nat l0) - Z.of_nat t0))) with (Z.of_nat (64 - l0 - t0))
    by (unwrap; lia).
  rewrite Nat2Z.id. rewrite zbits_wrap_u64 by lia. apply slice_N2bits. exact H.
Qed.

Lemma new_bits (L T : Z) (l tz : nat) (X : N) :
  L = Z.of_nat l -> T = Z.of_nat tz -> (l <= 31)%nat -> (l + tz < 64)%nat ->
  evs_bits [(0, [1]); (0, [1]); (1, [wrap_u64 L; 5]);
            (1, [wrap_u64 (wrap_u8 (wrap_u8 (64 - L) - T)); 6]);
            (1, [wrap_u64 (Z.shiftr (Z.of_N X) T); wrap_i64 (wrap_u8 (wrap_u8 (64 - L) - T))])]
  = true :: true :: N2bits 5 (N.of_nat l) ++ N2bits 6 (N.of_nat (64 - l - tz)) ++ slice l tz (N2bits 64 X).
Proof.
  intros -> -> Hl Hlt. cbn [evs_bits flat_map ev_bits app Z.eqb negb]. rewrite app_nil_r. f_equal. f_equal.
  change (Z.to_nat 5) with 5%nat. change (Z.to_nat 6) with 6%nat.
  assert (ES : wrap_u8 (wrap_u8 (64 - Z.of_nat l) - Z.of_nat tz) = Z.of_nat (64 - l - tz)) by (unwrap; lia).
  rewrite ES. f_equal; [|f_equal].
  - rewrite zbits_wrap_u64 by lia. apply zbits_nat. reflexivity.
  - rewrite zbits_wrap_u64 by lia. apply zbits_nat. reflexivity.
  - rewrite (wrap_i64_small (Z.of_nat (64 - l - tz))) by lia.
    rewrite Nat2Z.id. rewrite zbits_wrap_u64 by lia. apply slice_N2bits. lia.
Qed.

Lemma gen_compressValue_is_model (h t td : Z) (l0 t0 : nat) (p v : N) :
  (p < 2 ^ 64)%N -> (v < 2 ^ 64)%N -> (l0 <= 255)%nat -> (t0 <= 64)%nat ->
  let '(_, st', evs) := gen_compressValue (h, t, td, Z.of_nat l0, Z.of_nat t0, Z.of_N p) (Z.of_N v) in
  let '(vb, l, tz') := enc_val l0 t0 (N2bits 64 p) (N2bits 64 v) in
  evs_bits evs = vb /\ st' = (h, t, td, Z.of_nat l, Z.of_nat tz', Z.of_N v) /\
  (l <= 255)%nat /\ (tz' <= 64)%nat.
Proof.
  intros Hp Hv Hl0 Ht0. unfold gen_compressValue, enc_val. cbv beta iota zeta.
  set (X := (N.lxor p v mod 2 ^ 64)%N).
  assert (HX : (X < 2 ^ 64)%N) by (unfold X; apply N.mod_lt; discriminate).
  assert (EX : wrap_u64 (Z.lxor (Z.of_N p) (Z.of_N v)) = Z.of_N X).
  { unfold X. rewrite Z_lxor_of_N. unfold wrap_u64, wrap_u.
    change (2 ^ 64) with (Z.of_N (2 ^ 64)). rewrite <- N2Z.inj_mod. reflexivity. }
  rewrite EX. clear EX.
  assert (Ex : xorw (N2bits 64 p) (N2bits 64 v) = N2bits 64 X).
  { rewrite <- N2bits_lxor. unfold X. symmetry. apply (N2bits_mod 64). }
  rewrite Ex. clear Ex.
  rewrite (iszero_N2bits64 X HX).
  destruct (N.eqb_spec X 0) as [E0|E0].
  - replace (Z.of_N X =? 0) with true by lia. cbv beta iota. cbn [app].
    repeat split; try reflexivity; lia.
  - replace (Z.of_N X =? 0) with false by lia. cbv beta iota.
    rewrite (gen_leardingZeros_is_lz X HX), (gen_trailingZeros_is_tz X HX).
    set (x := N2bits 64 X).
    assert (Hlt : (lz x + tz x < 64)%nat).
    { pose proof (lz_tz_lt x) as L. unfold x in L at 1 4. rewrite N2bits_length in L. apply L.
      rewrite (iszero_N2bits64 X HX). apply N.eqb_neq. exact E0. }
    set (l := Nat.min (lz x) 31).
    assert (W : forall L, L = Z.of_nat l ->
              (Z.of_nat l0 <=? L) && (Z.of_nat t0 <=? Z.of_nat (tz x)) = (l0 <=? l)%nat && (t0 <=? tz x)%nat)
      by (intros L ->; lia).
    destruct (32 <=? Z.of_nat (lz x)) eqn:E32.
    + rewrite (W 31) by lia. destruct ((l0 <=? l)%nat && (t0 <=? tz x)%nat) eqn:EW; cbn [app].
      * split; [apply reuse_bits; lia|split; [reflexivity|lia]].
      * split; [apply new_bits; lia|split; [repeat f_equal; lia|lia]].
    + rewrite (W (Z.of_nat (lz x))) by lia. destruct ((l0 <=? l)%nat && (t0 <=? tz x)%nat) eqn:EW; cbn [app].
      * split; [apply reuse_bits; lia|split; [reflexivity|lia]].
      * split; [apply new_bits; lia|split; [repeat f_equal; lia|lia]].
Qed.

(* ---------- one point ---------- *)
Lemma bits2N_lt64 w : length w = 64%nat -> (bits2N w < 2 ^ 64)%N.
Proof.
  intros H. rewrite <- (N2bits_bits2N w), H. rewrite bits2N_N2bits.
  apply N.mod_lt. discriminate.
Qed.

Theorem gen_Compress_is_model : forall (s : est) (t v : N),
  est_ok s -> (t < 2 ^ 32)%N -> (v < 2 ^ 64)%N ->
  let '(_, st', evs) := gen_Compress (abs_est s) (Z.of_N t) (Z.of_N v) in
  let '(bits, s') := compress s t v in
  evs_bits evs = bits /\ st' = abs_est s' /\ est_ok s'.
Proof.
  intros s t v (Hh & Ht & Htd & Hl & Htz & Hv) Ht32 Hv64.
  unfold gen_Compress, abs_est, compress. cbv beta iota zeta.
  destruct (e_t s =? 0) eqn:E0.
  - rewrite (wrap_i32_is (Z.of_N t)). set (ti := wrap32s (Z.of_N t)).
    rewrite (wrap_i32_is (ti - e_hdr s)), (wrap_i32_is (e_hdr s - ti)).
    assert (Hti : in_i32 ti) by apply wrap32s_range.
    assert (Hbits : forall delta,
      evs_bits [(1, [wrap_u64 delta; 14]); (1, [Z.of_N v; 64])] = zbits 14 delta ++ vbits v).
    { intros delta. cbn [evs_bits flat_map ev_bits app].
      change (Z.to_nat 14) with 14%nat. change (Z.to_nat 64) with 64%nat.
      rewrite app_nil_r, zbits_wrap_u64 by lia. rewrite zbits_of_N. reflexivity. }
    destruct (wrap32s (ti - e_hdr s) <? 0) eqn:En; cbn [app]; (split; [apply Hbits|]);
      cbn [e_hdr e_t e_td e_l e_tz e_v]; rewrite (bits2N_vbits v Hv64);
      (split; [reflexivity|]); unfold est_ok; cbn [e_hdr e_t e_td e_l e_tz e_v];
      repeat split; auto using wrap32s_range, vbits_length; try apply Hh; try apply Hti; try apply wrap32s_range.
  - unfold gen_compress. cbv beta iota zeta.
    pose proof (gen_compressTimestamp_is_model s t (Z.of_nat (e_l s)) (Z.of_nat (e_tz s)) (Z.of_N (bits2N (e_v s))) Ht Htd) as Hts.
    unfold enc_ts in *. cbv beta iota zeta in Hts.
    destruct (gen_compressTimestamp _ _) as [[r0 st1] ev1]. destruct Hts as [Hb1 Hst1]. subst st1.
    cbv beta iota.
    rewrite <- Hb1. clear Hb1.
    pose proof (gen_compressValue_is_model (e_hdr s) (wrap32s (Z.of_N t)) (wrap32s (wrap32s (Z.of_N t) - e_t s))
                  (e_l s) (e_tz s) (bits2N (e_v s)) v (bits2N_lt64 _ Hv) Hv64 Hl Htz) as Hvl.
    pose proof (N2bits_bits2N (e_v s)) as Ev. rewrite Hv in Ev. rewrite Ev in Hvl. clear Ev.
    fold (vbits v) in Hvl.
    destruct (gen_compressValue _ _) as [[r1 st2] ev2].
    destruct (enc_val (e_l s) (e_tz s) (e_v s) (vbits v)) as [[vb l] tz'].
    destruct Hvl as (Hb2 & Hst2 & Hl' & Htz'). subst st2. cbv beta iota.
    cbn [app e_hdr e_t e_td e_l e_tz e_v].
    split; [|split].
    + unfold evs_bits in *. rewrite flat_map_app. rewrite Hb2. reflexivity.
    + rewrite (bits2N_vbits v Hv64). reflexivity.
    + unfold est_ok. cbn [e_hdr e_t e_td e_l e_tz e_v].
      repeat split; auto using wrap32s_range, vbits_length; try apply Hh; try apply wrap32s_range.
Qed.
Print Assumptions gen_Compress_is_model.

(* ---------- every series ---------- *)
Theorem gen_compress_all_is_model : forall (pts : list (N * N)) (s : est),
  est_ok s -> Forall (fun p => (fst p < 2 ^ 32)%N /\ (snd p < 2 ^ 64)%N) pts ->
  let '(bits, st') := gen_compress_all (abs_est s) pts in
  let '(mbits, s') := compress_all s pts in
  bits = mbits /\ st' = abs_est s'.
Proof.
  induction pts as [|[t v] pts IH]; intros s Hs Hall.
  - cbn [gen_compress_all compress_all]. split; reflexivity.
  - inversion Hall as [|p l [Ht Hv] Hall']; subst. cbn [fst snd] in Ht, Hv.
    cbn [gen_compress_all compress_all]. unfold gen_step. cbn [fst snd].
    pose proof (gen_Compress_is_model s t v Hs Ht Hv) as H1.
    destruct (gen_Compress (abs_est s) (Z.of_N t) (Z.of_N v)) as [[u st1] evs].
    destruct (compress s t v) as [b1 s1].
    destruct H1 as [Hb [Hst Hok]]. subst st1. cbn [fst snd].
    specialize (IH s1 Hok Hall').
    destruct (gen_compress_all (abs_est s1) pts) as [bs st2].
    destruct (compress_all s1 pts) as [mbs s2].
    destruct IH as [IH1 IH2]. cbn [fst snd]. split; [congruence|exact IH2].
Qed.
Print Assumptions gen_compress_all_is_model.

Theorem enc_init_ok : forall hdr : N, (hdr < 2 ^ 32)%N -> est_ok (enc_init hdr).
Proof.
  intros hdr Hh. unfold est_ok, enc_init. cbn [e_hdr e_t e_td e_l e_tz e_v].
  repeat split; try apply wrap32s_range; try lia.
Qed.
Print Assumptions enc_init_ok.

(* ---------- the finish marker and the whole bit stream of a series ---------- *)
(* flush (event 2) pads the last byte with zero bits: that is `pack`, not part of the bit stream *)
Theorem gen_finish_is_model : forall s : est,
  let '(_, st', evs) := gen_finish (abs_est s) in
  evs_bits evs = finish s /\ st' = abs_est s.
Proof.
  intros s. unfold gen_finish, abs_est, finish.
  destruct (e_t s =? 0) eqn:E; cbn [app evs_bits flat_map ev_bits]; split; reflexivity.
Qed.
Print Assumptions gen_finish_is_model.

(* header (NewCompressor writes it with writeBits(uint64(header), 32)), every point through the regenerated
   Compress, then the regenerated finish *)
Definition gen_encode_bits (hdr : N) (pts : list (N * N)) : list bool :=
  let bs := gen_compress_all (abs_est (enc_init hdr)) pts in
  let '(_, _, evs) := gen_finish (snd bs) in
  ev_bits (1, [Z.of_N hdr; 32]) ++ fst bs ++ evs_bits evs.

Theorem gen_encode_bits_is_model : forall (hdr : N) (pts : list (N * N)),
  (hdr < 2 ^ 32)%N -> Forall (fun p => (fst p < 2 ^ 32)%N /\ (snd p < 2 ^ 64)%N) pts ->
  gen_encode_bits hdr pts = encode_bits hdr pts.
Proof.
  intros hdr pts Hh Hp. unfold gen_encode_bits, encode_bits.
  pose proof (gen_compress_all_is_model pts (enc_init hdr) (enc_init_ok hdr Hh) Hp) as H.
  destruct (gen_compress_all (abs_est (enc_init hdr)) pts) as [bs st].
  destruct (compress_all (enc_init hdr) pts) as [mbs s'].
  destruct H as [Hb Hst]. subst bs st. cbn [fst snd].
  pose proof (gen_finish_is_model s') as Hf.
  destruct (gen_finish (abs_est s')) as [[u st'] evs]. destruct Hf as [Hf _]. rewrite Hf.
  f_equal. unfold ev_bits, enc_header. rewrite zbits_of_N. reflexivity.
Qed.
Print Assumptions gen_encode_bits_is_model.

(* the bytes produced by the regenerated compressor decode to the series that went in *)
Theorem gen_encoder_roundtrip : forall (hdr : N) (pts : list (N * N)),
  series_ok hdr pts -> (hdr < 2 ^ 32)%N -> Forall (fun p => (fst p < 2 ^ 32)%N /\ (snd p < 2 ^ 64)%N) pts ->
  decode (pack (gen_encode_bits hdr pts)) = pts.
Proof.
  intros hdr pts Hok Hh Hp. rewrite gen_encode_bits_is_model by assumption.
  exact (gorilla_roundtrip hdr pts Hok).
Qed.
Print Assumptions gen_encoder_roundtrip.

(* GenC08.v — the Gorilla compressor REGENERATED from compressor.go on every run (coq/gen/Gen.v,
   produced by gotrans in its stateful mode: receiver fields threaded as a tuple, the calls
   c.bw.writeBit / c.bw.writeBits recorded as events) emits, for every series, exactly the bit
   stream of the hand-written model `compress_all` that the round-trip theorems are about.

   Interpretation of the events (the contract of bit_writer.go, which is tied to Bits.pack by the
   byte-for-byte correspondence of ./check C08): writeBit(b) appends the bit b; writeBits(u, n)
   appends the n right-most bits of u, most significant first. *)
From Coq Require Import ZArith List Lia Bool.
From Coq Require Import ZifyN ZifyNat ZifyBool.
From SigG Require Import Gen.
From SigM Require Import Base Bits Gorilla.
From SigP Require Import BaseProofs BitsProofs GorillaProofs.
Import ListNotations.
Ltac Zify.zify_post_hook ::= Z.div_mod_to_equations.
Open Scope Z_scope.

Definition ev_bits (e : Z * list Z) : list bool :=
  match e with
  | (0, [b]) => [negb (b =? 0)]
  | (1, [u; n]) => zbits (Z.to_nat n) u
  | _ => []
  end.
Definition evs_bits (evs : list (Z * list Z)) : list bool := flat_map ev_bits evs.

(* the Go Compressor's integer fields as a function of the model's encoder state *)
Definition abs_est (s : est) : Z * Z * Z * Z * Z * Z :=
  (e_hdr s, e_t s, e_td s, Z.of_nat (e_l s), Z.of_nat (e_tz s), Z.of_N (bits2N (e_v s))).

Definition est_ok (s : est) : Prop :=
  in_i32 (e_hdr s) /\ in_i32 (e_t s) /\ in_i32 (e_td s) /\
  (e_l s <= 255)%nat /\ (e_tz s <= 64)%nat /\ length (e_v s) = 64%nat.

Fixpoint gen_compress_all (st : Z * Z * Z * Z * Z * Z) (pts : list (N * N)) : list bool * (Z * Z * Z * Z * Z * Z) :=
  match pts with
  | [] => ([], st)
  | (t, v) :: r =>
    let '(_, st', evs) := gen_Compress st (Z.of_N t) (Z.of_N v) in
    let '(bs, st'') := gen_compress_all st' r in
    (evs_bits evs ++ bs, st'')
  end.

(* ---------- lists by position ---------- *)
Lemma nth_skipn_ {A} (d : A) : forall l (w : list A) i, nth i (skipn l w) d = nth (l + i) w d.
Proof.
  induction l as [|l IH]; intros w i; [reflexivity|].
  destruct w as [|a w]; [destruct i; reflexivity|]. cbn [skipn Nat.add nth]. apply IH.
Qed.

Lemma nth_firstn_ {A} (d : A) : forall k (w : list A) i, (i < k)%nat -> nth i (firstn k w) d = nth i w d.
Proof.
  induction k as [|k IH]; intros w i H; [lia|].
  destruct w as [|a w]; [reflexivity|]. destruct i as [|i]; [reflexivity|].
  cbn [firstn nth]. apply IH. lia.
Qed.

Lemma skipn_cons_nth {A} (d : A) : forall r (w : list A), (r < length w)%nat ->
  skipn r w = nth r w d :: skipn (S r) w.
Proof.
  induction r as [|r IH]; intros w H; destruct w as [|a w]; cbn [length] in H; try lia.
  - reflexivity.
  - cbn [skipn nth]. cbn [skipn] in IH. apply IH. lia.
Qed.

(* ---------- fixed-width fields by position ---------- *)
Lemma nth_N2bits_rev : forall k n i, (i < k)%nat ->
  nth i (N2bits_rev k n) false = N.testbit n (N.of_nat i).
Proof.
  induction k as [|k IH]; intros n i H; [lia|]. cbn [N2bits_rev]. destruct i as [|i].
  - cbn [nth]. change (N.of_nat 0) with 0%N. symmetry. apply N.bit0_odd.
  - cbn [nth]. rewrite IH by lia. rewrite N.div2_spec. f_equal. lia.
Qed.

Lemma nth_N2bits k n i : (i < k)%nat ->
  nth i (N2bits k n) false = N.testbit n (N.of_nat (k - 1 - i)).
Proof.
  intros H. unfold N2bits. rewrite rev_nth by (rewrite N2bits_rev_length; lia).
  rewrite N2bits_rev_length. rewrite nth_N2bits_rev by lia. f_equal. lia.
Qed.

Lemma nth_zbits k z i : (i < k)%nat ->
  nth i (zbits k z) false = Z.testbit z (Z.of_nat (k - 1 - i)).
Proof.
  intros H. unfold zbits. rewrite nth_N2bits by lia.
  assert (Hp : 0 <= z mod 2 ^ Z.of_nat k) by (apply Z.mod_pos_bound; apply Z.pow_pos_nonneg; lia).
  rewrite <- Z.testbit_of_N. rewrite Z2N.id by exact Hp. rewrite nat_N_Z.
  apply Z.mod_pow2_bits_low. lia.
Qed.

Lemma N2bits_mod k n : N2bits k (n mod 2 ^ N.of_nat k) = N2bits k n.
Proof.
  apply (nth_ext _ _ false false); [now rewrite !N2bits_length|].
  intros i Hi. rewrite N2bits_length in Hi. rewrite !nth_N2bits by exact Hi.
  apply N.mod_pow2_bits_low. lia.
Qed.

Lemma zbits_of_N k n : zbits k (Z.of_N n) = N2bits k n.
Proof.
  apply (nth_ext _ _ false false); [now rewrite zbits_length, N2bits_length|].
  intros i Hi. rewrite zbits_length in Hi. rewrite nth_zbits, nth_N2bits by exact Hi.
  rewrite <- nat_N_Z. apply Z.testbit_of_N.
Qed.

Lemma zbits_congr k a b : a mod 2 ^ Z.of_nat k = b mod 2 ^ Z.of_nat k -> zbits k a = zbits k b.
Proof. unfold zbits. intros ->. reflexivity. Qed.

Lemma zbits_wrap_u64 k z : (k <= 64)%nat -> zbits k (wrap_u64 z) = zbits k z.
Proof.
  intros Hk. apply (nth_ext _ _ false false); [now rewrite !zbits_length|].
  intros i Hi. rewrite zbits_length in Hi. rewrite !nth_zbits by exact Hi.
  unfold wrap_u64, wrap_u. apply Z.mod_pow2_bits_low. lia.
Qed.

Lemma nth_xorw a b i : length a = length b -> (i < length a)%nat ->
  nth i (xorw a b) false = xorb (nth i a false) (nth i b false).
Proof.
  intros Hl Hi. unfold xorw.
  pose (f := fun p : bool * bool => xorb (fst p) (snd p)).
  change (nth i (map f (combine a b)) (f (false, false)) = xorb (nth i a false) (nth i b false)).
  rewrite map_nth, combine_nth by exact Hl. reflexivity.
Qed.

Lemma N2bits_lxor k a b : N2bits k (N.lxor a b) = xorw (N2bits k a) (N2bits k b).
Proof.
  apply (nth_ext _ _ false false).
  - rewrite xorw_length by now rewrite !N2bits_length. now rewrite !N2bits_length.
  - intros i Hi. rewrite N2bits_length in Hi.
    rewrite nth_xorw by (rewrite !N2bits_length; auto).
    rewrite !nth_N2bits by exact Hi. apply N.lxor_spec.
Qed.

Lemma slice_N2bits (l t : nat) (x : N) : (l + t <= 64)%nat ->
  zbits (64 - l - t) (Z.shiftr (Z.of_N x) (Z.of_nat t)) = slice l t (N2bits 64 x).
Proof.
  intros H. apply (nth_ext _ _ false false).
  - rewrite zbits_length, slice_length; rewrite N2bits_length; lia.
  - intros i Hi. rewrite zbits_length in Hi. rewrite nth_zbits by exact Hi.
    unfold slice. rewrite N2bits_length. rewrite nth_firstn_ by exact Hi.
    rewrite nth_skipn_. rewrite nth_N2bits by lia.
    rewrite Z.shiftr_spec by lia. rewrite <- Z.testbit_of_N. f_equal. lia.
Qed.

Lemma iszero_zeros w : iszero w = true -> w = zeros (length w).
Proof.
  induction w as [|b w IH]; [reflexivity|]. cbn [iszero forallb length]. intros H.
  apply andb_true_iff in H as [Hb Hw]. destruct b; [discriminate|].
  change (zeros (S (length w))) with (false :: zeros (length w)). f_equal. apply IH. exact Hw.
Qed.

Lemma iszero_N2bits64 x : (x < 2 ^ 64)%N -> iszero (N2bits 64 x) = (x =? 0)%N.
Proof.
  intros Hx. destruct (N.eqb_spec x 0) as [->|Hne]; [reflexivity|].
  destruct (iszero (N2bits 64 x)) eqn:E; [|reflexivity]. exfalso. apply Hne.
  apply iszero_zeros in E. rewrite N2bits_length in E.
  rewrite <- (bits2N_N2bits_small 64 x) by exact Hx. rewrite E. reflexivity.
Qed.

(* ---------- the two counting loops ---------- *)
Fixpoint zloop (nx : Z -> Z) (v : Z) (fuel__ : nat) (mask ret : Z) {struct fuel__} : Z * Z :=
  match fuel__ with
  | O => (mask, ret)
  | S fuel_ =>
    if ((ret <? 64) && ((wrap_u64 (Z.land v mask)) =? 0))
    then zloop nx v fuel_ (nx mask) (wrap_u8 (ret + 1))
    else (mask, ret)
  end.

Lemma gen_leardingZeros_zloop v :
  gen_leardingZeros v = snd (zloop (fun m => wrap_u64 (Z.shiftr m 1)) v 70 9223372036854775808 0).
Proof. reflexivity. Qed.

Lemma gen_trailingZeros_zloop v :
  gen_trailingZeros v = snd (zloop (fun m => wrap_u64 (Z.shiftl m 1)) v 70 1 0).
Proof. reflexivity. Qed.

Lemma land_pow2 x p : 0 <= p -> Z.land x (2 ^ p) = if Z.testbit x p then 2 ^ p else 0.
Proof.
  intros Hp. apply Z.bits_inj'. intros n Hn. rewrite Z.land_spec, Z.pow2_bits_eqb by exact Hp.
  destruct (Z.eqb_spec p n) as [->|Hne].
  - destruct (Z.testbit x n) eqn:E; cbn [andb].
    + rewrite Z.pow2_bits_true by exact Hn. reflexivity.
    + rewrite Z.bits_0. reflexivity.
  - rewrite andb_false_r. destruct (Z.testbit x p).
    + rewrite Z.pow2_bits_false by lia. reflexivity.
    + rewrite Z.bits_0. reflexivity.
Qed.

Lemma mask_test x p : 0 <= p < 64 -> (wrap_u64 (Z.land x (2 ^ p)) =? 0) = negb (Z.testbit x p).
Proof.
  intros Hp. rewrite land_pow2 by lia.
  assert (H1 : 0 < 2 ^ p) by (apply Z.pow_pos_nonneg; lia).
  assert (H2 : 2 ^ p < 2 ^ 64) by (apply Z.pow_lt_mono_r; lia).
  unfold wrap_u64, wrap_u. destruct (Z.testbit x p); cbn [negb].
  - rewrite Z.mod_small by lia. apply Z.eqb_neq. lia.
  - reflexivity.
Qed.

Lemma zloop_spec (nx : Z -> Z) (pos : nat -> Z) (x : Z) (L : list bool) :
  length L = 64%nat ->
  (forall r, (r < 64)%nat -> nth r L false = Z.testbit x (pos r)) ->
  (forall r, (r < 64)%nat -> 0 <= pos r < 64) ->
  (forall r, (S r < 64)%nat -> nx (2 ^ pos r) = 2 ^ pos (S r)) ->
  forall fuel r mask, (r <= 64)%nat -> (64 - r < fuel)%nat -> ((r < 64)%nat -> mask = 2 ^ pos r) ->
  snd (zloop nx x fuel mask (Z.of_nat r)) = Z.of_nat (r + lz (skipn r L)).
Proof.
  intros HL Hnth Hpos Hnx. induction fuel as [|fuel IH]; intros r mask Hr Hf Hm; [lia|].
  cbn [zloop]. destruct (Z.of_nat r <? 64) eqn:E.
  - assert (Hr' : (r < 64)%nat) by lia. rewrite (Hm Hr'). cbn [andb].
    rewrite mask_test by (apply Hpos; exact Hr').
    rewrite (skipn_cons_nth false r L) by lia. rewrite (Hnth r Hr').
    destruct (Z.testbit x (pos r)) eqn:B; cbn [negb lz snd]; [lia|].
    replace (wrap_u8 (Z.of_nat r + 1)) with (Z.of_nat (S r)) by (unfold wrap_u8, wrap_u; change (2 ^ 8) with 256; lia).
    rewrite IH; [lia|lia|lia|]. intros Hs. apply Hnx. exact Hs.
  - cbn [andb snd]. rewrite skipn_all2 by lia. cbn [lz]. lia.
Qed.

Theorem gen_leardingZeros_is_lz : forall x : N, (x < 2 ^ 64)%N ->
  gen_leardingZeros (Z.of_N x) = Z.of_nat (lz (N2bits 64 x)).
Proof.
  intros x Hx. rewrite gen_leardingZeros_zloop.
  change 0 with (Z.of_nat 0) at 2.
  rewrite (zloop_spec _ (fun r => 63 - Z.of_nat r) (Z.of_N x) (N2bits 64 x)).
  - reflexivity.
  - apply N2bits_length.
  - intros r Hr. rewrite nth_N2bits by exact Hr. rewrite <- Z.testbit_of_N. f_equal. lia.
  - intros r Hr. lia.
  - intros r Hr. cbv beta. rewrite Z.shiftr_div_pow2 by lia.
    replace (63 - Z.of_nat r) with (63 - Z.of_nat (S r) + 1) by lia.
    rewrite Z.pow_add_r by lia. rewrite Z.div_mul by (change (2 ^ 1) with 2; lia).
    unfold wrap_u64, wrap_u. apply Z.mod_small. split; [apply Z.pow_nonneg; lia|apply Z.pow_lt_mono_r; lia].
  - lia.
  - lia.
  - intros _. reflexivity.
Qed.
Print Assumptions gen_leardingZeros_is_lz.

Theorem gen_trailingZeros_is_tz : forall x : N, (x < 2 ^ 64)%N ->
  gen_trailingZeros (Z.of_N x) = Z.of_nat (tz (N2bits 64 x)).
Proof.
  intros x Hx. rewrite gen_trailingZeros_zloop.
  change 0 with (Z.of_nat 0) at 2.
  unfold tz, N2bits. rewrite rev_involutive.
  rewrite (zloop_spec _ (fun r => Z.of_nat r) (Z.of_N x) (N2bits_rev 64 x)).
  - reflexivity.
  - apply N2bits_rev_length.
  - intros r Hr. rewrite nth_N2bits_rev by exact Hr. rewrite <- Z.testbit_of_N. f_equal. lia.
  - intros r Hr. lia.
  - intros r Hr. cbv beta. rewrite Z.shiftl_mul_pow2 by lia.
    rewrite <- Z.pow_add_r by lia. replace (Z.of_nat r + 1) with (Z.of_nat (S r)) by lia.
    unfold wrap_u64, wrap_u. apply Z.mod_small. split; [apply Z.pow_nonneg; lia|apply Z.pow_lt_mono_r; lia].
  - lia.
  - lia.
  - intros _. reflexivity.
Qed.
Print Assumptions gen_trailingZeros_is_tz.

(* GenC08all.v — from the Go source to the stored bytes: the calls the REGENERATED compressor (coq/gen/Gen.v:
   gen_Compress, gen_finish) makes on the bit writer are fed to the REGENERATED bit writer (the gen_bw functions); the bytes it
   hands to the io.Writer are exactly `encode` of the hand-written model, for every series, so they decode to the
   series that went in.  Nothing between compressor.go / bit_writer.go and the byte stream is left to an
   interpretation (GenC08.ev_bits is only used inside the proofs). *)
From Coq Require Import ZArith List Lia Bool.
From Coq Require Import ZifyN ZifyNat ZifyBool.
From SigG Require Import Gen.
From SigM Require Import Base Bits Gorilla.
From SigP Require Import BaseProofs BitsProofs GorillaProofs GenC08 GenC08bw.
Import ListNotations.
Ltac Zify.zify_post_hook ::= Z.div_mod_to_equations.
Open Scope Z_scope.

(* one point through the regenerated Compress: its bit-writer calls and the new fields *)
Definition gen_step_ev (st : Z * Z * Z * Z * Z * Z) (p : N * N) : list (Z * list Z) * (Z * Z * Z * Z * Z * Z) :=
  let '(_, st', evs) := gen_Compress st (Z.of_N (fst p)) (Z.of_N (snd p)) in (evs, st').

Fixpoint gen_compress_all_events (st : Z * Z * Z * Z * Z * Z) (pts : list (N * N))
  : list (Z * list Z) * (Z * Z * Z * Z * Z * Z) :=
  match pts with
  | [] => ([], st)
  | p :: r =>
    let se := gen_step_ev st p in
    let rest := gen_compress_all_events (snd se) r in
    (fst se ++ fst rest, snd rest)
  end.

(* NewCompressor writes the header with writeBits(uint64(header), 32); then every point; then finish (which ends in flush) *)
Definition gen_series_events (hdr : N) (pts : list (N * N)) : list (Z * list Z) :=
  let all := gen_compress_all_events (abs_est (enc_init hdr)) pts in
  let '(_, _, fin) := gen_finish (snd all) in
  (1, [Z.of_N hdr; 32]) :: fst all ++ fin.

(* the bytes the regenerated bit writer hands to the io.Writer for those calls *)
Definition gen_series_bytes (hdr : N) (pts : list (N * N)) : bytes :=
  out_bytes (snd (bw_run (0, 8) (gen_series_events hdr pts))).

(* ---------- well-formed calls ---------- *)
Lemma wrap_u64_range z : 0 <= wrap_u64 z < 2 ^ 64.
Proof. unfold wrap_u64, wrap_u. apply Z.mod_pos_bound. reflexivity. Qed.

Lemma ev_wf_bit b : b = 0 \/ b = 1 -> ev_wf (0, [b]).
Proof. intros H. exact H. Qed.

Lemma ev_wf_field u n : 0 <= u < 2 ^ 64 -> 0 <= n <= 64 -> ev_wf (1, [u; n]).
Proof. intros Hu Hn. split; assumption. Qed.

Lemma ev_wf_wfield z n : 0 <= n <= 64 -> ev_wf (1, [wrap_u64 z; n]).
Proof. intros Hn. apply ev_wf_field; [apply wrap_u64_range|exact Hn]. Qed.

Lemma evs_bits_app a b : evs_bits (a ++ b) = evs_bits a ++ evs_bits b.
Proof. unfold evs_bits. apply flat_map_app. Qed.

Ltac wf_list := repeat first [apply Forall_nil | apply Forall_cons].

(* ---------- writeInt64Bits ---------- *)
Lemma gen_writeInt64Bits_wf dod n : (n = 7 \/ n = 9 \/ n = 12 \/ n = 32) ->
  exists u, gen_writeInt64Bits dod n = (tt, tt, [(1, [u; n])]) /\ 0 <= u < 2 ^ 64.
Proof.
  intros Hn. unfold gen_writeInt64Bits. cbv zeta. cbn [app].
  destruct ((0 <=? dod) || (64 <=? n)) eqn:E.
  - exists (wrap_u64 dod). split; [|apply wrap_u64_range].
    destruct Hn as [-> | [-> | [-> | ->]]]; reflexivity.
  - exists (wrap_u64 (wrap_i64 (wrap_i64 (Z.shiftl 1 n) + dod))). split; [|apply wrap_u64_range].
    destruct Hn as [-> | [-> | [-> | ->]]]; reflexivity.
Qed.

(* ---------- compressTimestamp: no precondition ---------- *)
Lemma gen_compressTimestamp_wf (st : Z * Z * Z * Z * Z * Z) (t : Z) :
  let '(_, _, evs) := gen_compressTimestamp st t in Forall ev_wf evs.
Proof.
  destruct st as [[[[[h ct] ctd] cl] ctz] cv].
  unfold gen_compressTimestamp. cbv beta iota zeta.
  set (dod := wrap_i64 (wrap_i64 (wrap_i32 (wrap_i32 t - ct)) - wrap_i64 ctd)).
  destruct (dod =? 0) eqn:E0.
  { cbn [app]. wf_list. apply ev_wf_bit. lia. }
  destruct ((-63 <=? dod) && (dod <=? 64)) eqn:E1.
  { destruct (gen_writeInt64Bits_wf dod 7) as (u & Eu & Hu); [tauto|]. rewrite Eu.
    cbn [app]. wf_list; apply ev_wf_field; first [exact Hu | pw; lia]. }
  destruct ((-255 <=? dod) && (dod <=? 256)) eqn:E2.
  { destruct (gen_writeInt64Bits_wf dod 9) as (u & Eu & Hu); [tauto|]. rewrite Eu.
    cbn [app]. wf_list; apply ev_wf_field; first [exact Hu | pw; lia]. }
  destruct ((-2047 <=? dod) && (dod <=? 2048)) eqn:E3.
  { destruct (gen_writeInt64Bits_wf dod 12) as (u & Eu & Hu); [tauto|]. rewrite Eu.
    cbn [app]. wf_list; apply ev_wf_field; first [exact Hu | pw; lia]. }
  destruct (gen_writeInt64Bits_wf dod 32) as (u & Eu & Hu); [tauto|]. rewrite Eu.
  cbn [app]. wf_list; apply ev_wf_field; first [exact Hu | pw; lia].
Qed.

(* ---------- compressValue ---------- *)
Lemma gen_compressValue_wf (h t td : Z) (l0 t0 : nat) (p v : N) :
  (p < 2 ^ 64)%N -> (v < 2 ^ 64)%N -> (l0 <= 255)%nat -> (t0 <= 64)%nat ->
  let '(_, _, evs) := gen_compressValue (h, t, td, Z.of_nat l0, Z.of_nat t0, Z.of_N p) (Z.of_N v) in
  Forall ev_wf evs.
Proof.
  intros Hp Hv Hl0 Ht0. unfold gen_compressValue. cbv beta iota zeta.
  set (X := (N.lxor p v mod 2 ^ 64)%N).
  assert (HX : (X < 2 ^ 64)%N) by (unfold X; apply N.mod_lt; discriminate).
  assert (EX : wrap_u64 (Z.lxor (Z.of_N p) (Z.of_N v)) = Z.of_N X).
  { unfold X. rewrite Z_lxor_of_N. unfold wrap_u64, wrap_u.
    change (2 ^ 64) with (Z.of_N (2 ^ 64)). rewrite <- N2Z.inj_mod. reflexivity. }
  rewrite EX. clear EX.
  destruct (N.eqb_spec X 0) as [E0|E0].
  - replace (Z.of_N X =? 0) with true by lia. cbv beta iota. cbn [app].
    wf_list. apply ev_wf_bit. lia.
  - replace (Z.of_N X =? 0) with false by lia. cbv beta iota.
    rewrite (gen_leardingZeros_is_lz X HX), (gen_trailingZeros_is_tz X HX).
    set (x := N2bits 64 X).
    assert (Hlt : (lz x + tz x < 64)%nat).
    { pose proof (lz_tz_lt x) as L. unfold x in L at 1 4. rewrite N2bits_length in L. apply L.
      rewrite (iszero_N2bits64 X HX). apply N.eqb_neq. exact E0. }
    destruct (32 <=? Z.of_nat (lz x)) eqn:E32.
    + destruct ((Z.of_nat l0 <=? 31) && (Z.of_nat t0 <=? Z.of_nat (tz x))) eqn:EW; cbn [app];
        wf_list; first [apply ev_wf_bit; lia | apply ev_wf_wfield; unwrap; lia].
    + destruct ((Z.of_nat l0 <=? Z.of_nat (lz x)) && (Z.of_nat t0 <=? Z.of_nat (tz x))) eqn:EW; cbn [app];
        wf_list; first [apply ev_wf_bit; lia | apply ev_wf_wfield; unwrap; lia].
Qed.

(* ---------- one point ---------- *)
Theorem gen_Compress_events_wf : forall (s : est) (t v : N),
  est_ok s -> (t < 2 ^ 32)%N -> (v < 2 ^ 64)%N ->
  let '(_, _, evs) := gen_Compress (abs_est s) (Z.of_N t) (Z.of_N v) in Forall ev_wf evs.
Proof.
  intros s t v (Hh & Ht & Htd & Hl & Htz & Hv) Ht32 Hv64.
  unfold gen_Compress, abs_est. cbv beta iota zeta.
  destruct (e_t s =? 0) eqn:E0.
  - assert (Hvz : 0 <= Z.of_N v < 2 ^ 64) by (pw; lia).
    destruct (wrap_i32 (wrap_i32 (Z.of_N t) - e_hdr s) <? 0) eqn:En; cbn [app];
      wf_list; first [apply ev_wf_wfield; lia | apply ev_wf_field; [exact Hvz|lia]].
  - unfold gen_compress. cbv beta iota zeta.
    pose proof (gen_compressTimestamp_is_model s t (Z.of_nat (e_l s)) (Z.of_nat (e_tz s)) (Z.of_N (bits2N (e_v s))) Ht Htd) as Hts.
    pose proof (gen_compressTimestamp_wf (e_hdr s, e_t s, e_td s, Z.of_nat (e_l s), Z.of_nat (e_tz s), Z.of_N (bits2N (e_v s))) (Z.of_N t)) as Wts.
    unfold enc_ts in *. cbv beta iota zeta in Hts.
    destruct (gen_compressTimestamp _ _) as [[r0 st1] ev1]. destruct Hts as [_ Hst1]. subst st1.
    cbv beta iota.
    pose proof (gen_compressValue_wf (e_hdr s) (wrap32s (Z.of_N t)) (wrap32s (wrap32s (Z.of_N t) - e_t s))
                  (e_l s) (e_tz s) (bits2N (e_v s)) v (bits2N_lt64 _ Hv) Hv64 Hl Htz) as Wvl.
    destruct (gen_compressValue _ _) as [[r1 st2] ev2].
    destruct st2 as [[[[[h2 ct2] ctd2] cl2] ctz2] cv2]. cbv beta iota.
    cbn [app]. apply Forall_app. split; assumption.
Qed.
Print Assumptions gen_Compress_events_wf.

(* ---------- every point of a series ---------- *)
Lemma gen_compress_all_events_spec : forall (pts : list (N * N)) (s : est),
  est_ok s -> Forall (fun p => (fst p < 2 ^ 32)%N /\ (snd p < 2 ^ 64)%N) pts ->
  Forall ev_wf (fst (gen_compress_all_events (abs_est s) pts)) /\
  evs_bits (fst (gen_compress_all_events (abs_est s) pts)) = fst (gen_compress_all (abs_est s) pts) /\
  snd (gen_compress_all_events (abs_est s) pts) = snd (gen_compress_all (abs_est s) pts).
Proof.
  induction pts as [|[t v] pts IH]; intros s Hs Hall.
  - cbn [gen_compress_all_events gen_compress_all fst snd]. repeat split. apply Forall_nil.
  - inversion Hall as [|p l [Ht Hv] Hall']; subst. cbn [fst snd] in Ht, Hv.
    cbn [gen_compress_all_events gen_compress_all]. unfold gen_step_ev, gen_step. cbn [fst snd].
    pose proof (gen_Compress_is_model s t v Hs Ht Hv) as H1.
    pose proof (gen_Compress_events_wf s t v Hs Ht Hv) as W1.
    destruct (gen_Compress (abs_est s) (Z.of_N t) (Z.of_N v)) as [[u st1] evs].
    destruct (compress s t v) as [b1 s1].
    destruct H1 as [Hb [Hst Hok]]. subst st1. cbn [fst snd].
    destruct (IH s1 Hok Hall') as (IW & IB & IS).
    split; [|split].
    + apply Forall_app. split; assumption.
    + rewrite evs_bits_app, IB. reflexivity.
    + exact IS.
Qed.

(* ---------- finish: some well-formed calls, then the flush ---------- *)
Lemma gen_finish_shape (st : Z * Z * Z * Z * Z * Z) :
  exists f, (let '(_, _, fin) := gen_finish st in fin) = f ++ [(2, [0])] /\
            Forall ev_wf f /\ evs_bits (f ++ [(2, [0])]) = evs_bits f.
Proof.
  destruct st as [[[[[h ct] ctd] cl] ctz] cv]. unfold gen_finish. cbv beta iota zeta.
  change (Z.shiftl 1 14 - 1) with 16383.
  destruct (ct =? 0) eqn:E; cbn [app].
  - exists [(1, [16383; 14]); (1, [0; 64])]. split; [reflexivity|]. split.
    + wf_list; apply ev_wf_field; pw; lia.
    + rewrite evs_bits_app. cbn [evs_bits flat_map ev_bits]. apply app_nil_r.
  - exists [(1, [15; 4]); (1, [4294967295; 32]); (0, [0])]. split; [reflexivity|]. split.
    + wf_list; first [apply ev_wf_bit; lia | apply ev_wf_field; pw; lia].
    + rewrite evs_bits_app. cbn [evs_bits flat_map ev_bits]. apply app_nil_r.
Qed.

(* ---------- the calls of a whole series ---------- *)
Theorem gen_series_events_shape : forall (hdr : N) (pts : list (N * N)),
  (hdr < 2 ^ 32)%N -> Forall (fun p => (fst p < 2 ^ 32)%N /\ (snd p < 2 ^ 64)%N) pts ->
  exists evs, gen_series_events hdr pts = evs ++ [(2, [0])] /\ Forall ev_wf evs /\ evs_bits evs = encode_bits hdr pts.
Proof.
  intros hdr pts Hh Hp.
  destruct (gen_compress_all_events_spec pts (enc_init hdr) (enc_init_ok hdr Hh) Hp) as (AW & AB & AS).
  rewrite <- (gen_encode_bits_is_model hdr pts Hh Hp).
  unfold gen_series_events, gen_encode_bits. cbv zeta.
  rewrite <- AS, <- AB.
  set (all := gen_compress_all_events (abs_est (enc_init hdr)) pts) in *.
  destruct (gen_finish_shape (snd all)) as (f & Ef & Wf & Bf).
  destruct (gen_finish (snd all)) as [[u st'] fin]. subst fin.
  exists ((1, [Z.of_N hdr; 32]) :: fst all ++ f). split; [|split].
  - cbn [app]. rewrite app_assoc. reflexivity.
  - apply Forall_cons; [apply ev_wf_field; pw; lia|]. apply Forall_app. split; assumption.
  - rewrite Bf. change (evs_bits ((1, [Z.of_N hdr; 32]) :: fst all ++ f))
      with (ev_bits (1, [Z.of_N hdr; 32]) ++ evs_bits (fst all ++ f)).
    rewrite evs_bits_app. reflexivity.
Qed.
Print Assumptions gen_series_events_shape.

(* ---------- source to bytes ---------- *)
Theorem gen_series_bytes_is_encode : forall (hdr : N) (pts : list (N * N)),
  (hdr < 2 ^ 32)%N -> Forall (fun p => (fst p < 2 ^ 32)%N /\ (snd p < 2 ^ 64)%N) pts ->
  gen_series_bytes hdr pts = encode hdr pts.
Proof.
  intros hdr pts Hh Hp. unfold gen_series_bytes, encode.
  destruct (gen_series_events_shape hdr pts Hh Hp) as (evs & E & W & B).
  rewrite E, (gen_bitwriter_is_pack evs W), B. reflexivity.
Qed.
Print Assumptions gen_series_bytes_is_encode.

Theorem gen_series_bytes_roundtrip : forall (hdr : N) (pts : list (N * N)),
  series_ok hdr pts -> (hdr < 2 ^ 32)%N -> Forall (fun p => (fst p < 2 ^ 32)%N /\ (snd p < 2 ^ 64)%N) pts ->
  decode (gen_series_bytes hdr pts) = pts.
Proof.
  intros hdr pts Hok Hh Hp. rewrite (gen_series_bytes_is_encode hdr pts Hh Hp).
  exact (gorilla_roundtrip hdr pts Hok).
Qed.
Print Assumptions gen_series_bytes_roundtrip.

(* GenC08bw.v — the bit writer REGENERATED from bit_writer.go on every run (coq/gen/Gen.v: gen_bw_writeBit,
   gen_bw_writeByte, gen_bw_writeBits, gen_bw_flush; state = (buffer byte, count of free bits), the calls
   b.w.Write([]byte{x}) recorded as events (0, [x])) turns the compressor's calls into exactly the bytes
   `pack` gives for their bits.  This discharges, for the regenerated code, the event interpretation that
   GenC08.v uses (writeBit b = [b]; writeBits(u, n) = the n low bits of u, most significant first;
   flush(zero) = zero padding to the byte boundary). *)
From Coq Require Import ZArith List Lia Bool.
From Coq Require Import ZifyN ZifyNat ZifyBool.
From SigG Require Import Gen.
From SigM Require Import Base Bits Gorilla.
From SigP Require Import BaseProofs BitsProofs GorillaProofs GenC08.
Import ListNotations.
Ltac Zify.zify_post_hook ::= Z.div_mod_to_equations.
Open Scope Z_scope.

(* one call on the bit writer, as recorded by the translated compressor (GenC08.ev_bits reads the same events as bits) *)
Definition bw_event (st : Z * Z) (e : Z * list Z) : (Z * Z) * list (Z * list Z) :=
  match e with
  | (0, [b]) => let '(_, st', evs) := gen_bw_writeBit st (negb (b =? 0)) in (st', evs)
  | (1, [u; n]) => let '(_, st', evs) := gen_bw_writeBits st u n in (st', evs)
  | (2, [b]) => let '(_, st', evs) := gen_bw_flush st (negb (b =? 0)) in (st', evs)
  | _ => (st, [])
  end.

Fixpoint bw_run (st : Z * Z) (es : list (Z * list Z)) : (Z * Z) * list (Z * list Z) :=
  match es with
  | [] => (st, [])
  | e :: r =>
    let so := bw_event st e in
    let so' := bw_run (fst so) r in
    (fst so', snd so ++ snd so')
  end.

(* the bytes handed to the underlying io.Writer *)
Definition out_bytes (o : list (Z * list Z)) : bytes :=
  flat_map (fun e => match e with (0, [b]) => [Z.to_N b] | _ => [] end) o.

(* events the compressor can produce: single bits, fields of 0..64 bits of a uint64 *)
Definition ev_wf (e : Z * list Z) : Prop :=
  match e with
  | (0, [b]) => b = 0 \/ b = 1
  | (1, [u; n]) => 0 <= u < 2 ^ 64 /\ 0 <= n <= 64
  | _ => False
  end.

(* ---------- bit lists as numbers (most significant bit first) ---------- *)
Definition bval (l : list bool) : Z := Z.of_N (bits2N l).

Lemma bits2N_snoc l b : bits2N (l ++ [b]) = ((if b then 1 else 0) + 2 * bits2N l)%N.
Proof. unfold bits2N. rewrite rev_app_distr. reflexivity. Qed.

Lemma bval_nil : bval [] = 0.
Proof. reflexivity. Qed.

Lemma bval_snoc l b : bval (l ++ [b]) = 2 * bval l + Z.b2z b.
Proof. unfold bval. rewrite bits2N_snoc. destruct b; cbn [Z.b2z]; lia. Qed.

Lemma bval_app p : forall q, bval (p ++ q) = bval p * 2 ^ Z.of_nat (length q) + bval q.
Proof.
  intros q. induction q as [|b q IH] using rev_ind.
  - rewrite app_nil_r, bval_nil. cbn [length]. change (2 ^ Z.of_nat 0) with 1. lia.
  - rewrite app_assoc, !bval_snoc, IH, app_length. cbn [length].
    replace (Z.of_nat (length q + 1)) with (Z.succ (Z.of_nat (length q))) by lia.
    rewrite Z.pow_succ_r by lia. lia.
Qed.

Lemma bval_range l : 0 <= bval l < 2 ^ Z.of_nat (length l).
Proof.
  induction l as [|b l IH] using rev_ind.
  - rewrite bval_nil. cbn [length]. change (2 ^ Z.of_nat 0) with 1. lia.
  - rewrite bval_snoc, app_length. cbn [length].
    replace (Z.of_nat (length l + 1)) with (Z.succ (Z.of_nat (length l))) by lia.
    rewrite Z.pow_succ_r by lia. destruct b; cbn [Z.b2z]; lia.
Qed.

Lemma bval_zeros k : bval (zeros k) = 0.
Proof.
  induction k as [|k IH]; [reflexivity|].
  unfold zeros in *. replace (S k) with (k + 1)%nat by lia. rewrite repeat_app. cbn [repeat].
  rewrite bval_snoc, IH. reflexivity.
Qed.

Lemma zeros_length k : length (zeros k) = k.
Proof. apply repeat_length. Qed.

Lemma bval_pad p k : bval (p ++ zeros k) = bval p * 2 ^ Z.of_nat k.
Proof. rewrite bval_app, bval_zeros, zeros_length. lia. Qed.

Lemma bval_cons b l : bval (b :: l) = Z.b2z b * 2 ^ Z.of_nat (length l) + bval l.
Proof. change (b :: l) with ([b] ++ l). rewrite bval_app. destruct b; reflexivity. Qed.

Lemma bval_to_N l : Z.to_N (bval l) = bits2N l.
Proof. unfold bval. apply N2Z.id. Qed.

Lemma bval_zbits k z : bval (zbits k z) = z mod 2 ^ Z.of_nat k.
Proof.
  unfold bval, zbits.
  assert (Hp : 0 <= z mod 2 ^ Z.of_nat k < 2 ^ Z.of_nat k) by (apply Z.mod_pos_bound; apply Z.pow_pos_nonneg; lia).
  rewrite bits2N_N2bits_small.
  - rewrite Z2N.id by lia. reflexivity.
  - apply N2Z.inj_lt. rewrite Z2N.id by lia. rewrite N2Z.inj_pow. rewrite nat_N_Z. change (Z.of_N 2) with 2. lia.
Qed.

(* ---------- or of disjoint bit ranges is addition ---------- *)
Lemma lor_add a m b : 0 <= m -> 0 <= b < 2 ^ m -> Z.lor (a * 2 ^ m) b = a * 2 ^ m + b.
Proof.
  intros Hm Hb. rewrite <- Z.lxor_lor, <- Z.add_nocarry_lxor; try reflexivity.
  all: apply Z.bits_inj'; intros n Hn; rewrite Z.land_spec, Z.bits_0;
    destruct (Z.ltb_spec n m) as [Hlt|Hge].
  1,3: rewrite Z.mul_pow2_bits_low by exact Hlt; reflexivity.
  all: replace b with (b mod 2 ^ m) by (apply Z.mod_small; exact Hb);
    rewrite Z.mod_pow2_bits_high by lia; apply andb_false_r.
Qed.

Lemma wrap_u8_small z : 0 <= z < 256 -> wrap_u8 z = z.
Proof. intros H. unfold wrap_u8, wrap_u. change (2 ^ 8) with 256. apply Z.mod_small. exact H. Qed.

(* ---------- pack on whole bytes followed by a remainder ---------- *)
Lemma pack_aux_fuel : forall f1 f2 bs, (length bs <= f1)%nat -> (length bs <= f2)%nat ->
  pack_aux f1 bs = pack_aux f2 bs.
Proof.
  induction f1 as [|f1 IH]; intros f2 bs H1 H2.
  - destruct bs; [|cbn [length] in H1; lia]. destruct f2; reflexivity.
  - destruct bs as [|b bs]; [destruct f2; reflexivity|].
    destruct f2 as [|f2]; [cbn [length] in H2; lia|].
    cbn [pack_aux]. f_equal. apply IH; rewrite skipn_length; cbn [length] in *; lia.
Qed.

Lemma pack_aux_S f b l :
  pack_aux (S f) (b :: l) = bits2N (firstn 8 ((b :: l) ++ zeros 7)) :: pack_aux f (skipn 8 (b :: l)).
Proof. reflexivity. Qed.

Lemma pack_chunk c r : length c = 8%nat -> pack (c ++ r) = bits2N c :: pack r.
Proof.
  intros Hc. unfold pack.
  rewrite (pack_aux_fuel (length (c ++ r)) (S (length (c ++ r)))) by lia.
  destruct (c ++ r) as [|b l] eqn:E; [apply (f_equal (@length bool)) in E; rewrite app_length, Hc in E; cbn [length] in E; lia|].
  rewrite pack_aux_S. rewrite <- E. rewrite <- app_assoc.
  rewrite firstn_app, Hc. replace (8 - 8)%nat with 0%nat by lia. rewrite firstn_O, app_nil_r.
  rewrite <- Hc at 1. rewrite firstn_all.
  rewrite skipn_app, Hc. replace (8 - 8)%nat with 0%nat by lia. rewrite <- Hc at 1. rewrite skipn_all.
  rewrite skipn_O. change ([] ++ r) with r. f_equal. apply pack_aux_fuel; rewrite ?app_length; lia.
Qed.

Lemma pack_chunks cs r : Forall (fun c => length c = 8%nat) cs ->
  pack (concat cs ++ r) = map bits2N cs ++ pack r.
Proof.
  induction 1 as [|c cs Hc _ IH]; [reflexivity|].
  cbn [concat map app]. rewrite <- app_assoc, pack_chunk by exact Hc. rewrite IH. reflexivity.
Qed.

Lemma firstn_zeros : forall n k, (k <= n)%nat -> firstn k (zeros n) = zeros k.
Proof.
  induction n as [|n IH]; intros k H; destruct k as [|k]; try reflexivity; [lia|].
  unfold zeros in *. cbn [repeat firstn]. f_equal. apply IH. lia.
Qed.

Lemma pack_short p : (length p < 8)%nat ->
  pack p = match p with [] => [] | _ => [bits2N (p ++ zeros (8 - length p))] end.
Proof.
  intros H. destruct p as [|b p]; [reflexivity|]. set (q := b :: p) in *.
  unfold pack. assert (Hq : length q = S (length p)) by reflexivity. rewrite Hq at 1.
  unfold q at 1. rewrite pack_aux_S. fold q.
  rewrite skipn_all2 by lia. replace (pack_aux (length p) []) with (@nil N) by (destruct (length p); reflexivity).
  f_equal. f_equal. rewrite firstn_app. rewrite firstn_all2 by lia. f_equal. apply firstn_zeros. lia.
Qed.

(* ---------- the writer's state as the list of pending bits ---------- *)
Definition bw_holds (st : Z * Z) (p : list bool) : Prop :=
  (length p < 8)%nat /\ snd st = 8 - Z.of_nat (length p) /\ fst st = Z.of_N (bits2N (p ++ zeros (8 - length p))).

Lemma bw_holds_iff buf cnt p :
  bw_holds (buf, cnt) p <-> (length p < 8)%nat /\ cnt = 8 - Z.of_nat (length p) /\ buf = bval p * 2 ^ cnt.
Proof.
  unfold bw_holds. cbn [fst snd]. fold (bval (p ++ zeros (8 - length p))). rewrite bval_pad.
  split; intros (Hl & Hc & Hb); (split; [exact Hl|]; split; [exact Hc|]); rewrite Hb, Hc; f_equal; f_equal; lia.
Qed.

Lemma bw_holds_empty : bw_holds (0, 8) [].
Proof. apply bw_holds_iff. cbn [length]. rewrite bval_nil. repeat split; lia. Qed.

(* ---------- writeBit ---------- *)
Lemma pow2_m_cases m : 0 <= m <= 7 ->
  (m = 0 /\ 2 ^ m = 1) \/ (m = 1 /\ 2 ^ m = 2) \/ (m = 2 /\ 2 ^ m = 4) \/ (m = 3 /\ 2 ^ m = 8) \/
  (m = 4 /\ 2 ^ m = 16) \/ (m = 5 /\ 2 ^ m = 32) \/ (m = 6 /\ 2 ^ m = 64) \/ (m = 7 /\ 2 ^ m = 128).
Proof.
  intros H. assert (C : m = 0 \/ m = 1 \/ m = 2 \/ m = 3 \/ m = 4 \/ m = 5 \/ m = 6 \/ m = 7) by lia.
  repeat (destruct C as [->|C]; [tauto|]). subst m. tauto.
Qed.

Lemma gen_bw_writeBit_arith v m b : 0 <= m <= 7 -> 0 <= v -> v * 2 ^ (m + 1) < 256 ->
  gen_bw_writeBit (v * 2 ^ (m + 1), m + 1) b =
    if m =? 0 then (tt, (0, 8), [(0, [2 * v + Z.b2z b])])
    else (tt, ((2 * v + Z.b2z b) * 2 ^ m, m), []).
Proof.
  intros Hm Hv Hlt. unfold gen_bw_writeBit. replace (m + 1 - 1) with m by lia.
  rewrite (wrap_u8_small m) by lia. rewrite Z.shiftl_1_l.
  assert (H2 : 2 ^ (m + 1) = 2 * 2 ^ m) by (rewrite Z.pow_add_r by lia; change (2 ^ 1) with 2; lia).
  assert (HX : 1 <= 2 ^ m <= 128) by (destruct (pow2_m_cases m Hm) as [C|C]; intuition lia).
  assert (Hb : v * 2 ^ (m + 1) + 2 ^ m < 256).
  { rewrite H2 in *. destruct (pow2_m_cases m Hm) as [C|C]; intuition lia. }
  rewrite (wrap_u8_small (2 ^ m)) by lia.
  rewrite lor_add by lia.
  change ([] ++ ?x) with x.
  destruct b; cbn [Z.b2z].
  - rewrite (wrap_u8_small (v * 2 ^ (m + 1) + 2 ^ m)) by lia.
    destruct (Z.eqb_spec m 0) as [->|Hne].
    + change (2 ^ (0 + 1)) with 2. change (2 ^ 0) with 1.
      replace (v * 2 + 1) with (2 * v + 1) by lia. reflexivity.
    + replace (v * 2 ^ (m + 1) + 2 ^ m) with ((2 * v + 1) * 2 ^ m) by lia. reflexivity.
  - destruct (Z.eqb_spec m 0) as [->|Hne].
    + change (2 ^ (0 + 1)) with 2. replace (v * 2) with (2 * v + 0) by lia. reflexivity.
    + replace (v * 2 ^ (m + 1)) with ((2 * v + 0) * 2 ^ m) by lia. reflexivity.
Qed.

(* what one operation does: from pending bits [p], appending the bits [bs] emits the complete bytes of p ++ bs
   (the chunks cs, eight bits each) and leaves the remainder pending *)
Definition bw_post (p bs : list bool) (st' : Z * Z) (o : list (Z * list Z)) : Prop :=
  exists (cs : list (list bool)) (p' : list bool),
    Forall (fun c => length c = 8%nat) cs /\
    out_bytes o = map bits2N cs /\
    p ++ bs = concat cs ++ p' /\
    bw_holds st' p'.

Lemma out_bytes_app a b : out_bytes (a ++ b) = out_bytes a ++ out_bytes b.
Proof. apply flat_map_app. Qed.

Lemma bw_post_nil st p : bw_holds st p -> bw_post p [] st [].
Proof.
  intros H. exists [], p. split; [constructor|]. split; [reflexivity|]. split; [apply app_nil_r|exact H].
Qed.

Lemma bw_post_trans p b1 b2 st1 st2 o1 o2 :
  bw_post p b1 st1 o1 ->
  (forall p1, bw_holds st1 p1 -> bw_post p1 b2 st2 o2) ->
  bw_post p (b1 ++ b2) st2 (o1 ++ o2).
Proof.
  intros (cs1 & p1 & F1 & O1 & E1 & H1) Hn.
  destruct (Hn p1 H1) as (cs2 & p2 & F2 & O2 & E2 & H2).
  exists (cs1 ++ cs2), p2. split; [apply Forall_app; split; assumption|].
  split; [rewrite out_bytes_app, O1, O2, map_app; reflexivity|].
  split; [|exact H2].
  rewrite app_assoc, E1, <- app_assoc, E2, concat_app, app_assoc. reflexivity.
Qed.

Theorem gen_bw_writeBit_spec : forall (st : Z * Z) (p : list bool) (b : bool),
  bw_holds st p ->
  exists st' o, gen_bw_writeBit st b = (tt, st', o) /\ bw_post p [b] st' o.
Proof.
  intros [buf cnt] p b H. apply bw_holds_iff in H. destruct H as (Hl & Hc & Hb).
  pose proof (bval_range p) as Hr.
  set (k := length p) in *. set (m := 7 - Z.of_nat k).
  assert (Hcm : cnt = m + 1) by lia. clear Hc. subst cnt buf.
  assert (Hlt : bval p * 2 ^ (m + 1) < 256).
  { assert (E : 2 ^ Z.of_nat k * 2 ^ (m + 1) = 256).
    { rewrite <- Z.pow_add_r by lia. replace (Z.of_nat k + (m + 1)) with 8 by lia. reflexivity. }
    rewrite <- E. apply Z.mul_lt_mono_pos_r; [apply Z.pow_pos_nonneg; lia|lia]. }
  rewrite gen_bw_writeBit_arith by lia.
  assert (Hv : bval (p ++ [b]) = 2 * bval p + Z.b2z b) by apply bval_snoc.
  destruct (Z.eqb_spec m 0) as [Hm|Hm].
  - eexists _, _. split; [reflexivity|].
    exists [p ++ [b]], []. split; [constructor; [rewrite app_length; cbn [length]; lia|constructor]|].
    split; [cbn [out_bytes flat_map map app]; rewrite <- Hv, bval_to_N; reflexivity|].
    split; [cbn [concat]; rewrite !app_nil_r; reflexivity|apply bw_holds_empty].
  - eexists _, _. split; [reflexivity|].
    exists [], (p ++ [b]). split; [constructor|]. split; [reflexivity|]. split; [reflexivity|].
    apply bw_holds_iff. rewrite app_length. cbn [length]. rewrite Hv. repeat split; lia.
Qed.
Print Assumptions gen_bw_writeBit_spec.

(* ---------- writeByte ---------- *)
Lemma gen_bw_writeByte_arith v k y : 0 <= k <= 7 -> 0 <= v < 2 ^ k -> 0 <= y < 256 ->
  gen_bw_writeByte (v * 2 ^ (8 - k), 8 - k) y =
    (tt, ((y mod 2 ^ k) * 2 ^ (8 - k), 8 - k), [(0, [v * 2 ^ (8 - k) + y / 2 ^ k])]).
Proof.
  intros Hk Hv Hy. unfold gen_bw_writeByte. replace (8 - (8 - k)) with k by lia.
  rewrite (wrap_u8_small k) by lia. rewrite Z.shiftr_div_pow2, Z.shiftl_mul_pow2 by lia.
  assert (H8 : 2 ^ k * 2 ^ (8 - k) = 256).
  { rewrite <- Z.pow_add_r by lia. replace (k + (8 - k)) with 8 by lia. reflexivity. }
  set (X := 2 ^ k) in *. set (Y := 2 ^ (8 - k)) in *.
  assert (HXY : (X = 1 /\ Y = 256) \/ (X = 2 /\ Y = 128) \/ (X = 4 /\ Y = 64) \/ (X = 8 /\ Y = 32) \/
                (X = 16 /\ Y = 16) \/ (X = 32 /\ Y = 8) \/ (X = 64 /\ Y = 4) \/ (X = 128 /\ Y = 2)).
  { destruct (pow2_m_cases k Hk) as [C|C]; fold X in C; intuition lia. }
  assert (Hq : 0 <= y / X < Y) by (intuition (subst X Y; lia)).
  rewrite (wrap_u8_small (y / X)) by lia.
  pose proof (lor_add v (8 - k) (y / X)) as HL. fold Y in HL. rewrite HL by lia.
  rewrite (wrap_u8_small (v * Y + y / X)) by (intuition lia).
  replace (wrap_u8 (y * Y)) with (y mod X * Y); [reflexivity|].
  unfold wrap_u8, wrap_u. change (2 ^ 8) with 256. intuition (subst X Y; lia).
Qed.

Lemma bw_post_compose p b1 b2 cs1 p1 o1 st2 o2 :
  Forall (fun c => length c = 8%nat) cs1 -> out_bytes o1 = map bits2N cs1 -> p ++ b1 = concat cs1 ++ p1 ->
  bw_post p1 b2 st2 o2 -> bw_post p (b1 ++ b2) st2 (o1 ++ o2).
Proof.
  intros F1 O1 E1 (cs2 & p2 & F2 & O2 & E2 & H2).
  exists (cs1 ++ cs2), p2. split; [apply Forall_app; split; assumption|].
  split; [rewrite out_bytes_app, O1, O2, map_app; reflexivity|].
  split; [|exact H2].
  rewrite app_assoc, E1, <- app_assoc, E2, concat_app, app_assoc. reflexivity.
Qed.

Lemma gen_bw_writeByte_spec st p c : bw_holds st p -> length c = 8%nat ->
  exists st' o, gen_bw_writeByte st (bval c) = (tt, st', o) /\ bw_post p c st' o.
Proof.
  destruct st as [buf cnt]. intros H Hc. apply bw_holds_iff in H. destruct H as (Hl & Hcnt & Hb).
  pose proof (bval_range p) as Hr. pose proof (bval_range c) as Hrc. rewrite Hc in Hrc. change (2 ^ Z.of_nat 8) with 256 in Hrc.
  set (k := Z.of_nat (length p)) in *. subst cnt buf.
  rewrite gen_bw_writeByte_arith by lia.
  set (f := firstn (8 - length p) c). set (s := skipn (8 - length p) c).
  assert (Hfs : c = f ++ s) by (symmetry; apply firstn_skipn).
  assert (Hf : length f = (8 - length p)%nat) by (unfold f; rewrite firstn_length; lia).
  assert (Hs : Z.of_nat (length s) = k) by (unfold s; rewrite skipn_length; lia).
  assert (Hk : k = Z.of_nat (length p)) by reflexivity. clearbody k.
  pose proof (bval_app f s) as Hv. rewrite <- Hfs, Hs in Hv.
  pose proof (bval_range s) as Hrs. rewrite Hs in Hrs.
  assert (Hq : bval c / 2 ^ k = bval f) by (symmetry; apply (Z.div_unique _ _ _ (bval s)); [left; lia|rewrite Hv; ring]).
  assert (Hm : bval c mod 2 ^ k = bval s) by (symmetry; apply (Z.mod_unique _ _ (bval f)); [left; lia|rewrite Hv; ring]).
  rewrite Hq, Hm.
  eexists _, _. split; [reflexivity|].
  exists [p ++ f], s. split; [constructor; [rewrite app_length; lia|constructor]|].
  split.
  - cbn [out_bytes flat_map map app]. rewrite <- bval_to_N, bval_app. replace (Z.of_nat (length f)) with (8 - k) by lia. reflexivity.
  - split; [cbn [concat]; rewrite app_nil_r, <- app_assoc, <- Hfs; reflexivity|].
    apply bw_holds_iff. repeat split; lia.
Qed.

(* ---------- the loops of writeBits, restated as standalone fixpoints with the generated bodies ---------- *)
Fixpoint bw_loop2 (fuel__ : nat) (u64 nbits b_buffer b_count : Z) (ev_ : list (Z * list Z)) {struct fuel__} : unit * (Z * Z) * list (Z * list Z) :=
     match fuel__ with
     | O => ((tt, (b_buffer, b_count), ev_))
     | S fuel_ => if (0 <? nbits) then (let '(_, (b_buffer, b_count), ev2_) := gen_bw_writeBit (b_buffer, b_count) ((wrap_u64 (Z.shiftr u64 63)) =? 1) in
   let ev_ := ev_ ++ ev2_ in
   ((let u64 := (wrap_u64 (Z.shiftl u64 1)) in
   (let nbits := (wrap_i64 (nbits - 1)) in
   bw_loop2 fuel_ u64 nbits b_buffer b_count ev_)))) else ((tt, (b_buffer, b_count), ev_))
     end.

Definition bw_loop1 (fuel2 : nat) : nat -> Z -> Z -> Z -> Z -> list (Z * list Z) -> unit * (Z * Z) * list (Z * list Z) :=
  fix loop1_ (fuel__ : nat) (u64 nbits b_buffer b_count : Z) (ev_ : list (Z * list Z)) {struct fuel__} : unit * (Z * Z) * list (Z * list Z) :=
     match fuel__ with
     | O => bw_loop2 fuel2 u64 nbits b_buffer b_count ev_
     | S fuel_ => if (8 <=? nbits) then (let byt := (wrap_u8 (wrap_u64 (Z.shiftr u64 56))) in
   (let '(_, (b_buffer, b_count), ev2_) := gen_bw_writeByte (b_buffer, b_count) byt in
   let ev_ := ev_ ++ ev2_ in
   ((let u64 := (wrap_u64 (Z.shiftl u64 8)) in
   (let nbits := (wrap_i64 (nbits - 8)) in
   loop1_ fuel_ u64 nbits b_buffer b_count ev_))))) else bw_loop2 fuel2 u64 nbits b_buffer b_count ev_
     end.

(* the literal fuel is abstracted first, so that the kernel never has to unroll the loops to compare the two forms *)
Definition wb_body : nat -> (Z * Z) -> Z -> Z -> unit * (Z * Z) * list (Z * list Z) :=
  ltac:(let t := eval cbv delta [gen_bw_writeBits] in gen_bw_writeBits in
        let t' := eval pattern 70%nat in t in
        match t' with ?F _ => exact F end).

Lemma wb_body_70 : gen_bw_writeBits = wb_body 70.
Proof. exact eq_refl. Qed.

Lemma wb_body_loops f buf cnt u n :
  wb_body f (buf, cnt) u n = bw_loop1 f f (wrap_u64 (Z.shiftl u (wrap_u64 (64 - (wrap_u64 n))))) n buf cnt [].
Proof. reflexivity. Qed.

Lemma gen_bw_writeBits_loops buf cnt u n :
  gen_bw_writeBits (buf, cnt) u n =
  bw_loop1 70 70 (wrap_u64 (Z.shiftl u (wrap_u64 (64 - (wrap_u64 n))))) n buf cnt [].
Proof. rewrite wb_body_70. apply wb_body_loops. Qed.

Definition bw_floop (bit : bool) : nat -> Z -> Z -> list (Z * list Z) -> unit * (Z * Z) * list (Z * list Z) :=
  fix loop1_ (fuel__ : nat) (b_buffer b_count : Z) (ev_ : list (Z * list Z)) {struct fuel__} : unit * (Z * Z) * list (Z * list Z) :=
     match fuel__ with
     | O => ((tt, (b_buffer, b_count), ev_))
     | S fuel_ => if (negb (b_count =? 8)) then (let '(_, (b_buffer, b_count), ev2_) := gen_bw_writeBit (b_buffer, b_count) bit in
   let ev_ := ev_ ++ ev2_ in
   (loop1_ fuel_ b_buffer b_count ev_)) else ((tt, (b_buffer, b_count), ev_))
     end.

Definition fl_body : nat -> (Z * Z) -> bool -> unit * (Z * Z) * list (Z * list Z) :=
  ltac:(let t := eval cbv delta [gen_bw_flush] in gen_bw_flush in
        let t' := eval pattern 10%nat in t in
        match t' with ?F _ => exact F end).

Lemma fl_body_10 : gen_bw_flush = fl_body 10.
Proof. exact eq_refl. Qed.

Lemma fl_body_loop f buf cnt bit : fl_body f (buf, cnt) bit = bw_floop bit f buf cnt [].
Proof. reflexivity. Qed.

Lemma gen_bw_flush_loop buf cnt bit : gen_bw_flush (buf, cnt) bit = bw_floop bit 10 buf cnt [].
Proof. rewrite fl_body_10. apply fl_body_loop. Qed.

(* ---------- one step of each loop, in arithmetic ---------- *)
Lemma top_split (v n t : Z) : 0 <= n <= t -> 0 <= v < 2 ^ n ->
  0 <= v * 2 ^ (t - n) < 2 ^ t.
Proof.
  intros Hn Hv. assert (HB : 0 < 2 ^ (t - n)) by (apply Z.pow_pos_nonneg; lia).
  assert (E : 2 ^ n * 2 ^ (t - n) = 2 ^ t) by (rewrite <- Z.pow_add_r by lia; f_equal; lia).
  rewrite <- E. split; [apply Z.mul_nonneg_nonneg; lia|apply Z.mul_lt_mono_pos_r; lia].
Qed.

Lemma top_bit b L w : (length L <= 63)%nat ->
  w = bval (b :: L) * 2 ^ (64 - Z.of_nat (length (b :: L))) ->
  (wrap_u64 (Z.shiftr w 63) =? 1) = b /\
  wrap_u64 (Z.shiftl w 1) = bval L * 2 ^ (64 - Z.of_nat (length L)).
Proof.
  intros Hn Hw. rewrite bval_cons in Hw. cbn [length] in Hw.
  set (n := Z.of_nat (length L)) in *.
  replace (64 - Z.of_nat (S (length L))) with (63 - n) in Hw by lia.
  pose proof (bval_range L) as Hv. fold n in Hv.
  pose proof (top_split (bval L) n 63 ltac:(lia) Hv) as HR.
  assert (E1 : 2 ^ n * 2 ^ (63 - n) = 2 ^ 63) by (rewrite <- Z.pow_add_r by lia; f_equal; lia).
  assert (E2 : 2 ^ (64 - n) = 2 * 2 ^ (63 - n)).
  { replace (64 - n) with (1 + (63 - n)) by lia. rewrite Z.pow_add_r by lia. reflexivity. }
  rewrite E2. replace (bval L * (2 * 2 ^ (63 - n))) with (2 * (bval L * 2 ^ (63 - n))) by ring.
  set (R := bval L * 2 ^ (63 - n)) in *.
  assert (Hw' : w = Z.b2z b * 2 ^ 63 + R) by (rewrite Hw, <- E1; unfold R; ring).
  clearbody R. clear Hw E1 E2.
  rewrite Z.shiftr_div_pow2, Z.shiftl_mul_pow2 by lia. unfold wrap_u64, wrap_u.
  change (2 ^ 63) with 9223372036854775808 in *. change (2 ^ 64) with 18446744073709551616.
  change (2 ^ 1) with 2.
  split.
  - destruct b; cbn [Z.b2z] in Hw'; [apply Z.eqb_eq|apply Z.eqb_neq]; lia.
  - destruct b; cbn [Z.b2z] in Hw'; lia.
Qed.

Lemma top_byte c L w : length c = 8%nat -> (length L <= 56)%nat ->
  w = bval (c ++ L) * 2 ^ (64 - Z.of_nat (length (c ++ L))) ->
  wrap_u8 (wrap_u64 (Z.shiftr w 56)) = bval c /\
  wrap_u64 (Z.shiftl w 8) = bval L * 2 ^ (64 - Z.of_nat (length L)).
Proof.
  intros Hc Hn Hw. rewrite bval_app, app_length, Hc in Hw.
  set (n := Z.of_nat (length L)) in *.
  replace (64 - Z.of_nat (8 + length L)) with (56 - n) in Hw by lia.
  pose proof (bval_range L) as Hv. fold n in Hv.
  pose proof (bval_range c) as Hvc. rewrite Hc in Hvc. change (2 ^ Z.of_nat 8) with 256 in Hvc.
  pose proof (top_split (bval L) n 56 ltac:(lia) Hv) as HR.
  assert (E1 : 2 ^ n * 2 ^ (56 - n) = 2 ^ 56) by (rewrite <- Z.pow_add_r by lia; f_equal; lia).
  assert (E2 : 2 ^ (64 - n) = 256 * 2 ^ (56 - n)).
  { replace (64 - n) with (8 + (56 - n)) by lia. rewrite Z.pow_add_r by lia. reflexivity. }
  rewrite E2. replace (bval L * (256 * 2 ^ (56 - n))) with (256 * (bval L * 2 ^ (56 - n))) by ring.
  set (R := bval L * 2 ^ (56 - n)) in *. set (y := bval c) in *.
  assert (Hw' : w = y * 2 ^ 56 + R) by (rewrite Hw, <- E1; unfold R; ring).
  clearbody R y. clear Hw E1 E2.
  rewrite Z.shiftr_div_pow2, Z.shiftl_mul_pow2 by lia. unfold wrap_u8, wrap_u64, wrap_u.
  change (2 ^ 56) with 72057594037927936 in *. change (2 ^ 64) with 18446744073709551616.
  change (2 ^ 8) with 256.
  split; lia.
Qed.

(* ---------- the bit loop of writeBits ---------- *)
Lemma bw_loop2_S f w n b c ev :
  bw_loop2 (S f) w n b c ev =
  if 0 <? n
  then (let '(_, (b', c'), o) := gen_bw_writeBit (b, c) (wrap_u64 (Z.shiftr w 63) =? 1) in
        bw_loop2 f (wrap_u64 (Z.shiftl w 1)) (wrap_i64 (n - 1)) b' c' (ev ++ o))
  else (tt, (b, c), ev).
Proof. reflexivity. Qed.

Lemma bw_loop2_spec : forall fuel L w buf cnt ev p,
  (length L <= fuel)%nat -> (length L <= 64)%nat ->
  w = bval L * 2 ^ (64 - Z.of_nat (length L)) ->
  bw_holds (buf, cnt) p ->
  exists st' o, bw_loop2 fuel w (Z.of_nat (length L)) buf cnt ev = (tt, st', ev ++ o) /\ bw_post p L st' o.
Proof.
  induction fuel as [|f IH]; intros L w buf cnt ev p Hf H64 Hw Hh.
  - destruct L as [|b L]; [|cbn [length] in Hf; lia].
    exists (buf, cnt), []. split; [rewrite app_nil_r; reflexivity|apply bw_post_nil; exact Hh].
  - rewrite bw_loop2_S. destruct L as [|b L].
    + change (0 <? Z.of_nat (length (@nil bool))) with false. cbv iota.
      exists (buf, cnt), []. split; [rewrite app_nil_r; reflexivity|apply bw_post_nil; exact Hh].
    + assert (Hpos : (0 <? Z.of_nat (length (b :: L))) = true) by (apply Z.ltb_lt; cbn [length]; lia).
      rewrite Hpos. cbv iota.
      cbn [length] in Hf, H64.
      destruct (top_bit b L w ltac:(lia) Hw) as (Hbit & Hsh). rewrite Hbit, Hsh.
      destruct (gen_bw_writeBit_spec (buf, cnt) p b Hh) as ([b1 c1] & o1 & E1 & P1).
      rewrite E1. cbv iota beta.
      rewrite wrap_i64_small by (cbn [length]; lia).
      replace (Z.of_nat (length (b :: L)) - 1) with (Z.of_nat (length L)) by (cbn [length]; lia).
      destruct P1 as (cs1 & p1 & F1 & O1 & E1' & H1).
      destruct (IH L (bval L * 2 ^ (64 - Z.of_nat (length L))) b1 c1 (ev ++ o1) p1
                  ltac:(lia) ltac:(lia) eq_refl H1) as (st' & o' & E2 & P2).
      exists st', (o1 ++ o'). split; [rewrite E2, app_assoc; reflexivity|].
      change (b :: L) with ([b] ++ L). eapply bw_post_compose; eassumption.
Qed.

(* ---------- the byte loop of writeBits ---------- *)
Lemma bw_loop1_O f2 w n b c ev : bw_loop1 f2 O w n b c ev = bw_loop2 f2 w n b c ev.
Proof. reflexivity. Qed.

Lemma bw_loop1_S f2 f w n b c ev :
  bw_loop1 f2 (S f) w n b c ev =
  if 8 <=? n
  then (let '(_, (b', c'), o) := gen_bw_writeByte (b, c) (wrap_u8 (wrap_u64 (Z.shiftr w 56))) in
        bw_loop1 f2 f (wrap_u64 (Z.shiftl w 8)) (wrap_i64 (n - 8)) b' c' (ev ++ o))
  else bw_loop2 f2 w n b c ev.
Proof. reflexivity. Qed.

Lemma bw_loop1_spec f2 : forall fuel L w buf cnt ev p,
  (length L < 8 * S fuel)%nat -> (length L <= 64)%nat -> (64 <= f2)%nat ->
  w = bval L * 2 ^ (64 - Z.of_nat (length L)) ->
  bw_holds (buf, cnt) p ->
  exists st' o, bw_loop1 f2 fuel w (Z.of_nat (length L)) buf cnt ev = (tt, st', ev ++ o) /\ bw_post p L st' o.
Proof.
  induction fuel as [|f IH]; intros L w buf cnt ev p Hf H64 Hf2 Hw Hh.
  - rewrite bw_loop1_O. apply bw_loop2_spec; try assumption; lia.
  - rewrite bw_loop1_S. destruct (Z.leb_spec 8 (Z.of_nat (length L))) as [Hge|Hlt].
    + set (c := firstn 8 L). set (L' := skipn 8 L).
      assert (HL : L = c ++ L') by (symmetry; apply firstn_skipn).
      assert (Hc : length c = 8%nat) by (unfold c; rewrite firstn_length; lia).
      assert (HL' : length L = (8 + length L')%nat) by (rewrite HL at 1; rewrite app_length, Hc; reflexivity).
      clearbody c L'. subst L.
      destruct (top_byte c L' w Hc ltac:(lia) Hw) as (Hbyte & Hsh). rewrite Hbyte, Hsh.
      destruct (gen_bw_writeByte_spec (buf, cnt) p c Hh Hc) as ([b1 c1] & o1 & E1 & P1).
      rewrite E1. cbv iota beta.
      rewrite wrap_i64_small by lia.
      replace (Z.of_nat (length (c ++ L')) - 8) with (Z.of_nat (length L')) by lia.
      destruct P1 as (cs1 & p1 & F1 & O1 & E1' & H1).
      destruct (IH L' (bval L' * 2 ^ (64 - Z.of_nat (length L'))) b1 c1 (ev ++ o1) p1
                  ltac:(lia) ltac:(lia) Hf2 eq_refl H1) as (st' & o' & E2 & P2).
      exists st', (o1 ++ o'). split; [rewrite E2, app_assoc; reflexivity|].
      eapply bw_post_compose; eassumption.
    + apply bw_loop2_spec; try assumption; lia.
Qed.

Theorem gen_bw_writeBits_spec : forall (st : Z * Z) (p : list bool) (u n : Z),
  bw_holds st p -> 0 <= u < 2 ^ 64 -> 0 <= n <= 64 ->
  exists st' o, gen_bw_writeBits st u n = (tt, st', o) /\ bw_post p (zbits (Z.to_nat n) u) st' o.
Proof.
  intros [buf cnt] p u n Hh Hu Hn. rewrite gen_bw_writeBits_loops.
  set (L := zbits (Z.to_nat n) u).
  assert (HL : Z.of_nat (length L) = n) by (unfold L; rewrite zbits_length; lia).
  assert (Hw : wrap_u64 (Z.shiftl u (wrap_u64 (64 - wrap_u64 n))) = bval L * 2 ^ (64 - Z.of_nat (length L))).
  { rewrite HL. rewrite (wrap_u64_small n) by lia. rewrite (wrap_u64_small (64 - n)) by lia.
    rewrite Z.shiftl_mul_pow2 by lia. unfold L. rewrite bval_zbits. rewrite Z2Nat.id by lia.
    unfold wrap_u64, wrap_u.
    assert (E : 2 ^ 64 = 2 ^ n * 2 ^ (64 - n)) by (rewrite <- Z.pow_add_r by lia; f_equal; lia).
    rewrite E. apply Z.mul_mod_distr_r; apply Z.pow_nonzero; lia. }
  rewrite Hw, <- HL.
  destruct (bw_loop1_spec 70 70 L _ buf cnt [] p ltac:(lia) ltac:(lia) ltac:(lia) eq_refl Hh)
    as (st' & o & E & P).
  exists st', o. split; [exact E|exact P].
Qed.
Print Assumptions gen_bw_writeBits_spec.

(* ---------- flush ---------- *)
Lemma bw_floop_O bit b c ev : bw_floop bit O b c ev = (tt, (b, c), ev).
Proof. reflexivity. Qed.

Lemma bw_floop_S bit f b c ev :
  bw_floop bit (S f) b c ev =
  if negb (c =? 8)
  then (let '(_, (b', c'), o) := gen_bw_writeBit (b, c) bit in bw_floop bit f b' c' (ev ++ o))
  else (tt, (b, c), ev).
Proof. reflexivity. Qed.

Lemma bw_floop_empty bit f b ev : bw_floop bit f b 8 ev = (tt, (b, 8), ev).
Proof. destruct f; [apply bw_floop_O|]. rewrite bw_floop_S. reflexivity. Qed.

Lemma bw_floop_pad : forall fuel v m ev, 0 <= m <= 6 -> (Z.to_nat m < fuel)%nat -> 0 <= v -> v * 2 ^ (m + 1) < 256 ->
  bw_floop false fuel (v * 2 ^ (m + 1)) (m + 1) ev = (tt, (0, 8), ev ++ [(0, [v * 2 ^ (m + 1)])]).
Proof.
  induction fuel as [|f IH]; intros v m ev Hm Hf Hv Hlt; [lia|].
  rewrite bw_floop_S.
  assert (Hne : negb (m + 1 =? 8) = true) by (apply negb_true_iff, Z.eqb_neq; lia).
  rewrite Hne. cbv iota. rewrite gen_bw_writeBit_arith by lia.
  assert (H2 : 2 ^ (m + 1) = 2 * 2 ^ m) by (rewrite Z.pow_add_r by lia; change (2 ^ 1) with 2; lia).
  cbn [Z.b2z]. destruct (Z.eqb_spec m 0) as [Hm0|Hm0]; cbv iota beta.
  - rewrite bw_floop_empty. subst m. change (2 ^ (0 + 1)) with 2.
    replace (2 * v + 0) with (v * 2) by lia. reflexivity.
  - replace m with ((m - 1) + 1) at 1 2 by lia.
    rewrite IH; [|lia|lia|lia|replace (m - 1 + 1) with m by lia; lia].
    replace (m - 1 + 1) with m by lia.
    replace ((2 * v + 0) * 2 ^ m) with (v * 2 ^ (m + 1)) by lia. rewrite app_nil_r. reflexivity.
Qed.

Theorem gen_bw_flush_spec : forall (st : Z * Z) (p : list bool),
  bw_holds st p ->
  gen_bw_flush st false =
    (tt, (0, 8), match p with [] => [] | _ => [(0, [Z.of_N (bits2N (p ++ zeros (8 - length p)))])] end).
Proof.
  intros [buf cnt] p H. rewrite gen_bw_flush_loop.
  fold (bval (p ++ zeros (8 - length p))). rewrite bval_pad.
  apply bw_holds_iff in H. destruct H as (Hl & Hc & Hb).
  destruct p as [|b p].
  - cbn [length] in Hc. rewrite bval_nil in Hb. subst cnt buf.
    change (0 * 2 ^ (8 - Z.of_nat 0)) with 0. change (8 - Z.of_nat 0) with 8. apply bw_floop_empty.
  - cbv match. set (q := b :: p) in *. assert (Hq : (1 <= length q)%nat) by (unfold q; cbn [length]; lia).
    pose proof (bval_range q) as Hr. clearbody q.
    set (m := 7 - Z.of_nat (length q)).
    assert (Hcm : cnt = m + 1) by lia. clear Hc. subst cnt buf.
    replace (Z.of_nat (8 - length q)) with (m + 1) by lia.
    assert (Hlt : bval q * 2 ^ (m + 1) < 256).
    { assert (E : 2 ^ Z.of_nat (length q) * 2 ^ (m + 1) = 256).
      { rewrite <- Z.pow_add_r by lia. replace (Z.of_nat (length q) + (m + 1)) with 8 by lia. reflexivity. }
      rewrite <- E. apply Z.mul_lt_mono_pos_r; [apply Z.pow_pos_nonneg; lia|lia]. }
    rewrite bw_floop_pad by lia. reflexivity.
Qed.
Print Assumptions gen_bw_flush_spec.

(* ---------- runs of events ---------- *)
Lemma ev_wf_cases e : ev_wf e ->
  (exists b, (b = 0 \/ b = 1) /\ e = (0, [b])) \/
  (exists u n, (0 <= u < 2 ^ 64 /\ 0 <= n <= 64) /\ e = (1, [u; n])).
Proof.
  destruct e as [t a]. unfold ev_wf.
  destruct t as [|t|t]; [|destruct t as [t|t|]|]; try contradiction.
  - destruct a as [|b [|b' a]]; try contradiction. intros H. left. exists b. split; [exact H|reflexivity].
  - destruct a as [|u [|n [|x a]]]; try contradiction. intros H. right. exists u, n. split; [exact H|reflexivity].
Qed.

Lemma bw_event_post st p e : ev_wf e -> bw_holds st p ->
  bw_post p (ev_bits e) (fst (bw_event st e)) (snd (bw_event st e)).
Proof.
  intros Hwf Hh. destruct (ev_wf_cases e Hwf) as [(b & Hb & ->)|(u & n & (Hu & Hn) & ->)].
  - change (ev_bits (0, [b])) with [negb (b =? 0)].
    change (bw_event st (0, [b])) with (let '(_, st', evs) := gen_bw_writeBit st (negb (b =? 0)) in (st', evs)).
    destruct (gen_bw_writeBit_spec st p (negb (b =? 0)) Hh) as (st' & o & E & P).
    rewrite E. exact P.
  - change (ev_bits (1, [u; n])) with (zbits (Z.to_nat n) u).
    change (bw_event st (1, [u; n])) with (let '(_, st', evs) := gen_bw_writeBits st u n in (st', evs)).
    destruct (gen_bw_writeBits_spec st p u n Hh Hu Hn) as (st' & o & E & P).
    rewrite E. exact P.
Qed.

Lemma bw_run_post : forall evs st p, Forall ev_wf evs -> bw_holds st p ->
  bw_post p (evs_bits evs) (fst (bw_run st evs)) (snd (bw_run st evs)).
Proof.
  induction evs as [|e evs IH]; intros st p Hwf Hh.
  - apply bw_post_nil. exact Hh.
  - inversion Hwf as [|? ? He Hr]; subst.
    cbn [bw_run fst snd]. change (evs_bits (e :: evs)) with (ev_bits e ++ evs_bits evs).
    eapply bw_post_trans; [apply bw_event_post; eassumption|].
    intros p1 H1. apply IH; assumption.
Qed.

Lemma bw_run_app : forall a b st,
  bw_run st (a ++ b) =
  (fst (bw_run (fst (bw_run st a)) b), snd (bw_run st a) ++ snd (bw_run (fst (bw_run st a)) b)).
Proof.
  induction a as [|e a IH]; intros b st.
  - cbn [app bw_run fst snd]. destruct (bw_run st b); reflexivity.
  - cbn [app bw_run fst snd]. rewrite IH. cbn [fst snd]. rewrite app_assoc. reflexivity.
Qed.

Theorem gen_bitwriter_is_pack : forall evs : list (Z * list Z),
  Forall ev_wf evs ->
  out_bytes (snd (bw_run (0, 8) (evs ++ [(2, [0])]))) = pack (evs_bits evs).
Proof.
  intros evs Hwf. rewrite bw_run_app. cbn [snd]. rewrite out_bytes_app.
  destruct (bw_run_post evs (0, 8) [] Hwf bw_holds_empty) as (cs & p' & F & O & E & H).
  cbn [app] in E. rewrite E, O, pack_chunks by exact F. f_equal.
  set (st1 := fst (bw_run (0, 8) evs)) in *.
  change (bw_run st1 [(2, [0])]) with
    (let so := (let '(_, st', evs) := gen_bw_flush st1 false in (st', evs)) in (fst so, snd so ++ [])).
  rewrite (gen_bw_flush_spec st1 p' H). cbn [fst snd]. rewrite app_nil_r.
  destruct H as (Hl & _ & _). rewrite pack_short by exact Hl.
  destruct p' as [|b p']; [reflexivity|].
  cbn [out_bytes flat_map app]. rewrite N2Z.id. reflexivity.
Qed.
Print Assumptions gen_bitwriter_is_pack.

(* GenC08bw.v — the bit writer REGENERATED from bit_writer.go on every run (coq/gen/Gen.v: gen_bw_writeBit,
   gen_bw_writeByte, gen_bw_writeBits, gen_bw_flush; state = (buffer byte, count of free bits), the calls
   b.w.Write([]byte{x}) recorded as events (0, [x])) turns the compressor's calls into exactly the bytes
   `pack` gives for their bits.  This discharges, for the regenerated code, the event interpretation that
   GenC08.v uses (writeBit b = [b]; writeBits(u, n) = the n low bits of u, most significant first;
   flush(zero) = zero padding to the byte boundary). *)
From Coq Require Import ZArith List Lia Bool.
From Coq Require Import ZifyN ZifyNat ZifyBool.
From SigG Require Import Gen.
From SigM Require Import Base Bits Gorilla.
From SigP Require Import BaseProofs BitsProofs GorillaProofs GenC08.
Import ListNotations.
Ltac Zify.zify_post_hook ::= Z.div_mod_to_equations.
Open Scope Z_scope.

(* one call on the bit writer, as recorded by the translated compressor (GenC08.ev_bits reads the same events as bits) *)
Definition bw_event (st : Z * Z) (e : Z * list Z) : (Z * Z) * list (Z * list Z) :=
  match e with
  | (0, [b]) => let '(_, st', evs) := gen_bw_writeBit st (negb (b =? 0)) in (st', evs)
  | (1, [u; n]) => let '(_, st', evs) := gen_bw_writeBits st u n in (st', evs)
  | (2, [b]) => let '(_, st', evs) := gen_bw_flush st (negb (b =? 0)) in (st', evs)
  | _ => (st, [])
  end.

Fixpoint bw_run (st : Z * Z) (es : list (Z * list Z)) : (Z * Z) * list (Z * list Z) :=
  match es with
  | [] => (st, [])
  | e :: r =>
    let so := bw_event st e in
    let so' := bw_run (fst so) r in
    (fst so', snd so ++ snd so')
  end.

(* the bytes handed to the underlying io.Writer *)
Definition out_bytes (o : list (Z * list Z)) : bytes :=
  flat_map (fun e => match e with (0, [b]) => [Z.to_N b] | _ => [] end) o.

(* events the compressor can produce: single bits, fields of 0..64 bits of a uint64 *)
Definition ev_wf (e : Z * list Z) : Prop :=
  match e with
  | (0, [b]) => b = 0 \/ b = 1
  | (1, [u; n]) => 0 <= u < 2 ^ 64 /\ 0 <= n <= 64
  | _ => False
  end.

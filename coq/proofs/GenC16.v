(* GenC16.v — definitions REGENERATED from the Go source on every run (coq/gen/Gen.v, produced by
   gotrans) coincide with the hand-written model the property theorems are about.  An edit of the
   Go function that changes its meaning breaks a proof here. *)
From Coq Require Import ZArith Bool Lia.
From SigG Require Import Gen.
From SigM Require Import Base Proto.
Open Scope Z_scope.

(* C16: unit thresholds *)
Theorem gen_IsTimeInMilli_is_model : forall t : N,
  gen_IsTimeInMilli (Z.of_N t) = Proto.is_time_in_milli t.
Proof.
  intros t. unfold gen_IsTimeInMilli, Proto.is_time_in_milli, Proto.MILLI_T.
  destruct (N.leb_spec 99999999999 t), (Z.leb_spec 99999999999 (Z.of_N t)); try reflexivity; lia.
Qed.

Theorem gen_IsTimeInNano_is_model : forall t : N,
  gen_IsTimeInNano (Z.of_N t) = Proto.is_time_in_nano t.
Proof.
  intros t. unfold gen_IsTimeInNano, Proto.is_time_in_nano, Proto.NANO_T.
  destruct (N.leb_spec 1000000000000000000 t), (Z.leb_spec 1000000000000000000 (Z.of_N t)); try reflexivity; lia.
Qed.

Theorem gen_normalizeIntToSeconds_is_model : forall z, -9223372036854775808 <= z < 9223372036854775808 ->
  Proto.norm_int_to_seconds z = (if 0 <? z then Some (Z.to_N (gen_normalizeIntToSeconds z)) else None).
Proof.
  intros z Hz. unfold Proto.norm_int_to_seconds, gen_normalizeIntToSeconds, Proto.u32.
  unfold Gen.wrap_u32, Gen.wrap_i64, Gen.wrap_u, Gen.wrap_s.
  change (2 ^ 32) with 4294967296. change (2 ^ 64) with 18446744073709551616. change (2 ^ (64 - 1)) with 9223372036854775808.
  destruct (1000000000000000000 <? z) eqn:E1.
  { apply Z.ltb_lt in E1. replace (0 <? z) with true by (symmetry; apply Z.ltb_lt; lia).
    f_equal. f_equal. f_equal.
    assert (0 <= Z.quot z 1000000000 < 9223372036854775808).
    { rewrite Z.quot_div_nonneg by lia. split; [apply Z.div_pos; lia|apply Z.div_lt_upper_bound; lia]. }
    match goal with |- context [Z.quot z ?d] => remember (Z.quot z d) as q end.
    rewrite (Z.mod_small (q + 9223372036854775808)) by lia.
    replace (q + 9223372036854775808 - 9223372036854775808) with q by lia. reflexivity. }
  destruct (1000000000000 <? z) eqn:E2.
  { apply Z.ltb_lt in E2. replace (0 <? z) with true by (symmetry; apply Z.ltb_lt; lia).
    f_equal. f_equal. f_equal.
    assert (0 <= Z.quot z 1000 < 9223372036854775808).
    { rewrite Z.quot_div_nonneg by lia. split; [apply Z.div_pos; lia|apply Z.div_lt_upper_bound; lia]. }
    match goal with |- context [Z.quot z ?d] => remember (Z.quot z d) as q end.
    rewrite (Z.mod_small (q + 9223372036854775808)) by lia.
    replace (q + 9223372036854775808 - 9223372036854775808) with q by lia. reflexivity. }
  destruct (0 <? z); reflexivity.
Qed.

(* GenC19.v — utils.IsSafePathComponent REGENERATED from pkg/utils/fileutils.go on every run (coq/gen/Gen.v, produced by
   gotrans; a Go string is its byte sequence) is the model's safe_component: the guard every name-to-path site relies on. *)
From Coq Require Import ZArith NArith List Bool Lia.
From SigG Require Import Gen.
From SigM Require Import Base Paths.
Import ListNotations.

Definition zbytes (s : list N) : list Z := map Z.of_N s.

Lemma gostr_eqb_bytes : forall a b : list N, gostr_eqb (zbytes a) (zbytes b) = bytes_eqb a b.
Proof.
  induction a as [|x a IH]; destruct b as [|y b]; try reflexivity.
  cbn [zbytes map gostr_eqb]. unfold bytes_eqb in *. cbn [list_eqb].
  rewrite <- IH. f_equal.
  destruct (N.eqb_spec x y) as [->|Hn]; [apply Z.eqb_refl|].
  apply Z.eqb_neq. intros H. apply N2Z.inj in H. contradiction.
Qed.

Lemma zeqb_of_N (a b : N) : (Z.of_N a =? Z.of_N b)%Z = (a =? b)%N.
Proof.
  destruct (N.eqb_spec a b) as [->|H]; [apply Z.eqb_refl|].
  apply Z.eqb_neq. intros E. apply N2Z.inj in E. contradiction.
Qed.

Lemma ex_cons {A} (f : A -> bool) x l : existsb f (x :: l) = f x || existsb f l.
Proof. reflexivity. Qed.

Lemma contains_any_forallb : forall s : list N,
  gostr_contains_any (zbytes s) [47; 92; 0]%Z = negb (forallb safe_char s).
Proof.
  unfold gostr_contains_any.
  induction s as [|c s IH]; [reflexivity|].
  change (zbytes (c :: s)) with (Z.of_N c :: zbytes s).
  rewrite ex_cons, IH. cbn [forallb].
  rewrite !ex_cons. cbn [existsb].
  unfold safe_char, SL.
  change 47%Z with (Z.of_N 47). change 92%Z with (Z.of_N 92). change 0%Z with (Z.of_N 0).
  rewrite !zeqb_of_N.
  destruct (c =? 47)%N, (c =? 92)%N, (c =? 0)%N; reflexivity.
Qed.

Theorem gen_IsSafePathComponent_is_model : forall name : list N,
  gen_IsSafePathComponent (zbytes name) = safe_component name.
Proof.
  intros name. unfold gen_IsSafePathComponent, safe_component, is_dot, is_dotdot.
  replace (gostr_eqb (zbytes name) []) with (bytes_eqb name []) by (rewrite <- gostr_eqb_bytes; reflexivity).
  replace (gostr_eqb (zbytes name) [46]%Z) with (bytes_eqb name [DOT]) by (rewrite <- gostr_eqb_bytes; reflexivity).
  replace (gostr_eqb (zbytes name) [46; 46]%Z) with (bytes_eqb name DD) by (rewrite <- gostr_eqb_bytes; reflexivity).
  rewrite contains_any_forallb, negb_involutive.
  destruct name as [|c r]; [reflexivity|].
  replace (bytes_eqb (c :: r) []) with false by reflexivity. cbn [negb andb]. reflexivity.
Qed.
Print Assumptions gen_IsSafePathComponent_is_model.

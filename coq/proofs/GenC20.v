(* GenC20.v — the alert decision functions REGENERATED from the Go source on every run
   (alertutils.IsAlertStatePendingOrFiring, alertsHandler.shouldUpdateAlertStateToFiring; coq/gen/Gen.v,
   produced by gotrans) coincide with the hand-written model `should_fire` that the alert-state theorems
   are about.  The history read (databaseObj.GetAlertHistoryByAlertID with Limit = N-1, newest first,
   evaluations only) is an input of the translated function; its contract — the newest N-1 evaluation
   rows — is what `hist_read` states, and the correspondence of ./check C20 runs it on the real sqlite store. *)
From Coq Require Import ZArith NArith List Lia Bool.
From Coq Require Import ZifyN ZifyNat ZifyBool.
From SigG Require Import Gen.
From SigM Require Import Base Alert.
Import ListNotations.
Ltac Zify.zify_post_hook ::= Z.div_mod_to_equations.
Open Scope Z_scope.

Definition zcode (s : astate) : Z := Z.of_N (astate_code s).

Theorem gen_IsAlertStatePendingOrFiring_is_model : forall s : astate,
  gen_IsAlertStatePendingOrFiring (zcode s) = pending_or_firing s.
Proof. intros s. destruct s; reflexivity. Qed.

(* GetAlertHistoryByAlertID(Limit = k, DESC, EvaluationsOnly): the newest k evaluation rows *)
Definition hist_read (k : N) (h : history) : list Z := map zcode (firstn (N.to_nat k) (eval_rows h)).

(* the loop of the translated function *)
Lemma loop_is_forallb (l : list astate) :
  (fix loop1_ (l_ : list Z) {struct l_} : bool :=
     match l_ with
     | nil => (fun _ : unit => true) tt
     | e_ :: l_' => let alertHistory_AlertState := e_ in
        if negb (gen_IsAlertStatePendingOrFiring alertHistory_AlertState) then false else loop1_ l_'
     end) (map zcode l) = forallb pending_or_firing l.
Proof.
  induction l as [|a l IH]; [reflexivity|].
  cbn [map forallb]. cbv zeta. rewrite gen_IsAlertStatePendingOrFiring_is_model.
  destruct (pending_or_firing a); cbn [negb andb]; [exact IH|reflexivity].
Qed.

Lemma window_ok_firstn : forall (l : list astate) (k : N),
  window_ok k l = (N.of_nat (length (firstn (N.to_nat k) l)) =? k)%N && forallb pending_or_firing (firstn (N.to_nat k) l).
Proof.
  induction l as [|a l IH]; intros k.
  - destruct (N.eqb_spec k 0) as [->|Hk].
    + reflexivity.
    + unfold window_ok. destruct (N.eqb_spec k 0); [contradiction|].
      rewrite firstn_nil. cbn [length forallb]. destruct (N.eqb_spec (N.of_nat 0) k); [lia|reflexivity].
  - destruct (N.eqb_spec k 0) as [->|Hk].
    + reflexivity.
    + cbn [window_ok]. destruct (N.eqb_spec k 0); [contradiction|].
      replace (N.to_nat k) with (S (N.to_nat (k - 1))) by lia.
      cbn [firstn length forallb]. rewrite IH.
      destruct (pending_or_firing a); cbn [andb]; [|rewrite andb_false_r; reflexivity].
      f_equal.
      destruct (N.eqb_spec (N.of_nat (length (firstn (N.to_nat (k - 1)) l))) (k - 1));
      destruct (N.eqb_spec (N.of_nat (S (length (firstn (N.to_nat (k - 1)) l)))) k); try reflexivity; lia.
Qed.

(* Guards: EvalInterval = 0 makes the Go division panic (alert creation rejects it); with
   EvalWindow / EvalInterval - 1 >= 2^63 the conversion int(intervalCount-1) turns negative and the length
   test is skipped (the model asks for that many rows): excluded by window < 2^63 minutes. *)
Theorem gen_shouldUpdateAlertStateToFiring_is_model : forall (window interval : N) (h : history) (cur : astate),
  (0 < interval)%N -> (window < 2 ^ 63)%N -> (interval < 2 ^ 64)%N ->
  gen_shouldUpdateAlertStateToFiring (Z.of_N interval) (Z.of_N window)
      (hist_read (window / interval - 1) h) (zcode cur)
  = should_fire window interval h cur.
Proof.
  intros window interval h cur Hi Hw Hi64.
  change (2 ^ 63)%N with 9223372036854775808%N in Hw.
  unfold gen_shouldUpdateAlertStateToFiring, should_fire.
  rewrite gen_IsAlertStatePendingOrFiring_is_model.
  destruct (pending_or_firing cur); cbn [negb]; [|reflexivity].
  set (n := (window / interval)%N).
  assert (Hnw : (n <= window)%N) by (unfold n; apply N.div_le_upper_bound; nia).
  assert (Hn : wrap_u64 (Z.of_N window / Z.of_N interval) = Z.of_N n).
  { unfold wrap_u64, wrap_u, n. change (2 ^ 64) with 18446744073709551616.
    rewrite <- N2Z.inj_div. rewrite Z.mod_small; [reflexivity|]. fold n. lia. }
  rewrite Hn. cbv zeta.
  destruct (N.eqb_spec n 0) as [E0|E0].
  { rewrite E0. reflexivity. }
  replace (Z.of_N n =? 0) with false by (symmetry; apply Z.eqb_neq; lia).
  destruct (N.eqb_spec n 1) as [E1|E1].
  { rewrite E1. reflexivity. }
  replace (Z.of_N n =? 1) with false by (symmetry; apply Z.eqb_neq; lia).
  assert (Hk : wrap_i64 (wrap_u64 (Z.of_N n - 1)) = Z.of_N (n - 1)).
  { unfold wrap_i64, wrap_u64, wrap_s, wrap_u. change (2 ^ 64) with 18446744073709551616.
    change (2 ^ (64 - 1)) with 9223372036854775808. lia. }
  rewrite Hk. unfold hist_read. rewrite map_length.
  rewrite window_ok_firstn.
  set (l := firstn (N.to_nat (n - 1)) (eval_rows h)).
  destruct (Z.ltb_spec (Z.of_nat (length l)) (Z.of_N (n - 1))) as [Hlt|Hge].
  - destruct (N.eqb_spec (N.of_nat (length l)) (n - 1)); [lia|reflexivity].
  - assert (Hle : (length l <= N.to_nat (n - 1))%nat) by (unfold l; apply firstn_le_length).
    destruct (N.eqb_spec (N.of_nat (length l)) (n - 1)); [|lia].
    cbn [andb]. apply loop_is_forallb.
Qed.
Print Assumptions gen_shouldUpdateAlertStateToFiring_is_model.

(* non-vacuity: N = 3, two earlier evaluations Pending, Firing with a config-change row in between *)
Example gen_should_fire_example :
  gen_shouldUpdateAlertStateToFiring 1 3 (hist_read (3 / 1 - 1) [HEval Firing; HConfig; HEval Pending; HEval Normal]) (zcode Pending) = true
  /\ should_fire 3 1 [HEval Firing; HConfig; HEval Pending; HEval Normal] Pending = true.
Proof. split; vm_compute; reflexivity. Qed.

(* shouldSendNotification: the notification row is read by processGetAlertNotification (its LastAlertState is an
   input of the translated function), the two time gates are computed by isCooldownOver / isSilenceMinutesOver
   (their results are inputs; the model's gate_over is their meaning, compared on the real code by ./check C20) *)
Theorem gen_shouldSendNotification_is_model : forall (cur : astate) (nf : notif) (silence now : Z) (alertID : list Z),
  gen_shouldSendNotification (zcode (n_last_state nf))
      (gate_over (n_cooldown nf) (n_last_sent nf) now) (gate_over silence (n_last_sent nf) now) alertID (zcode cur)
  = should_send cur nf silence now.
Proof.
  intros cur nf silence now alertID. unfold gen_shouldSendNotification, should_send.
  destruct cur; destruct (n_last_state nf);
  destruct (gate_over (n_cooldown nf) (n_last_sent nf) now); destruct (gate_over silence (n_last_sent nf) now); reflexivity.
Qed.
Print Assumptions gen_shouldSendNotification_is_model.

(* GenGuardC11.v — the C11 guarded-by obligations hold on the skeletons regenerated from /repo (computed here). *)
From Coq Require Import NArith List Bool String.
From SigM Require Import LockTrace CallOrder.
From SigG Require Import GenGuard.
From SigP Require Import CallOrderProofs GenGuardCheck GenGuardProofs.
Import ListNotations.

Theorem gb_C11_checked : grules_ok c11_grules = true.
Proof. vm_compute. reflexivity. Qed.

Theorem gb_C11_rules_hold : forall r, In r c11_grules -> grule_holds r.
Proof. exact (grules_ok_hold c11_grules gb_C11_checked). Qed.
Print Assumptions gb_C11_rules_hold.

Example gb_C11_count : List.length c11_grules = 5%nat.
Proof. reflexivity. Qed.

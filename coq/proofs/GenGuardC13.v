(* GenGuardC13.v — the C13 guarded-by obligations hold on the skeletons regenerated from /repo (computed here). *)
From Coq Require Import NArith List Bool String.
From SigM Require Import LockTrace CallOrder.
From SigG Require Import GenGuard.
From SigP Require Import CallOrderProofs GenGuardCheck GenGuardProofs.
Import ListNotations.

Theorem gb_C13_checked : grules_ok c13_grules = true.
Proof. vm_compute. reflexivity. Qed.

Theorem gb_C13_rules_hold : forall r, In r c13_grules -> grule_holds r.
Proof. exact (grules_ok_hold c13_grules gb_C13_checked). Qed.
Print Assumptions gb_C13_rules_hold.

Example gb_C13_count : List.length c13_grules = 1%nat.
Proof. reflexivity. Qed.

(* GenGuardC17.v — the C17 guarded-by obligations hold on the skeletons regenerated from /repo (computed here). *)
From Coq Require Import NArith List Bool String.
From SigM Require Import LockTrace CallOrder.
From SigG Require Import GenGuard.
From SigP Require Import CallOrderProofs GenGuardCheck GenGuardProofs.
Import ListNotations.

Theorem gb_C17_checked : grules_ok c17_grules = true.
Proof. vm_compute. reflexivity. Qed.

Theorem gb_C17_rules_hold : forall r, In r c17_grules -> grule_holds r.
Proof. exact (grules_ok_hold c17_grules gb_C17_checked). Qed.
Print Assumptions gb_C17_rules_hold.

Example gb_C17_count : List.length c17_grules = 1%nat.
Proof. reflexivity. Qed.

(* GenGuardCheck.v — "guarded by" obligations checked on the regenerated skeletons (coq/gen/GenGuard.v, written by
   `gotrans locktrace` in guardtrace mode from /repo on every run; variables in gotrans/guarded.json).
   Each obligation: a shared variable and the mutex that protects it; every function of the translated packages
   whose skeleton (callees inlined four levels deep) reads or writes the variable does so only while the goroutine
   holds the mutex — except the listed functions, which are entered with the mutex already held by their caller
   (their accesses are checked where they are inlined into the callers) or run before any other goroutine exists. *)
From Coq Require Import NArith List Bool String.
From SigM Require Import LockTrace CallOrder.
From SigG Require Import GenGuard.
Import ListNotations.
Open Scope string_scope.

Record grule := mkG { g_id : string; g_var : string; g_lock : string; g_except : list string }.

Definition c11_grules : list grule :=
  [ mkG "C11.segstore_table" "writer.allSegStores" "writer.allSegStoresLock"
      [ "gb_segment_writer__ForcedFlushToSegfile" (* reads len(allSegStores) for a log line before taking the lock, at shutdown *) ];
    mkG "C11.unrotated_segment_info" "writer.AllUnrotatedSegmentInfo" "writer.UnrotatedInfoLock" [];
    mkG "C11.rotated_metadata_reverse_index" "metadata.allSegmentMetadata.segmentMetadataReverseIndex" "metadata.allSegmentMetadata.updateLock"
      [ "gb_segment_metadata__allSegmentMetadata_deleteSegmentKeyWithLock" (* entered with updateLock held *) ];
    mkG "C11.rotated_metadata_by_table" "metadata.allSegmentMetadata.tableSortedMetadata" "metadata.allSegmentMetadata.updateLock"
      [ "gb_segment_metadata__allSegmentMetadata_deleteSegmentKeyWithLock" ];
    mkG "C11.persistent_query_results" "pqs.allPersistentQueryResults" "pqs.allPersistentQueryResultsLock"
      [ "gb_segment_query_pqs__init" (* package initialisation: no other goroutine yet *) ] ].
Definition c13_grules : list grule :=
  [ mkG "C13.virtual_table_list" "virtualtable.allVirtualTables" "virtualtable.globalTableAccessLock"
      [ "gb_virtualtable__InitVTable"; "gb_segment_query_metadata__initMetdataStore";
        "gb_segment_query_metadata__InitMockColumnarMetadataStore"; "gb_segment_query_metadata__BulkInitMockColumnarMetadataStore"
        (* start-up / test initialisation: the table is replaced before any request is served *) ] ].
Definition c17_grules : list grule :=
  [ mkG "C17.running_query_table" "query.allRunningQueries" "query.arqMapLock"
      [ "gb_segment_query__withLockInitializeQuery"; "gb_segment_query__withLockRunQuery";
        "gb_segment_query__RunningQueryState_withLockDeleteQuery" (* entered with arqMapLock held, as their names say; checked inlined in their callers *) ] ].
Definition gb_rules : list grule := c11_grules ++ c13_grules ++ c17_grules.

Fixpoint glabel_id (ls : list (N * string * N)) (name : string) : option N :=
  match ls with [] => None | (i, n, _) :: r => if String.eqb n name then Some i else glabel_id r name end.
Fixpoint gobj_id (ls : list (N * string)) (name : string) : option N :=
  match ls with [] => None | (i, n) :: r => if String.eqb n name then Some i else gobj_id r name end.

Definition gb_fuel : nat := 6.

(* the functions that touch the variable *)
Definition touching (v : N) : list (string * stm) := filter (fun p => mentions v (snd p)) gb_all.

Definition fn_protected (l v : N) (p : string * stm) : bool :=
  match oanalyse (held_step l v) gb_fuel (snd p) with [] => true | _ => false end.

(* per rule: None = variable or lock unknown; Some l = the functions (not excepted) with an unprotected access *)
Definition check_grule (r : grule) : option (list string) :=
  match glabel_id gb_labels (g_var r), gobj_id gb_objects (g_lock r) with
  | Some v, Some l =>
      match touching v with [] => None | _ => Some (map fst (filter (fun p => negb (existsb (String.eqb (fst p)) (g_except r)) && negb (fn_protected l v p)) (touching v))) end
  | _, _ => None
  end.

Definition gb_report : list (string * option (list string)) :=
  filter (fun x => match snd x with Some [] => false | _ => true end)
         (map (fun r => (g_id r, check_grule r)) gb_rules).
Definition gb_all_ok : bool := match gb_report with [] => true | _ => false end.

(* what a checked rule says: variable and lock exist in the regenerated skeletons, some function touches the variable,
   and EVERY trace of EVERY function of the translated packages that touches it (other than the listed ones) has, at
   each access, more Lock/RLock than Unlock/RUnlock operations of the goroutine itself on the lock before it *)
Definition grule_holds (r : grule) : Prop :=
  exists v l, glabel_id gb_labels (g_var r) = Some v /\ gobj_id gb_objects (g_lock r) = Some l /\
    touching v <> [] /\
    forall name s, In (name, s) gb_all -> mentions v s = true ->
      existsb (String.eqb name) (g_except r) = false ->
      forall t o, exec s t o -> protected l v t.

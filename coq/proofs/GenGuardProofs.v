(* GenGuardProofs.v — a guarded-by obligation that the computation accepts holds for every trace (generic part); the
   computation is run per property in GenGuardC11.v, GenGuardC13.v, GenGuardC17.v. *)
From Coq Require Import NArith List Bool String.
From SigM Require Import LockTrace CallOrder.
From SigG Require Import GenGuard.
From SigP Require Import CallOrderProofs GenGuardCheck.
Import ListNotations.

Lemma filter_nil_all' : forall (A : Type) (f : A -> bool) (l : list A),
  filter f l = [] -> forall x, In x l -> f x = false.
Proof.
  intros A f l. induction l as [|y l IH]; intros H x Hin.
  - destruct Hin.
  - simpl in H. destruct (f y) eqn:E; [discriminate H|].
    destruct Hin as [->|Hin]; [exact E | exact (IH H x Hin)].
Qed.

Lemma map_nil_inv : forall (A B : Type) (f : A -> B) (l : list A), map f l = [] -> l = [].
Proof. intros A B f [|x l] H; [reflexivity | discriminate H]. Qed.

Lemma Some_inj : forall (A : Type) (a b : A), Some a = Some b -> a = b.
Proof. intros A a b H. congruence. Qed.

Lemma check_grule_nil : forall r, check_grule r = Some [] -> grule_holds r.
Proof.
  intros r H. unfold check_grule in H. unfold grule_holds.
  destruct (glabel_id gb_labels (g_var r)) as [v|] eqn:Ev; [|discriminate H].
  destruct (gobj_id gb_objects (g_lock r)) as [l|] eqn:El; [|discriminate H].
  remember (touching v) as tv eqn:Et.
  destruct tv as [|p0 ps]; [discriminate H|].
  apply Some_inj in H. apply map_nil_inv in H. rewrite Et in H.
  exists v, l. repeat split; try reflexivity.
  - rewrite <- Et. discriminate.
  - intros name s Hin Hm Hex t o Hexec.
    assert (Hto : In (name, s) (touching v)).
    { unfold touching. apply filter_In. split; [exact Hin | exact Hm]. }
    pose proof (filter_nil_all' _ _ _ H (name, s) Hto) as Hf. cbn [fst] in Hf.
    rewrite Hex in Hf. cbn [negb andb] in Hf.
    unfold fn_protected in Hf. cbn [snd] in Hf.
    destruct (oanalyse (held_step l v) gb_fuel s) eqn:Ea; [|discriminate Hf].
    exact (held_checked gb_fuel l v s Ea t o Hexec).
Qed.

Definition grules_ok (l : list grule) : bool :=
  forallb (fun r => match check_grule r with Some [] => true | _ => false end) l.

Theorem grules_ok_hold : forall l, grules_ok l = true -> forall r, In r l -> grule_holds r.
Proof.
  intros l H r Hin. apply check_grule_nil.
  unfold grules_ok in H. rewrite forallb_forall in H. specialize (H r Hin).
  destruct (check_grule r) as [[|y ys]|]; [reflexivity | discriminate H | discriminate H].
Qed.
Print Assumptions grules_ok_hold.

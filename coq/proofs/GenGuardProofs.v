(* GenGuardProofs.v — the guarded-by obligations hold on the skeletons regenerated from /repo. *)
From Coq Require Import NArith List Bool String.
From SigM Require Import LockTrace CallOrder.
From SigG Require Import GenGuard.
From SigP Require Import CallOrderProofs GenGuardCheck.
Import ListNotations.

Theorem gb_all_checked : gb_all_ok = true.
Proof. vm_compute. reflexivity. Qed.

Lemma filter_nil_all' : forall (A : Type) (f : A -> bool) (l : list A),
  filter f l = [] -> forall x, In x l -> f x = false.
Proof.
  intros A f l. induction l as [|y l IH]; intros H x Hin.
  - destruct Hin.
  - simpl in H. destruct (f y) eqn:E; [discriminate H|].
    destruct Hin as [->|Hin]; [exact E | exact (IH H x Hin)].
Qed.

Lemma map_nil_inv : forall (A B : Type) (f : A -> B) (l : list A), map f l = [] -> l = [].
Proof. intros A B f [|x l] H; [reflexivity | discriminate H]. Qed.

Lemma Some_inj : forall (A : Type) (a b : A), Some a = Some b -> a = b.
Proof. intros A a b H. congruence. Qed.

Lemma check_grule_nil : forall r, check_grule r = Some [] -> grule_holds r.
Proof.
  intros r H. unfold check_grule in H. unfold grule_holds.
  destruct (glabel_id gb_labels (g_var r)) as [v|] eqn:Ev; [|discriminate H].
  destruct (gobj_id gb_objects (g_lock r)) as [l|] eqn:El; [|discriminate H].
  remember (touching v) as tv eqn:Et.
  destruct tv as [|p0 ps]; [discriminate H|].
  apply Some_inj in H. apply map_nil_inv in H. rewrite Et in H.
  exists v, l. repeat split; try reflexivity.
  - rewrite <- Et. discriminate.
  - intros name s Hin Hm Hex t o Hexec.
    assert (Hto : In (name, s) (touching v)).
    { unfold touching. apply filter_In. split; [exact Hin | exact Hm]. }
    pose proof (filter_nil_all' _ _ _ H (name, s) Hto) as Hf. cbn [fst] in Hf.
    rewrite Hex in Hf. cbn [negb andb] in Hf.
    unfold fn_protected in Hf. cbn [snd] in Hf.
    destruct (oanalyse (held_step l v) gb_fuel s) eqn:Ea; [|discriminate Hf].
    exact (held_checked gb_fuel l v s Ea t o Hexec).
Qed.

Theorem gb_rules_hold : forall r, In r gb_rules -> grule_holds r.
Proof.
  intros r Hin. apply check_grule_nil.
  pose proof gb_all_checked as Hok. unfold gb_all_ok in Hok.
  destruct gb_report as [|x l] eqn:Er; [|discriminate Hok].
  unfold gb_report in Er.
  pose proof (filter_nil_all' _ _ _ Er (g_id r, check_grule r)) as Hf.
  assert (Hin' : In (g_id r, check_grule r) (map (fun r0 => (g_id r0, check_grule r0)) gb_rules)).
  { apply in_map_iff. exists r. split; [reflexivity | exact Hin]. }
  specialize (Hf Hin'). cbn [snd] in Hf.
  destruct (check_grule r) as [[|y ys]|]; [reflexivity | discriminate Hf | discriminate Hf].
Qed.
Print Assumptions gb_rules_hold.

Lemma in_gb_rules : forall r, In r c11_grules \/ In r c13_grules \/ In r c17_grules -> In r gb_rules.
Proof. intros r H. unfold gb_rules. repeat rewrite in_app_iff. tauto. Qed.
Theorem gb_C11_rules_hold : forall r, In r c11_grules -> grule_holds r.
Proof. intros r H. apply gb_rules_hold, in_gb_rules. tauto. Qed.
Theorem gb_C13_rules_hold : forall r, In r c13_grules -> grule_holds r.
Proof. intros r H. apply gb_rules_hold, in_gb_rules. tauto. Qed.
Theorem gb_C17_rules_hold : forall r, In r c17_grules -> grule_holds r.
Proof. intros r H. apply gb_rules_hold, in_gb_rules. tauto. Qed.

Example grules_counts : List.length c11_grules = 5%nat /\ List.length c13_grules = 1%nat /\ List.length c17_grules = 1%nat.
Proof. vm_compute. repeat split. Qed.

(* GenLocksCheck.v — definitions used by GenLocksProofs.v and by the report that lib/vcheck.py prints when the
   lock-discipline proof no longer goes through: the listed exceptions, the signature of an objection, the per-function test. *)
From Coq Require Import NArith List String Bool.
From SigM Require Import LockTrace.
From SigG Require Import GenLocks.
Import ListNotations.
Open Scope string_scope.

Definition lk_fuel : nat := 12.

Fixpoint obj_name (o : N) (l : list (N * string)) : string :=
  match l with [] => "?" | (i, n) :: r => if N.eqb i o then n else obj_name o r end.

Definition viol_sig (v : viol) : string :=
  match v with
  | VReacquire o => "reacquire " ++ obj_name o lk_objects
  | VBlockUnderLock c l => "block on " ++ obj_name c lk_objects ++ " holding " ++ obj_name l lk_objects
  end.

(* hazards of the unchanged tree (function, signatures that may be reported for it) *)
Definition lk_exceptions : list (string * list string) :=
  [ (* READY/RUNNING are sent while arqMapLock is held; the channel of a query that has never run is empty (QueryLife model) *)
    ("lk_segment_query__RunQuery", ["block on *.StateChan holding query.arqMapLock"]);
    ("lk_segment_query__initiateRunQuery", ["block on *.StateChan holding query.arqMapLock"]);
    ("lk_segment_query__PullQueriesToRun", ["block on *.StateChan holding query.arqMapLock"]);
    ("lk_segment_query__StartQuery", ["block on *.StateChan holding query.arqMapLock"]);
    ("lk_segment_query__StartQueryAsCoordinator", ["block on *.StateChan holding *.rqsLock"]);
    (* progress / response updates of ASYNC queries are sent while the query's own lock is held *)
    ("lk_segment_query__IncProgressForRRCCmd", ["block on *.StateChan holding *.rqsLock"]);
    ("lk_segment_query__SetPipeResp", ["block on *.StateChan holding *.rqsLock"]);
    (* QUERY_RESTART is sent to every running query under the read lock of the table *)
    ("lk_segment_query__RestartAllRunningQueries", ["block on *.StateChan holding query.arqMapLock"]);
    (* the OLD query's rqsLock is held while the NEW query's rqsLock is taken: two objects, one name *)
    ("lk_segment_query__RunningQueryState_RestartQuery", ["reacquire *.rqsLock"; "block on *.StateChan holding *.rqsLock"]);
    (* a result channel local to the function is written while the segstore lock is held *)
    ("lk_segment_writer__removeStaleSegments", ["block on * holding *.Lock"]);
    ("lk_segment_writer__removeStaleSegmentsLoop", ["block on * holding *.Lock"]) ].

Fixpoint allowed (name : string) (l : list (string * list string)) : list string :=
  match l with [] => [] | (n, sigs) :: r => if String.eqb n name then sigs else allowed name r end.

Definition sig_in (s : string) (l : list string) : bool := existsb (String.eqb s) l.

Definition fn_ok (p : string * stm) : bool :=
  forallb (fun v => sig_in (viol_sig v) (allowed (fst p) lk_exceptions)) (analyse lk_fuel (snd p)).


(* for the report: functions that fail the test, what is objected to, and one offending trace each *)
Definition ev_name (e : ev) : string :=
  (match fst e with KLock => "Lock " | KRLock => "RLock " | KUnlock => "Unlock " | KRUnlock => "RUnlock " | KSend => "send " | KRecv => "receive " end)
  ++ obj_name (snd e) lk_objects.
Definition lk_report : list (string * list (string * list string)) :=
  map (fun p => (fst p, map (fun w => (viol_sig (fst w), map ev_name (snd w)))
                            (filter (fun w => negb (sig_in (viol_sig (fst w)) (allowed (fst p) lk_exceptions))) (witnesses lk_fuel (snd p)))))
      (filter (fun p => negb (fn_ok p)) lk_all).

(* GenLocksCheck.v — definitions used by GenLocksProofs.v and by the report that lib/vcheck.py prints when the
   lock-discipline proof no longer goes through: the listed exceptions, the signature of an objection, the per-function test. *)
From Coq Require Import NArith List String Bool.
From SigM Require Import LockTrace LockOrder.
From SigG Require Import GenLocks.
Import ListNotations.
Open Scope string_scope.

Definition lk_fuel : nat := 12.

Fixpoint obj_name (o : N) (l : list (N * string)) : string :=
  match l with [] => "?" | (i, n) :: r => if N.eqb i o then n else obj_name o r end.

Definition viol_sig (v : viol) : string :=
  match v with
  | VReacquire o => "reacquire " ++ obj_name o lk_objects
  | VBlockUnderLock c l => "block on " ++ obj_name c lk_objects ++ " holding " ++ obj_name l lk_objects
  end.

(* hazards of the unchanged tree (function, signatures that may be reported for it) *)
Definition sg_chan_under_table : string := "block on query.RunningQueryState.StateChan holding query.arqMapLock".
Definition sg_chan_under_query : string := "block on query.RunningQueryState.StateChan holding query.RunningQueryState.rqsLock".
Definition sg_two_queries : string := "reacquire query.RunningQueryState.rqsLock".
Definition sg_merge_adderror : string := "reacquire mresults.MetricsResult.rwLock".
Definition sg_stale_chan : string := "block on removeStaleSegments:segStoresToDeleteChan holding writer.SegStore.Lock".

Definition lk_exceptions : list (string * list string) :=
  [ (* READY/RUNNING are sent while arqMapLock is held; the channel of a query that has never run is empty (QueryLife model) *)
    ("lk_segment_query__RunQuery", [sg_chan_under_table]);
    ("lk_segment_query__initiateRunQuery", [sg_chan_under_table]);
    ("lk_segment_query__PullQueriesToRun", [sg_chan_under_table]);
    ("lk_segment_query__StartQuery", [sg_chan_under_table]);
    ("lk_segment_query__StartQueryAsCoordinator", [sg_chan_under_query]);
    (* QUERY_RESTART is sent to every running query under the read lock of the table *)
    ("lk_segment_query__RestartAllRunningQueries", [sg_chan_under_table]);
    (* progress / response updates of ASYNC queries are sent while the query's own lock is held; the searcher calls them *)
    ("lk_segment_query__IncProgressForRRCCmd", [sg_chan_under_query]);
    ("lk_segment_query__SetPipeResp", [sg_chan_under_query]);
    ("lk_segment_query_processor__Searcher_Fetch", [sg_chan_under_query]);
    ("lk_segment_query_processor__Searcher_fetchRRCs", [sg_chan_under_query]);
    ("lk_segment_query_processor__Searcher_fetchColumnSortedRRCs", [sg_chan_under_query]);
    ("lk_segment_query_processor__Searcher_fetchSortedRRCsForQSR", [sg_chan_under_query]);
    ("lk_segment_query_processor__Searcher_fetchSortedRRCsFromQSRs", [sg_chan_under_query]);
    (* the OLD query's rqsLock is held while the NEW query's rqsLock is taken: two objects of one type *)
    ("lk_segment_query__RunningQueryState_RestartQuery", [sg_two_queries]);
    (* MetricsResult.Merge holds r.rwLock and calls r.AddError, which locks it again: a self-deadlock on the branch where
       Series.Merge fails — which it never does today (it returns nil on every path); callers inherit the objection *)
    ("lk_segment_results_mresults__MetricsResult_Merge", [sg_merge_adderror]);
    ("lk_segment_search__blockWorker", [sg_merge_adderror]);
    ("lk_segment_search__RawSearchMetricsSegment", [sg_merge_adderror]);
    ("lk_segment_writer_metrics__SearchUnrotatedMetricsBlock", [sg_merge_adderror]);
    ("lk_segment_query__applyMetricsOperatorOnSegments", [sg_merge_adderror]);
    ("lk_segment_query__ApplyMetricsQuery", [sg_merge_adderror]);
    (* a result channel local to the function is written while the segstore lock is held *)
    ("lk_segment_writer__removeStaleSegments", [sg_stale_chan]);
    ("lk_segment_writer__removeStaleSegmentsLoop", [sg_stale_chan]) ].

Fixpoint allowed (name : string) (l : list (string * list string)) : list string :=
  match l with [] => [] | (n, sigs) :: r => if String.eqb n name then sigs else allowed name r end.

Definition sig_in (s : string) (l : list string) : bool := existsb (String.eqb s) l.

Definition fn_ok (p : string * stm) : bool :=
  forallb (fun v => sig_in (viol_sig v) (allowed (fst p) lk_exceptions)) (analyse lk_fuel (snd p)).


(* for the report: functions that fail the test, what is objected to, and one offending trace each *)
Definition ev_name (e : ev) : string :=
  (match fst e with KLock => "Lock " | KRLock => "RLock " | KUnlock => "Unlock " | KRUnlock => "RUnlock " | KSend => "send " | KRecv => "receive " | KCall => "call " end)
  ++ obj_name (snd e) lk_objects.
Definition lk_report : list (string * list (string * list string)) :=
  map (fun p => (fst p, map (fun w => (viol_sig (fst w), map ev_name (snd w)))
                            (filter (fun w => negb (sig_in (viol_sig (fst w)) (allowed (fst p) lk_exceptions))) (witnesses lk_fuel (snd p)))))
      (filter (fun p => negb (fn_ok p)) lk_all).

(* ---------- lock order: the nestings of all functions that are not listed above ---------- *)
Definition lk_ok_fns : list (string * stm) :=
  filter (fun p => match allowed (fst p) lk_exceptions with [] => true | _ => false end) lk_all.
Definition lk_order_graph : list edge :=
  fold_right (fun p acc => eunion (fn_edges lk_fuel (snd p)) acc) [] lk_ok_fns.
(* for the report: the edges as names *)
Definition lk_order_names : list (string * string) :=
  map (fun e => (obj_name (fst e) lk_objects, obj_name (snd e) lk_objects)) lk_order_graph.
(* for the report: the edges that lie on a cycle of the order (b reaches a again), with the unlisted functions that nest the
   two mutexes that way; empty when the order has no cycle *)
Fixpoint nmem (x : N) (l : list N) : bool := match l with [] => false | y :: r => N.eqb x y || nmem x r end.
Definition succs (G : list edge) (front : list N) : list N :=
  fold_right (fun e acc => if nmem (fst e) front && negb (nmem (snd e) acc) then snd e :: acc else acc) front G.
Fixpoint closure (n : nat) (G : list edge) (front : list N) : list N :=
  match n with O => front | S k => closure k G (succs G front) end.
Definition on_cycle (G : list edge) (e : edge) : bool := nmem (fst e) (closure (List.length G) G [snd e]).
Definition lk_order_report : list (string * string * list string) :=
  map (fun e => (obj_name (fst e) lk_objects, obj_name (snd e) lk_objects,
                 map fst (filter (fun p => emem e (fn_edges lk_fuel (snd p))) lk_ok_fns)))
      (filter (on_cycle lk_order_graph) lk_order_graph).

(* GenLocksProofs.v — lock discipline of the code as it is NOW: the skeletons in coq/gen/GenLocks.v are regenerated
   from /repo's source on every run (gotrans locktrace: every function of the 19 packages listed in gotrans/locks.json —
   segment/query, query/processor, query/metadata, query/pqs, query/summary, query/colusage, segment/metadata, segment/search,
   segment/writer, writer/suffix, writer/metrics (+meta), segment/pqmr, results/mresults, results/segresults,
   results/blockresults, reader/segread, memory/limit, virtualtable — type-checked with go/types, static calls among them
   followed six levels deep), the analysis of LockTrace.v is run on each of them
   inside Coq, and LockTraceProofs.analyse_sound turns a clean analysis into a statement about EVERY trace of the
   skeleton: the goroutine never acquires a mutex it already holds (a recursive read lock deadlocks as soon as a
   writer queues in between) and never blocks on a channel while it holds a lock.

   Functions whose skeleton does have such a trace on the unchanged tree are listed below with the signatures
   found (checked: nothing else may appear for them); they are hazards of the existing code, several of them
   guarded by conditions the skeleton does not see. *)
From Coq Require Import NArith List String Bool.
From SigM Require Import LockTrace LockOrder.
From SigG Require Import GenLocks.
From SigP Require Import LockTraceProofs LockOrderProofs GenLocksCheck.
Import ListNotations.
Open Scope string_scope.

(* run on the regenerated skeletons, inside Coq, on every check *)
Lemma lk_all_checked : forallb fn_ok lk_all = true.
Proof. vm_compute. reflexivity. Qed.

Lemma fn_ok_clean p : fn_ok p = true -> allowed (fst p) lk_exceptions = [] -> analyse lk_fuel (snd p) = [].
Proof.
  unfold fn_ok. intros H E. rewrite E in H. destruct (analyse lk_fuel (snd p)) as [|v l]; [reflexivity|].
  cbn [forallb sig_in existsb] in H. discriminate H.
Qed.

(* every function of the core packages that is not listed above: no trace of its skeleton re-acquires a held mutex
   or blocks on a channel under a lock *)
Theorem lk_discipline : forall (name : string) (s : stm),
  In (name, s) lk_all -> allowed name lk_exceptions = [] ->
  forall t o, exec s t o -> trace_ok t.
Proof.
  intros name s Hin Hex t o Hx.
  pose proof lk_all_checked as H. rewrite forallb_forall in H. specialize (H (name, s) Hin).
  apply (analyse_sound lk_fuel s (fn_ok_clean (name, s) H Hex) t o Hx).
Qed.
Print Assumptions lk_discipline.

(* the functions the concurrency properties lean on are among them (non-vacuity: they are present and unlisted) *)
Definition lk_present (name : string) : bool := existsb (fun p => String.eqb (fst p) name) lk_all.
Example lk_discipline_covers :
  forallb (fun n => lk_present n && match allowed n lk_exceptions with [] => true | _ => false end)
    ["lk_segment_query__CancelQuery"; "lk_segment_query__DeleteQuery"; "lk_segment_query__GetAllColsInAggsForQid";
     "lk_segment_metadata__GetTotalBlocksInSegments"; "lk_segment_metadata__AddSegMetaToMetadata";
     "lk_segment_metadata__DeleteSegmentKey"; "lk_segment_writer__removeSegKeyFromUnrotatedInfo";
     "lk_segment_writer__AddEntryToInMemBuf"; "lk_segment_writer__FlushWipBufferToFile";
     "lk_segment_writer__ForceRotateSegmentsForTest"] = true.
Proof. vm_compute. reflexivity. Qed.

(* functions the query life-cycle property (C17) and the hand-over property (C11) lean on *)
Definition lk_covered (n : string) : bool := lk_present n && match allowed n lk_exceptions with [] => true | _ => false end.
Definition lk_c17_functions : list string :=
  ["lk_segment_query__CancelQuery"; "lk_segment_query__DeleteQuery"; "lk_segment_query__GetAllColsInAggsForQid";
   "lk_segment_query__SetAllColsInAggsForQid"; "lk_segment_query__setupTimeoutCancelFunc__go1"].
Definition lk_c11_functions : list string :=
  ["lk_segment_metadata__GetTotalBlocksInSegments"; "lk_segment_metadata__AddSegMetaToMetadata";
   "lk_segment_metadata__DeleteSegmentKey"; "lk_segment_metadata__FilterSegmentsByTime";
   "lk_segment_writer__removeSegKeyFromUnrotatedInfo"; "lk_segment_writer__AddEntryToInMemBuf";
   "lk_segment_writer__FlushWipBufferToFile"; "lk_segment_writer__ForceRotateSegmentsForTest";
   "lk_segment_writer__createSegStore"; "lk_segment_query__GetSSRsFromQSR"].
Lemma lk_c17_functions_covered : forallb lk_covered lk_c17_functions = true.
Proof. vm_compute. reflexivity. Qed.
Lemma lk_c11_functions_covered : forallb lk_covered lk_c11_functions = true.
Proof. vm_compute. reflexivity. Qed.

(* ---------- lock order ----------
   lk_order_graph: every nesting "acquire l while holding o" of every unlisted function, computed from the lock sets the
   analysis reaches.  A ranking of the mutexes increases along every edge (checked here, on the regenerated skeletons),
   so the order has no cycle; the only cycle of the unchanged tree, rqsLock <-> arqMapLock, is closed by RestartQuery,
   which is a listed exception. *)
Lemma lk_order_acyclic : acyclic lk_order_graph = true.
Proof. vm_compute. reflexivity. Qed.

Lemma fn_edges_in_graph : forall name s, In (name, s) lk_all -> allowed name lk_exceptions = [] ->
  forall e, emem e (fn_edges lk_fuel s) = true -> emem e lk_order_graph = true.
Proof.
  intros name s Hin Hex e He. unfold lk_order_graph, lk_ok_fns.
  assert (Hf : In (name, s) (filter (fun p => match allowed (fst p) lk_exceptions with [] => true | _ => false end) lk_all)).
  { apply filter_In. split; [exact Hin|]. cbn [fst]. rewrite Hex. reflexivity. }
  revert Hf. generalize (filter (fun p => match allowed (fst p) lk_exceptions with [] => true | _ => false end) lk_all).
  induction l as [|q l IH]; intros Hq; [destruct Hq|].
  cbn [fold_right]. rewrite emem_eunion. destruct Hq as [->|Hq].
  - cbn [snd]. rewrite He. reflexivity.
  - rewrite (IH Hq). apply orb_true_r.
Qed.

(* at every acquisition on every trace of an unlisted function, each mutex held at that moment precedes the acquired one
   in lk_order_graph *)
Theorem lk_acquisitions_follow_the_order : forall (name : string) (s : stm),
  In (name, s) lk_all -> allowed name lk_exceptions = [] ->
  forall t1 k l t2 o h, exec s (t1 ++ (k, l) :: t2) o -> is_acquire k = true -> mrun [] t1 = inl h ->
  justified lk_order_graph (h, l).
Proof.
  intros name s Hin Hex t1 k l t2 o h Hx Hk Hr.
  pose proof lk_all_checked as H. rewrite forallb_forall in H. specialize (H (name, s) Hin).
  pose proof (fn_ok_clean (name, s) H Hex) as Hc. cbn [snd] in Hc.
  apply (justified_mono (fn_edges lk_fuel s)); [exact (fn_edges_in_graph name s Hin Hex)|].
  exact (acquisition_is_justified lk_fuel s Hc t1 k l t2 o h Hx Hk Hr).
Qed.
Print Assumptions lk_acquisitions_follow_the_order.

(* hence goroutines that run unlisted functions and hold / want mutexes as their traces say cannot wait for each other in a ring *)
Theorem lk_no_ring : forall ws : list waiter,
  Forall (justified lk_order_graph) ws -> Forall (fun w => fst w <> []) ws -> ~ ring ws.
Proof. exact (acyclic_no_ring lk_order_graph lk_order_acyclic). Qed.
Print Assumptions lk_no_ring.

(* GenOrderC07.v — the C07 call-order obligations hold on the skeletons regenerated from /repo (computed here). *)
From Coq Require Import NArith List Bool String.
From SigM Require Import LockTrace CallOrder.
From SigG Require Import GenOrder.
From SigP Require Import CallOrderProofs GenOrderCheck GenOrderProofs.
Import ListNotations.

Theorem co_C07_checked : rules_ok c07_rules = true.
Proof. vm_compute. reflexivity. Qed.

Theorem co_C07_rules_hold : forall r, In r c07_rules -> rule_holds r.
Proof. exact (rules_ok_hold c07_rules co_C07_checked). Qed.
Print Assumptions co_C07_rules_hold.

Example co_C07_count : List.length c07_rules = 5%nat.
Proof. reflexivity. Qed.

(* GenOrderC10.v — the C10 call-order obligations hold on the skeletons regenerated from /repo (computed here). *)
From Coq Require Import NArith List Bool String.
From SigM Require Import LockTrace CallOrder.
From SigG Require Import GenOrder.
From SigP Require Import CallOrderProofs GenOrderCheck GenOrderProofs.
Import ListNotations.

Theorem co_C10_checked : rules_ok c10_rules = true.
Proof. vm_compute. reflexivity. Qed.

Theorem co_C10_rules_hold : forall r, In r c10_rules -> rule_holds r.
Proof. exact (rules_ok_hold c10_rules co_C10_checked). Qed.
Print Assumptions co_C10_rules_hold.

Example co_C10_count : List.length c10_rules = 5%nat.
Proof. reflexivity. Qed.

(* GenOrderC11.v — the C11 call-order obligations hold on the skeletons regenerated from /repo (computed here). *)
From Coq Require Import NArith List Bool String.
From SigM Require Import LockTrace CallOrder.
From SigG Require Import GenOrder.
From SigP Require Import CallOrderProofs GenOrderCheck GenOrderProofs.
Import ListNotations.

Theorem co_C11_checked : rules_ok c11_rules = true.
Proof. vm_compute. reflexivity. Qed.

Theorem co_C11_rules_hold : forall r, In r c11_rules -> rule_holds r.
Proof. exact (rules_ok_hold c11_rules co_C11_checked). Qed.
Print Assumptions co_C11_rules_hold.

Example co_C11_count : List.length c11_rules = 1%nat.
Proof. reflexivity. Qed.

(* GenOrderC13.v — the C13 call-order obligations hold on the skeletons regenerated from /repo (computed here). *)
From Coq Require Import NArith List Bool String.
From SigM Require Import LockTrace CallOrder.
From SigG Require Import GenOrder.
From SigP Require Import CallOrderProofs GenOrderCheck GenOrderProofs.
Import ListNotations.

Theorem co_C13_checked : rules_ok c13_rules = true.
Proof. vm_compute. reflexivity. Qed.

Theorem co_C13_rules_hold : forall r, In r c13_rules -> rule_holds r.
Proof. exact (rules_ok_hold c13_rules co_C13_checked). Qed.
Print Assumptions co_C13_rules_hold.

Example co_C13_count : List.length c13_rules = 3%nat.
Proof. reflexivity. Qed.

(* GenOrderC19.v — the C19 call-order obligations hold on the skeletons regenerated from /repo (computed here). *)
From Coq Require Import NArith List Bool String.
From SigM Require Import LockTrace CallOrder.
From SigG Require Import GenOrder.
From SigP Require Import CallOrderProofs GenOrderCheck GenOrderProofs.
Import ListNotations.

Theorem co_C19_checked : rules_ok c19_rules = true.
Proof. vm_compute. reflexivity. Qed.

Theorem co_C19_rules_hold : forall r, In r c19_rules -> rule_holds r.
Proof. exact (rules_ok_hold c19_rules co_C19_checked). Qed.
Print Assumptions co_C19_rules_hold.

Example co_C19_count : List.length c19_rules = 10%nat.
Proof. reflexivity. Qed.

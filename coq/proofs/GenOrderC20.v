(* GenOrderC20.v — the C20 call-order obligations hold on the skeletons regenerated from /repo (computed here). *)
From Coq Require Import NArith List Bool String.
From SigM Require Import LockTrace CallOrder.
From SigG Require Import GenOrder.
From SigP Require Import CallOrderProofs GenOrderCheck GenOrderProofs.
Import ListNotations.

Theorem co_C20_checked : rules_ok c20_rules = true.
Proof. vm_compute. reflexivity. Qed.

Theorem co_C20_rules_hold : forall r, In r c20_rules -> rule_holds r.
Proof. exact (rules_ok_hold c20_rules co_C20_checked). Qed.
Print Assumptions co_C20_rules_hold.

Example co_C20_count : List.length c20_rules = 4%nat.
Proof. reflexivity. Qed.

(* GenOrderCheck.v — the call-order obligations checked on the regenerated skeletons (coq/gen/GenOrder.v,
   written by `gotrans locktrace` in calltrace mode from /repo on every run; labels in gotrans/order.json).
   Each obligation: a root function, and "on every path through the root (callees inlined four levels deep),
   every call of [second] is preceded by a call of [first]".  Definitions and reporting only; the theorems are
   in GenOrderProofs.v. *)
From Coq Require Import NArith List Bool String.
From SigM Require Import LockTrace CallOrder.
From SigG Require Import GenOrder.
Import ListNotations.
Open Scope string_scope.

Record rule := mkRule { r_id : string; r_root : string; r_first : string; r_second : string; r_why : string }.

Definition co_rules : list rule :=
  [ mkRule "C10.meta_entry_registered_before_its_log_is_deleted"
      "co_segment_writer_metrics__MetricsSegment_rotateSegment"
      "meta.AddMetricsMetaEntry" "metricsMEntryWalState.wal.DeleteWAL"
      "forced rotation: the rotated segment is in metricmeta.json before the meta-entry log that could re-create the entry is removed";
    mkRule "C10.metric_names_flushed_before_their_log_is_deleted"
      "co_segment_writer_metrics__MetricsSegment_rotateSegment"
      "ms.FlushMetricNames" "ms.mNameWalState.wal.DeleteWAL"
      "segment rotation: the metric names file is written before the metric-name log is removed";
    mkRule "C10.block_flushed_before_its_datapoint_logs_are_deleted"
      "co_segment_writer_metrics__MetricsBlock_rotateBlock"
      "mb.flushBlock" "walFd.DeleteWAL"
      "block rotation: the block's series are on disk before the datapoint logs of the block are removed";
    mkRule "C11.rotated_segment_registered_before_unrotated_info_is_dropped"
      "co_segment_writer__SegStore_checkAndRotateColFiles"
      "metadata.AddSegMetaToMetadata" "CleanupUnrotatedSegment"
      "hand-over: a searcher finds the segment among the rotated ones before it disappears from the unrotated ones";
    mkRule "C07.segmeta_line_written_before_unrotated_state_is_dropped"
      "co_segment_writer__SegStore_checkAndRotateColFiles"
      "addSegmeta" "CleanupUnrotatedSegment"
      "rotation: the segment's line is in segmeta.json before the writer forgets the segment";
    mkRule "C07.star_tree_flushed_before_segmeta_line"
      "co_segment_writer__SegStore_checkAndRotateColFiles"
      "segstore.flushStarTree" "addSegmeta"
      "rotation: every file of the segment is written before segmeta.json names it";
    mkRule "C07.block_summary_before_running_segmeta"
      "co_segment_writer__SegStore_AppendWipToSegfile"
      "segstore.flushBlockSummary" "WriteRunningSegMeta"
      "flush: the block's summary is appended to the .bsu before the .sfm counts the block (FlushProto.ops_of)";
    mkRule "C07.segstats_before_running_segmeta"
      "co_segment_writer__SegStore_AppendWipToSegfile"
      "segstore.FlushSegStats" "WriteRunningSegMeta"
      "flush: the .sst is in place before the .sfm is rewritten (FlushProto.ops_of)";
    mkRule "C07.running_segmeta_before_pqmr"
      "co_segment_writer__SegStore_AppendWipToSegfile"
      "WriteRunningSegMeta" "pqResults.FlushPqmr"
      "flush: the persistent-query results of a block are appended after the .sfm that counts the block (PqmrProto)" ].

Fixpoint label_id (ls : list (N * string * N)) (name : string) : option N :=
  match ls with
  | [] => None
  | (i, n, _) :: r => if String.eqb n name then Some i else label_id r name
  end.
Fixpoint root_stm (fs : list (string * stm)) (name : string) : option stm :=
  match fs with
  | [] => None
  | (n, s) :: r => if String.eqb n name then Some s else root_stm r name
  end.

Definition co_fuel : nat := 6.

(* what is wrong with a rule on the current skeletons (empty = the obligation holds) *)
Inductive problem :=
| PNoRoot | PNoLabel (which : string) | PNotCalled (which : string) | PSameLabel
| PObjections (n : nat).

Definition check_rule (r : rule) : list problem :=
  match root_stm co_all (r_root r), label_id co_labels (r_first r), label_id co_labels (r_second r) with
  | None, _, _ => [PNoRoot]
  | _, None, _ => [PNoLabel (r_first r)]
  | _, _, None => [PNoLabel (r_second r)]
  | Some s, Some a, Some b =>
      (if N.eqb a b then [PSameLabel] else []) ++
      (if mentions a s then [] else [PNotCalled (r_first r)]) ++
      (if mentions b s then [] else [PNotCalled (r_second r)]) ++
      (match oanalyse (before_step a b) co_fuel s with [] => [] | l => [PObjections (List.length l)] end)
  end.

Definition co_report : list (string * list problem) :=
  filter (fun x => match snd x with [] => false | _ => true end)
         (map (fun r => (r_id r, check_rule r)) co_rules).

Definition co_all_ok : bool := match co_report with [] => true | _ => false end.

(* what a checked rule says: the root and both labels exist in the regenerated skeletons, both calls occur in the
   root's skeleton, and in EVERY trace of the skeleton every call of the second is preceded by a call of the first *)
Definition rule_holds (r : rule) : Prop :=
  exists s a b,
    root_stm co_all (r_root r) = Some s /\ label_id co_labels (r_first r) = Some a /\
    label_id co_labels (r_second r) = Some b /\
    mentions a s = true /\ mentions b s = true /\
    forall t o, exec s t o -> preceded a b t.

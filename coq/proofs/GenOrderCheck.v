(* GenOrderCheck.v — the call-order obligations checked on the regenerated skeletons (coq/gen/GenOrder.v,
   written by `gotrans locktrace` in calltrace mode from /repo on every run; labels in gotrans/order.json).
   Each obligation: a root function, and "on every path through the root (callees inlined four levels deep),
   every call of [second] is preceded by a call of [first]".  Definitions and reporting only; the theorems are
   in GenOrderProofs.v. *)
From Coq Require Import NArith List Bool String.
From SigM Require Import LockTrace CallOrder.
From SigG Require Import GenOrder.
Import ListNotations.
Open Scope string_scope.

(* RBefore: every call of [second] is preceded by a call of [first];
   RGuard: ... by a call of [first] in the same iteration of the root function's loops (label "@iter") *)
Inductive rkind := RBefore | RGuard | RNever.   (* RNever: the root's skeleton contains no call of [second] ([first] unused) *)
Record rule := mkR { r_kind : rkind; r_id : string; r_root : string; r_first : string; r_second : string; r_why : string }.
Definition mkRule := mkR RBefore.
Definition mkGuard := mkR RGuard.
Definition mkNever (id root second why : string) := mkR RNever id root "" second why.

Definition c07_rules : list rule :=
  [ mkRule "C07.segmeta_line_written_before_unrotated_state_is_dropped"
      "co_segment_writer__SegStore_checkAndRotateColFiles"
      "addSegmeta" "CleanupUnrotatedSegment"
      "rotation: the segment's line is in segmeta.json before the writer forgets the segment";
    mkRule "C07.star_tree_flushed_before_segmeta_line"
      "co_segment_writer__SegStore_checkAndRotateColFiles"
      "segstore.flushStarTree" "addSegmeta"
      "rotation: every file of the segment is written before segmeta.json names it";
    mkRule "C07.block_summary_before_running_segmeta"
      "co_segment_writer__SegStore_AppendWipToSegfile"
      "segstore.flushBlockSummary" "WriteRunningSegMeta"
      "flush: the block's summary is appended to the .bsu before the .sfm counts the block (FlushProto.ops_of)";
    mkRule "C07.segstats_before_running_segmeta"
      "co_segment_writer__SegStore_AppendWipToSegfile"
      "segstore.FlushSegStats" "WriteRunningSegMeta"
      "flush: the .sst is in place before the .sfm is rewritten (FlushProto.ops_of)";
    mkRule "C07.running_segmeta_before_pqmr"
      "co_segment_writer__SegStore_AppendWipToSegfile"
      "WriteRunningSegMeta" "pqResults.FlushPqmr"
      "flush: the persistent-query results of a block are appended after the .sfm that counts the block (PqmrProto)" ].

Definition c10_rules : list rule :=
  [ mkRule "C10.shared_meta_entry_log_deleted_after_all_rotations_finished"
      "co_segment_writer_metrics__ForceFlushMetricsBlock"
      "wg.Wait" "metricsMEntryWalState.wal.DeleteWAL"
      "graceful shutdown: the meta-entry log (one file for all segments) is removed only after the goroutines that rotate and register every segment have finished";
    mkNever "C10.segment_rotation_does_not_delete_the_shared_meta_entry_log"
      "co_segment_writer_metrics__MetricsSegment_rotateSegment"
      "metricsMEntryWalState.wal.DeleteWAL"
      "rotating ONE segment never removes the meta-entry log, which may hold the entries of other segments";
    mkRule "C10.restart_replays_datapoint_logs_before_name_logs"
      "co_github_com_siglens_siglens_cmd_startup__startIngestServer"
      "metrics.RecoverWALData" "metrics.RecoverMNameWALData"
      "restart: the datapoint logs are replayed first — flushBlock creates the segment directory that FlushMetricNames of the name-log replay needs";
    mkRule "C10.metric_names_flushed_before_their_log_is_deleted"
      "co_segment_writer_metrics__MetricsSegment_rotateSegment"
      "ms.FlushMetricNames" "ms.mNameWalState.wal.DeleteWAL"
      "segment rotation: the metric names file is written before the metric-name log is removed";
    mkRule "C10.block_flushed_before_its_datapoint_logs_are_deleted"
      "co_segment_writer_metrics__MetricsBlock_rotateBlock"
      "mb.flushBlock" "walFd.DeleteWAL"
      "block rotation: the block's series are on disk before the datapoint logs of the block are removed" ].

Definition c11_rules : list rule :=
  [ mkRule "C11.rotated_segment_registered_before_unrotated_info_is_dropped"
      "co_segment_writer__SegStore_checkAndRotateColFiles"
      "metadata.AddSegMetaToMetadata" "CleanupUnrotatedSegment"
      "hand-over: a searcher finds the segment among the rotated ones before it disappears from the unrotated ones" ].

Definition c13_rules : list rule :=
  [ mkGuard "C13.delete_index_checks_ownership_before_deleting_segments"
      "co_es_writer__deleteIndex"
      "vtable.IsVirtualTablePresent" "writer.DeleteSegmentsForIndex"
      "delete-index: each expanded name is an index of the requesting org before segments of that name are deleted";
    mkGuard "C13.delete_index_checks_ownership_before_dropping_segstore"
      "co_es_writer__deleteIndex"
      "vtable.IsVirtualTablePresent" "writer.DeleteVirtualTableSegStore"
      "delete-index: ... before the open segstore of that name is dropped";
    mkGuard "C13.delete_index_checks_ownership_before_unregistering"
      "co_es_writer__deleteIndex"
      "vtable.IsVirtualTablePresent" "vtable.DeleteVirtualTable"
      "delete-index: ... before the name is removed from the virtual-table list" ].

Definition c19_rules : list rule :=
  [ mkRule "C19.index_name_checked_before_ingest"
      "co_es_writer__ProcessIndexRequestPle"
      "utils.IsSafePathComponent" "writer.AddEntryToInMemBuf"
      "every ingest protocol: the index name is a safe path component before the writer creates suffix files and segment directories from it";
    mkGuard "C19.delete_index_checks_each_name"
      "co_es_writer__deleteIndex"
      "utils.IsSafePathComponent" "writer.DeleteSegmentsForIndex"
      "delete-index: each expanded name is a safe path component before its directory is removed";
    mkRule "C19.lookup_upload_name_checked_before_openfile"
      "co_lookups__UploadLookupFile"
      "utils.IsSafePathComponent" "os.OpenFile"
      "lookup upload: the file name is checked before the file is created";
    mkRule "C19.lookup_upload_name_checked_before_create"
      "co_lookups__UploadLookupFile"
      "utils.IsSafePathComponent" "os.Create"
      "lookup upload: the file name is checked before the file is created";
    mkRule "C19.lookup_upload_name_checked_before_stat"
      "co_lookups__UploadLookupFile"
      "utils.IsSafePathComponent" "os.Stat"
      "lookup upload: the file name is checked before the existence probe (which follows ../ and would tell whether a file outside exists)";
    mkRule "C19.inputlookup_name_checked_before_open"
      "co_segment_aggregations__PerformInputLookup"
      "utils.IsSafePathComponent" "os.Open"
      "inputlookup (generate-events path): the file name is checked before the file is opened";
    mkRule "C19.inputlookup_processor_name_checked_before_open"
      "co_segment_query_processor__inputlookupProcessor_Process"
      "utils.IsSafePathComponent" "os.Open"
      "inputlookup (processor path): the file name is checked before the file is opened";
    mkRule "C19.tag_key_checked_before_tags_tree_file"
      "co_segment_writer_metrics__TagTree_flushSingleTagsTree"
      "utils.IsSafePathComponent" "os.OpenFile"
      "tags tree flush: the tag key is checked before it becomes a file name";
    mkRule "C19.mapping_name_checked_before_file"
      "co_virtualtable__AddMapping"
      "utils.IsSafePathComponent" "os.OpenFile"
      "index mapping: the index name is checked before <name>.json is written";
    mkRule "C19.virtual_table_name_checked_before_file"
      "co_virtualtable__AddVirtualTable"
      "utils.IsSafePathComponent" "os.OpenFile"
      "virtual table: the name is checked before it is appended to the table file" ].

Definition c20_rules : list rule :=
  [ mkRule "C20.notification_gate_before_email"
      "co_alerts_alertsHandler__NotifyAlertHandlerRequest"
      "shouldSendNotification" "sendAlertEmail"
      "no e-mail leaves without the decision function (state change, silence and cool-down gates: GenC20.gen_shouldSendNotification) having been consulted";
    mkRule "C20.notification_gate_before_slack"
      "co_alerts_alertsHandler__NotifyAlertHandlerRequest"
      "shouldSendNotification" "sendSlack"
      "no Slack message leaves without the decision function having been consulted";
    mkRule "C20.notification_gate_before_webhook"
      "co_alerts_alertsHandler__NotifyAlertHandlerRequest"
      "shouldSendNotification" "sendWebhooks"
      "no webhook call leaves without the decision function having been consulted";
    mkRule "C20.state_stored_before_history_row"
      "co_alerts_alertsHandler__updateAlertStateAndCreateAlertHistory"
      "updateAlertState" "databaseObj.CreateAlertHistory"
      "an evaluation's history row is written only after the alert's state has been stored: the history never runs ahead of the state" ].

Definition co_rules : list rule := c07_rules ++ c10_rules ++ c11_rules ++ c13_rules ++ c19_rules ++ c20_rules.


Fixpoint label_id (ls : list (N * string * N)) (name : string) : option N :=
  match ls with
  | [] => None
  | (i, n, _) :: r => if String.eqb n name then Some i else label_id r name
  end.
Fixpoint root_stm (fs : list (string * stm)) (name : string) : option stm :=
  match fs with
  | [] => None
  | (n, s) :: r => if String.eqb n name then Some s else root_stm r name
  end.

Definition co_fuel : nat := 6.

(* what is wrong with a rule on the current skeletons (empty = the obligation holds) *)
Inductive problem :=
| PNoRoot | PNoLabel (which : string) | PNotCalled (which : string) | PSameLabel | PNoIterLabel
| PObjections (n : nat).

Definition iter_label : option N := label_id co_labels "@iter".

Definition rule_step (k : rkind) (a b : N) : option (N -> ev -> option N) :=
  match k with
  | RBefore => Some (before_step a b)
  | RGuard => match iter_label with
              | Some it => if N.eqb a it || N.eqb b it then None else Some (guard_step a b it)
              | None => None
              end
  | RNever => None
  end.

Definition check_rule (r : rule) : list problem :=
  match r_kind r with
  | RNever =>
    match root_stm co_all (r_root r), label_id co_labels (r_second r) with
    | None, _ => [PNoRoot]
    | _, None => [PNoLabel (r_second r)]
    | Some s, Some b => if mentions b s then [PObjections 1] else []
    end
  | _ =>
  match root_stm co_all (r_root r), label_id co_labels (r_first r), label_id co_labels (r_second r) with
  | None, _, _ => [PNoRoot]
  | _, None, _ => [PNoLabel (r_first r)]
  | _, _, None => [PNoLabel (r_second r)]
  | Some s, Some a, Some b =>
      (if N.eqb a b then [PSameLabel] else []) ++
      (if mentions a s then [] else [PNotCalled (r_first r)]) ++
      (if mentions b s then [] else [PNotCalled (r_second r)]) ++
      (match rule_step (r_kind r) a b with
       | None => [PNoIterLabel]
       | Some st => match oanalyse st co_fuel s with [] => [] | l => [PObjections (List.length l)] end
       end)
  end
  end.

Definition co_report : list (string * list problem) :=
  filter (fun x => match snd x with [] => false | _ => true end)
         (map (fun r => (r_id r, check_rule r)) co_rules).

Definition co_all_ok : bool := match co_report with [] => true | _ => false end.

(* what a checked rule says: the root and both labels exist in the regenerated skeletons, both calls occur in the
   root's skeleton, and in EVERY trace of the skeleton every call of the second is preceded by a call of the first
   (RGuard: with no iteration marker of the root's loops in between) *)
Definition rule_holds (r : rule) : Prop :=
  match r_kind r with
  | RNever =>
    exists s b, root_stm co_all (r_root r) = Some s /\ label_id co_labels (r_second r) = Some b /\
      forall t o, exec s t o -> ~ In (KCall, b) t
  | k =>
  exists s a b,
    root_stm co_all (r_root r) = Some s /\ label_id co_labels (r_first r) = Some a /\
    label_id co_labels (r_second r) = Some b /\
    mentions a s = true /\ mentions b s = true /\
    match k with
    | RGuard => exists it, iter_label = Some it /\ forall t o, exec s t o -> guarded a b it t
    | _ => forall t o, exec s t o -> preceded a b t
    end
  end.

(* GenOrderProofs.v — the call-order obligations hold on the skeletons regenerated from /repo. *)
From Coq Require Import NArith List Bool String.
From SigM Require Import LockTrace CallOrder.
From SigG Require Import GenOrder.
From SigP Require Import CallOrderProofs GenOrderCheck.
Import ListNotations.

(* the computation: no rule has a problem on the current skeletons *)
Theorem co_all_checked : co_all_ok = true.
Proof. vm_compute. reflexivity. Qed.

Lemma filter_nil_all : forall (A : Type) (f : A -> bool) (l : list A),
  filter f l = [] -> forall x, In x l -> f x = false.
Proof.
  intros A f l. induction l as [|y l IH]; intros H x Hin.
  - destruct Hin.
  - simpl in H. destruct (f y) eqn:E; [discriminate H|].
    destruct Hin as [->|Hin]; [exact E | exact (IH H x Hin)].
Qed.

Lemma check_rule_nil : forall r, check_rule r = [] -> rule_holds r.
Proof.
  intros r H. unfold check_rule in H. unfold rule_holds.
  destruct (r_kind r) eqn:Ek.
  - (* RBefore *)
    destruct (root_stm co_all (r_root r)) as [s|] eqn:Es; [|discriminate H].
    destruct (label_id co_labels (r_first r)) as [a|] eqn:Ea; [|discriminate H].
    destruct (label_id co_labels (r_second r)) as [b|] eqn:Eb; [|discriminate H].
    apply app_eq_nil in H as [H1 H]. apply app_eq_nil in H as [H2 H]. apply app_eq_nil in H as [H3 H4].
    exists s, a, b. repeat split; try reflexivity.
    + destruct (mentions a s); [reflexivity | discriminate H2].
    + destruct (mentions b s); [reflexivity | discriminate H3].
    + assert (Hab : a <> b).
      { intro E. subst b. rewrite N.eqb_refl in H1. discriminate H1. }
      unfold rule_step in H4.
      assert (Hc : oanalyse (before_step a b) co_fuel s = []).
      { destruct (oanalyse (before_step a b) co_fuel s); [reflexivity | discriminate H4]. }
      exact (before_checked co_fuel a b s Hab Hc).
  - (* RGuard *)
    destruct (root_stm co_all (r_root r)) as [s|] eqn:Es; [|discriminate H].
    destruct (label_id co_labels (r_first r)) as [a|] eqn:Ea; [|discriminate H].
    destruct (label_id co_labels (r_second r)) as [b|] eqn:Eb; [|discriminate H].
    apply app_eq_nil in H as [H1 H]. apply app_eq_nil in H as [H2 H]. apply app_eq_nil in H as [H3 H4].
    exists s, a, b. repeat split; try reflexivity.
    + destruct (mentions a s); [reflexivity | discriminate H2].
    + destruct (mentions b s); [reflexivity | discriminate H3].
    + assert (Hab : a <> b).
      { intro E. subst b. rewrite N.eqb_refl in H1. discriminate H1. }
      unfold rule_step in H4.
      destruct iter_label as [it|]; [|discriminate H4].
      destruct (N.eqb a it || N.eqb b it) eqn:Eit; [discriminate H4|].
      apply orb_false_iff in Eit as [E1 E2]. apply N.eqb_neq in E1, E2.
      assert (Hc : oanalyse (guard_step a b it) co_fuel s = []).
      { destruct (oanalyse (guard_step a b it) co_fuel s); [reflexivity | discriminate H4]. }
      exists it. split; [reflexivity|].
      exact (guard_checked co_fuel a b it s Hab E1 E2 Hc).
  - (* RNever *)
    destruct (root_stm co_all (r_root r)) as [s|] eqn:Es; [|discriminate H].
    destruct (label_id co_labels (r_second r)) as [b|] eqn:Eb; [|discriminate H].
    destruct (mentions b s) eqn:Em; [discriminate H|].
    exists s, b. repeat split; try reflexivity.
    exact (never_checked b s Em).
Qed.

Theorem co_rules_hold : forall r, In r co_rules -> rule_holds r.
Proof.
  intros r Hin. apply check_rule_nil.
  pose proof co_all_checked as Hok. unfold co_all_ok in Hok.
  destruct co_report as [|x l] eqn:Er; [|discriminate Hok].
  unfold co_report in Er.
  pose proof (filter_nil_all _ _ _ Er (r_id r, check_rule r)) as Hf.
  assert (Hin' : In (r_id r, check_rule r) (map (fun r0 => (r_id r0, check_rule r0)) co_rules)).
  { apply in_map_iff. exists r. split; [reflexivity | exact Hin]. }
  specialize (Hf Hin'). cbn [snd] in Hf.
  destruct (check_rule r); [reflexivity | discriminate Hf].
Qed.
Print Assumptions co_rules_hold.

(* the rules by property (what props/C07.v, C10.v, C11.v, C13.v, C19.v cite) *)
Lemma in_co_rules : forall r, In r c07_rules \/ In r c10_rules \/ In r c11_rules \/ In r c13_rules \/ In r c19_rules \/ In r c20_rules -> In r co_rules.
Proof.
  intros r H. unfold co_rules. repeat rewrite in_app_iff. tauto.
Qed.
Theorem co_C07_rules_hold : forall r, In r c07_rules -> rule_holds r.
Proof. intros r H. apply co_rules_hold, in_co_rules. tauto. Qed.
Theorem co_C10_rules_hold : forall r, In r c10_rules -> rule_holds r.
Proof. intros r H. apply co_rules_hold, in_co_rules. tauto. Qed.
Theorem co_C11_rules_hold : forall r, In r c11_rules -> rule_holds r.
Proof. intros r H. apply co_rules_hold, in_co_rules. tauto. Qed.
Theorem co_C13_rules_hold : forall r, In r c13_rules -> rule_holds r.
Proof. intros r H. apply co_rules_hold, in_co_rules. tauto. Qed.
Theorem co_C19_rules_hold : forall r, In r c19_rules -> rule_holds r.
Proof. intros r H. apply co_rules_hold, in_co_rules. tauto. Qed.
Theorem co_C20_rules_hold : forall r, In r c20_rules -> rule_holds r.
Proof. intros r H. apply co_rules_hold, in_co_rules. tauto. Qed.

(* non-vacuity: each property has rules *)
Example rules_counts : List.length c07_rules = 5%nat /\ List.length c10_rules = 5%nat /\ List.length c11_rules = 1%nat
  /\ List.length c13_rules = 3%nat /\ List.length c19_rules = 10%nat /\ List.length c20_rules = 4%nat.
Proof. vm_compute. repeat split. Qed.

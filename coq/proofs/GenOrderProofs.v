(* GenOrderProofs.v — the call-order obligations hold on the skeletons regenerated from /repo. *)
From Coq Require Import NArith List Bool String.
From SigM Require Import LockTrace CallOrder.
From SigG Require Import GenOrder.
From SigP Require Import CallOrderProofs GenOrderCheck.
Import ListNotations.

(* the computation: no rule has a problem on the current skeletons *)
Theorem co_all_checked : co_all_ok = true.
Proof. vm_compute. reflexivity. Qed.

Lemma filter_nil_all : forall (A : Type) (f : A -> bool) (l : list A),
  filter f l = [] -> forall x, In x l -> f x = false.
Proof.
  intros A f l. induction l as [|y l IH]; intros H x Hin.
  - destruct Hin.
  - simpl in H. destruct (f y) eqn:E; [discriminate H|].
    destruct Hin as [->|Hin]; [exact E | exact (IH H x Hin)].
Qed.

Lemma check_rule_nil : forall r, check_rule r = [] -> rule_holds r.
Proof.
  intros r H. unfold check_rule in H. unfold rule_holds.
  destruct (root_stm co_all (r_root r)) as [s|] eqn:Es; [|discriminate H].
  destruct (label_id co_labels (r_first r)) as [a|] eqn:Ea; [|discriminate H].
  destruct (label_id co_labels (r_second r)) as [b|] eqn:Eb; [|discriminate H].
  apply app_eq_nil in H as [H1 H]. apply app_eq_nil in H as [H2 H]. apply app_eq_nil in H as [H3 H4].
  exists s, a, b. repeat split; try reflexivity.
  - destruct (mentions a s); [reflexivity | discriminate H2].
  - destruct (mentions b s); [reflexivity | discriminate H3].
  - assert (Hab : a <> b).
    { intro E. subst b. rewrite N.eqb_refl in H1. discriminate H1. }
    assert (Hc : oanalyse (before_step a b) co_fuel s = []).
    { destruct (oanalyse (before_step a b) co_fuel s); [reflexivity | discriminate H4]. }
    exact (before_checked co_fuel a b s Hab Hc).
Qed.

Theorem co_rules_hold : forall r, In r co_rules -> rule_holds r.
Proof.
  intros r Hin. apply check_rule_nil.
  pose proof co_all_checked as Hok. unfold co_all_ok in Hok.
  destruct co_report as [|x l] eqn:Er; [|discriminate Hok].
  unfold co_report in Er.
  pose proof (filter_nil_all _ _ _ Er (r_id r, check_rule r)) as Hf.
  assert (Hin' : In (r_id r, check_rule r) (map (fun r0 => (r_id r0, check_rule r0)) co_rules)).
  { apply in_map_iff. exists r. split; [reflexivity | exact Hin]. }
  specialize (Hf Hin'). cbn [snd] in Hf.
  destruct (check_rule r); [reflexivity | discriminate Hf].
Qed.
Print Assumptions co_rules_hold.

(* the rules by property (what props/C07.v, C10.v, C11.v cite) *)
Definition rules_of (prefix : string) : list rule :=
  filter (fun r => String.prefix prefix (r_id r)) co_rules.

Lemma rules_of_in : forall p r, In r (rules_of p) -> In r co_rules.
Proof. intros p r H. unfold rules_of in H. apply filter_In in H. exact (proj1 H). Qed.

Definition c07_rules : list rule := rules_of "C07.".
Definition c10_rules : list rule := rules_of "C10.".
Definition c11_rules : list rule := rules_of "C11.".
Theorem co_C07_rules_hold : forall r, In r c07_rules -> rule_holds r.
Proof. intros r H. exact (co_rules_hold r (rules_of_in _ r H)). Qed.
Theorem co_C10_rules_hold : forall r, In r c10_rules -> rule_holds r.
Proof. intros r H. exact (co_rules_hold r (rules_of_in _ r H)). Qed.
Theorem co_C11_rules_hold : forall r, In r c11_rules -> rule_holds r.
Proof. intros r H. exact (co_rules_hold r (rules_of_in _ r H)). Qed.

(* non-vacuity: each property has rules *)
Example rules_counts : List.length c07_rules = 5%nat /\ List.length c10_rules = 3%nat /\ List.length c11_rules = 1%nat.
Proof. vm_compute. repeat split. Qed.

(* GenOrderProofs.v — a call-order obligation that the computation accepts holds for every trace (generic part).
   The computation itself is run per property in GenOrderC07.v, GenOrderC10.v, ...: a rule of one property that fails on
   a changed tree breaks only that property's file. *)
From Coq Require Import NArith List Bool String.
From SigM Require Import LockTrace CallOrder.
From SigG Require Import GenOrder.
From SigP Require Import CallOrderProofs GenOrderCheck.
Import ListNotations.

Lemma filter_nil_all : forall (A : Type) (f : A -> bool) (l : list A),
  filter f l = [] -> forall x, In x l -> f x = false.
Proof.
  intros A f l. induction l as [|y l IH]; intros H x Hin.
  - destruct Hin.
  - simpl in H. destruct (f y) eqn:E; [discriminate H|].
    destruct Hin as [->|Hin]; [exact E | exact (IH H x Hin)].
Qed.

Lemma check_rule_nil : forall r, check_rule r = [] -> rule_holds r.
Proof.
  intros r H. unfold check_rule in H. unfold rule_holds.
  destruct (r_kind r) eqn:Ek.
  - (* RBefore *)
    destruct (root_stm co_all (r_root r)) as [s|] eqn:Es; [|discriminate H].
    destruct (label_id co_labels (r_first r)) as [a|] eqn:Ea; [|discriminate H].
    destruct (label_id co_labels (r_second r)) as [b|] eqn:Eb; [|discriminate H].
    apply app_eq_nil in H as [H1 H]. apply app_eq_nil in H as [H2 H]. apply app_eq_nil in H as [H3 H4].
    exists s, a, b. repeat split; try reflexivity.
    + destruct (mentions a s); [reflexivity | discriminate H2].
    + destruct (mentions b s); [reflexivity | discriminate H3].
    + assert (Hab : a <> b).
      { intro E. subst b. rewrite N.eqb_refl in H1. discriminate H1. }
      unfold rule_step in H4.
      assert (Hc : oanalyse (before_step a b) co_fuel s = []).
      { destruct (oanalyse (before_step a b) co_fuel s); [reflexivity | discriminate H4]. }
      exact (before_checked co_fuel a b s Hab Hc).
  - (* RGuard *)
    destruct (root_stm co_all (r_root r)) as [s|] eqn:Es; [|discriminate H].
    destruct (label_id co_labels (r_first r)) as [a|] eqn:Ea; [|discriminate H].
    destruct (label_id co_labels (r_second r)) as [b|] eqn:Eb; [|discriminate H].
    apply app_eq_nil in H as [H1 H]. apply app_eq_nil in H as [H2 H]. apply app_eq_nil in H as [H3 H4].
    exists s, a, b. repeat split; try reflexivity.
    + destruct (mentions a s); [reflexivity | discriminate H2].
    + destruct (mentions b s); [reflexivity | discriminate H3].
    + assert (Hab : a <> b).
      { intro E. subst b. rewrite N.eqb_refl in H1. discriminate H1. }
      unfold rule_step in H4.
      destruct iter_label as [it|]; [|discriminate H4].
      destruct (N.eqb a it || N.eqb b it) eqn:Eit; [discriminate H4|].
      apply orb_false_iff in Eit as [E1 E2]. apply N.eqb_neq in E1, E2.
      assert (Hc : oanalyse (guard_step a b it) co_fuel s = []).
      { destruct (oanalyse (guard_step a b it) co_fuel s); [reflexivity | discriminate H4]. }
      exists it. split; [reflexivity|].
      exact (guard_checked co_fuel a b it s Hab E1 E2 Hc).
  - (* RNever *)
    destruct (root_stm co_all (r_root r)) as [s|] eqn:Es; [|discriminate H].
    destruct (label_id co_labels (r_second r)) as [b|] eqn:Eb; [|discriminate H].
    destruct (mentions b s) eqn:Em; [discriminate H|].
    exists s, b. repeat split; try reflexivity.
    exact (never_checked b s Em).
Qed.

(* a list of rules that the computation accepts holds rule by rule *)
Definition rules_ok (l : list rule) : bool :=
  forallb (fun r => match check_rule r with [] => true | _ => false end) l.

Theorem rules_ok_hold : forall l, rules_ok l = true -> forall r, In r l -> rule_holds r.
Proof.
  intros l H r Hin. apply check_rule_nil.
  unfold rules_ok in H. rewrite forallb_forall in H. specialize (H r Hin).
  destruct (check_rule r); [reflexivity | discriminate H].
Qed.
Print Assumptions rules_ok_hold.

(* GorillaProofs.v — round trip of the Gorilla series codec model, for every series. *)
From Coq Require Import Lia.
From Coq Require Import ZifyN ZifyNat ZifyBool.
From SigM Require Import Base Bits Gorilla.
From SigP Require Import BaseProofs BitsProofs.
Ltac Zify.zify_post_hook ::= Z.div_mod_to_equations.
Open Scope nat_scope.

(* ---------- XOR value step ---------- *)

(* encoder window (l0,t0) vs decoder window (dl,dt): either the encoder has not written a
   window yet (255), or both sides hold the same one *)
Definition Rv (l0 t0 dl dt : nat) : Prop :=
  l0 = 255 \/ (l0 = dl /\ t0 = dt /\ l0 + t0 <= 64).

Lemma N5 l : l < 32 -> N.to_nat (bits2N (N2bits 5 (N.of_nat l))) = l.
Proof. intros H. rewrite bits2N_N2bits_small; [lia|]. change (2 ^ N.of_nat 5)%N with 32%N. lia. Qed.

Lemma N6 s : 1 <= s <= 64 ->
  (let s0 := N.to_nat (bits2N (N2bits 6 (N.of_nat s))) in if Nat.eqb s0 0 then 64 else s0) = s.
Proof.
  intros H. cbv zeta. rewrite bits2N_N2bits. change (2 ^ N.of_nat 6)%N with 64%N.
  destruct (Nat.eq_dec s 64) as [->|Hne]; [reflexivity|].
  rewrite N.mod_small by lia.
  destruct (Nat.eqb_spec (N.to_nat (N.of_nat s)) 0); lia.
Qed.

Theorem value_roundtrip l0 t0 dl dt prev v rest :
  Rv l0 t0 dl dt -> length prev = 64 -> length v = 64 ->
  exists dl' dt',
    dec_val dl dt prev (fst (fst (enc_val l0 t0 prev v)) ++ rest) = Some (v, dl', dt', rest) /\
    Rv (snd (fst (enc_val l0 t0 prev v))) (snd (enc_val l0 t0 prev v)) dl' dt'.
Proof.
  intros Hw Hlen Hlv. unfold enc_val.
  assert (Hxl : length (xorw prev v) = 64) by (rewrite xorw_length; lia).
  destruct (iszero (xorw prev v)) eqn:Z.
  - apply iszero_xorw_eq in Z; [|lia]. cbn. exists dl, dt. subst v. split; auto.
  - pose proof (lz_tz_lt _ Z) as Hlt. rewrite Hxl in Hlt.
    set (x := xorw prev v) in *.
    set (l := Nat.min (lz x) 31). set (t := tz x).
    assert (Hl' : l <= lz x) by (unfold l; lia).
    assert (Hl31 : l < 32) by (unfold l; lia).
    destruct (Nat.leb l0 l && Nat.leb t0 t) eqn:W.
    + apply andb_true_iff in W as [W1 W2]. apply Nat.leb_le in W1, W2.
      destruct Hw as [H255|[Hl [Ht Hsum]]]; [lia|].
      cbn [fst snd app dec_val].
      rewrite <- Hl, <- Ht.
      replace (64 - l0 - t0) with (length (slice l0 t0 x)) by (rewrite slice_length; lia).
      rewrite btake_app. rewrite rebuild_slice by (unfold t in *; lia).
      unfold x. rewrite xorw_invol by lia.
      exists l0, t0. split; [reflexivity|]. right. repeat split; auto.
    + clear W.
      assert (Hs1 : 1 <= 64 - l - t <= 64) by (unfold t; lia).
      cbn [fst snd app dec_val].
      rewrite <- app_assoc, (btake_app' 5) by apply N2bits_length.
      rewrite <- app_assoc, (btake_app' 6) by apply N2bits_length.
      rewrite N5 by exact Hl31.
      pose proof (N6 (64 - l - t) Hs1) as E6. cbv zeta in E6. rewrite E6.
      replace (64 - (64 - l - t) - l) with t by lia.
      rewrite (btake_app' (64 - l - t)) by (rewrite slice_length; lia).
      rewrite rebuild_slice by (unfold t; lia).
      unfold x. rewrite xorw_invol by lia.
      exists l, t. split; [reflexivity|]. right. repeat split; auto. unfold t. lia.
Qed.

(* ---------- delta-of-delta fields ---------- *)
Open Scope Z_scope.

Lemma zbits_length k z : length (zbits k z) = k.
Proof. apply N2bits_length. Qed.

Lemma bits2N_zbits k z : Z.of_N (bits2N (zbits k z)) = z mod 2 ^ Z.of_nat k.
Proof.
  unfold zbits. rewrite bits2N_N2bits_small.
  - rewrite Z2N.id; [reflexivity|]. apply Z.mod_pos_bound. apply Z.pow_pos_nonneg; lia.
  - assert (0 <= z mod 2 ^ Z.of_nat k < 2 ^ Z.of_nat k) as Hb by (apply Z.mod_pos_bound; apply Z.pow_pos_nonneg; lia).
    assert (E : (2 ^ N.of_nat k)%N = Z.to_N (2 ^ Z.of_nat k)).
    { rewrite <- (N2Z.id (2 ^ N.of_nat k)). f_equal. rewrite N2Z.inj_pow. f_equal. lia. }
    rewrite E. apply Z2N.inj_lt; lia.
Qed.

Definition in_i32 (z : Z) : Prop := -2147483648 <= z < 2147483648.

Lemma wrap32s_id z : in_i32 z -> wrap32s z = z.
Proof. unfold in_i32, wrap32s. intros H. lia. Qed.

Lemma wrap32s_range z : in_i32 (wrap32s z).
Proof. unfold in_i32, wrap32s. lia. Qed.

Lemma wrap32u_wrap32s z : wrap32u (wrap32s z) = wrap32u z.
Proof. unfold wrap32u, wrap32s. lia. Qed.

(* One timestamp step.  Encoder holds int32 views, decoder uint32 views of the same numbers. *)
Theorem ts_roundtrip es ds t rest :
  0 <= Z.of_N t < 4294967296 ->
  in_i32 (e_t es) -> in_i32 (e_td es) ->
  d_t ds = wrap32u (e_t es) -> d_delta ds = wrap32u (e_td es) ->
  snd (enc_ts es t) - e_td es <> 4294967295 ->
  dec_ts ds (fst (fst (enc_ts es t)) ++ rest)
    = DOk (Z.of_N t, wrap32u (snd (enc_ts es t)), rest)
  /\ snd (fst (enc_ts es t)) = wrap32s (Z.of_N t)
  /\ in_i32 (snd (enc_ts es t)).
Proof.
  intros Ht Het Hetd Hdt Hdd Hmark. unfold enc_ts in *. cbn [fst snd] in *.
  set (ti := wrap32s (Z.of_N t)) in *.
  set (delta := wrap32s (ti - e_t es)) in *.
  set (dod := delta - e_td es) in *.
  assert (Hti : in_i32 ti) by apply wrap32s_range.
  assert (Hdl : in_i32 delta) by apply wrap32s_range.
  split; [|split; [reflexivity|exact Hdl]].
  assert (Hfin : forall dod', dod' mod 4294967296 = dod mod 4294967296 ->
            DOk (wrap32u (d_t ds + wrap32u (d_delta ds + dod')), wrap32u (d_delta ds + dod'), rest)
            = DOk (Z.of_N t, wrap32u delta, rest)).
  { intros dod' E. rewrite Hdt, Hdd.
    assert (wrap32u (wrap32u (e_td es) + dod') = wrap32u delta).
    { unfold wrap32u, dod in *. lia. }
    rewrite H. f_equal. f_equal. f_equal.
    unfold wrap32u, delta, ti, wrap32s in *. unfold in_i32 in *. lia. }
  unfold dec_ts.
  destruct (dod =? 0) eqn:E0.
  { cbn [app dec_dod_width]. apply Z.eqb_eq in E0.
    specialize (Hfin 0). rewrite Z.add_0_r in Hfin.
    assert (wrap32u (d_delta ds) = d_delta ds) by (rewrite Hdd; unfold wrap32u; lia).
    rewrite H in Hfin. apply Hfin. rewrite E0. reflexivity. }
  apply Z.eqb_neq in E0.
  destruct ((-63 <=? dod) && (dod <=? 64)) eqn:E1.
  { rewrite <- app_assoc. cbn [app dec_dod_width].
    rewrite (btake_app' 7) by apply zbits_length.
    rewrite bits2N_zbits. cbn [Nat.eqb andb negb].
    change (2 ^ (Z.of_nat 7 - 1)) with 64. change (2 ^ Z.of_nat 7) with 128.
    destruct (64 <? dod mod 128) eqn:Es; apply Hfin; lia. }
  destruct ((-255 <=? dod) && (dod <=? 256)) eqn:E2.
  { rewrite <- app_assoc. cbn [app dec_dod_width].
    rewrite (btake_app' 9) by apply zbits_length.
    rewrite bits2N_zbits. cbn [Nat.eqb andb negb].
    change (2 ^ (Z.of_nat 9 - 1)) with 256. change (2 ^ Z.of_nat 9) with 512.
    destruct (256 <? dod mod 512) eqn:Es; apply Hfin; lia. }
  destruct ((-2047 <=? dod) && (dod <=? 2048)) eqn:E3.
  { rewrite <- app_assoc. cbn [app dec_dod_width].
    rewrite (btake_app' 12) by apply zbits_length.
    rewrite bits2N_zbits. cbn [Nat.eqb andb negb].
    change (2 ^ (Z.of_nat 12 - 1)) with 2048. change (2 ^ Z.of_nat 12) with 4096.
    destruct (2048 <? dod mod 4096) eqn:Es; apply Hfin; lia. }
  rewrite <- app_assoc. cbn [app dec_dod_width].
  rewrite (btake_app' 32) by apply zbits_length.
  rewrite bits2N_zbits. cbn [Nat.eqb andb negb].
  change (2 ^ Z.of_nat 32) with 4294967296.
  destruct (dod mod 4294967296 =? 4294967295) eqn:Em.
  { exfalso. apply Z.eqb_eq in Em. unfold in_i32 in *. unfold dod in *. lia. }
  apply Hfin. lia.
Qed.

(* ---------- one datapoint ---------- *)
Definition ts_ok (t : N) : Prop := 0 < Z.of_N t < 2147483648.      (* second-resolution epoch before 2038 *)
Definition val_ok (v : N) : Prop := (v < 18446744073709551616)%N.

(* encoder/decoder states after at least one point *)
Definition R (es : est) (ds : dst) : Prop :=
  0 < e_t es < 2147483648 /\ -2147483648 < e_td es < 2147483648 /\
  d_t ds = e_t es /\ d_delta ds = wrap32u (e_td es) /\
  e_v es = d_v ds /\ length (e_v es) = 64%nat /\
  Rv (e_l es) (e_tz es) (d_l ds) (d_tz ds).

Lemma vbits_length v : length (vbits v) = 64%nat.
Proof. apply N2bits_length. Qed.

Lemma bits2N_vbits v : val_ok v -> bits2N (vbits v) = v.
Proof. intros H. unfold vbits. apply bits2N_N2bits_small. exact H. Qed.

Theorem point_roundtrip es ds t v rest :
  R es ds -> ts_ok t -> val_ok v ->
  exists ds',
    decompress ds (fst (compress es t v) ++ rest) = DOk (t, v, ds', rest) /\
    R (snd (compress es t v)) ds'.
Proof.
  intros (Het & Hetd & Hdt & Hdd & Hv & Hlen & Hw) Ht Hval.
  unfold compress, decompress.
  replace (e_t es =? 0) with false by (symmetry; apply Z.eqb_neq; lia).
  replace (d_t ds =? 0) with false by (symmetry; apply Z.eqb_neq; lia).
  unfold ts_ok in Ht.
  assert (Hwu : wrap32u (e_t es) = e_t es) by (unfold wrap32u; lia).
  assert (Hti : wrap32s (Z.of_N t) = Z.of_N t) by (apply wrap32s_id; unfold in_i32; lia).
  assert (Hdelta : snd (enc_ts es t) = Z.of_N t - e_t es).
  { unfold enc_ts. cbn [snd]. rewrite Hti. apply wrap32s_id. unfold in_i32. lia. }
  destruct (ts_roundtrip es ds t (fst (fst (enc_val (e_l es) (e_tz es) (e_v es) (vbits v))) ++ rest))
    as (Hdec & Hti' & Hdl); try (unfold in_i32; lia).
  destruct (enc_ts es t) as [[tb ti] delta] eqn:Ets. cbn [fst snd] in *.
  destruct (value_roundtrip (e_l es) (e_tz es) (d_l ds) (d_tz ds) (e_v es) (vbits v) rest Hw Hlen (vbits_length v))
    as (dl' & dt' & Hvdec & Hw').
  destruct (enc_val (e_l es) (e_tz es) (e_v es) (vbits v)) as [[vb l1] t1] eqn:Eval. cbn [fst snd] in *.
  rewrite <- app_assoc. rewrite Hdec.
  rewrite <- Hv. rewrite Hvdec.
  rewrite N2Z.id. rewrite bits2N_vbits by exact Hval.
  eexists. split; [reflexivity|].
  unfold R. cbn [e_t e_td e_v e_l e_tz d_t d_delta d_v d_l d_tz].
  rewrite Hti', Hti. repeat split; try lia; auto using vbits_length.
Qed.

(* the first point of a series: 14-bit distance to the header, raw value *)
Theorem first_point_roundtrip hdr t v rest :
  ts_ok hdr -> ts_ok t -> val_ok v -> 0 <= Z.of_N t - Z.of_N hdr < 16383 ->
  exists ds',
    decompress (dec_init hdr) (fst (compress (enc_init hdr) t v) ++ rest) = DOk (t, v, ds', rest) /\
    R (snd (compress (enc_init hdr) t v)) ds'.
Proof.
  intros Hh Ht Hv Hd. unfold ts_ok in *. unfold compress, decompress, enc_init, dec_init.
  cbn [e_t e_hdr d_t d_hdr e_l e_tz d_l d_tz]. cbn [Z.eqb].
  rewrite (wrap32s_id (Z.of_N hdr)) by (unfold in_i32; lia).
  rewrite (wrap32s_id (Z.of_N t)) by (unfold in_i32; lia).
  rewrite (wrap32s_id (Z.of_N t - Z.of_N hdr)) by (unfold in_i32; lia).
  replace (Z.of_N t - Z.of_N hdr <? 0) with false by (symmetry; apply Z.ltb_ge; lia).
  cbn [fst snd].
  rewrite <- app_assoc. rewrite (btake_app' 14) by apply zbits_length.
  rewrite bits2N_zbits. change (2 ^ Z.of_nat 14) with 16384.
  rewrite Z.mod_small by lia.
  replace (Z.of_N t - Z.of_N hdr =? 16383) with false by (symmetry; apply Z.eqb_neq; lia).
  rewrite (btake_app' 64) by apply vbits_length.
  replace (wrap32u (Z.of_N hdr + (Z.of_N t - Z.of_N hdr))) with (Z.of_N t) by (unfold wrap32u; lia).
  rewrite N2Z.id, bits2N_vbits by exact Hv.
  eexists. split; [reflexivity|].
  unfold R. cbn [e_t e_td e_v e_l e_tz d_t d_delta d_v d_l d_tz].
  repeat split; try lia; auto using vbits_length.
  - unfold wrap32u. lia.
  - left. reflexivity.
Qed.

(* ---------- finish marker ---------- *)
Lemma finish_eof es ds rest : R es ds -> decompress ds (finish es ++ rest) = DEof.
Proof.
  intros (Het & _ & Hdt & _). unfold finish, decompress.
  replace (e_t es =? 0) with false by (symmetry; apply Z.eqb_neq; lia).
  replace (d_t ds =? 0) with false by (symmetry; apply Z.eqb_neq; lia).
  unfold dec_ts. rewrite <- !app_assoc. cbn [app dec_dod_width].
  rewrite (btake_app' 32) by apply N2bits_length.
  rewrite bits2N_N2bits_small by (cbn; lia). reflexivity.
Qed.

Lemma finish_empty_eof hdr rest : decompress (dec_init hdr) (finish (enc_init hdr) ++ rest) = DEof.
Proof.
  unfold finish, decompress, enc_init, dec_init. cbn [e_t d_t Z.eqb].
  rewrite <- app_assoc. rewrite (btake_app' 14) by apply N2bits_length.
  rewrite bits2N_N2bits_small by (cbn; lia). reflexivity.
Qed.

(* ---------- whole series ---------- *)
Definition pt_ok (p : N * N) : Prop := ts_ok (fst p) /\ val_ok (snd p).

Lemma series_tail_roundtrip pts : forall es ds rest fuel,
  R es ds -> Forall pt_ok pts -> (length pts < fuel)%nat ->
  decompress_all fuel ds (fst (compress_all es pts) ++ finish (snd (compress_all es pts)) ++ rest) = pts.
Proof.
  induction pts as [|[t v] pts IH]; intros es ds rest fuel HR Hok Hf.
  - cbn [compress_all fst snd app]. destruct fuel; [cbn in Hf; lia|].
    cbn [decompress_all]. rewrite finish_eof by exact HR. reflexivity.
  - inversion Hok as [|? ? [Ht Hv] Hok']; subst. cbn [fst snd] in Ht, Hv.
    destruct fuel as [|fuel]; [cbn in Hf; lia|]. cbn [length] in Hf.
    cbn [compress_all].
    destruct (point_roundtrip es ds t v
      (fst (compress_all (snd (compress es t v)) pts) ++ finish (snd (compress_all (snd (compress es t v)) pts)) ++ rest)
      HR Ht Hv) as (ds' & Hdec & HR').
    destruct (compress es t v) as [b s'] eqn:Ec. cbn [fst snd] in *.
    specialize (IH s' ds' rest fuel HR' Hok' ltac:(lia)).
    destruct (compress_all s' pts) as [bs s''] eqn:Eca. cbn [fst snd] in *.
    rewrite <- app_assoc. cbn [decompress_all]. rewrite Hdec. rewrite IH. reflexivity.
Qed.

(* header = first timestamp is how initTimeSeries / AddSingleEntry create the compressor;
   any header at most 16382 s before the first point works *)
Definition series_ok (hdr : N) (pts : list (N * N)) : Prop :=
  ts_ok hdr /\ Forall pt_ok pts /\
  match pts with [] => True | (t0, _) :: _ => 0 <= Z.of_N t0 - Z.of_N hdr < 16383 end.

Lemma bits2N_hdr hdr : ts_ok hdr -> bits2N (N2bits 32 hdr) = hdr.
Proof. intros H. unfold ts_ok in H. apply bits2N_N2bits_small. cbn. lia. Qed.

Theorem gorilla_bits_roundtrip hdr pts rest :
  series_ok hdr pts -> decode_bits (encode_bits hdr pts ++ rest) = pts.
Proof.
  intros (Hh & Hok & H0). unfold decode_bits, encode_bits.
  destruct pts as [|[t v] pts].
  - cbn [compress_all]. unfold enc_header. rewrite <- app_assoc.
    rewrite (btake_app' 32) by apply N2bits_length. rewrite bits2N_hdr by exact Hh.
    cbn [app decompress_all]. rewrite finish_empty_eof. reflexivity.
  - inversion Hok as [|? ? [Ht Hv] Hok']; subst. cbn [fst snd] in Ht, Hv.
    cbn [compress_all].
    destruct (first_point_roundtrip hdr t v
      (fst (compress_all (snd (compress (enc_init hdr) t v)) pts)
       ++ finish (snd (compress_all (snd (compress (enc_init hdr) t v)) pts)) ++ rest) Hh Ht Hv H0)
      as (ds' & Hdec & HR').
    destruct (compress (enc_init hdr) t v) as [b s'] eqn:Ec. cbn [fst snd] in *.
    pose proof (series_tail_roundtrip pts s' ds' rest) as Htail.
    destruct (compress_all s' pts) as [bs s''] eqn:Eca. cbn [fst snd] in *.
    unfold enc_header. rewrite <- !app_assoc.
    rewrite (btake_app' 32) by apply N2bits_length. rewrite bits2N_hdr by exact Hh.
    cbn [decompress_all]. rewrite Hdec. f_equal.
    apply Htail; auto.
    (* fuel: every later point takes at least two bits *)
    assert (Hlen : forall pts es, Forall pt_ok pts -> e_t es <> 0 ->
              (length pts <= length (fst (compress_all es pts)))%nat /\ True).
    { clear. induction pts as [|[t v] pts IH]; intros es Hok Hne; [cbn; split; [lia|auto]|].
      inversion Hok as [|? ? [Ht Hv] Hok']; subst. cbn [compress_all].
      destruct (compress es t v) as [b s1] eqn:Ec.
      assert (Hb : (1 <= length b)%nat /\ e_t s1 <> 0).
      { unfold compress in Ec. replace (e_t es =? 0) with false in Ec by (symmetry; apply Z.eqb_neq; exact Hne).
        destruct (enc_ts es t) as [[tb ti] dl] eqn:Ets.
        destruct (enc_val (e_l es) (e_tz es) (e_v es) (vbits v)) as [[vb l1] t1] eqn:Ev.
        injection Ec as <- <-. cbn [e_t].
        assert (ti = wrap32s (Z.of_N t)) by (unfold enc_ts in Ets; injection Ets; auto).
        unfold ts_ok in Ht. cbn [fst] in Ht. rewrite wrap32s_id in H by (unfold in_i32; lia).
        split; [|lia].
        rewrite app_length.
        assert (1 <= length tb)%nat.
        { unfold enc_ts in Ets. injection Ets as <- _ _.
          repeat match goal with |- context [if ?c then _ else _] => destruct c end; cbn; lia. }
        lia. }
      destruct Hb as [Hb1 Hb2].
      destruct (IH s1 Hok' Hb2) as [IH1 _].
      destruct (compress_all s1 pts) as [bs s2]. cbn [fst] in *. rewrite app_length. cbn [length]. split; [lia|auto]. }
    destruct HR' as (He & _).
    destruct (Hlen pts s' Hok' ltac:(lia)) as [Hl _]. rewrite Eca in Hl. cbn [fst] in Hl.
    assert (Hb : (1 <= length b)%nat).
    { replace b with (fst (compress (enc_init hdr) t v)) by (rewrite Ec; reflexivity).
      unfold compress, enc_init. cbn [e_t Z.eqb fst]. rewrite app_length, zbits_length. lia. }
    rewrite !app_length. lia.
Qed.

(* ---------- bytes: pack/unpack ---------- *)
Lemma N2bits_rev_bitsrev l : N2bits_rev (length l) (bitsrev2N l) = l.
Proof.
  induction l as [|b l IH]; [reflexivity|]. cbn [length N2bits_rev bitsrev2N].
  f_equal.
  - rewrite N.odd_add_mul_2. destruct b; reflexivity.
  - rewrite N.div2_div.
    replace (((if b then 1 else 0) + 2 * bitsrev2N l) / 2)%N with (bitsrev2N l); [exact IH|].
    apply N.div_unique with (r := if b then 1%N else 0%N); destruct b; lia.
Qed.

Lemma N2bits_bits2N w : N2bits (length w) (bits2N w) = w.
Proof.
  unfold N2bits, bits2N. rewrite <- (rev_length w). rewrite N2bits_rev_bitsrev. apply rev_involutive.
Qed.

Lemma firstn_repeat_le' {A} (x : A) : forall n k, (k <= n)%nat -> firstn k (repeat x n) = repeat x k.
Proof.
  induction n as [|n IH]; intros [|k] H; cbn; auto; try lia. f_equal. apply IH. lia.
Qed.

Lemma unpack_pack_aux fuel : forall bs, (length bs <= fuel)%nat ->
  exists pad, unpack (pack_aux fuel bs) = bs ++ zeros pad.
Proof.
  induction fuel as [|f IH]; intros bs Hl.
  - destruct bs; [|cbn in Hl; lia]. exists 0%nat. reflexivity.
  - destruct bs as [|b bs']; [exists 0%nat; reflexivity|].
    cbn [pack_aux]. set (bs := b :: bs') in *.
    assert (Hpos : (1 <= length bs)%nat) by (unfold bs; cbn [length]; lia).
    unfold unpack. cbn [flat_map]. fold (unpack (pack_aux f (skipn 8 bs))).
    destruct (Nat.le_gt_cases 8 (length bs)) as [H8|H8].
    + destruct (IH (skipn 8 bs)) as [pad Hp]. { rewrite skipn_length. lia. }
      rewrite Hp. exists pad.
      rewrite firstn_app. replace (8 - length bs)%nat with 0%nat by lia. rewrite firstn_O, app_nil_r.
      assert (L8 : length (firstn 8 bs) = 8%nat) by (rewrite firstn_length; lia).
      rewrite <- L8 at 1. rewrite N2bits_bits2N.
      rewrite app_assoc. rewrite firstn_skipn. reflexivity.
    + rewrite (skipn_all2 bs) by lia.
      assert (pack_aux f [] = []) by (destruct f; reflexivity). rewrite H. cbn [flat_map]. rewrite app_nil_r.
      exists (8 - length bs)%nat.
      assert (L8 : length (firstn 8 (bs ++ zeros 7)) = 8%nat).
      { rewrite firstn_length, app_length. unfold zeros. rewrite repeat_length. lia. }
      rewrite <- L8 at 1. rewrite N2bits_bits2N.
      rewrite firstn_app. rewrite (firstn_all2 bs) by lia. f_equal.
      unfold zeros. rewrite firstn_repeat_le' by lia. reflexivity.
Qed.

Lemma unpack_pack bs : exists pad, unpack (pack bs) = bs ++ zeros pad.
Proof. apply unpack_pack_aux. lia. Qed.

(* Full codec theorem: the bytes produced for any series decode to exactly that series. *)
Theorem gorilla_roundtrip hdr pts : series_ok hdr pts -> decode (encode hdr pts) = pts.
Proof.
  intros H. unfold decode, encode.
  destruct (unpack_pack (encode_bits hdr pts)) as [pad ->].
  apply gorilla_bits_roundtrip. exact H.
Qed.

(* the same with the hypotheses spelled out *)
Theorem gorilla_roundtrip_explicit : forall (hdr : N) (pts : list (N * N)),
  (0 < Z.of_N hdr < 2147483648) ->
  Forall (fun p => (0 < Z.of_N (fst p) < 2147483648) /\ (snd p < 18446744073709551616)%N) pts ->
  match pts with [] => True | (t0, _) :: _ => 0 <= Z.of_N t0 - Z.of_N hdr < 16383 end ->
  decode (encode hdr pts) = pts.
Proof.
  intros hdr pts H1 H2 H3. apply gorilla_roundtrip. unfold series_ok, ts_ok.
  split; [exact H1|split; [|exact H3]].
  eapply Forall_impl; [|exact H2]. intros p Hp. exact Hp.
Qed.

Example gorilla_nonvacuous :
  series_ok 1700000000 [(1700000000, 4611686018427387904); (1700000001, 4611686018427387905); (1699999990, 0)]%N
  /\ decode (encode 1700000000 [(1700000000, 4611686018427387904); (1700000001, 4611686018427387905); (1699999990, 0)]%N)
     = [(1700000000, 4611686018427387904); (1700000001, 4611686018427387905); (1699999990, 0)]%N.
Proof.
  split; [|vm_compute; reflexivity].
  unfold series_ok, pt_ok, ts_ok, val_ok. cbn. repeat split; repeat constructor; cbn; lia.
Qed.


(* HandoverProofs.v — every interleaving of any number of rotations, flushes and queries:
   a query returns every block that was flushed before it began exactly once. *)
From Coq Require Import Lia Bool.
From SigM Require Import Base Handover.
Open Scope nat_scope.

Definition rank (p : phase) : nat := match p with Absent => 0 | Open => 1 | Both => 2 | Rotated => 3 end.

(* pointwise order on segment tables: phases only advance, blocks are only added *)
Definition sle (f g : nat -> seg) : Prop :=
  forall s, rank (ph (f s)) <= rank (ph (g s)) /\ nb (f s) <= nb (g s).

Lemma sle_refl f : sle f f.
Proof. intro s. split; lia. Qed.

Lemma sle_trans f g h : sle f g -> sle g h -> sle f h.
Proof. intros A B s. destruct (A s), (B s). split; lia. Qed.

(* ------------------------------------------------------------------------------------------
   The searcher's block list: de-duplication by (segment key, block number), for ANY batching of
   the list and ANY grouping of the accepted blocks. *)
Lemma blk_eqb_eq x y : blk_eqb x y = true <-> x = y.
Proof.
  destruct x as [a b], y as [c d]. unfold blk_eqb. cbn [fst snd].
  rewrite Bool.andb_true_iff, !Nat.eqb_eq. split; [intros [-> ->]; reflexivity|intros H; inversion H; auto].
Qed.

Lemma blk_eqb_refl x : blk_eqb x x = true.
Proof. apply blk_eqb_eq. reflexivity. Qed.

Lemma bmem_In x l : bmem x l = true <-> In x l.
Proof.
  induction l as [|y l IH]; cbn; [split; [discriminate|tauto]|].
  rewrite Bool.orb_true_iff, blk_eqb_eq, IH. split; intros [H|H]; auto.
Qed.

Lemma bmem_app x l1 l2 : bmem x (l1 ++ l2) = (bmem x l1 || bmem x l2)%bool.
Proof. induction l1 as [|y l1 IH]; cbn; [reflexivity|]. rewrite IH, Bool.orb_assoc. reflexivity. Qed.

Lemma bmem_ext x l1 l2 : (forall z, In z l1 <-> In z l2) -> bmem x l1 = bmem x l2.
Proof.
  intros H. destruct (bmem x l1) eqn:E1, (bmem x l2) eqn:E2; try reflexivity; exfalso.
  - apply bmem_In, H, bmem_In in E1. congruence.
  - apply bmem_In, H, bmem_In in E2. congruence.
Qed.

Lemma cp_cons x y l : count_pair x (y :: l) = (if blk_eqb x y then 1 else 0) + count_pair x l.
Proof. reflexivity. Qed.

Lemma cp_app x l1 l2 : count_pair x (l1 ++ l2) = count_pair x l1 + count_pair x l2.
Proof. induction l1 as [|y l1 IH]; cbn [app count_pair]; [reflexivity|]. rewrite IH. lia. Qed.

Lemma bmem_count x l : bmem x l = negb (Nat.eqb (count_pair x l) 0).
Proof.
  induction l as [|y l IH]; [reflexivity|]. rewrite cp_cons. cbn [bmem]. rewrite IH.
  destruct (blk_eqb x y); cbn; [reflexivity|]. reflexivity.
Qed.

(* getFilteredBlocks, marking inside the loop: afterwards processedBlocks holds what it held plus the
   batch, and every block of the batch that was not processed before is accepted exactly once *)
Lemma fb_mark_spec : forall batch proc p out, fb_mark proc batch = (p, out) ->
  (forall x, bmem x p = (bmem x proc || bmem x batch)%bool) /\
  (forall x, count_pair x out = if bmem x proc then 0 else if bmem x batch then 1 else 0).
Proof.
  induction batch as [|b r IH]; intros proc p out H; cbn [fb_mark] in H.
  - inversion H; subst. split; intro x; [rewrite Bool.orb_false_r; reflexivity|destruct (bmem x p); reflexivity].
  - destruct (bmem b proc) eqn:Eb.
    + destruct (IH _ _ _ H) as [A B]. split; intro x; cbn [bmem].
      * rewrite A. destruct (blk_eqb x b) eqn:E; [|reflexivity].
        apply blk_eqb_eq in E; subst x. rewrite Eb. reflexivity.
      * rewrite B. destruct (blk_eqb x b) eqn:E; [|reflexivity].
        apply blk_eqb_eq in E; subst x. rewrite Eb. reflexivity.
    + destruct (fb_mark (b :: proc) r) as [p' out'] eqn:F. inversion H; subst p out.
      destruct (IH _ _ _ F) as [A B]. split; intro x.
      * rewrite A. cbn [bmem]. destruct (blk_eqb x b), (bmem x proc), (bmem x r); reflexivity.
      * rewrite cp_cons, B. cbn [bmem]. destruct (blk_eqb x b) eqn:E.
        -- apply blk_eqb_eq in E; subst x. rewrite Eb. cbn. reflexivity.
        -- cbn. destruct (bmem x proc); reflexivity.
Qed.

Lemma searcher_filter_count : forall batches proc x,
  count_pair x (searcher_filter true proc batches) =
  if bmem x proc then 0 else if bmem x (concat batches) then 1 else 0.
Proof.
  induction batches as [|b r IH]; intros proc x; cbn [searcher_filter concat filter_batch].
  - destruct (bmem x proc); reflexivity.
  - destruct (fb_mark proc b) as [p out] eqn:F. destruct (fb_mark_spec _ _ _ _ F) as [A B].
    rewrite cp_app, B, IH, A, bmem_app.
    destruct (bmem x proc), (bmem x b), (bmem x (concat r)); reflexivity.
Qed.

Lemma count_bdedup x l : count_pair x (bdedup l) = Nat.min 1 (count_pair x l).
Proof.
  induction l as [|y l IH]; [reflexivity|]. cbn [bdedup]. rewrite cp_cons.
  destruct (bmem y l) eqn:M.
  - rewrite IH. destruct (blk_eqb x y) eqn:E; [|reflexivity].
    apply blk_eqb_eq in E; subst y. rewrite bmem_count in M.
    destruct (count_pair x l); [discriminate|]. cbn. reflexivity.
  - rewrite cp_cons, IH. destruct (blk_eqb x y) eqn:E; [|reflexivity].
    apply blk_eqb_eq in E; subst y. rewrite bmem_count in M.
    destruct (count_pair x l); [reflexivity|discriminate].
Qed.

Lemma count_flat_bdedup x : forall cs, count_pair x (concat cs) <= 1 ->
  count_pair x (flat_map bdedup cs) = count_pair x (concat cs).
Proof.
  induction cs as [|c cs IH]; intros H; cbn [flat_map concat] in *; [reflexivity|].
  rewrite cp_app in H. rewrite !cp_app, count_bdedup, IH by lia. lia.
Qed.

(* THE DE-DUPLICATION THEOREM: whatever the batches are (blocks may come twice in one batch, in
   different batches, be submitted again), and however the accepted blocks are re-ordered and
   grouped, the answer holds a block exactly once iff the block is in the raw list *)
Theorem searcher_answer_count (batching grouping : list blk -> list (list blk)) :
  (forall l x, In x (concat (batching l)) <-> In x l) ->
  (forall l x, count_pair x (concat (grouping l)) = count_pair x l) ->
  forall raw x, count_pair x (searcher_answer true batching grouping raw) = if bmem x raw then 1 else 0.
Proof.
  intros Hb Hg raw x. unfold searcher_answer.
  assert (C : count_pair x (searcher_filter true [] (batching raw)) = if bmem x raw then 1 else 0).
  { rewrite searcher_filter_count. cbn [bmem]. rewrite (bmem_ext x _ raw); [reflexivity|]. intro z. apply Hb. }
  rewrite count_flat_bdedup; rewrite Hg, C; [reflexivity|]. destruct (bmem x raw); lia.
Qed.

Lemma one_batch_covers : forall l x, In x (concat (one_batch l)) <-> In x l.
Proof. intros l x. unfold one_batch. cbn [concat]. rewrite app_nil_r. tauto. Qed.

Lemma chunks_fuel_concat : forall fuel P l, 1 <= P -> length l <= fuel -> concat (chunks_fuel fuel P l) = l.
Proof.
  induction fuel as [|k IH]; intros P l HP Hl.
  - destruct l; cbn in *; [reflexivity|lia].
  - destruct l as [|a l']; [reflexivity|]. cbn [chunks_fuel concat].
    rewrite IH; [apply firstn_skipn|exact HP|].
    rewrite skipn_length. cbn [length] in *. lia.
Qed.

Lemma chunks_concat P l : concat (chunks P l) = l.
Proof. unfold chunks. apply chunks_fuel_concat; lia. Qed.

Lemma chunks_keeps P : forall l x, count_pair x (concat (chunks P l)) = count_pair x l.
Proof. intros l x. rewrite chunks_concat. reflexivity. Qed.

Section Proofs.
  Variable nseg : nat.
  Variable batching grouping : list blk -> list (list blk).
  (* every block of the raw list reaches getBlocks in at least one batch, and nothing else does *)
  Hypothesis batching_covers : forall l x, In x (concat (batching l)) <-> In x l.
  (* the groups are the accepted blocks, re-ordered at will *)
  Hypothesis grouping_keeps : forall l x, count_pair x (concat (grouping l)) = count_pair x l.
  Variable kind_of : nat -> qkind.
  Notation step := (step nseg true true true batching grouping kind_of).
  Notation run := (run nseg true true true batching grouping kind_of).

  Lemma upds_same f s x : upds f s x s = x.
  Proof. unfold upds. now rewrite Nat.eqb_refl. Qed.
  Lemma upds_other f s x t : t <> s -> upds f s x t = f t.
  Proof. intros H. unfold upds. destruct (Nat.eqb_spec t s); congruence. Qed.
  Lemma updr_same f s x : updr f s x s = x.
  Proof. unfold updr. now rewrite Nat.eqb_refl. Qed.
  Lemma updr_other f s x t : t <> s -> updr f s x t = f t.
  Proof. intros H. unfold updr. destruct (Nat.eqb_spec t s); congruence. Qed.

  Lemma step_mono y e : sle (segs y) (segs (step y e)).
  Proof.
    destruct e as [s|s| |s|s|r|r|r]; cbn [Handover.step].
    3: apply sle_refl.
    1-4: destruct (ph (segs y s)) eqn:E; cbn [segs]; try apply sle_refl;
         intro t; destruct (Nat.eq_dec t s) as [->|Hn];
         [rewrite upds_same, E; cbn; lia | rewrite upds_other by exact Hn; lia].
    all: destruct (stage (rds y r)); cbn [segs]; apply sle_refl.
  Qed.

  Lemma run_mono evs : forall y, sle (segs y) (segs (run y evs)).
  Proof.
    induction evs as [|e evs IH]; intros y; [apply sle_refl|].
    unfold Handover.run. cbn [fold_left]. eapply sle_trans; [apply step_mono|apply IH].
  Qed.

  (* events of other readers and of writers never touch reader r's record, except its own events *)
  Definition touches (r : nat) (e : ev) : bool :=
    match e with SnapU q | SnapR q | Resolve q => Nat.eqb q r | _ => false end.

  Lemma step_rd_other y e r : touches r e = false -> rds (step y e) r = rds y r.
  Proof.
    destruct e as [s|s| |s|s|q|q|q]; cbn [touches Handover.step]; intros H; try reflexivity.
    1-4: destruct (ph (segs y s)); reflexivity.
    all: destruct (stage (rds y q)); cbn [rds]; try reflexivity;
         rewrite updr_other; auto; apply Nat.eqb_neq; rewrite Nat.eqb_sym; exact H.
  Qed.

  Definition snapU (f : nat -> seg) := filter (fun s => in_unrot (f s)) (seq 0 nseg).
  Definition snapR (f : nat -> seg) := filter (fun s => in_rot (f s)) (seq 0 nseg).
  Definition resolve (r : nat) := resolve_kind true true true batching grouping (kind_of r).

  (* a finished reader never changes again *)
  Lemma done_stays evs : forall y r, stage (rds y r) = RDone -> rds (run y evs) r = rds y r.
  Proof.
    induction evs as [|e evs IH]; intros y r H; [reflexivity|].
    unfold Handover.run. cbn [fold_left]. fold (run (step y e) evs).
    assert (E : rds (step y e) r = rds y r).
    { destruct (touches r e) eqn:T; [|apply step_rd_other; exact T].
      destruct e as [s|s| |s|s|q|q|q]; cbn [touches] in T; try discriminate; apply Nat.eqb_eq in T; subst q;
      cbn [Handover.step]; rewrite H; reflexivity. }
    rewrite IH by (rewrite E; exact H). exact E.
  Qed.

  (* from the second snapshot on *)
  Lemma after_snapR evs : forall y r U Rr f0,
    stage (rds y r) = RSnapR -> snap_u (rds y r) = U -> snap_r (rds y r) = Rr -> sle f0 (segs y) ->
    stage (rds (run y evs) r) = RDone ->
    exists f3, sle f0 f3 /\ sle f3 (segs (run y evs)) /\ result (rds (run y evs) r) = resolve r f3 U Rr.
  Proof.
    induction evs as [|e evs IH]; intros y r U Rr f0 Hs HU HR Hle Hd.
    - cbn in Hd. congruence.
    - unfold Handover.run in *. cbn [fold_left] in *. fold (run (step y e) evs) in *.
      destruct (touches r e) eqn:T.
      + destruct e as [s|s| |s|s|q|q|q]; cbn [touches] in T; try discriminate; apply Nat.eqb_eq in T; subst q.
        * (* SnapU r: ignored in this stage *)
          assert (E : step y (SnapU r) = y) by (cbn [Handover.step]; rewrite Hs; reflexivity).
          rewrite E in *. eapply IH; eauto.
        * assert (E : step y (SnapR r) = y) by (cbn [Handover.step]; rewrite Hs; reflexivity).
          rewrite E in *. eapply IH; eauto.
        * (* Resolve r *)
          set (y' := step y (Resolve r)) in *.
          assert (Hst : stage (rds y' r) = RDone /\ result (rds y' r) = resolve r (segs y) U Rr /\ segs y' = segs y).
          { unfold y'. cbn [Handover.step]. rewrite Hs. cbn [rds segs]. rewrite updr_same. cbn [stage result].
            rewrite HU, HR. unfold resolve. auto. }
          destruct Hst as (Hd' & Hres & Hsegs).
          exists (segs y). split; [exact Hle|]. split.
          { rewrite <- Hsegs. apply run_mono. }
          rewrite (done_stays evs y' r Hd'). exact Hres.
      + pose proof (step_rd_other y e r T) as E.
        destruct (IH (step y e) r U Rr f0) as (f3 & A & B & C); try (rewrite E; assumption).
        { eapply sle_trans; [exact Hle|apply step_mono]. }
        { exact Hd. }
        exists f3. auto.
  Qed.

  (* from the first snapshot on *)
  Lemma after_snapU evs : forall y r U f0,
    stage (rds y r) = RSnapU -> snap_u (rds y r) = U -> sle f0 (segs y) ->
    stage (rds (run y evs) r) = RDone ->
    exists f2 f3, sle f0 f2 /\ sle f2 f3 /\ sle f3 (segs (run y evs)) /\
                  result (rds (run y evs) r) = resolve r f3 U (snapR f2).
  Proof.
    induction evs as [|e evs IH]; intros y r U f0 Hs HU Hle Hd.
    - cbn in Hd. congruence.
    - unfold Handover.run in *. cbn [fold_left] in *. fold (run (step y e) evs) in *.
      destruct (touches r e) eqn:T.
      + destruct e as [s|s| |s|s|q|q|q]; cbn [touches] in T; try discriminate; apply Nat.eqb_eq in T; subst q.
        * assert (E : step y (SnapU r) = y) by (cbn [Handover.step]; rewrite Hs; reflexivity).
          rewrite E in *. eapply IH; eauto.
        * (* SnapR r *)
          set (y' := step y (SnapR r)) in *.
          assert (Hst : stage (rds y' r) = RSnapR /\ snap_u (rds y' r) = U /\ snap_r (rds y' r) = snapR (segs y) /\ segs y' = segs y).
          { unfold y'. cbn [Handover.step]. rewrite Hs. cbn [rds segs]. rewrite updr_same. cbn. auto. }
          destruct Hst as (S1 & S2 & S3 & S4).
          destruct (after_snapR evs y' r U (snapR (segs y)) (segs y) S1 S2 S3) as (f3 & A & B & C).
          { rewrite S4. apply sle_refl. }
          { exact Hd. }
          exists (segs y), f3. auto.
        * assert (E : step y (Resolve r) = y) by (cbn [Handover.step]; rewrite Hs; reflexivity).
          rewrite E in *. eapply IH; eauto.
      + pose proof (step_rd_other y e r T) as E.
        destruct (IH (step y e) r U f0) as (f2 & f3 & A & B & B' & C); try (rewrite E; assumption).
        { eapply sle_trans; [exact Hle|apply step_mono]. }
        { exact Hd. }
        exists f2, f3. auto.
  Qed.

  (* ---------- counting ---------- *)
  Fixpoint count_nat (b : nat) (l : list nat) : nat :=
    match l with [] => 0 | x :: r => (if Nat.eqb b x then 1 else 0) + count_nat b r end.

  Lemma count_seq b : forall n a, count_nat b (seq a n) = if Nat.leb a b && Nat.ltb b (a + n) then 1 else 0.
  Proof.
    induction n as [|n IH]; intros a; cbn [seq count_nat].
    - destruct (Nat.leb_spec a b) as [H1|H1], (Nat.ltb_spec b (a + 0)) as [H2|H2]; cbn [andb]; try reflexivity. lia.
    - rewrite IH.
      destruct (Nat.eqb_spec b a) as [E|E];
      destruct (Nat.leb_spec (S a) b) as [H1|H1]; destruct (Nat.ltb_spec b (S a + n)) as [H2|H2];
      destruct (Nat.leb_spec a b) as [H3|H3]; destruct (Nat.ltb_spec b (a + S n)) as [H4|H4];
      cbn [andb plus]; try reflexivity; exfalso; lia.
  Qed.

  Lemma count_map_pair s b t l :
    count_pair (s, b) (map (pair t) l) = if Nat.eqb s t then count_nat b l else 0.
  Proof.
    induction l as [|x l IH]; cbn [map count_pair count_nat fst snd].
    - destruct (Nat.eqb s t); reflexivity.
    - rewrite IH. destruct (Nat.eqb s t); cbn [andb]; reflexivity.
  Qed.

  Lemma count_blocks f t s b :
    count_pair (s, b) (blocks_of f t) = if Nat.eqb s t && Nat.ltb b (nb (f t)) then 1 else 0.
  Proof.
    unfold blocks_of. rewrite count_map_pair, count_seq. cbn [Nat.leb plus].
    destruct (Nat.eqb s t); reflexivity.
  Qed.

  Lemma count_app x l1 l2 : count_pair x (l1 ++ l2) = count_pair x l1 + count_pair x l2.
  Proof. apply cp_app. Qed.

  Lemma count_flat f s b L : NoDup L ->
    count_pair (s, b) (flat_map (blocks_of f) L) = if mem s L && Nat.ltb b (nb (f s)) then 1 else 0.
  Proof.
    induction 1 as [|t L Hn Hd IH]; cbn [flat_map mem]; [reflexivity|].
    rewrite count_app, IH, count_blocks.
    destruct (Nat.eqb_spec s t) as [->|Hne].
    - rewrite Nat.eqb_refl. cbn [orb andb].
      assert (mem t L = false).
      { clear -Hn. induction L as [|x L IH]; cbn; [reflexivity|].
        destruct (Nat.eqb_spec x t) as [->|]; [exfalso; apply Hn; left; reflexivity|].
        apply IH. intro H. apply Hn. right. exact H. }
      rewrite H. cbn [andb]. destruct (Nat.ltb b (nb (f t))); reflexivity.
    - replace (Nat.eqb t s) with false by (symmetry; apply Nat.eqb_neq; congruence).
      cbn [orb andb]. reflexivity.
  Qed.

  Lemma mem_In s L : mem s L = true <-> In s L.
  Proof.
    induction L as [|x L IH]; cbn; [split; [discriminate|tauto]|].
    rewrite Bool.orb_true_iff, Nat.eqb_eq, IH. tauto.
  Qed.

  Lemma NoDup_filter {A} (p : A -> bool) l : NoDup l -> NoDup (filter p l).
  Proof.
    induction 1 as [|x l Hn Hd IH]; cbn; [constructor|].
    destruct (p x); auto. constructor; auto. intro H. apply Hn. apply filter_In in H. tauto.
  Qed.

  Lemma mem_snapU f s : mem s (snapU f) = (Nat.ltb s nseg && in_unrot (f s))%bool.
  Proof.
    destruct (mem s (snapU f)) eqn:E.
    - apply mem_In in E. unfold snapU in E. apply filter_In in E as [E1 E2]. apply in_seq in E1.
      rewrite E2. replace (Nat.ltb s nseg) with true by (symmetry; apply Nat.ltb_lt; lia). reflexivity.
    - destruct (Nat.ltb_spec s nseg) as [Hl|Hl]; cbn [andb]; [|reflexivity].
      destruct (in_unrot (f s)) eqn:U; [|reflexivity].
      exfalso. assert (In s (snapU f)) by (unfold snapU; apply filter_In; split; [apply in_seq; lia|exact U]).
      apply mem_In in H. congruence.
  Qed.

  Lemma mem_filter_gen (p : nat -> bool) s L : mem s (filter p L) = (mem s L && p s)%bool.
  Proof.
    induction L as [|x L IH]; cbn [filter mem]; [reflexivity|].
    destruct (p x) eqn:E.
    - cbn [mem]. rewrite IH. destruct (Nat.eqb_spec x s) as [->|]; cbn [orb]; [rewrite E; reflexivity|reflexivity].
    - rewrite IH. destruct (Nat.eqb_spec x s) as [->|]; cbn [orb]; [rewrite E; cbn; destruct (mem s L); reflexivity|reflexivity].
  Qed.

  Lemma mem_filter_not s L U : mem s (filter (fun t => negb (mem t U)) L) = (mem s L && negb (mem s U))%bool.
  Proof. apply (mem_filter_gen (fun t => negb (mem t U))). Qed.

  Lemma mem_snapR f s : mem s (snapR f) = (Nat.ltb s nseg && in_rot (f s))%bool.
  Proof.
    destruct (mem s (snapR f)) eqn:E.
    - apply mem_In in E. unfold snapR in E. apply filter_In in E as [E1 E2]. apply in_seq in E1.
      rewrite E2. replace (Nat.ltb s nseg) with true by (symmetry; apply Nat.ltb_lt; lia). reflexivity.
    - destruct (Nat.ltb_spec s nseg) as [Hl|Hl]; cbn [andb]; [|reflexivity].
      destruct (in_rot (f s)) eqn:U; [|reflexivity].
      exfalso. assert (In s (snapR f)) by (unfold snapR; apply filter_In; split; [apply in_seq; lia|exact U]).
      apply mem_In in H. congruence.
  Qed.

  Lemma bmem_flat f s b L : NoDup L ->
    bmem (s, b) (flat_map (blocks_of f) L) = (mem s L && Nat.ltb b (nb (f s)))%bool.
  Proof.
    intros H. rewrite bmem_count, count_flat by exact H.
    destruct (mem s L && Nat.ltb b (nb (f s)))%bool; reflexivity.
  Qed.

  Lemma mem_app s L1 L2 : mem s (L1 ++ L2) = (mem s L1 || mem s L2)%bool.
  Proof. induction L1 as [|x L1 IH]; cbn [app mem]; [reflexivity|]. rewrite IH, Bool.orb_assoc. reflexivity. Qed.

  (* the segment keys walked by the group-by route: every key of the list once *)
  Lemma keys_once_mem : forall l seen s, mem s (keys_once seen l) = (mem s l && negb (mem s seen))%bool.
  Proof.
    induction l as [|a l IH]; intros seen s; cbn [keys_once mem]; [reflexivity|].
    destruct (mem a seen) eqn:Ea.
    - rewrite IH. destruct (Nat.eqb_spec a s) as [->|]; cbn [orb]; [rewrite Ea; cbn; apply Bool.andb_false_r|reflexivity].
    - cbn [mem]. rewrite IH. cbn [mem]. destruct (Nat.eqb_spec a s) as [->|]; cbn [orb negb andb].
      + rewrite Ea. reflexivity.
      + reflexivity.
  Qed.

  Lemma keys_once_NoDup : forall l seen, NoDup (keys_once seen l).
  Proof.
    induction l as [|a l IH]; intros seen; cbn [keys_once]; [constructor|].
    destruct (mem a seen) eqn:Ea; [apply IH|]. constructor; [|apply IH].
    intro H. apply mem_In in H. rewrite keys_once_mem in H. cbn [mem] in H. rewrite Nat.eqb_refl in H.
    cbn in H. rewrite Bool.andb_false_r in H. discriminate.
  Qed.

  (* EVERY ROUTE REFINES THE SPECIFICATION: with snapshots that list a segment at most once each, the
     record route (any batching, any grouping), the statistics route and the group-by route return every
     block as often as "read every unrotated request, and every rotated request whose key is not an
     unrotated one" *)
  Lemma count_resolve_spec r f U Rr x : NoDup U -> NoDup Rr ->
    count_pair x (resolve r f U Rr) = count_pair x (resolve_records_spec f U Rr).
  Proof.
    intros HU HR. unfold resolve, resolve_kind. destruct (kind_of r); [|reflexivity|].
    - unfold resolve_records. rewrite (searcher_answer_count _ _ batching_covers grouping_keeps).
      destruct x as [s b]. unfold raw_blocks, resolve_records_spec.
      rewrite bmem_app, count_app, !bmem_flat, !count_flat, mem_filter_not by (try apply NoDup_filter; assumption).
      destruct (mem s U), (mem s Rr), (Nat.ltb b (nb (f s))); reflexivity.
    - destruct x as [s b]. unfold resolve_groupby, resolve_records_spec.
      rewrite count_app, !count_flat, mem_filter_not, keys_once_mem, mem_app
        by (first [apply keys_once_NoDup | apply NoDup_filter; assumption | assumption]).
      cbn [mem negb]. rewrite Bool.andb_true_r.
      destruct (mem s U), (mem s Rr), (Nat.ltb b (nb (f s))); reflexivity.
  Qed.

  Lemma NoDup_snapU f : NoDup (snapU f).
  Proof. apply NoDup_filter, seq_NoDup. Qed.
  Lemma NoDup_snapR f : NoDup (snapR f).
  Proof. apply NoDup_filter, seq_NoDup. Qed.

  (* the counting core: snapshots taken at f1 <= f2, read at f3 >= f2 *)
  Lemma count_resolve r f1 f2 f3 s b :
    sle f1 f2 -> sle f2 f3 -> s < nseg -> ph (f1 s) <> Absent -> b < nb (f1 s) ->
    count_pair (s, b) (resolve r f3 (snapU f1) (snapR f2)) = 1.
  Proof.
    intros L12 L23 Hs Hph Hb. rewrite count_resolve_spec by (auto using NoDup_snapU, NoDup_snapR).
    unfold resolve_records_spec.
    rewrite count_app.
    rewrite !count_flat by (try apply NoDup_filter; unfold snapU, snapR; try apply NoDup_filter; apply seq_NoDup).
    rewrite mem_filter_not, mem_snapU, mem_snapR.
    replace (Nat.ltb s nseg) with true by (symmetry; apply Nat.ltb_lt; exact Hs). cbn [andb].
    destruct (L12 s) as [R12 N12]. destruct (L23 s) as [R23 N23].
    replace (Nat.ltb b (nb (f3 s))) with true by (symmetry; apply Nat.ltb_lt; lia).
    rewrite !Bool.andb_true_r.
    unfold in_unrot, in_rot.
    destruct (ph (f1 s)) eqn:P1; try congruence; cbn [negb andb].
    - rewrite Bool.andb_false_r. reflexivity.
    - rewrite Bool.andb_false_r. reflexivity.
    - (* Rotated at the first snapshot: still rotated at the second *)
      destruct (ph (f2 s)) eqn:P2; cbn in R12; try lia. reflexivity.
  Qed.

  Lemma first_step y1 r : stage (rds y1 r) = RIdle ->
    let y' := step y1 (SnapU r) in
    stage (rds y' r) = RSnapU /\ snap_u (rds y' r) = snapU (segs y1) /\ segs y' = segs y1.
  Proof. intros Hidle. cbn [Handover.step]. rewrite Hidle. cbn [rds segs]. rewrite updr_same. cbn. auto. Qed.

  (* MAIN THEOREM *)
  Theorem handover_exactly_once pre post r s b :
    let y1 := run sys_init pre in
    stage (rds y1 r) = RIdle ->
    s < nseg -> ph (segs y1 s) <> Absent -> b < nb (segs y1 s) ->
    let y := run y1 (SnapU r :: post) in
    stage (rds y r) = RDone ->
    count_pair (s, b) (result (rds y r)) = 1.
  Proof.
    cbv zeta. intros Hidle Hs Hph Hb Hd.
    set (y1 := run sys_init pre) in *.
    unfold Handover.run in Hd |- *. cbn [fold_left] in Hd |- *. fold (run (step y1 (SnapU r)) post) in Hd |- *.
    destruct (first_step y1 r Hidle) as (S1 & S2 & S3).
    set (y' := step y1 (SnapU r)) in *.
    destruct (after_snapU post y' r (snapU (segs y1)) (segs y1) S1 S2) as (f2 & f3 & A & B & B' & C).
    { rewrite S3. apply sle_refl. }
    { exact Hd. }
    rewrite C. apply count_resolve with (f1 := segs y1); auto.
  Qed.

  (* nothing is returned twice, whatever was flushed when *)
  Theorem handover_at_most_once pre post r x :
    let y1 := run sys_init pre in
    stage (rds y1 r) = RIdle ->
    let y := run y1 (SnapU r :: post) in
    stage (rds y r) = RDone ->
    count_pair x (result (rds y r)) <= 1.
  Proof.
    cbv zeta. intros Hidle Hd. destruct x as [s b].
    set (y1 := run sys_init pre) in *.
    unfold Handover.run in Hd |- *. cbn [fold_left] in Hd |- *. fold (run (step y1 (SnapU r)) post) in Hd |- *.
    destruct (first_step y1 r Hidle) as (S1 & S2 & S3).
    set (y' := step y1 (SnapU r)) in *.
    destruct (after_snapU post y' r (snapU (segs y1)) (segs y1) S1 S2) as (f2 & f3 & A & B & B' & C).
    { rewrite S3. apply sle_refl. }
    { exact Hd. }
    rewrite C, count_resolve_spec by (auto using NoDup_snapU, NoDup_snapR).
    unfold resolve_records_spec. rewrite count_app.
    rewrite !count_flat by (try apply NoDup_filter; unfold snapU, snapR; try apply NoDup_filter; apply seq_NoDup).
    rewrite mem_filter_not.
    destruct (mem s (snapU (segs y1))), (mem s (snapR f2)), (Nat.ltb b (nb (f3 s))); cbn; lia.
  Qed.

End Proofs.

(* the any-order searcher of the code: one batch, groups of GOMAXPROCS = P blocks (any P, also 0) *)
Corollary handover_exactly_once_gomaxprocs nseg P kind_of pre post r s b :
  let y1 := Handover.run nseg true true true one_batch (chunks P) kind_of sys_init pre in
  stage (rds y1 r) = RIdle ->
  s < nseg -> ph (segs y1 s) <> Absent -> b < nb (segs y1 s) ->
  let y := Handover.run nseg true true true one_batch (chunks P) kind_of y1 (SnapU r :: post) in
  stage (rds y r) = RDone ->
  count_pair (s, b) (result (rds y r)) = 1.
Proof. apply handover_exactly_once; [exact one_batch_covers|apply chunks_keeps]. Qed.

(* Before fix 08e84b8 the statistics path merged a segment that was in both snapshots twice. *)
Theorem stats_double_count_refuted :
  exists evs, let y := Handover.run 1 false true true one_batch (chunks 16) (fun _ => QStats) sys_init evs in
    stage (rds y 0) = RDone /\ count_pair (0, 0) (result (rds y 0)) = 2.
Proof.
  exists [Create 0; Flush 0; Noop; AddRot 0; SnapU 0; SnapR 0; DelUnrot 0; Resolve 0].
  vm_compute. split; reflexivity.
Qed.

(* A getFilteredBlocks that skips what EARLIER batches handed out but records its own batch only after the
   loop: a query planned inside the hand-over window of a segment with 2 blocks, any-order searcher with
   groups of 2 blocks, returns both blocks twice; with groups of 4 (or the time-ordered searcher, which
   fetches the two copies of a block together) the block map of the group hides it; outside the window,
   and with the marking inside the loop, every block is returned once. *)
Definition window_plan : list ev := [Create 0; Flush 0; Flush 0; Noop; AddRot 0; SnapU 0; SnapR 0; Resolve 0].
Theorem two_pass_filter_refuted :
  let ans ib P evs b := count_pair (0, b) (result (rds (Handover.run 1 true ib true one_batch (chunks P) (fun _ => QRecords) sys_init evs) 0)) in
  (ans false 2 window_plan 0 = 2 /\ ans false 2 window_plan 1 = 2) /\
  (ans false 4 window_plan 0 = 1 /\ ans false 4 window_plan 1 = 1) /\
  (ans true 2 window_plan 0 = 1 /\ ans true 2 window_plan 1 = 1) /\
  (ans false 2 [Create 0; Flush 0; Flush 0; SnapU 0; SnapR 0; Resolve 0] 0 = 1 /\
   ans false 2 [Create 0; Flush 0; Flush 0; Noop; AddRot 0; DelUnrot 0; SnapU 0; SnapR 0; Resolve 0] 0 = 1).
Proof. vm_compute. repeat split; reflexivity. Qed.

(* the same for two getBlocks batches: the second copy arriving in a LATER batch is skipped by both variants *)
Example two_pass_filter_across_batches :
  searcher_filter false [] [[(0,0); (0,1)]; [(0,0); (0,1)]] = [(0,0); (0,1)] /\
  searcher_filter false [] [[(0,0); (0,1); (0,0); (0,1)]] = [(0,0); (0,1); (0,0); (0,1)] /\
  searcher_filter true [] [[(0,0); (0,1); (0,0); (0,1)]] = [(0,0); (0,1)].
Proof. vm_compute. repeat split; reflexivity. Qed.

(* The group-by route (first command `stats ... by ...`) BEFORE its repair violated the property:
   (1) planned before the segment enters the rotated metadata, read after it left the unrotated info:
       the segment's events were missing; (2) planned and read inside the hand-over window: twice.
   The same two schedules on the repaired route give one. *)
Definition groupby_lost_sched : list ev := [Create 0; Flush 0; Noop; SnapU 0; SnapR 0; AddRot 0; DelUnrot 0; Noop; Resolve 0].
Definition groupby_doubled_sched : list ev := [Create 0; Flush 0; Noop; SnapU 0; AddRot 0; SnapR 0; Resolve 0; DelUnrot 0; Noop].
Theorem groupby_unprotected_refuted :
  let ans prot evs := (let y := Handover.run 1 true true prot one_batch (chunks 16) (fun _ => QGroupBy) sys_init evs in
                       (stage (rds y 0), count_pair (0, 0) (result (rds y 0)))) in
  ans false groupby_lost_sched = (RDone, 0) /\ ans false groupby_doubled_sched = (RDone, 2) /\ ans true groupby_lost_sched = (RDone, 1) /\ ans true groupby_doubled_sched = (RDone, 1).
Proof. vm_compute. repeat split; reflexivity. Qed.

(* Queries never change what is stored: the segment table after any interleaving equals the
   one after the writers' events alone (quiescent state = sequential execution of the ingests). *)
Definition is_writer_ev (e : ev) : bool :=
  match e with SnapU _ | SnapR _ | Resolve _ => false | _ => true end.

Theorem readers_transparent nseg sd ib gbp bt gp kind_of evs : forall y s,
  segs (Handover.run nseg sd ib gbp bt gp kind_of y evs) s
  = segs (Handover.run nseg sd ib gbp bt gp kind_of y (filter is_writer_ev evs)) s.
Proof.
  induction evs as [|e evs IH]; intros y s; [reflexivity|].
  cbn [filter]. destruct (is_writer_ev e) eqn:E.
  - unfold Handover.run. cbn [fold_left]. apply IH.
  - unfold Handover.run at 1. cbn [fold_left]. fold (Handover.run nseg sd ib gbp bt gp kind_of (Handover.step nseg sd ib gbp bt gp kind_of y e) evs).
    rewrite IH.
    assert (H : forall t, segs (Handover.step nseg sd ib gbp bt gp kind_of y e) t = segs y t).
    { intro t. destruct e as [q|q| |q|q|r|r|r]; cbn in E; try discriminate; cbn [Handover.step];
      destruct (stage (rds y r)); reflexivity. }
    (* runs from states with pointwise equal segment tables and arbitrary reader tables agree on segs
       for writer-only event lists *)
    assert (G : forall l y1 y2, (forall t, segs y1 t = segs y2 t) -> Forall (fun e => is_writer_ev e = true) l ->
                forall t, segs (Handover.run nseg sd ib gbp bt gp kind_of y1 l) t = segs (Handover.run nseg sd ib gbp bt gp kind_of y2 l) t).
    { induction l as [|a l IHl]; intros y1 y2 Hq Hall t; [apply Hq|].
      inversion Hall as [|? ? Ha Hl]; subst. unfold Handover.run. cbn [fold_left]. apply IHl; auto.
      intro u. destruct a as [q|q| |q|q|r|r|r]; cbn in Ha; try discriminate; cbn [Handover.step]; try apply Hq.
      all: rewrite (Hq q); destruct (ph (segs y2 q)); cbn [segs]; try apply Hq;
           unfold upds; destruct (Nat.eqb u q); try apply Hq; try reflexivity. }
    apply G; auto.
    apply Forall_forall. intros a Ha. apply filter_In in Ha. tauto.
Qed.

(* ------------------------------------------------------------------------------------------
   Lock discipline (one writer-preferring reader/writer lock, any number of goroutines).
   Goroutines whose calls are non-reentrant lock programs can always move until all of them have
   finished; a goroutine that takes the read lock again while it holds it can be stopped for ever
   by one writer. *)

Lemma lscan_app m p q : lscan m p = true -> lscan LFree q = true -> lscan m (p ++ q) = true.
Proof.
  revert m. induction p as [|a p IH]; intros m Hp Hq; cbn in *.
  - destruct m; try discriminate. exact Hq.
  - destruct m, a; try discriminate; apply IH; auto.
Qed.

Lemma nonreentrant_concat calls :
  (forall c, In c calls -> nonreentrant c = true) -> nonreentrant (concat calls) = true.
Proof.
  induction calls as [|c calls IH]; intros H; cbn; [reflexivity|].
  apply lscan_app; [apply H; now left|]. apply IH. intros d Hd. apply H. now right.
Qed.

(* the local state of a goroutine agrees with the position in its program *)
Definition tinv (t : thr) : bool :=
  match hr t, hw t, pend t with
  | 0, false, false => lscan LFree (tprog t)
  | 1, false, false => lscan LHeldR (tprog t)
  | 0, true, false => lscan LHeldW (tprog t)
  | 0, false, true => match tprog t with WAcq :: _ => lscan LFree (tprog t) | _ => false end
  | _, _, _ => false
  end.
Definition tinvs (ts : list thr) : Prop := Forall (fun t => tinv t = true) ts.

Lemma tinv_fire t : tinv t = true -> tinv (fire t) = true.
Proof.
  destruct t as [p r w pe]. unfold tinv, fire; cbn.
  destruct r as [|[|r]], w, pe; try discriminate; destruct p as [|[] p]; cbn; try discriminate; auto.
Qed.

Lemma Forall_set_nth {A} (P : A -> Prop) i x (l : list A) : Forall P l -> P x -> Forall P (set_nth i x l).
Proof.
  revert i. induction l as [|y l IH]; intros i Hl Hx; cbn; [destruct i; constructor|].
  inversion Hl; subst. destruct i; constructor; auto.
Qed.

Lemma lstep_inv ts i : tinvs ts -> tinvs (lstep ts i).
Proof.
  intros H. unfold lstep. destruct (nth_error ts i) as [t|] eqn:E; [|exact H].
  destruct (enabled ts t); [|exact H].
  apply Forall_set_nth; [exact H|]. apply tinv_fire.
  apply nth_error_In in E. unfold tinvs in H. rewrite Forall_forall in H. now apply H.
Qed.

Lemma lrun_inv sched : forall ts, tinvs ts -> tinvs (lrun ts sched).
Proof.
  induction sched as [|i sched IH]; intros ts H; cbn; [exact H|]. apply IH. now apply lstep_inv.
Qed.

Lemma linit_inv threads :
  (forall calls c, In calls threads -> In c calls -> nonreentrant c = true) -> tinvs (linit threads).
Proof.
  intros H. unfold tinvs, linit. apply Forall_forall. intros t Ht. apply in_map_iff in Ht.
  destruct Ht as [calls [<- Hin]]. unfold tinv, thr_init; cbn.
  apply nonreentrant_concat. intros c Hc. eapply H; eauto.
Qed.

Lemma readers_pos ts : readers ts <> 0 -> exists u, In u ts /\ hr u <> 0.
Proof.
  induction ts as [|t ts IH]; cbn; intros H; [congruence|].
  destruct (hr t) eqn:E.
  - destruct IH as [u [Hu Hr]]; [exact H|]. exists u. split; [now right|exact Hr].
  - exists t. split; [now left|]. congruence.
Qed.

(* PROGRESS: while some goroutine has not finished, some goroutine can move *)
Lemma progress_inv ts : tinvs ts -> all_finished ts = false -> existsb (enabled ts) ts = true.
Proof.
  intros Hinv Hnf. unfold tinvs in Hinv. rewrite Forall_forall in Hinv.
  apply existsb_exists.
  destruct (existsb hw ts) eqn:Ehw.
  { (* a writer is inside: it can leave *)
    apply existsb_exists in Ehw. destruct Ehw as [t [Ht Hw]]. exists t. split; [exact Ht|].
    specialize (Hinv t Ht). destruct t as [p r w pe]. cbn in Hw. subst w.
    unfold tinv in Hinv; unfold enabled; cbn in *.
    destruct r as [|[|r]], pe; try discriminate; destruct p as [|[] p]; cbn in Hinv; try discriminate; reflexivity. }
  destruct (existsb pend ts) eqn:Epe.
  { (* a writer has announced itself *)
    apply existsb_exists in Epe. destruct Epe as [t [Ht Hp]].
    destruct (Nat.eqb (readers ts) 0) eqn:Er.
    - exists t. split; [exact Ht|]. specialize (Hinv t Ht). destruct t as [p r w pe]. cbn in Hp. subst pe.
      unfold tinv in Hinv; unfold enabled; cbn in *.
      destruct r as [|[|r]], w; try discriminate; destruct p as [|[] p]; try discriminate; exact Er.
    - apply Nat.eqb_neq in Er. destruct (readers_pos ts Er) as [u [Hu Hr]]. exists u. split; [exact Hu|].
      specialize (Hinv u Hu). destruct u as [p r w pe]. cbn in Hr. unfold tinv in Hinv; unfold enabled; cbn in *.
      destruct r as [|[|r]], w, pe; try discriminate; try congruence;
      destruct p as [|[] p]; cbn in Hinv; try discriminate; reflexivity. }
  (* no writer around: whoever has something left to do can do it *)
  assert (Hb : wbusy ts = false).
  { unfold wbusy. destruct (existsb (fun t => hw t || pend t) ts) eqn:E; [|reflexivity].
    apply existsb_exists in E. destruct E as [t [Ht Hor]]. apply Bool.orb_true_iff in Hor. destruct Hor as [Hw|Hp].
    - assert (existsb hw ts = true) by (apply existsb_exists; eauto). congruence.
    - assert (existsb pend ts = true) by (apply existsb_exists; eauto). congruence. }
  unfold all_finished in Hnf.
  assert (Hex : exists t, In t ts /\ tfinished t = false).
  { clear -Hnf. induction ts as [|t ts IH]; cbn in Hnf; [discriminate|].
    destruct (tfinished t) eqn:E; cbn in Hnf.
    - destruct (IH Hnf) as [u [Hu Hf]]. exists u. split; [now right|exact Hf].
    - exists t. split; [now left|exact E]. }
  destruct Hex as [t [Ht Hf]]. exists t. split; [exact Ht|].
  assert (Hwt : hw t = false).
  { destruct (hw t) eqn:E; [|reflexivity]. assert (existsb hw ts = true) by (apply existsb_exists; eauto). congruence. }
  assert (Hpt : pend t = false).
  { destruct (pend t) eqn:E; [|reflexivity]. assert (existsb pend ts = true) by (apply existsb_exists; eauto). congruence. }
  specialize (Hinv t Ht). destruct t as [p r w pe]. cbn in Hwt, Hpt, Hf. subst w pe.
  unfold tinv in Hinv; cbn in Hinv. unfold enabled; cbn. rewrite Hb.
  unfold tfinished in Hf; cbn in Hf.
  destruct r as [|[|r]]; [| |discriminate]; destruct p as [|[] p]; cbn in Hinv; try discriminate; reflexivity.
Qed.

Theorem lock_progress threads sched :
  (forall calls c, In calls threads -> In c calls -> nonreentrant c = true) ->
  stuck (lrun (linit threads) sched) = false.
Proof.
  intros H. unfold stuck.
  destruct (all_finished (lrun (linit threads) sched)) eqn:E; [reflexivity|]. cbn.
  rewrite progress_inv; [reflexivity| |exact E]. apply lrun_inv. now apply linit_inv.
Qed.

(* COMPLETION: from every reachable state the goroutines can all be run to their end *)
Definition tmeas (t : thr) : nat := 2 * length (tprog t) + (if pend t then 0 else 1).
Fixpoint meas (ts : list thr) : nat := match ts with [] => 0 | t :: r => tmeas t + meas r end.

Lemma tmeas_fire t : tinv t = true -> tprog t <> [] -> tmeas (fire t) < tmeas t.
Proof.
  destruct t as [p r w pe]. unfold tinv, fire, tmeas; cbn. intros Hi Hp.
  destruct p as [|a p]; [congruence|].
  destruct a, pe; cbn; try lia.
  (* RRel / RAcq / WRel while pending contradict the invariant *)
  all: destruct r as [|[|r]], w; cbn in Hi; try discriminate; try lia.
Qed.

Lemma meas_set_nth ts : forall i t t', nth_error ts i = Some t -> tmeas t' < tmeas t -> meas (set_nth i t' ts) < meas ts.
Proof.
  induction ts as [|y ts IH]; intros i t t' E Hl; [destruct i; discriminate|].
  destruct i; cbn in *.
  - inversion E; subst. lia.
  - specialize (IH i t t' E Hl). lia.
Qed.

Lemma completion_inv n : forall ts, tinvs ts -> meas ts <= n -> exists sched, all_finished (lrun ts sched) = true.
Proof.
  induction n as [|n IH]; intros ts Hinv Hm.
  all: destruct (all_finished ts) eqn:E; [exists []; exact E|].
  all: pose proof (progress_inv ts Hinv E) as Hp; apply existsb_exists in Hp; destruct Hp as [t [Ht Hen]].
  all: destruct (In_nth_error ts t Ht) as [i Hi].
  all: assert (Hne : tprog t <> []) by (unfold enabled in Hen; destruct (tprog t); [discriminate|congruence]).
  all: assert (Hti : tinv t = true) by (unfold tinvs in Hinv; rewrite Forall_forall in Hinv; now apply Hinv).
  all: pose proof (meas_set_nth ts i t (fire t) Hi (tmeas_fire t Hti Hne)) as Hd.
  - lia.
  - destruct (IH (lstep ts i)) as [sched Hs].
    + now apply lstep_inv.
    + unfold lstep. rewrite Hi, Hen. lia.
    + exists (i :: sched). exact Hs.
Qed.

Lemma lrun_app ts a b : lrun ts (a ++ b) = lrun (lrun ts a) b.
Proof. unfold lrun. apply fold_left_app. Qed.

Theorem lock_completion threads sched :
  (forall calls c, In calls threads -> In c calls -> nonreentrant c = true) ->
  exists rest, all_finished (lrun (linit threads) (sched ++ rest)) = true.
Proof.
  intros H.
  destruct (completion_inv (meas (lrun (linit threads) sched)) (lrun (linit threads) sched)) as [rest Hr].
  - apply lrun_inv. now apply linit_inv.
  - lia.
  - exists rest. now rewrite lrun_app.
Qed.

(* a stuck state stays as it is whatever the scheduler tries: a deadlock, not a delay *)
Lemma stuck_forever ts : stuck ts = true -> forall sched, lrun ts sched = ts.
Proof.
  intros Hs sched. induction sched as [|i sched IH]; [reflexivity|]. cbn.
  assert (E : lstep ts i = ts).
  { unfold lstep. destruct (nth_error ts i) as [t|] eqn:En; [|reflexivity].
    destruct (enabled ts t) eqn:Ee; [|reflexivity].
    unfold stuck in Hs. apply Bool.andb_true_iff in Hs. destruct Hs as [_ Hs].
    apply Bool.negb_true_iff in Hs.
    assert (existsb (enabled ts) ts = true) by (apply existsb_exists; exists t; split; [eapply nth_error_In; eauto|exact Ee]).
    congruence. }
  rewrite E. exact IH.
Qed.

(* RECURSIVE READ LOCK: a goroutine whose call takes the read lock while it already holds it
   (GetTotalBlocksInSegments calling GetNumBlocksInSegment in seeded/C11d) and ONE writer: after the
   outer RLock and the writer's announcement nobody can ever move again.  Every call of the writer,
   and every call of the reader in a run without writers, is harmless — which is why sequential
   tests and reader-only stress do not see it. *)
Theorem recursive_read_lock_refuted :
  exists (reader writer : list lact) (sched : list nat),
    nonreentrant reader = false /\ nonreentrant writer = true /\
    let ts := lrun (linit [[reader]; [writer]]) sched in
    stuck ts = true /\ (forall more, lrun ts more = ts) /\
    (* the same reader, alone or with other readers, always finishes *)
    (exists s1, all_finished (lrun (linit [[reader]; [reader]]) s1) = true).
Proof.
  exists [RAcq; RAcq; RRel; RRel], [WAcq; WRel], [0; 1].
  split; [reflexivity|]. split; [reflexivity|]. cbv zeta.
  assert (S : stuck (lrun (linit [[[RAcq; RAcq; RRel; RRel]]; [[WAcq; WRel]]]) [0; 1]) = true) by (vm_compute; reflexivity).
  split; [exact S|]. split; [exact (stuck_forever _ S)|].
  exists [0; 1; 0; 1; 0; 1; 0; 1]. vm_compute. reflexivity.
Qed.

(* MUTUAL EXCLUSION (the lock model is a lock): in every reachable state at most one goroutine is
   inside a write section, and then nobody is inside a read section — what makes each step of the
   hand-over model atomic.  No premise on the programs. *)
Lemma sumf_set_nth f ts : forall i t t', nth_error ts i = Some t ->
  sumf f (set_nth i t' ts) + f t = sumf f ts + f t'.
Proof.
  induction ts as [|y ts IH]; intros i t t' E; [destruct i; discriminate|].
  destruct i; cbn in *.
  - inversion E; subst. lia.
  - specialize (IH i t t' E). lia.
Qed.

Lemma readers_sumf ts : readers ts = sumf hr ts.
Proof. induction ts; cbn; auto. Qed.

Lemma wbusy_false_sum ts : wbusy ts = false -> sumf busyn ts = 0.
Proof.
  unfold wbusy. induction ts as [|t ts IH]; cbn; intros H; [reflexivity|].
  apply orb_false_iff in H. destruct H as [H1 H2]. unfold busyn at 1. rewrite H1. cbn. auto.
Qed.

Lemma hwn_le_busyn ts : sumf hwn ts <= sumf busyn ts.
Proof. induction ts as [|t ts IH]; cbn; [lia|]. unfold hwn at 1, busyn at 1. destruct (hw t), (pend t); cbn; lia. Qed.

Lemma sumf_ge f ts t : In t ts -> f t <= sumf f ts.
Proof. induction ts as [|y ts IH]; cbn; intros H; [tauto|]. destruct H as [->|H]; [lia|]. specialize (IH H). lia. Qed.

Definition xinv (ts : list thr) : Prop := sumf busyn ts <= 1 /\ (1 <= sumf hwn ts -> sumf hr ts = 0).

Lemma lstep_xinv ts i : xinv ts -> xinv (lstep ts i).
Proof.
  intros [Hb Hr]. unfold lstep. destruct (nth_error ts i) as [t|] eqn:E; [|split; assumption].
  destruct (enabled ts t) eqn:En; [|split; assumption].
  pose proof (sumf_set_nth busyn ts i t (fire t) E) as Sb.
  pose proof (sumf_set_nth hwn ts i t (fire t) E) as Sh.
  pose proof (sumf_set_nth hr ts i t (fire t) E) as Sr.
  pose proof (hwn_le_busyn ts) as Hle.
  pose proof (hwn_le_busyn (set_nth i (fire t) ts)) as Hle'.
  pose proof (sumf_ge hr ts t (nth_error_In _ _ E)) as Hge.
  pose proof (sumf_ge busyn ts t (nth_error_In _ _ E)) as Hgb.
  rewrite readers_sumf in En || idtac.
  destruct t as [p r w pe]. unfold xinv, enabled, fire in *; cbn in *.
  destruct p as [|a p]; [discriminate|].
  destruct a; cbn in *.
  - (* RAcq *) apply negb_true_iff in En. apply wbusy_false_sum in En.
    unfold busyn, hwn in *; cbn in *. destruct w, pe; cbn in *; split; lia.
  - (* RRel *) destruct r as [|r]; [discriminate|].
    unfold busyn, hwn in *; cbn in *. destruct w, pe; cbn in *; split; lia.
  - (* WAcq *) destruct pe.
    + rewrite readers_sumf in En. apply Nat.eqb_eq in En.
      unfold busyn, hwn in *; cbn in *. destruct w; cbn in *; split; lia.
    + apply negb_true_iff in En. apply wbusy_false_sum in En.
      unfold busyn, hwn in *; cbn in *. destruct w; cbn in *; split; lia.
  - (* WRel *) subst w.
    unfold busyn, hwn in *; cbn in *. destruct pe; cbn in *; split; lia.
Qed.

Lemma linit_xinv threads : xinv (linit threads).
Proof.
  unfold linit. induction threads as [|c threads [IH1 IH2]]; split; cbn; lia.
Qed.

Theorem lock_exclusion threads sched :
  let ts := lrun (linit threads) sched in
  writers_inside ts <= 1 /\ (writers_inside ts = 1 -> readers ts = 0).
Proof.
  cbv zeta. unfold writers_inside.
  assert (H : xinv (lrun (linit threads) sched)).
  { generalize (linit_xinv threads). generalize (linit threads). induction sched as [|i sched IH]; intros ts H; cbn; [exact H|].
    apply IH. now apply lstep_xinv. }
  destruct H as [Hb Hr]. pose proof (hwn_le_busyn (lrun (linit threads) sched)). split; [lia|].
  intros E. rewrite readers_sumf. apply Hr. lia.
Qed.

(* KvStoreProofs.v — the keyed stores refine a map tenant -> key -> value.
   Model: SigM.KvStore. *)
From Coq Require Import Lia.
From Coq Require Import ZifyN ZifyNat ZifyBool.
From SigM Require Import Base KvStore.
From SigP Require Import BaseProofs.
Open Scope N_scope.

(* ---- association lists ---- *)
Section AMapFacts.
  Context {K V : Type} (eqb : K -> K -> bool).
  Hypothesis eqb_eq : forall a b, eqb a b = true <-> a = b.

  Lemma eqb_refl_ a : eqb a a = true.
  Proof. apply eqb_eq. reflexivity. Qed.

  Lemma eqb_trans_false a b c : eqb a b = true -> eqb a c = false -> eqb b c = false.
  Proof.
    intros H1 H2. apply eqb_eq in H1. subst b. exact H2.
  Qed.

  Lemma a_get_put k (v : V) m k' :
    a_get eqb k' (a_put eqb k v m) = if eqb k k' then Some v else a_get eqb k' m.
  Proof.
    induction m as [|[k0 v0] r IH]; cbn [a_put a_get]; [reflexivity|].
    destruct (eqb k0 k) eqn:E0; cbn [a_get].
    - apply eqb_eq in E0. subst k0. destruct (eqb k k'); reflexivity.
    - rewrite IH. destruct (eqb k0 k') eqn:E1; [|reflexivity].
      apply eqb_eq in E1. subst k'.
      destruct (eqb k k0) eqn:E2; [|reflexivity].
      apply eqb_eq in E2. subst k0. rewrite eqb_refl_ in E0. discriminate.
  Qed.

  Lemma a_get_del k (m : list (K * V)) k' :
    a_get eqb k' (a_del eqb k m) = if eqb k k' then None else a_get eqb k' m.
  Proof.
    induction m as [|[k0 v0] r IH]; cbn [a_del a_get]; [destruct (eqb k k'); reflexivity|].
    destruct (eqb k0 k) eqn:E0; cbn [a_get].
    - apply eqb_eq in E0. subst k0. rewrite IH. destruct (eqb k k'); reflexivity.
    - rewrite IH. destruct (eqb k0 k') eqn:E1; [|reflexivity].
      apply eqb_eq in E1. subst k'.
      destruct (eqb k k0) eqn:E2; [|reflexivity].
      apply eqb_eq in E2. subst k0. rewrite eqb_refl_ in E0. discriminate.
  Qed.
End AMapFacts.

Lemma bytes_eqb_eq a : forall b, bytes_eqb a b = true <-> a = b.
Proof.
  unfold bytes_eqb. induction a as [|x a IH]; intros [|y b]; cbn [list_eqb]; split; try discriminate; auto.
  - intros H. apply andb_true_iff in H. destruct H as [H1 H2].
    apply N.eqb_eq in H1. apply IH in H2. congruence.
  - intros H. inversion H; subst. apply andb_true_iff. split; [apply N.eqb_refl|apply IH; reflexivity].
Qed.

Lemma bytes_eqb_refl a : bytes_eqb a a = true.
Proof. apply bytes_eqb_eq. reflexivity. Qed.

Lemma kv_get_put k v m k' : kv_get k' (kv_put k v m) = if bytes_eqb k k' then Some v else kv_get k' m.
Proof. apply (a_get_put bytes_eqb bytes_eqb_eq). Qed.
Lemma kv_get_del k m k' : kv_get k' (kv_del k m) = if bytes_eqb k k' then None else kv_get k' m.
Proof. apply (a_get_del bytes_eqb bytes_eqb_eq). Qed.
Lemma t_get_put {A} t (x : A) m t' : t_get t' (t_put t x m) = if N.eqb t t' then Some x else t_get t' m.
Proof. apply (a_get_put N.eqb N.eqb_eq). Qed.
Lemma t_get_del {A} t (m : list (tenant * A)) t' : t_get t' (t_del t m) = if N.eqb t t' then None else t_get t' m.
Proof. apply (a_get_del N.eqb N.eqb_eq). Qed.

(* ---- specification facts ---- *)
Definition speq (f g : spec) : Prop := forall t k, f t k = g t k.

Lemma spec_step_ext f g o : speq f g -> speq (spec_step f o) (spec_step g o).
Proof.
  intros H t k. destruct o; cbn [spec_step]; try apply H;
    match goal with |- context [if ?c then _ else _] => destruct c end; auto.
Qed.

Lemma spec_run_ext ops : forall f g, speq f g -> speq (spec_run ops f) (spec_run ops g).
Proof.
  induction ops as [|o r IH]; intros f g H; cbn [spec_run]; [exact H|].
  apply IH. apply spec_step_ext. exact H.
Qed.

(* operations that do not write (t, k) leave the specified value of (t, k) alone *)
Lemma spec_run_untouched ops : forall f t k,
  forallb (fun o => negb (op_writes t k o)) ops = true -> spec_run ops f t k = f t k.
Proof.
  induction ops as [|o r IH]; intros f t k H; cbn [spec_run]; [reflexivity|].
  cbn [forallb] in H. apply andb_true_iff in H. destruct H as [Ho Hr].
  rewrite IH by exact Hr.
  destruct o as [t0 k0 v|t0 k0|t0| | | |]; cbn [spec_step op_writes] in *; try reflexivity.
  - destruct (N.eqb t0 t && bytes_eqb k0 k); [discriminate|reflexivity].
  - destruct (N.eqb t0 t && bytes_eqb k0 k); [discriminate|reflexivity].
  - destruct (N.eqb t0 t); [discriminate|reflexivity].
Qed.

(* ---- (1) cached store ---- *)
(* whatever is in memory is what the tenant's file holds *)
Definition inv (s : store) : Prop :=
  forall t m, t_get t (mem s) = Some m -> t_get t (disk s) = Some m.

Lemma inv_empty : inv empty_store.
Proof. intros t m H. discriminate. Qed.

Lemma load_facts t s : inv s ->
  inv (load t s) /\ speq (abs (load t s)) (abs s) /\
  (forall k, abs s t k = kv_get k (cur t (load t s))) /\
  disk (load t s) = disk s /\
  (t_get t (mem (load t s)) = None -> t_get t (disk s) = None).
Proof.
  intros I. unfold load. destruct (t_get t (disk s)) as [m|] eqn:Ed.
  - split; [|split; [|split; [|split]]].
    + intros t' m'. cbn [mem disk]. rewrite t_get_put.
      destruct (N.eqb_spec t t') as [->|]; [intros H; inversion H; subst; exact Ed|apply I].
    + intros t' k. unfold abs. cbn [disk].
      destruct (t_get t' (disk s)) eqn:E'; [reflexivity|].
      unfold cur. cbn [mem]. rewrite t_get_put.
      destruct (N.eqb_spec t t') as [->|]; [congruence|reflexivity].
    + intros k. unfold abs, cur. cbn [mem]. rewrite Ed, t_get_put, N.eqb_refl. reflexivity.
    + reflexivity.
    + cbn [mem]. rewrite t_get_put, N.eqb_refl. discriminate.
  - split; [|split; [|split; [|split]]].
    + exact I.
    + intros t' k; reflexivity.
    + intros k. unfold abs. rewrite Ed. reflexivity.
    + reflexivity.
    + intros _. reflexivity.
Qed.

Lemma step_facts s o : inv s ->
  inv (fst (step s o)) /\ speq (abs (fst (step s o))) (spec_step (abs s) o).
Proof.
  intros I.
  destruct o as [t k v|t k|t|t k|t|t p|]; cbn [step spec_step];
    try (destruct (load_facts t s I) as (I1 & A1 & C1 & D1 & N1)).
  - (* Put *)
    cbn [fst]. split.
    + intros t' m'. cbn [mem disk]. rewrite !t_get_put.
      destruct (N.eqb_spec t t'); [auto|apply I1].
    + intros t' k'. unfold abs at 1. cbn [disk]. rewrite t_get_put.
      destruct (N.eqb_spec t t') as [<-|Hne]; cbn [andb].
      * rewrite kv_get_put. destruct (bytes_eqb k k'); [reflexivity|]. symmetry. apply C1.
      * rewrite <- (A1 t' k'). unfold abs.
        destruct (t_get t' (disk (load t s))); [reflexivity|].
        unfold cur. cbn [mem]. rewrite t_get_put.
        destruct (N.eqb_spec t t'); [contradiction|reflexivity].
  - (* Del *)
    destruct (t_get t (mem (load t s))) as [m|] eqn:Em.
    + destruct (kv_get k m) as [v0|] eqn:Ek; cbn [fst].
      * split.
        -- intros t' m'. cbn [mem disk]. rewrite !t_get_put.
           destruct (N.eqb_spec t t'); [auto|apply I1].
        -- intros t' k'. unfold abs at 1. cbn [disk]. rewrite t_get_put.
           destruct (N.eqb_spec t t') as [<-|Hne]; cbn [andb].
           ++ rewrite kv_get_del. destruct (bytes_eqb k k'); [reflexivity|].
              rewrite C1. unfold cur. rewrite Em. reflexivity.
           ++ rewrite <- (A1 t' k'). unfold abs.
              destruct (t_get t' (disk (load t s))); [reflexivity|].
              unfold cur. cbn [mem]. rewrite t_get_put.
              destruct (N.eqb_spec t t'); [contradiction|reflexivity].
      * split; [exact I1|]. intros t' k'. rewrite A1.
        destruct (N.eqb_spec t t') as [<-|]; cbn [andb]; [|reflexivity].
        destruct (bytes_eqb k k') eqn:Ekk; [|reflexivity].
        apply bytes_eqb_eq in Ekk. subst k'. rewrite C1. unfold cur. rewrite Em. exact Ek.
    + cbn [fst]. split; [exact I1|]. intros t' k'. rewrite A1.
      destruct (N.eqb_spec t t') as [<-|]; cbn [andb]; [|reflexivity].
      destruct (bytes_eqb k k') eqn:Ekk; [|reflexivity].
      rewrite C1. unfold cur. rewrite Em. destruct k'; reflexivity.
  - (* DelAll *)
    destruct (t_get t (mem (load t s))) as [m|] eqn:Em; cbn [fst].
    + split.
      * intros t' m'. cbn [mem disk]. rewrite !t_get_del.
        destruct (N.eqb_spec t t'); [discriminate|apply I1].
      * intros t' k'. unfold abs at 1. cbn [disk]. rewrite t_get_del.
        destruct (N.eqb_spec t t') as [<-|Hne].
        -- unfold cur. cbn [mem]. rewrite t_get_del, N.eqb_refl. destruct k'; reflexivity.
        -- rewrite <- (A1 t' k'). unfold abs.
           destruct (t_get t' (disk (load t s))); [reflexivity|].
           unfold cur. cbn [mem]. rewrite t_get_del.
           destruct (N.eqb_spec t t'); [contradiction|reflexivity].
    + split; [exact I1|]. intros t' k'. rewrite A1.
      destruct (N.eqb_spec t t') as [<-|]; [|reflexivity].
      rewrite C1. unfold cur. rewrite Em. destruct k'; reflexivity.
  - cbn [fst]. split; [exact I1|exact A1].
  - cbn [fst]. split; [exact I1|exact A1].
  - cbn [fst]. split; [exact I1|exact A1].
  - (* Restart *)
    cbn [fst]. split.
    + intros t m H. discriminate.
    + intros t k. unfold abs. cbn [disk].
      destruct (t_get t (disk s)) eqn:Ed; [reflexivity|].
      unfold cur. cbn [mem]. change (t_get t []) with (@None kvmap).
      destruct (t_get t (mem s)) as [m|] eqn:Em; [|reflexivity].
      apply I in Em. congruence.
Qed.

Lemma run_inv ops : forall s, inv s -> inv (run ops s).
Proof.
  induction ops as [|o r IH]; intros s I; cbn [run]; [exact I|].
  apply IH. apply step_facts. exact I.
Qed.

(* MAIN: for every sequence of create/update (Put), delete, delete-all, reads and restarts at
   any positions, what the store returns afterwards is what the plain map returns *)
Theorem kv_refines_map ops : forall s, inv s ->
  forall t k, abs (run ops s) t k = spec_run ops (abs s) t k.
Proof.
  induction ops as [|o r IH]; intros s I t k; cbn [run spec_run]; [reflexivity|].
  destruct (step_facts s o I) as [I' A'].
  rewrite IH by exact I'. apply spec_run_ext. exact A'.
Qed.

(* reads return the abstract state *)
Theorem get_returns_abs s t k : inv s -> snd (step s (Get t k)) = OVal (abs s t k).
Proof.
  intros I. cbn [step snd]. destruct (load_facts t s I) as (_ & _ & C & _). rewrite C. reflexivity.
Qed.

Theorem list_returns_abs s t : inv s ->
  exists l, snd (step s (ListAll t)) = OList l /\ forall k, kv_get k l = abs s t k.
Proof.
  intros I. cbn [step snd]. destruct (load_facts t s I) as (_ & _ & C & _).
  eexists; split; [reflexivity|]. intros k. symmetry. apply C.
Qed.

Theorem restart_preserves_abs s : inv s ->
  forall t k, abs (fst (step s Restart)) t k = abs s t k.
Proof. intros I t k. apply (proj2 (step_facts s Restart I)). Qed.

(* operations that do not write (t, k) — other keys, other tenants, reads, restarts — do not
   change what a read of (t, k) returns *)
Theorem keys_independent ops s t k : inv s ->
  forallb (fun o => negb (op_writes t k o)) ops = true ->
  abs (run ops s) t k = abs s t k.
Proof.
  intros I H. rewrite kv_refines_map by exact I. apply spec_run_untouched. exact H.
Qed.

Theorem tenants_independent ops s t : inv s ->
  (forall o, In o ops -> op_tenant o <> Some t) ->
  forall k, abs (run ops s) t k = abs s t k.
Proof.
  intros I H k. apply keys_independent; [exact I|].
  apply forallb_forall. intros o Ho. specialize (H o Ho).
  destruct o as [t0 ? ?|t0 ?|t0| | | |]; cbn [op_writes op_tenant negb] in *; try reflexivity;
    destruct (N.eqb_spec t0 t); subst; try reflexivity; exfalso; apply H; reflexivity.
Qed.

(* ---- (2) direct store ---- *)
Lemma dstep_abs s o : speq (dabs (fst (dstep s o))) (spec_step (dabs s) o).
Proof.
  intros t' k'. destruct o as [t k v|t k|t|t k|t|t p|]; cbn [dstep spec_step fst]; try reflexivity.
  - unfold dabs, dcur. rewrite t_get_put.
    destruct (N.eqb_spec t t') as [<-|]; cbn [andb]; [|reflexivity].
    rewrite kv_get_put. reflexivity.
  - destruct (kv_get k (dcur t s)) eqn:Ek; cbn [fst].
    + unfold dabs, dcur. rewrite t_get_put.
      destruct (N.eqb_spec t t') as [<-|]; cbn [andb]; [|reflexivity].
      rewrite kv_get_del. reflexivity.
    + destruct (N.eqb_spec t t') as [<-|]; cbn [andb]; [|reflexivity].
      destruct (bytes_eqb k k') eqn:Ekk; [|reflexivity].
      apply bytes_eqb_eq in Ekk. subst k'. exact Ek.
  - unfold dabs, dcur. rewrite t_get_del.
    destruct (N.eqb_spec t t') as [<-|]; [destruct k'; reflexivity|reflexivity].
Qed.

Theorem dkv_refines_map ops : forall s t k, dabs (drun ops s) t k = spec_run ops (dabs s) t k.
Proof.
  induction ops as [|o r IH]; intros s t k; cbn [drun spec_run]; [reflexivity|].
  rewrite IH. apply spec_run_ext. apply dstep_abs.
Qed.

(* ---- (3) alias store ---- *)
Definition nm_get_put k v m k' :
  nm_get k' (nm_put k v m) = if bytes_eqb k k' then v else nm_get k' m.
Proof.
  unfold nm_get, nm_put. rewrite (a_get_put bytes_eqb bytes_eqb_eq).
  destruct (bytes_eqb k k'); reflexivity.
Qed.
Definition nm_get_del k m k' :
  nm_get k' (nm_del k m) = if bytes_eqb k k' then [] else nm_get k' m.
Proof.
  unfold nm_get, nm_del. rewrite (a_get_del bytes_eqb bytes_eqb_eq).
  destruct (bytes_eqb k k'); reflexivity.
Qed.
Lemma t_nm_put t x m t' : t_nm t' (t_put t x m) = if N.eqb t t' then x else t_nm t' m.
Proof. unfold t_nm. rewrite t_get_put. destruct (N.eqb t t'); reflexivity. Qed.

(* tenants without an alias directory never hold an alias file *)
Definition ainv (s : astore) : Prop :=
  forall t, adir_exists t = false -> t_nm t (afiles s) = [].

Definition aeq (f g : aspec) : Prop := forall t i, f t i = g t i.

Lemma aspec_step_ext f g o : aeq f g -> aeq (aspec_step f o) (aspec_step g o).
Proof.
  intros H t i. destruct o; cbn [aspec_step]; try apply H.
  - destruct (adir_exists t0); [|apply H].
    destruct (N.eqb t0 t && bytes_eqb idx i); [rewrite H; reflexivity|apply H].
  - destruct (N.eqb t0 t && bytes_eqb idx i); [rewrite H; reflexivity|apply H].
Qed.

Lemma aspec_run_ext ops : forall f g, aeq f g -> aeq (aspec_run ops f) (aspec_run ops g).
Proof.
  induction ops as [|o r IH]; intros f g H; cbn [aspec_run]; [exact H|].
  apply IH. apply aspec_step_ext. exact H.
Qed.

Lemma ns_del_nil x : ns_del x [] = [].
Proof. reflexivity. Qed.

Lemma astep_forward s o : ainv s -> is_shutdown o = false ->
  ainv (fst (astep s o)) /\ aeq (aabs (fst (astep s o))) (aspec_step (aabs s) o).
Proof.
  intros I Hs. destruct o as [t idx al|t idx al|t idx|t al| |]; try discriminate;
    cbn [astep aspec_step]; try (split; [exact I|intros ? ?; reflexivity]).
  - (* AAdd *)
    destruct (adir_exists t) eqn:Ed; cbn [fst]; [|split; [exact I|intros ? ?; reflexivity]].
    split.
    + intros t' Hd. cbn [afiles]. rewrite t_nm_put.
      destruct (N.eqb_spec t t'); [subst; congruence|apply I; exact Hd].
    + intros t' i'. unfold aabs. cbn [afiles]. rewrite t_nm_put.
      destruct (N.eqb_spec t t') as [<-|]; cbn [andb]; [|reflexivity].
      rewrite nm_get_put. destruct (bytes_eqb idx i') eqn:E; [|reflexivity].
      apply bytes_eqb_eq in E. subst i'. reflexivity.
  - (* ARemove *)
    set (fm := t_nm t (afiles s)).
    set (rev' := match a_get bytes_eqb al (t_nm t (arev s)) with Some _ => _ | None => _ end).
    assert (Hspec : forall files',
      (forall t', t_nm t' files' = if N.eqb t t' then
          (if adir_exists t then (match ns_del al (nm_get idx fm) with [] => nm_del idx fm | c => nm_put idx c fm end) else fm)
          else t_nm t' (afiles s)) ->
      ainv (mkAStore files' rev') /\
      aeq (aabs (mkAStore files' rev')) (fun t' i' => if N.eqb t t' && bytes_eqb idx i' then ns_del al (aabs s t' i') else aabs s t' i')).
    { intros files' Hf. split.
      - intros t' Hd. cbn [afiles]. rewrite Hf.
        destruct (N.eqb_spec t t') as [<-|]; [|apply I; exact Hd].
        rewrite Hd. apply I. exact Hd.
      - intros t' i'. unfold aabs. cbn [afiles]. rewrite Hf.
        destruct (N.eqb_spec t t') as [<-|]; cbn [andb]; [|reflexivity].
        fold fm. destruct (adir_exists t) eqn:Ed.
        + destruct (ns_del al (nm_get idx fm)) eqn:Ec.
          * rewrite nm_get_del. destruct (bytes_eqb idx i') eqn:E; [|reflexivity].
            apply bytes_eqb_eq in E. subst i'. rewrite Ec. reflexivity.
          * rewrite nm_get_put. destruct (bytes_eqb idx i') eqn:E; [|reflexivity].
            apply bytes_eqb_eq in E. subst i'. rewrite Ec. reflexivity.
        + destruct (bytes_eqb idx i') eqn:E; [|reflexivity].
          apply bytes_eqb_eq in E. subst i'.
          unfold fm. rewrite (I t Ed). reflexivity. }
    destruct (ns_del al (nm_get idx fm)) as [|c0 cr] eqn:Ec.
    + destruct (a_get bytes_eqb idx fm) as [x|] eqn:Eg; cbn [fst]; apply Hspec; intros t'.
      * rewrite t_nm_put. destruct (N.eqb_spec t t') as [<-|]; [|reflexivity].
        destruct (adir_exists t) eqn:Ed; [reflexivity|].
        exfalso. unfold fm in Eg. rewrite (I t Ed) in Eg. discriminate.
      * destruct (N.eqb_spec t t') as [<-|]; [|reflexivity].
        destruct (adir_exists t); [|reflexivity].
        fold fm.
        (* deleting an absent key changes nothing *)
        assert (Hd : nm_del idx fm = fm).
        { clear -Eg. unfold nm_del. induction fm as [|[k0 v0] r IH]; cbn [a_del]; [reflexivity|].
          cbn [a_get] in Eg. destruct (bytes_eqb k0 idx); [discriminate|]. rewrite IH by exact Eg. reflexivity. }
        symmetry. exact Hd.
    + destruct (adir_exists t) eqn:Ed; cbn [fst]; apply Hspec; intros t'.
      * rewrite t_nm_put. destruct (N.eqb_spec t t') as [<-|]; [|reflexivity]. rewrite ?Ed. reflexivity.
      * destruct (N.eqb_spec t t') as [<-|]; [|reflexivity]. rewrite ?Ed. reflexivity.
Qed.

Lemma ainv_empty : ainv empty_astore.
Proof. intros t _. reflexivity. Qed.

(* FORWARD alias files: for every sequence of add/remove/reads and process crashes+restarts
   (no clean shutdown), GetAliases(index) returns exactly the alias set written last *)
Theorem alias_forward_refines_map ops : forall s, ainv s ->
  forallb (fun o => negb (is_shutdown o)) ops = true ->
  forall t i, aabs (arun ops s) t i = aspec_run ops (aabs s) t i.
Proof.
  induction ops as [|o r IH]; intros s I H t i; cbn [arun aspec_run]; [reflexivity|].
  cbn [forallb] in H. apply andb_true_iff in H. destruct H as [Ho Hr].
  apply negb_true_iff in Ho.
  destruct (astep_forward s o I Ho) as [I' A'].
  rewrite IH by assumption. apply aspec_run_ext. exact A'.
Qed.

(* REFUTED with a clean shutdown: index i1 gets alias a1; shutdown + restart; the store now says
   that an index named a1 has the alias i1, which nobody wrote *)
Theorem alias_shutdown_flush_refuted :
  exists ops t i, aabs (arun ops empty_astore) t i <> aspec_run ops (aabs empty_astore) t i.
Proof.
  exists [AAdd 0 [105;49] [97;49]; AShutdownRestart], 0, [97;49].
  vm_compute. discriminate.
Qed.

(* REVERSE lookup (IsAlias): consistent with the forward files as long as the process is not
   restarted ... *)
Definition rev_consistent (s : astore) : Prop :=
  forall t idx al,
    ns_mem idx (nm_get al (t_nm t (arev s))) = ns_mem al (nm_get idx (t_nm t (afiles s))).

Lemma ns_mem_add x y s : ns_mem x (ns_add y s) = bytes_eqb x y || ns_mem x s.
Proof.
  unfold ns_add. destruct (ns_mem y s) eqn:E.
  - destruct (bytes_eqb x y) eqn:Exy; [|reflexivity].
    apply bytes_eqb_eq in Exy. subst. rewrite E. reflexivity.
  - unfold ns_mem. rewrite existsb_app. cbn [existsb]. rewrite orb_false_r, orb_comm. reflexivity.
Qed.

Lemma ns_mem_del x y s : ns_mem x (ns_del y s) = negb (bytes_eqb y x) && ns_mem x s.
Proof.
  unfold ns_del, ns_mem. induction s as [|z s IH]; cbn [filter existsb]; [rewrite andb_false_r; reflexivity|].
  destruct (bytes_eqb y z) eqn:Eyz; cbn [negb existsb].
  - rewrite IH. apply bytes_eqb_eq in Eyz. subst z.
    destruct (bytes_eqb x y) eqn:Exy.
    + apply bytes_eqb_eq in Exy. subst. rewrite bytes_eqb_refl. reflexivity.
    + reflexivity.
  - rewrite IH. destruct (bytes_eqb x z) eqn:Exz; cbn [orb]; [|reflexivity].
    apply bytes_eqb_eq in Exz. subst z. rewrite Eyz. reflexivity.
Qed.

Lemma rev_add_all_get idx als : forall r al,
  ns_mem idx (nm_get al (rev_add_all idx als r)) = ns_mem al als || ns_mem idx (nm_get al r).
Proof.
  unfold rev_add_all. induction als as [|a als IH]; intros r al; cbn [fold_left]; [reflexivity|].
  rewrite IH. rewrite nm_get_put. cbn [ns_mem existsb].
  destruct (bytes_eqb a al) eqn:E.
  - apply bytes_eqb_eq in E. subst a. rewrite ns_mem_add, bytes_eqb_refl. cbn [orb].
    rewrite orb_true_r. rewrite bytes_eqb_refl. reflexivity.
  - assert (E' : bytes_eqb al a = false).
    { destruct (bytes_eqb al a) eqn:X; [|reflexivity]. apply bytes_eqb_eq in X. subst.
      rewrite bytes_eqb_refl in E. discriminate. }
    rewrite E'. cbn [orb]. reflexivity.
Qed.

Lemma rev_add_all_other idx als : forall r al i',
  bytes_eqb i' idx = false ->
  ns_mem i' (nm_get al (rev_add_all idx als r)) = ns_mem i' (nm_get al r).
Proof.
  unfold rev_add_all. induction als as [|a als IH]; intros r al i' Hne; cbn [fold_left]; [reflexivity|].
  rewrite IH by exact Hne. rewrite nm_get_put.
  destruct (bytes_eqb a al) eqn:E; [|reflexivity].
  apply bytes_eqb_eq in E. subst a. rewrite ns_mem_add, Hne. reflexivity.
Qed.

Lemma bytes_eqb_sym a b : bytes_eqb a b = bytes_eqb b a.
Proof.
  destruct (bytes_eqb a b) eqn:E.
  - apply bytes_eqb_eq in E. subst. symmetry. apply bytes_eqb_refl.
  - destruct (bytes_eqb b a) eqn:E2; [|reflexivity].
    apply bytes_eqb_eq in E2. subst. rewrite bytes_eqb_refl in E. discriminate.
Qed.

Lemma astep_rev s o : ainv s -> rev_consistent s -> is_restart o = false ->
  rev_consistent (fst (astep s o)).
Proof.
  intros I R Hr. destruct o as [t idx al|t idx al|t idx|t al| |]; try discriminate;
    cbn [astep]; try exact R.
  - (* AAdd *)
    destruct (adir_exists t) eqn:Ed; cbn [fst]; [|exact R].
    intros t' i' a'. cbn [afiles arev]. rewrite !t_nm_put.
    destruct (N.eqb_spec t t') as [<-|]; [|apply R].
    rewrite nm_get_put. destruct (bytes_eqb idx i') eqn:E.
    + apply bytes_eqb_eq in E. subst i'. rewrite rev_add_all_get.
      rewrite (R t idx a'). rewrite !ns_mem_add.
      destruct (bytes_eqb a' al); cbn [orb]; [reflexivity|].
      destruct (ns_mem a' (nm_get idx (t_nm t (afiles s)))); reflexivity.
    + rewrite rev_add_all_other by (rewrite bytes_eqb_sym; exact E). apply R.
  - (* ARemove *)
    set (fm := t_nm t (afiles s)).
    set (rm := t_nm t (arev s)).
    (* the reverse map after the removal *)
    assert (Hrev : forall rev',
      rev' = match a_get bytes_eqb al rm with
             | Some ixs => t_put t (nm_put al (ns_del idx ixs) rm) (arev s)
             | None => arev s end ->
      forall t' i' a', ns_mem i' (nm_get a' (t_nm t' rev')) =
        if N.eqb t t' && bytes_eqb al a' then negb (bytes_eqb idx i') && ns_mem i' (nm_get a' (t_nm t' (arev s)))
        else ns_mem i' (nm_get a' (t_nm t' (arev s)))).
    { intros rev' -> t' i' a'. destruct (a_get bytes_eqb al rm) as [ixs|] eqn:Eg.
      - rewrite t_nm_put. destruct (N.eqb_spec t t') as [<-|]; cbn [andb]; [|reflexivity].
        rewrite nm_get_put. destruct (bytes_eqb al a') eqn:E; [|reflexivity].
        apply bytes_eqb_eq in E. subst a'. rewrite ns_mem_del.
        fold rm. unfold nm_get. rewrite Eg. reflexivity.
      - destruct (N.eqb_spec t t') as [<-|]; cbn [andb]; [|reflexivity].
        destruct (bytes_eqb al a') eqn:E; [|reflexivity].
        apply bytes_eqb_eq in E. subst a'. fold rm. unfold nm_get. rewrite Eg.
        cbn. rewrite andb_false_r. reflexivity. }
    (* the forward files after the removal, whichever branch *)
    assert (Hgoal : forall files' rev',
      rev' = match a_get bytes_eqb al rm with
             | Some ixs => t_put t (nm_put al (ns_del idx ixs) rm) (arev s)
             | None => arev s end ->
      (forall t' i', nm_get i' (t_nm t' files') =
          if N.eqb t t' && bytes_eqb idx i' then ns_del al (nm_get i' (t_nm t' (afiles s)))
          else nm_get i' (t_nm t' (afiles s))) ->
      rev_consistent (mkAStore files' rev')).
    { intros files' rev' Hr' Hf t' i' a'. cbn [afiles arev].
      rewrite (Hrev rev' Hr'), Hf. rewrite (R t' i' a').
      destruct (N.eqb t t'); cbn [andb]; [|reflexivity].
      destruct (bytes_eqb idx i') eqn:E1; destruct (bytes_eqb al a') eqn:E2; cbn [negb andb];
        rewrite ?ns_mem_del, ?E2; cbn [negb andb]; try reflexivity.
    }
    assert (Hdelabs : forall m, a_get bytes_eqb idx m = None -> nm_del idx m = m).
    { intros m. unfold nm_del. induction m as [|[k0 v0] r IH]; cbn [a_del a_get]; [reflexivity|].
      destruct (bytes_eqb k0 idx); [discriminate|]. intros H. rewrite IH by exact H. reflexivity. }
    destruct (ns_del al (nm_get idx fm)) as [|c0 cr] eqn:Ec.
    + destruct (a_get bytes_eqb idx fm) as [x|] eqn:Eg; cbn [fst]; apply Hgoal; try reflexivity; intros t' i'.
      * rewrite t_nm_put. destruct (N.eqb_spec t t') as [<-|]; cbn [andb]; [|reflexivity].
        rewrite nm_get_del. fold fm. destruct (bytes_eqb idx i') eqn:E; [|reflexivity].
        apply bytes_eqb_eq in E. subst i'. rewrite Ec. reflexivity.
      * destruct (N.eqb_spec t t') as [<-|]; cbn [andb]; [|reflexivity].
        fold fm. destruct (bytes_eqb idx i') eqn:E; [|reflexivity].
        apply bytes_eqb_eq in E. subst i'. rewrite Ec.
        unfold nm_get in *. rewrite Eg. reflexivity.
    + destruct (adir_exists t) eqn:Ed; cbn [fst]; apply Hgoal; try reflexivity; intros t' i'.
      * rewrite t_nm_put. destruct (N.eqb_spec t t') as [<-|]; cbn [andb]; [|reflexivity].
        rewrite nm_get_put. fold fm. destruct (bytes_eqb idx i') eqn:E; [|reflexivity].
        apply bytes_eqb_eq in E. subst i'. rewrite Ec. reflexivity.
      * destruct (N.eqb_spec t t') as [<-|]; cbn [andb]; [|reflexivity].
        fold fm. destruct (bytes_eqb idx i') eqn:E; [|reflexivity].
        apply bytes_eqb_eq in E. subst i'. exfalso.
        unfold fm in Ec. rewrite (I t Ed) in Ec. discriminate.
Qed.

Lemma rev_consistent_empty : rev_consistent empty_astore.
Proof. intros t i a. reflexivity. Qed.

Lemma arun_ainv ops : forall s, ainv s -> forallb (fun o => negb (is_shutdown o)) ops = true -> ainv (arun ops s).
Proof.
  induction ops as [|o r IH]; intros s I H; cbn [arun]; [exact I|].
  cbn [forallb] in H. apply andb_true_iff in H. destruct H as [Ho Hr].
  apply negb_true_iff in Ho. apply IH; [|exact Hr]. apply astep_forward; assumption.
Qed.

(* GUARDED (guard: no restart among the operations): IsAlias(alias) finds index i iff the file of
   index i lists the alias, after every sequence of adds and removes *)
Theorem alias_reverse_consistent_guarded ops :
  forallb (fun o => negb (is_restart o)) ops = true ->
  rev_consistent (arun ops empty_astore).
Proof.
  assert (G : forall s, ainv s -> rev_consistent s ->
    forallb (fun o => negb (is_restart o)) ops = true -> rev_consistent (arun ops s)).
  { induction ops as [|o r IH]; intros s I R H; cbn [arun]; [exact R|].
    cbn [forallb] in H. apply andb_true_iff in H. destruct H as [Ho Hr].
    apply negb_true_iff in Ho. apply IH; [| |exact Hr].
    - apply astep_forward; [exact I|]. destruct o; try discriminate; reflexivity.
    - apply astep_rev; assumption. }
  apply G; [apply ainv_empty|apply rev_consistent_empty].
Qed.

(* REFUTED with a restart: tenant 0's alias files are not scanned by initializeAliasToIndexMap
   (only sub-directories are), so after any restart IsAlias no longer finds a stored alias *)
Theorem alias_reverse_lost_refuted :
  exists ops, ~ rev_consistent (arun ops empty_astore).
Proof.
  exists [AAdd 0 [105;49] [97;49]; ACrashRestart].
  intros H. specialize (H 0 [105;49] [97;49]). vm_compute in H. discriminate.
Qed.

Example alias_guard_satisfiable :
  snd (astep (arun [AAdd 0 [105;49] [97;49]; AAdd 0 [105;50] [97;49]; ARemove 0 [105;49] [97;49]] empty_astore)
             (AIsAlias 0 [97;49])) = ASet [[105;50]].
Proof. vm_compute. reflexivity. Qed.

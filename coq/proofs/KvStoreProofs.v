(* KvStoreProofs.v — the keyed stores refine a map tenant -> key -> value.
   Model: SigM.KvStore. *)
From Coq Require Import Lia.
From Coq Require Import ZifyN ZifyNat ZifyBool.
From SigM Require Import Base KvStore.
From SigP Require Import BaseProofs.
Open Scope N_scope.

(* ---- association lists ---- *)
Section AMapFacts.
  Context {K V : Type} (eqb : K -> K -> bool).
  Hypothesis eqb_eq : forall a b, eqb a b = true <-> a = b.

  Lemma eqb_refl_ a : eqb a a = true.
  Proof. apply eqb_eq. reflexivity. Qed.

  Lemma eqb_trans_false a b c : eqb a b = true -> eqb a c = false -> eqb b c = false.
  Proof.
    intros H1 H2. apply eqb_eq in H1. subst b. exact H2.
  Qed.

  Lemma a_get_put k (v : V) m k' :
    a_get eqb k' (a_put eqb k v m) = if eqb k k' then Some v else a_get eqb k' m.
  Proof.
    induction m as [|[k0 v0] r IH]; cbn [a_put a_get]; [reflexivity|].
    destruct (eqb k0 k) eqn:E0; cbn [a_get].
    - apply eqb_eq in E0. subst k0. destruct (eqb k k'); reflexivity.
    - rewrite IH. destruct (eqb k0 k') eqn:E1; [|reflexivity].
      apply eqb_eq in E1. subst k'.
      destruct (eqb k k0) eqn:E2; [|reflexivity].
      apply eqb_eq in E2. subst k0. rewrite eqb_refl_ in E0. discriminate.
  Qed.

  Lemma a_get_del k (m : list (K * V)) k' :
    a_get eqb k' (a_del eqb k m) = if eqb k k' then None else a_get eqb k' m.
  Proof.
    induction m as [|[k0 v0] r IH]; cbn [a_del a_get]; [destruct (eqb k k'); reflexivity|].
    destruct (eqb k0 k) eqn:E0; cbn [a_get].
    - apply eqb_eq in E0. subst k0. rewrite IH. destruct (eqb k k'); reflexivity.
    - rewrite IH. destruct (eqb k0 k') eqn:E1; [|reflexivity].
      apply eqb_eq in E1. subst k'.
      destruct (eqb k k0) eqn:E2; [|reflexivity].
      apply eqb_eq in E2. subst k0. rewrite eqb_refl_ in E0. discriminate.
  Qed.
End AMapFacts.

Lemma bytes_eqb_eq a : forall b, bytes_eqb a b = true <-> a = b.
Proof.
  unfold bytes_eqb. induction a as [|x a IH]; intros [|y b]; cbn [list_eqb]; split; try discriminate; auto.
  - intros H. apply andb_true_iff in H. destruct H as [H1 H2].
    apply N.eqb_eq in H1. apply IH in H2. congruence.
  - intros H. inversion H; subst. apply andb_true_iff. split; [apply N.eqb_refl|apply IH; reflexivity].
Qed.

Lemma bytes_eqb_refl a : bytes_eqb a a = true.
Proof. apply bytes_eqb_eq. reflexivity. Qed.

Lemma kv_get_put k v m k' : kv_get k' (kv_put k v m) = if bytes_eqb k k' then Some v else kv_get k' m.
Proof. apply (a_get_put bytes_eqb bytes_eqb_eq). Qed.
Lemma kv_get_del k m k' : kv_get k' (kv_del k m) = if bytes_eqb k k' then None else kv_get k' m.
Proof. apply (a_get_del bytes_eqb bytes_eqb_eq). Qed.
Lemma t_get_put {A} t (x : A) m t' : t_get t' (t_put t x m) = if N.eqb t t' then Some x else t_get t' m.
Proof. apply (a_get_put N.eqb N.eqb_eq). Qed.
Lemma t_get_del {A} t (m : list (tenant * A)) t' : t_get t' (t_del t m) = if N.eqb t t' then None else t_get t' m.
Proof. apply (a_get_del N.eqb N.eqb_eq). Qed.

(* ---- specification facts ---- *)
Definition speq (f g : spec) : Prop := forall t k, f t k = g t k.

Lemma spec_step_ext f g o : speq f g -> speq (spec_step f o) (spec_step g o).
Proof.
  intros H t k. destruct o; cbn [spec_step]; try apply H;
    match goal with |- context [if ?c then _ else _] => destruct c end; auto.
Qed.

Lemma spec_run_ext ops : forall f g, speq f g -> speq (spec_run ops f) (spec_run ops g).
Proof.
  induction ops as [|o r IH]; intros f g H; cbn [spec_run]; [exact H|].
  apply IH. apply spec_step_ext. exact H.
Qed.

(* operations that do not write (t, k) leave the specified value of (t, k) alone *)
Lemma spec_run_untouched ops : forall f t k,
  forallb (fun o => negb (op_writes t k o)) ops = true -> spec_run ops f t k = f t k.
Proof.
  induction ops as [|o r IH]; intros f t k H; cbn [spec_run]; [reflexivity|].
  cbn [forallb] in H. apply andb_true_iff in H. destruct H as [Ho Hr].
  rewrite IH by exact Hr.
  destruct o as [t0 k0 v|t0 k0|t0| | | |]; cbn [spec_step op_writes] in *; try reflexivity.
  - destruct (N.eqb t0 t && bytes_eqb k0 k); [discriminate|reflexivity].
  - destruct (N.eqb t0 t && bytes_eqb k0 k); [discriminate|reflexivity].
  - destruct (N.eqb t0 t); [discriminate|reflexivity].
Qed.

(* ---- (1) cached store ---- *)
(* whatever is in memory is what the tenant's file holds *)
Definition inv (s : store) : Prop :=
  forall t m, t_get t (mem s) = Some m -> t_get t (disk s) = Some m.

Lemma inv_empty : inv empty_store.
Proof. intros t m H. discriminate. Qed.

Lemma load_facts t s : inv s ->
  inv (load t s) /\ speq (abs (load t s)) (abs s) /\
  (forall k, abs s t k = kv_get k (cur t (load t s))) /\
  disk (load t s) = disk s /\
  (t_get t (mem (load t s)) = None -> t_get t (disk s) = None).
Proof.
  intros I. unfold load. destruct (t_get t (disk s)) as [m|] eqn:Ed.
  - split; [|split; [|split; [|split]]].
    + intros t' m'. cbn [mem disk]. rewrite t_get_put.
      destruct (N.eqb_spec t t') as [->|]; [intros H; inversion H; subst; exact Ed|apply I].
    + intros t' k. unfold abs. cbn [disk].
      destruct (t_get t' (disk s)) eqn:E'; [reflexivity|].
      unfold cur. cbn [mem]. rewrite t_get_put.
      destruct (N.eqb_spec t t') as [->|]; [congruence|reflexivity].
    + intros k. unfold abs, cur. cbn [mem]. rewrite Ed, t_get_put, N.eqb_refl. reflexivity.
    + reflexivity.
    + cbn [mem]. rewrite t_get_put, N.eqb_refl. discriminate.
  - split; [|split; [|split; [|split]]].
    + exact I.
    + intros t' k; reflexivity.
    + intros k. unfold abs. rewrite Ed. reflexivity.
    + reflexivity.
    + intros _. reflexivity.
Qed.

Lemma step_facts s o : inv s ->
  inv (fst (step s o)) /\ speq (abs (fst (step s o))) (spec_step (abs s) o).
Proof.
  intros I.
  destruct o as [t k v|t k|t|t k|t|t p|]; cbn [step spec_step];
    try (destruct (load_facts t s I) as (I1 & A1 & C1 & D1 & N1)).
  - (* Put *)
    cbn [fst]. split.
    + intros t' m'. cbn [mem disk]. rewrite !t_get_put.
      destruct (N.eqb_spec t t'); [auto|apply I1].
    + intros t' k'. unfold abs at 1. cbn [disk]. rewrite t_get_put.
      destruct (N.eqb_spec t t') as [<-|Hne]; cbn [andb].
      * rewrite kv_get_put. destruct (bytes_eqb k k'); [reflexivity|]. symmetry. apply C1.
      * rewrite <- (A1 t' k'). unfold abs.
        destruct (t_get t' (disk (load t s))); [reflexivity|].
        unfold cur. cbn [mem]. rewrite t_get_put.
        destruct (N.eqb_spec t t'); [contradiction|reflexivity].
  - (* Del *)
    destruct (t_get t (mem (load t s))) as [m|] eqn:Em.
    + destruct (kv_get k m) as [v0|] eqn:Ek; cbn [fst].
      * split.
        -- intros t' m'. cbn [mem disk]. rewrite !t_get_put.
           destruct (N.eqb_spec t t'); [auto|apply I1].
        -- intros t' k'. unfold abs at 1. cbn [disk]. rewrite t_get_put.
           destruct (N.eqb_spec t t') as [<-|Hne]; cbn [andb].
           ++ rewrite kv_get_del. destruct (bytes_eqb k k'); [reflexivity|].
              rewrite C1. unfold cur. rewrite Em. reflexivity.
           ++ rewrite <- (A1 t' k'). unfold abs.
              destruct (t_get t' (disk (load t s))); [reflexivity|].
              unfold cur. cbn [mem]. rewrite t_get_put.
              destruct (N.eqb_spec t t'); [contradiction|reflexivity].
      * split; [exact I1|]. intros t' k'. rewrite A1.
        destruct (N.eqb_spec t t') as [<-|]; cbn [andb]; [|reflexivity].
        destruct (bytes_eqb k k') eqn:Ekk; [|reflexivity].
        apply bytes_eqb_eq in Ekk. subst k'. rewrite C1. unfold cur. rewrite Em. exact Ek.
    + cbn [fst]. split; [exact I1|]. intros t' k'. rewrite A1.
      destruct (N.eqb_spec t t') as [<-|]; cbn [andb]; [|reflexivity].
      destruct (bytes_eqb k k') eqn:Ekk; [|reflexivity].
      rewrite C1. unfold cur. rewrite Em. destruct k'; reflexivity.
  - (* DelAll *)
    destruct (t_get t (mem (load t s))) as [m|] eqn:Em; cbn [fst].
    + split.
      * intros t' m'. cbn [mem disk]. rewrite !t_get_del.
        destruct (N.eqb_spec t t'); [discriminate|apply I1].
      * intros t' k'. unfold abs at 1. cbn [disk]. rewrite t_get_del.
        destruct (N.eqb_spec t t') as [<-|Hne].
        -- unfold cur. cbn [mem]. rewrite t_get_del, N.eqb_refl. destruct k'; reflexivity.
        -- rewrite <- (A1 t' k'). unfold abs.
           destruct (t_get t' (disk (load t s))); [reflexivity|].
           unfold cur. cbn [mem]. rewrite t_get_del.
           destruct (N.eqb_spec t t'); [contradiction|reflexivity].
    + split; [exact I1|]. intros t' k'. rewrite A1.
      destruct (N.eqb_spec t t') as [<-|]; [|reflexivity].
      rewrite C1. unfold cur. rewrite Em. destruct k'; reflexivity.
  - cbn [fst]. split; [exact I1|exact A1].
  - cbn [fst]. split; [exact I1|exact A1].
  - cbn [fst]. split; [exact I1|exact A1].
  - (* Restart *)
    cbn [fst]. split.
    + intros t m H. discriminate.
    + intros t k. unfold abs. cbn [disk].
      destruct (t_get t (disk s)) eqn:Ed; [reflexivity|].
      unfold cur. cbn [mem]. change (t_get t []) with (@None kvmap).
      destruct (t_get t (mem s)) as [m|] eqn:Em; [|reflexivity].
      apply I in Em. congruence.
Qed.

Lemma run_inv ops : forall s, inv s -> inv (run ops s).
Proof.
  induction ops as [|o r IH]; intros s I; cbn [run]; [exact I|].
  apply IH. apply step_facts. exact I.
Qed.

(* MAIN: for every sequence of create/update (Put), delete, delete-all, reads and restarts at
   any positions, what the store returns afterwards is what the plain map returns *)
Theorem kv_refines_map ops : forall s, inv s ->
  forall t k, abs (run ops s) t k = spec_run ops (abs s) t k.
Proof.
  induction ops as [|o r IH]; intros s I t k; cbn [run spec_run]; [reflexivity|].
  destruct (step_facts s o I) as [I' A'].
  rewrite IH by exact I'. apply spec_run_ext. exact A'.
Qed.

(* reads return the abstract state *)
Theorem get_returns_abs s t k : inv s -> snd (step s (Get t k)) = OVal (abs s t k).
Proof.
  intros I. cbn [step snd]. destruct (load_facts t s I) as (_ & _ & C & _). rewrite C. reflexivity.
Qed.

Theorem list_returns_abs s t : inv s ->
  exists l, snd (step s (ListAll t)) = OList l /\ forall k, kv_get k l = abs s t k.
Proof.
  intros I. cbn [step snd]. destruct (load_facts t s I) as (_ & _ & C & _).
  eexists; split; [reflexivity|]. intros k. symmetry. apply C.
Qed.

Theorem restart_preserves_abs s : inv s ->
  forall t k, abs (fst (step s Restart)) t k = abs s t k.
Proof. intros I t k. apply (proj2 (step_facts s Restart I)). Qed.

(* operations that do not write (t, k) — other keys, other tenants, reads, restarts — do not
   change what a read of (t, k) returns *)
Theorem keys_independent ops s t k : inv s ->
  forallb (fun o => negb (op_writes t k o)) ops = true ->
  abs (run ops s) t k = abs s t k.
Proof.
  intros I H. rewrite kv_refines_map by exact I. apply spec_run_untouched. exact H.
Qed.

Theorem tenants_independent ops s t : inv s ->
  (forall o, In o ops -> op_tenant o <> Some t) ->
  forall k, abs (run ops s) t k = abs s t k.
Proof.
  intros I H k. apply keys_independent; [exact I|].
  apply forallb_forall. intros o Ho. specialize (H o Ho).
  destruct o as [t0 ? ?|t0 ?|t0| | | |]; cbn [op_writes op_tenant negb] in *; try reflexivity;
    destruct (N.eqb_spec t0 t); subst; try reflexivity; exfalso; apply H; reflexivity.
Qed.

(* ---- (2) direct store ---- *)
Lemma dstep_abs s o : speq (dabs (fst (dstep s o))) (spec_step (dabs s) o).
Proof.
  intros t' k'. destruct o as [t k v|t k|t|t k|t|t p|]; cbn [dstep spec_step fst]; try reflexivity.
  - unfold dabs, dcur. rewrite t_get_put.
    destruct (N.eqb_spec t t') as [<-|]; cbn [andb]; [|reflexivity].
    rewrite kv_get_put. reflexivity.
  - destruct (kv_get k (dcur t s)) eqn:Ek; cbn [fst].
    + unfold dabs, dcur. rewrite t_get_put.
      destruct (N.eqb_spec t t') as [<-|]; cbn [andb]; [|reflexivity].
      rewrite kv_get_del. reflexivity.
    + destruct (N.eqb_spec t t') as [<-|]; cbn [andb]; [|reflexivity].
      destruct (bytes_eqb k k') eqn:Ekk; [|reflexivity].
      apply bytes_eqb_eq in Ekk. subst k'. exact Ek.
  - unfold dabs, dcur. rewrite t_get_del.
    destruct (N.eqb_spec t t') as [<-|]; [destruct k'; reflexivity|reflexivity].
Qed.

Theorem dkv_refines_map ops : forall s t k, dabs (drun ops s) t k = spec_run ops (dabs s) t k.
Proof.
  induction ops as [|o r IH]; intros s t k; cbn [drun spec_run]; [reflexivity|].
  rewrite IH. apply spec_run_ext. apply dstep_abs.
Qed.

(* ---- (3) alias store ---- *)
Definition nm_get_put k v m k' :
  nm_get k' (nm_put k v m) = if bytes_eqb k k' then v else nm_get k' m.
Proof.
  unfold nm_get, nm_put. rewrite (a_get_put bytes_eqb bytes_eqb_eq).
  destruct (bytes_eqb k k'); reflexivity.
Qed.
Definition nm_get_del k m k' :
  nm_get k' (nm_del k m) = if bytes_eqb k k' then [] else nm_get k' m.
Proof.
  unfold nm_get, nm_del. rewrite (a_get_del bytes_eqb bytes_eqb_eq).
  destruct (bytes_eqb k k'); reflexivity.
Qed.
Lemma t_nm_put t x m t' : t_nm t' (t_put t x m) = if N.eqb t t' then x else t_nm t' m.
Proof. unfold t_nm. rewrite t_get_put. destruct (N.eqb t t'); reflexivity. Qed.

(* everything below holds for EVERY set D of tenants that have an alias directory *)
Section AliasStore.
Context {D : Dirs}.

(* tenants without an alias directory never hold an alias file *)
Definition ainv (s : astore) : Prop :=
  forall t, adir_exists t = false -> t_nm t (afiles s) = [].

Definition aeq (f g : aspec) : Prop := forall t i, f t i = g t i.

Lemma aspec_step_ext f g o : aeq f g -> aeq (aspec_step f o) (aspec_step g o).
Proof.
  intros H t i. destruct o; cbn [aspec_step]; try apply H.
  - destruct (adir_exists t0); [|apply H].
    destruct (N.eqb t0 t && bytes_eqb idx i); [rewrite H; reflexivity|apply H].
  - destruct (N.eqb t0 t && bytes_eqb idx i); [rewrite H; reflexivity|apply H].
Qed.

Lemma aspec_run_ext ops : forall f g, aeq f g -> aeq (aspec_run ops f) (aspec_run ops g).
Proof.
  induction ops as [|o r IH]; intros f g H; cbn [aspec_run]; [exact H|].
  apply IH. apply aspec_step_ext. exact H.
Qed.

Lemma ns_del_nil x : ns_del x [] = [].
Proof. reflexivity. Qed.

Lemma astep_forward s o : ainv s -> is_shutdown o = false ->
  ainv (fst (astep s o)) /\ aeq (aabs (fst (astep s o))) (aspec_step (aabs s) o).
Proof.
  intros I Hs. destruct o as [t idx al|t idx al|t idx|t al| |]; try discriminate;
    cbn [astep aspec_step]; try (split; [exact I|intros ? ?; reflexivity]).
  - (* AAdd *)
    destruct (adir_exists t) eqn:Ed; cbn [fst]; [|split; [exact I|intros ? ?; reflexivity]].
    split.
    + intros t' Hd. cbn [afiles]. rewrite t_nm_put.
      destruct (N.eqb_spec t t'); [subst; congruence|apply I; exact Hd].
    + intros t' i'. unfold aabs. cbn [afiles]. rewrite t_nm_put.
      destruct (N.eqb_spec t t') as [<-|]; cbn [andb]; [|reflexivity].
      rewrite nm_get_put. destruct (bytes_eqb idx i') eqn:E; [|reflexivity].
      apply bytes_eqb_eq in E. subst i'. reflexivity.
  - (* ARemove *)
    set (fm := t_nm t (afiles s)).
    set (rev' := match a_get bytes_eqb al (t_nm t (arev s)) with Some _ => _ | None => _ end).
    assert (Hspec : forall files',
      (forall t', t_nm t' files' = if N.eqb t t' then
          (if adir_exists t then (match ns_del al (nm_get idx fm) with [] => nm_del idx fm | c => nm_put idx c fm end) else fm)
          else t_nm t' (afiles s)) ->
      ainv (mkAStore files' rev') /\
      aeq (aabs (mkAStore files' rev')) (fun t' i' => if N.eqb t t' && bytes_eqb idx i' then ns_del al (aabs s t' i') else aabs s t' i')).
    { intros files' Hf. split.
      - intros t' Hd. cbn [afiles]. rewrite Hf.
        destruct (N.eqb_spec t t') as [<-|]; [|apply I; exact Hd].
        rewrite Hd. apply I. exact Hd.
      - intros t' i'. unfold aabs. cbn [afiles]. rewrite Hf.
        destruct (N.eqb_spec t t') as [<-|]; cbn [andb]; [|reflexivity].
        fold fm. destruct (adir_exists t) eqn:Ed.
        + destruct (ns_del al (nm_get idx fm)) eqn:Ec.
          * rewrite nm_get_del. destruct (bytes_eqb idx i') eqn:E; [|reflexivity].
            apply bytes_eqb_eq in E. subst i'. rewrite Ec. reflexivity.
          * rewrite nm_get_put. destruct (bytes_eqb idx i') eqn:E; [|reflexivity].
            apply bytes_eqb_eq in E. subst i'. rewrite Ec. reflexivity.
        + destruct (bytes_eqb idx i') eqn:E; [|reflexivity].
          apply bytes_eqb_eq in E. subst i'.
          unfold fm. rewrite (I t Ed). reflexivity. }
    destruct (ns_del al (nm_get idx fm)) as [|c0 cr] eqn:Ec.
    + destruct (a_get bytes_eqb idx fm) as [x|] eqn:Eg; cbn [fst]; apply Hspec; intros t'.
      * rewrite t_nm_put. destruct (N.eqb_spec t t') as [<-|]; [|reflexivity].
        destruct (adir_exists t) eqn:Ed; [reflexivity|].
        exfalso. unfold fm in Eg. rewrite (I t Ed) in Eg. discriminate.
      * destruct (N.eqb_spec t t') as [<-|]; [|reflexivity].
        destruct (adir_exists t); [|reflexivity].
        fold fm.
        (* deleting an absent key changes nothing *)
        assert (Hd : nm_del idx fm = fm).
        { clear -Eg. unfold nm_del. induction fm as [|[k0 v0] r IH]; cbn [a_del]; [reflexivity|].
          cbn [a_get] in Eg. destruct (bytes_eqb k0 idx); [discriminate|]. rewrite IH by exact Eg. reflexivity. }
        symmetry. exact Hd.
    + destruct (adir_exists t) eqn:Ed; cbn [fst]; apply Hspec; intros t'.
      * rewrite t_nm_put. destruct (N.eqb_spec t t') as [<-|]; [|reflexivity]. rewrite ?Ed. reflexivity.
      * destruct (N.eqb_spec t t') as [<-|]; [|reflexivity]. rewrite ?Ed. reflexivity.
Qed.

Lemma ainv_empty : ainv empty_astore.
Proof. intros t _. reflexivity. Qed.

(* FORWARD alias files: for every sequence of add/remove/reads and process crashes+restarts
   (no clean shutdown), GetAliases(index) returns exactly the alias set written last *)
Theorem alias_forward_refines_map ops : forall s, ainv s ->
  forallb (fun o => negb (is_shutdown o)) ops = true ->
  forall t i, aabs (arun ops s) t i = aspec_run ops (aabs s) t i.
Proof.
  induction ops as [|o r IH]; intros s I H t i; cbn [arun aspec_run]; [reflexivity|].
  cbn [forallb] in H. apply andb_true_iff in H. destruct H as [Ho Hr].
  apply negb_true_iff in Ho.
  destruct (astep_forward s o I Ho) as [I' A'].
  rewrite IH by assumption. apply aspec_run_ext. exact A'.
Qed.

(* REVERSE lookup (IsAlias): consistent with the forward files as long as the process is not
   restarted ... *)
Definition rev_consistent (s : astore) : Prop :=
  forall t idx al,
    ns_mem idx (nm_get al (t_nm t (arev s))) = ns_mem al (nm_get idx (t_nm t (afiles s))).

Lemma ns_mem_add x y s : ns_mem x (ns_add y s) = bytes_eqb x y || ns_mem x s.
Proof.
  unfold ns_add. destruct (ns_mem y s) eqn:E.
  - destruct (bytes_eqb x y) eqn:Exy; [|reflexivity].
    apply bytes_eqb_eq in Exy. subst. rewrite E. reflexivity.
  - unfold ns_mem. rewrite existsb_app. cbn [existsb]. rewrite orb_false_r, orb_comm. reflexivity.
Qed.

Lemma ns_mem_del x y s : ns_mem x (ns_del y s) = negb (bytes_eqb y x) && ns_mem x s.
Proof.
  unfold ns_del, ns_mem. induction s as [|z s IH]; cbn [filter existsb]; [rewrite andb_false_r; reflexivity|].
  destruct (bytes_eqb y z) eqn:Eyz; cbn [negb existsb].
  - rewrite IH. apply bytes_eqb_eq in Eyz. subst z.
    destruct (bytes_eqb x y) eqn:Exy.
    + apply bytes_eqb_eq in Exy. subst. rewrite bytes_eqb_refl. reflexivity.
    + reflexivity.
  - rewrite IH. destruct (bytes_eqb x z) eqn:Exz; cbn [orb]; [|reflexivity].
    apply bytes_eqb_eq in Exz. subst z. rewrite Eyz. reflexivity.
Qed.

Lemma rev_add_all_get idx als : forall r al,
  ns_mem idx (nm_get al (rev_add_all idx als r)) = ns_mem al als || ns_mem idx (nm_get al r).
Proof.
  unfold rev_add_all. induction als as [|a als IH]; intros r al; cbn [fold_left]; [reflexivity|].
  rewrite IH. rewrite nm_get_put. cbn [ns_mem existsb].
  destruct (bytes_eqb a al) eqn:E.
  - apply bytes_eqb_eq in E. subst a. rewrite ns_mem_add, bytes_eqb_refl. cbn [orb].
    rewrite orb_true_r. rewrite bytes_eqb_refl. reflexivity.
  - assert (E' : bytes_eqb al a = false).
    { destruct (bytes_eqb al a) eqn:X; [|reflexivity]. apply bytes_eqb_eq in X. subst.
      rewrite bytes_eqb_refl in E. discriminate. }
    rewrite E'. cbn [orb]. reflexivity.
Qed.

Lemma rev_add_all_other idx als : forall r al i',
  bytes_eqb i' idx = false ->
  ns_mem i' (nm_get al (rev_add_all idx als r)) = ns_mem i' (nm_get al r).
Proof.
  unfold rev_add_all. induction als as [|a als IH]; intros r al i' Hne; cbn [fold_left]; [reflexivity|].
  rewrite IH by exact Hne. rewrite nm_get_put.
  destruct (bytes_eqb a al) eqn:E; [|reflexivity].
  apply bytes_eqb_eq in E. subst a. rewrite ns_mem_add, Hne. reflexivity.
Qed.

Lemma bytes_eqb_sym a b : bytes_eqb a b = bytes_eqb b a.
Proof.
  destruct (bytes_eqb a b) eqn:E.
  - apply bytes_eqb_eq in E. subst. symmetry. apply bytes_eqb_refl.
  - destruct (bytes_eqb b a) eqn:E2; [|reflexivity].
    apply bytes_eqb_eq in E2. subst. rewrite bytes_eqb_refl in E. discriminate.
Qed.

Lemma astep_rev s o : ainv s -> rev_consistent s -> is_restart o = false ->
  rev_consistent (fst (astep s o)).
Proof.
  intros I R Hr. destruct o as [t idx al|t idx al|t idx|t al| |]; try discriminate;
    cbn [astep]; try exact R.
  - (* AAdd *)
    destruct (adir_exists t) eqn:Ed; cbn [fst]; [|exact R].
    intros t' i' a'. cbn [afiles arev]. rewrite !t_nm_put.
    destruct (N.eqb_spec t t') as [<-|]; [|apply R].
    rewrite nm_get_put. destruct (bytes_eqb idx i') eqn:E.
    + apply bytes_eqb_eq in E. subst i'. rewrite rev_add_all_get.
      rewrite (R t idx a'). rewrite !ns_mem_add.
      destruct (bytes_eqb a' al); cbn [orb]; [reflexivity|].
      destruct (ns_mem a' (nm_get idx (t_nm t (afiles s)))); reflexivity.
    + rewrite rev_add_all_other by (rewrite bytes_eqb_sym; exact E). apply R.
  - (* ARemove *)
    set (fm := t_nm t (afiles s)).
    set (rm := t_nm t (arev s)).
    (* the reverse map after the removal *)
    assert (Hrev : forall rev',
      rev' = match a_get bytes_eqb al rm with
             | Some ixs => t_put t (nm_put al (ns_del idx ixs) rm) (arev s)
             | None => arev s end ->
      forall t' i' a', ns_mem i' (nm_get a' (t_nm t' rev')) =
        if N.eqb t t' && bytes_eqb al a' then negb (bytes_eqb idx i') && ns_mem i' (nm_get a' (t_nm t' (arev s)))
        else ns_mem i' (nm_get a' (t_nm t' (arev s)))).
    { intros rev' -> t' i' a'. destruct (a_get bytes_eqb al rm) as [ixs|] eqn:Eg.
      - rewrite t_nm_put. destruct (N.eqb_spec t t') as [<-|]; cbn [andb]; [|reflexivity].
        rewrite nm_get_put. destruct (bytes_eqb al a') eqn:E; [|reflexivity].
        apply bytes_eqb_eq in E. subst a'. rewrite ns_mem_del.
        fold rm. unfold nm_get. rewrite Eg. reflexivity.
      - destruct (N.eqb_spec t t') as [<-|]; cbn [andb]; [|reflexivity].
        destruct (bytes_eqb al a') eqn:E; [|reflexivity].
        apply bytes_eqb_eq in E. subst a'. fold rm. unfold nm_get. rewrite Eg.
        cbn. rewrite andb_false_r. reflexivity. }
    (* the forward files after the removal, whichever branch *)
    assert (Hgoal : forall files' rev',
      rev' = match a_get bytes_eqb al rm with
             | Some ixs => t_put t (nm_put al (ns_del idx ixs) rm) (arev s)
             | None => arev s end ->
      (forall t' i', nm_get i' (t_nm t' files') =
          if N.eqb t t' && bytes_eqb idx i' then ns_del al (nm_get i' (t_nm t' (afiles s)))
          else nm_get i' (t_nm t' (afiles s))) ->
      rev_consistent (mkAStore files' rev')).
    { intros files' rev' Hr' Hf t' i' a'. cbn [afiles arev].
      rewrite (Hrev rev' Hr'), Hf. rewrite (R t' i' a').
      destruct (N.eqb t t'); cbn [andb]; [|reflexivity].
      destruct (bytes_eqb idx i') eqn:E1; destruct (bytes_eqb al a') eqn:E2; cbn [negb andb];
        rewrite ?ns_mem_del, ?E2; cbn [negb andb]; try reflexivity.
    }
    assert (Hdelabs : forall m, a_get bytes_eqb idx m = None -> nm_del idx m = m).
    { intros m. unfold nm_del. induction m as [|[k0 v0] r IH]; cbn [a_del a_get]; [reflexivity|].
      destruct (bytes_eqb k0 idx); [discriminate|]. intros H. rewrite IH by exact H. reflexivity. }
    destruct (ns_del al (nm_get idx fm)) as [|c0 cr] eqn:Ec.
    + destruct (a_get bytes_eqb idx fm) as [x|] eqn:Eg; cbn [fst]; apply Hgoal; try reflexivity; intros t' i'.
      * rewrite t_nm_put. destruct (N.eqb_spec t t') as [<-|]; cbn [andb]; [|reflexivity].
        rewrite nm_get_del. fold fm. destruct (bytes_eqb idx i') eqn:E; [|reflexivity].
        apply bytes_eqb_eq in E. subst i'. rewrite Ec. reflexivity.
      * destruct (N.eqb_spec t t') as [<-|]; cbn [andb]; [|reflexivity].
        fold fm. destruct (bytes_eqb idx i') eqn:E; [|reflexivity].
        apply bytes_eqb_eq in E. subst i'. rewrite Ec.
        unfold nm_get in *. rewrite Eg. reflexivity.
    + destruct (adir_exists t) eqn:Ed; cbn [fst]; apply Hgoal; try reflexivity; intros t' i'.
      * rewrite t_nm_put. destruct (N.eqb_spec t t') as [<-|]; cbn [andb]; [|reflexivity].
        rewrite nm_get_put. fold fm. destruct (bytes_eqb idx i') eqn:E; [|reflexivity].
        apply bytes_eqb_eq in E. subst i'. rewrite Ec. reflexivity.
      * destruct (N.eqb_spec t t') as [<-|]; cbn [andb]; [|reflexivity].
        fold fm. destruct (bytes_eqb idx i') eqn:E; [|reflexivity].
        apply bytes_eqb_eq in E. subst i'. exfalso.
        unfold fm in Ec. rewrite (I t Ed) in Ec. discriminate.
Qed.

Lemma rev_consistent_empty : rev_consistent empty_astore.
Proof. intros t i a. reflexivity. Qed.

Lemma arun_ainv ops : forall s, ainv s -> forallb (fun o => negb (is_shutdown o)) ops = true -> ainv (arun ops s).
Proof.
  induction ops as [|o r IH]; intros s I H; cbn [arun]; [exact I|].
  cbn [forallb] in H. apply andb_true_iff in H. destruct H as [Ho Hr].
  apply negb_true_iff in Ho. apply IH; [|exact Hr]. apply astep_forward; assumption.
Qed.

(* ---- restarts (fixed code: every tenant's files are loaded at start; the shutdown flush
   rewrites <index>.json with the inverted in-memory map) ---- *)

Lemma fold_put_get (F : list N -> nset) l : forall fm i',
  nm_get i' (fold_left (fun fm idx => nm_put idx (F idx) fm) l fm) =
  if existsb (bytes_eqb i') l then F i' else nm_get i' fm.
Proof.
  induction l as [|a l IH]; intros fm i'; cbn [fold_left existsb]; [reflexivity|].
  rewrite IH, nm_get_put, (bytes_eqb_sym i' a).
  destruct (bytes_eqb a i') eqn:E; cbn [orb].
  - apply bytes_eqb_eq in E. subst a. destruct (existsb (bytes_eqb i') l); reflexivity.
  - reflexivity.
Qed.

Lemma a_get_key_present (m : nmap) k : forall v,
  a_get bytes_eqb k m = Some v -> existsb (fun kv => bytes_eqb (fst kv) k) m = true.
Proof.
  induction m as [|[k0 v0] r IH]; intros v H; cbn [a_get] in H; [discriminate|].
  cbn [existsb fst]. destruct (bytes_eqb k0 k); [reflexivity|]. cbn [orb]. eapply IH. exact H.
Qed.

Lemma nm_get_nonempty_key (m : nmap) k x :
  ns_mem x (nm_get k m) = true -> existsb (fun kv => bytes_eqb (fst kv) k) m = true.
Proof.
  unfold nm_get. destruct (a_get bytes_eqb k m) eqn:E; [|discriminate].
  intros _. eapply a_get_key_present. exact E.
Qed.

Lemma existsb_filter_eq (P : list N -> bool) al l :
  existsb (bytes_eqb al) (filter P l) = P al && existsb (bytes_eqb al) l.
Proof.
  induction l as [|a l IH]; cbn [filter existsb]; [rewrite andb_false_r; reflexivity|].
  destruct (P a) eqn:Ea; cbn [existsb]; rewrite IH.
  - destruct (bytes_eqb al a) eqn:E; cbn [orb]; [|reflexivity].
    apply bytes_eqb_eq in E. subst a. rewrite Ea. reflexivity.
  - destruct (bytes_eqb al a) eqn:E; cbn [orb]; [|reflexivity].
    apply bytes_eqb_eq in E. subst a. rewrite Ea. reflexivity.
Qed.

Lemma existsb_map_ {A B} (f : B -> bool) (g : A -> B) l :
  existsb f (map g l) = existsb (fun x => f (g x)) l.
Proof. induction l as [|a l IH]; cbn [map existsb]; [reflexivity|rewrite IH; reflexivity]. Qed.

Lemma existsb_ext_ {A} (f g : A -> bool) l : (forall x, f x = g x) -> existsb f l = existsb g l.
Proof. intros H. induction l as [|a l IH]; cbn [existsb]; [reflexivity|rewrite H, IH; reflexivity]. Qed.

Lemma ns_mem_inv_set al idx rm : ns_mem al (inv_set idx rm) = ns_mem idx (nm_get al rm).
Proof.
  unfold inv_set, ns_mem at 1. rewrite existsb_filter_eq.
  destruct (ns_mem idx (nm_get al rm)) eqn:E; cbn [andb]; [|reflexivity].
  apply nm_get_nonempty_key in E. rewrite existsb_map_.
  rewrite (existsb_ext_ _ (fun kv : list N * nset => bytes_eqb (fst kv) al)); [exact E|].
  intros [k v]. cbn [fst]. apply bytes_eqb_sym.
Qed.

Lemma flush_tenant_mem rm fm :
  (forall al i, ns_mem al (nm_get i fm) = ns_mem i (nm_get al rm)) ->
  forall al i, ns_mem al (nm_get i (flush_tenant rm fm)) = ns_mem al (nm_get i fm).
Proof.
  intros Hc al i. unfold flush_tenant.
  rewrite (fold_put_get (fun idx => inv_set idx rm)).
  destruct (existsb (bytes_eqb i) (flush_targets rm)); [|reflexivity].
  rewrite ns_mem_inv_set, Hc. reflexivity.
Qed.

Lemma flush_rev_facts s : rev_consistent s ->
  (forall t, adir_exists t = false -> t_nm t (flush_rev s) = t_nm t (afiles s)) /\
  (forall t i al, ns_mem al (nm_get i (t_nm t (flush_rev s))) = ns_mem al (nm_get i (t_nm t (afiles s)))).
Proof.
  intros R. unfold flush_rev.
  generalize (arev s) at 2 4. intros l.
  assert (G : forall acc,
    ((forall t, adir_exists t = false -> t_nm t acc = t_nm t (afiles s)) /\
     (forall t i al, ns_mem al (nm_get i (t_nm t acc)) = ns_mem al (nm_get i (t_nm t (afiles s))))) ->
    let acc' := fold_left (fun files tr =>
      let t := fst tr in
      if adir_exists t then t_put t (flush_tenant (t_nm t (arev s)) (t_nm t files)) files else files) l acc in
    (forall t, adir_exists t = false -> t_nm t acc' = t_nm t (afiles s)) /\
    (forall t i al, ns_mem al (nm_get i (t_nm t acc')) = ns_mem al (nm_get i (t_nm t (afiles s))))).
  { induction l as [|tr l IH]; intros acc [Q P]; cbn [fold_left]; [split; assumption|].
    apply IH. cbn zeta. destruct (adir_exists (fst tr)) eqn:Ed; [|split; assumption].
    split.
    - intros t Ht. rewrite t_nm_put. destruct (N.eqb_spec (fst tr) t); [subst; congruence|apply Q; exact Ht].
    - intros t i al. rewrite t_nm_put. destruct (N.eqb_spec (fst tr) t) as [<-|]; [|apply P].
      rewrite flush_tenant_mem; [apply P|].
      intros al' i'. rewrite P. symmetry. apply R. }
  apply G. split; intros; reflexivity.
Qed.

Lemma rebuild_fold_spec fm idx al l : forall r,
  ns_mem idx (nm_get al (fold_left (fun r ia => rev_add_all (fst ia) (nm_get (fst ia) fm) r) l r)) =
  (existsb (fun ia : list N * nset => bytes_eqb (fst ia) idx) l && ns_mem al (nm_get idx fm))
  || ns_mem idx (nm_get al r).
Proof.
  induction l as [|ia l IH]; intros r; cbn [fold_left existsb]; [reflexivity|].
  rewrite IH. destruct (bytes_eqb (fst ia) idx) eqn:E; cbn [orb].
  - apply bytes_eqb_eq in E. rewrite E. rewrite rev_add_all_get.
    destruct (existsb _ l), (ns_mem al (nm_get idx fm)), (ns_mem idx (nm_get al r)); reflexivity.
  - rewrite rev_add_all_other by (rewrite bytes_eqb_sym; exact E). reflexivity.
Qed.

Lemma rebuild_tenant_spec fm idx al :
  ns_mem idx (nm_get al (rebuild_tenant fm)) = ns_mem al (nm_get idx fm).
Proof.
  unfold rebuild_tenant. rewrite rebuild_fold_spec.
  change (nm_get al []) with (@nil (list N)). cbn [ns_mem existsb]. rewrite orb_false_r.
  destruct (ns_mem al (nm_get idx fm)) eqn:E; [|apply andb_false_r].
  apply nm_get_nonempty_key in E. rewrite E. reflexivity.
Qed.

Lemma t_nm_absent t' (l : list (tenant * nmap)) :
  existsb (fun tf => N.eqb (fst tf) t') l = false -> t_nm t' l = [].
Proof.
  unfold t_nm, t_get. induction l as [|[t0 x] l IH]; cbn [existsb a_get fst]; [reflexivity|].
  destruct (N.eqb t0 t'); [discriminate|]. exact IH.
Qed.

Lemma rebuild_rev_spec files t' : t_nm t' (rebuild_rev files) = rebuild_tenant (t_nm t' files).
Proof.
  unfold rebuild_rev.
  assert (G : forall l acc,
    t_nm t' (fold_left (fun acc tf => t_put (fst tf) (rebuild_tenant (t_nm (fst tf) files)) acc) l acc) =
    if existsb (fun tf : tenant * nmap => N.eqb (fst tf) t') l then rebuild_tenant (t_nm t' files) else t_nm t' acc).
  { induction l as [|tf l IH]; intros acc; cbn [fold_left existsb]; [reflexivity|].
    rewrite IH, t_nm_put. destruct (N.eqb_spec (fst tf) t') as [->|]; cbn [orb].
    - destruct (existsb _ l); reflexivity.
    - reflexivity. }
  rewrite G. destruct (existsb _ files) eqn:E; [reflexivity|].
  rewrite (t_nm_absent t' files E). reflexivity.
Qed.

Lemma rebuild_consistent files : rev_consistent (mkAStore files (rebuild_rev files)).
Proof.
  intros t idx al. cbn [afiles arev]. rewrite rebuild_rev_spec. apply rebuild_tenant_spec.
Qed.

(* sets are compared by membership: the shutdown flush may rewrite a file with the same aliases
   in another order *)
Definition meq (f g : aspec) : Prop := forall t i al, ns_mem al (f t i) = ns_mem al (g t i).

Lemma aspec_step_meq f g o : meq f g -> meq (aspec_step f o) (aspec_step g o).
Proof.
  intros H t i a. destruct o; cbn [aspec_step]; try apply H.
  - destruct (adir_exists t0); [|apply H].
    destruct (N.eqb t0 t && bytes_eqb idx i); [rewrite !ns_mem_add, H; reflexivity|apply H].
  - destruct (N.eqb t0 t && bytes_eqb idx i); [rewrite !ns_mem_del, H; reflexivity|apply H].
Qed.

Lemma aspec_run_meq ops : forall f g, meq f g -> meq (aspec_run ops f) (aspec_run ops g).
Proof.
  induction ops as [|o r IH]; intros f g H; cbn [aspec_run]; [exact H|].
  apply IH. apply aspec_step_meq. exact H.
Qed.

Lemma astep_full s o : ainv s -> rev_consistent s ->
  ainv (fst (astep s o)) /\ rev_consistent (fst (astep s o)) /\
  meq (aabs (fst (astep s o))) (aspec_step (aabs s) o).
Proof.
  intros I R. destruct (is_shutdown o) eqn:Es.
  - destruct o; try discriminate. cbn [astep fst aspec_step].
    destruct (flush_rev_facts s R) as [Q P]. split; [|split].
    + intros t Ht. cbn [afiles]. rewrite Q by exact Ht. apply I. exact Ht.
    + apply rebuild_consistent.
    + intros t i al. unfold aabs. cbn [afiles]. apply P.
  - destruct (astep_forward s o I Es) as [I' A']. split; [exact I'|]. split.
    + destruct (is_restart o) eqn:Er.
      * destruct o; try discriminate. cbn [astep fst]. apply rebuild_consistent.
      * apply astep_rev; assumption.
    + intros t i al. rewrite A'. reflexivity.
Qed.

Lemma arun_full ops : forall s, ainv s -> rev_consistent s ->
  ainv (arun ops s) /\ rev_consistent (arun ops s) /\
  meq (aabs (arun ops s)) (aspec_run ops (aabs s)).
Proof.
  induction ops as [|o r IH]; intros s I R; cbn [arun aspec_run].
  - split; [exact I|split; [exact R|intros ? ? ?; reflexivity]].
  - destruct (astep_full s o I R) as (I' & R' & M').
    destruct (IH _ I' R') as (I2 & R2 & M2). split; [exact I2|split; [exact R2|]].
    intros t i al. rewrite M2. apply aspec_run_meq. exact M'.
Qed.

(* FULL: for every sequence of adds, removes, reads, process crashes and CLEAN SHUTDOWNS followed
   by a start, and for every tenant, GetAliases(index) holds exactly the aliases written last
   (as a set) ... *)
Theorem alias_refines_map ops t i al :
  ns_mem al (aabs (arun ops empty_astore) t i) = ns_mem al (aspec_run ops (aabs empty_astore) t i).
Proof.
  destruct (arun_full ops empty_astore ainv_empty rev_consistent_empty) as (_ & _ & M). apply M.
Qed.

(* ... and IsAlias(alias) finds index i iff the file of index i lists the alias *)
Theorem alias_reverse_consistent ops : rev_consistent (arun ops empty_astore).
Proof.
  destruct (arun_full ops empty_astore ainv_empty rev_consistent_empty) as (_ & R & _). exact R.
Qed.

(* aliases survive a restart, graceful or not, for every tenant: from any reachable state the
   restart changes neither the alias set of any index nor (previous theorem) their reverse lookup *)
Theorem alias_restart_preserves ops o t i al : is_restart o = true ->
  ns_mem al (aabs (arun (ops ++ [o]) empty_astore) t i) = ns_mem al (aabs (arun ops empty_astore) t i).
Proof.
  intros Hr.
  assert (E : arun (ops ++ [o]) empty_astore = fst (astep (arun ops empty_astore) o)).
  { generalize empty_astore. induction ops as [|x r IH]; intros s0; cbn [app arun]; [reflexivity|apply IH]. }
  rewrite E.
  destruct (arun_full ops empty_astore ainv_empty rev_consistent_empty) as (I & R & _).
  destruct (astep_full _ o I R) as (_ & _ & M). rewrite M.
  destruct o; try discriminate; reflexivity.
Qed.

(* ---- several tenants (round h) ----
   [teq t f g]: the specs f and g agree on everything tenant t can read *)
Definition teq (t : tenant) (f g : aspec) : Prop := forall i al, ns_mem al (f t i) = ns_mem al (g t i).

Lemma aspec_step_teq t f g o : teq t f g -> teq t (aspec_step f o) (aspec_step g o).
Proof.
  intros H i a. destruct o; cbn [aspec_step]; try apply H.
  - destruct (adir_exists t0); [|apply H].
    destruct (N.eqb t0 t && bytes_eqb idx i); [rewrite !ns_mem_add, H; reflexivity|apply H].
  - destruct (N.eqb t0 t && bytes_eqb idx i); [rewrite !ns_mem_del, H; reflexivity|apply H].
Qed.

Lemma aspec_step_other t f o : aop_for t o = false -> teq t (aspec_step f o) f.
Proof.
  intros Ho i a. destruct o; cbn [aop_for] in Ho; try discriminate; cbn [aspec_step]; try reflexivity.
  - destruct (adir_exists t0); [|reflexivity]. rewrite Ho. reflexivity.
  - rewrite Ho. reflexivity.
Qed.

Lemma aspec_run_teq ops : forall t f g, teq t f g -> teq t (aspec_run ops f) (aspec_run ops g).
Proof.
  induction ops as [|o r IH]; intros t f g H; cbn [aspec_run]; [exact H|].
  apply IH. apply aspec_step_teq. exact H.
Qed.

Lemma aspec_run_filter ops : forall t f, teq t (aspec_run ops f) (aspec_run (filter (aop_for t) ops) f).
Proof.
  induction ops as [|o r IH]; intros t f; cbn [aspec_run filter]; [intros ? ?; reflexivity|].
  destruct (aop_for t o) eqn:Eo; cbn [aspec_run].
  - apply IH.
  - intros i a. rewrite <- (IH t f i a). apply aspec_run_teq. apply aspec_step_other. exact Eo.
Qed.

(* ONE TENANT'S OPERATIONS NEVER DISTURB ANOTHER'S, restarts and shutdown flushes included: what
   tenant t reads after ANY history of ANY number of tenants is what it reads after the history
   with every other tenant's operations deleted (the restarts stay) *)
Theorem alias_tenants_independent ops t i al :
  ns_mem al (aabs (arun ops empty_astore) t i) =
  ns_mem al (aabs (arun (filter (aop_for t) ops) empty_astore) t i).
Proof.
  rewrite !alias_refines_map. apply aspec_run_filter.
Qed.

(* ... the reverse lookups (IsAlias, GetAllAliasesAsMapArray, alias expansion) as well *)
Theorem alias_tenants_independent_reverse ops t idx al :
  ns_mem idx (nm_get al (t_nm t (arev (arun ops empty_astore)))) =
  ns_mem idx (nm_get al (t_nm t (arev (arun (filter (aop_for t) ops) empty_astore)))).
Proof.
  rewrite (alias_reverse_consistent ops t idx al).
  rewrite (alias_reverse_consistent (filter (aop_for t) ops) t idx al).
  apply alias_tenants_independent.
Qed.

(* WRITE-BACK AT SHUTDOWN, then load: from ANY state in which memory and files agree (reachable or
   not, any number of tenants), the shutdown flush followed by a start gives every tenant back
   exactly its own forward and reverse maps: load (flush s) t = s t *)
Theorem alias_flush_load_roundtrip s : ainv s -> rev_consistent s ->
  (forall t i al, ns_mem al (aabs (fst (astep s AShutdownRestart)) t i) = ns_mem al (aabs s t i)) /\
  (forall t idx al, ns_mem idx (nm_get al (t_nm t (arev (fst (astep s AShutdownRestart))))) =
                    ns_mem idx (nm_get al (t_nm t (arev s)))).
Proof.
  intros I R. destruct (astep_full s AShutdownRestart I R) as (_ & R' & M).
  split.
  - intros t i al. rewrite M. reflexivity.
  - intros t idx al. rewrite (R' t idx al), (R t idx al). apply M.
Qed.

(* the reverse lookup survives a restart, graceful or not, for every tenant *)
Theorem alias_restart_preserves_reverse ops o t idx al : is_restart o = true ->
  ns_mem idx (nm_get al (t_nm t (arev (arun (ops ++ [o]) empty_astore)))) =
  ns_mem idx (nm_get al (t_nm t (arev (arun ops empty_astore)))).
Proof.
  intros Hr. rewrite (alias_reverse_consistent (ops ++ [o]) t idx al).
  rewrite (alias_reverse_consistent ops t idx al). apply alias_restart_preserves. exact Hr.
Qed.

(* with at most one tenant in memory the loop body runs once: a scratch map shared between the
   iterations cannot be told from one allocated per iteration (why single-tenant histories do not
   distinguish the two) *)
Lemma shared_scratch_one_tenant s tr : arev s = [tr] -> flush_rev_shared s = flush_rev_scoped s.
Proof. intros H. unfold flush_rev_shared, flush_rev_scoped. rewrite H. reflexivity. Qed.

End AliasStore.

(* PRE-FIX documentation (about [arun_prefix]): tenant 0's alias files were not scanned at start, so
   after any restart IsAlias no longer found a stored alias ... *)
Theorem prefix_alias_reverse_lost_refuted (D : Dirs) :
  exists ops, ~ rev_consistent (arun_prefix ops empty_astore).
Proof.
  exists [AAdd 0 [105;49] [97;49]; ACrashRestart].
  intros H. specialize (H 0 [105;49] [97;49]). vm_compute in H. discriminate.
Qed.

(* ... and the shutdown flush wrote <alias>.json holding the index names: index i1 gets alias a1;
   shutdown + start; the store said that an index named a1 has the alias i1, which nobody wrote *)
Theorem prefix_alias_shutdown_flush_refuted (D : Dirs) :
  exists ops t i al,
    ns_mem al (aabs (arun_prefix ops empty_astore) t i) <> ns_mem al (aspec_run ops (aabs empty_astore) t i).
Proof.
  exists [AAdd 0 [105;49] [97;49]; AShutdownRestart], 0, [97;49], [105;49].
  vm_compute. discriminate.
Qed.

(* the same operations on the fixed code *)
Example alias_restart_fixed (D : Dirs) :
  snd (astep (arun [AAdd 0 [105;49] [97;49]; AShutdownRestart] empty_astore) (AIsAlias 0 [97;49])) = ASet [[105;49]] /\
  aabs (arun [AAdd 0 [105;49] [97;49]; AShutdownRestart] empty_astore) 0 [97;49] = [] /\
  aabs (arun [AAdd 0 [105;49] [97;49]; AShutdownRestart] empty_astore) 0 [105;49] = [[97;49]].
Proof. vm_compute. repeat split; reflexivity. Qed.

Example alias_guard_satisfiable (D : Dirs) :
  snd (astep (arun [AAdd 0 [105;49] [97;49]; AAdd 0 [105;50] [97;49]; ARemove 0 [105;49] [97;49]] empty_astore)
             (AIsAlias 0 [97;49])) = ASet [[105;50]].
Proof. vm_compute. reflexivity. Qed.

(* ---- round h: the scratch map of the shutdown flush shared between the tenants ([arun_shared]) ----
   two tenants with an alias directory (0 and 5), one alias each, shutdown + start: tenant 5 is
   answered that ITS index i1 has the alias a1, which only tenant 0 wrote *)
Theorem shared_scratch_flush_refuted :
  exists (D : Dirs) ops t i al,
    ns_mem al (aabs (arun_shared ops empty_astore) t i) <> ns_mem al (aspec_run ops (aabs empty_astore) t i).
Proof.
  exists [5], [AAdd 0 [105;49] [97;49]; AAdd 5 [105;50] [97;50]; AShutdownRestart], 5, [105;49], [97;49].
  vm_compute. discriminate.
Qed.

(* ... it also breaks tenant independence: tenant 5 reads something else than without tenant 0 *)
Theorem shared_scratch_flush_not_independent :
  exists (D : Dirs) ops t i al,
    ns_mem al (aabs (arun_shared ops empty_astore) t i) <>
    ns_mem al (aabs (arun_shared (filter (aop_for t) ops) empty_astore) t i).
Proof.
  exists [5], [AAdd 0 [105;49] [97;49]; AAdd 5 [105;50] [97;50]; AShutdownRestart], 5, [105;49], [97;49].
  vm_compute. discriminate.
Qed.

(* the same history on the model of the code, and with the per-tenant scratch map in the shape of
   the code ([arun_scoped]): every tenant reads its own aliases, forward and reverse; two tenants
   sharing an index NAME keep their own alias sets *)
Example alias_two_tenants_shutdown :
  let D : Dirs := [5] in
  let ops := [AAdd 0 [105;49] [97;49]; AAdd 5 [105;50] [97;50]; AAdd 5 [105;49] [97;51]; AShutdownRestart] in
  aabs (arun ops empty_astore) 5 [105;49] = [[97;51]] /\
  aabs (arun ops empty_astore) 5 [105;50] = [[97;50]] /\
  aabs (arun ops empty_astore) 0 [105;49] = [[97;49]] /\
  aabs (arun ops empty_astore) 0 [105;50] = [] /\
  snd (astep (arun ops empty_astore) (AIsAlias 5 [97;49])) = ASet [] /\
  snd (astep (arun ops empty_astore) (AIsAlias 0 [97;49])) = ASet [[105;49]] /\
  aabs (arun_scoped ops empty_astore) 5 [105;49] = [[97;51]] /\
  aabs (arun_scoped ops empty_astore) 0 [105;50] = [] /\
  (* the shared scratch map merges tenant 0's alias into tenant 5's file of the same index name *)
  aabs (arun_shared ops empty_astore) 5 [105;49] = [[97;49]; [97;51]].
Proof. vm_compute. repeat split; reflexivity. Qed.

(* a tenant without an alias directory stores nothing (the add is refused), with or without others *)
Example alias_no_directory_refused :
  let D : Dirs := [5] in
  snd (astep empty_astore (AAdd 7 [105;49] [97;49])) = AAck false /\
  snd (astep empty_astore (AAdd 5 [105;49] [97;49])) = AAck true.
Proof. vm_compute. split; reflexivity. Qed.

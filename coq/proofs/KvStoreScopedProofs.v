(* KvStoreScopedProofs.v — the shutdown flush of the alias store IN THE SHAPE OF THE GO CODE
   ([flush_rev_scoped]: a scratch map index -> aliases built per tenant by inverting the in-memory
   map alias -> indexes, then one file write per scratch entry) is correct for all histories.
   Model: SigM.KvStore ((3) alias store, [inv_merge], [write_all], [flush_rev_scoped],
   [astep_scoped], [arun_scoped]).  The proof-friendly form [flush_rev] is in SigP.KvStoreProofs. *)
From Coq Require Import List NArith Bool Lia.
From SigM Require Import Base KvStore.
From SigP Require Import BaseProofs KvStoreProofs.
Import ListNotations.
Open Scope N_scope.

(* ---- maps with unique keys (what a Go map is) ---- *)
Fixpoint nm_wf (m : nmap) : Prop :=
  match m with
  | [] => True
  | (k, _) :: r => a_get bytes_eqb k r = None /\ nm_wf r
  end.

Lemma nm_wf_nil : nm_wf [].
Proof. exact I. Qed.

(* [nm_wf] is "no key occurs twice" *)
Lemma a_get_none_notin k (m : nmap) : a_get bytes_eqb k m = None <-> ~ In k (map fst m).
Proof.
  induction m as [|[k0 v0] r IH]; cbn [a_get map fst In]; [split; [intros _ []|reflexivity]|].
  destruct (bytes_eqb k0 k) eqn:E.
  - apply bytes_eqb_eq in E. subst k0. split; [discriminate|]. intros H. exfalso. apply H. left. reflexivity.
  - rewrite IH. split.
    + intros H [H1|H1]; [|exact (H H1)]. subst k0. rewrite bytes_eqb_refl in E. discriminate.
    + intros H H1. apply H. right. exact H1.
Qed.

Lemma nm_wf_NoDup (m : nmap) : nm_wf m <-> NoDup (map fst m).
Proof.
  induction m as [|[k v] r IH]; cbn [nm_wf map fst].
  - split; [intros _; constructor|intros _; exact I].
  - rewrite a_get_none_notin, IH. split.
    + intros [H1 H2]. constructor; assumption.
    + intros H. inversion H; subst. split; assumption.
Qed.

Lemma nm_put_wf k v m : nm_wf m -> nm_wf (nm_put k v m).
Proof.
  unfold nm_put. induction m as [|[k0 v0] r IH]; cbn [a_put nm_wf].
  - intros _. split; [reflexivity|exact I].
  - intros [Hk Hr]. destruct (bytes_eqb k0 k) eqn:E; cbn [nm_wf].
    + apply bytes_eqb_eq in E. subst k0. split; assumption.
    + split; [|apply IH; exact Hr].
      rewrite (a_get_put bytes_eqb bytes_eqb_eq).
      rewrite bytes_eqb_sym, E. exact Hk.
Qed.

Lemma fold_nm_put_wf {A} (kf : nmap -> A -> list N) (vf : nmap -> A -> nset) l : forall m,
  nm_wf m -> nm_wf (fold_left (fun m x => nm_put (kf m x) (vf m x) m) l m).
Proof.
  induction l as [|x l IH]; intros m W; cbn [fold_left]; [exact W|].
  apply IH. apply nm_put_wf. exact W.
Qed.

Lemma rev_add_all_wf idx als r : nm_wf r -> nm_wf (rev_add_all idx als r).
Proof.
  unfold rev_add_all.
  apply (fold_nm_put_wf (fun _ al => al) (fun r al => ns_add idx (nm_get al r))).
Qed.

Lemma rebuild_tenant_wf fm : nm_wf (rebuild_tenant fm).
Proof.
  unfold rebuild_tenant.
  assert (G : forall l r, nm_wf r ->
    nm_wf (fold_left (fun r (ia : list N * nset) => rev_add_all (fst ia) (nm_get (fst ia) fm) r) l r)).
  { induction l as [|ia l IH]; intros r W; cbn [fold_left]; [exact W|].
    apply IH. apply rev_add_all_wf. exact W. }
  apply G. exact I.
Qed.

Lemma inv_merge_inner_wf al ixs sc : nm_wf sc ->
  nm_wf (fold_left (fun sc idx => nm_put idx (ns_add al (nm_get idx sc)) sc) ixs sc).
Proof.
  apply (fold_nm_put_wf (fun _ idx => idx) (fun sc idx => ns_add al (nm_get idx sc))).
Qed.

Lemma inv_merge_wf rm : forall sc, nm_wf sc -> nm_wf (inv_merge rm sc).
Proof.
  unfold inv_merge. induction rm as [|ai rm IH]; intros sc W; cbn [fold_left]; [exact W|].
  apply IH. apply inv_merge_inner_wf. exact W.
Qed.

(* with unique keys, "some entry of the map has key a and lists i" is the lookup of a *)
Lemma wf_exists_get m a i : nm_wf m ->
  existsb (fun ai : list N * nset => bytes_eqb (fst ai) a && ns_mem i (snd ai)) m = ns_mem i (nm_get a m).
Proof.
  induction m as [|[k v] r IH]; cbn [nm_wf existsb fst snd]; [reflexivity|].
  intros [Hk Hr]. rewrite (IH Hr). unfold nm_get. cbn [a_get].
  destruct (bytes_eqb k a) eqn:E; cbn [andb orb]; [|reflexivity].
  apply bytes_eqb_eq in E. subst k. rewrite Hk. cbn. apply orb_false_r.
Qed.

(* ---- the scratch map: inversion of the in-memory map ---- *)
Lemma inv_merge_inner_mem al0 a i ixs : forall sc,
  ns_mem a (nm_get i (fold_left (fun sc idx => nm_put idx (ns_add al0 (nm_get idx sc)) sc) ixs sc)) =
  (bytes_eqb al0 a && ns_mem i ixs) || ns_mem a (nm_get i sc).
Proof.
  induction ixs as [|idx ixs IH]; intros sc; cbn [fold_left].
  - cbn. rewrite andb_false_r. reflexivity.
  - rewrite IH. rewrite nm_get_put.
    change (ns_mem i (idx :: ixs)) with (bytes_eqb i idx || ns_mem i ixs).
    rewrite (bytes_eqb_sym i idx).
    destruct (bytes_eqb idx i) eqn:E; cbn [orb].
    + apply bytes_eqb_eq in E. subst idx. rewrite ns_mem_add.
      rewrite (bytes_eqb_sym a al0).
      destruct (bytes_eqb al0 a), (ns_mem i ixs), (ns_mem a (nm_get i sc)); reflexivity.
    + reflexivity.
Qed.

Lemma inv_merge_mem a i rm : forall sc,
  ns_mem a (nm_get i (inv_merge rm sc)) =
  existsb (fun ai : list N * nset => bytes_eqb (fst ai) a && ns_mem i (snd ai)) rm || ns_mem a (nm_get i sc).
Proof.
  unfold inv_merge. induction rm as [|ai rm IH]; intros sc; cbn [fold_left existsb]; [reflexivity|].
  rewrite IH, inv_merge_inner_mem.
  rewrite orb_assoc. f_equal. apply orb_comm.
Qed.

(* the scratch map of a tenant whose in-memory map has unique keys holds, for every index, exactly
   the aliases that list the index *)
Lemma inv_merge_spec rm a i : nm_wf rm ->
  ns_mem a (nm_get i (inv_merge rm [])) = ns_mem i (nm_get a rm).
Proof.
  intros W. rewrite inv_merge_mem, (wf_exists_get rm a i W).
  change (nm_get i []) with (@nil (list N)). cbn. apply orb_false_r.
Qed.

(* ---- the writes: one file per scratch entry ---- *)
Lemma write_all_get i sc : forall fm, nm_wf sc ->
  nm_get i (write_all sc fm) =
  match a_get bytes_eqb i sc with Some v => v | None => nm_get i fm end.
Proof.
  unfold write_all. induction sc as [|[k v] r IH]; intros fm; cbn [fold_left nm_wf a_get fst snd]; [reflexivity|].
  intros [Hk Hr]. rewrite (IH _ Hr). rewrite nm_get_put.
  destruct (bytes_eqb k i) eqn:E; [|reflexivity].
  apply bytes_eqb_eq in E. subst k. rewrite Hk. reflexivity.
Qed.

(* the code-shaped flush of ONE tenant changes no alias set when files and memory agree *)
Lemma scoped_tenant_mem rm fm : nm_wf rm ->
  (forall al i, ns_mem al (nm_get i fm) = ns_mem i (nm_get al rm)) ->
  forall al i, ns_mem al (nm_get i (write_all (inv_merge rm []) fm)) = ns_mem al (nm_get i fm).
Proof.
  intros W Hc al i.
  rewrite write_all_get by (apply inv_merge_wf; exact I).
  pose proof (inv_merge_spec rm al i W) as Hs. unfold nm_get in Hs at 1.
  destruct (a_get bytes_eqb i (inv_merge rm [])) as [v|]; [|reflexivity].
  rewrite Hs, Hc. reflexivity.
Qed.

Section ScopedFlush.
Context {D : Dirs}.

(* every tenant's in-memory map has unique keys *)
Definition awf (s : astore) : Prop := forall t, nm_wf (t_nm t (arev s)).

Lemma awf_empty : awf empty_astore.
Proof. intros t. exact I. Qed.

Lemma rebuild_rev_wf files t : nm_wf (t_nm t (rebuild_rev files)).
Proof. rewrite rebuild_rev_spec. apply rebuild_tenant_wf. Qed.

Lemma astep_awf s o : awf s -> awf (fst (astep s o)).
Proof.
  intros W. unfold awf. destruct o as [t idx al|t idx al|t idx|t al| |]; cbn [astep]; try exact W.
  - (* AAdd *)
    destruct (adir_exists t); cbn [fst]; [|exact W].
    intros t'. cbn [arev]. rewrite t_nm_put.
    destruct (N.eqb t t'); [apply rev_add_all_wf|]; apply W.
  - (* ARemove *)
    set (fm := t_nm t (afiles s)).
    set (rev' := match a_get bytes_eqb al (t_nm t (arev s)) with Some _ => _ | None => _ end).
    assert (Hrev : forall t', nm_wf (t_nm t' rev')).
    { intros t'. unfold rev'. destruct (a_get bytes_eqb al (t_nm t (arev s))) as [ixs|]; [|apply W].
      rewrite t_nm_put. destruct (N.eqb t t'); [apply nm_put_wf|]; apply W. }
    destruct (ns_del al (nm_get idx fm));
      [destruct (a_get bytes_eqb idx fm)|destruct (adir_exists t)]; cbn [fst arev]; exact Hrev.
  - (* ACrashRestart *)
    cbn [fst arev]. intros t'. apply rebuild_rev_wf.
  - (* AShutdownRestart *)
    cbn [fst arev]. intros t'. apply rebuild_rev_wf.
Qed.

(* the code-shaped flush: tenants without a directory are not touched, and no alias set changes *)
Lemma flush_rev_scoped_fold s l : rev_consistent s -> awf s -> forall acc,
  ((forall t, adir_exists t = false -> t_nm t acc = t_nm t (afiles s)) /\
   (forall t i al, ns_mem al (nm_get i (t_nm t acc)) = ns_mem al (nm_get i (t_nm t (afiles s))))) ->
  let acc' := fold_left (fun files (tr : tenant * nmap) =>
    let t := fst tr in
    if adir_exists t then t_put t (write_all (inv_merge (t_nm t (arev s)) []) (t_nm t files)) files else files) l acc in
  (forall t, adir_exists t = false -> t_nm t acc' = t_nm t (afiles s)) /\
  (forall t i al, ns_mem al (nm_get i (t_nm t acc')) = ns_mem al (nm_get i (t_nm t (afiles s)))).
Proof.
  intros R W. induction l as [|tr l IH]; intros acc [Q P]; cbn [fold_left]; [split; assumption|].
  apply IH. cbn zeta. destruct (adir_exists (fst tr)) eqn:Ed; [|split; assumption].
  split.
  - intros t Ht. rewrite t_nm_put. destruct (N.eqb_spec (fst tr) t); [subst; congruence|apply Q; exact Ht].
  - intros t i al. rewrite t_nm_put. destruct (N.eqb_spec (fst tr) t) as [<-|]; [|apply P].
    rewrite scoped_tenant_mem; [apply P|apply W|].
    intros al' i'. rewrite P. symmetry. apply R.
Qed.

Lemma flush_rev_scoped_facts s : rev_consistent s -> awf s ->
  (forall t, adir_exists t = false -> t_nm t (flush_rev_scoped s) = t_nm t (afiles s)) /\
  (forall t i al, ns_mem al (nm_get i (t_nm t (flush_rev_scoped s))) = ns_mem al (nm_get i (t_nm t (afiles s)))).
Proof.
  intros R W. unfold flush_rev_scoped.
  apply (flush_rev_scoped_fold s (arev s) R W (afiles s)).
  split; intros; reflexivity.
Qed.

(* the code-shaped flush and the proof-friendly one write the same alias sets *)
Lemma flush_rev_scoped_eq_flush_rev s : rev_consistent s -> awf s ->
  forall t i al, ns_mem al (nm_get i (t_nm t (flush_rev_scoped s))) = ns_mem al (nm_get i (t_nm t (flush_rev s))).
Proof.
  intros R W t i al.
  destruct (flush_rev_scoped_facts s R W) as [_ P]. destruct (flush_rev_facts s R) as [_ P'].
  rewrite P, P'. reflexivity.
Qed.

Lemma astep_scoped_not_shutdown s o : is_shutdown o = false -> astep_scoped s o = astep s o.
Proof. destruct o; try discriminate; reflexivity. Qed.

Lemma astep_scoped_full s o : ainv s -> rev_consistent s -> awf s ->
  ainv (fst (astep_scoped s o)) /\ rev_consistent (fst (astep_scoped s o)) /\ awf (fst (astep_scoped s o)) /\
  meq (aabs (fst (astep_scoped s o))) (aspec_step (aabs s) o).
Proof.
  intros I R W. destruct (is_shutdown o) eqn:Es.
  - destruct o; try discriminate. cbn [astep_scoped fst aspec_step].
    destruct (flush_rev_scoped_facts s R W) as [Q P]. split; [|split; [|split]].
    + intros t Ht. cbn [afiles]. rewrite Q by exact Ht. apply I. exact Ht.
    + apply rebuild_consistent.
    + intros t. cbn [arev]. apply rebuild_rev_wf.
    + intros t i al. unfold aabs. cbn [afiles]. apply P.
  - rewrite (astep_scoped_not_shutdown s o Es).
    destruct (astep_full s o I R) as (I' & R' & M'). split; [exact I'|split; [exact R'|split; [|exact M']]].
    apply astep_awf. exact W.
Qed.

Lemma arun_scoped_full ops : forall s, ainv s -> rev_consistent s -> awf s ->
  ainv (arun_scoped ops s) /\ rev_consistent (arun_scoped ops s) /\ awf (arun_scoped ops s) /\
  meq (aabs (arun_scoped ops s)) (aspec_run ops (aabs s)).
Proof.
  induction ops as [|o r IH]; intros s I R W; cbn [arun_scoped aspec_run].
  - split; [exact I|split; [exact R|split; [exact W|intros ? ? ?; reflexivity]]].
  - destruct (astep_scoped_full s o I R W) as (I' & R' & W' & M').
    destruct (IH _ I' R' W') as (I2 & R2 & W2 & M2).
    split; [exact I2|split; [exact R2|split; [exact W2|]]].
    intros t i al. rewrite M2. apply aspec_run_meq. exact M'.
Qed.

(* THE CODE-SHAPED SHUTDOWN FLUSH IS CORRECT: with the scratch map index -> aliases allocated per
   tenant (inversion of the in-memory map, then one file write per scratch entry), for every
   history of adds, removes, reads, crashes and clean shutdowns of any number of tenants,
   GetAliases(index) holds exactly the aliases written last (as a set) ... *)
Theorem alias_scoped_refines_map ops t i al :
  ns_mem al (aabs (arun_scoped ops empty_astore) t i) = ns_mem al (aspec_run ops (aabs empty_astore) t i).
Proof.
  destruct (arun_scoped_full ops empty_astore ainv_empty rev_consistent_empty awf_empty) as (_ & _ & _ & M).
  apply M.
Qed.

(* ... and IsAlias(alias) finds index i iff the file of index i lists the alias *)
Theorem alias_scoped_reverse_consistent ops : rev_consistent (arun_scoped ops empty_astore).
Proof.
  destruct (arun_scoped_full ops empty_astore ainv_empty rev_consistent_empty awf_empty) as (_ & R & _).
  exact R.
Qed.

(* the code-shaped run and the proof-friendly run cannot be told apart by any read *)
Theorem alias_scoped_eq_model ops t i al :
  ns_mem al (aabs (arun_scoped ops empty_astore) t i) = ns_mem al (aabs (arun ops empty_astore) t i).
Proof. rewrite alias_scoped_refines_map, alias_refines_map. reflexivity. Qed.

End ScopedFlush.

